/-
Helper lemmas about `splitOffFrontMatter` (Comrak/FrontMatter.lean): every text is a line-end-free
content followed by nothing or by a line ending and more text (`decomp`); on that shape the loop and
the line splitter unfold by one line (`closeLoop_eof`, `closeLoop_line`, `lines_noEol`,
`lines_line`); soundness and completeness of the loop by induction on the fuel.
-/
import Comrak.FrontMatter
import Comrak.Lemmas.Feed
namespace Comrak.FrontMatter
open Comrak Bytes Comrak.Feed

theorem take_len_add (X B : Bytes) (k : Nat) : (X ++ B).take (X.length + k) = X ++ B.take k := by
  induction X with
  | nil => simp
  | cons a X ih => simp [Nat.succ_add, ih]

theorem drop_len_add (X B : Bytes) (k : Nat) : (X ++ B).drop (X.length + k) = B.drop k := by
  induction X with
  | nil => simp
  | cons a X ih => simp [Nat.succ_add, ih]

theorem drop_len (X B : Bytes) : (X ++ B).drop X.length = B := by
  simp

theorem take_len (X B : Bytes) : (X ++ B).take X.length = X := by
  simp

theorem isLineEnd_false (b : UInt8) (h : isLineEnd b = false) : b ≠ 0x0A ∧ b ≠ 0x0D := by
  simp [isLineEnd] at h
  exact h

theorem isLineEnd_true (b : UInt8) (h : isLineEnd b = true) : b = 0x0A ∨ b = 0x0D := by
  simpa [isLineEnd] using h

theorem isEol_length_pos (e : Bytes) (h : IsEol e) : 0 < e.length := by
  rcases h with rfl | rfl | rfl <;> simp

theorem isEol_head (e : Bytes) (h : IsEol e) : ∃ b r, e = b :: r ∧ isLineEnd b = true := by
  rcases h with rfl | rfl | rfl
  · exact ⟨_, _, rfl, by decide⟩
  · exact ⟨_, _, rfl, by decide⟩
  · exact ⟨_, _, rfl, by decide⟩

theorem scanLine_append (c t : Bytes) (hc : noEol c)
    (ht : t = [] ∨ ∃ b r, t = b :: r ∧ isLineEnd b = true) : scanLine (c ++ t) = (c, t) := by
  induction c with
  | nil =>
    rcases ht with rfl | ⟨b, r, rfl, hb⟩
    · rfl
    · simp [scanLine, hb]
  | cons a c ih =>
    have ha : isLineEnd a = false := hc a (by simp)
    have hc' : noEol c := fun b hb => hc b (by simp [hb])
    simp [scanLine, ha, ih hc']

/-- Every text is a line-end-free content followed by nothing or by a line ending and more text. -/
theorem decomp (rem : Bytes) : ∃ c t, rem = c ++ t ∧ noEol c ∧
    (t = [] ∨ ∃ e x, IsEol e ∧ Junction e x ∧ t = e ++ x) := by
  induction rem with
  | nil => exact ⟨[], [], rfl, by simp [noEol], Or.inl rfl⟩
  | cons b r ih =>
    by_cases hb : isLineEnd b = true
    · refine ⟨[], b :: r, rfl, by simp [noEol], Or.inr ?_⟩
      rcases isLineEnd_true b hb with rfl | rfl
      · exact ⟨[0x0A], r, Or.inl rfl, by simp [Junction], rfl⟩
      · cases r with
        | nil => exact ⟨[0x0D], [], Or.inr (Or.inr rfl), by simp [Junction], rfl⟩
        | cons c r' =>
          by_cases hc : c = 0x0A
          · subst hc
            exact ⟨[0x0D, 0x0A], r', Or.inr (Or.inl rfl), by simp [Junction], rfl⟩
          · exact ⟨[0x0D], c :: r', Or.inr (Or.inr rfl), by simp [Junction, hc], rfl⟩
    · obtain ⟨c, t, hr, hc, ht⟩ := ih
      refine ⟨b :: c, t, by simp [hr], ?_, ht⟩
      intro x hx
      rcases List.mem_cons.mp hx with rfl | hx
      · simpa using hb
      · exact hc x hx

theorem lineEndingLen_eol (e x : Bytes) (he : IsEol e) (hj : Junction e x) :
    lineEndingLen (e ++ x) = e.length := by
  rcases he with rfl | rfl | rfl
  · simp [lineEndingLen]
  · simp [lineEndingLen]
  · cases x with
    | nil => simp [lineEndingLen]
    | cons c r =>
      have hc : c ≠ 0x0A := by simpa [Junction] using hj
      simp [lineEndingLen, hc]

/-- A text either starts with a line ending or with none. -/
theorem eol_or_not (x : Bytes) :
    (lineEndingLen x = 0 ∧ (x = [] ∨ ∃ b r, x = b :: r ∧ isLineEnd b = false)) ∨
    (∃ e y, IsEol e ∧ Junction e y ∧ x = e ++ y) := by
  obtain ⟨c, t, hx, hc, ht⟩ := decomp x
  cases c with
  | nil =>
    rcases ht with rfl | h
    · left; subst hx; exact ⟨rfl, Or.inl rfl⟩
    · right; obtain ⟨e, y, he, hj, rfl⟩ := h; exact ⟨e, y, he, hj, by simpa using hx⟩
  | cons b c =>
    left
    have hb := hc b (by simp)
    obtain ⟨h1, h2⟩ := isLineEnd_false b hb
    subst hx
    exact ⟨by simp [lineEndingLen, h1, h2], Or.inr ⟨b, c ++ t, rfl, hb⟩⟩

theorem closeLoop_eof (d c : Bytes) (f : Nat) (hc : noEol c) :
    closeLoop d (f + 1) c = if c = d then some (c, []) else none := by
  have hs := scanLine_append c [] hc (Or.inl rfl)
  simp only [List.append_nil] at hs
  simp [closeLoop, hs, lineEndingLen]

theorem closeLoop_line (d c e x : Bytes) (f : Nat) (hc : noEol c) (he : IsEol e) (hj : Junction e x) :
    closeLoop d (f + 1) (c ++ e ++ x) =
      if c = d then some (c ++ e ++ x.take (lineEndingLen x), x.drop (lineEndingLen x))
      else (closeLoop d f x).map fun p => (c ++ e ++ p.1, p.2) := by
  have hs : scanLine (c ++ e ++ x) = (c, e ++ x) := by
    rw [List.append_assoc]
    apply scanLine_append c (e ++ x) hc
    obtain ⟨b, r, rfl, hb⟩ := isEol_head e he
    exact Or.inr ⟨b, r ++ x, rfl, hb⟩
  have hl := lineEndingLen_eol e x he hj
  have hpos := isEol_length_pos e he
  have hne : e.length ≠ 0 := by omega
  simp only [closeLoop, hs, hl, drop_len, take_len, take_len_add, drop_len_add, hne, if_false]
  simp

/-! lines -/

theorem rawLines_flag (x : Bytes) (h : x.head? ≠ some 0x0A) :
    rawLines [] true x = rawLines [] false x := by
  cases x with
  | nil => rfl
  | cons b r =>
    have hb : b ≠ 0x0A := by simpa using h
    simp [rawLines, hb]

theorem rawLines_line (cur c e x : Bytes) (hc : noEol c) (he : IsEol e) (hj : Junction e x) :
    rawLines cur false (c ++ e ++ x) = (cur ++ c) :: rawLines [] false x := by
  induction c generalizing cur with
  | nil =>
    rcases he with rfl | rfl | rfl
    · simp [rawLines]
    · simp [rawLines]
    · have := rawLines_flag x (hj rfl)
      simp [rawLines, this]
  | cons b c ih =>
    obtain ⟨h1, h2⟩ := isLineEnd_false b (hc b (by simp))
    have hc' : noEol c := fun y hy => hc y (by simp [hy])
    simp only [List.cons_append, rawLines, h1, h2, if_false]
    have := ih (cur ++ [b]) hc'
    simpa using this

theorem rawLines_noEol (cur c : Bytes) (hc : noEol c) :
    rawLines cur false c = if cur ++ c = [] then [] else [cur ++ c] := by
  induction c generalizing cur with
  | nil => simp [rawLines]
  | cons b c ih =>
    obtain ⟨h1, h2⟩ := isLineEnd_false b (hc b (by simp))
    have hc' : noEol c := fun y hy => hc y (by simp [hy])
    simp only [rawLines, h1, h2, if_false]
    rw [ih _ hc']
    simp

theorem lines_line (c e x : Bytes) (hc : noEol c) (he : IsEol e) (hj : Junction e x) :
    lines (c ++ e ++ x) = c :: lines x := by
  simpa [lines] using rawLines_line [] c e x hc he hj

theorem lines_noEol (c : Bytes) (hc : noEol c) : lines c = if c = [] then [] else [c] := by
  simpa [lines] using rawLines_noEol [] c hc

theorem rawLines_head (cur r : Bytes) (cr : Bool) (h : cur ≠ []) :
    (rawLines cur cr r).head? ≠ some [] := by
  induction r generalizing cur cr with
  | nil => simp [rawLines, h]
  | cons b r ih =>
    simp only [rawLines]
    split
    · split
      · exact ih cur false h
      · simpa using h
    · split
      · simpa using h
      · exact ih _ false (by simp)

theorem lines_head_nonblank (x : Bytes) (h : x = [] ∨ ∃ b r, x = b :: r ∧ isLineEnd b = false) :
    (lines x).head? ≠ some [] := by
  rcases h with rfl | ⟨b, r, rfl, hb⟩
  · simp [lines, rawLines]
  · obtain ⟨h1, h2⟩ := isLineEnd_false b hb
    simp only [lines, rawLines, h1, h2, if_false]
    exact rawLines_head _ r false (by simp)

theorem junction_prefix (e a rest : Bytes) (hj : Junction e (a ++ rest)) (ha : a ≠ []) : Junction e a := by
  intro he
  have := hj he
  cases a with
  | nil => exact absurd rfl ha
  | cons b a => simpa using this

/-! soundness -/

/-- What `closeLoop` returns. -/
theorem closeLoop_sound (d : Bytes) (hd : d ≠ []) : ∀ (fuel : Nat) (rem a rest : Bytes),
    closeLoop d fuel rem = some (a, rest) →
    rem = a ++ rest ∧ noEol d ∧ lines rem = lines a ++ lines rest ∧
    ∃ body, d ∉ body ∧
      ((lines a = body ++ [d] ∧ (lines rest).head? ≠ some []) ∨ lines a = body ++ [d, []]) := by
  intro fuel
  induction fuel with
  | zero => intro rem a rest h; simp [closeLoop] at h
  | succ f ih =>
    intro rem a rest h
    obtain ⟨c, t, hrem, hc, ht⟩ := decomp rem
    rcases ht with rfl | ⟨e, x, he, hj, rfl⟩
    · -- last line, unterminated
      simp only [List.append_nil] at hrem
      subst hrem
      rw [closeLoop_eof d _ f hc] at h
      split at h
      · rename_i hcd
        subst hcd
        simp only [Option.some.injEq, Prod.mk.injEq] at h
        obtain ⟨rfl, rfl⟩ := h
        refine ⟨by simp, hc, by simp [lines, rawLines], [], by simp, Or.inl ⟨?_, by simp [lines, rawLines]⟩⟩
        rw [lines_noEol _ hc]; simp [hd]
      · exact absurd h (by simp)
    · have hrem' : rem = c ++ e ++ x := by simp [hrem]
      subst hrem'
      rw [closeLoop_line d c e x f hc he hj] at h
      split at h
      · rename_i hcd
        subst hcd
        simp only [Option.some.injEq, Prod.mk.injEq] at h
        obtain ⟨rfl, rfl⟩ := h
        rcases eol_or_not x with ⟨h0, hx⟩ | ⟨e', y, he', hj', rfl⟩
        · -- no blank line follows
          have e1 : x.take (lineEndingLen x) = [] := by rw [h0]; rfl
          have e2 : x.drop (lineEndingLen x) = x := by rw [h0]; rfl
          rw [e1, e2, List.append_nil]
          have hl : lines (c ++ e) = [c] := by
            have := lines_line c e [] hc he (by simp [Junction])
            simpa [lines, rawLines] using this
          refine ⟨rfl, hc, ?_, [], by simp, Or.inl ⟨by simpa using hl, lines_head_nonblank x hx⟩⟩
          rw [lines_line c e x hc he hj, hl]; simp
        · -- one blank line is absorbed
          have hl' := lineEndingLen_eol e' y he' hj'
          rw [hl', take_len, drop_len]
          have hj2 : Junction e e' := junction_prefix e e' y hj (by
            intro h; have := isEol_length_pos e' he'; simp [h] at this)
          have hl : lines (c ++ e ++ e') = [c, []] := by
            have h1 := lines_line c e e' hc he hj2
            have h2 := lines_line [] e' [] (by simp [noEol]) he' (by simp [Junction])
            simp only [List.nil_append, List.append_nil] at h2
            rw [h1, h2]; simp [lines, rawLines]
          refine ⟨by simp, hc, ?_, [], by simp, Or.inr (by simpa using hl)⟩
          have h2 := lines_line [] e' y (by simp [noEol]) he' hj'
          simp only [List.nil_append] at h2
          rw [lines_line c e _ hc he hj, h2, hl]; simp
      · rename_i hcd
        cases hr : closeLoop d f x with
        | none => simp [hr] at h
        | some p =>
          obtain ⟨a', rest'⟩ := p
          simp only [hr, Option.map_some, Option.some.injEq, Prod.mk.injEq] at h
          obtain ⟨rfl, rfl⟩ := h
          obtain ⟨hx, hnd, hlx, body, hb, hcase⟩ := ih x a' rest' hr
          have ha' : a' ≠ [] := by
            intro h0
            subst h0
            rcases hcase with ⟨h1, _⟩ | h1 <;> simp [lines, rawLines] at h1
          have hj' : Junction e a' := junction_prefix e a' rest' (hx ▸ hj) ha'
          have hla : lines (c ++ e ++ a') = c :: lines a' := lines_line c e a' hc he hj'
          refine ⟨by simp [hx], hnd, ?_, c :: body, ?_, ?_⟩
          · rw [lines_line c e x hc he hj, hla, hlx]; simp
          · simp only [List.mem_cons, not_or]; exact ⟨fun h => hcd h.symm, hb⟩
          · rcases hcase with ⟨h1, h2⟩ | h1
            · exact Or.inl ⟨by rw [hla, h1]; simp, h2⟩
            · exact Or.inr (by rw [hla, h1]; simp)

/-- The splitter, unfolded on a text that starts with the delimiter and a line ending. -/
theorem split_unfold (s d e x : Bytes) (hs : stripBom s = d ++ e ++ x) (he : IsEol e) (hj : Junction e x) :
    splitOffFrontMatter s d
      = (closeLoop d ((e ++ x).length + 1) x).map fun p => (d ++ e ++ p.1, p.2) := by
  have hpre : isPrefixB d (d ++ e ++ x) = true := by
    rw [List.append_assoc]; exact isPrefixB_self_append d _
  have hdrop : (d ++ e ++ x).drop d.length = e ++ x := by
    rw [List.append_assoc, drop_len]
  have hl := lineEndingLen_eol e x he hj
  have hne : e.length ≠ 0 := by have := isEol_length_pos e he; omega
  simp only [splitOffFrontMatter, hs, hpre, if_true, hdrop, hl, hne, if_false, drop_len, take_len]

/-- A successful split starts with the delimiter and a line ending. -/
theorem split_some_open (s d : Bytes) (p : Bytes × Bytes) (h : splitOffFrontMatter s d = some p) :
    ∃ e x, IsEol e ∧ Junction e x ∧ stripBom s = d ++ e ++ x := by
  unfold splitOffFrontMatter at h
  simp only [] at h
  split at h
  · rename_i hpre
    obtain ⟨t, ht⟩ := (isPrefixB_iff _ _).mp hpre
    rw [ht, drop_len] at h
    rcases eol_or_not t with ⟨h0, _⟩ | ⟨e, x, he, hj, rfl⟩
    · simp [h0] at h
    · exact ⟨e, x, he, hj, by rw [ht]; simp⟩
  · exact absurd h (by simp)

/-! completeness -/

theorem closeLoop_complete (d : Bytes) : ∀ (fuel : Nat) (rem : Bytes) (body tail : List Bytes),
    rem.length < fuel → lines rem = body ++ d :: tail → d ∉ body →
    (closeLoop d fuel rem).isSome = true := by
  intro fuel
  induction fuel with
  | zero => intro rem body tail h; omega
  | succ f ih =>
    intro rem body tail hf hl hb
    obtain ⟨c, t, hrem, hc, ht⟩ := decomp rem
    rcases ht with rfl | ⟨e, x, he, hj, rfl⟩
    · simp only [List.append_nil] at hrem
      subst hrem
      rw [closeLoop_eof d _ f hc]
      by_cases hcd : rem = d
      · simp [hcd]
      · exfalso
        rw [lines_noEol _ hc] at hl
        split at hl
        · cases body <;> simp at hl
        · cases body with
          | nil => simp at hl; exact hcd hl.1
          | cons b body => simp at hl
    · have hrem' : rem = c ++ e ++ x := by simp [hrem]
      subst hrem'
      rw [closeLoop_line d c e x f hc he hj]
      by_cases hcd : c = d
      · simp [hcd]
      · simp only [hcd, if_false, Option.isSome_map]
        rw [lines_line c e x hc he hj] at hl
        cases body with
        | nil => simp at hl; exact absurd hl.1 hcd
        | cons b body =>
          simp only [List.cons_append, List.cons.injEq] at hl
          have hlen : x.length < f := by
            have := isEol_length_pos e he
            simp only [List.length_append] at hf; omega
          exact ih x body tail hlen hl.2 (fun hm => hb (by simp [hm]))

theorem first_occ_unique (d : Bytes) : ∀ (body body' tail tail' : List Bytes),
    body ++ d :: tail = body' ++ d :: tail' → d ∉ body → d ∉ body' → body = body' ∧ tail = tail' := by
  intro body
  induction body with
  | nil =>
    intro body' tail tail' h _ h2
    cases body' with
    | nil => simpa using h
    | cons b bs => simp at h; exact absurd (by simp [h.1]) h2
  | cons b bs ih =>
    intro body' tail tail' h h1 h2
    cases body' with
    | nil => simp at h; exact absurd (by simp [h.1]) h1
    | cons b' bs' =>
      simp only [List.cons_append, List.cons.injEq] at h
      obtain ⟨r1, r2⟩ := ih bs' tail tail' h.2 (fun hm => h1 (by simp [hm])) (fun hm => h2 (by simp [hm]))
      exact ⟨by rw [h.1, r1], r2⟩

theorem first_occ (d : Bytes) (L : List Bytes) (h : d ∈ L) : ∃ body tail, L = body ++ d :: tail ∧ d ∉ body := by
  induction L with
  | nil => simp at h
  | cons l L ih =>
    by_cases hl : l = d
    · exact ⟨[], L, by simp [hl], by simp⟩
    · have hm : d ∈ L := by
        rcases List.mem_cons.mp h with h | h
        · exact absurd h.symm hl
        · exact h
      obtain ⟨body, tail, hL, hb⟩ := ih hm
      exact ⟨l :: body, tail, by simp [hL], by simp only [List.mem_cons, not_or]; exact ⟨fun e => hl e.symm, hb⟩⟩

/-! tie to the C08 line splitter -/

theorem nulToFFFD_append (a b : Bytes) : nulToFFFD (a ++ b) = nulToFFFD a ++ nulToFFFD b := by
  induction a with
  | nil => rfl
  | cons x a ih =>
    simp only [List.cons_append, nulToFFFD]
    split <;> simp [ih]

theorem nulToFFFD_eq_nil (a : Bytes) : nulToFFFD a = [] ↔ a = [] := by
  cases a with
  | nil => simp [nulToFFFD]
  | cons x a =>
    simp only [nulToFFFD]
    split <;> simp [FFFD]

theorem splitLines_eq_rawLines (s cur : Bytes) (cr : Bool) :
    splitLines (nulToFFFD cur) cr s = (rawLines cur cr s).map nulToFFFD := by
  induction s generalizing cur cr with
  | nil =>
    simp only [splitLines, rawLines, nulToFFFD_eq_nil]
    split <;> simp
  | cons b r ih =>
    by_cases h1 : b = 0x0A
    · subst h1
      have h0 := ih [] false
      simp only [nulToFFFD] at h0
      cases cr <;> simp [splitLines, rawLines, ih, h0]
    · by_cases h2 : b = 0x0D
      · subst h2
        have h0 := ih [] true
        simp only [nulToFFFD] at h0
        simp [splitLines, rawLines, h0]
      · by_cases h3 : b = 0x00
        · subst h3
          have h0 := ih (cur ++ [0x00]) false
          rw [nulToFFFD_append] at h0
          simp only [nulToFFFD, List.append_nil, if_true] at h0
          simp [splitLines, rawLines, h0]
        · have h0 := ih (cur ++ [b]) false
          rw [nulToFFFD_append] at h0
          simp only [nulToFFFD, h3, if_false] at h0
          simp [splitLines, rawLines, h1, h2, h3, h0]

theorem rawLines_toLf (x cur : Bytes) (cr : Bool) :
    rawLines cur false (toLf cr x) = rawLines cur cr x := by
  induction x generalizing cur cr with
  | nil => simp [toLf, rawLines]
  | cons b r ih =>
    by_cases h1 : b = 0x0A
    · subst h1
      cases cr <;> simp [toLf, rawLines, ih]
    · by_cases h2 : b = 0x0D
      · subst h2; simp [toLf, rawLines, ih]
      · simp only [toLf, h1, h2, if_false, rawLines]
        exact ih _ _

theorem toLf_bom (t : Bytes) : toLf false (BOM ++ t) = BOM ++ toLf false t := by
  simp [BOM, toLf]

theorem isPrefixB_toLf (p s : Bytes) (hp : noEol p) :
    isPrefixB p (toLf false s) = isPrefixB p s := by
  induction p generalizing s with
  | nil => simp [isPrefixB]
  | cons a p ih =>
    obtain ⟨h1, h2⟩ := isLineEnd_false a (hp a (by simp))
    have hp' : noEol p := fun y hy => hp y (by simp [hy])
    have e1 : (a == (0x0A : UInt8)) = false := beq_eq_false_iff_ne.mpr h1
    have e2 : (a == (0x0D : UInt8)) = false := beq_eq_false_iff_ne.mpr h2
    cases s with
    | nil => simp [toLf, isPrefixB]
    | cons b s =>
      by_cases hb1 : b = 0x0A
      · subst hb1; simp [toLf, isPrefixB, e1]
      · by_cases hb2 : b = 0x0D
        · subst hb2; simp [toLf, isPrefixB, e1, e2]
        · simp [toLf, isPrefixB, hb1, hb2, ih s hp']

theorem stripBom_toLf (s : Bytes) : stripBom (toLf false s) = toLf false (stripBom s) := by
  have hq := isPrefixB_toLf BOM s (by
    intro b hb; simp [BOM] at hb; rcases hb with rfl | rfl | rfl <;> decide)
  by_cases hp : isPrefixB BOM s = true
  · obtain ⟨t, rfl⟩ := (isPrefixB_iff _ _).mp hp
    simp only [stripBom, hq, hp, if_true]
    rw [toLf_bom]
    simp [BOM]
  · simp only [Bool.not_eq_true] at hp
    simp [stripBom, hp, hq]

/-! line endings counted -/

theorem countLineEndings_noEol (c : Bytes) (f : Nat) (hc : noEol c) : countLineEndings (f + 1) c = 0 := by
  have hs := scanLine_append c [] hc (Or.inl rfl)
  simp only [List.append_nil] at hs
  simp [countLineEndings, hs]

theorem countLineEndings_line (c e x : Bytes) (f : Nat) (hc : noEol c) (he : IsEol e) (hj : Junction e x) :
    countLineEndings (f + 1) (c ++ e ++ x) = 1 + countLineEndings f x := by
  have hs : scanLine (c ++ e ++ x) = (c, e ++ x) := by
    rw [List.append_assoc]
    apply scanLine_append c (e ++ x) hc
    obtain ⟨b, r, rfl, hb⟩ := isEol_head e he
    exact Or.inr ⟨b, r ++ x, rfl, hb⟩
  have hl := lineEndingLen_eol e x he hj
  have hne : e ++ x ≠ [] := by
    intro h
    have h2 := isEol_length_pos e he
    have h3 : (e ++ x).length = 0 := by rw [h]; rfl
    rw [List.length_append] at h3
    omega
  simp only [countLineEndings, hs, hl, drop_len, hne, if_false]

/-- The number of line endings of a text that is empty or ends with a line ending is the number
    of its lines. -/
theorem countLineEndings_eq_lines : ∀ (fuel : Nat) (s : Bytes), s.length < fuel →
    (s = [] ∨ ∃ b, s.getLast? = some b ∧ isLineEnd b = true) →
    countLineEndings fuel s = (lines s).length := by
  intro fuel
  induction fuel with
  | zero => intro s h; omega
  | succ f ih =>
    intro s hf hlast
    obtain ⟨c, t, hs, hc, ht⟩ := decomp s
    rcases ht with rfl | ⟨e, x, he, hj, rfl⟩
    · simp only [List.append_nil] at hs
      subst hs
      rw [countLineEndings_noEol _ f hc]
      rcases hlast with rfl | ⟨b, hb, hbe⟩
      · rfl
      · exfalso
        have := hc b (List.mem_of_getLast? hb)
        rw [this] at hbe
        exact absurd hbe (by simp)
    · have hs' : s = c ++ e ++ x := by simp [hs]
      subst hs'
      have hxl : x = [] ∨ ∃ b, x.getLast? = some b ∧ isLineEnd b = true := by
        by_cases hx0 : x = []
        · exact Or.inl hx0
        · right
          rcases hlast with h | ⟨b, hb, hbe⟩
          · simp at h; exact absurd h.2.2 hx0
          · rw [List.getLast?_append] at hb
            cases hg : x.getLast? with
            | none => exact absurd (List.getLast?_eq_none_iff.mp hg) hx0
            | some y => exact ⟨b, by simpa [hg] using hb, hbe⟩
      have hlen : x.length < f := by
        have := isEol_length_pos e he
        simp only [List.length_append] at hf; omega
      rw [countLineEndings_line c e x f hc he hj, lines_line c e x hc he hj, ih x hlen hxl]
      simp; omega

theorem closeLoop_terminated (d : Bytes) : ∀ (fuel : Nat) (rem a rest : Bytes),
    closeLoop d fuel rem = some (a, rest) → rest = [] ∨ ∃ a0 e, IsEol e ∧ a = a0 ++ e := by
  intro fuel
  induction fuel with
  | zero => intro rem a rest h; simp [closeLoop] at h
  | succ f ih =>
    intro rem a rest h
    obtain ⟨c, t, hrem, hc, ht⟩ := decomp rem
    rcases ht with rfl | ⟨e, x, he, hj, rfl⟩
    · simp only [List.append_nil] at hrem
      subst hrem
      rw [closeLoop_eof d _ f hc] at h
      split at h
      · simp only [Option.some.injEq, Prod.mk.injEq] at h
        exact Or.inl h.2.symm
      · exact absurd h (by simp)
    · have hrem' : rem = c ++ e ++ x := by simp [hrem]
      subst hrem'
      rw [closeLoop_line d c e x f hc he hj] at h
      split at h
      · simp only [Option.some.injEq, Prod.mk.injEq] at h
        obtain ⟨rfl, rfl⟩ := h
        right
        rcases eol_or_not x with ⟨h0, _⟩ | ⟨e', y, he', hj', rfl⟩
        · exact ⟨c, e, he, by rw [h0]; simp⟩
        · exact ⟨c ++ e, e', he', by rw [lineEndingLen_eol e' y he' hj', take_len]⟩
      · cases hr : closeLoop d f x with
        | none => simp [hr] at h
        | some p =>
          obtain ⟨a', rest'⟩ := p
          simp only [hr, Option.map_some, Option.some.injEq, Prod.mk.injEq] at h
          obtain ⟨rfl, rfl⟩ := h
          rcases ih x a' rest' hr with h0 | ⟨a0, e', he', rfl⟩
          · exact Or.inl h0
          · exact Or.inr ⟨c ++ e ++ a0, e', he', by simp⟩

theorem split_terminated (s d fm rest : Bytes) (h : splitOffFrontMatter s d = some (fm, rest)) :
    rest = [] ∨ ∃ a0 e, IsEol e ∧ fm = a0 ++ e := by
  obtain ⟨e, x, he, hj, hs⟩ := split_some_open s d _ h
  rw [split_unfold s d e x hs he hj] at h
  cases hr : closeLoop d ((e ++ x).length + 1) x with
  | none => rw [hr] at h; simp at h
  | some p =>
    obtain ⟨a, rest'⟩ := p
    rw [hr] at h
    simp only [Option.map_some, Option.some.injEq, Prod.mk.injEq] at h
    obtain ⟨rfl, rfl⟩ := h
    rcases closeLoop_terminated d _ x a rest' hr with h0 | ⟨a0, e', he', rfl⟩
    · exact Or.inl h0
    · exact Or.inr ⟨d ++ e ++ a0, e', he', by simp⟩

theorem split_line_count (s d fm rest : Bytes) (h : splitOffFrontMatter s d = some (fm, rest))
    (hr : rest ≠ []) : lineEndings fm = (lines fm).length := by
  rcases split_terminated s d fm rest h with h0 | ⟨a0, e, he, rfl⟩
  · exact absurd h0 hr
  · apply countLineEndings_eq_lines _ _ (Nat.lt_succ_self _)
    right
    rcases he with rfl | rfl | rfl
    · exact ⟨0x0A, by simp, by decide⟩
    · exact ⟨0x0A, by simp [List.getLast?_append], by decide⟩
    · exact ⟨0x0D, by simp, by decide⟩


end Comrak.FrontMatter
