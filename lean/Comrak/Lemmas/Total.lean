/- Helper lemmas for Props/C01.lean. -/
import Comrak.Total
namespace Comrak.Tot
open Comrak Bytes

theorem suLoop_le (k used i : Nat) : suLoop k used i ≤ i + k := by
  induction k generalizing used i with
  | zero => simp [suLoop]
  | succ k ih =>
    simp only [suLoop]
    split
    · have := ih (used / 2) (i + 1); omega
    · omega

theorem suLoop_ge (k used i : Nat) : i ≤ suLoop k used i := by
  induction k generalizing used i with
  | zero => simp [suLoop]
  | succ k ih =>
    simp only [suLoop]
    split
    · have := ih (used / 2) (i + 1); omega
    · omega

/-- The loop stops at the first clear bit: all bits below the result are set, and the bit at the
    result is clear unless the cap was reached. -/
theorem suLoop_spec (k used i : Nat) :
    (∀ j, j < suLoop k used i - i → used.testBit j = true) ∧
    (suLoop k used i < i + k → used.testBit (suLoop k used i - i) = false) := by
  induction k generalizing used i with
  | zero => simp [suLoop]
  | succ k ih =>
    simp only [suLoop]
    split
    · rename_i h
      have ⟨h1, h2⟩ := ih (used / 2) (i + 1)
      have hge := suLoop_ge k (used / 2) (i + 1)
      constructor
      · intro j hj
        cases j with
        | zero => simp [Nat.testBit, h]
        | succ j =>
          have := h1 j (by omega)
          rw [Nat.testBit_succ]; exact this
      · intro hlt
        have := h2 (by omega)
        have e : suLoop k (used / 2) (i + 1) - i = (suLoop k (used / 2) (i + 1) - (i + 1)) + 1 := by omega
        rw [e, Nat.testBit_succ]; exact this
    · rename_i h
      constructor
      · intro j hj; omega
      · intro _
        have : used % 2 = 0 := by omega
        simp [Nat.testBit, this]

theorem testBit_suMark (cur used j : Nat) :
    (suMark cur used).testBit j = (used.testBit j || (decide (0 < cur ∧ cur < 32) && decide (j = cur))) := by
  unfold suMark
  split
  · rename_i h
    rw [Nat.testBit_or, Nat.one_shiftLeft, Nat.testBit_two_pow]
    simp [h, eq_comm]
  · rename_i h
    simp [h]

/-- Bit `j` of the scan result: it was set before, or a run of length `j` (1..31) occurs. -/
theorem testBit_suScan (f : UInt8) (l : Bytes) (cur used j : Nat) :
    (suScan f l cur used).testBit j = (used.testBit j || (decide (j ∈ runsAux f l cur) && decide (0 < j ∧ j < 32))) := by
  induction l generalizing cur used with
  | nil =>
    simp only [suScan, runsAux, testBit_suMark]
    by_cases hc : 0 < cur
    · by_cases hj : j = cur
      · subst hj; simp [hc]
      · simp [hc, hj]
        try (intro _ h; omega)
    · have : cur = 0 := by omega
      subst this; simp
  | cons c r ih =>
    simp only [suScan, runsAux]
    split
    · exact ih (cur + 1) used
    · rw [ih 0 (suMark cur used), testBit_suMark]
      by_cases hc : 0 < cur
      · by_cases hj : j = cur
        · subst hj; simp [hc]
          by_cases h32 : j < 32 <;> simp [h32]
        · simp [hc, hj]
      · have : cur = 0 := by omega
        subst this; simp

theorem spxTotal_cons (s : Seg) (q : List Seg) : spxTotal (s :: q) = s.x + spxTotal q := by
  simp [spxTotal]

theorem cpStep_bound (base cp d : Nat) (hb : base ≤ 16) (hd : d < base) (hc : cp ≤ 0x110000) :
    ∃ r, cpStep base cp d = some r ∧ r ≤ 0x110000 := by
  unfold cpStep
  have h1 : cp * base ≤ 0x110000 * 16 := Nat.mul_le_mul hc hb
  have : cp * base + d < 2 ^ 32 := by omega
  simp only [this, if_true]
  exact ⟨_, rfl, Nat.min_le_right _ _⟩

theorem ncBody_ne_nil (v : Bytes) (h : v ≠ []) : ncBody v ≠ [] := by
  induction v with
  | nil => exact absurd rfl h
  | cons c r ih =>
    simp only [ncBody]
    split
    · cases r with
      | nil => simp
      | cons d t =>
        simp only []
        split
        · exact ih (by simp)
        · simp
    · split <;> simp

/-- A byte that is not space/CR/LF is copied to the body. -/
theorem ncBody_mem (v : Bytes) (c : UInt8) (hc : c ∈ v) (hn : isCodeSpace c = false) : c ∈ ncBody v := by
  induction v with
  | nil => simp at hc
  | cons a r ih =>
    have hn' : c ≠ 0x20 ∧ c ≠ 0x0D ∧ c ≠ 0x0A := by
      simp [isCodeSpace] at hn; exact ⟨hn.1.1, hn.1.2, hn.2⟩
    simp only [ncBody]
    rcases List.mem_cons.mp hc with rfl | hr
    · simp [hn'.2.1, hn'.2.2]
    · split
      · cases r with
        | nil => simp at hr
        | cons d t =>
          simp only []
          split
          · exact ih hr
          · exact List.mem_cons_of_mem _ (ih hr)
      · split
        · exact List.mem_cons_of_mem _ (ih hr)
        · exact List.mem_cons_of_mem _ (ih hr)

theorem mem_takeWhile_p {α : Type} (p : α → Bool) (l : List α) (a : α) (h : a ∈ l.takeWhile p) : p a = true := by
  induction l with
  | nil => simp at h
  | cons b r ih =>
    simp only [List.takeWhile] at h
    split at h
    · rename_i hb
      rcases List.mem_cons.mp h with rfl | h'
      · exact hb
      · exact ih h'
    · simp at h

theorem dropWhile_nil_all {α : Type} (p : α → Bool) (l : List α) (h : l.dropWhile p = []) : ∀ a ∈ l, p a = true := by
  induction l with
  | nil => simp
  | cons b r ih =>
    simp only [List.dropWhile] at h
    split at h
    · rename_i hb
      intro a ha
      rcases List.mem_cons.mp ha with rfl | h'
      · exact hb
      · exact ih h a h'
    · simp at h

end Comrak.Tot
