/-
Writer-combinator lemmas used by the canonical-document theorems (C03): under the default
options, with no footnotes and no header ids, every piece of the HTML formatter model is a
function of `last_was_lf` alone.  `R w lf bs` says: started with `last_was_lf = lf`, the
writer `w` spells exactly `bs` and changes nothing in the state but `last_was_lf`.
-/
import Comrak.Lemmas.Html
namespace Comrak
open Bytes

theorem lastLfAfter_nil (l : Bool) : lastLfAfter l [] = l := rfl

theorem lastLfAfter_append (l : Bool) (a b : Bytes) :
    lastLfAfter (lastLfAfter l a) b = lastLfAfter l (a ++ b) := by
  cases b with
  | nil => simp [lastLfAfter]
  | cons x r =>
    simp only [lastLfAfter, List.getLast?_append]
    cases h : (x :: r).getLast? with
    | none => simp at h
    | some y => simp

theorem lastLfAfter_append_nl (l : Bool) (a b : Bytes) (h : lastLfAfter false b = true) :
    lastLfAfter l (a ++ b) = true := by
  rw [← lastLfAfter_append]
  unfold lastLfAfter at h ⊢
  cases hb : b.getLast? with
  | none => simp [hb] at h
  | some y => simpa [hb] using h

def R (w : W) (lf : Bool) (bs : Bytes) : Prop :=
  ∀ st : St, st.lastLf = lf →
    spell (w st).1 = bs ∧ (w st).2 = { st with lastLf := lastLfAfter lf bs }

theorem spell_append (a b : List Tok) : spell (a ++ b) = spell a ++ spell b := by
  simp [spell, List.flatMap_append]

theorem R_emit (ts : List Tok) (lf : Bool) : R (W.emit ts) lf (spell ts) := by
  intro st h; subst h; exact ⟨rfl, rfl⟩

theorem R_nop (lf : Bool) : R W.nop lf [] := by
  intro st h; subst h; exact ⟨rfl, rfl⟩

theorem R_cr (lf : Bool) : R W.cr lf (if lf then [] else [0x0A]) := by
  intro st h; subst h
  unfold W.cr
  cases hl : st.lastLf
  · simp [spell, Tok.spell, lastLfAfter]
  · simp [spell, lastLfAfter, ← hl]

theorem R_seq {a b : W} {lf : Bool} {x y : Bytes} (ha : R a lf x) (hb : R b (lastLfAfter lf x) y) :
    R (a ⨟ b) lf (x ++ y) := by
  intro st h
  obtain ⟨a1, a2⟩ := ha st h
  have h2 : (a st).2.lastLf = lastLfAfter lf x := by rw [a2]
  obtain ⟨b1, b2⟩ := hb (a st).2 h2
  refine ⟨?_, ?_⟩
  · simp only [W.seq_fst, spell_append, a1, b1]
  · simp only [W.seq_snd]
    rw [b2, a2]
    simp only [lastLfAfter_append]

theorem R_congr {w : W} {lf : Bool} {x y : Bytes} (h : R w lf x) (e : x = y) : R w lf y := e ▸ h

theorem R_weq {w w' : W} {lf : Bool} {x : Bytes} (h : R w lf x) (e : w' = w) : R w' lf x := e ▸ h

/-- `renderT` is `enter`, then the children (HTML mode only), then `exit`. -/
theorem renderT_eq (o : HtmlOpts) (nt : NormTable) (cx : Ctx) (v : NodeValue) (sp : Sp) (cs : Forest) :
    renderT o nt cx (.node v sp cs) =
      (enter o nt cx v sp cs ⨟ (if htmlChildren v then renderF o nt (some v) cx.parent none 0 cs else W.nop)) ⨟
        exit o cx v cs := by
  funext st
  simp only [renderT, W.seq]
  split <;> simp [W.nop]

theorem renderF_nil (o : HtmlOpts) (nt : NormTable) (p g prev : Option NodeValue) (idx : Nat) :
    renderF o nt p g prev idx .nil = W.nop := by
  funext st; simp [renderF, W.nop]

theorem renderF_cons (o : HtmlOpts) (nt : NormTable) (p g prev : Option NodeValue) (idx : Nat) (t : Tree) (ts : Forest) :
    renderF o nt p g prev idx (.cons t ts) =
      renderT o nt { parent := p, grand := g, prev := prev, isLast := ts.isNil, index := idx } t ⨟
        renderF o nt p g (some t.value) (idx + 1) ts := by
  funext st; simp [renderF, W.seq]

/-- Rendering a node from the three pieces. -/
theorem R_node {o : HtmlOpts} {nt : NormTable} {cx : Ctx} {v : NodeValue} {sp : Sp} {cs : Forest}
    {lf : Bool} {a b c : Bytes}
    (hv : htmlChildren v = true)
    (he : R (enter o nt cx v sp cs) lf a)
    (hc : R (renderF o nt (some v) cx.parent none 0 cs) (lastLfAfter lf a) b)
    (hx : R (exit o cx v cs) (lastLfAfter lf (a ++ b)) c) :
    R (renderT o nt cx (.node v sp cs)) lf (a ++ b ++ c) := by
  rw [renderT_eq, hv]
  exact R_seq (R_seq he hc) hx

/-- A leaf whose `exit` writes nothing. -/
theorem R_leaf {o : HtmlOpts} {nt : NormTable} {cx : Ctx} {v : NodeValue} {sp : Sp}
    {lf : Bool} {a : Bytes}
    (he : R (enter o nt cx v sp .nil) lf a)
    (hx : exit o cx v .nil = W.nop) :
    R (renderT o nt cx (.node v sp .nil)) lf a := by
  rw [renderT_eq, hx]
  have hc : R (if htmlChildren v then renderF o nt (some v) cx.parent none 0 .nil else W.nop) (lastLfAfter lf a) [] := by
    split
    · rw [renderF_nil]; exact R_nop _
    · exact R_nop _
  have := R_seq (R_seq he hc) (R_nop _)
  simpa using this

end Comrak
