/-
C02 helper lemmas (part 2): per-node and whole-tree statements that every token written in safe
mode is in `allowedTok`.
-/
import Comrak.Lemmas.HtmlSafe
import Comrak.Lemmas.HtmlTree
namespace Comrak
open Bytes

theorem enter_allowed (o : HtmlOpts) (hu : o.unsafe_ = false) (hp : ∀ p, o.headerIds = some p → litSafe p = true)
    (nt : NormTable) (hn : NormSafe nt) (cx : Ctx) (v : NodeValue) (sp : Sp) (cs : Forest) (st : St)
    (hv : nodeSafe v = true) :
    (enter o nt cx v sp cs st).1.all allowedTok = true := by
  cases v
  case raw s => simp [nodeSafe] at hv
  case htmlBlock bt l => simp [enter, all_htmlBlockToks o hu]
  case htmlInline l => simp [enter, all_htmlInlineToks o hu]
  case codeBlock f fc fl fo info lit =>
    simp only [enter]
    split
    · simp
    · have := all_codeBlockAttrs o info sp
      simp [allowedTok, nl, this.1, this.2]
  case heading level setext =>
    simp only [nodeSafe, Bool.and_eq_true, decide_eq_true_eq] at hv
    cases h : o.headerIds with
    | none =>
      have hh := headingName_vocab level hv.1 hv.2
      simp only [List.contains_iff_mem] at hh
      simp [enter, h, allowedTok, hh]
    | some p =>
      have hh := headingName_vocab level hv.1 hv.2
      simp only [List.contains_iff_mem] at hh
      simp [enter, h, allowedTok, hh, attrOk, partOk, litAttr, litSafe_append,
        anchorize_safe nt hn, hp p h]
  case alert ty title m fl fo =>
    cases title <;> cases ty <;> simp [enter, allowedTok, attrOk, partOk, litAttr, nl, alertCss, alertTitle]
  case list l =>
    cases hl : l.ty <;> simp [enter, hl, allowedTok, attrOk, partOk, litAttr, nl, List.all_append] <;>
      (repeat' split) <;> simp_all [attrOk, partOk]
  case tableRow h => simp [enter, allowedTok, all_rowSectionToks]
  case tableCell =>
    simp [enter, allowedTok, List.all_append, all_alignAttr]
    split
    · split <;> simp
    · simp
  case escapedTag s => simpa [enter, allowedTok, nodeSafe] using hv
  all_goals simp only [enter]
  all_goals (repeat' split)
  all_goals (try simp_all [allowedTok, attrOk, litAttr, nl, List.all_append, litSafe_append])
  all_goals (try simp [partOk])

end Comrak

namespace Comrak
open Bytes

theorem mem_putBackref (name : Bytes) (total : Nat) (st : St) (a : Tok)
    (h : a ∈ (putBackref name total st).1.1) : allowedTok a = true := by
  have := all_putBackref name total st
  rw [List.all_eq_true] at this
  exact this a h

theorem exit_allowed (o : HtmlOpts) (cx : Ctx) (v : NodeValue) (cs : Forest) (st : St)
    (hv : nodeSafe v = true) :
    (exit o cx v cs st).1.all allowedTok = true := by
  cases v
  case paragraph =>
    simp only [exit]
    split
    · simp
    · cases hp : cx.parent with
      | none => simp [allowedTok, nl]
      | some pv =>
        cases pv
        case footnoteDefinition name total =>
          simp only [W.seq_fst, List.all_append, Bool.and_eq_true]
          refine ⟨?_, by simp [allowedTok, nl]⟩
          split
          · simp only [W.seq_fst, List.all_append, Bool.and_eq_true]
            exact ⟨by simp [allowedTok], all_putBackref _ _ _⟩
          · simp
        all_goals simp [allowedTok, nl]
  case footnoteDefinition name total =>
    simp only [exit, W.seq_fst, List.all_append, Bool.and_eq_true]
    refine ⟨⟨all_putBackref _ _ _, ?_⟩, by simp [allowedTok, nl]⟩
    split <;> simp [allowedTok, nl]
  case heading level setext =>
    simp only [nodeSafe, Bool.and_eq_true, decide_eq_true_eq] at hv
    have hh := headingName_vocab level hv.1 hv.2
    simp only [List.contains_iff_mem] at hh
    simp [exit, allowedTok, hh, nl]
  case list l => cases hl : l.ty <;> simp [exit, hl, allowedTok, nl]
  case escapedTag s => simpa [exit, allowedTok, nodeSafe] using hv
  case tableCell =>
    simp [exit, allowedTok]
    split
    · split <;> simp
    · simp
  all_goals simp only [exit]
  all_goals (repeat' split)
  all_goals (try simp_all [allowedTok, nl, List.all_append])

mutual
/-- Every node of the tree is `nodeSafe`. -/
def treeSafe : Tree → Bool
  | .node v _ cs => nodeSafe v && forestSafe cs
def forestSafe : Forest → Bool
  | .nil => true
  | .cons t ts => treeSafe t && forestSafe ts
end

mutual
theorem renderT_allowed (o : HtmlOpts) (hu : o.unsafe_ = false) (hp : ∀ p, o.headerIds = some p → litSafe p = true)
    (nt : NormTable) (hn : NormSafe nt) :
    ∀ (t : Tree) (cx : Ctx) (st : St), treeSafe t = true → (renderT o nt cx t st).1.all allowedTok = true
  | .node v sp cs, cx, st, h => by
    simp only [treeSafe, Bool.and_eq_true] at h
    rw [renderT_node]
    simp only [List.all_append, Bool.and_eq_true]
    refine ⟨⟨enter_allowed o hu hp nt hn cx v sp cs st h.1, ?_⟩, exit_allowed o cx v cs _ h.1⟩
    split
    · exact renderF_allowed o hu hp nt hn cs _ _ _ _ _ h.2
    · rfl
theorem renderF_allowed (o : HtmlOpts) (hu : o.unsafe_ = false) (hp : ∀ p, o.headerIds = some p → litSafe p = true)
    (nt : NormTable) (hn : NormSafe nt) :
    ∀ (f : Forest) (parent grand prev : Option NodeValue) (idx : Nat) (st : St),
      forestSafe f = true → (renderF o nt parent grand prev idx f st).1.all allowedTok = true
  | .nil, _, _, _, _, _, _ => by simp [renderF]
  | .cons t ts, parent, grand, prev, idx, st, h => by
    simp only [forestSafe, Bool.and_eq_true] at h
    rw [renderF_cons]
    simp only [List.all_append, Bool.and_eq_true]
    exact ⟨renderT_allowed o hu hp nt hn t _ st h.1, renderF_allowed o hu hp nt hn ts _ _ _ _ _ h.2⟩
end

end Comrak
