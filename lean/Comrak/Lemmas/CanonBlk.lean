/-
C03, block level: the model of comrak's HTML formatter on the tree of a canonical document spells
exactly the reference rendering, for any nesting depth (mutual induction over `Blk/Blks/Items`).
-/
import Comrak.Lemmas.CanonTbl
namespace Comrak.Canon
open Comrak Bytes

/-- Parents canonical blocks can have. -/
def okParent : Option NodeValue → Bool
  | some .document => true
  | some .blockQuote => true
  | some (.item _) => true
  | some (.taskItem _) => true
  | _ => false

/-- `paraTight` as a function of parent and grandparent. -/
def pt (p g : Option NodeValue) : Bool := paraTight { parent := p, grand := g }

/-! ### Per-kind pieces -/

section pieces
variable (cx : Ctx) (sp : Sp) (cs : Forest) (lf : Bool)

theorem enter_para_loose (h : paraTight cx = false) : R (enter {} {} cx .paragraph sp cs) lf (crB lf ++ H.p_open) := by
  have e : enter {} {} cx .paragraph sp cs = (W.cr ⨟ W.emit [.op S.t_p []]) := by
    simp [enter, h, spAttr]
  rw [e]; exact R_seq (R_crB lf) (R_emit _ _)

theorem enter_para_tight (h : paraTight cx = true) : R (enter {} {} cx .paragraph sp cs) lf [] := by
  have e : enter {} {} cx .paragraph sp cs = W.nop := by simp [enter, h]
  rw [e]; exact R_nop lf

theorem exit_para_loose (h : paraTight cx = false) (hp : okParent cx.parent = true) :
    R (exit {} cx .paragraph cs) lf H.p_close := by
  have e : exit {} cx .paragraph cs = (W.nop ⨟ W.emit [.cl S.t_p, nl]) := by
    cases hc : cx.parent with
    | none => simp [okParent, hc] at hp
    | some v => cases v <;> simp_all [okParent, exit]
  rw [e]; exact R_congr (R_seq (R_nop lf) (R_emit _ _)) (by simp [spell, Tok.spell, nl, S.t_p, H.p_close])

theorem exit_para_tight (h : paraTight cx = true) : R (exit {} cx .paragraph cs) lf [] := by
  have e : exit {} cx .paragraph cs = W.nop := by simp [exit, h]
  rw [e]; exact R_nop lf

theorem enter_heading (l : Nat) (s : Bool) :
    R (enter {} {} cx (.heading l s) sp cs) lf (crB lf ++ H.h_open ++ ofNatDec l ++ H.gt) := by
  have e : enter {} {} cx (.heading l s) sp cs = ((W.cr ⨟ W.emit [.op (headingName l) []]) ⨟ W.nop) := rfl
  rw [e]
  exact R_congr (R_seq (R_seq (R_crB lf) (R_emit _ _)) (R_nop _))
    (by simp [spell, Tok.spell, spellAttrs, headingName, S.t_h, H.h_open, H.gt])

theorem exit_heading (l : Nat) (s : Bool) :
    R (exit {} cx (.heading l s) cs) lf (H.h_close ++ ofNatDec l ++ H.gt_nl) :=
  R_congr (R_emit [.cl (headingName l), nl] lf)
    (by simp [spell, Tok.spell, nl, headingName, S.t_h, H.h_close, H.gt_nl])

theorem enter_hr : R (enter {} {} cx .thematicBreak sp cs) lf (crB lf ++ H.hr) :=
  R_seq (R_crB lf) (R_emit [.vd S.t_hr [], nl] _)

theorem enter_quote : R (enter {} {} cx .blockQuote sp cs) lf (crB lf ++ H.bq_open) :=
  R_seq (R_crB lf) (R_emit [.op S.t_blockquote [], nl] _)

theorem exit_quote : R (exit {} cx .blockQuote cs) lf (crB lf ++ H.bq_close) :=
  R_seq (R_crB lf) (R_emit [.cl S.t_blockquote, nl] _)

theorem splitInfo_fst (info : Bytes) (h : info.all (fun b => b != 0x0A && b != 0x0D) = true) :
    (splitInfo info).1 = firstWord info := by
  induction info with
  | nil => rfl
  | cons c r ih =>
    simp only [List.all_cons, Bool.and_eq_true, bne_iff_ne, ne_eq] at h
    have hr : r.all (fun b => b != 0x0A && b != 0x0D) = true := by simpa using h.2
    simp only [splitInfo, firstWord, isSpace]
    by_cases h1 : c = 0x20
    · subst h1; simp
    · by_cases h2 : c = 0x09
      · subst h2; simp
      · simp [h1, h2, h.1.1, h.1.2, ih hr]

theorem escape_language (w : Bytes) : escape (S.v_language ++ w) = S.v_language ++ escape w := by
  simp only [escape, List.flatMap_append]
  congr 1

theorem escape_language' (w : Bytes) :
    escape (108 :: 97 :: 110 :: 103 :: 117 :: 97 :: 103 :: 101 :: 45 :: w) =
      108 :: 97 :: 110 :: 103 :: 117 :: 97 :: 103 :: 101 :: 45 :: escape w := by
  have := escape_language w
  simpa [S.v_language] using this

theorem enter_fence (f : Bool) (c : UInt8) (len off : Nat) (info lit : Bytes) (h : infoSafe info = true) :
    R (enter {} {} cx (.codeBlock f c len off info lit) sp cs) lf
      (crB lf ++ refCodeOpen info ++ refEsc lit ++ H.code_pre_close) := by
  simp only [infoSafe, Bool.and_eq_true, bne_iff_ne, ne_eq] at h
  have hm : (info == S.v_math) = false := by
    simp only [beq_eq_false_iff_ne, ne_eq]
    exact h.1
  have e : enter {} {} cx (.codeBlock f c len off info lit) sp cs =
      (W.cr ⨟ W.emit [.op S.t_pre (codeBlockAttrs {} info sp).1, .op S.t_code (codeBlockAttrs {} info sp).2,
        .txt lit, .cl S.t_code, .cl S.t_pre, nl]) := by
    simp [enter, hm]
  rw [e]
  refine R_congr (R_seq (R_crB lf) (R_emit _ _)) ?_
  have hs := splitInfo_fst info h.2
  cases info with
  | nil =>
    simp [spell, Tok.spell, spellAttrs, codeBlockAttrs, refCodeOpen, refEsc_eq, nl,
      S.t_pre, S.t_code, H.pre_code, H.gt, H.code_pre_close]
  | cons b r =>
    simp [spell, Tok.spell, spellAttrs, Attr.spell, spellVal, APart.spell, codeBlockAttrs, refCodeOpen, refEsc_eq, nl,
      hs, escape_language', S.t_pre, S.t_code, S.a_class, S.v_language, H.pre_code, H.gt, H.code_pre_close,
      H.lang_attr, H.q]

theorem enter_list (m : Marker) (k : Nat) (hk : k = m.start) (tk : Bool) :
    R (enter {} {} cx (.list { m.nlist k m.tight with isTaskList := tk }) sp cs) lf (crB lf ++ refListOpen m) := by
  subst hk
  cases ho : m.ordered
  · have e : enter {} {} cx (.list { m.nlist m.start m.tight with isTaskList := tk }) sp cs = (W.cr ⨟ W.emit [.op S.t_ul [], nl]) := by
      simp [enter, Marker.nlist, ho, spAttr]
    rw [e]
    exact R_congr (R_seq (R_crB lf) (R_emit _ _)) (by simp [refListOpen, ho]; rfl)
  · have e : enter {} {} cx (.list { m.nlist m.start m.tight with isTaskList := tk }) sp cs =
        (W.cr ⨟ W.emit [.op S.t_ol (if m.start = 1 then [] else [litAttr S.a_start (ofNatDec m.start)]), nl]) := by
      simp [enter, Marker.nlist, ho, spAttr]
    rw [e]
    refine R_congr (R_seq (R_crB lf) (R_emit _ _)) ?_
    by_cases h1 : m.start = 1
    · simp [refListOpen, ho, h1, spell, Tok.spell, spellAttrs, nl, S.t_ol, H.ol_open, H.gt_nl]
    · simp [refListOpen, ho, h1, spell, Tok.spell, spellAttrs, Attr.spell, litAttr, spellVal, APart.spell, nl,
        S.t_ol, S.a_start, H.ol_open, H.gt_nl, H.ol_start, H.q]

theorem exit_list (m : Marker) (k : Nat) (t tk : Bool) :
    R (exit {} cx (.list { m.nlist k t with isTaskList := tk }) cs) lf (refListClose m) := by
  cases ho : m.ordered
  · have e : exit {} cx (.list { m.nlist k t with isTaskList := tk }) cs = W.emit [.cl S.t_ul, nl] := by
      simp [exit, Marker.nlist, ho]
    rw [e]; exact R_congr (R_emit _ _) (by simp [refListClose, ho]; rfl)
  · have e : exit {} cx (.list { m.nlist k t with isTaskList := tk }) cs = W.emit [.cl S.t_ol, nl] := by
      simp [exit, Marker.nlist, ho]
    rw [e]; exact R_congr (R_emit _ _) (by simp [refListClose, ho]; rfl)

theorem enter_item (l : NList) : R (enter {} {} cx (.item l) sp cs) lf (crB lf ++ H.li_open) :=
  R_seq (R_crB lf) (R_emit [.op S.t_li []] _)

theorem exit_item (l : NList) : R (exit {} cx (.item l) cs) lf H.li_close :=
  R_emit [.cl S.t_li, nl] lf

/-- A list item with or without task marker: `<li>` and the checkbox. -/
theorem enter_titem (t : Task) (l : NList) : R (enter {} {} cx (t.value l) sp cs) lf (crB lf ++ (H.li_open ++ t.html)) := by
  cases t with
  | no => exact R_congr (enter_item cx sp cs lf l) (by simp [Task.html])
  | unchecked =>
    have e : enter {} {} cx (Task.unchecked.value l) sp cs =
        (W.cr ⨟ W.emit [.op S.t_li [], .vd S.t_input [litAttr S.a_type S.v_checkbox, litAttr S.a_disabled []], .lit [0x20]]) := by
      simp [enter, Task.value, spAttr]
    rw [e]
    exact R_congr (R_seq (R_crB lf) (R_emit _ _)) (by
      simp [spell, Tok.spell, spellAttrs, Attr.spell, litAttr, spellVal, APart.spell, Task.html, H.li_open, H.checkbox,
        S.t_li, S.t_input, S.a_type, S.v_checkbox, S.a_disabled, S.v_voidend])
  | checked c =>
    have e : enter {} {} cx ((Task.checked c).value l) sp cs =
        (W.cr ⨟ W.emit [.op S.t_li [], .vd S.t_input [litAttr S.a_type S.v_checkbox, litAttr S.a_checked [], litAttr S.a_disabled []], .lit [0x20]]) := by
      simp [enter, Task.value, spAttr]
    rw [e]
    exact R_congr (R_seq (R_crB lf) (R_emit _ _)) (by
      simp [spell, Tok.spell, spellAttrs, Attr.spell, litAttr, spellVal, APart.spell, Task.html, H.li_open, H.checkbox_checked,
        S.t_li, S.t_input, S.a_type, S.v_checkbox, S.a_checked, S.a_disabled, S.v_voidend])

theorem exit_titem (t : Task) (l : NList) : R (exit {} cx (t.value l) cs) lf H.li_close := by
  cases t <;> exact R_emit [.cl S.t_li, nl] lf

theorem titem_lf (t : Task) (lf : Bool) : lastLfAfter lf (crB lf ++ (H.li_open ++ t.html)) = false := by
  cases t <;> exact lastLfAfter_append_nonl _ _ _ rfl

theorem enter_htmlb (lit : Bytes) : R (enter {} {} cx (.htmlBlock 6 lit) sp cs) lf (crB lf ++ H.omitted) := by
  have e : enter {} {} cx (.htmlBlock 6 lit) sp cs = ((W.cr ⨟ W.emit [.cmt]) ⨟ W.cr) := by
    simp [enter, htmlBlockToks]
  rw [e]
  have h1 : lastLfAfter lf (crB lf ++ spell [Tok.cmt]) = false := lastLfAfter_append_nonl _ _ _ rfl
  have := R_seq (R_seq (R_crB lf) (R_emit [Tok.cmt] _)) (R_crB (lastLfAfter lf (crB lf ++ spell [Tok.cmt])))
  rw [h1] at this
  exact R_congr this (by simp [spell, Tok.spell, crB, H.nl, H.omitted, S.v_omitted])

end pieces

/-! ### Every loose block ends its line -/

theorem refListOpen_nl (m : Marker) : lastLfAfter false (refListOpen m) = true := by
  unfold refListOpen
  split
  · exact lastLfAfter_append_nl _ _ _ rfl
  · rfl

theorem refListClose_nl (m : Marker) : lastLfAfter false (refListClose m) = true := by
  unfold refListClose; split <;> rfl

theorem blk_nl : ∀ (b : Blk) (bol x : Bool), lastLfAfter x (b.html false bol) = true
  | .para is, bol, x => by simp only [Blk.html]; exact lastLfAfter_append_nl _ _ _ rfl
  | .heading l is, bol, x => by simp only [Blk.html]; exact lastLfAfter_append_nl _ _ _ rfl
  | .setext l _ is, bol, x => by simp only [Blk.html]; exact lastLfAfter_append_nl _ _ _ rfl
  | .hr _ _, bol, x => by simp only [Blk.html]; exact lastLfAfter_append_nl _ _ _ rfl
  | .icode ls, bol, x => by simp only [Blk.html]; exact lastLfAfter_append_nl _ _ _ rfl
  | .fence _ _ info ls, bol, x => by simp only [Blk.html]; exact lastLfAfter_append_nl _ _ _ rfl
  | .quote bs, bol, x => by simp only [Blk.html]; exact lastLfAfter_append_nl _ _ _ rfl
  | .list m items, bol, x => by simp only [Blk.html]; exact lastLfAfter_append_nl _ _ _ (refListClose_nl m)
  | .htmlb _, bol, x => by simp only [Blk.html]; exact lastLfAfter_append_nl _ _ _ rfl
  | .table al h rows, bol, x => by
    simp only [Blk.html, refTable]
    rw [← List.append_assoc]
    exact lastLfAfter_append_nl _ _ _ rfl

theorem blks_nl : ∀ bs : Blks, lastLfAfter true (bs.html false true) = true
  | .nil => rfl
  | .cons b r => by
    simp only [Blks.html]
    rw [← lastLfAfter_append, atBol_eq, blk_nl b true true]
    exact blks_nl r

/-! ### Block trees -/

def BlkGoal (b : Blk) : Prop :=
  ∀ (cx : Ctx) (lf : Bool), okParent cx.parent = true →
    R (renderT {} {} cx b.toTree) lf (b.html (paraTight cx) lf)
def BlksGoal (bs : Blks) : Prop :=
  ∀ (p g prev : Option NodeValue) (idx : Nat) (lf : Bool), okParent p = true →
    R (renderF {} {} p g prev idx bs.toForest) lf (bs.html (pt p g) lf)
def ItemsGoal (items : Items) : Prop :=
  ∀ (m : Marker) (k : Nat) (L : NList) (g prev : Option NodeValue) (idx : Nat),
    R (renderF {} {} (some (.list L)) g prev idx (items.toForest m k)) true (items.html L.tight)

theorem pt_quote (g : Option NodeValue) (h : okParent g = true) : pt (some .blockQuote) g = false := by
  cases g with
  | none => simp [okParent] at h
  | some v => cases v <;> simp_all [okParent, pt, paraTight]

theorem blk_para (is : Inls) (hs : is.safe = true) : BlkGoal (.para is) := fun cx lf hp => by
  cases ht : paraTight cx
  · have := R_node (sp := {}) rfl (enter_para_loose cx {} is.toForest lf ht) (inls_goal is hs _ _ _ _ _)
      (exit_para_loose cx _ _ ht hp)
    exact R_congr this (by simp [Blk.html])
  · have := R_node (sp := {}) rfl (enter_para_tight cx {} is.toForest lf ht) (inls_goal is hs _ _ _ _ _)
      (exit_para_tight cx _ _ ht)
    exact R_congr this (by simp [Blk.html])

theorem blk_heading (l : Nat) (is : Inls) (hs : is.safe = true) : BlkGoal (.heading l is) := fun cx lf _ => by
  have := R_node (sp := {}) rfl (enter_heading cx {} is.toForest lf l false) (inls_goal is hs _ _ _ _ _)
    (exit_heading cx _ _ l false)
  exact R_congr this (by simp [Blk.html])

theorem blk_setext (l n : Nat) (is : Inls) (hs : is.safe = true) : BlkGoal (.setext l n is) := fun cx lf _ => by
  have := R_node (sp := {}) rfl (enter_heading cx {} is.toForest lf l true) (inls_goal is hs _ _ _ _ _)
    (exit_heading cx _ _ l true)
  exact R_congr this (by simp [Blk.html])

theorem blk_icode (ls : List Bytes) : BlkGoal (.icode ls) := fun cx lf _ =>
  R_leaf (enter_fence cx {} .nil lf false 0 0 0 [] (joinLines ls) (by decide)) rfl

theorem blk_hr (c : UInt8) (n : Nat) : BlkGoal (.hr c n) := fun cx lf _ =>
  R_leaf (enter_hr cx {} .nil lf) rfl

theorem blk_fence (c : UInt8) (len : Nat) (info : Bytes) (ls : List Bytes) (h : infoSafe info = true) :
    BlkGoal (.fence c len info ls) := fun cx lf _ =>
  R_leaf (enter_fence cx {} .nil lf true c len 0 info (joinLines ls) h) rfl

theorem blk_quote (bs : Blks) (ih : BlksGoal bs) : BlkGoal (.quote bs) := fun cx lf hp => by
  have h1 : lastLfAfter lf (crB lf ++ H.bq_open) = true := lf_crB lf _ rfl
  have hc := ih (some .blockQuote) cx.parent none 0 true rfl
  rw [pt_quote _ hp] at hc
  have h2 : lastLfAfter lf ((crB lf ++ H.bq_open) ++ bs.html false true) = true := by
    rw [← lastLfAfter_append, h1]; exact blks_nl bs
  have := R_node (cx := cx) (sp := {}) rfl (enter_quote cx {} bs.toForest lf) (by rw [h1]; exact hc)
    (by rw [h2]; exact exit_quote cx bs.toForest true)
  exact R_congr this (by simp [Blk.html, crB])

theorem blk_list (m : Marker) (items : Items) (ih : ItemsGoal items) : BlkGoal (.list m items) := fun cx lf _ => by
  have h1 : lastLfAfter lf (crB lf ++ refListOpen m) = true := lf_crB lf _ (refListOpen_nl m)
  have hc := ih m m.start { m.nlist m.start m.tight with isTaskList := items.anyTask } cx.parent none 0
  have := R_node (cx := cx) (sp := {}) rfl (enter_list cx {} (items.toForest m m.start) lf m m.start rfl items.anyTask)
    (by rw [h1]; exact hc) (exit_list cx _ _ m _ _ _)
  exact R_congr this (by simp [Blk.html, Marker.nlist])

theorem blk_htmlb (ls : List Bytes) : BlkGoal (.htmlb ls) := fun cx lf _ =>
  R_leaf (enter_htmlb cx {} .nil lf (joinLines ls)) rfl

theorem blk_table (al : List Align) (h : List Inls) (rows : List (List Inls))
    (hh : h.all Inls.safe = true) (hr : rows.all (fun r => r.all Inls.safe) = true) : BlkGoal (.table al h rows) :=
  fun cx lf _ => R_congr (table_goal al h rows hh hr cx lf) (by simp [Blk.html])

theorem blks_nil : BlksGoal .nil := fun p g prev idx lf _ => by
  simp only [Blks.toForest, renderF_nil]; exact R_nop lf

theorem blks_cons (b : Blk) (r : Blks) (hb : BlkGoal b) (hr : BlksGoal r) : BlksGoal (.cons b r) :=
  fun p g prev idx lf hp => by
    simp only [Blks.toForest, renderF_cons, Blks.html]
    exact R_seq (hb _ _ hp) (hr _ _ _ _ _ hp)

theorem items_nil : ItemsGoal .nil := fun m k L g prev idx => by
  simp only [Items.toForest, renderF_nil]; exact R_nop true

theorem items_cons (t : Task) (bs : Blks) (r : Items) (hb : BlksGoal bs) (hr : ItemsGoal r) : ItemsGoal (.cons t bs r) :=
  fun m k L g prev idx => by
    simp only [Items.toForest, renderF_cons, Items.html]
    have hi : ∀ cx : Ctx, cx.parent = some (.list L) →
        R (renderT {} {} cx (.node (t.value (m.nlist k false)) {} bs.toForest)) true
          (H.li_open ++ t.html ++ bs.html L.tight false ++ H.li_close) := by
      intro cx hcx
      have hc := hb (some (t.value (m.nlist k false))) cx.parent none 0 false (by cases t <;> rfl)
      have e : pt (some (t.value (m.nlist k false))) cx.parent = L.tight := by
        cases t <;> simp [pt, paraTight, hcx, Task.value]
      rw [e] at hc
      have hv : htmlChildren (t.value (m.nlist k false)) = true := by cases t <;> rfl
      exact R_congr (R_node hv (enter_titem cx {} _ true t _) (by rw [titem_lf]; exact hc) (exit_titem cx _ _ t _))
        (by simp [crB])
    have hn : lastLfAfter true (H.li_open ++ t.html ++ bs.html L.tight false ++ H.li_close) = true :=
      lastLfAfter_append_nl _ _ _ rfl
    exact R_congr (R_seq (hi _ rfl) (by rw [hn]; exact hr m (k + 1) L g _ _)) (by simp)

mutual
theorem blk_goal : ∀ b : Blk, b.safe = true → BlkGoal b
  | .para is, h => blk_para is (by simpa [Blk.safe] using h)
  | .heading l is, h => blk_heading l is (by simpa [Blk.safe] using h)
  | .setext l n is, h => blk_setext l n is (by simpa [Blk.safe] using h)
  | .hr c n, _ => blk_hr c n
  | .icode ls, _ => blk_icode ls
  | .fence c len info ls, h => blk_fence c len info ls (by simpa [Blk.safe] using h)
  | .quote bs, h => blk_quote bs (blks_goal bs (by simpa [Blk.safe] using h))
  | .list m items, h => blk_list m items (items_goal items (by simpa [Blk.safe] using h))
  | .htmlb ls, _ => blk_htmlb ls
  | .table al hd rows, h => by
    simp only [Blk.safe, Bool.and_eq_true] at h
    exact blk_table al hd rows h.1 h.2
theorem blks_goal : ∀ bs : Blks, bs.safe = true → BlksGoal bs
  | .nil, _ => blks_nil
  | .cons b r, h => by
    simp only [Blks.safe, Bool.and_eq_true] at h
    exact blks_cons b r (blk_goal b h.1) (blks_goal r h.2)
theorem items_goal : ∀ items : Items, items.safe = true → ItemsGoal items
  | .nil, _ => items_nil
  | .cons t bs r, h => by
    simp only [Items.safe, Bool.and_eq_true] at h
    exact items_cons t bs r (blks_goal bs h.1) (items_goal r h.2)
end

end Comrak.Canon
