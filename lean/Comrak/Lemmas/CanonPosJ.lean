/-
Positions of canonical documents, layer J: whole documents.
`positions_doc`: when no written line contains a line-end byte (`cleanG d.glines`) and the local
facts `Doc.ph` hold (both follow from `Doc.ok`), the positioned tree `d.toTreeP` passes the C11 and
C12 oracles on `write d`: `Doc.posOk d = true`.
-/
import Comrak.Lemmas.CanonPosI
namespace Comrak.Canon
open Comrak Bytes

/-- The local facts for a whole document: those of its blocks and footnote bodies, and the writer's
    order of the footnote definitions names every definition (all by `Doc.ok`). -/
def Doc.ph (d : Doc) : Bool :=
  d.blocks.ph && d.notes.all Note.ph && d.noteOrder.all (fun j => decide (j < d.notes.length)) &&
  (List.range d.notes.length).all (fun i => d.noteOrder.contains i)

theorem splitNl_line (g rest : Bytes) (h : nlFree g = true) : splitNl (g ++ 0x0A :: rest) = g :: splitNl rest := by
  induction g with
  | nil => exact splitNl_nl rest
  | cons b g ih =>
    simp only [nlFree, List.all_cons, Bool.and_eq_true, bne_iff_ne, ne_eq] at h
    rw [List.cons_append, splitNl_other b _ h.1, ih (by simpa [nlFree] using h.2)]
    rfl

theorem cleanB_nlFree (g : Bytes) (h : cleanB g = true) : nlFree g = true := by
  simp only [cleanB, nlFree, List.all_eq_true, Bool.and_eq_true, bne_iff_ne, ne_eq] at h ⊢
  exact fun b hb => (h b hb).1

theorem splitNl_joinLines : ∀ (G : List Bytes), cleanG G = true → splitNl (joinLines G) = G ++ [[]]
  | [], _ => by simp [joinLines, splitNl]
  | g :: G, h => by
    simp only [cleanG, List.all_cons, Bool.and_eq_true] at h
    rw [joinLines_cons, splitNl_line g _ (cleanB_nlFree g h.1), splitNl_joinLines G (by simpa [cleanG] using h.2)]
    rfl

theorem end_in_doc (G : List Bytes) (L : Nat) (x : Bytes) (hL : 1 ≤ L) (h : nth G (L - 1) = x) (hx : x ≠ []) :
    posLe L x.length G.length (G.getLastD []).length = true := by
  have hlt : L - 1 < G.length := nth_ne_lt G _ (by rw [h]; exact hx)
  simp only [posLe, Bool.or_eq_true, Bool.and_eq_true, decide_eq_true_eq]
  by_cases he : L = G.length
  · right
    refine ⟨he, ?_⟩
    rw [getLastD_nth, ← he, h]
    exact Nat.le_refl _
  · left; omega

theorem filterMap_valid (notes : List Note) : ∀ (order : List Nat), order.all (fun j => decide (j < notes.length)) = true →
    order.filterMap (fun i => notes[i]?) = order.map (fun i => notes.getD i ⟨[], 0, .nil⟩)
  | [], _ => rfl
  | i :: r, h => by
    simp only [List.all_cons, Bool.and_eq_true, decide_eq_true_eq] at h
    simp only [List.filterMap_cons, List.getElem?_eq_getElem h.1, List.map_cons, filterMap_valid notes r h.2,
      List.getD_eq_getElem?_getD, Option.getD_some]

theorem gOff_if (g : List Bytes) (n X : Nat) (h : g.length = n) : (if n = 0 then X else X + n + 1) = X + gOff g := by
  subst h
  cases g with
  | nil => simp [gOff]
  | cons a b => simp [gOff]; omega

theorem gOff_if2 (g : List Bytes) (n : Nat) (h : g.length = n) : (if n = 0 then 1 else n + 2) = gOff g + 1 := by
  subst h
  cases g with
  | nil => simp [gOff]
  | cons a b => simp [gOff]

/-- **Positions of canonical documents.** -/
theorem positions_doc (d : Doc) (h1 : cleanG d.glines = true) (h2 : d.ph = true) : d.posOk = true := by
  simp only [Doc.ph, Bool.and_eq_true] at h2
  obtain ⟨⟨⟨hbph, hnph⟩, hvalid⟩, hperm⟩ := h2
  -- the written lines
  let g1 : List Bytes := ((d.useDefs).filter (fun x => x.before)).map RefDef.line
  let g2 : List Bytes := d.blocks.lines false
  let g3 : List Bytes := ((d.useDefs).filter (fun x => !x.before) ++ d.shadow).map RefDef.line
  let wn : List Note := d.writtenNotes
  let NG : List Bytes := joinGroups (wn.map fun n => [n.line])
  let G : List Bytes := d.glines
  have hGdef : G = joinGroups (g1 :: g2 :: g3 :: wn.map fun n => [n.line]) := rfl
  have hG2 : ∀ k, k < g2.length → nth G (gOff g1 + k) = nth g2 k := by
    intro k hk
    rw [hGdef, joinGroups_tail, joinGroups_head _ _ k hk]
  have hGN : ∀ k, nth G (gOff g1 + gOff g2 + gOff g3 + k) = nth NG k := by
    intro k
    rw [hGdef, Nat.add_assoc, Nat.add_assoc, joinGroups_tail, joinGroups_tail, joinGroups_tail]
  obtain ⟨_, hN2, hN3⟩ := notes_lines wn
  have hwn : wn = d.noteOrder.map (fun i => d.notes.getD i ⟨[], 0, .nil⟩) ++ d.unused := by
    simp only [wn, Doc.writtenNotes, filterMap_valid d.notes d.noteOrder hvalid]
  -- the tree
  have hsplit : splitNl d.write = G ++ [[]] := splitNl_joinLines G h1
  let D : Sp := if G.length = 0 then {} else { sl := 1, sc := 1, el := G.length, ec := (G.getLastD []).length }
  let l2 := gOff g1 + 1
  let l4 := gOff g1 + 1 + gOff g2 + gOff g3
  have htree : d.toTreeP = .node .document D (d.blocks.toForestThenP (notesForestP d.noteOrder l4 wn.length 0 d.notes) l2) := by
    have e2 := gOff_if2 g1 ((d.useDefs).filter (fun x => x.before)).length (by simp [g1])
    have e3 := fun X => gOff_if g2 (d.blocks.lines false).length X rfl
    have e4 := fun X => gOff_if g3 (((d.useDefs).filter (fun x => !x.before)).length + d.shadow.length) X (by simp [g3])
    simp only [Doc.toTreeP, e2, e3, e4, hsplit, List.length_append, List.length_singleton, Nat.add_sub_cancel,
      List.dropLast_concat]
    rfl
  have hposOk : d.posOk = ((claimCheckT (lineEnts (joinLines G)) none d.toTreeP).isNone &&
      (sliceCheckT (lineEnts (joinLines G)) (joinLines G) d.toTreeP).isNone) := rfl
  rw [hposOk, htree]
  -- footnote definitions
  have hnotes : ∀ (hD : G.length ≠ 0), ∀ k (hk : k < d.notes.length),
      GoodT G (some D) ((d.notes.getD k ⟨[], 0, .nil⟩).toTreeP (l4 + 2 * d.noteOrder.idxOf (0 + k))
        (d.noteOrder.idxOf (0 + k) + 1 == wn.length)) := by
    intro hD k hk
    simp only [Nat.zero_add]
    have hmem : k ∈ d.noteOrder := by
      have := List.all_eq_true.mp hperm k (List.mem_range.mpr hk)
      simpa using this
    have hj : d.noteOrder.idxOf k < d.noteOrder.length := List.idxOf_lt_length_of_mem hmem
    have hjw : d.noteOrder.idxOf k < wn.length := by rw [hwn]; simp; omega
    have hget : wn.getD (d.noteOrder.idxOf k) ⟨[], 0, .nil⟩ = d.notes.getD k ⟨[], 0, .nil⟩ := by
      rw [hwn, List.getD_eq_getElem?_getD, List.getElem?_append_left (by simpa using hj), List.getElem?_map,
        List.getElem?_eq_getElem hj, List.getElem_idxOf hj]
      rfl
    have hline : nth G (l4 + 2 * d.noteOrder.idxOf k - 1) = (d.notes.getD k ⟨[], 0, .nil⟩).line := by
      have e : l4 + 2 * d.noteOrder.idxOf k - 1 = gOff g1 + gOff g2 + gOff g3 + 2 * d.noteOrder.idxOf k := by
        simp only [l4]; omega
      rw [e, hGN, hN2 _ hjw, hget]
    have hDdef : D = { sl := 1, sc := 1, el := G.length, ec := (G.getLastD []).length } := by simp only [D, hD, if_false]
    have hnp : (d.notes.getD k ⟨[], 0, .nil⟩).ph = true := by
      have := List.all_eq_true.mp hnph (d.notes.getD k ⟨[], 0, .nil⟩) (by
        rw [List.getD_eq_getElem?_getD, List.getElem?_eq_getElem hk]; simp)
      exact this
    refine note_good G h1 D _ _ _ hnp (by simp only [l4]; omega) hline (by rw [hDdef]; simp [posLe]; omega) (fun hl => ?_) (fun hl => ?_)
    · rw [hDdef]
      exact end_in_doc G _ _ (by simp only [l4]; omega) hline (note_line_ne _)
    · have hlt : d.noteOrder.idxOf k + 1 < wn.length := by
        have : ¬ (d.noteOrder.idxOf k + 1 = wn.length) := by simpa using hl
        omega
      have e1 : l4 + 2 * d.noteOrder.idxOf k = gOff g1 + gOff g2 + gOff g3 + (2 * d.noteOrder.idxOf k + 1) := by
        simp only [l4]; omega
      have e2 : l4 + 2 * d.noteOrder.idxOf k + 1 = gOff g1 + gOff g2 + gOff g3 + 2 * (d.noteOrder.idxOf k + 1) := by
        simp only [l4]; omega
      have hnext : nth G (l4 + 2 * d.noteOrder.idxOf k + 1) ≠ [] := by
        rw [e2, hGN, hN2 _ hlt]; exact note_line_ne _
      have hltG := nth_ne_lt G _ hnext
      refine ⟨by rw [e1, hGN]; exact hN3 _ hlt, by omega, ?_⟩
      rw [hDdef]
      simp only [posLe, Bool.or_eq_true, Bool.and_eq_true, decide_eq_true_eq]
      left; omega
  by_cases hD : G.length = 0
  · -- nothing is written: no blocks, no notes
    have hG0 : G = [] := List.eq_nil_of_length_eq_zero hD
    have hb0 : d.blocks.isNil = true := by
      cases hq : d.blocks.isNil
      · have hl := Blks.last_ne_nil d.blocks false hq hbph
        have hne := Blks.lines_ne_nil d.blocks false hq hbph
        have := hG2 (g2.length - 1) (by have := List.length_pos_iff.mpr hne; simp only [g2]; omega)
        rw [hG0, ← getLastD_nth] at this
        simp only [nth] at this
        exact absurd this.symm hl
      · rfl
    have hn0 : d.notes = [] := by
      cases hq : d.notes with
      | nil => rfl
      | cons n ns =>
        exfalso
        have hmem : 0 ∈ d.noteOrder := by
          have := List.all_eq_true.mp hperm 0 (List.mem_range.mpr (by rw [hq]; simp))
          simpa using this
        have hj : d.noteOrder.idxOf 0 < d.noteOrder.length := List.idxOf_lt_length_of_mem hmem
        have hjw : d.noteOrder.idxOf 0 < wn.length := by rw [hwn]; simp; omega
        have := hGN (2 * d.noteOrder.idxOf 0)
        rw [hG0, hN2 _ hjw] at this
        simp only [nth] at this
        exact absurd this.symm (note_line_ne _)
    have hbn : d.blocks = .nil := by cases hq : d.blocks <;> simp [hq, Blks.isNil] at hb0 ⊢
    have hDz : D = {} := by simp only [D, hD, if_true]
    rw [hbn, hn0, hDz]
    simp [Blks.toForestThenP, notesForestP, claimCheckT, claimCheckF, sliceCheckT, sliceCheckF, NodeValue.kind, Kind.spReliable,
      sliceLT, spOffsets, lineAt]
  · have hDdef : D = { sl := 1, sc := 1, el := G.length, ec := (G.getLastD []).length } := by simp only [D, hD, if_false]
    have hGpos : 0 < G.length := by omega
    have hvalD : Valid G D := by
      rw [hDdef]
      refine ⟨Nat.le_refl _, by simp only; omega, Nat.le_refl _, Nat.le_refl _, by simp, ?_, ?_⟩
      · simp only [lenAt, ← getLastD_nth]
        by_cases h0 : (G.getLastD []).length = 0
        · right; exact ⟨h0, h0⟩
        · left; omega
      · by_cases h1' : 1 < G.length
        · exact Or.inl h1'
        · refine Or.inr ⟨by simp only; omega, ?_⟩
          by_cases h0 : (G.getLastD []).length = 0
          · exact Or.inr ⟨h0, rfl⟩
          · exact Or.inl (by simp only; omega)
    -- the blocks
    have hblocks : claimCheckF (lineEnts (joinLines G)) (some D) none (d.blocks.toForestP false l2 1 1) = none ∧
        sliceCheckF (lineEnts (joinLines G)) (joinLines G) (d.blocks.toForestP false l2 1 1) = none := by
      refine blks_good G h1 d.blocks false l2 1 1 D none ?_ hbph (by simp only [l2]; omega) (Nat.le_refl _) (Nat.le_refl _)
        (fun h => absurd rfl h) (by rw [hDdef]; simp [posLe, l2]; omega) (fun hq => ?_) (fun Q h => by cases h)
      · exact emb_of_nth g2 l2 (by simp only [l2]; omega) (fun k hk => by
          have e : l2 - 1 + k = gOff g1 + k := by simp only [l2]; omega
          rw [e]; exact hG2 k hk)
      · have hl := Blks.last_ne_nil d.blocks false hq hbph
        have hne := Blks.lines_ne_nil d.blocks false hq hbph
        have hpos := List.length_pos_iff.mpr hne
        rw [endOf_same, hDdef]
        have := hG2 (g2.length - 1) (by simp only [g2]; omega)
        rw [← getLastD_nth] at this
        have e : l2 + (d.blocks.lines false).length - 1 - 1 = gOff g1 + (g2.length - 1) := by simp only [l2, g2]; omega
        have := end_in_doc G (l2 + (d.blocks.lines false).length - 1) _ (by simp only [l2]; omega) (by rw [e]; exact this) hl
        simpa using this
    obtain ⟨n1, n2⟩ := notes_good G D d.noteOrder l4 wn.length d.notes 0 (hnotes hD)
    rw [toForestThenP_eq]
    have hk1 := claimF_append _ _ none hblocks.1 n1
    have hk2 := sliceF_append _ _ hblocks.2 n2
    have hroot : claimCheckT (lineEnts (joinLines G)) none
        (.node .document D ((d.blocks.toForestP false l2 1 1).append (notesForestP d.noteOrder l4 wn.length 0 d.notes))) = none :=
      claim_node_root _ _ _ _ rfl (by rw [hDdef]; simp) (range_of_valid G h1 _ hvalD) hk1
    have hsl : sliceCheckT (lineEnts (joinLines G)) (joinLines G)
        (.node .document D ((d.blocks.toForestP false l2 1 1).append (notesForestP d.noteOrder l4 wn.length 0 d.notes))) = none :=
      slice_node _ _ _ _ _ (fun s _ => ⟨rfl, rfl⟩) hk2
    simp [hroot, hsl]

end Comrak.Canon
