/-
C03, inline level: the model of comrak's HTML formatter on the tree of canonical inline content
spells exactly the reference rendering, from any writer state.
-/
import Comrak.Lemmas.CanonW
import Comrak.Lemmas.Escape
import Comrak.Canon.Ref
import Comrak.Canon.Safe
namespace Comrak.Canon
open Comrak Bytes

/-! ### The two escapers agree with the model's -/

theorem refEscByte_eq : ∀ b : UInt8, refEscByte b = escByte b :=
  forall_uint8_of_fin (by decide +kernel)

theorem refEsc_eq (s : Bytes) : refEsc s = escape s := by
  have : refEscByte = escByte := funext refEscByte_eq
  simp [refEsc, escape, this]

theorem refUrlByte_eq : ∀ b : UInt8, b ≠ 0x27 → refUrlByte b = hrefByte b :=
  forall_uint8_of_fin (by decide +kernel)

theorem refUrl_eq (s : Bytes) (h : s.all (fun b => b != 0x27) = true) : refUrl s = escapeHref s := by
  induction s with
  | nil => rfl
  | cons b r ih =>
    simp only [List.all_cons, Bool.and_eq_true, bne_iff_ne, ne_eq] at h
    have hr : r.all (fun b => b != 0x27) = true := by simpa using h.2
    simp only [refUrl, escapeHref, List.flatMap_cons] at ih ⊢
    rw [refUrlByte_eq b h.1, ih hr]

theorem urlSafe_href {url : Bytes} (h : urlSafe url = true) :
    spellVal (urlVal {} url) = refUrl url := by
  simp only [urlSafe, Bool.and_eq_true, Bool.not_eq_true'] at h
  simp [urlVal, h.2, spellVal, APart.spell, refUrl_eq url h.1]

theorem urlSafe_href' {url : Bytes} (h : urlSafe url = true) :
    List.flatMap APart.spell (urlVal {} url) = refUrl url := urlSafe_href h

/-! ### Footnote names and numbers pass `escape_href` unchanged -/

theorem hrefByte_alnum : ∀ b : UInt8, (isAsciiAlnum b || b == 0x2D) = true → hrefByte b = [b] :=
  forall_uint8_of_fin (by decide +kernel)

theorem escapeHref_id (s : Bytes) (h : ∀ b ∈ s, (isAsciiAlnum b || b == 0x2D) = true) : escapeHref s = s := by
  induction s with
  | nil => rfl
  | cons b r ih =>
    simp only [escapeHref, List.flatMap_cons] at ih ⊢
    rw [hrefByte_alnum b (h b (by simp)), ih (fun c hc => h c (by simp [hc]))]
    rfl

theorem digit_alnum : ∀ b : UInt8, isAsciiDigit b = true → (isAsciiAlnum b || b == 0x2D) = true :=
  forall_uint8_of_fin (by decide +kernel)

theorem escapeHref_dec (n : Nat) : escapeHref (ofNatDec n) = ofNatDec n :=
  escapeHref_id _ (fun b hb => digit_alnum b (ofNatDec_digits n b hb))

theorem escapeHref_name (s : Bytes) (h : s.all isAsciiAlnum = true) : escapeHref s = s :=
  escapeHref_id _ (fun b hb => by simp [List.all_eq_true.mp h b hb])

theorem escapeHref_append (a b : Bytes) : escapeHref (a ++ b) = escapeHref a ++ escapeHref b := by
  simp [escapeHref, List.flatMap_append]

theorem escapeHref_suffix (n : Nat) : escapeHref (fnSuffix n) = fnSuffix n := by
  unfold fnSuffix
  split
  · rw [escapeHref_append, escapeHref_dec]; rfl
  · rfl

/-! ### Plain text of a description -/

mutual
theorem plainT_toTree : ∀ i : Inl, plainT i.toTree = i.plain
  | .text as => by simp [Inl.toTree, leaf, plainT, plainF, Inl.plain]
  | .code n s => by simp [Inl.toTree, leaf, plainT, plainF, Inl.plain]
  | .emph _ cs => by simp [Inl.toTree, plainT, Inl.plain, plainF_toForest cs]
  | .strong _ cs => by simp [Inl.toTree, plainT, Inl.plain, plainF_toForest cs]
  | .strike cs => by simp [Inl.toTree, plainT, Inl.plain, plainF_toForest cs]
  | .link _ _ _ _ cs => by simp [Inl.toTree, plainT, Inl.plain, plainF_toForest cs]
  | .image _ _ _ cs => by simp [Inl.toTree, plainT, Inl.plain, plainF_toForest cs]
  | .autolink s r => by simp [Inl.toTree, leaf, plainT, plainF, Inl.plain]
  | .hard _ => by simp [Inl.toTree, leaf, plainT, plainF, Inl.plain]
  | .soft => by simp [Inl.toTree, leaf, plainT, plainF, Inl.plain]
  | .fnref .. => by simp [Inl.toTree, leaf, plainT, plainF, Inl.plain]
theorem plainF_toForest : ∀ is : Inls, plainF is.toForest = is.plain
  | .nil => by simp [Inls.toForest, plainF, Inls.plain]
  | .cons i r => by simp [Inls.toForest, plainF, Inls.plain, plainT_toTree i, plainF_toForest r]
end

/-! ### Per-kind pieces -/

section pieces
variable (cx : Ctx) (sp : Sp) (cs : Forest) (lf : Bool)

theorem enter_text (s : Bytes) : R (enter {} {} cx (.text s) sp cs) lf (refEsc s) :=
  R_congr (R_emit [.txt s] lf) (by simp [spell, Tok.spell, refEsc_eq])

theorem enter_code (n : Nat) (s : Bytes) :
    R (enter {} {} cx (.code n s) sp cs) lf (H.code_open ++ refEsc s ++ H.code_close) :=
  R_congr (R_emit [.op S.t_code [], .txt s, .cl S.t_code] lf)
    (by simp [spell, Tok.spell, refEsc_eq, spellAttrs, S.t_code, H.code_open, H.code_close])

theorem enter_emph : R (enter {} {} cx .emph sp cs) lf H.em_open := R_emit [.op S.t_em []] lf
theorem exit_emph : R (exit {} cx .emph cs) lf H.em_close := R_emit [.cl S.t_em] lf
theorem enter_strong : R (enter {} {} cx .strong sp cs) lf H.strong_open := R_emit [.op S.t_strong []] lf
theorem exit_strong : R (exit {} cx .strong cs) lf H.strong_close := R_emit [.cl S.t_strong] lf
theorem enter_strike : R (enter {} {} cx .strikethrough sp cs) lf H.del_open := R_emit [.op S.t_del []] lf
theorem exit_strike : R (exit {} cx .strikethrough cs) lf H.del_close := R_emit [.cl S.t_del] lf
theorem enter_hard : R (enter {} {} cx .lineBreak sp cs) lf H.br := R_emit [.vd S.t_br [], nl] lf
theorem enter_soft : R (enter {} {} cx .softBreak sp cs) lf H.nl := R_emit [nl] lf

theorem spell_title (title : Bytes) :
    [0x22] ++ spellAttrs (if title.isEmpty then [] else [⟨S.a_title, some [.esc title]⟩]) ++ [0x3E] =
      refTitle title ++ H.q_gt := by
  cases title with
  | nil => simp [spellAttrs, refTitle, H.q_gt]
  | cons b r =>
    simp [spellAttrs, Attr.spell, spellVal, APart.spell, refTitle, refEsc_eq, S.a_title, H.title_attr, H.q_gt]

theorem enter_link (url title : Bytes) (h : urlSafe url = true) :
    R (enter {} {} cx (.link url title) sp cs) lf (H.a_href ++ refUrl url ++ refTitle title ++ H.q_gt) := by
  have e : enter {} {} cx (.link url title) sp cs =
      W.emit [.op S.t_a ([⟨S.a_href, some (urlVal {} url)⟩] ++
        (if title.isEmpty then [] else [⟨S.a_title, some [.esc title]⟩]))] := rfl
  rw [e]
  refine R_congr (R_emit _ lf) ?_
  have ht := spell_title title
  simp only [spell, List.flatMap_cons, List.flatMap_nil, Tok.spell, spellAttrs, List.flatMap_append,
    Attr.spell, urlSafe_href h, List.append_nil] at ht ⊢
  simp only [List.append_assoc] at ht ⊢
  rw [ht]
  simp [S.t_a, S.a_href, H.a_href]
  done

theorem exit_link (url title : Bytes) : R (exit {} cx (.link url title) cs) lf H.a_close :=
  R_emit [.cl S.t_a] lf

theorem enter_image (url title : Bytes) (h : urlSafe url = true) :
    R (enter {} {} cx (.image url title) sp cs) lf
      (H.img_src ++ refUrl url ++ H.alt_attr ++ refEsc (plainF cs) ++ refTitle title ++ H.img_end) := by
  have e : enter {} {} cx (.image url title) sp cs =
      W.emit [.vd S.t_img ([⟨S.a_src, some (urlVal {} url)⟩, ⟨S.a_alt, some [.esc (plainF cs)]⟩] ++
        (if title.isEmpty then [] else [⟨S.a_title, some [.esc title]⟩]))] := rfl
  rw [e]
  refine R_congr (R_emit _ lf) ?_
  cases title with
  | nil =>
    simp [spell, Tok.spell, spellAttrs, Attr.spell, urlSafe_href' h, spellVal, APart.spell, refEsc_eq, refTitle,
      S.t_img, S.a_src, S.a_alt, S.v_voidend, H.img_src, H.alt_attr, H.img_end]
  | cons b r =>
    simp [spell, Tok.spell, spellAttrs, Attr.spell, urlSafe_href' h, spellVal, APart.spell, refEsc_eq, refTitle,
      S.t_img, S.a_src, S.a_alt, S.a_title, S.v_voidend, H.img_src, H.alt_attr, H.img_end, H.title_attr]

theorem enter_fnref (name : Bytes) (rn ix : Nat) (h : name.all isAsciiAlnum = true) :
    R (enter {} {} cx (.footnoteReference name rn ix) sp cs) lf
      (H.fnref_open ++ name ++ H.fnref_id ++ name ++ fnSuffix rn ++ H.fnref_mid ++ ofNatDec ix ++ H.fnref_close) := by
  have e : enter {} {} cx (.footnoteReference name rn ix) sp cs =
      W.emit [.op S.t_sup [litAttr S.a_class S.v_footnote_ref],
        .op S.t_a [⟨S.a_href, some [.lit S.v_hfn, .href name]⟩, ⟨S.a_id, some [.href (S.v_fnref ++ name ++ fnSuffix rn)]⟩,
          ⟨S.a_data_footnote_ref, none⟩],
        .lit (ofNatDec ix), .cl S.t_a, .cl S.t_sup] := by
    simp [enter, spAttr, fnSuffix, H.dash]
  rw [e]
  refine R_congr (R_emit _ lf) ?_
  have h1 : escapeHref (S.v_fnref ++ name ++ fnSuffix rn) = S.v_fnref ++ name ++ fnSuffix rn := by
    rw [escapeHref_append, escapeHref_append, escapeHref_name name h, escapeHref_suffix]; rfl
  simp only [spell, List.flatMap_cons, List.flatMap_nil, Tok.spell, spellAttrs, Attr.spell, litAttr, spellVal, APart.spell,
    h1, escapeHref_name name h, List.append_nil]
  simp [S.t_sup, S.t_a, S.a_class, S.v_footnote_ref, S.a_href, S.v_hfn, S.a_id, S.v_fnref, S.a_data_footnote_ref,
    H.fnref_open, H.fnref_id, H.fnref_mid, H.fnref_close]

end pieces

/-! ### Inline trees -/

def InlGoal (i : Inl) : Prop := ∀ (cx : Ctx) (lf : Bool), R (renderT {} {} cx i.toTree) lf i.html
def InlsGoal (is : Inls) : Prop :=
  ∀ (p g prev : Option NodeValue) (idx : Nat) (lf : Bool), R (renderF {} {} p g prev idx is.toForest) lf is.html

theorem leaf_text (s : Bytes) (cx : Ctx) (lf : Bool) : R (renderT {} {} cx (leaf (.text s))) lf (refEsc s) :=
  R_leaf (enter_text cx {} .nil lf s) rfl

theorem inl_text (as : List Atom) : InlGoal (.text as) := fun cx lf =>
  R_leaf (enter_text cx {} .nil lf _) rfl

theorem inl_code (n : Nat) (s : Bytes) : InlGoal (.code n s) := fun cx lf =>
  R_leaf (enter_code cx {} .nil lf n s) rfl

theorem inl_hard (b : Bool) : InlGoal (.hard b) := fun cx lf =>
  R_leaf (enter_hard cx {} .nil lf) rfl

theorem inl_soft : InlGoal .soft := fun cx lf =>
  R_leaf (enter_soft cx {} .nil lf) rfl

theorem inl_fnref (name : Bytes) (rn ix : Nat) (h : name.all isAsciiAlnum = true) : InlGoal (.fnref name rn ix) := fun cx lf =>
  R_leaf (enter_fnref cx {} .nil lf name rn ix h) rfl

theorem inl_emph (us : Bool) (cs : Inls) (ih : InlsGoal cs) : InlGoal (.emph us cs) := fun cx lf =>
  R_node rfl (enter_emph cx {} _ lf) (ih _ _ _ _ _) (exit_emph cx _ _)

theorem inl_strong (us : Bool) (cs : Inls) (ih : InlsGoal cs) : InlGoal (.strong us cs) := fun cx lf =>
  R_node rfl (enter_strong cx {} _ lf) (ih _ _ _ _ _) (exit_strong cx _ _)

theorem inl_strike (cs : Inls) (ih : InlsGoal cs) : InlGoal (.strike cs) := fun cx lf =>
  R_node rfl (enter_strike cx {} _ lf) (ih _ _ _ _ _) (exit_strike cx _ _)

theorem inl_link (url title : Bytes) (a : Bool) (sp : Spell) (cs : Inls) (h : urlSafe url = true) (ih : InlsGoal cs) :
    InlGoal (.link url title a sp cs) := fun cx lf =>
  R_congr (R_node rfl (enter_link cx {} _ lf url title h) (ih _ _ _ _ _) (exit_link cx _ _ url title))
    (by simp [Inl.html])

theorem inl_image (url title : Bytes) (a : Bool) (cs : Inls) (h : urlSafe url = true) :
    InlGoal (.image url title a cs) := fun cx lf => by
  simp only [Inl.toTree, renderT_eq]
  have e : exit {} cx (.image url title) cs.toForest = W.nop := rfl
  rw [e]
  have := R_seq (R_seq (enter_image cx {} cs.toForest lf url title h) (R_nop _)) (R_nop _)
  simp only [plainF_toForest, List.append_nil] at this
  exact R_congr (R_weq this (by simp [htmlChildren])) (by simp [Inl.html])

theorem inl_autolink (s : Nat) (r : Bytes) (h : urlSafe (autolinkUrl s r) = true) :
    InlGoal (.autolink s r) := fun cx lf => by
  have hc : R (renderF {} {} (some (.link (autolinkUrl s r) [])) cx.parent none 0
      (.cons (leaf (.text (autolinkUrl s r))) .nil)) (lastLfAfter lf (H.a_href ++ refUrl (autolinkUrl s r) ++ refTitle [] ++ H.q_gt))
      (refEsc (autolinkUrl s r)) := by
    rw [renderF_cons, renderF_nil]
    exact R_congr (R_seq (leaf_text _ _ _) (R_nop _)) (by simp)
  exact R_congr (R_node rfl (enter_link cx {} _ lf _ [] h) hc (exit_link cx _ _ _ _))
    (by simp [Inl.html, refTitle])

theorem inls_nil : InlsGoal .nil := fun p g prev idx lf => by
  simp only [Inls.toForest, renderF_nil]; exact R_nop lf

theorem inls_cons (i : Inl) (r : Inls) (hi : InlGoal i) (hr : InlsGoal r) : InlsGoal (.cons i r) :=
  fun p g prev idx lf => by
    simp only [Inls.toForest, renderF_cons, Inls.html]
    exact R_seq (hi _ _) (hr _ _ _ _ _)

mutual
theorem inl_goal : ∀ i : Inl, i.safe = true → InlGoal i
  | .text as, _ => inl_text as
  | .code n s, _ => inl_code n s
  | .emph us cs, h => inl_emph us cs (inls_goal cs (by simpa [Inl.safe] using h))
  | .strong us cs, h => inl_strong us cs (inls_goal cs (by simpa [Inl.safe] using h))
  | .strike cs, h => inl_strike cs (inls_goal cs (by simpa [Inl.safe] using h))
  | .link url title a sp cs, h => by
    simp only [Inl.safe, Bool.and_eq_true] at h
    exact inl_link url title a sp cs h.1 (inls_goal cs h.2)
  | .image url title a cs, h => by
    simp only [Inl.safe, Bool.and_eq_true] at h
    exact inl_image url title a cs h.1
  | .autolink s r, h => inl_autolink s r (by simpa [Inl.safe] using h)
  | .hard b, _ => inl_hard b
  | .soft, _ => inl_soft
  | .fnref name rn ix, h => inl_fnref name rn ix (by simpa [Inl.safe] using h)
theorem inls_goal : ∀ is : Inls, is.safe = true → InlsGoal is
  | .nil, _ => inls_nil
  | .cons i r, h => by
    simp only [Inls.safe, Bool.and_eq_true] at h
    exact inls_cons i r (inl_goal i h.1) (inls_goal r h.2)
end

end Comrak.Canon
