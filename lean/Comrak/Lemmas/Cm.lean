/-
Lemmas about the pure helpers of the CommonMark writer model (Comrak/Cm.lean), shared by
Props/C07.lean and Props/C17.lean.
-/
import Comrak.Cm
namespace Comrak.Cm
open Comrak Bytes

/-! ### `longest_char_sequence` -/

/-- Number of leading `ch` bytes. -/
def lead (ch : UInt8) : Bytes → Nat
  | [] => 0
  | c :: r => if c == ch then lead ch r + 1 else 0

theorem longestAux_ge_lon (ch : UInt8) (lit : Bytes) (cur lon : Nat) : lon ≤ longestAux ch lit cur lon := by
  induction lit generalizing cur lon with
  | nil => simp only [longestAux]; split <;> omega
  | cons c r ih =>
    simp only [longestAux]
    split
    · exact ih _ _
    · have hm : lon ≤ (if cur > lon then cur else lon) := by split <;> omega
      exact Nat.le_trans hm (ih 0 _)

theorem longestAux_ge_cur_lead (ch : UInt8) (lit : Bytes) (cur lon : Nat) :
    cur + lead ch lit ≤ longestAux ch lit cur lon := by
  induction lit generalizing cur lon with
  | nil => simp only [longestAux, lead]; split <;> omega
  | cons c r ih =>
    simp only [longestAux, lead]
    split
    · have := ih (cur + 1) lon; omega
    · have hm : cur ≤ (if cur > lon then cur else lon) := by split <;> omega
      have := longestAux_ge_lon ch r 0 (if cur > lon then cur else lon)
      omega

theorem prefix_replicate_le_lead (ch : UInt8) (k : Nat) (lit : Bytes)
    (h : List.replicate k ch <+: lit) : k ≤ lead ch lit := by
  induction k generalizing lit with
  | zero => omega
  | succ n ih =>
    cases lit with
    | nil => simp [List.replicate_succ] at h
    | cons c r =>
      rw [List.replicate_succ, List.cons_prefix_cons] at h
      obtain ⟨hc, hr⟩ := h
      have := ih r hr
      simp [lead, ← hc]; omega

/-- Every run of `ch` inside `lit` is at most as long as what the loop returns. -/
theorem longestAux_ge_infix (ch : UInt8) (k : Nat) (lit : Bytes) (cur lon : Nat)
    (h : List.replicate k ch <:+: lit) : k ≤ longestAux ch lit cur lon := by
  induction lit generalizing cur lon with
  | nil =>
    have : List.replicate k ch = [] := List.eq_nil_of_infix_nil h
    have : k = 0 := by cases k <;> simp_all [List.replicate_succ]
    omega
  | cons c r ih =>
    rcases List.infix_cons_iff.mp h with hp | hi
    · have h1 := prefix_replicate_le_lead ch k (c :: r) hp
      have h2 := longestAux_ge_cur_lead ch (c :: r) cur lon
      omega
    · simp only [longestAux]
      split
      · exact ih _ _ hi
      · exact ih _ _ hi

/-! ### `shortest_unused_sequence` -/

/-- The recorded set is exactly the initial set plus the maximal runs shorter than 32. -/
theorem mem_usedAux (ch : UInt8) (lit : Bytes) (cur : Nat) (used : List Nat) (n : Nat) :
    n ∈ usedAux ch lit cur used ↔ n ∈ used ∨ (n ∈ runsAux ch lit cur ∧ n < 32) := by
  induction lit generalizing cur used with
  | nil =>
    simp only [usedAux, runsAux]
    by_cases h0 : cur > 0 <;> by_cases h32 : cur < 32 <;> simp [h0, h32]
    · constructor
      · rintro (rfl | h)
        · exact Or.inr ⟨rfl, h32⟩
        · exact Or.inl h
      · rintro (h | ⟨rfl, _⟩)
        · exact Or.inr h
        · exact Or.inl rfl
    · intro h1 h2; subst h1; omega
  | cons c r ih =>
    simp only [usedAux, runsAux]
    split
    · exact ih _ _
    · rw [ih]
      by_cases h0 : cur > 0 <;> by_cases h32 : cur < 32 <;> simp [h0, h32]
      · constructor
        · rintro ((rfl | h) | h)
          · exact Or.inr ⟨Or.inl rfl, h32⟩
          · exact Or.inl h
          · exact Or.inr ⟨Or.inr h.1, h.2⟩
        · rintro (h | ⟨rfl | h, h2⟩)
          · exact Or.inl (Or.inr h)
          · exact Or.inl (Or.inl rfl)
          · exact Or.inr ⟨h, h2⟩
      · constructor
        · rintro (h | h)
          · exact Or.inl h
          · exact Or.inr ⟨Or.inr h.1, h.2⟩
        · rintro (h | ⟨rfl | h, h2⟩)
          · exact Or.inl h
          · omega
          · exact Or.inr ⟨h, h2⟩

/-- Every recorded maximal run is positive. -/
theorem runsAux_pos (ch : UInt8) (lit : Bytes) (cur : Nat) : ∀ n ∈ runsAux ch lit cur, 0 < n := by
  induction lit generalizing cur with
  | nil =>
    intro n hn
    simp only [runsAux] at hn
    split at hn
    · simp at hn; omega
    · simp at hn
  | cons c r ih =>
    intro n hn
    simp only [runsAux] at hn
    split at hn
    · exact ih _ n hn
    · split at hn
      · rcases List.mem_cons.mp hn with rfl | h
        · assumption
        · exact ih _ n h
      · exact ih _ n hn

/-- The search loop stops at the first index that is not (0 or recorded), at 32 at the latest. -/
theorem firstUnused_spec (used : List Nat) (fuel i : Nat) (h : 33 ≤ i + fuel) :
    i ≤ firstUnused used fuel i ∧ firstUnused used fuel i ≤ max i 32 ∧
    ¬ (firstUnused used fuel i < 32 ∧ (firstUnused used fuel i = 0 ∨ firstUnused used fuel i ∈ used)) := by
  induction fuel generalizing i with
  | zero => simp only [firstUnused]; omega
  | succ f ih =>
    simp only [firstUnused]
    split
    · rename_i hc
      obtain ⟨h1, h2, h3⟩ := ih (i + 1) (by omega)
      simp only [Bool.and_eq_true, decide_eq_true_eq] at hc
      exact ⟨by omega, by omega, h3⟩
    · rename_i hc
      refine ⟨Nat.le_refl _, by omega, ?_⟩
      intro ⟨h1, h2⟩
      apply hc
      simp only [Bool.and_eq_true, decide_eq_true_eq, Bool.or_eq_true, beq_iff_eq, List.contains_iff_mem]
      exact ⟨h1, h2⟩

/-- All smaller positive lengths are in use. -/
theorem firstUnused_min (used : List Nat) (fuel i m : Nat) (hm : i ≤ m) (hlt : m < firstUnused used fuel i) :
    m < 32 ∧ (m = 0 ∨ m ∈ used) := by
  induction fuel generalizing i with
  | zero => simp only [firstUnused] at hlt; omega
  | succ f ih =>
    simp only [firstUnused] at hlt
    split at hlt
    · rename_i hc
      by_cases hmi : m = i
      · subst hmi
        simpa only [Bool.and_eq_true, decide_eq_true_eq, Bool.or_eq_true, beq_iff_eq, List.contains_iff_mem] using hc
      · exact ih (i + 1) (by omega) hlt
    · omega

/-! ### state machine: `cr`, `blankline`, the pending-newline flush -/

theorem cr_needCr_mono (st : St) : st.needCr ≤ st.cr.needCr := by simp [St.cr]; omega
theorem blankline_needCr_mono (st : St) : st.needCr ≤ st.blankline.needCr := by simp [St.blankline]; omega

end Comrak.Cm
