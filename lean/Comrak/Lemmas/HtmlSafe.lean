/-
C02 helper lemmas: every token the HTML renderer writes in safe mode is in `allowedTok`;
`escape_href` neither hides nor creates a dangerous scheme.
-/
import Comrak.HtmlSafe
import Comrak.Lemmas.HtmlSafeGen
import Comrak.Lemmas.Html
import Comrak.Lemmas.Escape
namespace Comrak
open Bytes

/-! ### litSafe -/

theorem litSafe_append (a b : Bytes) : litSafe (a ++ b) = (litSafe a && litSafe b) := by
  simp [litSafe, List.all_append]

theorem litSafe_of_digits (v : Bytes) (h : ∀ c ∈ v, isAsciiDigit c = true) : litSafe v = true := by
  simp only [litSafe, List.all_eq_true]
  intro c hc
  have hd := h c hc
  have key : ∀ n : Fin 256, isAsciiDigit (UInt8.ofNat n.val) = true →
      (!(UInt8.ofNat n.val == 0x22 || UInt8.ofNat n.val == 0x3C || UInt8.ofNat n.val == 0x3E || UInt8.ofNat n.val == 0x26)) = true := by
    decide +kernel
  have := key ⟨c.toNat, c.toNat_lt⟩
  simp only [UInt8.ofNat_toNat] at this
  exact this hd

@[simp] theorem litSafe_dec (n : Nat) : litSafe (ofNatDec n) = true :=
  litSafe_of_digits _ (ofNatDec_digits n)

@[simp] theorem litSafe_nil : litSafe [] = true := rfl
@[simp] theorem litSafe_cons (c : UInt8) (r : Bytes) :
    litSafe (c :: r) = (!(c == 0x22 || c == 0x3C || c == 0x3E || c == 0x26) && litSafe r) := by
  simp [litSafe]

@[simp] theorem litSafe_spBytes (sp : Sp) : litSafe (spBytes sp) = true := by
  simp [spBytes, litSafe_append]


/-! ### allowed tokens of the writer combinators -/

@[simp] theorem all_allowed_cr (st : St) : (W.cr st).1.all allowedTok = true := by
  unfold W.cr; split <;> simp [allowedTok, litSafe]

@[simp] theorem spAttr_ok (o : HtmlOpts) (sp : Sp) : (spAttr o sp).all attrOk = true := by
  unfold spAttr; split
  · simp [attrOk, partOk]
  · rfl

theorem headingName_vocab (level : Nat) (h1 : 1 ≤ level) (h6 : level ≤ 6) :
    tagVocab.contains (headingName level) = true := by
  have : level = 1 ∨ level = 2 ∨ level = 3 ∨ level = 4 ∨ level = 5 ∨ level = 6 := by omega
  rcases this with rfl | rfl | rfl | rfl | rfl | rfl <;> decide

/-! ### anchors -/

/-- The normalisation supplied to the model only produces attribute-safe bytes
    (the real normaliser keeps letters, marks, numbers, connector punctuation, `-`). -/
def NormSafe (nt : NormTable) : Prop := ∀ s, litSafe (nt.norm s) = true

theorem normAscii_safe (s : Bytes) : litSafe (normAscii s) = true := by
  simp only [litSafe, List.all_eq_true, normAscii, List.mem_filterMap]
  rintro c ⟨x, _, hx⟩
  have key : ∀ n : Fin 256,
      Option.all (fun m : UInt8 => !(m == 0x22 || m == 0x3C || m == 0x3E || m == 0x26))
        (let c := toLowerAscii (UInt8.ofNat n.val)
         if c == 0x20 then some (0x2D : UInt8)
         else if c == 0x2D || c == 0x5F || isAsciiAlnum c || c ≥ 0x80 then some c else none) = true := by
    decide +kernel
  have := key ⟨x.toNat, x.toNat_lt⟩
  simp only [UInt8.ofNat_toNat] at this
  rw [hx] at this
  exact this

theorem normSafe_empty : NormSafe {} := by
  intro s; simp [NormTable.norm, normAscii_safe]

theorem anchorLoop_safe (issued : List Bytes) (id : Bytes) (hid : litSafe id = true) (fuel uniq : Nat) (a : Bytes)
    (h : anchorLoop issued id fuel uniq = some a) : litSafe a = true := by
  induction fuel generalizing uniq with
  | zero => simp [anchorLoop] at h
  | succ k ih =>
    simp only [anchorLoop] at h
    by_cases hu : uniq = 0
    · subst hu
      simp only [if_true] at h
      by_cases hc : issued.contains id = true
      · simp only [hc, if_true] at h; exact ih _ h
      · simp only [hc, Bool.false_eq_true, if_false] at h
        have := Option.some.inj h; subst this; exact hid
    · simp only [hu, if_false] at h
      by_cases hc : issued.contains (id ++ [0x2D] ++ ofNatDec uniq) = true
      · simp only [hc, if_true] at h; exact ih _ h
      · simp only [hc, Bool.false_eq_true, if_false] at h
        have := Option.some.inj h; subst this
        simp [litSafe_append, hid]

theorem anchorize_safe (nt : NormTable) (hn : NormSafe nt) (issued : List Bytes) (h : Bytes) :
    litSafe (anchorize nt issued h).1 = true := by
  unfold anchorize
  simp only []
  cases ha : anchorLoop issued (nt.norm h) (issued.length + 1) 0 with
  | none => exact hn h
  | some a => exact anchorLoop_safe _ _ (hn h) _ _ _ ha

end Comrak

namespace Comrak
open Bytes

/-- Node-local part of `ParserShape`: no `Raw` node, `EscapedTag` payload harmless, heading level 1-6. -/
def nodeSafe : NodeValue → Bool
  | .raw _ => false
  | .escapedTag s => litSafe s
  | .heading level _ => decide (1 ≤ level) && decide (level ≤ 6)
  | _ => true

theorem all_backrefToks (name : Bytes) (ix k n : Nat) : (backrefToks name ix k n).all allowedTok = true := by
  induction k generalizing n with
  | zero => rfl
  | succ k ih =>
    simp only [backrefToks, List.all_append, ih, Bool.and_true]
    by_cases h : n > 1
    · simp [h, allowedTok, attrOk, partOk, litAttr, litSafe_append]
    · simp [h, allowedTok, attrOk, partOk, litAttr, litSafe_append]

theorem all_putBackref (name : Bytes) (total : Nat) (st : St) :
    (putBackref name total st).1.1.all allowedTok = true := by
  unfold putBackref; split <;> simp [all_backrefToks]

theorem all_htmlBlockToks (o : HtmlOpts) (hu : o.unsafe_ = false) (l : Bytes) :
    (htmlBlockToks o l).all allowedTok = true := by
  unfold htmlBlockToks; simp [hu]; split <;> simp [allowedTok]

theorem all_htmlInlineToks (o : HtmlOpts) (hu : o.unsafe_ = false) (l : Bytes) :
    (htmlInlineToks o l).all allowedTok = true := by
  unfold htmlInlineToks; simp [hu]; split <;> simp [allowedTok]

theorem all_alignAttr (al : Align) : (alignAttr al).all attrOk = true := by
  cases al <;> simp [alignAttr, litAttr, attrOk, partOk]

theorem all_rowSectionToks (h : Bool) (prev : Option NodeValue) : (rowSectionToks h prev).all allowedTok = true := by
  unfold rowSectionToks; (repeat' split) <;> simp [allowedTok, nl]

@[simp] theorem all_urlVal (o : HtmlOpts) (u : Bytes) : (urlVal o u).all partOk = true := by
  unfold urlVal; split <;> simp [partOk]

@[simp] theorem mem_urlVal_ok (o : HtmlOpts) (u : Bytes) (x : APart) (h : x ∈ urlVal o u) : partOk x = true := by
  have := all_urlVal o u
  rw [List.all_eq_true] at this
  exact this x h

@[simp] theorem all_mathCodeBlockToks (o : HtmlOpts) (sp : Sp) (l : Bytes) :
    (mathCodeBlockToks o sp l).all allowedTok = true := by
  unfold mathCodeBlockToks
  by_cases h1 : o.githubPreLang = true <;> by_cases h2 : o.sourcepos = true <;>
    simp [h1, h2, allowedTok, attrOk, partOk, nl, List.all_append]

@[simp] theorem all_codeBlockAttrs (o : HtmlOpts) (info : Bytes) (sp : Sp) :
    (codeBlockAttrs o info sp).1.all attrOk = true ∧ (codeBlockAttrs o info sp).2.all attrOk = true := by
  unfold codeBlockAttrs
  by_cases h0 : info.isEmpty = true <;> by_cases h1 : o.githubPreLang = true <;> by_cases h2 : o.sourcepos = true <;>
    by_cases h3 : (o.fullInfoString && !(trimUnicode (splitInfo info).2).isEmpty) = true <;>
    simp [h0, h1, h2, h3, attrOk, partOk, List.all_append]

end Comrak
