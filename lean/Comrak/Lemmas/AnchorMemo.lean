/-
Lemmas for C15 (anchors, the code as it is): the memoised `Anchorizer` (`anchorizeMemo` of
Comrak/Anchor.lean, /repo commit 70a0ef9) refines the set-based `anchorize`, and its probes summed over a
sequence of headings are linear, where the set-based loop is quadratic.
-/
import Comrak.Lemmas.Anchor
namespace Comrak
open Bytes

/-! ## The map -/

namespace AnchorMap

theorem get_insert (m : AnchorMap) (k : Bytes) (v : Nat) (k' : Bytes) :
    (m.insert k v).get k' = if k = k' then some v else m.get k' := by
  induction m with
  | nil => simp [insert, get]
  | cons a r ih =>
    obtain ⟨a, w⟩ := a
    simp only [insert]
    by_cases h : a = k
    · subst h
      simp only [if_true, get]
      by_cases h2 : a = k' <;> simp [h2]
    · simp only [h, if_false, get, ih]
      by_cases h2 : a = k'
      · subst h2
        simp [Ne.symm h]
      · simp [h2]

theorem containsKey_insert (m : AnchorMap) (k : Bytes) (v : Nat) (k' : Bytes) :
    (m.insert k v).containsKey k' = (decide (k = k') || m.containsKey k') := by
  simp only [containsKey, get_insert]
  by_cases h : k = k' <;> simp [h]

/-- A key is one of the first components. -/
theorem mem_keys_of_get (m : AnchorMap) (k : Bytes) (v : Nat) (h : m.get k = some v) : (k, v) ∈ m := by
  induction m with
  | nil => simp [get] at h
  | cons a r ih =>
    obtain ⟨a, w⟩ := a
    simp only [get] at h
    by_cases h1 : a = k
    · simp only [h1, if_true, Option.some.injEq] at h
      simp [h1, h]
    · simp only [h1, if_false] at h
      exact List.mem_cons_of_mem _ (ih h)

theorem mem_keys_of_containsKey (m : AnchorMap) (k : Bytes) (h : m.containsKey k = true) : k ∈ m.map (·.1) := by
  unfold containsKey at h
  cases hg : m.get k with
  | none => simp [hg] at h
  | some v => exact List.mem_map.mpr ⟨(k, v), mem_keys_of_get m k v hg, rfl⟩

/-- Well-formed: one entry per key (a `HashMap`). -/
def WF (m : AnchorMap) : Prop := (m.map (·.1)).Nodup

theorem wf_nil : WF [] := by simp [WF]

theorem keys_insert (m : AnchorMap) (k : Bytes) (v : Nat) (x : Bytes) (h : x ∈ (m.insert k v).map (·.1)) :
    x = k ∨ x ∈ m.map (·.1) := by
  induction m with
  | nil => simp [insert] at h; exact Or.inl h
  | cons a r ih =>
    obtain ⟨a, w⟩ := a
    simp only [insert] at h
    by_cases h1 : a = k
    · simp only [h1, if_true, List.map_cons, List.mem_cons] at h
      rcases h with h | h
      · exact Or.inl h
      · exact Or.inr (by simp [h])
    · simp only [h1, if_false, List.map_cons, List.mem_cons] at h
      rcases h with h | h
      · exact Or.inr (by simp [h])
      · rcases ih h with h | h
        · exact Or.inl h
        · exact Or.inr (by simp [h])

theorem wf_insert (m : AnchorMap) (k : Bytes) (v : Nat) (h : WF m) : WF (m.insert k v) := by
  induction m with
  | nil => simp [WF, insert]
  | cons a r ih =>
    obtain ⟨a, w⟩ := a
    unfold WF at h ih ⊢
    simp only [List.map_cons, List.nodup_cons] at h
    simp only [insert]
    by_cases h1 : a = k
    · simp only [h1, if_true, List.map_cons, List.nodup_cons]
      exact ⟨h1 ▸ h.1, h.2⟩
    · simp only [h1, if_false, List.map_cons, List.nodup_cons]
      refine ⟨?_, ih h.2⟩
      intro hm
      rcases keys_insert r k v a hm with h2 | h2
      · exact h1 h2
      · exact h.1 h2

/-- With one entry per key, every entry is what `get` returns. -/
theorem get_of_mem (m : AnchorMap) (h : WF m) (k : Bytes) (v : Nat) (hm : (k, v) ∈ m) : m.get k = some v := by
  induction m with
  | nil => simp at hm
  | cons a r ih =>
    obtain ⟨a, w⟩ := a
    unfold WF at h ih
    simp only [List.map_cons, List.nodup_cons] at h
    simp only [get]
    rcases List.mem_cons.mp hm with he | hr
    · simp only [Prod.mk.injEq] at he
      simp [he.1, he.2]
    · by_cases h1 : a = k
      · exfalso
        apply h.1
        rw [h1]
        exact List.mem_map.mpr ⟨(k, v), hr, rfl⟩
      · simp only [h1, if_false]
        exact ih h.2 hr

/-- An insert moves the potential by the difference of the new and the old value. -/
theorem valSum_insert (m : AnchorMap) (k : Bytes) (v : Nat) :
    (m.insert k v).valSum + (m.get k).getD 0 = m.valSum + v := by
  induction m with
  | nil => simp [insert, get, valSum]
  | cons a r ih =>
    obtain ⟨a, w⟩ := a
    simp only [insert, get]
    by_cases h1 : a = k
    · simp only [h1, if_true, valSum, List.map_cons, List.sum_cons, Option.getD_some]
      omega
    · simp only [h1, if_false]
      simp only [valSum, List.map_cons, List.sum_cons] at ih ⊢
      omega

end AnchorMap

/-! ## The loop -/

theorem memoLoop_eq (m : AnchorMap) (id : Bytes) (fuel uniq : Nat) :
    memoLoop m id (fuel + 1) uniq =
      if m.containsKey (anchorCand id uniq) then memoLoop m id fuel (uniq + 1)
      else some (anchorCand id uniq, uniq) := rfl

/-- A failed search means every candidate tried is a key. -/
theorem memoLoop_none (m : AnchorMap) (id : Bytes) (fuel uniq : Nat)
    (h : memoLoop m id fuel uniq = none) : ∀ k, k < fuel → m.containsKey (anchorCand id (uniq + k)) = true := by
  induction fuel generalizing uniq with
  | zero => intro k hk; omega
  | succ f ih =>
    rw [memoLoop_eq] at h
    split at h
    · rename_i hc
      intro k hk
      cases k with
      | zero => simpa using hc
      | succ k =>
        have := ih (uniq + 1) h k (by omega)
        have e : uniq + 1 + k = uniq + (k + 1) := by omega
        rwa [e] at this
    · simp at h

/-- A successful search: the result is the candidate at the final `uniq`, it is not a key, every candidate
    between the start and it is a key, and the probes are counted by the distance. -/
theorem memoLoop_some_spec (m : AnchorMap) (id : Bytes) (fuel uniq : Nat) (a : Bytes) (u : Nat)
    (h : memoLoop m id fuel uniq = some (a, u)) :
    a = anchorCand id u ∧ uniq ≤ u ∧ m.containsKey a = false ∧
    (∀ j, uniq ≤ j → j < u → m.containsKey (anchorCand id j) = true) ∧
    memoLoopProbes m id fuel uniq = u + 1 - uniq := by
  induction fuel generalizing uniq with
  | zero => simp [memoLoop] at h
  | succ f ih =>
    rw [memoLoop_eq] at h
    split at h
    · rename_i hc
      obtain ⟨h1, h2, h3, h4, h5⟩ := ih (uniq + 1) h
      refine ⟨h1, by omega, h3, ?_, ?_⟩
      · intro j hj1 hj2
        by_cases e : j = uniq
        · rw [e]; exact hc
        · exact h4 j (by omega) hj2
      · simp only [memoLoopProbes, hc, if_true, h5]
        omega
    · rename_i hc
      simp only [Option.some.injEq, Prod.mk.injEq] at h
      obtain ⟨ha, hu⟩ := h
      subst hu
      subst ha
      refine ⟨rfl, Nat.le_refl _, by simpa using hc, ?_, ?_⟩
      · intro j h1 h2; omega
      · simp [memoLoopProbes, hc]

/-- Pigeonhole: `m.length + 1` pairwise different candidates are not all keys. -/
theorem memoLoop_ne_none (m : AnchorMap) (id : Bytes) (uniq : Nat) :
    memoLoop m id (m.length + 1) uniq ≠ none := by
  intro h
  have hall := memoLoop_none m id _ uniq h
  let cands := (List.range (m.length + 1)).map fun k => anchorCand id (uniq + k)
  have hnd : cands.Nodup := by
    show List.Pairwise (· ≠ ·) _
    rw [List.pairwise_map]
    refine List.Pairwise.imp ?_ (List.nodup_range (n := m.length + 1))
    intro a b hab he
    exact hab (by have := anchorCand_injective id he; omega)
  have hsub : cands ⊆ m.map (·.1) := by
    intro x hx
    obtain ⟨k, hk, rfl⟩ := List.mem_map.mp hx
    exact AnchorMap.mem_keys_of_containsKey m _ (hall k (List.mem_range.mp hk))
  have := List.Nodup.length_le_of_subset hnd hsub
  simp [cands] at this
  omega

theorem memoLoop_some (m : AnchorMap) (id : Bytes) (uniq : Nat) :
    ∃ a u, memoLoop m id (m.length + 1) uniq = some (a, u) := by
  cases h : memoLoop m id (m.length + 1) uniq with
  | none => exact absurd h (memoLoop_ne_none m id uniq)
  | some p => exact ⟨p.1, p.2, rfl⟩

/-! ## The invariant and the refinement -/

/-- The map of the code as it is, related to the set of issued anchors of the specification:
    the keys are the issued anchors, and below the counter stored with a key every candidate is taken. -/
structure MemoInv (m : AnchorMap) (issued : List Bytes) : Prop where
  keys : ∀ k, m.containsKey k = true ↔ k ∈ issued
  taken : ∀ k v, m.get k = some v → ∀ j, j < v → m.containsKey (anchorCand k j) = true

theorem memoInv_nil : MemoInv [] [] := by
  constructor
  · intro k; simp [AnchorMap.containsKey, AnchorMap.get]
  · intro k v h; simp [AnchorMap.get] at h

theorem anchorCand_zero (id : Bytes) : anchorCand id 0 = id := by simp [anchorCand]

/-- What one call does, in terms of both models. -/
theorem anchorizeMemo_step (nt : NormTable) (m : AnchorMap) (issued : List Bytes) (header : Bytes)
    (h : MemoInv m issued) :
    ∃ u, (m.get (nt.norm header)).getD 0 ≤ u ∧
      anchorize nt issued header = (anchorCand (nt.norm header) u, anchorCand (nt.norm header) u :: issued) ∧
      anchorizeMemo nt m header =
        (anchorCand (nt.norm header) u, (m.insert (anchorCand (nt.norm header) u) 0).insert (nt.norm header) (u + 1)) ∧
      anchorCand (nt.norm header) u ∉ issued ∧
      (∀ j, j < u → anchorCand (nt.norm header) j ∈ issued) := by
  generalize hid : nt.norm header = id
  obtain ⟨a', u, hm⟩ := memoLoop_some m id ((m.get id).getD 0)
  obtain ⟨m1, m2, m3, m4, _⟩ := memoLoop_some_spec m id _ _ a' u hm
  cases ho : anchorLoop issued id (issued.length + 1) 0 with
  | none => exact absurd ho (anchorLoop_ne_none issued id 0)
  | some a =>
    obtain ⟨o1, k, _, o2, o3⟩ := anchorLoop_some_spec issued id _ 0 a ho
    simp only [Nat.zero_add] at o2 o3
    -- below the stored counter everything is issued
    have hlow : ∀ j, j < (m.get id).getD 0 → anchorCand id j ∈ issued := by
      intro j hj
      cases hg : m.get id with
      | none => simp [hg] at hj
      | some v =>
        simp only [hg, Option.getD_some] at hj
        exact (h.keys _).mp (h.taken id v hg j hj)
    have hku : k = u := by
      rcases Nat.lt_trichotomy k u with hlt | heq | hgt
      · exfalso
        by_cases hk0 : k < (m.get id).getD 0
        · exact o1 (o2 ▸ hlow k hk0)
        · exact o1 (o2 ▸ (h.keys _).mp (m4 k (by omega) hlt))
      · exact heq
      · exfalso
        have : anchorCand id u ∈ issued := o3 u hgt
        have := (h.keys _).mpr this
        rw [← m1, m3] at this
        exact Bool.noConfusion this
    subst hku
    subst o2
    subst m1
    refine ⟨k, m2, ?_, ?_, o1, o3⟩
    · simp only [anchorize, hid, ho]
    · simp only [anchorizeMemo, hid, hm]

/-- **The memoised `anchorize` refines the set-based one**: from related states it returns the same anchor,
    and the new states are related again. -/
theorem anchorizeMemo_refines_aux (nt : NormTable) (m : AnchorMap) (issued : List Bytes) (header : Bytes)
    (h : MemoInv m issued) :
    (anchorizeMemo nt m header).1 = (anchorize nt issued header).1 ∧
    MemoInv (anchorizeMemo nt m header).2 (anchorize nt issued header).2 := by
  obtain ⟨u, _, e1, e2, hf, hb⟩ := anchorizeMemo_step nt m issued header h
  rw [e1, e2]
  refine ⟨rfl, ?_⟩
  generalize nt.norm header = id at *
  -- the base is a key afterwards: it is the anchor itself (u = 0) or was taken before
  have hid : u ≠ 0 → id ∈ issued := by
    intro hu
    have := hb 0 (by omega)
    rwa [anchorCand_zero] at this
  have hkeys : ∀ x, ((m.insert (anchorCand id u) 0).insert id (u + 1)).containsKey x = true ↔
      x ∈ anchorCand id u :: issued := by
    intro x
    simp only [AnchorMap.containsKey_insert, Bool.or_eq_true, decide_eq_true_eq, List.mem_cons, h.keys]
    constructor
    · rintro (h1 | h1 | h1)
      · by_cases hu : u = 0
        · left; rw [hu, anchorCand_zero]; exact h1.symm
        · right; exact h1 ▸ hid hu
      · left; exact h1.symm
      · right; exact h1
    · rintro (h1 | h1)
      · right; left; exact h1.symm
      · right; right; exact h1
  constructor
  · exact hkeys
  · intro x v hg j hj
    rw [hkeys]
    simp only [AnchorMap.get_insert] at hg
    by_cases hx : id = x
    · subst hx
      simp only [if_true, Option.some.injEq] at hg
      by_cases hju : j = u
      · rw [hju]; exact List.mem_cons_self
      · exact List.mem_cons_of_mem _ (hb j (by omega))
    · simp only [hx, if_false] at hg
      by_cases hx2 : anchorCand id u = x
      · simp only [hx2, if_true, Option.some.injEq] at hg
        omega
      · simp only [hx2, if_false] at hg
        exact List.mem_cons_of_mem _ ((h.keys _).mp (h.taken x v hg j hj))

/-- Whole sequences: the same list of anchors. -/
theorem anchorizeMemoFrom_eq (nt : NormTable) (hs : List Bytes) (m : AnchorMap) (issued : List Bytes)
    (h : MemoInv m issued) : anchorizeMemoFrom nt m hs = anchorizeFrom nt issued hs := by
  induction hs generalizing m issued with
  | nil => rfl
  | cons x hs ih =>
    obtain ⟨h1, h2⟩ := anchorizeMemo_refines_aux nt m issued x h
    simp only [anchorizeMemoFrom, anchorizeFrom, h1]
    rw [ih _ _ h2]

/-! ## The step count -/

theorem isAsciiDigit_dash : isAsciiDigit 0x2D = false := by decide

theorem dash_not_in_dec (n : Nat) : (0x2D : UInt8) ∉ ofNatDec n := by
  intro h
  have := ofNatDec_digits n _ h
  rw [isAsciiDigit_dash] at this
  exact Bool.noConfusion this

/-- A list is split at its last `d` in one way only. -/
theorem split_last_unique (d : UInt8) (a b x y : Bytes) (hx : d ∉ x) (hy : d ∉ y)
    (h : a ++ d :: x = b ++ d :: y) : a = b ∧ x = y := by
  induction a generalizing b with
  | nil =>
    cases b with
    | nil => simpa using h
    | cons c b' =>
      simp only [List.nil_append, List.cons_append, List.cons.injEq] at h
      exact absurd (h.2 ▸ (by simp : d ∈ b' ++ d :: y)) hx
  | cons e a' ih =>
    cases b with
    | nil =>
      simp only [List.nil_append, List.cons_append, List.cons.injEq] at h
      exact absurd (h.2 ▸ (by simp : d ∈ a' ++ d :: x)) hy
    | cons c b' =>
      simp only [List.cons_append, List.cons.injEq] at h
      obtain ⟨r1, r2⟩ := ih b' h.2
      exact ⟨by rw [h.1, r1], r2⟩

/-- Suffixed candidates of different bases are different: a suffixed anchor determines base and suffix. -/
theorem anchorCand_injective2 (k k' : Bytes) (j j' : Nat) (hj : j ≠ 0) (hj' : j' ≠ 0)
    (h : anchorCand k j = anchorCand k' j') : k = k' ∧ j = j' := by
  simp only [anchorCand, hj, hj', if_false, List.append_assoc, List.singleton_append] at h
  obtain ⟨h1, h2⟩ := split_last_unique 0x2D k k' _ _ (dash_not_in_dec j) (dash_not_in_dec j') h
  exact ⟨h1, ofNatDec_injective h2⟩

/-- The witnesses of the potential: for every key and every suffix below its counter, the candidate
    together with the flag "is the bare key". -/
def memoWitnesses (m : AnchorMap) : List (Bytes × Bool) :=
  m.flatMap fun kv => (List.range kv.2).map fun j => (anchorCand kv.1 j, decide (j = 0))

theorem memoWitnesses_length (m : AnchorMap) : (memoWitnesses m).length = m.valSum := by
  induction m with
  | nil => rfl
  | cons a r ih =>
    simp only [memoWitnesses, List.flatMap_cons, List.length_append, List.length_map, List.length_range,
      AnchorMap.valSum, List.map_cons, List.sum_cons] at ih ⊢
    rw [ih]

theorem memoWitnesses_nodup (m : AnchorMap) (h : m.WF) : (memoWitnesses m).Nodup := by
  unfold memoWitnesses
  show List.Pairwise (· ≠ ·) _
  rw [List.pairwise_flatMap]
  constructor
  · intro kv _
    rw [List.pairwise_map]
    refine List.Pairwise.imp ?_ (List.nodup_range (n := kv.2))
    intro a b hab he
    simp only [Prod.mk.injEq] at he
    exact hab (anchorCand_injective kv.1 he.1)
  · have hk : m.Pairwise (fun a b => a.1 ≠ b.1) := by
      have : List.Pairwise (· ≠ ·) (m.map (·.1)) := h
      rwa [List.pairwise_map] at this
    refine List.Pairwise.imp ?_ hk
    intro a b hab x hx y hy he
    obtain ⟨j, _, rfl⟩ := List.mem_map.mp hx
    obtain ⟨j', _, hy'⟩ := List.mem_map.mp hy
    rw [← hy'] at he
    simp only [Prod.mk.injEq, decide_eq_decide] at he
    by_cases hj : j = 0
    · have hj' : j' = 0 := he.2.mp hj
      rw [hj, hj', anchorCand_zero, anchorCand_zero] at he
      exact hab he.1
    · have hj' : j' ≠ 0 := fun e => hj (he.2.mpr e)
      exact hab (anchorCand_injective2 _ _ _ _ hj hj' he.1).1

theorem twice_length (l : List Bytes) : (l.flatMap fun s => [(s, true), (s, false)]).length = 2 * l.length := by
  induction l with
  | nil => rfl
  | cons s r ih =>
    simp only [List.flatMap_cons, List.length_append, List.length_cons, List.length_nil] at ih ⊢
    omega

/-- **The potential is at most twice the number of issued anchors**: an anchor is a witness at most twice,
    once as a bare key and once as a suffixed candidate of its only possible base. -/
theorem valSum_le (m : AnchorMap) (issued : List Bytes) (h : MemoInv m issued) (hw : m.WF) :
    m.valSum ≤ 2 * issued.length := by
  let T : List (Bytes × Bool) := issued.flatMap fun s => [(s, true), (s, false)]
  have hT : T.length = 2 * issued.length := twice_length issued
  have hsub : memoWitnesses m ⊆ T := by
    intro x hx
    obtain ⟨kv, hkv, hx⟩ := List.mem_flatMap.mp hx
    obtain ⟨j, hj, rfl⟩ := List.mem_map.mp hx
    have hg := AnchorMap.get_of_mem m hw kv.1 kv.2 hkv
    have hi : anchorCand kv.1 j ∈ issued := (h.keys _).mp (h.taken kv.1 kv.2 hg j (List.mem_range.mp hj))
    apply List.mem_flatMap.mpr
    refine ⟨_, hi, ?_⟩
    cases decide (j = 0) <;> simp
  have := List.Nodup.length_le_of_subset (memoWitnesses_nodup m hw) hsub
  rw [memoWitnesses_length, hT] at this
  exact this

/-- One call moves the potential by exactly its number of probes. -/
theorem anchorizeMemo_probes_potential (nt : NormTable) (m : AnchorMap) (header : Bytes) :
    (anchorizeMemo nt m header).2.valSum = m.valSum + anchorizeMemoProbes nt m header := by
  unfold anchorizeMemo anchorizeMemoProbes
  generalize nt.norm header = id
  obtain ⟨a, u, hm⟩ := memoLoop_some m id ((m.get id).getD 0)
  obtain ⟨m1, m2, m3, _, m5⟩ := memoLoop_some_spec m id _ _ a u hm
  simp only [hm, m5]
  have hga : m.get a = none := by
    unfold AnchorMap.containsKey at m3
    cases hg : m.get a with
    | none => rfl
    | some v => simp [hg] at m3
  have s1 := AnchorMap.valSum_insert m a 0
  have s2 := AnchorMap.valSum_insert (m.insert a 0) id (u + 1)
  rw [AnchorMap.get_insert] at s2
  simp only [hga, Option.getD_none] at s1
  by_cases hai : a = id
  · -- the anchor is the base: u = 0 and the base was not a key
    subst hai
    have hu : u = 0 := by
      have : anchorCand a u = anchorCand a 0 := by rw [anchorCand_zero, ← m1]
      exact anchorCand_injective a this
    simp only [if_true, Option.getD_some] at s2
    simp only [hga, Option.getD_none] at m2 ⊢
    omega
  · simp only [hai, if_false] at s2
    omega

theorem memoProbes_potential (nt : NormTable) (hs : List Bytes) (m : AnchorMap) :
    (memoStateFrom nt m hs).valSum = m.valSum + memoProbesFrom nt m hs := by
  induction hs generalizing m with
  | nil => rfl
  | cons x hs ih =>
    simp only [memoStateFrom, memoProbesFrom]
    rw [ih, anchorizeMemo_probes_potential]
    omega

theorem anchorizeMemo_wf (nt : NormTable) (m : AnchorMap) (header : Bytes) (h : m.WF) :
    (anchorizeMemo nt m header).2.WF := by
  unfold anchorizeMemo
  simp only
  split
  · exact AnchorMap.wf_insert _ _ _ (AnchorMap.wf_insert _ _ _ h)
  · exact h

theorem anchorizeFrom_length (nt : NormTable) (hs : List Bytes) (issued : List Bytes) :
    (anchorizeFrom nt issued hs).length = hs.length := by
  induction hs generalizing issued with
  | nil => rfl
  | cons x hs ih => simp only [anchorizeFrom, List.length_cons, ih]

/-- The states stay related and well-formed along a sequence; the set has grown by one anchor per heading. -/
theorem memoStateFrom_inv (nt : NormTable) (hs : List Bytes) (m : AnchorMap) (issued : List Bytes)
    (h : MemoInv m issued) (hw : m.WF) :
    ∃ issued', MemoInv (memoStateFrom nt m hs) issued' ∧ (memoStateFrom nt m hs).WF ∧
      issued'.length = issued.length + hs.length := by
  induction hs generalizing m issued with
  | nil => exact ⟨issued, h, hw, rfl⟩
  | cons x hs ih =>
    obtain ⟨_, h2⟩ := anchorizeMemo_refines_aux nt m issued x h
    obtain ⟨i', a1, a2, a3⟩ := ih _ _ h2 (anchorizeMemo_wf nt m x hw)
    refine ⟨i', a1, a2, ?_⟩
    obtain ⟨u, _, e1, _⟩ := anchorizeMemo_step nt m issued x h
    rw [a3, e1]
    simp only [List.length_cons]
    omega

/-- The probes for a sequence of headings, plus the potential at the start, are at most twice the number of
    anchors issued at the end. -/
theorem memoProbesFrom_le (nt : NormTable) (hs : List Bytes) (m : AnchorMap) (issued : List Bytes)
    (h : MemoInv m issued) (hw : m.WF) :
    m.valSum + memoProbesFrom nt m hs ≤ 2 * (issued.length + hs.length) := by
  obtain ⟨i', a1, a2, a3⟩ := memoStateFrom_inv nt hs m issued h hw
  rw [← memoProbes_potential, ← a3]
  exact valSum_le _ _ a1 a2

/-! ## The set-based loop is quadratic on equal headings -/

/-- If the first `k` candidates from `uniq` on are issued and the next one is not, the loop makes `k + 1`
    probes and returns that one. -/
theorem anchorLoop_probes (issued : List Bytes) (id : Bytes) (k : Nat) :
    ∀ fuel uniq, (∀ j, j < k → anchorCand id (uniq + j) ∈ issued) → anchorCand id (uniq + k) ∉ issued → k < fuel →
      anchorLoopProbes issued id fuel uniq = k + 1 ∧
      anchorLoop issued id fuel uniq = some (anchorCand id (uniq + k)) := by
  induction k with
  | zero =>
    intro fuel uniq _ hn hf
    cases fuel with
    | zero => omega
    | succ f =>
      have hn' : anchorCand id uniq ∉ issued := by simpa using hn
      rw [anchorLoop_eq_cand]
      simp [anchorLoopProbes, hn']
  | succ k ih =>
    intro fuel uniq hall hn hf
    cases fuel with
    | zero => omega
    | succ f =>
      have hc : issued.contains (anchorCand id uniq) = true := by simpa using hall 0 (by omega)
      have e : uniq + (k + 1) = uniq + 1 + k := by omega
      obtain ⟨i1, i2⟩ := ih f (uniq + 1)
        (by intro j hj; have := hall (j + 1) (by omega); rwa [show uniq + (j + 1) = uniq + 1 + j by omega] at this)
        (by rwa [e] at hn) (by omega)
      rw [anchorLoop_eq_cand]
      simp only [anchorLoopProbes, hc, if_true, i1, i2, e]
      exact ⟨by omega, trivial⟩

theorem tri_succ (n : Nat) : (n + 1) * (n + 2) / 2 = n * (n + 1) / 2 + (n + 1) := by
  have : (n + 1) * (n + 2) = n * (n + 1) + 2 * (n + 1) := by
    simp only [Nat.mul_add, Nat.add_mul, Nat.mul_one, Nat.one_mul]
    omega
  rw [this, Nat.add_mul_div_left _ _ (by omega : 0 < 2)]

/-- From a set that holds exactly the first `i` candidates of the heading's base, `n` more copies of the
    heading cost `(i+1) + (i+2) + ... + (i+n)` probes. -/
theorem oldProbesFrom_replicate (nt : NormTable) (h : Bytes) (n : Nat) :
    ∀ (i : Nat) (issued : List Bytes), (∀ j, anchorCand (nt.norm h) j ∈ issued ↔ j < i) → i ≤ issued.length →
      oldProbesFrom nt issued (List.replicate n h) = n * i + n * (n + 1) / 2 := by
  induction n with
  | zero => intro i issued _ _; simp [oldProbesFrom]
  | succ n ih =>
    intro i issued hS hl
    obtain ⟨p1, p2⟩ := anchorLoop_probes issued (nt.norm h) i (issued.length + 1) 0
      (by intro j hj; rw [Nat.zero_add]; exact (hS j).mpr hj)
      (by rw [Nat.zero_add]; intro hm; have := (hS i).mp hm; omega) (by omega)
    rw [Nat.zero_add] at p2
    have ha : anchorize nt issued h = (anchorCand (nt.norm h) i, anchorCand (nt.norm h) i :: issued) := by
      simp only [anchorize, p2]
    simp only [List.replicate_succ, oldProbesFrom, p1, ha]
    rw [ih (i + 1) (anchorCand (nt.norm h) i :: issued) ?_ (by simp only [List.length_cons]; omega), tri_succ]
    · simp only [Nat.mul_add, Nat.add_mul, Nat.mul_one, Nat.one_mul]
      omega
    · intro j
      simp only [List.mem_cons, hS]
      constructor
      · rintro (e | e)
        · have := anchorCand_injective _ e; omega
        · omega
      · intro hj
        by_cases e : j = i
        · left; rw [e]
        · right; omega

end Comrak
