/-
C03, tables: the model of comrak's HTML formatter on the `table / table_row / table_cell` subtree a
canonical table spells writes exactly the reference rendering.  The formatter writes the line
breaks between the elements lazily (`cr()` before the next tag); the reference renderer writes
one element per line.  `lazyCells` / `lazyRows` are the formatter's grouping, `lazy*_shift` moves the
newline across.
-/
import Comrak.Lemmas.CanonInl
namespace Comrak.Canon
open Comrak Bytes

theorem atBol_eq (l : Bool) (s : Bytes) : atBol l s = lastLfAfter l s := rfl

theorem crB_eq (lf : Bool) : (if lf then [] else [0x0A]) = crB lf := by
  cases lf <;> rfl

theorem R_crB (lf : Bool) : R W.cr lf (crB lf) := R_congr (R_cr lf) (crB_eq lf)

/-- After the `cr`, the writer is at the beginning of a line whenever something follows. -/
theorem lf_crB (lf : Bool) (x : Bytes) (h : lastLfAfter false x = true) : lastLfAfter lf (crB lf ++ x) = true :=
  lastLfAfter_append_nl lf (crB lf) x h

theorem lastLfAfter_append_nonl (l : Bool) (a b : Bytes) (h : lastLfAfter true b = false) :
    lastLfAfter l (a ++ b) = false := by
  rw [← lastLfAfter_append]
  unfold lastLfAfter at h ⊢
  cases hb : b.getLast? with
  | none => simp [hb] at h
  | some y => simpa [hb] using h

/-- `</tag>` -/
def clTag (tag : Bytes) : Bytes := [0x3C, 0x2F] ++ tag ++ [0x3E]
/-- `<tag` -/
def opTag (tag : Bytes) : Bytes := [0x3C] ++ tag

theorem lastLfAfter_snoc (l : Bool) (x : Bytes) (b : UInt8) : lastLfAfter l (x ++ [b]) = (b == 0x0A) := by
  simp [lastLfAfter]

theorem clTag_nonl (tag : Bytes) : lastLfAfter true (clTag tag) = false := by
  rw [clTag, lastLfAfter_snoc]; rfl

theorem opGt_nonl (tag : Bytes) : lastLfAfter true (opTag tag ++ [0x3E]) = false := by
  rw [lastLfAfter_snoc]; rfl

theorem spell_cl (t : Bytes) : spell [Tok.cl t] = clTag t := by simp [spell, Tok.spell, clTag]
theorem spell_cl_nl (t : Bytes) : spell [Tok.cl t, nl] = clTag t ++ [0x0A] := by simp [spell, Tok.spell, clTag, nl]

def cellTag (hd : Bool) : Bytes := if hd then S.t_th else S.t_td

/-- The cells as the formatter groups them: newline, then the element. -/
def lazyCells (tag : Bytes) (al : List Align) : Nat → List Inls → Bytes
  | _, [] => []
  | i, c :: r =>
    ([0x0A] ++ opTag tag ++ refAlign (al.getD i .none) ++ [0x3E] ++ c.html ++ clTag tag) ++ lazyCells tag al (i + 1) r

theorem lazyCells_lf (tag : Bytes) (al : List Align) : ∀ (cells : List Inls) (i : Nat) (x : Bytes),
    lastLfAfter true x = false → lastLfAfter true (x ++ lazyCells tag al i cells) = false
  | [], _, x, h => by simpa [lazyCells] using h
  | c :: r, i, x, _ => by
    simp only [lazyCells]
    rw [← List.append_assoc]
    refine lazyCells_lf tag al r (i + 1) _ ?_
    rw [← List.append_assoc]
    exact lastLfAfter_append_nonl _ _ _ (clTag_nonl tag)

theorem lazyCells_shift (tag : Bytes) (al : List Align) : ∀ (cells : List Inls) (i : Nat),
    lazyCells tag al i cells ++ [0x0A] = [0x0A] ++ refCells (opTag tag) (clTag tag ++ [0x0A]) al i cells
  | [], _ => rfl
  | c :: r, i => by
    simp only [lazyCells, refCells, List.append_assoc]
    rw [lazyCells_shift tag al r (i + 1)]
    simp [H.gt]

theorem spell_alignAttr (a : Align) : spellAttrs (alignAttr a) = refAlign a := by
  cases a <;>
    simp [alignAttr, spellAttrs, Attr.spell, litAttr, spellVal, APart.spell, refAlign, S.a_align, S.v_left, S.v_right,
      S.v_center, H.align_attr, H.left, H.right, H.center, H.q]

/-- One cell, from any writer state. -/
theorem cell_goal (al : List Align) (a b c : Nat) (hd : Bool) (cs : Inls) (hs : cs.safe = true)
    (cx : Ctx) (hp : cx.parent = some (.tableRow hd)) (hg : cx.grand = some (.table al a b c)) (lf : Bool) :
    R (renderT {} {} cx (.node .tableCell {} cs.toForest)) lf
      (crB lf ++ opTag (cellTag hd) ++ refAlign (al.getD cx.index .none) ++ [0x3E] ++ cs.html ++ clTag (cellTag hd)) := by
  have e1 : enter {} {} cx .tableCell {} cs.toForest =
      (W.cr ⨟ W.emit [.op (cellTag hd) (alignAttr (al.getD cx.index .none))]) := by
    simp [enter, hp, hg, spAttr, cellTag]
  have e2 : exit {} cx .tableCell cs.toForest = W.emit [.cl (cellTag hd)] := by
    simp [exit, hp, cellTag]
  have he : R (enter {} {} cx .tableCell {} cs.toForest) lf
      (crB lf ++ (opTag (cellTag hd) ++ refAlign (al.getD cx.index .none) ++ [0x3E])) := by
    rw [e1]
    exact R_congr (R_seq (R_crB lf) (R_emit _ _)) (by simp [spell, Tok.spell, spell_alignAttr, opTag])
  have hx : ∀ l, R (exit {} cx .tableCell cs.toForest) l (clTag (cellTag hd)) := by
    intro l; rw [e2]; exact R_congr (R_emit _ _) (by simp [spell, Tok.spell, clTag])
  exact R_congr (R_node rfl he (inls_goal cs hs _ _ _ _ _) (hx _)) (by simp)

/-- The cells of a row, starting right after `<tr>` or `</th>` (not at the beginning of a line). -/
theorem cells_goal (al : List Align) (a b c : Nat) (hd : Bool) (g : Option NodeValue) : ∀ (cells : List Inls),
    cells.all Inls.safe = true → ∀ (prev : Option NodeValue) (i : Nat),
    R (renderF {} {} (some (.tableRow hd)) (some (.table al a b c)) prev i (cellsForest cells)) false
      (lazyCells (cellTag hd) al i cells)
  | [], _, _, _ => by simp only [cellsForest, renderF_nil, lazyCells]; exact R_nop _
  | cl :: r, h, prev, i => by
    simp only [List.all_cons, Bool.and_eq_true] at h
    simp only [cellsForest, renderF_cons, lazyCells]
    have h1 := cell_goal al a b c hd cl h.1
      { parent := some (.tableRow hd), grand := some (.table al a b c), prev := prev,
        isLast := (cellsForest r).isNil, index := i } rfl rfl false
    refine R_seq (R_congr h1 (by simp [crB, H.nl])) ?_
    have hl : lastLfAfter false ([0x0A] ++ opTag (cellTag hd) ++ refAlign (al.getD i .none) ++ [0x3E] ++ cl.html ++
        clTag (cellTag hd)) = false := lastLfAfter_append_nonl _ _ _ (clTag_nonl _)
    rw [hl]
    exact cells_goal al a b c hd g r h.2 _ _

theorem R_assoc {a b c : W} : (a ⨟ b) ⨟ c = a ⨟ (b ⨟ c) := by
  funext st; simp [W.seq, List.append_assoc]

/-- `<tbody>\n` before the first body row. -/
def secBytes (hd first : Bool) : Bytes :=
  if hd then opTag S.t_thead ++ [0x3E, 0x0A] else if first then opTag S.t_tbody ++ [0x3E, 0x0A] else []

def rowTail (hd : Bool) : Bytes := [0x0A] ++ clTag S.t_tr ++ (if hd then [0x0A] ++ clTag S.t_thead else [])

/-- One row as the formatter groups it. -/
def lazyRow (al : List Align) (hd first : Bool) (cells : List Inls) : Bytes :=
  secBytes hd first ++ (opTag S.t_tr ++ [0x3E]) ++ lazyCells (cellTag hd) al 0 cells ++ rowTail hd

theorem rowTail_nonl (hd : Bool) (l : Bool) (x : Bytes) : lastLfAfter l (x ++ rowTail hd) = false := by
  cases hd
  · simp only [rowTail, Bool.false_eq_true, if_false, List.append_nil]
    rw [← List.append_assoc]; exact lastLfAfter_append_nonl _ _ _ (clTag_nonl _)
  · simp only [rowTail, if_true]
    rw [← List.append_assoc, ← List.append_assoc]; exact lastLfAfter_append_nonl _ _ _ (clTag_nonl _)

/-- One row (header or body), from any writer state; `first`: the previous sibling is the header row. -/
theorem row_goal (al : List Align) (a b c : Nat) (hd first : Bool) (cells : List Inls) (hs : cells.all Inls.safe = true)
    (cx : Ctx) (hp : cx.parent = some (.table al a b c))
    (hv : cx.prev = if first then some (.tableRow true) else if hd then none else some (.tableRow false)) (lf : Bool) :
    R (renderT {} {} cx (.node (.tableRow hd) {} (cellsForest cells))) lf (crB lf ++ lazyRow al hd first cells) := by
  have e1 : enter {} {} cx (.tableRow hd) {} (cellsForest cells) =
      ((W.cr ⨟ W.emit (rowSectionToks hd cx.prev)) ⨟ W.emit [.op S.t_tr []]) := by
    simp [enter, spAttr]
  have e2 : exit {} cx (.tableRow hd) (cellsForest cells) =
      ((W.cr ⨟ W.emit [.cl S.t_tr]) ⨟ (if hd then W.cr ⨟ W.emit [.cl S.t_thead] else W.nop)) := by
    simp [exit]
  have hsec : spell (rowSectionToks hd cx.prev) = secBytes hd first := by
    rw [hv]
    cases hd <;> cases first <;> simp [rowSectionToks, secBytes, spell, Tok.spell, spellAttrs, nl, opTag]
  have hsec' : List.flatMap Tok.spell (rowSectionToks hd cx.prev) = secBytes hd first := hsec
  have he : R (enter {} {} cx (.tableRow hd) {} (cellsForest cells)) lf
      (crB lf ++ secBytes hd first ++ (opTag S.t_tr ++ [0x3E])) := by
    rw [e1]
    exact R_congr (R_seq (R_seq (R_crB lf) (R_emit _ _)) (R_emit _ _)) (by simp [hsec', spell, Tok.spell, spellAttrs, opTag])
  have hl1 : lastLfAfter lf (crB lf ++ secBytes hd first ++ (opTag S.t_tr ++ [0x3E])) = false :=
    lastLfAfter_append_nonl _ _ _ (opGt_nonl _)
  have hc := cells_goal al a b c hd cx.parent cells hs none 0
  have hl2 : lastLfAfter lf (crB lf ++ secBytes hd first ++ (opTag S.t_tr ++ [0x3E]) ++ lazyCells (cellTag hd) al 0 cells) = false := by
    have h0 := lazyCells_lf (cellTag hd) al cells 0 (opTag S.t_tr ++ [0x3E]) (opGt_nonl _)
    rw [List.append_assoc]
    exact lastLfAfter_append_nonl _ _ _ h0
  have hx : R (exit {} cx (.tableRow hd) (cellsForest cells)) false (rowTail hd) := by
    rw [e2]
    cases hd
    · exact R_congr (R_seq (R_seq (R_crB false) (R_emit _ _)) (R_nop _)) (by simp [rowTail, crB, spell, Tok.spell, clTag, H.nl])
    · have h3 : lastLfAfter false (crB false ++ spell [Tok.cl S.t_tr]) = false := by
        rw [spell_cl]; exact lastLfAfter_append_nonl _ _ _ (clTag_nonl _)
      have := R_seq (R_seq (R_crB false) (R_emit [Tok.cl S.t_tr] _)) (R_seq (R_crB (lastLfAfter false (crB false ++ spell [Tok.cl S.t_tr]))) (R_emit [Tok.cl S.t_thead] _))
      rw [h3] at this
      exact R_congr this (by simp [rowTail, crB, spell, Tok.spell, clTag, H.nl])
  have := R_node (cx := cx) (sp := {}) rfl he (by rw [hl1, hp] at *; exact hc) (by rw [hl2]; exact hx)
  exact R_congr this (by simp [lazyRow, List.append_assoc])

/-- The body rows as the formatter groups them. -/
def lazyRows (al : List Align) : Bool → List (List Inls) → Bytes
  | _, [] => []
  | first, r :: rs => ([0x0A] ++ lazyRow al false first r) ++ lazyRows al false rs

theorem lazyRow_nonl (al : List Align) (hd first : Bool) (cells : List Inls) (l : Bool) (x : Bytes) :
    lastLfAfter l (x ++ lazyRow al hd first cells) = false := by
  unfold lazyRow
  rw [← List.append_assoc]
  exact rowTail_nonl hd l _

theorem rowsForest_length : ∀ rows : List (List Inls), (rowsForest rows).length = rows.length
  | [] => rfl
  | r :: rs => by simp [rowsForest, Forest.length, rowsForest_length rs]

theorem rows_goal (al : List Align) (a b c : Nat) (g : Option NodeValue) : ∀ (rows : List (List Inls)),
    rows.all (fun r => r.all Inls.safe) = true → ∀ (first : Bool) (idx : Nat),
    R (renderF {} {} (some (.table al a b c)) g (some (.tableRow first)) idx (rowsForest rows)) false
      (lazyRows al first rows)
  | [], _, _, _ => by simp only [rowsForest, renderF_nil, lazyRows]; exact R_nop _
  | r :: rs, h, first, idx => by
    simp only [List.all_cons, Bool.and_eq_true] at h
    simp only [rowsForest, renderF_cons, lazyRows]
    have h1 := row_goal al a b c false first r h.1
      { parent := some (.table al a b c), grand := g, prev := some (.tableRow first),
        isLast := (rowsForest rs).isNil, index := idx } rfl (by cases first <;> rfl) false
    refine R_seq (R_congr h1 (by simp [crB, H.nl])) ?_
    rw [lazyRow_nonl]
    exact rows_goal al a b c g rs h.2 false _

/-- Body rows, one element per line. -/
def natRows (al : List Align) : Bool → List (List Inls) → Bytes
  | _, [] => []
  | first, r :: rs =>
    (if first then H.tbody_open else []) ++ refRow H.td_open H.td_close al r ++ natRows al false rs

theorem natRows_false (al : List Align) : ∀ rows, natRows al false rows = refRows al rows
  | [] => rfl
  | r :: rs => by simp [natRows, refRows, natRows_false al rs]

theorem td_tags : H.td_open = opTag (cellTag false) ∧ H.td_close = clTag (cellTag false) ++ [0x0A] ∧
    H.th_open = opTag (cellTag true) ∧ H.th_close = clTag (cellTag true) ++ [0x0A] := by decide

theorem lazyRow_shift (al : List Align) (first : Bool) (cells : List Inls) :
    lazyRow al false first cells ++ [0x0A] =
      (if first then H.tbody_open else []) ++ refRow H.td_open H.td_close al cells := by
  have hs := lazyCells_shift (cellTag false) al cells 0
  simp only [lazyRow, rowTail, refRow, td_tags.1, td_tags.2.1, Bool.false_eq_true, if_false, List.append_nil]
  have : lazyCells (cellTag false) al 0 cells ++ ([0x0A] ++ clTag S.t_tr) ++ [0x0A] =
      [0x0A] ++ refCells (opTag (cellTag false)) (clTag (cellTag false) ++ [0x0A]) al 0 cells ++ (clTag S.t_tr ++ [0x0A]) := by
    rw [← hs]; simp
  cases first <;>
    simp only [secBytes, Bool.false_eq_true, if_false, if_true, List.nil_append, List.append_assoc] at this ⊢ <;>
    rw [this] <;> simp [opTag, clTag, H.tr_open, H.tr_close, H.tbody_open, S.t_tr, S.t_tbody]

theorem lazyRows_shift (al : List Align) : ∀ (rows : List (List Inls)) (first : Bool),
    lazyRows al first rows ++ [0x0A] = [0x0A] ++ natRows al first rows
  | [], _ => rfl
  | r :: rs, first => by
    simp only [lazyRows, natRows, List.append_assoc]
    rw [lazyRows_shift al rs false, ← List.append_assoc (lazyRow al false first r), lazyRow_shift]
    simp

theorem lazyRows_nonl (al : List Align) : ∀ (rows : List (List Inls)) (first : Bool) (x : Bytes),
    lastLfAfter true x = false → lastLfAfter true (x ++ lazyRows al first rows) = false
  | [], _, x, h => by simpa [lazyRows] using h
  | r :: rs, first, x, _ => by
    simp only [lazyRows]
    rw [← List.append_assoc]
    refine lazyRows_nonl al rs false _ ?_
    rw [← List.append_assoc]
    exact lazyRow_nonl _ _ _ _ _ _

/-- A whole table, from any writer state, under any parent. -/
theorem table_goal (al : List Align) (h : List Inls) (rows : List (List Inls))
    (hh : h.all Inls.safe = true) (hr : rows.all (fun r => r.all Inls.safe) = true) (cx : Ctx) (lf : Bool) :
    R (renderT {} {} cx (Blk.table al h rows).toTree) lf (crB lf ++ refTable al h rows) := by
  let T : NodeValue := .table al h.length rows.length (bodyCells rows)
  have he : R (enter {} {} cx T {} (.cons (.node (.tableRow true) {} (cellsForest h)) (rowsForest rows))) lf
      (crB lf ++ H.table_open) :=
    R_seq (R_crB lf) (R_emit [.op S.t_table [], nl] _)
  have hl1 : lastLfAfter lf (crB lf ++ H.table_open) = true := lf_crB lf _ rfl
  have hhd := row_goal al h.length rows.length (bodyCells rows) true false h hh
    { parent := some T, grand := cx.parent, prev := none, isLast := (rowsForest rows).isNil, index := 0 } rfl rfl true
  have hrows := rows_goal al h.length rows.length (bodyCells rows) cx.parent rows hr true 1
  have hc : R (renderF {} {} (some T) cx.parent none 0 (.cons (.node (.tableRow true) {} (cellsForest h)) (rowsForest rows))) true
      (lazyRow al true false h ++ lazyRows al true rows) := by
    rw [renderF_cons]
    refine R_seq (R_congr hhd (by simp [crB])) ?_
    have hn := lazyRow_nonl al true false h true []
    simp only [List.nil_append] at hn
    rw [hn]
    exact hrows
  have hl2 : lastLfAfter lf (crB lf ++ H.table_open ++ (lazyRow al true false h ++ lazyRows al true rows)) = false := by
    rw [← lastLfAfter_append, hl1, ← List.nil_append (lazyRow al true false h)]
    exact lazyRows_nonl al rows true _ (lazyRow_nonl al true false h true [])
  have hx : R (exit {} cx T (.cons (.node (.tableRow true) {} (cellsForest h)) (rowsForest rows))) false
      ([0x0A] ++ (if rows.isEmpty then [] else H.tbody_close) ++ H.table_close) := by
    have e : exit {} cx T (.cons (.node (.tableRow true) {} (cellsForest h)) (rowsForest rows)) =
        (((if rows.length + 1 ≠ 1 then W.cr ⨟ W.emit [.cl S.t_tbody, nl] else W.nop) ⨟ W.cr) ⨟ W.emit [.cl S.t_table, nl]) := by
      simp [T, exit, Forest.length, rowsForest_length]
    rw [e]
    cases rows with
    | nil =>
      exact R_congr (R_seq (R_seq (R_nop _) (R_crB false)) (R_emit _ _))
        (by simp [crB, spell, Tok.spell, nl, H.nl, H.table_close, S.t_table])
    | cons r rs =>
      have h3 : lastLfAfter false (crB false ++ spell [Tok.cl S.t_tbody, nl]) = true := by
        rw [spell_cl_nl]; exact lastLfAfter_append_nl _ _ _ (by rw [lastLfAfter_snoc]; rfl)
      have := R_seq (R_seq (R_seq (R_crB false) (R_emit [Tok.cl S.t_tbody, nl] _)) (R_crB (lastLfAfter false (crB false ++ spell [Tok.cl S.t_tbody, nl]))))
        (R_emit [Tok.cl S.t_table, nl] _)
      rw [h3] at this
      exact R_congr (R_weq this (by simp)) (by simp [crB, spell, Tok.spell, nl, H.nl, H.table_close, H.tbody_close, S.t_table, S.t_tbody])
  have := R_node (cx := cx) (sp := {}) rfl he (by rw [hl1]; exact hc) (by rw [hl2]; exact hx)
  refine R_congr (R_weq this rfl) ?_
  -- bytes: move the newlines across
  have s1 := lazyCells_shift (cellTag true) al h 0
  have s2 := lazyRows_shift al rows true
  simp only [List.append_assoc]
  congr 1
  cases rows with
  | nil =>
    simp only [lazyRows, List.isEmpty_nil, if_true, refTable, refRow, lazyRow, rowTail, secBytes, td_tags.2.2.1, td_tags.2.2.2,
      List.append_nil, List.nil_append, List.append_assoc]
    have : lazyCells (cellTag true) al 0 h ++ ([0x0A] ++ (clTag S.t_tr ++ ([0x0A] ++ (clTag S.t_thead ++ ([0x0A] ++ H.table_close))))) =
        (lazyCells (cellTag true) al 0 h ++ [0x0A]) ++ (clTag S.t_tr ++ ([0x0A] ++ (clTag S.t_thead ++ ([0x0A] ++ H.table_close)))) := by simp
    rw [this, s1]
    simp [opTag, clTag, H.table_open, H.thead_open, H.tr_open, H.tr_close, H.thead_close, S.t_tr, S.t_thead]
  | cons r rs =>
    have e2 : lazyRows al true (r :: rs) ++ ([0x0A] ++ (H.tbody_close ++ H.table_close)) =
        [0x0A] ++ natRows al true (r :: rs) ++ (H.tbody_close ++ H.table_close) := by
      rw [← s2]; simp
    simp only [List.isEmpty_cons, Bool.false_eq_true, if_false, refTable, refRow, lazyRow, rowTail, secBytes, td_tags.2.2.1, td_tags.2.2.2,
      if_true, List.append_assoc] at e2 ⊢
    rw [e2]
    have : lazyCells (cellTag true) al 0 h ++ ([0x0A] ++ (clTag S.t_tr ++ ([0x0A] ++ (clTag S.t_thead ++ ([0x0A] ++ (natRows al true (r :: rs) ++ (H.tbody_close ++ H.table_close))))))) =
        (lazyCells (cellTag true) al 0 h ++ [0x0A]) ++ (clTag S.t_tr ++ ([0x0A] ++ (clTag S.t_thead ++ ([0x0A] ++ (natRows al true (r :: rs) ++ (H.tbody_close ++ H.table_close)))))) := by simp
    rw [this, s1]
    simp [natRows, natRows_false, refRows, refRow, opTag, clTag, H.table_open, H.thead_open, H.tr_open, H.tr_close, H.thead_close, S.t_tr, S.t_thead]

end Comrak.Canon
