/-
C06 helper lemmas: termination and the amortised linear bound of the `process_emphasis` model `emLoop`.

Potential: for each of the 42 `openers_bottom` classes the number of delimiters at or above the class's
bottom, plus the number of delimiters, plus the characters they still have, plus the delimiters still to
be visited as closers. A failed search for class `i` walks over (at most) the delimiters of `left` that are
counted for `i` and then raises the bottom to the closer: they are never counted for `i` again. A successful
search walks over delimiters that `insert_emph` removes, and uses up at least one character on each side.
-/
import Comrak.Cost
namespace Comrak.Cost
open Comrak

/-! ### Counting -/

/-- Delimiters with `position >= b`. -/
def cntGe (b : Nat) : List Delim → Nat
  | [] => 0
  | d :: ds => (if b ≤ d.pos then 1 else 0) + cntGe b ds

theorem cntGe_append (b : Nat) (l r : List Delim) : cntGe b (l ++ r) = cntGe b l + cntGe b r := by
  induction l with
  | nil => simp [cntGe]
  | cons d l ih => simp only [List.cons_append, cntGe, ih]; omega

theorem cntGe_eq_length (b : Nat) (ds : List Delim) (h : ∀ d ∈ ds, b ≤ d.pos) : cntGe b ds = ds.length := by
  induction ds with
  | nil => simp [cntGe]
  | cons d ds ih =>
    have h1 := h d (by simp)
    have := ih (fun e he => h e (by simp [he]))
    simp only [cntGe, h1, if_true, List.length_cons]; omega

theorem cntGe_eq_zero (b : Nat) (ds : List Delim) (h : ∀ d ∈ ds, d.pos < b) : cntGe b ds = 0 := by
  induction ds with
  | nil => simp [cntGe]
  | cons d ds ih =>
    have h1 := h d (by simp)
    have := ih (fun e he => h e (by simp [he]))
    have h2 : ¬ b ≤ d.pos := by omega
    simp only [cntGe, h2, if_false]; omega

theorem sumCur_append (l r : List Delim) : sumCur (l ++ r) = sumCur l + sumCur r := by
  induction l with
  | nil => simp [sumCur]
  | cons d l ih => simp only [List.cons_append, sumCur, ih]; omega

/-- Sum over the first `K` classes of the delimiters at or above the class's bottom. -/
def potA (bot : Nat → Nat) (l r : List Delim) : Nat → Nat
  | 0 => 0
  | K + 1 => potA bot l r K + cntGe (bot K) l + cntGe (bot K) r

theorem potA_mono (bot : Nat → Nat) (l r l' r' : List Delim)
    (h : ∀ b, cntGe b l' + cntGe b r' ≤ cntGe b l + cntGe b r) : ∀ K, potA bot l' r' K ≤ potA bot l r K
  | 0 => by simp [potA]
  | K + 1 => by
    have := potA_mono bot l r l' r' h K
    have := h (bot K)
    simp only [potA]; omega

theorem potA_congr (bot bot' : Nat → Nat) (l r : List Delim) : ∀ K, (∀ k, k < K → bot k = bot' k) →
    potA bot l r K = potA bot' l r K
  | 0, _ => by simp [potA]
  | K + 1, h => by
    have := potA_congr bot bot' l r K (fun k hk => h k (by omega))
    simp only [potA, this, h K (by omega)]

theorem potA_update (bot : Nat → Nat) (l r : List Delim) (i v : Nat) : ∀ K, i < K →
    potA (fun k => if k = i then v else bot k) l r K + cntGe (bot i) l + cntGe (bot i) r
      = potA bot l r K + cntGe v l + cntGe v r
  | 0, h => by omega
  | K + 1, h => by
    by_cases hi : i = K
    · subst hi
      have hc := potA_congr (fun k => if k = i then v else bot k) bot l r i (fun k hk => by
        have : k ≠ i := by omega
        simp [this])
      simp only [potA, hc, if_true]; omega
    · have ih := potA_update bot l r i v K (by omega)
      have hne : K ≠ i := fun h => hi h.symm
      simp only [potA, hne, if_false]; omega

theorem potA_zero (ds : List Delim) : ∀ K, potA (fun _ => 0) [] ds K = K * ds.length
  | 0 => by simp [potA]
  | K + 1 => by
    have h := cntGe_eq_length 0 ds (fun _ _ => Nat.zero_le _)
    simp only [potA, potA_zero ds K, cntGe, h, Nat.add_mul]; omega

theorem bottomIx_lt (fix : Bool) (c : Delim) : bottomIx fix c < 42 := by
  unfold bottomIx bottomIxNew bottomIxOld
  have : c.len % 3 < 3 := Nat.mod_lt _ (by omega)
  repeat' split
  all_goals omega

/-! ### The opener search -/

theorem emSearch_cost_le (c : Delim) (b : Nat) : ∀ left : List Delim, (emSearch c b left).cost ≤ cntGe b left
  | [] => by simp [emSearch, cntGe]
  | o :: below => by
    have ih := emSearch_cost_le c b below
    simp only [emSearch, cntGe]
    split
    · simp
    · rename_i hlt
      have hle : b ≤ o.pos := by omega
      simp only [hle, if_true]
      split
      · split
        · simp only; omega
        · simp only; omega
      · simp only; omega

theorem emSearch_hit (c : Delim) (b : Nat) : ∀ (left : List Delim) (o : Delim) (below : List Delim),
    (emSearch c b left).hit = some (o, below) →
    ∃ sk, left = sk ++ o :: below ∧ (emSearch c b left).cost = sk.length + 1
  | [], o, below, h => by simp [emSearch] at h
  | x :: rest, o, below, h => by
    by_cases h3 : x.pos < b
    · simp [emSearch, h3] at h
    · by_cases h4 : (x.canOpen && x.ch == c.ch) = true
      · by_cases h5 : oddMatch x c = true
        · simp only [emSearch, h3, h4, h5, if_true, if_false] at h ⊢
          obtain ⟨sk, h1, h2⟩ := emSearch_hit c b rest o below h
          exact ⟨x :: sk, by simp [h1], by simp [h2]⟩
        · simp only [emSearch, h3, h4, h5, if_true, if_false, Bool.false_eq_true] at h ⊢
          simp only [Option.some.injEq, Prod.mk.injEq] at h
          obtain ⟨rfl, rfl⟩ := h
          exact ⟨[], by simp, by simp⟩
      · simp only [emSearch, h3, h4, if_false, Bool.false_eq_true] at h ⊢
        obtain ⟨sk, h1, h2⟩ := emSearch_hit c b rest o below h
        exact ⟨x :: sk, by simp [h1], by simp [h2]⟩

theorem emSearch_nomod3 (c : Delim) (b : Nat) : ∀ left : List Delim,
    (∀ o ∈ left, o.canOpen = true → o.ch = c.ch → oddMatch o c = false) → (emSearch c b left).mod3 = false
  | [], _ => by simp [emSearch]
  | o :: below, h => by
    have ih := emSearch_nomod3 c b below (fun x hx => h x (by simp [hx]))
    simp only [emSearch]
    split
    · rfl
    · split
      · rename_i hoc
        simp only [Bool.and_eq_true, beq_iff_eq] at hoc
        have := h o (by simp) hoc.1 hoc.2
        simp [this]
      · simpa using ih

/-! ### `shrink` -/

theorem shrink_cnt (b : Nat) (d : Delim) (u : Nat) (rest : List Delim) :
    cntGe b (shrink d u rest) ≤ cntGe b (d :: rest) := by
  unfold shrink; split
  · simp only [cntGe]; omega
  · simp only [cntGe]; omega

theorem shrink_length (d : Delim) (u : Nat) (rest : List Delim) : (shrink d u rest).length ≤ rest.length + 1 := by
  unfold shrink; split <;> simp

/-- Each side of a match gives up a character or a delimiter. -/
theorem shrink_pay (d : Delim) (u : Nat) (rest : List Delim) (hu : 1 ≤ u) :
    (shrink d u rest).length + sumCur (shrink d u rest) + 1 ≤ rest.length + 1 + d.cur + sumCur rest := by
  unfold shrink; split
  · omega
  · simp only [List.length_cons, sumCur]; omega

theorem shrink_pos (d : Delim) (u : Nat) (rest : List Delim) (e : Delim) (he : e ∈ shrink d u rest) :
    ∃ e0, e0 ∈ d :: rest ∧ e.pos = e0.pos := by
  unfold shrink at he; split at he
  · exact ⟨e, by simp [he], rfl⟩
  · simp only [List.mem_cons] at he
    rcases he with rfl | he
    · exact ⟨d, by simp, rfl⟩
    · exact ⟨e, by simp [he], rfl⟩

theorem shrink_P (P : Delim → Prop) (hP : ∀ d n, P d → P { d with cur := n }) (d : Delim) (u : Nat)
    (rest : List Delim) (h : ∀ x ∈ d :: rest, P x) : ∀ e ∈ shrink d u rest, P e := by
  intro e he
  unfold shrink at he; split at he
  · exact h e (by simp [he])
  · simp only [List.mem_cons] at he
    rcases he with rfl | he
    · exact hP d _ (h d (by simp))
    · exact h e (by simp [he])

theorem shrink_sorted (d : Delim) (u : Nat) (rest : List Delim)
    (h : (d :: rest).Pairwise (fun a b => a.pos < b.pos)) : (shrink d u rest).Pairwise (fun a b => a.pos < b.pos) := by
  rw [List.pairwise_cons] at h
  unfold shrink; split
  · exact h.2
  · rw [List.pairwise_cons]; exact ⟨fun e he => h.1 e he, h.2⟩

theorem useChars_pos (o c : Delim) : 1 ≤ useChars o c := by
  unfold useChars; split <;> omega

/-! ### Termination -/

theorem emLoop_terminates (fix : Bool) : ∀ (fuel : Nat) (bot : Nat → Nat) (left right : List Delim),
    sumCur right + right.length ≤ fuel → ∃ k, emLoop fix fuel bot left right = some k := by
  intro fuel
  induction fuel with
  | zero =>
    intro bot left right h
    cases right with
    | nil => exact ⟨0, by simp [emLoop]⟩
    | cons c above => simp at h
  | succ fuel ih =>
    intro bot left right h
    cases right with
    | nil => exact ⟨0, by simp [emLoop]⟩
    | cons c above =>
      simp only [sumCur, List.length_cons] at h
      simp only [emLoop]
      split
      · split
        · rename_i o below _
          split
          · exact ⟨_, rfl⟩
          · have hp := shrink_pay c (useChars o c) above (useChars_pos o c)
            obtain ⟨k, hk⟩ := ih bot (shrink o (useChars o c) below) (shrink c (useChars o c) above) (by omega)
            exact ⟨_, by rw [hk]; rfl⟩
        · obtain ⟨k, hk⟩ := ih
            (if (alwaysRaise fix c || !(emSearch c (bot (bottomIx fix c)) left).mod3) = true then fun k => if k = bottomIx fix c then c.pos else bot k else bot)
            (if c.canOpen = true then c :: left else left) above (by omega)
          exact ⟨_, by rw [hk]; rfl⟩
      · obtain ⟨k, hk⟩ := ih bot (c :: left) above (by omega)
        exact ⟨_, by rw [hk]; rfl⟩

/-! ### The amortised bound -/

structure EmInv (P : Delim → Prop) (bot : Nat → Nat) (left right : List Delim) : Prop where
  lt : ∀ d ∈ left, ∀ e ∈ right, d.pos < e.pos
  sorted : right.Pairwise (fun a b => a.pos < b.pos)
  botle : ∀ i, ∀ e ∈ right, bot i ≤ e.pos
  pl : ∀ d ∈ left, P d
  pr : ∀ d ∈ right, P d

def emPot (bot : Nat → Nat) (left right : List Delim) : Nat :=
  potA bot left right 42 + (left.length + right.length) + (sumCur left + sumCur right) + right.length

/-- The closer moves up after a failed search for class `i` whose bottom is raised to the closer: the
    delimiters of `left` counted for `i` leave the potential. -/
theorem potA_failed (bot : Nat → Nat) (left above : List Delim) (c : Delim) (i : Nat) (hi : i < 42)
    (hlt : ∀ d ∈ left, d.pos < c.pos) (hab : ∀ e ∈ above, c.pos < e.pos) (hbc : bot i ≤ c.pos)
    (left' : List Delim) (hl : left' = c :: left ∨ left' = left) :
    potA (fun k => if k = i then c.pos else bot k) left' above 42 + cntGe (bot i) left
      ≤ potA bot left (c :: above) 42 := by
  have hu := potA_update bot left' above i c.pos 42 hi
  have h1 : cntGe c.pos above = above.length := cntGe_eq_length _ _ (fun e he => Nat.le_of_lt (hab e he))
  have h2 : cntGe (bot i) above = above.length :=
    cntGe_eq_length _ _ (fun e he => Nat.le_trans hbc (Nat.le_of_lt (hab e he)))
  have h3 : cntGe c.pos left = 0 := cntGe_eq_zero _ _ hlt
  have hm : potA bot left' above 42 ≤ potA bot left (c :: above) 42 := by
    apply potA_mono
    intro b
    rcases hl with rfl | rfl <;> simp only [cntGe] <;> omega
  rcases hl with rfl | rfl
  · simp only [cntGe, hbc, if_true, Nat.le_refl] at hu; omega
  · omega

theorem emLoop_bound (P : Delim → Prop) (hP : ∀ d n, P d → P { d with cur := n }) (fix : Bool)
    (hfix : ∀ c, P c → c.canClose = true → alwaysRaise fix c = true ∨
      ∀ o, P o → o.canOpen = true → o.ch = c.ch → oddMatch o c = false) :
    ∀ (fuel : Nat) (bot : Nat → Nat) (left right : List Delim), EmInv P bot left right →
    sumCur right + right.length ≤ fuel →
    ∃ k, emLoop fix fuel bot left right = some k ∧ k ≤ emPot bot left right := by
  intro fuel
  induction fuel with
  | zero =>
    intro bot left right _ h
    cases right with
    | nil => exact ⟨0, by simp [emLoop], Nat.zero_le _⟩
    | cons c above => simp at h
  | succ fuel ih =>
    intro bot left right hI h
    cases right with
    | nil => exact ⟨0, by simp [emLoop], Nat.zero_le _⟩
    | cons c above =>
      simp only [sumCur, List.length_cons] at h
      have hsort := hI.sorted
      rw [List.pairwise_cons] at hsort
      have hab : ∀ e ∈ above, c.pos < e.pos := hsort.1
      have hlt : ∀ d ∈ left, d.pos < c.pos := fun d hd => hI.lt d hd c (by simp)
      -- the invariant after the closer has moved up (kept or dropped), with any bottoms below the rest
      have hmove : ∀ (bot' : Nat → Nat) (left' : List Delim), (left' = c :: left ∨ left' = left) →
          (∀ i, ∀ e ∈ above, bot' i ≤ e.pos) → EmInv P bot' left' above := by
        intro bot' left' hl hb
        refine ⟨?_, hsort.2, hb, ?_, fun d hd => hI.pr d (by simp [hd])⟩
        · intro d hd e he
          rcases hl with rfl | rfl
          · simp only [List.mem_cons] at hd
            rcases hd with rfl | hd
            · exact hab e he
            · exact hI.lt d hd e (by simp [he])
          · exact hI.lt d hd e (by simp [he])
        · intro d hd
          rcases hl with rfl | rfl
          · simp only [List.mem_cons] at hd
            rcases hd with rfl | hd
            · exact hI.pr d (by simp)
            · exact hI.pl d hd
          · exact hI.pl d hd
      simp only [emLoop]
      split
      · rename_i hclose
        split
        · -- opener found
          rename_i o below hhit
          obtain ⟨sk, hleft, hcost⟩ := emSearch_hit c _ left o below hhit
          split
          · -- the `~` exit of insert_emph: the loop ends here
            refine ⟨_, rfl, ?_⟩
            rw [hcost]
            simp only [emPot]
            rw [hleft, List.length_append]
            simp only [List.length_cons]
            omega
          have hu := useChars_pos o c
          have hpc := shrink_pay c (useChars o c) above hu
          have hpo := shrink_pay o (useChars o c) below hu
          have hlc := shrink_length c (useChars o c) above
          have hI' : EmInv P bot (shrink o (useChars o c) below) (shrink c (useChars o c) above) := by
            refine ⟨?_, shrink_sorted c _ above hI.sorted, ?_, ?_, ?_⟩
            · intro d hd e he
              obtain ⟨d0, hd0, hdp⟩ := shrink_pos o _ below d hd
              obtain ⟨e0, he0, hep⟩ := shrink_pos c _ above e he
              rw [hdp, hep]
              exact hI.lt d0 (by rw [hleft]; exact List.mem_append_right _ hd0) e0 he0
            · intro i e he
              obtain ⟨e0, he0, hep⟩ := shrink_pos c _ above e he
              rw [hep]; exact hI.botle i e0 he0
            · exact shrink_P P hP o _ below (fun x hx => hI.pl x (by rw [hleft]; exact List.mem_append_right _ hx))
            · exact shrink_P P hP c _ above hI.pr
          obtain ⟨k, hk, hkb⟩ := ih bot _ _ hI' (by omega)
          refine ⟨1 + (emSearch c (bot (bottomIx fix c)) left).cost + k, by rw [hk]; rfl, ?_⟩
          have hm : potA bot (shrink o (useChars o c) below) (shrink c (useChars o c) above) 42
              ≤ potA bot left (c :: above) 42 := by
            apply potA_mono
            intro b
            have h1 := shrink_cnt b o (useChars o c) below
            have h2 := shrink_cnt b c (useChars o c) above
            rw [hleft, cntGe_append]
            omega
          rw [hcost]
          simp only [emPot] at hkb ⊢
          rw [hleft, sumCur_append, List.length_append]
          simp only [List.length_cons, sumCur]
          rw [hleft] at hm
          omega
        · -- no opener
          rename_i hhit
          have hbot : (if (alwaysRaise fix c || !(emSearch c (bot (bottomIx fix c)) left).mod3) = true
              then fun k => if k = bottomIx fix c then c.pos else bot k else bot)
              = fun k => if k = bottomIx fix c then c.pos else bot k := by
            rcases hfix c (hI.pr c (by simp)) hclose with har | hno
            · simp [har]
            · have := emSearch_nomod3 c (bot (bottomIx fix c)) left
                (fun o ho h1 h2 => hno o (hI.pl o ho) h1 h2)
              simp [this]
          rw [hbot]
          have hl : (if c.canOpen = true then c :: left else left) = c :: left
              ∨ (if c.canOpen = true then c :: left else left) = left := by
            split
            · exact Or.inl rfl
            · exact Or.inr rfl
          have hbc : bot (bottomIx fix c) ≤ c.pos := hI.botle _ c (by simp)
          have hI' := hmove (fun k => if k = bottomIx fix c then c.pos else bot k) _ hl (by
            intro i e he
            by_cases hi : i = bottomIx fix c
            · simp only [hi, if_true]; exact Nat.le_of_lt (hab e he)
            · simp only [hi, if_false]; exact hI.botle i e (by simp [he]))
          obtain ⟨k, hk, hkb⟩ := ih _ _ above hI' (by omega)
          refine ⟨1 + (emSearch c (bot (bottomIx fix c)) left).cost + k, by rw [hk]; rfl, ?_⟩
          have hpf := potA_failed bot left above c (bottomIx fix c) (bottomIx_lt fix c) hlt hab hbc _ hl
          have hcl := emSearch_cost_le c (bot (bottomIx fix c)) left
          simp only [emPot] at hkb ⊢
          simp only [List.length_cons, sumCur]
          rcases hl with hl | hl <;> rw [hl] at hkb hpf <;> (try simp only [List.length_cons, sumCur] at hkb) <;> omega
      · -- not a closer
        have hI' := hmove bot (c :: left) (Or.inl rfl) (fun i e he => hI.botle i e (by simp [he]))
        obtain ⟨k, hk, hkb⟩ := ih bot (c :: left) above hI' (by omega)
        refine ⟨1 + k, by rw [hk]; rfl, ?_⟩
        have hm : potA bot (c :: left) above 42 ≤ potA bot left (c :: above) 42 := by
          apply potA_mono; intro b; simp only [cntGe]; omega
        simp only [emPot] at hkb ⊢
        simp only [List.length_cons, sumCur] at hkb ⊢
        omega

end Comrak.Cost
