/-
Bridge from the token-level HTML model to bytes, part 3: the C02 byte oracle `safeBytes` accepts
the spelling of every token list that is `allowedTok` and `destOk` (no dangerous destination in
`href`/`src` after entity decoding), and every token the renderer writes in safe mode is `destOk`.
-/
import Comrak.Lemmas.HtmlLex
import Comrak.Lemmas.UrlSafe
namespace Comrak
open Bytes

/-! ### Destination attributes -/

def isDest (n : Bytes) : Bool := n == S.a_href || n == S.a_src

/-- The entity-decoded spelled value of an `href`/`src` attribute is not a dangerous URL. -/
def attrDestOk (a : Attr) : Bool :=
  !isDest a.name ||
  match a.val with
  | none => true
  | some ps => !dangerousUrl (entDecode (spellVal ps))

def destOk : Tok → Bool
  | .op _ as => as.all attrDestOk
  | .vd _ as => as.all attrDestOk
  | _ => true

@[simp] theorem isDest_a_data_sourcepos : isDest S.a_data_sourcepos = false := by decide
@[simp] theorem isDest_a_href : isDest S.a_href = true := by decide
@[simp] theorem isDest_a_src : isDest S.a_src = true := by decide
@[simp] theorem isDest_a_alt : isDest S.a_alt = false := by decide
@[simp] theorem isDest_a_title : isDest S.a_title = false := by decide
@[simp] theorem isDest_a_class : isDest S.a_class = false := by decide
@[simp] theorem isDest_a_start : isDest S.a_start = false := by decide
@[simp] theorem isDest_a_id : isDest S.a_id = false := by decide
@[simp] theorem isDest_a_data_footnotes : isDest S.a_data_footnotes = false := by decide
@[simp] theorem isDest_a_data_footnote_ref : isDest S.a_data_footnote_ref = false := by decide
@[simp] theorem isDest_a_data_footnote_backref : isDest S.a_data_footnote_backref = false := by decide
@[simp] theorem isDest_a_data_footnote_backref_idx : isDest S.a_data_footnote_backref_idx = false := by decide
@[simp] theorem isDest_a_aria_label : isDest S.a_aria_label = false := by decide
@[simp] theorem isDest_a_aria_hidden : isDest S.a_aria_hidden = false := by decide
@[simp] theorem isDest_a_align : isDest S.a_align = false := by decide
@[simp] theorem isDest_a_type : isDest S.a_type = false := by decide
@[simp] theorem isDest_a_checked : isDest S.a_checked = false := by decide
@[simp] theorem isDest_a_disabled : isDest S.a_disabled = false := by decide
@[simp] theorem isDest_a_lang : isDest S.a_lang = false := by decide
@[simp] theorem isDest_a_data_meta : isDest S.a_data_meta = false := by decide
@[simp] theorem isDest_a_data_math_style : isDest S.a_data_math_style = false := by decide
@[simp] theorem isDest_a_data_wikilink : isDest S.a_data_wikilink = false := by decide
@[simp] theorem isDest_a_data_escaped_char : isDest S.a_data_escaped_char = false := by decide

theorem attrDestOk_other (n : Bytes) (v : Option (List APart)) (h : isDest n = false) : attrDestOk ⟨n, v⟩ = true := by
  simp [attrDestOk, h]

theorem attrDestOk_dest (n : Bytes) (ps : List APart) (h : dangerousUrl (entDecode (spellVal ps)) = false) :
    attrDestOk ⟨n, some ps⟩ = true := by
  simp [attrDestOk, h]

/-! ### The vocabulary / escaping / destination check on the lexed image -/

theorem checkAttrs_ok (l : List Attr) (ha : l.all attrOk = true) (hd : l.all attrDestOk = true) :
    checkAttrs (l.map lattr) = .ok () := by
  induction l with
  | nil => rfl
  | cons a r ih =>
    simp only [List.all_cons, Bool.and_eq_true] at ha hd
    obtain ⟨name, val⟩ := a
    have ha1 := ha.1
    simp only [attrOk, Bool.and_eq_true] at ha1
    cases val with
    | none =>
      simp only [List.map_cons, lattr, Option.map_none, checkAttrs, ha1.1, Bool.not_true, Bool.false_eq_true, if_false]
      exact ih ha.2 hd.2
    | some ps =>
      have hv := valueSafe_spellVal ps ha1.2
      have hd1 := hd.1
      simp only [attrDestOk, isDest, Bool.or_eq_true, Bool.not_eq_true'] at hd1
      have hdest : ((name == S.a_href || name == S.a_src) && dangerousUrl (entDecode (spellVal ps))) = false := by
        rcases hd1 with h | h <;> simp [h]
      simp only [List.map_cons, lattr, Option.map_some, checkAttrs, ha1.1, hv, hdest, Bool.not_true,
        Bool.false_eq_true, if_false]
      exact ih ha.2 hd.2

theorem checkLToks_textL (pre : Bytes) (r : List LTok) (h : valueSafe pre = true) :
    checkLToks (textL pre ++ r) = checkLToks r := by
  unfold textL
  split
  · rfl
  · simp [checkLToks, h]

theorem checkLToks_toL (ts : List Tok) (pre : Bytes) (hp : valueSafe pre = true)
    (ha : ts.all allowedTok = true) (hd : ts.all destOk = true) : checkLToks (toLAux pre ts) = .ok () := by
  induction ts generalizing pre with
  | nil =>
    have := checkLToks_textL pre [] hp
    simp only [List.append_nil] at this
    simp [toLAux, this, checkLToks]
  | cons t r ih =>
    simp only [List.all_cons, Bool.and_eq_true] at ha hd
    cases t with
    | txt v => exact ih _ (valueSafe_append _ _ hp (valueSafe_escape v)) ha.2 hd.2
    | lit v => exact ih _ (valueSafe_append _ _ hp (valueSafe_of_litSafe v (by simpa [allowedTok] using ha.1))) ha.2 hd.2
    | raw v => exact ih _ (valueSafe_append _ _ hp (valueSafe_of_litSafe v (by simpa [allowedTok] using ha.1))) ha.2 hd.2
    | cmt =>
      simp only [toLAux, checkLToks_textL _ _ hp, checkLToks, beq_self_eq_true, if_true]
      exact ih _ rfl ha.2 hd.2
    | cl n =>
      have h1 : tagVocab.contains n = true := by simpa [allowedTok] using ha.1
      simp only [toLAux, checkLToks_textL _ _ hp, checkLToks, h1, Bool.not_true, Bool.false_eq_true, if_false]
      exact ih _ rfl ha.2 hd.2
    | op n l =>
      have h1 := ha.1
      simp only [allowedTok, Bool.and_eq_true] at h1
      have h2 : l.all attrDestOk = true := by simpa [destOk] using hd.1
      simp only [toLAux, checkLToks_textL _ _ hp, checkLToks, h1.1, Bool.not_true, Bool.false_eq_true, if_false,
        checkAttrs_ok l h1.2 h2]
      exact ih _ rfl ha.2 hd.2
    | vd n l =>
      have h1 := ha.1
      simp only [allowedTok, Bool.and_eq_true] at h1
      have h2 : l.all attrDestOk = true := by simpa [destOk] using hd.1
      simp only [toLAux, checkLToks_textL _ _ hp, checkLToks, h1.1, Bool.not_true, Bool.false_eq_true, if_false,
        checkAttrs_ok l h1.2 h2]
      exact ih _ rfl ha.2 hd.2

/-- **The byte oracle of C02 accepts the spelling of allowed, destination-safe tokens.** -/
theorem safeBytes_spell (ts : List Tok) (ha : ts.all allowedTok = true) (hd : ts.all destOk = true) :
    safeBytes (spell ts) = .ok () := by
  unfold safeBytes
  rw [lex_spell ts ha]
  exact checkLToks_toL ts [] rfl ha hd

/-! ### Entity decoding after `escape_href` and the dangerous-scheme test -/

theorem entDecodeAux_cons_ne (b : UInt8) (r : Bytes) (h : b ≠ 0x26) :
    entDecodeAux 0 (b :: r) = b :: entDecodeAux 0 r := by
  have h' : ((0x26 : UInt8) == b) = false := by simpa using Ne.symm h
  simp [entDecodeAux, isPrefixB, entAmp, entApos', entQuot, entLt, entGt, h']

theorem entDecode_hrefByte_head (b : UInt8) (rest : Bytes) :
    (hrefSafe b = true → entDecode (hrefByte b ++ rest) = b :: entDecode rest) ∧
    (hrefSafe b = false → ∃ h t, entDecode (hrefByte b ++ rest) = h :: t ∧ (h = 0x26 ∨ h = 0x27 ∨ h = 0x25)) := by
  refine ⟨fun h => ?_, fun h => ?_⟩
  · simp only [hrefByte, h, if_true, List.singleton_append, entDecode]
    exact entDecodeAux_cons_ne b _ (hrefSafe_ne_amp b h)
  · unfold hrefByte
    simp only [h, Bool.false_eq_true, if_false]
    split
    · exact ⟨0x26, _, by simp [entDecode, entDecodeAux, entAmp, isPrefixB]; rfl, Or.inl rfl⟩
    · split
      · exact ⟨0x27, _, by simp [entDecode, entDecodeAux, entAmp, entApos, entApos', isPrefixB]; rfl, Or.inr (Or.inl rfl)⟩
      · exact ⟨0x25, _, by simp only [pctByte, List.cons_append, entDecode]; exact entDecodeAux_cons_ne _ _ (by decide),
          Or.inr (Or.inr rfl)⟩

theorem plain_ne_apos : ∀ a : UInt8, ((0x61 ≤ a && a ≤ 0x7A) || a == 0x3A || a == 0x2F) = true → a ≠ 0x27 :=
  forall_uint8_of_fin (by decide +kernel)

theorem isPrefixCI_entDecode_escapeHref (p : Bytes) (hp : plainPat p = true) (u : Bytes) :
    isPrefixCI p (entDecode (escapeHref u)) = isPrefixCI p u := by
  induction p generalizing u with
  | nil => simp [isPrefixCI]
  | cons a p ih =>
    simp only [plainPat, List.all_cons, Bool.and_eq_true] at hp
    obtain ⟨ha1, ha2, ha3⟩ := plain_facts a hp.1
    have ha4 := plain_ne_apos a hp.1
    cases u with
    | nil => simp [escapeHref, isPrefixCI, entDecode, entDecodeAux]
    | cons b r =>
      rw [escapeHref_cons]
      by_cases hs : hrefSafe b = true
      · rw [(entDecode_hrefByte_head b _).1 hs]
        simp only [isPrefixCI, ih (by simpa [plainPat] using hp.2)]
      · have hs' : hrefSafe b = false := by simpa using hs
        obtain ⟨h, t, e, hh⟩ := (entDecode_hrefByte_head b (escapeHref r)).2 hs'
        rw [e]
        simp only [isPrefixCI]
        have hne : (a == toLowerAscii h) = false := by
          rcases hh with rfl | rfl | rfl
          · have : toLowerAscii 0x26 = 0x26 := by decide
            rw [this]; simpa using ha1
          · have : toLowerAscii 0x27 = 0x27 := by decide
            rw [this]; simpa using ha4
          · have : toLowerAscii 0x25 = 0x25 := by decide
            rw [this]; simpa using ha2
        have hne2 : (a == toLowerAscii b) = false := by
          apply Bool.eq_false_iff.mpr
          intro heq
          have := ha3 b (by simpa using heq)
          rw [this] at hs'; exact absurd hs' (by simp)
        simp [hne, hne2]

/-- **A browser that entity-decodes the written `href` sees a dangerous scheme exactly when the
    document's URL had one.** -/
theorem dangerousUrl_entDecode_escapeHref (u : Bytes) : dangerousUrl (entDecode (escapeHref u)) = dangerousUrl u := by
  unfold dangerousUrl
  rw [isPrefixCI_entDecode_escapeHref _ (by decide), isPrefixCI_entDecode_escapeHref _ (by decide),
    isPrefixCI_entDecode_escapeHref _ (by decide), isPrefixCI_entDecode_escapeHref _ (by decide),
    isPrefixCI_entDecode_escapeHref _ (by decide), isPrefixCI_entDecode_escapeHref _ (by decide),
    isPrefixCI_entDecode_escapeHref _ (by decide), isPrefixCI_entDecode_escapeHref _ (by decide)]

/-- A value that starts with `#` (fragment link) is never a dangerous URL. -/
theorem dangerousUrl_entDecode_hash (x : Bytes) : dangerousUrl (entDecode (0x23 :: x)) = false := by
  have : entDecode (0x23 :: x) = 0x23 :: entDecode x := entDecodeAux_cons_ne _ _ (by decide)
  have hl : toLowerAscii 0x23 = 0x23 := by decide
  rw [this]
  simp [dangerousUrl, isPrefixCI, S.v_javascript_colon, S.v_vbscript_colon, S.v_file_colon, S.v_data_colon, hl]

theorem dest_urlVal (o : HtmlOpts) (hu : o.unsafe_ = false) (url : Bytes) :
    dangerousUrl (entDecode (spellVal (urlVal o url))) = false := by
  unfold urlVal
  by_cases hd : dangerousUrl url = true
  · simp [hu, hd, spellVal]; decide
  · have hd' : dangerousUrl url = false := by simpa using hd
    simp [hu, hd', spellVal, APart.spell, dangerousUrl_entDecode_escapeHref]

/-! ### Every token written in safe mode is `destOk` -/

theorem dest_hfnref (rest : List APart) : dangerousUrl (entDecode (spellVal (.lit S.v_hfnref :: rest))) = false := by
  simp only [spellVal, List.flatMap_cons, APart.spell, S.v_hfnref, List.cons_append]
  exact dangerousUrl_entDecode_hash _

theorem dest_hfn (rest : List APart) : dangerousUrl (entDecode (spellVal (.lit S.v_hfn :: rest))) = false := by
  simp only [spellVal, List.flatMap_cons, APart.spell, S.v_hfn, List.cons_append]
  exact dangerousUrl_entDecode_hash _

theorem dest_hash (x : Bytes) (rest : List APart) :
    dangerousUrl (entDecode (spellVal (.lit (S.v_hash ++ x) :: rest))) = false := by
  simp only [spellVal, List.flatMap_cons, APart.spell, S.v_hash, List.cons_append, List.nil_append]
  exact dangerousUrl_entDecode_hash _

@[simp] theorem dest_cr (st : St) : (W.cr st).1.all destOk = true := by
  unfold W.cr; split <;> simp [destOk]

@[simp] theorem spAttr_dest (o : HtmlOpts) (sp : Sp) : (spAttr o sp).all attrDestOk = true := by
  unfold spAttr; split <;> simp [attrDestOk]

theorem dest_alignAttr (al : Align) : (alignAttr al).all attrDestOk = true := by
  cases al <;> simp [alignAttr, litAttr, attrDestOk]

theorem dest_backrefToks (name : Bytes) (ix k n : Nat) : (backrefToks name ix k n).all destOk = true := by
  induction k generalizing n with
  | zero => rfl
  | succ k ih =>
    simp only [backrefToks, List.all_append, ih, Bool.and_true]
    by_cases h : n > 1 <;> simp [h, destOk, attrDestOk, litAttr, dest_hfnref]

theorem dest_putBackref (name : Bytes) (total : Nat) (st : St) :
    (putBackref name total st).1.1.all destOk = true := by
  unfold putBackref; split <;> simp [dest_backrefToks]

theorem dest_htmlBlockToks (o : HtmlOpts) (l : Bytes) : (htmlBlockToks o l).all destOk = true := by
  unfold htmlBlockToks; (repeat' split) <;> simp [destOk]

theorem dest_htmlInlineToks (o : HtmlOpts) (l : Bytes) : (htmlInlineToks o l).all destOk = true := by
  unfold htmlInlineToks; (repeat' split) <;> simp [destOk]

theorem dest_rowSectionToks (h : Bool) (prev : Option NodeValue) : (rowSectionToks h prev).all destOk = true := by
  unfold rowSectionToks; (repeat' split) <;> simp [destOk, nl]

theorem dest_mathCodeBlockToks (o : HtmlOpts) (sp : Sp) (l : Bytes) :
    (mathCodeBlockToks o sp l).all destOk = true := by
  unfold mathCodeBlockToks
  by_cases h1 : o.githubPreLang = true <;> by_cases h2 : o.sourcepos = true <;>
    simp [h1, h2, destOk, attrDestOk, nl]

theorem dest_codeBlockAttrs (o : HtmlOpts) (info : Bytes) (sp : Sp) :
    (codeBlockAttrs o info sp).1.all attrDestOk = true ∧ (codeBlockAttrs o info sp).2.all attrDestOk = true := by
  unfold codeBlockAttrs
  by_cases h0 : info.isEmpty = true <;> by_cases h1 : o.githubPreLang = true <;> by_cases h2 : o.sourcepos = true <;>
    by_cases h3 : (o.fullInfoString && !(trimUnicode (splitInfo info).2).isEmpty) = true <;>
    simp [h0, h1, h2, h3, attrDestOk]

theorem enter_dest (o : HtmlOpts) (hu : o.unsafe_ = false) (nt : NormTable) (cx : Ctx) (v : NodeValue) (sp : Sp)
    (cs : Forest) (st : St) : (enter o nt cx v sp cs st).1.all destOk = true := by
  cases v
  case htmlBlock bt l => simp [enter, dest_htmlBlockToks]
  case htmlInline l => simp [enter, dest_htmlInlineToks]
  case codeBlock f fc fl fo info lit =>
    simp only [enter]
    split
    · simp [dest_mathCodeBlockToks]
    · have := dest_codeBlockAttrs o info sp
      simp [destOk, nl, this.1, this.2]
  case heading level setext =>
    cases h : o.headerIds <;> simp [enter, h, destOk, attrDestOk, litAttr, dest_hash]
  case alert ty title m fl fo => cases title <;> simp [enter, destOk, attrDestOk, litAttr, nl]
  case list l =>
    cases hl : l.ty <;> simp [enter, hl, destOk, attrDestOk, litAttr, nl, List.all_append] <;>
      (repeat' split) <;> simp_all
  case tableRow h => simp [enter, destOk, dest_rowSectionToks]
  case tableCell => simp [enter, destOk, List.all_append, dest_alignAttr]
  all_goals simp only [enter]
  all_goals (repeat' split)
  all_goals (try simp_all [destOk, attrDestOk, litAttr, nl, List.all_append, dest_urlVal, dest_hfn])

theorem exit_dest (o : HtmlOpts) (cx : Ctx) (v : NodeValue) (cs : Forest) (st : St) :
    (exit o cx v cs st).1.all destOk = true := by
  cases v
  case paragraph =>
    simp only [exit]
    split
    · simp
    · cases hp : cx.parent with
      | none => simp [destOk, nl]
      | some pv =>
        cases pv
        case footnoteDefinition name total =>
          simp only [W.seq_fst, List.all_append, Bool.and_eq_true]
          refine ⟨?_, by simp [destOk, nl]⟩
          split
          · simp only [W.seq_fst, List.all_append, Bool.and_eq_true]
            exact ⟨by simp [destOk], dest_putBackref _ _ _⟩
          · simp
        all_goals simp [destOk, nl]
  case footnoteDefinition name total =>
    simp only [exit, W.seq_fst, List.all_append, Bool.and_eq_true]
    refine ⟨⟨dest_putBackref _ _ _, ?_⟩, by simp [destOk, nl]⟩
    split <;> simp [destOk, nl]
  case list l => cases hl : l.ty <;> simp [exit, hl, destOk, nl]
  all_goals simp only [exit]
  all_goals (repeat' split)
  all_goals (try simp_all [destOk, nl, List.all_append])

mutual
theorem renderT_dest (o : HtmlOpts) (hu : o.unsafe_ = false) (nt : NormTable) :
    ∀ (t : Tree) (cx : Ctx) (st : St), (renderT o nt cx t st).1.all destOk = true
  | .node v sp cs, cx, st => by
    rw [renderT_node]
    simp only [List.all_append, Bool.and_eq_true]
    refine ⟨⟨enter_dest o hu nt cx v sp cs st, ?_⟩, exit_dest o cx v cs _⟩
    split
    · exact renderF_dest o hu nt cs _ _ _ _ _
    · rfl
theorem renderF_dest (o : HtmlOpts) (hu : o.unsafe_ = false) (nt : NormTable) :
    ∀ (f : Forest) (parent grand prev : Option NodeValue) (idx : Nat) (st : St),
      (renderF o nt parent grand prev idx f st).1.all destOk = true
  | .nil, _, _, _, _, _ => by simp [renderF]
  | .cons t ts, parent, grand, prev, idx, st => by
    rw [renderF_cons]
    simp only [List.all_append, Bool.and_eq_true]
    exact ⟨renderT_dest o hu nt t _ st, renderF_dest o hu nt ts _ _ _ _ _⟩
end

/-- In safe mode no `href`/`src` value the renderer writes decodes to a dangerous URL. -/
theorem renderToks_dest (o : HtmlOpts) (hu : o.unsafe_ = false) (nt : NormTable) (t : Tree) :
    (renderToks o nt t).all destOk = true := by
  unfold renderToks
  simp only [W.seq_fst, List.all_append, Bool.and_eq_true]
  refine ⟨renderT_dest o hu nt t {} {}, ?_⟩
  unfold finish
  split <;> simp [destOk, nl]

end Comrak
