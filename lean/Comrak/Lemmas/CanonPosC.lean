/-
Positions of canonical documents, layer C: inline content.  For inline content that stands in the
source (`Reg`), the positioned trees `Inl.toTreeP` / `Inls.toForestP` pass the C11 clauses
(`claimCheckT`: range, nesting, order) and the C12 clauses (`sliceCheckT`).
-/
import Comrak.Lemmas.CanonPosB
namespace Comrak.Canon
open Comrak Bytes

/-! ### The two checks on one node / one forest step -/

section generic
variable (lt : List LineEnt) (src : Bytes)

theorem claim_node (v : NodeValue) (sp : Sp) (cs : Forest) (A : Sp) (hv : v.kind.spReliable = true) (hsl : sp.sl ≠ 0)
    (hr : spRangeFail lt sp = none) (hn : spNested A sp = true) (hc : claimCheckF lt (some sp) none cs = none) :
    claimCheckT lt (some A) (.node v sp cs) = none := by
  simp [claimCheckT, hv, hsl, hr, hn, hc]

theorem claim_node_root (v : NodeValue) (sp : Sp) (cs : Forest) (hv : v.kind.spReliable = true) (hsl : sp.sl ≠ 0)
    (hr : spRangeFail lt sp = none) (hc : claimCheckF lt (some sp) none cs = none) :
    claimCheckT lt none (.node v sp cs) = none := by
  simp [claimCheckT, hv, hsl, hr, hc]

/-- A node that claims nothing. -/
theorem claim_skip (v : NodeValue) (sp : Sp) (cs : Forest) (anc : Option Sp)
    (h : (v.kind.spReliable && sp.sl != 0) = false) (hc : claimCheckF lt anc none cs = none) :
    claimCheckT lt anc (.node v sp cs) = none := by
  simp only [claimCheckT, h]
  simpa using hc

theorem slice_node (v : NodeValue) (sp : Sp) (cs : Forest)
    (h : ∀ s, sliceLT lt src sp = some s → sliceFail v cs s = none ∧ sliceEndFail lt src v sp = none)
    (hc : sliceCheckF lt src cs = none) : sliceCheckT lt src (.node v sp cs) = none := by
  simp only [sliceCheckT]
  cases hs : sliceLT lt src sp with
  | none => simpa using hc
  | some s =>
    obtain ⟨h1, h2⟩ := h s hs
    simp [h1, h2, hc, Option.orElse]

theorem slice_node_zero (v : NodeValue) (cs : Forest) (hc : sliceCheckF lt src cs = none) :
    sliceCheckT lt src (.node v {} cs) = none := by
  have : sliceLT lt src {} = none := by simp [sliceLT, spOffsets, lineAt]
  simp only [sliceCheckT, this]
  simpa using hc

theorem claimF_cons (t : Tree) (ts : Forest) (anc prev : Option Sp)
    (htk : (t.value.kind.spInOrder && t.sp.sl != 0) = true)
    (hord : ∀ Q, prev = some Q → spOrdered Q t.sp = true)
    (ht : claimCheckT lt anc t = none) (hr : claimCheckF lt anc (some t.sp) ts = none) :
    claimCheckF lt anc prev (.cons t ts) = none := by
  simp only [claimCheckF, htk, ht]
  cases prev with
  | none => simpa using hr
  | some Q => simp [hord Q rfl]; simpa using hr

theorem claimF_cons_skip (t : Tree) (ts : Forest) (anc prev : Option Sp)
    (htk : (t.value.kind.spInOrder && t.sp.sl != 0) = false)
    (ht : claimCheckT lt anc t = none) (hr : claimCheckF lt anc prev ts = none) :
    claimCheckF lt anc prev (.cons t ts) = none := by
  simp only [claimCheckF, htk, ht]
  cases prev with
  | none => simpa using hr
  | some Q => simpa using hr

theorem sliceF_cons (t : Tree) (ts : Forest) (ht : sliceCheckT lt src t = none) (hr : sliceCheckF lt src ts = none) :
    sliceCheckF lt src (.cons t ts) = none := by
  simp [sliceCheckF, ht, hr]

end generic

/-! ### What the proof needs to know about inline content -/

mutual
/-- Local facts: a text is non-empty and has no line end in it, a code span has at least one
    backtick, an autolink lies on one line.  (All follow from `Doc.ok`.) -/
def Inl.ph : Inl → Bool
  | .text as => !(atomsSrc as).isEmpty && nlFree (atomsSrc as)
  | .code n _ => decide (1 ≤ n)
  | .emph _ cs => cs.ph
  | .strong _ cs => cs.ph
  | .strike cs => cs.ph
  | .link _ _ _ _ cs => cs.ph
  | .image _ _ _ cs => cs.ph
  | .autolink s r => nlFree (autolinkUrl s r)
  | _ => true
def Inls.ph : Inls → Bool
  | .nil => true
  | .cons i r => i.ph && r.ph
end

theorem rep_succ (n : Nat) (c : UInt8) : rep (n + 1) c = c :: rep n c := rfl
theorem rep_succ' (n : Nat) (c : UInt8) : rep (n + 1) c = rep n c ++ [c] := by
  simp [rep, List.replicate_succ']

theorem Inl.src_ne_nil : ∀ (i : Inl), i.ph = true → i.src ≠ []
  | .text as, h => by
    simp only [Inl.ph, Bool.and_eq_true, Bool.not_eq_true', List.isEmpty_eq_false_iff] at h
    simpa [Inl.src] using h.1
  | .code n s, h => by
    simp only [Inl.ph, decide_eq_true_eq] at h
    obtain ⟨m, rfl⟩ : ∃ m, n = m + 1 := ⟨n - 1, by omega⟩
    simp [Inl.src, rep_succ]
  | .emph _ _, _ => by simp [Inl.src]
  | .strong _ _, _ => by simp [Inl.src]
  | .strike _, _ => by simp [Inl.src]
  | .link _ _ _ .inline _, _ => by simp [Inl.src]
  | .link _ _ _ (.ref ..) _, _ => by simp [Inl.src]
  | .image .., _ => by simp [Inl.src]
  | .autolink .., _ => by simp [Inl.src]
  | .hard true, _ => by simp [Inl.src]
  | .hard false, _ => by simp [Inl.src]
  | .soft, _ => by simp [Inl.src]
  | .fnref .., _ => by simp [Inl.src]

/-! ### Slice clauses on framed bytes -/

theorem plain_atoms : ∀ (as : List Atom), plainSlice (atomsSrc as) = true → atomsSrc as = atomsVal as
  | [], _ => rfl
  | a :: r, h => by
    have hsplit : plainSlice a.src = true ∧ plainSlice (atomsSrc r) = true := by
      simp only [plainSlice, atomsSrc, List.flatMap_cons, List.contains_eq_mem, List.mem_append, Bool.not_eq_true',
        Bool.or_eq_false_iff, decide_eq_false_iff_not, not_or] at h ⊢
      exact ⟨⟨⟨h.1.1.1, h.1.2.1⟩, h.2.1⟩, ⟨⟨h.1.1.2, h.1.2.2⟩, h.2.2⟩⟩
    have ih := plain_atoms r hsplit.2
    have ha : a.src = a.val := by
      cases a with
      | ch c => rfl
      | esc c => simp [plainSlice, Atom.src] at hsplit
      | ent i => simp [plainSlice, Atom.src] at hsplit
      | num c hex => cases hex <;> simp [plainSlice, Atom.src] at hsplit
      | uni i => rfl
    simp only [atomsSrc, atomsVal, List.flatMap_cons] at ih ⊢
    rw [ha, ih]

theorem clause_text (as : List Atom) : sliceFail (.text (atomsVal as)) .nil (atomsSrc as) = none := by
  simp only [sliceFail]
  split
  · rename_i h
    simp only [Bool.and_eq_true] at h
    simp [plain_atoms as h.1]
  · rfl

theorem clause_text_same (s : Bytes) : sliceFail (.text s) .nil s = none := by
  simp [sliceFail]

@[simp] theorem gl1 (a d : UInt8) (mid : Bytes) : (a :: (mid ++ [d])).getLast? = some d := by
  rw [← List.cons_append, List.getLast?_append]; simp
@[simp] theorem gl2 (a d e : UInt8) (mid : Bytes) : (a :: (mid ++ [d, e])).getLast? = some e := by
  rw [← List.cons_append, List.getLast?_append]; simp

theorem lastB_snoc (a : Bytes) (d : UInt8) : lastB (a ++ [d]) = some d := by simp [lastB]

theorem clause_code (n : Nat) (s mid : Bytes) : sliceFail (.code n s) .nil ([0x60] ++ mid ++ [0x60]) = none := by
  simp [sliceFail, firstB, lastB]

theorem clause_emph (us : Bool) (cs : Forest) (mid : Bytes) :
    sliceFail .emph cs ([if us then 0x5F else 0x2A] ++ mid ++ [if us then 0x5F else 0x2A]) = none := by
  cases us <;> simp [sliceFail, firstB, lastB]

theorem clause_strong (us : Bool) (cs : Forest) (mid : Bytes) :
    sliceFail .strong cs ([if us then 0x5F else 0x2A, if us then 0x5F else 0x2A] ++ mid ++
      [if us then 0x5F else 0x2A, if us then 0x5F else 0x2A]) = none := by
  cases us <;> simp [sliceFail, List.reverse_append]

theorem clause_strike (cs : Forest) (mid : Bytes) :
    sliceFail .strikethrough cs ([0x7E, 0x7E] ++ mid ++ [0x7E, 0x7E]) = none := by
  simp [sliceFail, firstB, lastB]

theorem clause_link (u t : Bytes) (cs : Forest) (mid : Bytes) (d : UInt8) (hd : d = 0x29 ∨ d = 0x5D) :
    sliceFail (.link u t) cs ([0x5B] ++ mid ++ [d]) = none := by
  rcases hd with rfl | rfl <;> simp [sliceFail, firstB, lastB]

theorem clause_autolink (u t : Bytes) (cs : Forest) (mid : Bytes) :
    sliceFail (.link u t) cs ([0x3C] ++ mid ++ [0x3E]) = none := by
  simp [sliceFail, firstB, lastB]

theorem clause_image (u t : Bytes) (cs : Forest) (mid : Bytes) :
    sliceFail (.image u t) cs ([0x21, 0x5B] ++ mid ++ [0x29]) = none := by
  simp [sliceFail, isPrefixB, lastB]

/-! ### Inline trees -/

section inl
variable (G : List Bytes)

local notation "LT" => lineEnts (joinLines G)
local notation "SRC" => joinLines G

def InlGood (i : Inl) : Prop :=
  ∀ (c0 : Nat) (p : Pos) (A : Sp), Reg G c0 p i.src → i.ph = true → spNested A (spanOf c0 p i.src) = true →
    claimCheckT LT (some A) (i.toTreeP c0 p) = none ∧ sliceCheckT LT SRC (i.toTreeP c0 p) = none

/-- `prev`: the span of the previous sibling, which ends before `p`. -/
def InlsGood (is : Inls) : Prop :=
  ∀ (c0 : Nat) (p : Pos) (A : Sp) (prev : Option Sp), Reg G c0 p is.src → is.ph = true →
    posLe A.sl A.sc p.1 p.2 = true →
    (is.src ≠ [] → posLe (adv c0 p is.src.dropLast).1 (adv c0 p is.src.dropLast).2 A.el A.ec = true) →
    (∀ Q, prev = some Q → posLt Q.el Q.ec p.1 p.2 = true) →
    claimCheckF LT (some A) prev (is.toForestP c0 p) = none ∧ sliceCheckF LT SRC (is.toForestP c0 p) = none

theorem span_sl_ne {c0 : Nat} {p : Pos} {x : Bytes} (h : Reg G c0 p x) : (spanOf c0 p x).sl ≠ 0 := by
  have := (reg_cur h).1
  simp only [spanOf]; omega

/-- A leaf whose slice has no clause beyond those of `sliceFail`. -/
theorem leaf_good (hG : cleanG G = true) (v : NodeValue) (x : Bytes) (c0 : Nat) (p : Pos) (A : Sp) (hr : Reg G c0 p x) (hx : x ≠ [])
    (hv : v.kind.spReliable = true) (hnq : ∀ sp, sliceEndFail LT SRC v sp = none)
    (hn : spNested A (spanOf c0 p x) = true)
    (hs : ∀ s, sliceLT LT SRC (spanOf c0 p x) = some s → sliceFail v .nil s = none) :
    claimCheckT LT (some A) (.node v (spanOf c0 p x) .nil) = none ∧
      sliceCheckT LT SRC (.node v (spanOf c0 p x) .nil) = none :=
  ⟨claim_node _ v _ .nil A hv (span_sl_ne G hr) (range_of_valid G hG _ (valid_of_reg hr hx)) hn rfl,
   slice_node _ _ v _ .nil (fun s h => ⟨hs s h, hnq _⟩) rfl⟩

/-- An inline container `u ++ cs.src ++ v ++ w`: the children are checked in the region after `u`. -/
theorem node_good (hG : cleanG G = true) (v : NodeValue) (cs : Inls) (u m w : Bytes) (k : Nat) (hk : u.length = k) (c0 : Nat) (p : Pos) (A : Sp)
    (hr : Reg G c0 p (u ++ (cs.src ++ m) ++ w)) (hu : nlFree u = true) (hw : nlFree w = true) (hu0 : u ≠ []) (hw0 : w ≠ [])
    (hv : v.kind.spReliable = true) (hnq : ∀ sp, sliceEndFail LT SRC v sp = none)
    (hn : spNested A (spanOf c0 p (u ++ (cs.src ++ m) ++ w)) = true)
    (hs : ∀ mid, sliceFail v (cs.toForestP c0 (p.1, p.2 + k)) (u ++ mid ++ w) = none)
    (ih : InlsGood G cs) (hph : cs.ph = true) :
    claimCheckT LT (some A) (.node v (spanOf c0 p (u ++ (cs.src ++ m) ++ w)) (cs.toForestP c0 (p.1, p.2 + k))) = none ∧
      sliceCheckT LT SRC (.node v (spanOf c0 p (u ++ (cs.src ++ m) ++ w)) (cs.toForestP c0 (p.1, p.2 + k))) = none := by
  subst hk
  have hx : u ++ (cs.src ++ m) ++ w ≠ [] := by simp [hu0]
  have hq : adv c0 p u = (p.1, p.2 + u.length) := adv_nlFree c0 u p hu
  have hr1 := reg_append (a := u ++ (cs.src ++ m)) (b := w) hr
  have hr2 := reg_append (a := u) (b := cs.src ++ m) hr1.1
  rw [hq] at hr2
  have hr3 := reg_append (a := cs.src) (b := m) hr2.2
  -- the children
  have hstart : posLe (spanOf c0 p (u ++ (cs.src ++ m) ++ w)).sl (spanOf c0 p (u ++ (cs.src ++ m) ++ w)).sc p.1 (p.2 + u.length) = true := by
    simp [spanOf, posLe]
  have hend : cs.src ≠ [] →
      posLe (adv c0 (p.1, p.2 + u.length) cs.src.dropLast).1 (adv c0 (p.1, p.2 + u.length) cs.src.dropLast).2
        (spanOf c0 p (u ++ (cs.src ++ m) ++ w)).el (spanOf c0 p (u ++ (cs.src ++ m) ++ w)).ec = true := by
    intro hne
    obtain ⟨b, hb⟩ := dropLast_append_last cs.src hne
    have e : (u ++ (cs.src ++ m) ++ w).dropLast = u ++ (cs.src.dropLast ++ ([b] ++ m ++ w.dropLast)) := by
      rw [List.dropLast_append_of_ne_nil hw0]
      conv => lhs; rw [hb]
      simp
    simp only [spanOf, e]
    rw [adv_append, hq, adv_append]
    exact adv_le c0 _ _
  obtain ⟨k1, k2⟩ := ih c0 (p.1, p.2 + u.length) (spanOf c0 p (u ++ (cs.src ++ m) ++ w)) none hr3.1 hph hstart hend
    (fun Q h => by cases h)
  obtain ⟨mid, hm⟩ := slice_of_reg hG hr hu hw hu0 hw0
  exact ⟨claim_node _ v _ _ A hv (span_sl_ne G hr) (range_of_valid G hG _ (valid_of_reg hr hx)) hn k1,
    slice_node _ _ v _ _ (fun s h => by
      rw [hm] at h
      cases h
      exact ⟨hs mid, hnq _⟩) k2⟩

theorem inl_text_pos (hG : cleanG G = true) (as : List Atom) : InlGood G (.text as) := fun c0 p A hr hph hn => by
  simp only [Inl.ph, Bool.and_eq_true, Bool.not_eq_true', List.isEmpty_eq_false_iff] at hph
  simp only [Inl.src] at hr hn hph
  simp only [Inl.toTreeP, Inl.src]
  refine leaf_good G hG _ _ c0 p A hr hph.1 rfl (fun _ => rfl) hn (fun s h => ?_)
  rw [slice_of_reg_line hG hr hph.2 hph.1] at h
  cases h
  exact clause_text as

theorem inl_code_pos (hG : cleanG G = true) (n : Nat) (s : Bytes) : InlGood G (.code n s) := fun c0 p A hr hph hn => by
  simp only [Inl.ph, decide_eq_true_eq] at hph
  obtain ⟨m, rfl⟩ : ∃ m, n = m + 1 := ⟨n - 1, by omega⟩
  have e : (Inl.code (m + 1) s).src = [0x60] ++ (rep m 0x60 ++ s ++ rep m 0x60) ++ [0x60] := by
    simp [Inl.src, rep_succ, rep_succ']
    exact (rep_succ m 96).symm.trans (rep_succ' m 96)
  simp only [Inl.toTreeP]
  rw [e] at hr hn ⊢
  refine leaf_good G hG _ _ c0 p A hr (by simp) rfl (fun _ => rfl) hn (fun x h => ?_)
  obtain ⟨mid, hm⟩ := slice_of_reg hG hr rfl rfl (by simp) (by simp)
  rw [hm] at h
  cases h
  exact clause_code _ _ _

theorem inl_leaf_noclause (hG : cleanG G = true) (i : Inl) (v : NodeValue) (ht : ∀ c0 p, i.toTreeP c0 p = .node v (spanOf c0 p i.src) .nil)
    (hv : v.kind.spReliable = true) (hnq : ∀ sp, sliceEndFail LT SRC v sp = none) (hc : ∀ s, sliceFail v .nil s = none) :
    InlGood G i := fun c0 p A hr hph hn => by
  rw [ht]
  exact leaf_good G hG _ _ c0 p A hr (Inl.src_ne_nil i hph) hv hnq hn (fun s _ => hc s)

theorem inl_autolink_pos (hG : cleanG G = true) (sc : Nat) (r : Bytes) : InlGood G (.autolink sc r) := fun c0 p A hr hph hn => by
  simp only [Inl.ph] at hph
  have e : (Inl.autolink sc r).src = [0x3C] ++ autolinkUrl sc r ++ [0x3E] := by simp [Inl.src]
  simp only [Inl.toTreeP]
  rw [e] at hr hn ⊢
  have hx : [0x3C] ++ autolinkUrl sc r ++ [0x3E] ≠ [] := by simp
  have hq : adv c0 p [0x3C] = (p.1, p.2 + 1) := adv_nlFree c0 _ p rfl
  have hr1 := reg_append (a := [0x3C] ++ autolinkUrl sc r) (b := [0x3E]) hr
  have hr2 := reg_append (a := [0x3C]) (b := autolinkUrl sc r) hr1.1
  rw [hq] at hr2
  obtain ⟨mid, hm⟩ := slice_of_reg hG hr rfl rfl (by simp) (by simp)
  have hnl : nlFree ([0x3C] ++ autolinkUrl sc r ++ [0x3E]) = true := by simp only [nlFree_append, hph]; rfl
  by_cases hu0 : autolinkUrl sc r = []
  · -- no text at all: the child node claims the empty span; not in the class, but harmless to exclude
    exact absurd hu0 (by simp [autolinkUrl])
  · have hchild : claimCheckT LT (some (spanOf c0 p ([0x3C] ++ autolinkUrl sc r ++ [0x3E])))
        (.node (.text (autolinkUrl sc r)) (spanOf c0 (p.1, p.2 + 1) (autolinkUrl sc r)) .nil) = none ∧
        sliceCheckT LT SRC (.node (.text (autolinkUrl sc r)) (spanOf c0 (p.1, p.2 + 1) (autolinkUrl sc r)) .nil) = none := by
      refine leaf_good G hG _ _ c0 _ _ hr2.2 hu0 rfl (fun _ => rfl) ?_ (fun s h => ?_)
      · have d1 : nlFree (autolinkUrl sc r).dropLast = true := by
          obtain ⟨b, hb⟩ := dropLast_append_last _ hu0
          rw [hb, nlFree_append] at hph
          exact (Bool.and_eq_true _ _ ▸ hph).1
        have d2 : ([0x3C] ++ autolinkUrl sc r ++ [0x3E]).dropLast = [0x3C] ++ autolinkUrl sc r := List.dropLast_concat
        have d3 : nlFree ([0x3C] ++ autolinkUrl sc r) = true := by simp only [nlFree_append, hph]; rfl
        have hl := List.length_pos_iff.mpr hu0
        have a1 := adv_nlFree c0 _ (p.1, p.2 + 1) d1
        have a2 := adv_nlFree c0 _ p d3
        simp only [spNested, spanOf, d2, a1, a2, posLe, Bool.and_eq_true, Bool.or_eq_true,
          decide_eq_true_eq, List.length_append, List.length_cons, List.length_nil, List.length_dropLast]
        exact ⟨Or.inr ⟨trivial, by omega⟩, Or.inr ⟨trivial, by omega⟩⟩
      · rw [slice_of_reg_line hG hr2.2 hph hu0] at h
        cases h
        exact clause_text_same _
    refine ⟨claim_node _ _ _ _ A rfl (span_sl_ne G hr) (range_of_valid G hG _ (valid_of_reg hr hx)) hn ?_,
      slice_node _ _ _ _ _ (fun s h => ?_) (sliceF_cons _ _ _ _ hchild.2 rfl)⟩
    · exact claimF_cons _ _ _ _ none (by
        have := span_sl_ne G hr2.2
        simp [Tree.value, Tree.sp, NodeValue.kind, Kind.spInOrder, Kind.spReliable, this]) (fun Q h => by cases h) hchild.1 rfl
    · rw [hm] at h
      cases h
      exact ⟨clause_autolink _ _ _ _, rfl⟩

theorem inls_nil_pos : InlsGood G .nil := fun c0 p A prev _ _ _ _ _ => ⟨rfl, rfl⟩

theorem inls_cons_pos (i : Inl) (r : Inls) (hi : InlGood G i) (hr : InlsGood G r) : InlsGood G (.cons i r) :=
  fun c0 p A prev hreg hph hs he hp => by
    simp only [Inls.ph, Bool.and_eq_true] at hph
    simp only [Inls.src] at hreg he
    have hi0 := Inl.src_ne_nil i hph.1
    obtain ⟨r1, r2⟩ := reg_append hreg
    have hcur := reg_cur hreg
    -- the span of `i` lies within `A`
    have hie : posLe (adv c0 p i.src.dropLast).1 (adv c0 p i.src.dropLast).2 A.el A.ec = true := by
      have hwhole := he (by simp [hi0])
      refine posLe_trans ?_ hwhole
      by_cases hr0 : r.src = []
      · simp [hr0]; exact posLe_refl _ _
      · obtain ⟨b, hb⟩ := dropLast_append_last i.src hi0
        have e : (i.src ++ r.src).dropLast = i.src.dropLast ++ ([b] ++ r.src.dropLast) := by
          rw [List.dropLast_append_of_ne_nil hr0]
          conv => lhs; rw [hb]
          simp
        rw [e, adv_append]
        exact adv_le c0 _ _
    have hnest : spNested A (spanOf c0 p i.src) = true := by
      simp only [spNested, spanOf, Bool.and_eq_true]
      exact ⟨hs, hie⟩
    obtain ⟨k1, k2⟩ := hi c0 p A r1 hph.1 hnest
    -- the rest
    have hstart2 : posLe A.sl A.sc (adv c0 p i.src).1 (adv c0 p i.src).2 = true := posLe_trans hs (adv_le c0 _ _)
    have hend2 : r.src ≠ [] → posLe (adv c0 (adv c0 p i.src) r.src.dropLast).1 (adv c0 (adv c0 p i.src) r.src.dropLast).2 A.el A.ec = true := by
      intro hr0
      have hwhole := he (by simp [hi0])
      rw [List.dropLast_append_of_ne_nil hr0, adv_append] at hwhole
      exact hwhole
    have hprev2 : ∀ Q, some (spanOf c0 p i.src) = some Q → posLt Q.el Q.ec (adv c0 p i.src).1 (adv c0 p i.src).2 = true := by
      intro Q hQ
      cases hQ
      obtain ⟨b, hb⟩ := dropLast_append_last i.src hi0
      have : adv c0 p i.src = adv c0 (adv c0 p i.src.dropLast) [b] := by
        conv => lhs; rw [hb]
        rw [adv_append]
      simp only [spanOf]
      rw [this]
      exact adv_lt c0 [b] _ (by simp)
    obtain ⟨k3, k4⟩ := hr c0 (adv c0 p i.src) A (some (spanOf c0 p i.src)) r2 hph.2 hstart2 hend2 hprev2
    have hsp : (i.toTreeP c0 p).sp = spanOf c0 p i.src := by cases i <;> simp [Inl.toTreeP, Tree.sp]
    have hkind : (i.toTreeP c0 p).value.kind.spInOrder = true := by
      cases i <;> simp [Inl.toTreeP, Tree.value, NodeValue.kind, Kind.spInOrder, Kind.spReliable]
    simp only [Inls.toForestP]
    refine ⟨claimF_cons _ _ _ _ prev ?_ ?_ k1 (by rw [hsp]; exact k3), sliceF_cons _ _ _ _ k2 k4⟩
    · rw [hkind, hsp]
      have := hcur.1
      simp [spanOf]; omega
    · intro Q hQ
      rw [hsp]
      simp only [spOrdered, spanOf]
      exact hp Q hQ

mutual
theorem inl_good (hG : cleanG G = true) : ∀ i : Inl, InlGood G i
  | .text as => inl_text_pos G hG as
  | .code n s => inl_code_pos G hG n s
  | .emph us cs => fun c0 p A hr hph hn => by
    have e : (Inl.emph us cs).src = [if us then 0x5F else 0x2A] ++ (cs.src ++ []) ++ [if us then 0x5F else 0x2A] := by
      simp [Inl.src]
    simp only [Inl.toTreeP]
    rw [e] at hr hn ⊢
    exact node_good G hG .emph cs _ [] _ 1 rfl c0 p A hr (by cases us <;> rfl) (by cases us <;> rfl) (by simp) (by simp) rfl
      (fun _ => rfl) hn (fun mid => clause_emph us _ mid) (inls_good hG cs) (by simpa [Inl.ph] using hph)
  | .strong us cs => fun c0 p A hr hph hn => by
    have e : (Inl.strong us cs).src = [if us then 0x5F else 0x2A, if us then 0x5F else 0x2A] ++ (cs.src ++ []) ++
        [if us then 0x5F else 0x2A, if us then 0x5F else 0x2A] := by
      simp [Inl.src]
    simp only [Inl.toTreeP]
    rw [e] at hr hn ⊢
    exact node_good G hG .strong cs _ [] _ 2 rfl c0 p A hr (by cases us <;> rfl) (by cases us <;> rfl) (by simp) (by simp) rfl
      (fun _ => rfl) hn (fun mid => clause_strong us _ mid) (inls_good hG cs) (by simpa [Inl.ph] using hph)
  | .strike cs => fun c0 p A hr hph hn => by
    have e : (Inl.strike cs).src = [0x7E, 0x7E] ++ (cs.src ++ []) ++ [0x7E, 0x7E] := by simp [Inl.src]
    simp only [Inl.toTreeP]
    rw [e] at hr hn ⊢
    exact node_good G hG .strikethrough cs _ [] _ 2 rfl c0 p A hr rfl rfl (by simp) (by simp) rfl
      (fun _ => rfl) hn (fun mid => clause_strike _ mid) (inls_good hG cs) (by simpa [Inl.ph] using hph)
  | .link url title angle .inline cs => fun c0 p A hr hph hn => by
    have e : (Inl.link url title angle .inline cs).src =
        [0x5B] ++ (cs.src ++ ([0x5D, 0x28] ++ destSrc url angle ++ titleSrc title)) ++ [0x29] := by simp [Inl.src]
    simp only [Inl.toTreeP]
    rw [e] at hr hn ⊢
    exact node_good G hG (.link url title) cs _ _ _ 1 rfl c0 p A hr rfl rfl (by simp) (by simp) rfl
      (fun _ => rfl) hn (fun mid => clause_link _ _ _ mid _ (Or.inl rfl)) (inls_good hG cs) (by simpa [Inl.ph] using hph)
  | .link url title angle (.ref label dl b) cs => fun c0 p A hr hph hn => by
    have e : (Inl.link url title angle (.ref label dl b) cs).src =
        [0x5B] ++ (cs.src ++ ([0x5D, 0x5B] ++ label)) ++ [0x5D] := by simp [Inl.src]
    simp only [Inl.toTreeP]
    rw [e] at hr hn ⊢
    exact node_good G hG (.link url title) cs _ _ _ 1 rfl c0 p A hr rfl rfl (by simp) (by simp) rfl
      (fun _ => rfl) hn (fun mid => clause_link _ _ _ mid _ (Or.inr rfl)) (inls_good hG cs) (by simpa [Inl.ph] using hph)
  | .image url title angle cs => fun c0 p A hr hph hn => by
    have e : (Inl.image url title angle cs).src =
        [0x21, 0x5B] ++ (cs.src ++ ([0x5D, 0x28] ++ destSrc url angle ++ titleSrc title)) ++ [0x29] := by simp [Inl.src]
    simp only [Inl.toTreeP]
    rw [e] at hr hn ⊢
    exact node_good G hG (.image url title) cs _ _ _ 2 rfl c0 p A hr rfl rfl (by simp) (by simp) rfl
      (fun _ => rfl) hn (fun mid => clause_image _ _ _ mid) (inls_good hG cs) (by simpa [Inl.ph] using hph)
  | .autolink sc r => inl_autolink_pos G hG sc r
  | .hard b => inl_leaf_noclause G hG _ .lineBreak (fun _ _ => rfl) rfl (fun _ => rfl) (fun _ => rfl)
  | .soft => inl_leaf_noclause G hG _ .softBreak (fun _ _ => rfl) rfl (fun _ => rfl) (fun _ => rfl)
  | .fnref name rn ix => inl_leaf_noclause G hG _ (.footnoteReference name rn ix) (fun _ _ => rfl) rfl (fun _ => rfl) (fun _ => rfl)
theorem inls_good (hG : cleanG G = true) : ∀ is : Inls, InlsGood G is
  | .nil => inls_nil_pos G
  | .cons i r => inls_cons_pos G i r (inl_good hG i) (inls_good hG r)
end

end inl

end Comrak.Canon
