/-
Positions of canonical documents, layer L: in a table cell that satisfies `cellWf`, every `|` is
preceded by a backslash (the clause of the C12 oracle for table cells).
-/
import Comrak.Lemmas.CanonPosK
namespace Comrak.Canon
open Comrak Bytes

def noPipe (s : Bytes) : Bool := s.all fun b => b != 0x7C

theorem noPipe_append (a b : Bytes) : noPipe (a ++ b) = (noPipe a && noPipe b) := by simp [noPipe]

/-- No bare pipe, whatever stands before. -/
def pipeSafe (s : Bytes) : Prop := ∀ p, hasBarePipe p s = false

theorem pipeSafe_nil : pipeSafe [] := fun _ => rfl

theorem pipeSafe_of_noPipe : ∀ (s : Bytes), noPipe s = true → pipeSafe s
  | [], _, _ => rfl
  | c :: r, h, p => by
    simp only [noPipe, List.all_cons, Bool.and_eq_true, bne_iff_ne, ne_eq] at h
    have ih := pipeSafe_of_noPipe r (by simpa [noPipe] using h.2) c
    simp [hasBarePipe, h.1, ih]

theorem pipeSafe_esc : pipeSafe [0x5C, 0x7C] := fun p => by simp [hasBarePipe]

theorem safe_append : ∀ (a b : Bytes) (p : UInt8), hasBarePipe p a = false → pipeSafe b → hasBarePipe p (a ++ b) = false
  | [], b, p, _, hb => by simpa using hb p
  | c :: r, b, p, ha, hb => by
    simp only [hasBarePipe, Bool.or_eq_false_iff] at ha
    have ih := safe_append r b c ha.2 hb
    simp only [List.cons_append, hasBarePipe, Bool.or_eq_false_iff]
    refine ⟨?_, ih⟩
    cases r with
    | nil =>
      have h1 := ha.1
      simp only [List.nil_append]
      by_cases hc : c = 0x7C <;> by_cases h5 : p = 0x5C <;> by_cases h7 : p = 0x7C <;> by_cases h2 : p = 0x27 <;> simp_all
    | cons d t => simpa using ha.1

theorem pipeSafe_append (a b : Bytes) (ha : pipeSafe a) (hb : pipeSafe b) : pipeSafe (a ++ b) :=
  fun p => safe_append a b p (ha p) hb

/-! ### Atoms and characters -/

def atomPipe (a : Atom) : Bool := noPipe a.src || a.src == [0x5C, 0x7C]

theorem ch_pipe : ∀ c : UInt8, (isAsciiAlnum c || c == 0x20 || plainPunct.contains c) = true → atomPipe (.ch c) = true :=
  forall_uint8_of_fin (by decide +kernel)
theorem esc_pipe : ∀ c : UInt8, atomPipe (.esc c) = true := forall_uint8_of_fin (by decide +kernel)
theorem num_pipe : ∀ c : UInt8, (atomPipe (.num c false) && atomPipe (.num c true)) = true :=
  forall_uint8_of_fin (by decide +kernel)
theorem ent_pipe : (List.range entTable.length).all (fun i => atomPipe (.ent i)) = true := by decide +kernel
theorem uni_pipe : (List.range uniTable.length).all (fun i => atomPipe (.uni i)) = true := by decide +kernel

theorem atom_pipe (a : Atom) (h : a.ok = true) : pipeSafe a.src := by
  have hf : atomPipe a = true := by
    cases a with
    | ch c => exact ch_pipe c h
    | esc c => exact esc_pipe c
    | ent i =>
      simp only [Atom.ok, decide_eq_true_eq] at h
      exact List.all_eq_true.mp ent_pipe i (List.mem_range.mpr h)
    | num c hex =>
      have := num_pipe c
      simp only [Bool.and_eq_true] at this
      cases hex
      · exact this.1
      · exact this.2
    | uni i =>
      simp only [Atom.ok, decide_eq_true_eq] at h
      exact List.all_eq_true.mp uni_pipe i (List.mem_range.mpr h)
  simp only [atomPipe, Bool.or_eq_true, beq_iff_eq] at hf
  rcases hf with hf | hf
  · exact pipeSafe_of_noPipe _ hf
  · rw [hf]; exact pipeSafe_esc

theorem atoms_pipe : ∀ (as : List Atom), as.all Atom.ok = true → pipeSafe (atomsSrc as)
  | [], _ => pipeSafe_nil
  | a :: r, h => by
    simp only [List.all_cons, Bool.and_eq_true] at h
    simp only [atomsSrc, List.flatMap_cons]
    exact pipeSafe_append _ _ (atom_pipe a h.1) (atoms_pipe r h.2)

def pipeFree (b : UInt8) : Bool := b != 0x7C

theorem urlChar_pipe : ∀ c : UInt8, (urlChar c || c == 0x20) = true → pipeFree c = true :=
  forall_uint8_of_fin (by decide +kernel)
theorem titleChar_pipe : ∀ c : UInt8, titleChar c = true → pipeFree c = true :=
  forall_uint8_of_fin (by decide +kernel)
theorem alnum_pipe : ∀ c : UInt8, isAsciiAlnum c = true → pipeFree c = true :=
  forall_uint8_of_fin (by decide +kernel)

theorem noPipe_of_all (s : Bytes) (q : UInt8 → Bool) (hq : ∀ c, q c = true → pipeFree c = true) (h : s.all q = true) :
    noPipe s = true := by
  simp only [noPipe, List.all_eq_true] at h ⊢
  exact fun b hb => hq b (h b hb)

theorem dest_pipe (url : Bytes) (angle : Bool) (h : destOk url angle = true) : noPipe (destSrc url angle) = true := by
  have hu : noPipe url = true := by
    cases angle
    · simp only [destOk, Bool.false_eq_true, if_false, Bool.and_eq_true] at h
      exact noPipe_of_all url urlChar (fun c hc => urlChar_pipe c (by simp [hc])) h.2
    · simp only [destOk, if_true] at h
      exact noPipe_of_all url _ urlChar_pipe h
  cases angle
  · simpa [destSrc] using hu
  · simp only [destSrc, if_true, noPipe_append, hu, Bool.and_true, Bool.true_and]; rfl

theorem title_pipe (t : Bytes) (h : titleOk t = true) : noPipe (titleSrc t) = true := by
  simp only [titleOk, Bool.and_eq_true] at h
  have ht := noPipe_of_all t titleChar titleChar_pipe h.1.1
  unfold titleSrc
  split
  · rfl
  · simp only [noPipe_append, ht, Bool.and_true, Bool.true_and]; rfl

theorem scheme_pipe : schemeTable.all noPipe = true := by decide +kernel

/-! ### Inline content of a cell -/

theorem wrap_pipe (u t : Bytes) (cs : Inls) (hu : noPipe u = true) (ht : noPipe t = true) (hc : pipeSafe cs.src) :
    pipeSafe (u ++ cs.src ++ t) :=
  pipeSafe_append _ _ (pipeSafe_append _ _ (pipeSafe_of_noPipe u hu) hc) (pipeSafe_of_noPipe t ht)

mutual
theorem inl_pipe : ∀ (i : Inl) (a b br : Bool) (p n : UInt8) (f l : Bool) (pc : Nat) (ib : Bool),
    i.wf a b br p n f l pc = true → i.cellOk ib = true → pipeSafe i.src
  | .text as, _, _, _, _, _, _, _, _, _, h, _ => by
    simp only [Inl.wf, Bool.and_eq_true] at h
    exact atoms_pipe as h.1.1.2
  | .code k s, _, _, _, _, _, _, _, _, _, _, hc => by
    simp only [Inl.cellOk, Bool.not_eq_true'] at hc
    have hs : noPipe s = true := by
      simp only [noPipe, List.all_eq_true, bne_iff_ne, ne_eq]
      intro b hb e
      subst e
      simp [List.contains_iff_mem, hb] at hc
    refine pipeSafe_of_noPipe _ ?_
    have hr : noPipe (rep k 0x60) = true := by simp [noPipe, rep, List.all_replicate]
    simp only [Inl.src, noPipe_append, hr, hs, Bool.and_self]
  | .emph us cs, a, b, br, _, _, _, _, _, ib, h, hc => by
    simp only [Inl.wf, Bool.and_eq_true] at h
    have e : (Inl.emph us cs).src = [if us then 0x5F else 0x2A] ++ cs.src ++ [if us then 0x5F else 0x2A] := by simp [Inl.src]
    rw [e]
    exact wrap_pipe _ _ cs (by cases us <;> rfl) (by cases us <;> rfl) (inls_pipe cs a b br _ _ true 0 ib h.2 (by simpa [Inl.cellOk] using hc))
  | .strong us cs, a, b, br, _, _, _, _, _, ib, h, hc => by
    simp only [Inl.wf, Bool.and_eq_true] at h
    have e : (Inl.strong us cs).src = [if us then 0x5F else 0x2A, if us then 0x5F else 0x2A] ++ cs.src ++
        [if us then 0x5F else 0x2A, if us then 0x5F else 0x2A] := by simp [Inl.src]
    rw [e]
    exact wrap_pipe _ _ cs (by cases us <;> rfl) (by cases us <;> rfl) (inls_pipe cs a b br _ _ true 0 ib h.2 (by simpa [Inl.cellOk] using hc))
  | .strike cs, a, b, br, _, _, _, _, _, ib, h, hc => by
    simp only [Inl.wf, Bool.and_eq_true] at h
    have e : (Inl.strike cs).src = [0x7E, 0x7E] ++ cs.src ++ [0x7E, 0x7E] := by simp [Inl.src]
    rw [e]
    exact wrap_pipe _ _ cs rfl rfl (inls_pipe cs a b br _ _ true 0 ib h.2 (by simpa [Inl.cellOk] using hc))
  | .link url title angle .inline cs, a, b, br, _, _, _, _, _, ib, h, hc => by
    simp only [Inl.wf, Bool.and_eq_true] at h
    obtain ⟨⟨⟨_, hdest⟩, htitle⟩, hcs⟩ := h
    have e : (Inl.link url title angle .inline cs).src = [0x5B] ++ cs.src ++ ([0x5D, 0x28] ++ destSrc url angle ++ titleSrc title ++ [0x29]) := by
      simp [Inl.src]
    rw [e]
    refine wrap_pipe _ _ cs rfl ?_ (inls_pipe cs true true br _ _ true 0 true hcs (by simpa [Inl.cellOk] using hc))
    simp only [noPipe_append, dest_pipe url angle hdest, title_pipe title htitle, Bool.and_true, Bool.true_and]; rfl
  | .link url title angle (.ref label dl bf) cs, a, b, br, _, _, _, _, _, ib, h, hc => by
    simp only [Inl.wf, Bool.and_eq_true] at h
    have hl1 := h.1.1.1.1.1.1.1.1
    have hcs := h.2
    have e : (Inl.link url title angle (.ref label dl bf) cs).src = [0x5B] ++ cs.src ++ ([0x5D, 0x5B] ++ label ++ [0x5D]) := by
      simp [Inl.src]
    rw [e]
    refine wrap_pipe _ _ cs rfl ?_ (inls_pipe cs true true br _ _ true 0 true hcs (by simpa [Inl.cellOk] using hc))
    simp only [labelOk, Bool.and_eq_true] at hl1
    simp only [noPipe_append, noPipe_of_all label _ alnum_pipe hl1.2, Bool.and_true, Bool.true_and]; rfl
  | .image url title angle cs, a, b, br, _, _, _, _, _, ib, h, hc => by
    simp only [Inl.wf, Bool.and_eq_true] at h
    obtain ⟨⟨⟨_, hdest⟩, htitle⟩, hcs⟩ := h
    have e : (Inl.image url title angle cs).src = [0x21, 0x5B] ++ cs.src ++ ([0x5D, 0x28] ++ destSrc url angle ++ titleSrc title ++ [0x29]) := by
      simp [Inl.src]
    rw [e]
    refine wrap_pipe _ _ cs rfl ?_ (inls_pipe cs a true br _ _ true 0 true hcs (by simpa [Inl.cellOk] using hc))
    simp only [noPipe_append, dest_pipe url angle hdest, title_pipe title htitle, Bool.and_true, Bool.true_and]; rfl
  | .autolink sc r, _, _, _, _, _, _, _, _, _, h, _ => by
    simp only [Inl.wf, Bool.and_eq_true, decide_eq_true_eq] at h
    have hs : noPipe (schemeTable.getD sc []) = true := by
      have := List.all_eq_true.mp scheme_pipe (schemeTable.getD sc []) (by
        rw [List.getD_eq_getElem?_getD, List.getElem?_eq_getElem h.1.2]; simp)
      exact this
    have hr := noPipe_of_all r urlChar (fun c hc => urlChar_pipe c (by simp [hc])) h.2
    refine pipeSafe_of_noPipe _ ?_
    simp only [Inl.src, autolinkUrl, noPipe_append, hs, hr, Bool.and_true, Bool.true_and]; rfl
  | .hard true, _, _, _, _, _, _, _, _, _, _, _ => pipeSafe_of_noPipe _ rfl
  | .hard false, _, _, _, _, _, _, _, _, _, _, _ => pipeSafe_of_noPipe _ rfl
  | .soft, _, _, _, _, _, _, _, _, _, _, _ => pipeSafe_of_noPipe _ rfl
  | .fnref name rn ix, _, _, _, _, _, _, _, _, _, h, _ => by
    simp only [Inl.wf, Bool.and_eq_true] at h
    have hn := h.1.1.1.1.1.1.2
    simp only [fnNameOk, Bool.and_eq_true] at hn
    refine pipeSafe_of_noPipe _ ?_
    simp only [Inl.src, noPipe_append, noPipe_of_all name _ alnum_pipe hn.2, Bool.and_true, Bool.true_and]; rfl
theorem inls_pipe : ∀ (is : Inls) (a b br : Bool) (p af : UInt8) (f : Bool) (pc : Nat) (ib : Bool),
    is.wf a b br p af f pc = true → is.cellOk ib = true → pipeSafe is.src
  | .nil, _, _, _, _, _, _, _, _, _, _ => pipeSafe_nil
  | .cons i r, a, b, br, p, af, f, pc, ib, h, hc => by
    simp only [Inls.wf, Bool.and_eq_true] at h
    simp only [Inls.cellOk, Bool.and_eq_true] at hc
    exact pipeSafe_append _ _ (inl_pipe i a b br p _ f _ pc ib h.1.2 hc.1) (inls_pipe r a b br _ af false _ ib h.2 hc.2)
end

/-- A well-formed cell has the local facts the position proof uses. -/
theorem cellPh_of_wf (c : Inls) (h : cellWf c = true) : cellPh c = true := by
  simp only [cellWf, Bool.and_eq_true] at h
  have F := inls_facts c false false false 0x20 0x20 true 0 h.1
  have hp := inls_pipe c false false false 0x20 0x20 true 0 false h.1 h.2
  have hs : pipeSafe ([0x20] ++ c.src ++ [0x20]) :=
    pipeSafe_append _ _ (pipeSafe_append _ _ (pipeSafe_of_noPipe _ rfl) hp) (pipeSafe_of_noPipe _ rfl)
  simp only [cellPh, Bool.and_eq_true, Bool.not_eq_true']
  exact ⟨⟨F.ph, F.nl rfl⟩, hs 0⟩

end Comrak.Canon
