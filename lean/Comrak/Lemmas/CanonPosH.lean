/-
Positions of canonical documents, layer H: tables (rows and cells lie on one line each).
-/
import Comrak.Lemmas.CanonPosF
namespace Comrak.Canon
open Comrak Bytes

section tables
variable (G : List Bytes)

local notation "LT" => lineEnts (joinLines G)
local notation "SRC" => joinLines G

/-! ### Trees without positions claim nothing -/

mutual
theorem inl_zero (anc : Option Sp) : ∀ i : Inl, claimCheckT LT anc i.toTree = none ∧ sliceCheckT LT SRC i.toTree = none
  | .text as => ⟨claim_skip _ _ _ _ _ (by simp) rfl, slice_node_zero _ _ _ _ rfl⟩
  | .code n s => ⟨claim_skip _ _ _ _ _ (by simp) rfl, slice_node_zero _ _ _ _ rfl⟩
  | .emph _ cs => ⟨claim_skip _ _ _ _ _ (by simp) (inls_zero anc none cs).1, slice_node_zero _ _ _ _ (inls_zero anc none cs).2⟩
  | .strong _ cs => ⟨claim_skip _ _ _ _ _ (by simp) (inls_zero anc none cs).1, slice_node_zero _ _ _ _ (inls_zero anc none cs).2⟩
  | .strike cs => ⟨claim_skip _ _ _ _ _ (by simp) (inls_zero anc none cs).1, slice_node_zero _ _ _ _ (inls_zero anc none cs).2⟩
  | .link _ _ _ _ cs => ⟨claim_skip _ _ _ _ _ (by simp) (inls_zero anc none cs).1, slice_node_zero _ _ _ _ (inls_zero anc none cs).2⟩
  | .image _ _ _ cs => ⟨claim_skip _ _ _ _ _ (by simp) (inls_zero anc none cs).1, slice_node_zero _ _ _ _ (inls_zero anc none cs).2⟩
  | .autolink s r =>
    ⟨claim_skip _ _ _ _ _ (by simp)
        (claimF_cons_skip _ _ _ _ none (by simp [leaf, Tree.sp]) (claim_skip _ _ _ _ _ (by simp) rfl) rfl),
      slice_node_zero _ _ _ _ (sliceF_cons _ _ _ _ (slice_node_zero _ _ _ _ rfl) rfl)⟩
  | .hard _ => ⟨claim_skip _ _ _ _ _ (by simp) rfl, slice_node_zero _ _ _ _ rfl⟩
  | .soft => ⟨claim_skip _ _ _ _ _ (by simp) rfl, slice_node_zero _ _ _ _ rfl⟩
  | .fnref .. => ⟨claim_skip _ _ _ _ _ (by simp) rfl, slice_node_zero _ _ _ _ rfl⟩
theorem inls_zero (anc prev : Option Sp) : ∀ is : Inls,
    claimCheckF LT anc prev is.toForest = none ∧ sliceCheckF LT SRC is.toForest = none
  | .nil => ⟨rfl, rfl⟩
  | .cons i r => by
    have h1 := inl_zero anc i
    have h2 := inls_zero anc prev r
    have hsp : i.toTree.sp = {} := by cases i <;> rfl
    exact ⟨claimF_cons_skip _ _ _ _ prev (by rw [hsp]; simp) h1.1 h2.1, sliceF_cons _ _ _ _ h1.2 h2.2⟩
end

/-! ### Cells -/

/-- A cell with its padding and the pipe that closes it. -/
def cellSrc (c : Bytes) : Bytes := [0x20] ++ c ++ [0x20, 0x7C]

theorem rowSrc_eq (cells : List Bytes) : rowSrc cells = [0x7C] ++ cells.flatMap cellSrc := rfl

theorem cells_good (hG : cleanG G = true) (l : Nat) (h1 : 1 ≤ l) (h2 : l ≤ G.length) (A : Sp) :
    ∀ (cells : List Inls) (c : Nat) (Pre : Bytes) (prev : Option Sp), cells.all cellPh = true →
    nth G (l - 1) = Pre ++ (cells.map Inls.src).flatMap cellSrc → Pre.length + 1 = c →
    posLe A.sl A.sc l c = true → A.el = l → c + ((cells.map Inls.src).flatMap cellSrc).length ≤ A.ec + 1 →
    (∀ Q, prev = some Q → posLt Q.el Q.ec l c = true) →
    claimCheckF LT (some A) prev (cellsP l c cells) = none ∧ sliceCheckF LT SRC (cellsP l c cells) = none
  | [], _, _, _, _, _, _, _, _, _, _ => ⟨rfl, rfl⟩
  | x :: r, c, Pre, prev, hph, hg, hc, hn1, hel, hn2, hp => by
    simp only [List.all_cons, Bool.and_eq_true] at hph
    obtain ⟨hx, hr⟩ := hph
    simp only [cellPh, Bool.and_eq_true, Bool.not_eq_true'] at hx
    obtain ⟨⟨hxph, hxnl⟩, hpipe⟩ := hx
    simp only [List.map_cons, List.flatMap_cons, cellSrc] at hg hn2
    let S : Sp := { sl := l, sc := c, el := l, ec := c + x.src.length + 1 }
    have hline : nth G (l - 1) = Pre ++ ([0x20] ++ x.src ++ [0x20]) ++ (0x7C :: ((r.map Inls.src).flatMap cellSrc)) := by
      rw [hg]; simp [cellSrc]
    have hsl : sliceLT LT SRC S = some ([0x20] ++ x.src ++ [0x20]) :=
      slice_line G hG l h1 h2 Pre _ _ hline S rfl rfl (by simp [S]; omega) (by simp [S]; omega)
    have hval : Valid G S := by
      refine ⟨h1, Nat.le_refl _, h2, by simp [S]; omega, ?_, Or.inl ⟨by simp [S], ?_⟩, Or.inr ⟨rfl, Or.inl (by simp [S]; omega)⟩⟩
      · simp only [S, lenAt, hline, List.length_append, List.length_cons]; omega
      · simp only [S, lenAt, hline, List.length_append, List.length_cons, List.length_nil]; omega
    have hnest : spNested A S = true := by
      simp only [spNested, Bool.and_eq_true]
      refine ⟨hn1, ?_⟩
      simp only [posLe, S, hel, Bool.or_eq_true, Bool.and_eq_true, decide_eq_true_eq]
      simp only [List.length_append, List.length_cons, List.length_nil] at hn2
      right; exact ⟨trivial, by omega⟩
    -- the inline content
    have hkids : claimCheckF LT (some S) none (if x.src.contains 0x7C then x.toForest else x.toForestP 0 (l, c + 1)) = none ∧
        sliceCheckF LT SRC (if x.src.contains 0x7C then x.toForest else x.toForestP 0 (l, c + 1)) = none := by
      split
      · exact inls_zero G (some S) none x
      · have hreg : Reg G 0 (l, c + 1) x.src := by
          have := reg_of_line (G := G) (c0 := 0) l h1 h2 x.src (Pre ++ [0x20]) ([0x20] ++ 0x7C :: ((r.map Inls.src).flatMap cellSrc))
            (by rw [hline]; simp) hxnl
          have e : (Pre ++ [0x20]).length + 1 = c + 1 := by simp; omega
          rw [e] at this
          exact this
        refine kids_good G hG x 0 _ S hreg hxph (by simp [S, posLe]) (fun hne => ?_)
        have hd : nlFree x.src.dropLast = true := by
          obtain ⟨b, hb⟩ := dropLast_append_last _ hne
          rw [hb, nlFree_append] at hxnl
          exact (Bool.and_eq_true _ _ ▸ hxnl).1
        have hpos := List.length_pos_iff.mpr hne
        rw [adv_nlFree 0 _ _ hd]
        simp only [S, posLe, List.length_dropLast, Bool.or_eq_true, Bool.and_eq_true, decide_eq_true_eq]
        right; exact ⟨trivial, by omega⟩
    have hnode : claimCheckT LT (some A) (.node .tableCell S (if x.src.contains 0x7C then x.toForest else x.toForestP 0 (l, c + 1))) = none ∧
        sliceCheckT LT SRC (.node .tableCell S (if x.src.contains 0x7C then x.toForest else x.toForestP 0 (l, c + 1))) = none :=
      ⟨claim_node _ _ _ _ A rfl (by simp [S]; omega) (range_of_valid G hG _ hval) hnest hkids.1,
        slice_node _ _ _ _ _ (fun s h => by
          rw [hsl] at h
          cases h
          exact ⟨by simp only [sliceFail, hpipe]; rfl, rfl⟩) hkids.2⟩
    -- the other cells
    have hrest := cells_good hG l h1 h2 A r (c + x.src.length + 3) (Pre ++ ([0x20] ++ x.src ++ [0x20, 0x7C])) (some S) hr
      (by rw [hg]; simp) (by simp; omega)
      (by
        simp only [posLe, Bool.or_eq_true, Bool.and_eq_true, decide_eq_true_eq] at hn1 ⊢
        omega)
      hel (by simp only [List.length_append, List.length_cons, List.length_nil] at hn2; omega)
      (fun Q hQ => by
        cases hQ
        simp only [posLt, S, Bool.or_eq_true, Bool.and_eq_true, decide_eq_true_eq]
        right; exact ⟨trivial, by omega⟩)
    simp only [cellsP]
    refine ⟨claimF_cons _ _ _ _ prev (by simp [Tree.value, Tree.sp, NodeValue.kind, Kind.spInOrder, Kind.spReliable]; omega) ?_ hnode.1 hrest.1,
      sliceF_cons _ _ _ _ hnode.2 hrest.2⟩
    intro Q hQ
    simp only [spOrdered, Tree.sp]
    exact hp Q hQ

/-- One row: the line `rowSrc ..` written from column `c` on. -/
theorem row_good (hG : cleanG G = true) (hd : Bool) (cells : List Inls) (l c : Nat) (A : Sp)
    (hE : Emb G c l c [rowSrc (cells.map Inls.src)]) (hph : cells.all cellPh = true)
    (hn1 : posLe A.sl A.sc l c = true)
    (hn2 : posLe l (c - 1 + (rowSrc (cells.map Inls.src)).length) A.el A.ec = true) :
    GoodT G (some A) (.node (.tableRow hd) (spanLines l c [rowSrc (cells.map Inls.src)]) (cellsP l (c + 1) cells)) := by
  have hx : rowSrc (cells.map Inls.src) ≠ [] := by simp [rowSrc]
  obtain ⟨g1, g2, P, hP, hPl⟩ := hE.1 hx
  refine lines_node G hG _ _ _ l c A hE (by simp) (by simpa [nth] using hx) (by simpa using hx) rfl hn1
    (by simpa [endOf] using hn2) (fun _ _ _ => rfl) (fun _ => rfl) ?_
  refine cells_good G hG l g1 g2 _ cells (c + 1) (P ++ [0x7C]) none hph (by rw [hP, rowSrc_eq]; simp) (by simp; omega)
    (by simp [spanLines, posLe]) (by simp [spanLines]) ?_ (fun Q h => by cases h)
  simp only [spanLines, List.getLastD_cons, List.getLastD_nil, rowSrc_eq, List.length_append, List.length_singleton]
  omega

theorem posLe_of_line_lt {l y l' c' e f : Nat} (h : posLe l' c' e f = true) (hl : l < l') : posLe l y e f = true := by
  simp only [posLe, Bool.or_eq_true, Bool.and_eq_true, decide_eq_true_eq] at h ⊢
  omega

theorem endOf_same (l c : Nat) (ls : List Bytes) : endOf l c c ls = (l + ls.length - 1, c - 1 + (ls.getLastD []).length) := by
  simp only [endOf]
  split <;> rfl

theorem rows_good (hG : cleanG G = true) (A : Sp) (c : Nat) : ∀ (rows : List (List Inls)) (l : Nat) (prev : Option Sp),
    Emb G c l c (rows.map fun r => rowSrc (r.map Inls.src)) → (rows.all fun r => r.all cellPh) = true →
    posLe A.sl A.sc l c = true →
    (rows ≠ [] → posLe (endOf l c c (rows.map fun r => rowSrc (r.map Inls.src))).1
      (endOf l c c (rows.map fun r => rowSrc (r.map Inls.src))).2 A.el A.ec = true) →
    (∀ Q, prev = some Q → Q.el < l) →
    claimCheckF LT (some A) prev (rowsP c l rows) = none ∧ sliceCheckF LT SRC (rowsP c l rows) = none
  | [], _, _, _, _, _, _, _ => ⟨rfl, rfl⟩
  | r :: rs, l, prev, hE, hph, hn1, hend, hp => by
    simp only [List.all_cons, Bool.and_eq_true] at hph
    simp only [List.map_cons] at hE hend
    have hx : rowSrc (r.map Inls.src) ≠ [] := by simp [rowSrc]
    obtain ⟨g1, g2, P, hP, hPl⟩ := hE.1 hx
    have hend0 := hend (by simp)
    rw [endOf_same] at hend0
    have hrow : GoodT G (some A) (.node (.tableRow false) (spanLines l c [rowSrc (r.map Inls.src)]) (cellsP l (c + 1) r)) := by
      refine row_good G hG false r l c A ⟨hE.1, trivial⟩ hph.1 hn1 ?_
      cases rs with
      | nil => simpa using hend0
      | cons r2 rs2 =>
        refine posLe_of_line_lt hend0 ?_
        simp
    have hrest := rows_good hG A c rs (l + 1) (some (spanLines l c [rowSrc (r.map Inls.src)])) hE.2 hph.2
      (by simp only [posLe, Bool.or_eq_true, Bool.and_eq_true, decide_eq_true_eq] at hn1 ⊢; omega)
      (fun hne => by
        rw [endOf_same]
        cases rs with
        | nil => exact absurd rfl hne
        | cons r2 rs2 =>
          have e1 : l + 1 + ((r2 :: rs2).map fun r => rowSrc (r.map Inls.src)).length - 1 =
              l + (rowSrc (r.map Inls.src) :: (r2 :: rs2).map fun r => rowSrc (r.map Inls.src)).length - 1 := by simp; omega
          have e2 : (rowSrc (r.map Inls.src) :: (r2 :: rs2).map fun r => rowSrc (r.map Inls.src)).getLastD [] =
              ((r2 :: rs2).map fun r => rowSrc (r.map Inls.src)).getLastD [] := by simp
          rw [e1, ← e2]
          exact hend0)
      (fun Q hQ => by cases hQ; simp [spanLines])
    simp only [rowsP]
    refine ⟨claimF_cons _ _ _ _ prev (by simp [Tree.value, Tree.sp, NodeValue.kind, Kind.spInOrder, Kind.spReliable, spanLines]; omega)
      ?_ hrow.1 hrest.1, sliceF_cons _ _ _ _ hrow.2 hrest.2⟩
    intro Q hQ
    have := hp Q hQ
    simp only [spOrdered, posLt, Tree.sp, spanLines, Bool.or_eq_true, Bool.and_eq_true, decide_eq_true_eq]
    left; exact decide_eq_true this

theorem blk_table_pos (hG : cleanG G = true) (al : List Align) (h : List Inls) (rows : List (List Inls)) :
    BlkGood G (.table al h rows) := fun l c0 c1 A hE hph _ _ hc hn1 hn2 => by
  have e := hc rfl
  subst e
  have hl := Blk.last_ne_nil (.table al h rows) hph
  have hne := Blk.lines_ne_nil (.table al h rows) hph
  simp only [Blk.ph, Bool.and_eq_true] at hph
  have hx : rowSrc (h.map Inls.src) ≠ [] := by simp [rowSrc]
  have hf : nth (Blk.table al h rows).lines 0 ≠ [] := by simpa [Blk.lines, nth] using hx
  simp only [Blk.toTreeP]
  refine lines_node G hG _ _ _ l c1 A hE hne hf hl rfl hn1 hn2 (fun _ _ _ => rfl) (fun _ => rfl) ?_
  -- header row, then the body rows
  have hE' : Emb G c1 l c1 ([rowSrc (h.map Inls.src), rowSrc (al.map alignSrc)] ++ rows.map fun r => rowSrc (r.map Inls.src)) := by
    simpa [Blk.lines] using hE
  obtain ⟨hE1, hE2⟩ := emb_append _ _ l c1 hE'
  simp only [List.length_cons, List.length_nil, List.isEmpty_cons, Bool.false_eq_true, if_false] at hE2
  obtain ⟨g1, g2, P, hP, hPl⟩ := hE1.1 hx
  have hT : endOf l c1 c1 (Blk.table al h rows).lines =
      ((spanLines l c1 (Blk.table al h rows).lines).el, (spanLines l c1 (Blk.table al h rows).lines).ec) := by
    rw [endOf_same]; rfl
  have hlen : (Blk.table al h rows).lines.length = rows.length + 2 := by simp [Blk.lines]
  have hhead : GoodT G (some (spanLines l c1 (Blk.table al h rows).lines))
      (.node (.tableRow true) (spanLines l c1 [rowSrc (h.map Inls.src)]) (cellsP l (c1 + 1) h)) := by
    refine row_good G hG true h l c1 _ ⟨hE1.1, trivial⟩ hph.1 (by simp [spanLines, posLe]) ?_
    simp only [spanLines, posLe, hlen, Bool.or_eq_true, Bool.and_eq_true, decide_eq_true_eq]
    left; omega
  have hrows := rows_good G hG (spanLines l c1 (Blk.table al h rows).lines) c1 rows (l + 2)
    (some (spanLines l c1 [rowSrc (h.map Inls.src)])) hE2 hph.2
    (by simp [spanLines, posLe])
    (fun hr0 => by
      rw [endOf_same]
      have e1 : l + 2 + (rows.map fun r => rowSrc (r.map Inls.src)).length - 1 = (spanLines l c1 (Blk.table al h rows).lines).el := by
        simp only [spanLines, hlen, List.length_map]; omega
      have e2 : (rows.map fun r => rowSrc (r.map Inls.src)).getLastD [] = (Blk.table al h rows).lines.getLastD [] := by
        simp only [Blk.lines]
        rw [getLastD_append_ne _ _ (by simpa using hr0)]
      rw [e1, e2]
      exact posLe_refl _ _)
    (fun Q hQ => by cases hQ; simp [spanLines])
  refine ⟨claimF_cons _ _ _ _ none (by simp [Tree.value, Tree.sp, NodeValue.kind, Kind.spInOrder, Kind.spReliable, spanLines]; omega)
    (fun Q hQ => by cases hQ) hhead.1 hrows.1, sliceF_cons _ _ _ _ hhead.2 hrows.2⟩

end tables

end Comrak.Canon
