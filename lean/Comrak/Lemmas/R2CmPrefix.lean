/-
C20 helper lemmas, CommonMark half: once some bytes are in the output buffer and the recorded
break position is not inside them, nothing the writer does afterwards (pending newlines, line
prefixes, escapes, the re-wrap at the last breakable space) touches them.  The buffer `rv` is
reversed, so "the output starts with `b.reverse`" is "`b` is a suffix of `rv`".
-/
import Comrak.Cm
namespace Comrak.Cm
open Comrak Bytes

/-- `b` is still at the start of the output and the break position is not inside it. -/
def KK (b rv : Bytes) (lb : Nat) : Prop := b <:+ rv ∧ (lb = 0 ∨ b.length ≤ lb)

/-- The invariant on writer states (depends on `rv` and `lastBreakable` only, so record updates
    of other fields keep it by definitional unfolding). -/
abbrev K (b : Bytes) (st : St) : Prop := KK b st.rv st.lastBreakable

theorem suf_cons {b rv : Bytes} (c : UInt8) (h : b <:+ rv) : b <:+ c :: rv :=
  h.trans (List.suffix_cons c rv)
theorem suf_app {b rv : Bytes} (x : Bytes) (h : b <:+ rv) : b <:+ x ++ rv :=
  h.trans (List.suffix_append x rv)

theorem suf_drop {b rv : Bytes} (lb : Nat) (h : b <:+ rv) (hl : b.length ≤ lb) :
    b <:+ rv.drop (rv.length - lb) := by
  obtain ⟨t, rfl⟩ := h
  have hle : (t ++ b).length - lb ≤ t.length := by simp only [List.length_append]; omega
  rw [List.drop_append_of_le_length hle]
  exact List.suffix_append _ _

theorem K_fmEnd {b : Bytes} {st : St} (fm : Bytes) (h : K b st) : K b (fmEnd fm st) := by
  unfold fmEnd; split
  · exact ⟨h.1, Or.inl rfl⟩
  · exact h

theorem fmEnd_rv (fm : Bytes) (st : St) : (fmEnd fm st).rv = st.rv := by
  unfold fmEnd; split <;> rfl

theorem K_cr {b : Bytes} {st : St} (h : K b st) : K b st.cr := h
theorem K_blankline {b : Bytes} {st : St} (h : K b st) : K b st.blankline := h

theorem crLoop_suf (b rv0 pfx : Bytes) : ∀ (n j : Nat) (rv : Bytes), b <:+ rv → b <:+ crLoop rv0 pfx n j rv
  | 0, _, _, h => h
  | n + 1, j, rv, h => by
    simp only [crLoop]
    split
    · exact crLoop_suf b rv0 pfx n (j + 1) rv h
    · split
      · exact crLoop_suf b rv0 pfx n (j + 1) rv h
      · exact crLoop_suf b rv0 pfx n j _ (suf_app _ (suf_cons _ h))

theorem K_crFlush {b : Bytes} {st : St} (h : K b st) : K b (crFlush st) := by
  unfold crFlush
  simp only []
  (repeat' split) <;> first | exact h | exact ⟨crLoop_suf b _ _ _ _ _ h.1, Or.inl rfl⟩

theorem K_pre {b : Bytes} {st : St} (ep : Bool) (c : UInt8) (h : K b st) : K b (pre ep st c) := by
  unfold pre
  simp only []
  (repeat' split) <;> first
    | exact h
    | exact ⟨suf_cons _ (suf_app _ h.1), h.2⟩
    | exact ⟨suf_app _ h.1, h.2⟩
    | exact ⟨suf_cons _ h.1, h.2⟩

theorem K_litByte {b : Bytes} {st : St} (c : UInt8) (h : K b st) : K b (litByte st c) := by
  unfold litByte
  split
  · exact ⟨suf_cons _ h.1, Or.inl rfl⟩
  · exact ⟨suf_cons _ h.1, h.2⟩

theorem K_wrapCheck {b : Bytes} {st : St} (o : CmOpts) (h : K b st) : K b (wrapCheck o st) := by
  unfold wrapCheck
  split
  · rename_i hc
    simp only [Bool.and_eq_true, decide_eq_true_eq] at hc
    have hl : b.length ≤ st.lastBreakable := by
      rcases h.2 with h0 | h1
      · omega
      · exact h1
    refine ⟨?_, Or.inl rfl⟩
    simp only []
    rw [List.append_assoc]
    exact suf_app _ (suf_app _ (suf_cons _ (suf_drop _ h.1 hl)))
  · exact h

theorem K_outLitLoop {b : Bytes} (o : CmOpts) (ep : Bool) :
    ∀ (bs : Bytes) (st : St), K b st → K b (outLitLoop o ep st bs)
  | [], _, h => h
  | c :: r, st, h => by
    simp only [outLitLoop]
    exact K_outLitLoop o ep r _ (K_wrapCheck o (K_litByte c (K_pre ep c h)))

theorem K_outc {b : Bytes} {st : St} (o : CmOpts) (ep : Bool) (c : UInt8) (esc : Esc) (nx : Option UInt8)
    (h : K b st) : K b (outc o ep st c esc nx) := by
  unfold outc
  simp only []
  (repeat' split) <;> first
    | exact ⟨suf_app _ h.1, h.2⟩
    | exact ⟨suf_cons _ (suf_cons _ h.1), h.2⟩
    | exact ⟨suf_cons _ h.1, h.2⟩
    | exact K_outLitLoop o ep _ st h

theorem K_outLoop {b : Bytes} (o : CmOpts) (ep wrap : Bool) (esc : Esc) :
    ∀ (f : Nat) (st : St) (buf : Bytes), K b st → K b (outLoop o ep wrap esc f st buf)
  | 0, _, _, h => by simpa [outLoop] using h
  | f + 1, st, [], h => by simpa [outLoop] using h
  | f + 1, st, c :: r, h => by
    have h1 := K_pre ep c h
    simp only [outLoop]
    split
    · split
      · apply K_outLoop o ep wrap esc f
        apply K_wrapCheck
        have hs : b <:+ 0x20 :: (pre ep st c).rv := suf_cons _ h1.1
        (repeat' split) <;> first
          | exact ⟨hs, h1.2⟩
          | exact ⟨hs, Or.inr h1.1.length_le⟩
      · exact K_outLoop o ep wrap esc f _ _ (K_wrapCheck o h1)
    · split
      · exact K_outLoop o ep wrap esc f _ _ (K_wrapCheck o (K_litByte c h1))
      · apply K_outLoop o ep wrap esc f
        apply K_wrapCheck
        exact K_outc o ep c esc r.head? h1

theorem K_output {b : Bytes} {st : St} (o : CmOpts) (ep : Bool) (buf : Bytes) (wrap : Bool) (esc : Esc)
    (h : K b st) : K b (output o ep st buf wrap esc) := by
  unfold output
  exact K_outLoop o ep _ esc _ _ _ (K_crFlush h)

theorem K_wr {b : Bytes} {st : St} (o : CmOpts) (ep : Bool) (bs : Bytes) (h : K b st) : K b (wr o ep bs st) := by
  unfold wr
  split
  · exact h
  · exact K_output o ep bs false .literal h

theorem K_truncPrefix {b : Bytes} {st : St} (n : Nat) (h : K b st) : K b (truncPrefix st n) := by
  unfold truncPrefix
  split <;> exact h

theorem K_fmtItem {b : Bytes} {st : St} (o : CmOpts) (ep : Bool) (pl : NList) (own : Nat) (e : Bool)
    (h : K b st) : K b (fmtItem o ep pl own e st) := by
  have h0 : K b (if pl.ty == .ordered && e then
      (match st.olStack with | n :: r => { st with olStack := (n + 1) :: r } | [] => st) else st) := by
    split
    · split <;> exact h
    · exact h
  unfold fmtItem
  simp only []
  split
  · split
    · exact K_wr o ep _ h0
    · exact K_wr o ep _ h0
  · exact h0

theorem K_foldl {b : Bytes} (o : CmOpts) (ep : Bool) (g : Align → Bytes) :
    ∀ (as : List Align) (st : St), K b st → K b (as.foldl (fun s a => wr o ep (g a) s) st)
  | [], _, h => h
  | a :: r, st, h => by
    simp only [List.foldl_cons]
    exact K_foldl o ep g r _ (K_wr o ep _ h)

/-- One proof step for "this state still satisfies `KK b`": close by hypothesis, peel one writer
    primitive, split a conditional, or reduce projections of a record literal. -/
macro "kstep" : tactic => `(tactic| first
  | with_reducible assumption
  | with_reducible apply K_wr
  | with_reducible apply K_fmEnd
  | with_reducible apply K_output
  | with_reducible apply K_cr
  | with_reducible apply K_blankline
  | with_reducible apply K_truncPrefix
  | with_reducible apply K_fmtItem
  | with_reducible apply K_foldl
  | split
  | dsimp only)

/-- Entering any node (all 41 kinds, every option vector and context) keeps the invariant. -/
theorem K_enter {b : Bytes} (o : CmOpts) (cx : Ctx) (v : NodeValue) (cs : Forest) (st0 : St) (h : K b st0) :
    K b (enter o cx v cs st0).1 := by
  cases v
  all_goals simp only [enter]
  all_goals generalize hst : (if isItemV cx.parent = true then _ else st0) = st1
  all_goals (have h1 : K b st1 := by rw [← hst]; split <;> exact h)
  all_goals clear hst h
  all_goals unfold K
  all_goals (repeat kstep)

/-- Leaving any node keeps the invariant. -/
theorem K_exit {b : Bytes} (o : CmOpts) (cx : Ctx) (v : NodeValue) (st0 : St) (h : K b st0) :
    K b (exit o cx v st0) := by
  cases v
  all_goals simp only [exit]
  all_goals unfold K
  all_goals (repeat kstep)

mutual
theorem K_renderT {b : Bytes} (o : CmOpts) : ∀ (t : Tree) (cx : Ctx) (st : St), K b st → K b (renderT o cx t st)
  | .node v sp cs, cx, st, h => by
    simp only [renderT]
    split
    · exact K_exit o cx v _ (K_renderF o cs _ _ _ _ (K_enter o cx v cs st h))
    · exact K_enter o cx v cs st h
theorem K_renderF {b : Bytes} (o : CmOpts) :
    ∀ (f : Forest) (parent grand : Option NodeValue) (hp : Bool) (st : St), K b st → K b (renderF o parent grand hp f st)
  | .nil, _, _, _, _, h => h
  | .cons t ts, parent, grand, hp, st, h => by
    simp only [renderF]
    exact K_renderF o ts parent grand true _ (K_renderT o t _ st h)
end

/-- What `format_front_matter` leaves in a fresh writer: the payload, byte for byte (for every
    width: nothing is escaped, nothing wraps because no breakable space is ever recorded). -/
theorem outLoop_literal_fresh (o : CmOpts) :
    ∀ (f : Nat) (buf : Bytes) (st : St), buf.length < f → st.prefix_ = [] → st.lastBreakable = 0 →
      (outLoop o false false .literal f st buf).rv = buf.reverse ++ st.rv ∧
      (outLoop o false false .literal f st buf).lastBreakable = 0
  | 0, _, _, hf, _, _ => by omega
  | f + 1, [], st, _, _, hl => by simp [outLoop, hl]
  | f + 1, c :: r, st, hf, hp, hl => by
    have hpre : (pre false st c).rv = st.rv ∧ (pre false st c).prefix_ = [] ∧ (pre false st c).lastBreakable = 0 := by
      unfold pre; cases hb : st.beginLine <;> simp [hp, hl]
    have hlit : (litByte (pre false st c) c).rv = c :: st.rv ∧ (litByte (pre false st c) c).prefix_ = [] ∧
        (litByte (pre false st c) c).lastBreakable = 0 := by
      unfold litByte; split <;> simp_all
    have hw : wrapCheck o (litByte (pre false st c) c) = litByte (pre false st c) c := by
      unfold wrapCheck; simp [hlit.2.2]
    have ih := outLoop_literal_fresh o f r (litByte (pre false st c) c) (by simp at hf; omega) hlit.2.1 hlit.2.2
    simp only [outLoop, Bool.and_false, Bool.false_eq_true, if_false, beq_self_eq_true, if_true, hw]
    simp [ih, hlit.1]

/-- `format_front_matter` on a fresh writer, as a state: the buffer is the payload. -/
theorem output_frontMatter_fresh (o : CmOpts) (fm : Bytes) :
    K fm.reverse (output o false {} fm false .literal) := by
  have hc : crFlush ({} : St) = {} := by decide
  have := outLoop_literal_fresh o (fm.length + 1) fm {} (by omega) rfl rfl
  unfold output
  simp only [hc, Bool.false_and]
  refine ⟨?_, Or.inl this.2⟩
  rw [this.1]
  show fm.reverse <:+ fm.reverse ++ []
  simp

/-- The last step of `format_document`: if the buffer starts (in write order) with `fm`, so does
    the result. -/
def finalBytes (rv : Bytes) : Bytes :=
  match rv with
  | [] => []
  | b :: _ => if b == 0x0A then rv.reverse else (0x0A :: rv).reverse

theorem renderCm_eq_finalBytes (o : CmOpts) (t : Tree) : renderCm o t = finalBytes (renderT o {} t {}).rv := rfl

theorem final_prefix (fm rv : Bytes) (h : fm.reverse <:+ rv) : fm <+: finalBytes rv := by
  unfold finalBytes
  cases rv with
  | nil =>
    have : fm = [] := by simpa using List.suffix_nil.mp h
    simp [this]
  | cons b r =>
    have hp : fm <+: (b :: r).reverse := by
      obtain ⟨t, ht⟩ := h
      rw [← ht]; simp
    simp only []
    split
    · exact hp
    · rw [List.reverse_cons (a := 0x0A)]
      exact hp.trans (List.prefix_append _ _)

/-- **Front matter first.** For every option vector (any width), payload and following
    siblings: the CommonMark rendering of a document whose first child is a front matter node
    starts with the payload, byte for byte. -/
theorem renderCm_frontMatter_prefix (o : CmOpts) (fm : Bytes) (spd sp : Sp) (rest : Forest) :
    fm <+: renderCm o (.node .document spd (.cons (.node (.frontMatter fm) sp .nil) rest)) := by
  rw [renderCm_eq_finalBytes]
  apply final_prefix
  have h0 : K fm.reverse (renderT o (Ctx.mk (some .document) none false
      (match rest with | .cons n _ => some n.value | .nil => none))
      (.node (.frontMatter fm) sp .nil) {}) := by
    simp only [renderT, enter, exit, renderF]
    exact K_fmEnd fm (output_frontMatter_fresh o fm)
  have h1 := K_renderF o rest (some .document) none true _ h0
  simp only [renderT, enter, exit, renderF, isItemV] at h1 ⊢
  exact h1.1

/-- The writer state after a document that consists of the front matter node alone. -/
theorem renderT_doc_fm_nil (o : CmOpts) (fm : Bytes) (spd sp : Sp) :
    renderT o {} (.node .document spd (.cons (.node (.frontMatter fm) sp .nil) .nil)) {}
      = fmEnd fm (output o false {} fm false .literal) := rfl

theorem output_frontMatter_fresh_rv (o : CmOpts) (fm : Bytes) :
    (output o false {} fm false .literal).rv = fm.reverse := by
  have hc : crFlush ({} : St) = {} := by decide
  have := outLoop_literal_fresh o (fm.length + 1) fm {} (by omega) rfl rfl
  unfold output
  simp only [hc, Bool.false_and]
  rw [this.1]
  show fm.reverse ++ [] = _
  simp

end Comrak.Cm
