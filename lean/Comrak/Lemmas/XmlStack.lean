/-
The explicit work-stack traversal writes the tokens of the recursive renderer.
-/
import Comrak.XmlStack
namespace Comrak
open Bytes

theorem xmlLoop_post (o : XmlOpts) (g : Nat) (v : NodeValue) (k : Bool) (st : List XWork) (ind : Nat) :
    xmlLoop o (g + 1) (.post v k :: st) ind =
      if k then .close (ind - 2) (xmlName v) :: xmlLoop o g st (ind - 2) else xmlLoop o g st ind := rfl

theorem xmlLoop_pre (o : XmlOpts) (f : Nat) (v : NodeValue) (sp : Sp) (cs : Forest) (cx : XCtx) (st : List XWork) (ind : Nat) :
    xmlLoop o (f + 1) (.pre (.node v sp cs) cx :: st) ind =
      enterTok o ind cx v sp (!cs.isNil) ::
        xmlLoop o f (childWork (some v) cx.parent 0 cs ++ .post v (!cs.isNil) :: st) (if cs.isNil then ind else ind + 2) := rfl

mutual
theorem xmlLoop_tree (o : XmlOpts) :
    ∀ (t : Tree) (cx : XCtx) (ind : Nat) (st : List XWork) (fuel : Nat), 2 * t.size ≤ fuel →
      xmlLoop o fuel (.pre t cx :: st) ind = renderXmlT o ind cx t ++ xmlLoop o (fuel - 2 * t.size) st ind
  | .node v sp cs, cx, ind, st, fuel, h => by
    simp only [Tree.size] at h
    obtain ⟨f, rfl⟩ : ∃ f, fuel = f + 1 := ⟨fuel - 1, by omega⟩
    have hF := xmlLoop_forest o cs (some v) cx.parent 0 (if cs.isNil then ind else ind + 2)
      (.post v (!cs.isNil) :: st) f (by omega)
    obtain ⟨g, hg⟩ : ∃ g, f - 2 * cs.size = g + 1 := ⟨f - 2 * cs.size - 1, by omega⟩
    have hrest : f + 1 - 2 * (Tree.node v sp cs).size = g := by simp only [Tree.size]; omega
    rw [xmlLoop_pre, hF, hg, xmlLoop_post, hrest]
    cases cs with
    | nil =>
      simp only [Forest.isNil, Bool.not_true, if_true, renderXmlF, List.nil_append, Bool.false_eq_true, if_false,
        renderXmlT, enterTok]
      cases xmlLiteral v <;> simp
    | cons c r =>
      simp only [Forest.isNil, Bool.not_false, if_true, Bool.false_eq_true, if_false, renderXmlT, enterTok,
        Nat.add_sub_cancel]
      cases xmlLiteral v <;> simp
theorem xmlLoop_forest (o : XmlOpts) :
    ∀ (f : Forest) (parent grand : Option NodeValue) (idx ind : Nat) (st : List XWork) (fuel : Nat),
      2 * f.size ≤ fuel →
      xmlLoop o fuel (childWork parent grand idx f ++ st) ind =
        renderXmlF o ind parent grand idx f ++ xmlLoop o (fuel - 2 * f.size) st ind
  | .nil, _, _, _, _, _, _, _ => by simp [childWork, renderXmlF, Forest.size]
  | .cons t ts, parent, grand, idx, ind, st, fuel, h => by
    simp only [Forest.size] at h
    simp only [childWork, List.cons_append, renderXmlF, Forest.size]
    rw [xmlLoop_tree o t _ ind _ fuel (by omega),
      xmlLoop_forest o ts parent grand (idx + 1) ind st (fuel - 2 * t.size) (by omega)]
    have hsub : fuel - 2 * t.size - 2 * ts.size = fuel - 2 * (t.size + ts.size) := by omega
    rw [List.append_assoc, hsub]
end

theorem xmlLoop_zero (o : XmlOpts) (st : List XWork) (ind : Nat) : xmlLoop o 0 st ind = [] := by
  cases st <;> rfl

/-- The work-stack machine and the recursive renderer write the same tokens. -/
theorem renderXmlStack_eq (o : XmlOpts) (t : Tree) : renderXmlStack o t = renderXmlToks o t := by
  unfold renderXmlStack renderXmlToks
  rw [xmlLoop_tree o t {} 0 [] (2 * t.size) (Nat.le_refl _)]
  simp [xmlLoop_zero]

end Comrak
