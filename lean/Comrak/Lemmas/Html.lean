/-
Helper lemmas about the writer combinators of Comrak/Html.lean and the tag-stack machine.
-/
import Comrak.Html
import Comrak.HtmlLang
namespace Comrak
open Bytes

@[simp] theorem W.emit_fst (ts : List Tok) (st : St) : (W.emit ts st).1 = ts := rfl
@[simp] theorem W.emit_fnIx (ts : List Tok) (st : St) : (W.emit ts st).2.fnIx = st.fnIx := rfl
@[simp] theorem W.emit_written (ts : List Tok) (st : St) : (W.emit ts st).2.writtenFnIx = st.writtenFnIx := rfl
@[simp] theorem W.emit_anchors (ts : List Tok) (st : St) : (W.emit ts st).2.anchors = st.anchors := rfl
@[simp] theorem W.nop_fst (st : St) : (W.nop st).1 = [] := rfl
@[simp] theorem W.nop_snd (st : St) : (W.nop st).2 = st := rfl
@[simp] theorem W.seq_fst (a b : W) (st : St) : ((a ⨟ b) st).1 = (a st).1 ++ (b (a st).2).1 := rfl
@[simp] theorem W.seq_snd (a b : W) (st : St) : ((a ⨟ b) st).2 = (b (a st).2).2 := rfl

@[simp] theorem W.cr_fnIx (st : St) : (W.cr st).2.fnIx = st.fnIx := by
  unfold W.cr; split <;> rfl
@[simp] theorem W.cr_written (st : St) : (W.cr st).2.writtenFnIx = st.writtenFnIx := by
  unfold W.cr; split <;> rfl
@[simp] theorem W.cr_anchors (st : St) : (W.cr st).2.anchors = st.anchors := by
  unfold W.cr; split <;> rfl

@[simp] theorem events_nil : events [] = [] := rfl
@[simp] theorem events_append (a b : List Tok) : events (a ++ b) = events a ++ events b := by
  simp [events, List.flatMap_append]
@[simp] theorem events_cons (t : Tok) (ts : List Tok) : events (t :: ts) = t.events ++ events ts := by
  simp [events]

@[simp] theorem events_cr (st : St) : events (W.cr st).1 = [] := by
  unfold W.cr; split <;> simp [events, Tok.events]

theorem run_append (s : List Bytes) (a b : List Ev) :
    run s (a ++ b) = (run s a).bind fun s' => run s' b := by
  induction a generalizing s with
  | nil => simp [run]
  | cons e r ih =>
    cases e with
    | op n => simp only [List.cons_append, run]; exact ih _
    | cl n =>
      cases s with
      | nil => simp [run]
      | cons top st =>
        simp only [List.cons_append, run]
        split
        · exact ih _
        · simp

/-- Appending net-zero event lists. -/
theorem run_append_some {s s' : List Bytes} {a : List Ev} (b : List Ev) (h : run s a = some s') :
    run s (a ++ b) = run s' b := by
  rw [run_append, h]; rfl

@[simp] theorem run_nil (s : List Bytes) : run s [] = some s := rfl
@[simp] theorem run_op (s : List Bytes) (n : Bytes) (r : List Ev) : run s (.op n :: r) = run (n :: s) r := rfl
@[simp] theorem run_cl_same (s : List Bytes) (n : Bytes) (r : List Ev) : run (n :: s) (.cl n :: r) = run s r := by
  simp [run]

end Comrak
