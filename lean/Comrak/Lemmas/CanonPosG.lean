/-
Positions of canonical documents, layer G: block quotes, lists, sequences of blocks; the structural
induction over blocks.
-/
import Comrak.Lemmas.CanonPosH
namespace Comrak.Canon
open Comrak Bytes

/-! ### Lines of container content -/

/-- Lines written behind a fixed prefix (an empty line may lose the prefix or part of it). -/
theorem emb_prefix {G : List Bytes} (f : Bytes → Bytes) (pre : Bytes) (hf : ∀ x, x ≠ [] → f x = pre ++ x) {c0 : Nat} :
    ∀ (xs : List Bytes) (l c : Nat), Emb G c0 l c (xs.map f) → Emb G (c0 + pre.length) l (c + pre.length) xs
  | [], _, _, _ => trivial
  | x :: rest, l, c, hE => by
    simp only [List.map_cons] at hE
    refine ⟨fun hx => ?_, emb_prefix f pre hf rest (l + 1) c0 hE.2⟩
    have hfx : f x ≠ [] := by rw [hf x hx]; simp [hx]
    obtain ⟨g1, g2, P, hP, hPl⟩ := hE.1 hfx
    exact ⟨g1, g2, P ++ pre, by rw [hP, hf x hx]; simp, by simp; omega⟩

theorem quoteLine_ne (x : Bytes) (hx : x ≠ []) : quoteLine x = [0x3E, 0x20] ++ x := by
  cases x with
  | nil => exact absurd rfl hx
  | cons a b => simp [quoteLine]

theorem indent_ne (w : Nat) (x : Bytes) (hx : x ≠ []) : (if x.isEmpty then [] else rep w 0x20 ++ x) = rep w 0x20 ++ x := by
  cases x with
  | nil => exact absurd rfl hx
  | cons a b => simp

theorem emb_item {G : List Bytes} (mk : Bytes) (t : Task) (x : Bytes) (xs : List Bytes) (l c : Nat)
    (hE : Emb G c l c (itemLines mk (t.mark (x :: xs)))) :
    Emb G (c + (mk.length + 1)) l (c + (mk.length + 1) + t.src.length) (x :: xs) := by
  simp only [Task.mark, itemLines] at hE
  refine ⟨fun hx => ?_, ?_⟩
  · obtain ⟨g1, g2, P, hP, hPl⟩ := hE.1 (by simp)
    exact ⟨g1, g2, P ++ mk ++ [0x20] ++ t.src, by rw [hP]; simp, by simp; omega⟩
  · have := emb_prefix (G := G) (fun l => if l.isEmpty then [] else rep (mk.length + 1) 0x20 ++ l) (rep (mk.length + 1) 0x20)
      (fun y hy => indent_ne _ y hy) xs (l + 1) c hE.2
    simpa [rep_length] using this

theorem itemLines_length (mk : Bytes) (t : Task) (x : Bytes) (xs : List Bytes) :
    (itemLines mk (t.mark (x :: xs))).length = (x :: xs).length := by
  simp [Task.mark, itemLines]

theorem endOf_quote (l c : Nat) (hc : 1 ≤ c) (xs : List Bytes) (hne : xs ≠ []) (hl : xs.getLastD [] ≠ []) :
    endOf l (c + 2) (c + 2) xs = endOf l c c (xs.map quoteLine) := by
  rw [endOf_same, endOf_same, getLastD_map_ne _ _ hne, quoteLine_ne _ hl]
  simp; omega

theorem endOf_item (mk : Bytes) (t : Task) (l c : Nat) (hc : 1 ≤ c) (x : Bytes) (xs : List Bytes) (hl : (x :: xs).getLastD [] ≠ []) :
    endOf l (c + (mk.length + 1)) (c + (mk.length + 1) + t.src.length) (x :: xs) =
      endOf l c c (itemLines mk (t.mark (x :: xs))) := by
  cases xs with
  | nil =>
    simp only [endOf, Task.mark, itemLines, List.map_nil, List.length_singleton, Nat.le_refl, if_true, List.getLastD_cons,
      List.getLastD_nil, List.length_append, List.length_cons, List.length_nil]
    apply Prod.ext <;> simp only <;> omega
  | cons y ys =>
    have hl' : (y :: ys).getLastD [] ≠ [] := by simpa using hl
    have e : itemLines mk (t.mark (x :: y :: ys)) =
        [mk ++ [0x20] ++ (t.src ++ x)] ++ ((y :: ys).map fun l => if l.isEmpty then [] else rep (mk.length + 1) 0x20 ++ l) := rfl
    rw [endOf_same, e, getLastD_append_ne _ _ (by simp), getLastD_map_ne _ _ (by simp), indent_ne _ _ hl']
    have h2 : ¬ (x :: y :: ys).length ≤ 1 := by simp
    simp only [endOf, h2, if_false]
    have : (x :: y :: ys).getLastD [] = (y :: ys).getLastD [] := by simp
    rw [this]
    apply Prod.ext <;> simp [rep_length] <;> omega

/-! ### Which blocks claim a position -/

def Blk.claims : Blk → Bool
  | .list .. => false
  | .icode _ => false
  | _ => true

theorem toTreeP_sp_claims (b : Blk) (l c0 c1 : Nat) (h0 : 1 ≤ c0) (h1 : 1 ≤ c1) (hph : b.ph = true) (hc : b.claims = true) :
    (b.toTreeP l c0 c1).sp.sl = l ∧ (b.toTreeP l c0 c1).sp.el = l + b.lines.length - 1 ∧
      (b.toTreeP l c0 c1).value.kind.spInOrder = true := by
  cases b with
  | para is =>
    simp only [Blk.ph, Bool.and_eq_true] at hph
    have := adv_dropLast_end c0 is.src l c1 h0 h1 (splitNl_last_of_all _ hph.2)
    refine ⟨?_, ?_, ?_⟩ <;>
      simp [Blk.toTreeP, Tree.sp, Tree.value, spanOf, this, endOf, Blk.lines, NodeValue.kind, Kind.spInOrder, Kind.spReliable]
  | heading lv is => exact ⟨rfl, rfl, rfl⟩
  | setext lv n is => exact ⟨rfl, by simp [Blk.toTreeP, Tree.sp, Blk.lines], rfl⟩
  | hr ch n => exact ⟨rfl, rfl, rfl⟩
  | fence ch len info ls => exact ⟨rfl, rfl, rfl⟩
  | icode ls => simp [Blk.claims] at hc
  | quote bs => exact ⟨rfl, rfl, rfl⟩
  | list m items => simp [Blk.claims] at hc
  | htmlb ls => exact ⟨rfl, rfl, rfl⟩
  | table al h rows => exact ⟨rfl, rfl, rfl⟩

theorem toTreeP_sp_noclaim (b : Blk) (l c0 c1 : Nat) (hc : b.claims = false) : (b.toTreeP l c0 c1).sp.sl = 0 := by
  cases b <;> simp [Blk.claims] at hc <;> rfl

section containers
variable (G : List Bytes)

local notation "LT" => lineEnts (joinLines G)
local notation "SRC" => joinLines G

/-- A sequence of blocks; `prev`: the span of the last claimed sibling before it. -/
def BlksGood (bs : Blks) : Prop :=
  ∀ (tight : Bool) (l c0 c1 : Nat) (A : Sp) (prev : Option Sp), Emb G c0 l c1 (bs.lines tight) → bs.ph = true → 1 ≤ l →
    1 ≤ c0 → 1 ≤ c1 → (c1 ≠ c0 → bs.startsPara = true) → posLe A.sl A.sc l c1 = true →
    (bs.isNil = false → posLe (endOf l c0 c1 (bs.lines tight)).1 (endOf l c0 c1 (bs.lines tight)).2 A.el A.ec = true) →
    (∀ Q, prev = some Q → Q.el < l) →
    claimCheckF LT (some A) prev (bs.toForestP tight l c0 c1) = none ∧ sliceCheckF LT SRC (bs.toForestP tight l c0 c1) = none

def ItemsGood (items : Items) : Prop :=
  ∀ (m : Marker) (k l c : Nat) (A : Sp), Emb G c l c (items.lines m k) → items.ph = true → 1 ≤ l → 1 ≤ c →
    posLe A.sl A.sc l c = true →
    (items.isNil = false → posLe (endOf l c c (items.lines m k)).1 (endOf l c c (items.lines m k)).2 A.el A.ec = true) →
    claimCheckF LT (some A) none (items.toForestP m k l c) = none ∧ sliceCheckF LT SRC (items.toForestP m k l c) = none

theorem blk_quote_pos (hG : cleanG G = true) (bs : Blks) (ih : BlksGood G bs) : BlkGood G (.quote bs) :=
  fun l c0 c1 A hE hph _ h1c hc hn1 hn2 => by
    have e := hc rfl
    subst e
    have hl := Blk.last_ne_nil (.quote bs) hph
    have hne := Blk.lines_ne_nil (.quote bs) hph
    simp only [Blk.ph, Bool.and_eq_true, Bool.not_eq_true'] at hph
    have hine := Blks.lines_ne_nil bs false hph.1 hph.2
    have hil := Blks.last_ne_nil bs false hph.1 hph.2
    have hf : nth (Blk.quote bs).lines 0 ≠ [] := by
      simp only [Blk.lines]
      cases hq : bs.lines false with
      | nil => exact absurd hq hine
      | cons x t => simp only [List.map_cons, nth]; unfold quoteLine; split <;> simp
    have hE' : Emb G c1 l c1 ((bs.lines false).map quoteLine) := by simpa [Blk.lines] using hE
    have hEi := emb_prefix (G := G) quoteLine [0x3E, 0x20] quoteLine_ne (bs.lines false) l c1 hE'
    simp only [List.length_cons, List.length_nil] at hEi
    simp only [Blk.toTreeP]
    refine lines_node G hG _ _ _ l c1 A hE hne hf hl rfl hn1 hn2 (fun s h1 h2 => ?_) (fun hv => ?_) ?_
    · -- first byte `>`
      have hfirst : ∃ t, nth (Blk.quote bs).lines 0 = 0x3E :: t := by
        simp only [Blk.lines]
        cases hq : bs.lines false with
        | nil => exact absurd hq hine
        | cons x t => simp only [List.map_cons, nth]; unfold quoteLine; split <;> simp
      obtain ⟨t, ht⟩ := hfirst
      by_cases hlen : (Blk.quote bs).lines.length = 1
      · rw [h1 hlen, ht]; simp [sliceFail, firstB]
      · obtain ⟨mid, rfl⟩ := h2 (by have := List.length_pos_iff.mpr hne; omega)
        rw [ht]; simp [sliceFail, firstB]
    · -- the slice ends with the whole last line
      have hlast := getLastD_nth (Blk.quote bs).lines
      have hpos := List.length_pos_iff.mpr hne
      obtain ⟨b1, b2, Q, hQ, hQl⟩ := emb_get _ l c1 ((Blk.quote bs).lines.length - 1) hE (by omega) (by rw [← hlast]; exact hl)
      have hQl' : Q.length + 1 = c1 := by split at hQl <;> exact hQl
      refine atLineEnd_of G hG _ hv.l1 hv.l2 hv.l3 (by have := hv.c1; omega) ?_
      simp only [spanLines, lenAt]
      have e1 : l + (Blk.quote bs).lines.length - 1 - 1 = l + ((Blk.quote bs).lines.length - 1) - 1 := by omega
      rw [e1, hQ, ← hlast]
      simp; omega
    · -- the blocks inside
      have hl1 : 1 ≤ l := by
        obtain ⟨g1, _, _⟩ := emb_get _ l c1 0 hE (List.length_pos_iff.mpr hne) hf
        omega
      refine ih false l (c1 + 2) (c1 + 2) _ none hEi hph.2 hl1 (by omega) (by omega) (fun h => absurd rfl h)
        (by simp [spanLines, posLe]) (fun _ => ?_) (fun Q h => by cases h)
      rw [endOf_quote l c1 h1c _ hine hil, endOf_same]
      simp only [spanLines, Blk.lines]
      exact posLe_refl _ _

theorem blk_list_pos (m : Marker) (items : Items) (ih : ItemsGood G items) : BlkGood G (.list m items) :=
  fun l c0 c1 A hE hph _ h1c hc hn1 hn2 => by
    have e := hc rfl
    subst e
    simp only [Blk.ph, Bool.and_eq_true, Bool.not_eq_true'] at hph
    simp only [Blk.toTreeP, Blk.lines] at hE hn2 ⊢
    have hl1 : 1 ≤ l := by
      cases items with
      | nil => simp [Items.isNil] at hph
      | cons t bs r =>
        simp only [Items.lines] at hE
        obtain ⟨hE12, _⟩ := emb_append _ _ l c1 hE
        obtain ⟨hE1, _⟩ := emb_append _ _ l c1 hE12
        cases hq : t.mark (bs.lines m.tight) with
        | nil =>
          rw [hq] at hE1
          obtain ⟨g1, _⟩ := hE1.1 (by
            intro e
            have : (m.src m.start) = [] := e
            simp [Marker.src] at this
            split at this <;> simp at this)
          exact g1
        | cons y ys =>
          rw [hq] at hE1
          simp only [itemLines] at hE1
          obtain ⟨g1, _⟩ := hE1.1 (by simp)
          exact g1
    obtain ⟨k1, k2⟩ := ih m m.start l c1 A hE hph.2 hl1 h1c hn1 (fun _ => hn2)
    exact ⟨claim_skip _ _ _ _ _ (by simp) k1, slice_node_zero _ _ _ _ k2⟩

theorem blks_nil_pos : BlksGood G .nil := fun _ _ _ _ _ _ _ _ _ _ _ _ _ _ _ => ⟨rfl, rfl⟩

theorem blks_cons_pos (b : Blk) (r : Blks) (hb : BlkGood G b) (hr : BlksGood G r) : BlksGood G (.cons b r) :=
  fun tight l c0 c1 A prev hE hph hl1 h0 h1c hsp hn1 hend hp => by
    simp only [Blks.ph, Bool.and_eq_true] at hph
    have hbne := Blk.lines_ne_nil b hph.1
    have hbpos := List.length_pos_iff.mpr hbne
    have hend0 := hend rfl
    simp only [Blks.lines] at hE hend0
    obtain ⟨hE12, hE3⟩ := emb_append _ _ l c1 hE
    obtain ⟨hE1, _⟩ := emb_append _ _ l c1 hE12
    have hbpara : b.isPara = false → c1 = c0 := by
      intro hbp
      by_cases hne : c1 = c0
      · exact hne
      · have := hsp hne
        cases b <;> simp [Blks.startsPara, Blk.isPara] at this hbp
    -- the end of `b` lies within `A`
    have hbend : posLe (endOf l c0 c1 b.lines).1 (endOf l c0 c1 b.lines).2 A.el A.ec = true := by
      cases hrn : r.isNil
      · -- more blocks follow: `b` ends on an earlier line
        have hrne := Blks.lines_ne_nil r tight hrn hph.2
        have hrpos := List.length_pos_iff.mpr hrne
        refine posLe_of_line_lt hend0 ?_
        simp only [endOf, List.length_append]
        omega
      · have hr0 : r = .nil := by cases r <;> simp [Blks.isNil] at hrn ⊢
        subst hr0
        simpa [Blks.lines, Blks.isNil] using hend0
    obtain ⟨k1, k2⟩ := hb l c0 c1 A hE1 hph.1 h0 h1c hbpara hn1 hbend
    -- the remaining blocks
    let l' := l + b.lines.length + (if tight then 0 else 1)
    have hsep : (if tight || r.isNil then ([] : List Bytes) else [[]]).length ≤ (if tight then 0 else 1) := by
      cases tight <;> cases r.isNil <;> simp
    have hErest : r.isNil = false → Emb G c0 l' c0 (r.lines tight) := by
      intro hrn
      have e1 : ¬ (b.lines ++ if tight || r.isNil then ([] : List Bytes) else [[]]).isEmpty := by
        cases hq : b.lines with
        | nil => exact absurd hq hbne
        | cons x t => simp
      simp only [e1, if_false] at hE3
      have e2 : l + (b.lines ++ if tight || r.isNil then ([] : List Bytes) else [[]]).length = l' := by
        simp only [l', List.length_append, hrn, Bool.or_false]
        cases tight <;> simp <;> omega
      rw [e2] at hE3
      exact hE3
    have hrest : ∀ (pv : Option Sp), (∀ Q, pv = some Q → Q.el < l') →
        claimCheckF LT (some A) pv (r.toForestP tight l' c0 c0) = none ∧ sliceCheckF LT SRC (r.toForestP tight l' c0 c0) = none := by
      intro pv hpv
      cases hrn : r.isNil
      · have hrne := Blks.lines_ne_nil r tight hrn hph.2
        refine hr tight l' c0 c0 A pv (hErest hrn) hph.2 (by simp only [l']; omega) h0 h0 (fun h => absurd rfl h) ?_ (fun _ => ?_) hpv
        · simp only [posLe, l', Bool.or_eq_true, Bool.and_eq_true, decide_eq_true_eq] at hn1 ⊢
          omega
        · have e : endOf l' c0 c0 (r.lines tight) = endOf l c0 c1 (b.lines ++ (if tight || r.isNil then [] else [[]]) ++ r.lines tight) := by
            have hrpos := List.length_pos_iff.mpr hrne
            rw [endOf_same]
            simp only [endOf, getLastD_append_ne _ _ hrne, List.length_append, hrn, Bool.or_false]
            have h2 : ¬ (b.lines.length + (if tight then ([] : List Bytes) else [[]]).length + (r.lines tight).length ≤ 1) := by omega
            simp only [h2, if_false, l']
            apply Prod.ext <;> simp only <;> cases tight <;> simp <;> omega
          rw [e]; exact hend0
      · have hr0 : r = .nil := by cases r <;> simp [Blks.isNil] at hrn ⊢
        subst hr0
        exact ⟨by simp [Blks.toForestP, claimCheckF], by simp [Blks.toForestP, sliceCheckF]⟩
    simp only [Blks.toForestP]
    cases hcl : b.claims
    · have hsl := toTreeP_sp_noclaim b l c0 c1 hcl
      obtain ⟨k3, k4⟩ := hrest prev (fun Q hQ => by have := hp Q hQ; simp only [l']; omega)
      exact ⟨claimF_cons_skip _ _ _ _ prev (by simp [hsl]) k1 k3, sliceF_cons _ _ _ _ k2 k4⟩
    · obtain ⟨s1, s2, s3⟩ := toTreeP_sp_claims b l c0 c1 h0 h1c hph.1 hcl
      obtain ⟨k3, k4⟩ := hrest (some (b.toTreeP l c0 c1).sp) (fun Q hQ => by cases hQ; rw [s2]; simp only [l']; omega)
      refine ⟨claimF_cons _ _ _ _ prev (by rw [s3, s1]; simp; omega) ?_ k1 k3, sliceF_cons _ _ _ _ k2 k4⟩
      intro Q hQ
      have := hp Q hQ
      simp only [spOrdered, posLt, s1, Bool.or_eq_true, Bool.and_eq_true, decide_eq_true_eq]
      left; exact this

theorem items_nil_pos : ItemsGood G .nil := fun _ _ _ _ _ _ _ _ _ _ _ => ⟨rfl, rfl⟩

theorem items_cons_pos (t : Task) (bs : Blks) (r : Items) (hb : BlksGood G bs) (hr : ItemsGood G r) : ItemsGood G (.cons t bs r) :=
  fun m k l c A hE hph hl1 h1c hn1 hend => by
    simp only [Items.ph, Bool.and_eq_true, Bool.not_eq_true', Bool.or_eq_true] at hph
    obtain ⟨⟨⟨hbn, hbph⟩, htask⟩, hrph⟩ := hph
    have hine := Blks.lines_ne_nil bs m.tight hbn hbph
    have hil := Blks.last_ne_nil bs m.tight hbn hbph
    have hend0 := hend rfl
    simp only [Items.lines] at hE hend0
    obtain ⟨x, xs, hxs⟩ : ∃ x xs, bs.lines m.tight = x :: xs := by
      cases hq : bs.lines m.tight with
      | nil => exact absurd hq hine
      | cons x xs => exact ⟨x, xs, rfl⟩
    rw [hxs] at hE hend0 hil
    obtain ⟨hE12, hE3⟩ := emb_append _ _ l c hE
    obtain ⟨hE1, _⟩ := emb_append _ _ l c hE12
    have hEi := emb_item (m.src k) t x xs l c hE1
    have hILlen := itemLines_length (m.src k) t x xs
    have hILne : itemLines (m.src k) (t.mark (x :: xs)) ≠ [] := itemLines_ne_nil _ _
    -- the end of the item's lines lies within `A`
    have hiend : posLe (endOf l c c (itemLines (m.src k) (t.mark (x :: xs)))).1
        (endOf l c c (itemLines (m.src k) (t.mark (x :: xs)))).2 A.el A.ec = true := by
      cases hrn : r.isNil
      · have hrne := Items.lines_ne_nil m (k + 1) r hrn
        have hrpos := List.length_pos_iff.mpr hrne
        refine posLe_of_line_lt hend0 ?_
        simp only [endOf, List.length_append, hILlen]
        have : 0 < (x :: xs).length := by simp
        omega
      · have hr0 : r = .nil := by cases r <;> simp [Items.isNil] at hrn ⊢
        subst hr0
        simpa [Items.lines, Items.isNil] using hend0
    have hts : c + ((m.src k).length + 1) + t.src.length ≠ c + ((m.src k).length + 1) → bs.startsPara = true := by
      intro hne
      cases t with
      | no => simp [Task.src] at hne
      | unchecked => simpa [Task.isTask] using htask
      | checked ch => simpa [Task.isTask] using htask
    obtain ⟨k1, k2⟩ := hb m.tight l (c + ((m.src k).length + 1)) (c + ((m.src k).length + 1) + t.src.length) A none
      (by rw [hxs]; exact hEi) hbph hl1 (by omega) (by omega) hts
      (by simp only [posLe, Bool.or_eq_true, Bool.and_eq_true, decide_eq_true_eq] at hn1 ⊢; omega)
      (fun _ => by rw [hxs, endOf_item (m.src k) t l c h1c x xs hil]; exact hiend)
      (fun Q h => by cases h)
    -- the other items
    let l' := l + (bs.lines m.tight).length + (if m.tight then 0 else 1)
    have hrest : claimCheckF LT (some A) none (r.toForestP m (k + 1) l' c) = none ∧ sliceCheckF LT SRC (r.toForestP m (k + 1) l' c) = none := by
      cases hrn : r.isNil
      · have hrne := Items.lines_ne_nil m (k + 1) r hrn
        have e1 : ¬ (itemLines (m.src k) (t.mark (x :: xs)) ++ if m.tight || r.isNil then ([] : List Bytes) else [[]]).isEmpty := by
          cases hq : itemLines (m.src k) (t.mark (x :: xs)) with
          | nil => exact absurd hq hILne
          | cons y t' => simp
        simp only [e1, if_false] at hE3
        have e2 : l + (itemLines (m.src k) (t.mark (x :: xs)) ++ if m.tight || r.isNil then ([] : List Bytes) else [[]]).length = l' := by
          simp only [l', List.length_append, hrn, Bool.or_false, hILlen, hxs]
          cases m.tight <;> simp <;> omega
        rw [e2] at hE3
        refine hr m (k + 1) l' c A hE3 hrph (by simp only [l']; omega) h1c ?_ (fun _ => ?_)
        · simp only [posLe, l', Bool.or_eq_true, Bool.and_eq_true, decide_eq_true_eq] at hn1 ⊢
          omega
        · have hrpos := List.length_pos_iff.mpr hrne
          have e : endOf l' c c (r.lines m (k + 1)) =
              endOf l c c (itemLines (m.src k) (t.mark (x :: xs)) ++ (if m.tight || r.isNil then [] else [[]]) ++ r.lines m (k + 1)) := by
            rw [endOf_same, endOf_same, getLastD_append_ne _ _ hrne]
            simp only [List.length_append, hrn, Bool.or_false, hILlen, l', hxs]
            apply Prod.ext <;> simp only <;> cases m.tight <;> simp <;> omega
          rw [e]; exact hend0
      · have hr0 : r = .nil := by cases r <;> simp [Items.isNil] at hrn ⊢
        subst hr0
        exact ⟨by simp [Items.toForestP, claimCheckF], by simp [Items.toForestP, sliceCheckF]⟩
    simp only [Items.toForestP]
    refine ⟨claimF_cons_skip _ _ _ _ none (by simp [Tree.sp]) (claim_skip _ _ _ _ _ (by simp) k1) hrest.1,
      sliceF_cons _ _ _ _ (slice_node_zero _ _ _ _ k2) hrest.2⟩

mutual
theorem blk_good (hG : cleanG G = true) : ∀ b : Blk, BlkGood G b
  | .para is => blk_para_pos G hG is
  | .heading lv is => blk_heading_pos G hG lv is
  | .setext lv n is => blk_setext_pos G hG lv n is
  | .hr ch n => blk_hr_pos G hG ch n
  | .fence ch len info ls => blk_fence_pos G hG ch len info ls
  | .icode ls => blk_icode_pos G ls
  | .quote bs => blk_quote_pos G hG bs (blks_good hG bs)
  | .list m items => blk_list_pos G m items (items_good hG items)
  | .htmlb ls => blk_htmlb_pos G hG ls
  | .table al h rows => blk_table_pos G hG al h rows
theorem blks_good (hG : cleanG G = true) : ∀ bs : Blks, BlksGood G bs
  | .nil => blks_nil_pos G
  | .cons b r => blks_cons_pos G b r (blk_good hG b) (blks_good hG r)
theorem items_good (hG : cleanG G = true) : ∀ items : Items, ItemsGood G items
  | .nil => items_nil_pos G
  | .cons t bs r => items_cons_pos G t bs r (blks_good hG bs) (items_good hG r)
end

end containers

end Comrak.Canon
