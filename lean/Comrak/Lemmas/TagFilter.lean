import Comrak.TagFilter
namespace Comrak
open Bytes

theorem isPrefixCI_length (p s : Bytes) (h : isPrefixCI p s = true) : p.length ≤ s.length := by
  induction p generalizing s with
  | nil => simp
  | cons a p ih =>
    cases s with
    | nil => simp [isPrefixCI] at h
    | cons b s =>
      simp only [isPrefixCI, Bool.and_eq_true] at h
      simp only [List.length_cons]
      have := ih s h.2
      omega

/-- No blacklisted name is a case-insensitive prefix of another one, so "first match" = "any match". -/
theorem blacklist_prefix_free :
    ∀ a ∈ tagBlacklist, ∀ b ∈ tagBlacklist, isPrefixCI a b = true → a = b := by decide

theorem delimAt_eq_tagDelim (l : Bytes) (j : Nat) (h : j < l.length) :
    delimAt l j = some (tagDelimW htmlSpace (l.drop j)) := by
  induction l generalizing j with
  | nil => simp at h
  | cons c r ih =>
    cases j with
    | zero =>
      simp only [delimAt, List.getElem?_cons_zero, List.drop_zero, tagDelimW, List.length_cons]
      cases r with
      | nil => simp
      | cons d t => simp
    | succ k =>
      have hk : k < r.length := by simpa using h
      have := ih k hk
      simp only [delimAt, List.getElem?_cons_succ, List.length_cons, List.drop_succ_cons] at this ⊢
      cases hrk : r[k]? with
      | none => simp [hrk] at this
      | some c' =>
        simp only [hrk] at this ⊢
        have e : (r.length + 1 ≥ k + 1 + 2) = (r.length ≥ k + 2) := by
          apply propext; omega
        simp only [e]
        exact this

theorem toLower_idem : ∀ c : UInt8, toLowerAscii (toLowerAscii c) = toLowerAscii c := by
  intro c
  have h : ∀ n : Fin 256, toLowerAscii (toLowerAscii (UInt8.ofNat n.val)) = toLowerAscii (UInt8.ofNat n.val) := by
    decide +kernel
  have := h ⟨c.toNat, c.toNat_lt⟩
  simpa using this

theorem isPrefixCI_trans (a b s : Bytes) (ha : isPrefixCI a s = true) (hb : isPrefixCI b s = true)
    (hl : a.length ≤ b.length) : isPrefixCI a b = true := by
  induction a generalizing b s with
  | nil => simp [isPrefixCI]
  | cons x a ih =>
    cases b with
    | nil => simp at hl
    | cons y b =>
      cases s with
      | nil => simp [isPrefixCI] at ha
      | cons z s =>
        simp only [isPrefixCI, Bool.and_eq_true, beq_iff_eq] at ha hb ⊢
        refine ⟨?_, ih b s ha.2 hb.2 (by simpa using hl)⟩
        rw [hb.1, toLower_idem, ← ha.1]

theorem blacklist_unique (s : Bytes) (a b : Bytes) (ha : a ∈ tagBlacklist) (hb : b ∈ tagBlacklist)
    (pa : isPrefixCI a s = true) (pb : isPrefixCI b s = true) : a = b := by
  by_cases h : a.length ≤ b.length
  · exact blacklist_prefix_free a ha b hb (isPrefixCI_trans a b s pa pb h)
  · exact (blacklist_prefix_free b hb a ha (isPrefixCI_trans b a s pb pa (by omega))).symm

/-- "first matching name decides" equals "some name matches and is followed by a delimiter",
    for any list of names in which at most one can match a given input. -/
theorem find_eq_any (bl : List Bytes) (P : Bytes → Bool) (D : Bytes → Bool)
    (uniq : ∀ a ∈ bl, ∀ b ∈ bl, P a = true → P b = true → a = b) :
    (match bl.find? P with | none => false | some t => D t) = bl.any (fun n => P n && D n) := by
  induction bl with
  | nil => rfl
  | cons n rest ih =>
    simp only [List.find?_cons, List.any_cons]
    by_cases hp : P n = true
    · simp only [hp, Bool.true_and]
      by_cases hd : D n = true
      · simp [hd]
      · have hd' : D n = false := by simpa using hd
        simp only [hd', Bool.false_or]
        symm
        rw [List.any_eq_false]
        intro m hm
        by_cases hpm : P m = true
        · have : n = m := uniq n (by simp) m (by simp [hm]) hp hpm
          subst this; simp [hd']
        · simp [hpm]
    · have hp' : P n = false := by simpa using hp
      simp only [hp', Bool.false_and, Bool.false_or]
      exact ih (fun a ha b hb => uniq a (by simp [ha]) b (by simp [hb]))

theorem blacklist_min_len : ∀ t ∈ tagBlacklist, 3 ≤ t.length := by decide

/-- Form feed is the only byte on which the two white-space classes differ. -/
theorem htmlSpace_eq_isSpace : ∀ c : UInt8, c ≠ 0x0C → htmlSpace c = isSpace c := by
  intro c
  have h : ∀ n : Fin 256, UInt8.ofNat n.val ≠ 0x0C → htmlSpace (UInt8.ofNat n.val) = isSpace (UInt8.ofNat n.val) := by
    decide +kernel
  have := h ⟨c.toNat, c.toNat_lt⟩
  simpa using this

theorem tagDelimW_congr (s : Bytes) (h : (0x0C : UInt8) ∉ s) : tagDelimW htmlSpace s = tagDelimW isSpace s := by
  cases s with
  | nil => rfl
  | cons c r =>
    have : c ≠ 0x0C := fun e => h (by simp [e])
    simp [tagDelimW, htmlSpace_eq_isSpace c this]

theorem not_mem_drop {α} (x : α) (l : List α) (n : Nat) (h : x ∉ l) : x ∉ l.drop n :=
  fun hm => h (List.mem_of_mem_drop hm)

theorem stripSlash_sub (r : Bytes) (x : UInt8) (h : x ∉ r) : x ∉ stripSlash r := by
  unfold stripSlash
  split
  · split
    · intro hm; exact h (by simp [hm])
    · exact h
  · simp

theorem disallowedAtW_congr (s : Bytes) (h : (0x0C : UInt8) ∉ s) : disallowedAt s = disallowedAtC s := by
  unfold disallowedAt disallowedAtC disallowedAtW
  cases s with
  | nil => rfl
  | cons c r =>
    have hr : (0x0C : UInt8) ∉ r := fun hm => h (by simp [hm])
    simp only
    split
    · congr 1
      funext name
      rw [tagDelimW_congr _ (not_mem_drop _ _ _ (stripSlash_sub r _ hr))]
    · rfl

/-! ### Locality: a `<` later in the literal never changes the decision for an earlier one -/

theorem isPrefixCI_append_lt (name u t : Bytes) (hn : ∀ c ∈ name, c ≠ 0x3C) :
    isPrefixCI name (u ++ 0x3C :: t) = isPrefixCI name u := by
  induction name generalizing u with
  | nil => simp [isPrefixCI]
  | cons a p ih =>
    have ha : a ≠ 0x3C := hn a (by simp)
    have hp : ∀ c ∈ p, c ≠ 0x3C := fun c hc => hn c (by simp [hc])
    cases u with
    | nil =>
      have : toLowerAscii 0x3C = 0x3C := by decide
      simp [isPrefixCI, this, ha]
    | cons b s => simp [isPrefixCI, ih s hp]

theorem tagDelimW_append_lt (sp : UInt8 → Bool) (hsp : sp 0x3C = false) (d t : Bytes) :
    tagDelimW sp (d ++ 0x3C :: t) = tagDelimW sp d := by
  match d with
  | [] => simp [tagDelimW, hsp]
  | [c] => simp [tagDelimW]
  | c :: e :: r => simp [tagDelimW]

theorem stripSlash_append_lt (r t : Bytes) : stripSlash (r ++ 0x3C :: t) = stripSlash r ++ 0x3C :: t := by
  cases r with
  | nil => simp [stripSlash]
  | cons c r' => by_cases h : c = 0x2F <;> simp [stripSlash, h]

theorem any_congr_mem {α} (l : List α) (f g : α → Bool) (h : ∀ x ∈ l, f x = g x) : l.any f = l.any g := by
  induction l with
  | nil => rfl
  | cons a r ih =>
    simp only [List.any_cons, h a (by simp), ih (fun x hx => h x (by simp [hx]))]

theorem blacklist_no_lt : ∀ name ∈ tagBlacklist, ∀ c ∈ name, c ≠ (0x3C : UInt8) := by decide

theorem disallowedAtW_append_lt (sp : UInt8 → Bool) (hsp : sp 0x3C = false) (c : UInt8) (r t : Bytes) :
    disallowedAtW sp (c :: r ++ 0x3C :: t) = disallowedAtW sp (c :: r) := by
  simp only [disallowedAtW, List.cons_append]
  split
  · rw [stripSlash_append_lt]
    apply any_congr_mem
    intro name hname
    rw [isPrefixCI_append_lt _ _ _ (blacklist_no_lt name hname)]
    by_cases hp : isPrefixCI name (stripSlash r) = true
    · have hl := isPrefixCI_length _ _ hp
      rw [List.drop_append_of_le_length hl, tagDelimW_append_lt sp hsp]
    · simp [hp]
  · rfl

theorem rewriteSpecW_append_lt (sp : UInt8 → Bool) (hsp : sp 0x3C = false) (p t : Bytes) :
    rewriteSpecW sp (p ++ 0x3C :: t) = rewriteSpecW sp p ++ rewriteSpecW sp (0x3C :: t) := by
  induction p with
  | nil => simp [rewriteSpecW]
  | cons b r ih =>
    have := disallowedAtW_append_lt sp hsp b r t
    simp only [List.cons_append] at this
    simp only [List.cons_append, rewriteSpecW, this, ih, List.append_assoc]

end Comrak
