/-
Helper lemmas for the consultation-site theorems of C13 (scanner facts of the site models and the
case-splitting tactic).
-/
import Comrak.Inline.Sites
namespace Comrak
open Bytes

/-- case split on the feature, `trigger F c = false` unfolded to (in)equalities on `c`, then simp. -/
macro "site_tac" F:ident h:ident "[" ds:Lean.Parser.Tactic.simpLemma,* "]" : tactic =>
  `(tactic| (cases $F:ident <;>
    simp only [trigger, triggerBytes, List.contains_cons, List.contains_nil, Bool.or_false,
      Bool.or_eq_false_iff] at $h:ident <;>
    first
      | rfl
      | (have h2 := $h:ident; simp only [beq_eq_false_iff_ne, ne_eq] at h2
         simp [$ds,*, Opts.enable, $h:ident, h2] <;> (try rfl) <;> (try (repeat' split) <;> simp_all))))

theorem scanMultilineFence_needs_gt (rest : Bytes) (n : Nat) (h : scanMultilineFence rest = some n) :
    rest.head? = some 0x3E := by
  cases rest with
  | nil => simp [scanMultilineFence, gtRun] at h
  | cons c r =>
    by_cases hc : c = 0x3E
    · simp [hc]
    · have : gtRun (c :: r) = 0 := by
        unfold gtRun
        split
        · rename_i heq; injection heq with h1 _; exact absurd h1 hc
        · rfl
      simp [scanMultilineFence, this] at h

theorem scanFootnoteDefinition_needs_caret (rest : Bytes) (n : Nat) (h : scanFootnoteDefinition rest = some n) :
    (0x5E : UInt8) ∈ rest := by
  unfold scanFootnoteDefinition at h
  split at h
  · simp
  · simp at h

theorem scanTasklist_needs_bracket (text : Bytes) (s : UInt8) (h : scanTasklist text = some s) :
    (0x5B : UInt8) ∈ text := by
  have key : ∀ t : Bytes, (0x5B : UInt8) ∈ dropSpaceChars t → (0x5B : UInt8) ∈ t := by
    intro t
    induction t with
    | nil => simp [dropSpaceChars]
    | cons c r ih =>
      simp only [dropSpaceChars]
      split
      · intro hm; exact List.mem_cons_of_mem _ (ih hm)
      · exact id
  apply key
  simp only [scanTasklist] at h
  split at h
  · simp_all
  · simp at h

end Comrak
