/-
C06 helper lemmas: the rule-of-three family on which the pinned `process_emphasis` is quadratic
(before /repo commit 9704a60 `openers_bottom` was not raised after a failed search during which the rule of
three skipped a candidate; `emLoop false` is that old loop).
-/
import Comrak.Lemmas.CostEmph
namespace Comrak.Cost
open Comrak

/-- `**` that can only open (`" **b"`). -/
def D2 (p : Nat) : Delim := ⟨0x2A, 2, 2, true, false, p⟩
/-- `*` that can open and close (`"b*a"`). -/
def D1 (p : Nat) : Delim := ⟨0x2A, 1, 1, true, true, p⟩

/-- The delimiter list of `"**b*a "` repeated `2 m` times, positions from `p`. -/
def emFam : Nat → Nat → List Delim
  | _, 0 => []
  | p, m + 1 => D2 p :: D1 (p + 1) :: D2 (p + 2) :: D1 (p + 3) :: emFam (p + 4) m

def isD2 (d : Delim) : Prop := d.ch = 0x2A ∧ d.len = 2 ∧ d.cur = 2 ∧ d.canOpen = true ∧ d.canClose = false

/-- Steps of the pinned loop on `emFam _ m` entered with `k` unmatched `**` openers below. -/
def qcost : Nat → Nat → Nat
  | _, 0 => 0
  | k, m + 1 => (k + 7) + qcost (k + 1) m

theorem bottomIx_D1 (q : Nat) : bottomIx false (D1 q) = 10 := rfl

theorem emSearch_allD2 (q : Nat) : ∀ L : List Delim, (∀ d ∈ L, isD2 d) →
    (emSearch (D1 q) 0 L).cost = L.length ∧ (emSearch (D1 q) 0 L).hit = none ∧
    (L ≠ [] → (emSearch (D1 q) 0 L).mod3 = true)
  | [], _ => by simp [emSearch]
  | d :: L, h => by
    obtain ⟨h1, h2, h3⟩ := emSearch_allD2 q L (fun x hx => h x (by simp [hx]))
    obtain ⟨a1, a2, a3, a4, a5⟩ := h d (by simp)
    simp [emSearch, D1, oddMatch, a1, a2, a4, a5] at h1 h2 ⊢
    exact ⟨h1, h2⟩

theorem emLoop_skip (fix : Bool) (f : Nat) (bot : Nat → Nat) (left above : List Delim) (c : Delim)
    (h : c.canClose = false) :
    emLoop fix (f + 1) bot left (c :: above) = (emLoop fix f bot (c :: left) above).map (1 + ·) := by
  simp [emLoop, h]

theorem emLoop_fail (fix : Bool) (f : Nat) (bot : Nat → Nat) (left above : List Delim) (c : Delim)
    (hc : c.canClose = true) (hh : (emSearch c (bot (bottomIx fix c)) left).hit = none) :
    emLoop fix (f + 1) bot left (c :: above) =
      (emLoop fix f (if (alwaysRaise fix c || !(emSearch c (bot (bottomIx fix c)) left).mod3) = true
          then fun k => if k = bottomIx fix c then c.pos else bot k else bot)
        (if c.canOpen = true then c :: left else left) above).map (1 + (emSearch c (bot (bottomIx fix c)) left).cost + ·) := by
  simp only [emLoop, hc, if_true]
  split
  · rename_i h2; rw [hh] at h2; exact absurd h2 (by simp)
  · rfl

theorem emLoop_hit (fix : Bool) (f : Nat) (bot : Nat → Nat) (left above : List Delim) (c o : Delim) (below : List Delim)
    (hc : c.canClose = true) (hh : (emSearch c (bot (bottomIx fix c)) left).hit = some (o, below))
    (hx : tildeExit o c = false) :
    emLoop fix (f + 1) bot left (c :: above) =
      (emLoop fix f bot (shrink o (useChars o c) below) (shrink c (useChars o c) above)).map
        (1 + (emSearch c (bot (bottomIx fix c)) left).cost + ·) := by
  simp only [emLoop, hc, if_true]
  split
  · rename_i o' below' h2
    rw [hh] at h2
    simp only [Option.some.injEq, Prod.mk.injEq] at h2
    obtain ⟨rfl, rfl⟩ := h2
    simp [hx]
  · rename_i h2; rw [hh] at h2; exact absurd h2 (by simp)

theorem emLoop_fam (m : Nat) : ∀ (fuel : Nat) (bot : Nat → Nat) (L : List Delim) (p : Nat),
    4 * m ≤ fuel → bot 10 = 0 → (∀ d ∈ L, isD2 d) →
    emLoop false fuel bot L (emFam p m) = some (qcost L.length m) := by
  induction m with
  | zero => intro fuel bot L p _ _ _; simp [emFam, emLoop, qcost]
  | succ m ih =>
    intro fuel bot L p hf hb hL
    obtain ⟨f, rfl⟩ : ∃ f, fuel = f + 4 := ⟨fuel - 4, by omega⟩
    have hL' : ∀ d ∈ D2 p :: L, isD2 d := by
      intro d hd
      simp only [List.mem_cons] at hd
      rcases hd with rfl | hd
      · simp [isD2, D2]
      · exact hL d hd
    obtain ⟨s1, s2, s3⟩ := emSearch_allD2 (p + 1) (D2 p :: L) hL'
    have s3' := s3 (by simp)
    have ih' := ih f bot (D2 p :: L) (p + 4) (by omega) hb hL'
    simp only [emFam, qcost]
    -- step 1: `**` is not a closer
    rw [show f + 4 = (f + 3) + 1 from rfl, emLoop_skip false (f + 3) bot L _ (D2 p) rfl]
    -- step 2: `*` closer, the search walks over all the `**` openers (rule of three) and fails;
    -- `openers_bottom` is not updated
    have hb2 : bot (bottomIx false (D1 (p + 1))) = 0 := by rw [bottomIx_D1]; exact hb
    rw [show f + 3 = (f + 2) + 1 from rfl,
      emLoop_fail false (f + 2) bot (D2 p :: L) _ (D1 (p + 1)) rfl (by rw [hb2]; exact s2)]
    rw [hb2, s1, s3']
    simp only [alwaysRaise, Bool.false_or, Bool.not_true, Bool.false_eq_true, if_false]
    rw [show (if (D1 (p + 1)).canOpen = true then D1 (p + 1) :: D2 p :: L else D2 p :: L) = D1 (p + 1) :: D2 p :: L from rfl]
    -- step 3: `**` again
    rw [show f + 2 = (f + 1) + 1 from rfl, emLoop_skip false (f + 1) bot _ _ (D2 (p + 2)) rfl]
    -- step 4: `*` closer finds the `*` two below
    have hb4 : bot (bottomIx false (D1 (p + 3))) = 0 := by rw [bottomIx_D1]; exact hb
    have hs4 : emSearch (D1 (p + 3)) 0 (D2 (p + 2) :: D1 (p + 1) :: D2 p :: L)
        = ⟨2, true, some (D1 (p + 1), D2 p :: L)⟩ := by
      simp [emSearch, D1, D2, oddMatch]
    rw [emLoop_hit false f bot _ _ (D1 (p + 3)) (D1 (p + 1)) (D2 p :: L) rfl (by rw [hb4, hs4]) rfl]
    rw [hb4, hs4]
    rw [show shrink (D1 (p + 1)) (useChars (D1 (p + 1)) (D1 (p + 3))) (D2 p :: L) = D2 p :: L from rfl]
    rw [show shrink (D1 (p + 3)) (useChars (D1 (p + 1)) (D1 (p + 3))) (emFam (p + 4) m) = emFam (p + 4) m from rfl]
    rw [ih']
    simp only [Option.map_some, List.length_cons]
    congr 1
    omega

theorem qcost_ge : ∀ m k, m * m + 13 * m + 2 * (k * m) ≤ 2 * qcost k m
  | 0, k => by simp [qcost]
  | m + 1, k => by
    have ih := qcost_ge m (k + 1)
    simp only [qcost, Nat.mul_add, Nat.add_mul, Nat.mul_one, Nat.one_mul] at ih ⊢
    omega

theorem emFam_length : ∀ m p, (emFam p m).length = 4 * m ∧ sumCur (emFam p m) = 6 * m
  | 0, _ => by simp [emFam, sumCur]
  | m + 1, p => by
    obtain ⟨h1, h2⟩ := emFam_length m (p + 4)
    simp only [emFam, List.length_cons, sumCur, D1, D2, h1, h2]
    omega

theorem emFam_sorted : ∀ m p, (emFam p m).Pairwise (fun a b => a.pos < b.pos) ∧ ∀ d ∈ emFam p m, p ≤ d.pos
  | 0, _ => by simp [emFam]
  | m + 1, p => by
    obtain ⟨ih1, ih2⟩ := emFam_sorted m (p + 4)
    simp only [emFam, List.pairwise_cons, List.mem_cons, forall_eq_or_imp, D1, D2]
    and_intros
    all_goals first | omega | exact ih1 | (intro a ha; have := ih2 a ha; omega)

theorem emFam_star : ∀ m p, ∀ d ∈ emFam p m, d.ch = 0x2A
  | 0, _ => by simp [emFam]
  | m + 1, p => by
    have ih := emFam_star m (p + 4)
    simp only [emFam, List.mem_cons, forall_eq_or_imp, D1, D2]
    exact ⟨trivial, trivial, trivial, trivial, ih⟩

end Comrak.Cost
