/-
Helper lemmas for C13: bit-mask reasoning that lifts the kernel-evaluated checks over the regenerated
tables (`Comrak/Generated/SpecialChars.lean`) to per-byte statements.
-/
import Comrak.Inline.Dispatch
namespace Comrak
open Bytes

theorem testBit_maskOf (l : Bytes) (n : Nat) :
    (maskOf l).testBit n = l.any (fun b => b.toNat == n) := by
  induction l with
  | nil => simp [maskOf]
  | cons b r ih =>
    have : maskOf (b :: r) = maskOf r ||| (1 <<< b.toNat) := rfl
    rw [this, Nat.testBit_or, ih, Nat.one_shiftLeft, Nat.testBit_two_pow, List.any_cons, Bool.or_comm]
    congr 1

theorem trigger_eq_testBit (F : Feature) (c : UInt8) :
    trigger F c = (maskOf (triggerBytes F)).testBit c.toNat := by
  rw [testBit_maskOf, trigger]
  induction triggerBytes F with
  | nil => rfl
  | cons b r ih =>
    simp only [List.contains_cons, List.any_cons, ← ih]
    congr 1
    by_cases h : c = b
    · subst h; simp
    · have : ¬ b.toNat = c.toNat := fun e => h (UInt8.toNat_inj.mp e).symm
      have h1 : (c == b) = false := by simpa using h
      have h2 : (b.toNat == c.toNat) = false := by simpa using this
      rw [h1, h2]

theorem agreeOutside_testBit (a b t n : Nat) (h : agreeOutside a b t = true) (hn : n < 256)
    (ht : t.testBit n = false) : a.testBit n = b.testBit n := by
  have h0 : ((a ^^^ b) &&& ((2 ^ 256 - 1) ^^^ (t &&& (2 ^ 256 - 1)))) = 0 := by
    simpa [agreeOutside] using h
  have h1 := congrArg (fun x => x.testBit n) h0
  simp only [Nat.testBit_and, Nat.testBit_xor, Nat.testBit_two_pow_sub_one, Nat.zero_testBit, ht, hn,
    decide_true, Bool.bne_false, Bool.and_true] at h1
  cases ha : a.testBit n <;> cases hb : b.testBit n <;> simp_all

theorem Opts.tab_enable (o : Opts) (F : Feature) : (o.enable F).tab = o.tab.enable F := by
  cases F <;> rfl

/-- The kernel-evaluated check over the regenerated tables: for each of the 128 combinations of the
    table-feeding bits and each feature, switching the feature on changes each of the three tables at
    most at the feature's trigger bytes. -/
def tablesOk (t : TabBits) (F : Feature) : Bool :=
  let m := maskOf (triggerBytes F)
  agreeOutside (t.enable F).specialMask t.specialMask m
    && agreeOutside (t.enable F).skipMask t.skipMask m
    && agreeOutside (t.enable F).smartMask t.smartMask m

theorem tablesOk_all : ∀ a b c d e f g : Bool, ∀ F ∈ Feature.all, tablesOk ⟨a, b, c, d, e, f, g⟩ F = true := by
  decide +kernel

theorem tablesOk_opts (o : Opts) (F : Feature) : tablesOk o.tab F = true := by
  cases h : o.tab with
  | mk a b c d e f g => exact tablesOk_all a b c d e f g F (Feature.mem_all F)

/-- The smart table lies inside smart's trigger set, whatever the options. -/
def smartOk (t : TabBits) : Bool :=
  (t.smartMask &&& ((2 ^ 256 - 1) ^^^ maskOf (triggerBytes .smart))) == 0 && t.smartMask < 2 ^ 256

theorem smartOk_all : ∀ a b c d e f g : Bool, smartOk ⟨a, b, c, d, e, f, g⟩ = true := by
  decide +kernel

/-- No option outside the seven table bits changes a table (checked on the empty and on the full
    combination of table bits, with each other option switched on alone). -/
def othersOk : Bool :=
  Generated.otherOptionTables.all fun e =>
    e.2.1 == Generated.specialMasks.getD e.1 0 && e.2.2.1 == Generated.skipMasks.getD e.1 0
      && e.2.2.2 == Generated.smartMasks.getD e.1 0

theorem othersOk_holds : othersOk = true := by decide +kernel

end Comrak
