/-
C20 helper lemmas, renderer half (HTML and XML): what the formatter models do with a
`FrontMatter` node, and why the siblings that follow it render as they would on their own
(their `prev` / `index` context changes, which only table rows / header cells look at).
-/
import Comrak.Lemmas.HtmlTree
import Comrak.Lemmas.Xml
namespace Comrak
open Bytes

/-! ## HTML -/

/-- `render_frontmatter`: nothing is written, the writer state is untouched. -/
theorem renderT_frontMatter (o : HtmlOpts) (nt : NormTable) (cx : Ctx) (s : Bytes) (sp : Sp) (st : St) :
    renderT o nt cx (.node (.frontMatter s) sp .nil) st = ([], st) := by
  rw [renderT_node]
  simp [enter, exit, htmlChildren, renderF, W.nop]

/-- Below a parent that has no parent itself (`grand = none`: children of the root) no node
    looks at its index among the siblings (only `render_table_cell` reads it, through the
    grandparent's alignments). -/
theorem enter_index_irrel (o : HtmlOpts) (nt : NormTable) (parent prev : Option NodeValue) (last : Bool)
    (i j : Nat) (v : NodeValue) (sp : Sp) (cs : Forest) :
    enter o nt { parent := parent, grand := none, prev := prev, isLast := last, index := i } v sp cs
      = enter o nt { parent := parent, grand := none, prev := prev, isLast := last, index := j } v sp cs := by
  cases v <;> first | rfl | simp [enter]

theorem exit_index_irrel (o : HtmlOpts) (parent grand prev prev' : Option NodeValue) (last : Bool)
    (i j : Nat) (v : NodeValue) (cs : Forest) :
    exit o { parent := parent, grand := grand, prev := prev, isLast := last, index := i } v cs
      = exit o { parent := parent, grand := grand, prev := prev', isLast := last, index := j } v cs := by
  cases v <;> rfl

/-- `<thead>`/`<tbody>` placement: a preceding front matter node counts like no predecessor. -/
theorem rowSectionToks_frontMatter (h : Bool) (s : Bytes) :
    rowSectionToks h (some (.frontMatter s)) = rowSectionToks h none := by
  cases h <;> rfl

theorem enter_prev_frontMatter (o : HtmlOpts) (nt : NormTable) (parent grand : Option NodeValue) (last : Bool)
    (i : Nat) (s : Bytes) (v : NodeValue) (sp : Sp) (cs : Forest) :
    enter o nt { parent := parent, grand := grand, prev := some (.frontMatter s), isLast := last, index := i } v sp cs
      = enter o nt { parent := parent, grand := grand, prev := none, isLast := last, index := i } v sp cs := by
  cases v
  case tableRow hd => simp only [enter, rowSectionToks_frontMatter]
  all_goals rfl

theorem renderT_index_irrel (o : HtmlOpts) (nt : NormTable) (parent prev : Option NodeValue) (last : Bool)
    (i j : Nat) (t : Tree) (st : St) :
    renderT o nt { parent := parent, grand := none, prev := prev, isLast := last, index := i } t st
      = renderT o nt { parent := parent, grand := none, prev := prev, isLast := last, index := j } t st := by
  cases t with
  | node v sp cs =>
    rw [renderT_node, renderT_node, enter_index_irrel o nt parent prev last i j,
      exit_index_irrel o parent none prev prev last i j]

theorem renderT_prev_frontMatter (o : HtmlOpts) (nt : NormTable) (parent grand : Option NodeValue) (last : Bool)
    (i : Nat) (s : Bytes) (t : Tree) (st : St) :
    renderT o nt { parent := parent, grand := grand, prev := some (.frontMatter s), isLast := last, index := i } t st
      = renderT o nt { parent := parent, grand := grand, prev := none, isLast := last, index := i } t st := by
  cases t with
  | node v sp cs =>
    rw [renderT_node, renderT_node, enter_prev_frontMatter o nt parent grand last i s,
      exit_index_irrel o parent grand (some (.frontMatter s)) none last i i]

/-- Children of the root: shifting all sibling indices changes nothing. -/
theorem renderF_index_irrel (o : HtmlOpts) (nt : NormTable) (parent : Option NodeValue) :
    ∀ (f : Forest) (prev : Option NodeValue) (i j : Nat) (st : St),
      renderF o nt parent none prev i f st = renderF o nt parent none prev j f st
  | .nil, _, _, _, _ => rfl
  | .cons t ts, prev, i, j, st => by
    rw [renderF_cons, renderF_cons, renderT_index_irrel o nt parent prev ts.isNil i j,
      renderF_index_irrel o nt parent ts (some t.value) (i + 1) (j + 1)]

/-- The siblings after a front matter node at the top of the root render exactly as they do
    without it: same tokens, same final writer state. -/
theorem renderF_after_frontMatter (o : HtmlOpts) (nt : NormTable) (parent : Option NodeValue)
    (s : Bytes) (sp : Sp) (rest : Forest) (st : St) :
    renderF o nt parent none none 0 (.cons (.node (.frontMatter s) sp .nil) rest) st
      = renderF o nt parent none none 0 rest st := by
  rw [renderF_cons, renderT_frontMatter]
  simp only [List.nil_append, Tree.value]
  cases rest with
  | nil => rfl
  | cons t ts =>
    rw [renderF_cons, renderF_cons, renderT_prev_frontMatter, renderT_index_irrel o nt parent none ts.isNil 1 0,
      renderF_index_irrel o nt parent ts (some t.value) (1 + 1) (0 + 1)]

/-- The whole document: with and without the leading front matter node, same tokens and same
    final state. -/
theorem renderT_doc_frontMatter (o : HtmlOpts) (nt : NormTable) (s : Bytes) (spd sp : Sp) (rest : Forest) (st : St) :
    renderT o nt {} (.node .document spd (.cons (.node (.frontMatter s) sp .nil) rest)) st
      = renderT o nt {} (.node .document spd rest) st := by
  rw [renderT_node, renderT_node]
  have h := renderF_after_frontMatter o nt (some .document) s sp rest
  simp only [htmlChildren, if_true, enter, exit, W.nop, h]

/-! ## XML -/

/-- In XML a front matter node is an element of its own: one self-closing `<frontmatter />`
    (plus the position attribute when asked for); its payload is never written. -/
theorem renderXmlT_frontMatter (o : XmlOpts) (ind : Nat) (cx : XCtx) (s : Bytes) (sp : Sp) :
    renderXmlT o ind cx (.node (.frontMatter s) sp .nil)
      = [.empty ind XS.e_frontmatter (xmlSpAttr o sp)] := by
  simp [renderXmlT, xmlLiteral, xmlName, xmlAttrs, xmlKindAttrs, Forest.isNil]

/-- Only cells of a header row read their sibling index (`alignments[ix]`). -/
theorem xmlKindAttrs_index_irrel (parent grand : Option NodeValue) (i j : Nat) (v : NodeValue)
    (hp : parent ≠ some (.tableRow true)) :
    xmlKindAttrs { parent := parent, grand := grand, index := i } v
      = xmlKindAttrs { parent := parent, grand := grand, index := j } v := by
  cases v
  case tableCell =>
    simp only [xmlKindAttrs]
    split
    · simp_all
    · rfl
  all_goals rfl

theorem renderXmlT_index_irrel (o : XmlOpts) (ind : Nat) (parent grand : Option NodeValue) (i j : Nat)
    (hp : parent ≠ some (.tableRow true)) (t : Tree) :
    renderXmlT o ind { parent := parent, grand := grand, index := i } t
      = renderXmlT o ind { parent := parent, grand := grand, index := j } t := by
  cases t with
  | node v sp cs =>
    simp only [renderXmlT, xmlAttrs, xmlKindAttrs_index_irrel parent grand i j v hp]

theorem renderXmlF_index_irrel (o : XmlOpts) (ind : Nat) (parent grand : Option NodeValue)
    (hp : parent ≠ some (.tableRow true)) :
    ∀ (f : Forest) (i j : Nat), renderXmlF o ind parent grand i f = renderXmlF o ind parent grand j f
  | .nil, _, _ => rfl
  | .cons t ts, i, j => by
    simp only [renderXmlF]
    rw [renderXmlT_index_irrel o ind parent grand i j hp t,
      renderXmlF_index_irrel o ind parent grand hp ts (i + 1) (j + 1)]

end Comrak
