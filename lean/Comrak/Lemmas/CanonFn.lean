/-
C03, footnotes and whole documents.  The footnote definitions at the end of the tree are the only
nodes whose rendering reads and writes more of the writer state than `last_was_lf` (`footnote_ix`,
`written_footnote_ix`), so they are followed through with `RT w st st' bs`: run from the state
`st`, the writer `w` spells `bs` and ends in `st'`.
-/
import Comrak.Lemmas.CanonBlk
namespace Comrak.Canon
open Comrak Bytes

def RT (w : W) (st st' : St) (bs : Bytes) : Prop := spell (w st).1 = bs ∧ (w st).2 = st'

theorem RT_seq {a b : W} {st st1 st2 : St} {x y : Bytes} (ha : RT a st st1 x) (hb : RT b st1 st2 y) :
    RT (a ⨟ b) st st2 (x ++ y) := by
  obtain ⟨a1, a2⟩ := ha
  obtain ⟨b1, b2⟩ := hb
  refine ⟨?_, ?_⟩
  · simp only [W.seq_fst, spell_append, a1, a2, b1]
  · simp only [W.seq_snd, a2, b2]

theorem RT_of_R {w : W} {lf : Bool} {bs : Bytes} (h : R w lf bs) (st : St) (hl : st.lastLf = lf) :
    RT w st { st with lastLf := lastLfAfter lf bs } bs := h st hl

theorem RT_congr {w : W} {st st1 st2 : St} {x y : Bytes} (h : RT w st st1 x) (e1 : st1 = st2) (e2 : x = y) :
    RT w st st2 y := e1 ▸ e2 ▸ h

theorem RT_emit (ts : List Tok) (st : St) : RT (W.emit ts) st { st with lastLf := lastLfAfter st.lastLf (spell ts) } (spell ts) :=
  ⟨rfl, rfl⟩

/-- The blocks of a container followed by further siblings. -/
theorem blks_then : ∀ (bs : Blks), bs.safe = true →
    ∀ (tail : Forest) (p g prev : Option NodeValue) (idx : Nat) (st st2 : St) (X : Bytes), okParent p = true →
    (∀ prev' idx', RT (renderF {} {} p g prev' idx' tail)
        { st with lastLf := lastLfAfter st.lastLf (bs.html (pt p g) st.lastLf) } st2 X) →
    RT (renderF {} {} p g prev idx (bs.toForestThen tail)) st st2 (bs.html (pt p g) st.lastLf ++ X)
  | .nil, _, tail, p, g, prev, idx, st, st2, X, _, ht => by
    simp only [Blks.toForestThen, Blks.html, List.nil_append]
    have := ht prev idx
    simpa [Blks.html, lastLfAfter] using this
  | .cons b r, h, tail, p, g, prev, idx, st, st2, X, hp, ht => by
    simp only [Blks.safe, Bool.and_eq_true] at h
    simp only [Blks.toForestThen, renderF_cons, Blks.html]
    have hb := RT_of_R (blk_goal b h.1 { parent := p, grand := g, prev := prev, isLast := (r.toForestThen tail).isNil, index := idx }
      st.lastLf hp) st rfl
    have e : paraTight { parent := p, grand := g, prev := prev, isLast := (r.toForestThen tail).isNil, index := idx } = pt p g := rfl
    rw [e] at hb
    have hr := blks_then r h.2 tail p g (some b.toTree.value) (idx + 1)
      { st with lastLf := lastLfAfter st.lastLf (b.html (pt p g) st.lastLf) } st2 X hp
      (by
        intro prev' idx'
        have := ht prev' idx'
        simp only [Blks.html, atBol_eq, ← lastLfAfter_append] at this
        exact this)
    exact RT_congr (RT_seq hb hr) rfl (by simp [atBol_eq])

/-! ### Back-links -/

set_option maxRecDepth 8192 in
theorem spell_backrefs (name : Bytes) (hn : name.all isAsciiAlnum = true) (ix : Nat) : ∀ (k n : Nat),
    spell (backrefToks name ix k n) = refBackrefs name ix k n
  | 0, _ => rfl
  | k + 1, n => by
    have ih := spell_backrefs name hn ix k (n + 1)
    simp only [spell] at ih
    by_cases h1 : n > 1
    · simp only [backrefToks, refBackrefs, h1, if_true, spell, List.flatMap_append, List.flatMap_cons, List.flatMap_nil, Tok.spell, spellAttrs,
        Attr.spell, litAttr, spellVal, APart.spell, escapeHref_name name hn, ih, fnSuffix, List.append_nil]
      simp [S.t_a, S.a_href, S.v_hfnref, S.a_class, S.v_footnote_backref, S.a_data_footnote_backref, S.a_data_footnote_backref_idx,
        S.a_aria_label, S.v_back_to_reference, S.v_backarrow, S.t_sup, S.v_footnote_ref, H.sp, H.backref_open, H.dash, H.backref_cls,
        H.backref_aria, H.backref_arrow, H.backref_sup_open, H.backref_sup_close, H.a_close]
    · simp only [backrefToks, refBackrefs, h1, if_false, spell, List.flatMap_append, List.flatMap_cons, List.flatMap_nil, Tok.spell, spellAttrs,
        Attr.spell, litAttr, spellVal, APart.spell, escapeHref_name name hn, ih, fnSuffix, List.append_nil]
      simp [S.t_a, S.a_href, S.v_hfnref, S.a_class, S.v_footnote_backref, S.a_data_footnote_backref, S.a_data_footnote_backref_idx,
        S.a_aria_label, S.v_back_to_reference, S.v_backarrow, H.backref_open, H.backref_cls,
        H.backref_aria, H.backref_arrow, H.a_close]

/-! ### One footnote definition -/

/-- `<section class="footnotes" data-footnotes>\n<ol>\n` before the first note. -/
def secOpen (k : Nat) : Bytes := if k = 0 then H.fn_section_open else []

theorem spell_op_nonl (l : Bool) (t : Bytes) (as : List Attr) : lastLfAfter l (spell [Tok.op t as]) = false := by
  have : spell [Tok.op t as] = ([0x3C] ++ t ++ spellAttrs as) ++ [0x3E] := by simp [spell, Tok.spell]
  rw [this, lastLfAfter_snoc]; rfl

theorem RT_weq {w w' : W} {st st' : St} {x : Bytes} (h : RT w st st' x) (e : w' st = w st) : RT w' st st' x := by
  unfold RT at *; rw [e]; exact h

theorem spell_ends_nl (l : Bool) (ts : List Tok) : lastLfAfter l (spell (ts ++ [nl])) = true := by
  rw [spell_append]; exact lastLfAfter_append_nl _ _ _ rfl

theorem RT_nop (st : St) : RT W.nop st st [] := ⟨rfl, rfl⟩

theorem note_goal (n : Note) (hs : n.safe = true) (cx : Ctx) (hcp : cx.parent = some .document) (st : St) (hl : st.lastLf = true)
    (hw : st.writtenFnIx = st.fnIx) :
    RT (renderT {} {} cx n.toTree) st { st with fnIx := st.fnIx + 1, writtenFnIx := st.fnIx + 1, lastLf := true }
      (secOpen st.fnIx ++ refNote n (st.fnIx + 1)) := by
  simp only [Note.safe, Bool.and_eq_true] at hs
  obtain ⟨hn, hb⟩ := hs
  obtain ⟨lf, k, wk, an⟩ := st
  simp only at hl hw
  subst hl; subst hw
  let D : NodeValue := .footnoteDefinition n.name n.total
  let P : Tree := .node .paragraph {} n.body.toForest
  -- enter
  have hA : RT (enter {} {} cx D {} (.cons P .nil)) ⟨true, wk, wk, an⟩ ⟨false, wk + 1, wk, an⟩
      (secOpen wk ++ (H.fn_li_open ++ n.name ++ [0x22, 0x3E])) := by
    have hE : RT (W.emit [.op S.t_li [⟨S.a_id, some [.lit S.v_fn, .href n.name]⟩]]) ⟨true, wk + 1, wk, an⟩ ⟨false, wk + 1, wk, an⟩
        (H.fn_li_open ++ n.name ++ [0x22, 0x3E]) :=
      RT_congr (RT_emit _ _) (by simp [spell_op_nonl])
        (by simp [spell, Tok.spell, spellAttrs, Attr.spell, spellVal, APart.spell, escapeHref_name n.name hn, S.t_li, S.a_id, S.v_fn, H.fn_li_open])
    have hI : RT (fun (s : St) => (([] : List Tok), { s with fnIx := s.fnIx + 1 })) ⟨true, wk, wk, an⟩ ⟨true, wk + 1, wk, an⟩ [] :=
      ⟨rfl, rfl⟩
    by_cases h0 : wk = 0
    · have hO : RT (W.emit [.op S.t_section [litAttr S.a_class S.v_footnotes, ⟨S.a_data_footnotes, none⟩], nl, .op S.t_ol [], nl])
          ⟨true, wk, wk, an⟩ ⟨true, wk, wk, an⟩ H.fn_section_open :=
        RT_congr (RT_emit _ _) (by
            have := spell_ends_nl true [.op S.t_section [litAttr S.a_class S.v_footnotes, ⟨S.a_data_footnotes, none⟩], nl, .op S.t_ol []]
            simp only [List.cons_append, List.nil_append] at this
            simp [this])
          (by simp [spell, Tok.spell, spellAttrs, Attr.spell, litAttr, spellVal, APart.spell, nl, S.t_section, S.a_class, S.v_footnotes,
            S.a_data_footnotes, S.t_ol, H.fn_section_open])
      have := RT_seq (RT_seq hO hI) hE
      exact RT_congr (RT_weq this (by simp [D, enter, h0, spAttr])) rfl (by simp [secOpen, h0])
    · have := RT_seq (RT_seq (RT_nop _) hI) hE
      exact RT_congr (RT_weq this (by simp [D, enter, h0, spAttr])) rfl (by simp [secOpen, h0])
  -- the paragraph
  let cxP : Ctx := { parent := some D, grand := cx.parent, prev := none, isLast := true, index := 0 }
  have hpt : paraTight cxP = false := by simp [cxP, paraTight, hcp, D]
  have hP1 := RT_of_R (enter_para_loose cxP {} n.body.toForest false hpt) ⟨false, wk + 1, wk, an⟩ rfl
  have hP2 := RT_of_R (inls_goal n.body hb (some .paragraph) cxP.parent none 0 (lastLfAfter false (crB false ++ H.p_open)))
    ⟨lastLfAfter false (crB false ++ H.p_open), wk + 1, wk, an⟩ rfl
  have hX1 : RT (exit {} cxP .paragraph n.body.toForest)
      ⟨lastLfAfter (lastLfAfter false (crB false ++ H.p_open)) n.body.html, wk + 1, wk, an⟩ ⟨true, wk + 1, wk + 1, an⟩
      (H.sp ++ refBackrefs n.name (wk + 1) n.total 1 ++ H.p_close) := by
    have e : exit {} cxP .paragraph n.body.toForest =
        ((W.emit [.lit [0x20]] ⨟ (fun (s : St) => (putBackref n.name n.total s).1)) ⨟ W.emit [.cl S.t_p, nl]) := by
      simp [exit, hpt, cxP, D]
    rw [e]
    have h1 := RT_emit [.lit [0x20]] ⟨lastLfAfter (lastLfAfter false (crB false ++ H.p_open)) n.body.html, wk + 1, wk, an⟩
    have h2 : RT (fun (s : St) => (putBackref n.name n.total s).1) ⟨false, wk + 1, wk, an⟩
        ⟨lastLfAfter false (refBackrefs n.name (wk + 1) n.total 1), wk + 1, wk + 1, an⟩ (refBackrefs n.name (wk + 1) n.total 1) := by
      have hlt : ¬ (wk + 1 ≤ wk) := by omega
      refine ⟨?_, ?_⟩
      · simp [putBackref, W.emit, spell_backrefs n.name hn, hlt]
      · simp [putBackref, W.emit, spell_backrefs n.name hn, hlt]
    have h3 := RT_emit [.cl S.t_p, nl] ⟨lastLfAfter false (refBackrefs n.name (wk + 1) n.total 1), wk + 1, wk + 1, an⟩
    refine RT_congr (RT_seq (RT_seq (RT_congr h1 (by simp [spell, Tok.spell, lastLfAfter]) rfl) h2) h3) ?_ ?_
    · have := spell_ends_nl (lastLfAfter false (refBackrefs n.name (wk + 1) n.total 1)) [.cl S.t_p]
      simp only [List.cons_append, List.nil_append] at this
      simp [this]
    · simp [spell, Tok.spell, nl, H.sp, H.p_close, S.t_p]
  have hPara : RT (renderT {} {} cxP P) ⟨false, wk + 1, wk, an⟩ ⟨true, wk + 1, wk + 1, an⟩
      ((crB false ++ H.p_open) ++ n.body.html ++ (H.sp ++ refBackrefs n.name (wk + 1) n.total 1 ++ H.p_close)) := by
    rw [renderT_eq]
    exact RT_congr (RT_seq (RT_seq hP1 (RT_weq hP2 (by simp [htmlChildren]))) hX1) rfl rfl
  have hC : RT (renderF {} {} (some D) cx.parent none 0 (.cons P .nil)) ⟨false, wk + 1, wk, an⟩ ⟨true, wk + 1, wk + 1, an⟩
      ((crB false ++ H.p_open) ++ n.body.html ++ (H.sp ++ refBackrefs n.name (wk + 1) n.total 1 ++ H.p_close)) := by
    rw [renderF_cons, renderF_nil]
    exact RT_congr (RT_seq hPara (RT_nop _)) rfl (by simp)
  -- exit of the definition: the back-links are written already
  have hX2 : RT (exit {} cx D (.cons P .nil)) ⟨true, wk + 1, wk + 1, an⟩ ⟨true, wk + 1, wk + 1, an⟩ H.li_close := by
    refine ⟨?_, ?_⟩ <;>
      simp [D, exit, putBackref, W.seq, W.emit, W.nop, spell, Tok.spell, nl, H.li_close, S.t_li, lastLfAfter]
  rw [Note.toTree, renderT_eq]
  refine RT_congr (RT_seq (RT_seq hA (RT_weq hC (by simp [htmlChildren, D, P]))) hX2) rfl ?_
  simp [refNote, crB, H.nl, H.p_open, H.fn_li_mid, H.fn_p_close, H.p_close, H.li_close]

/-! ### The footnote section -/

/-- The notes as the formatter writes them when `k` notes have been written before. -/
def notesFrom : Nat → List Note → Bytes
  | _, [] => []
  | k, n :: r => secOpen k ++ refNote n (k + 1) ++ notesFrom (k + 1) r

theorem notes_goal : ∀ (notes : List Note), notes.all Note.safe = true →
    ∀ (g prev : Option NodeValue) (idx : Nat) (k : Nat) (an : List Bytes),
    RT (renderF {} {} (some .document) g prev idx (notesForest notes)) ⟨true, k, k, an⟩
      ⟨true, k + notes.length, k + notes.length, an⟩ (notesFrom k notes)
  | [], _, g, prev, idx, k, an => by
    simp only [notesForest, renderF_nil, notesFrom]
    exact RT_nop _
  | n :: r, h, g, prev, idx, k, an => by
    simp only [List.all_cons, Bool.and_eq_true] at h
    simp only [notesForest, renderF_cons, notesFrom]
    have h1 := note_goal n h.1 { parent := some .document, grand := g, prev := prev, isLast := (notesForest r).isNil, index := idx }
      rfl ⟨true, k, k, an⟩ rfl rfl
    have h2 := notes_goal r h.2 g (some n.toTree.value) (idx + 1) (k + 1) an
    refine RT_congr (RT_seq h1 h2) ?_ (by simp)
    simp only [List.length_cons]
    congr 1 <;> omega

theorem notesFrom_items : ∀ (notes : List Note) (k : Nat), 0 < k → notesFrom k notes = refNoteItems (k + 1) notes
  | [], _, _ => rfl
  | n :: r, k, hk => by
    have : secOpen k = [] := by simp [secOpen]; omega
    simp [notesFrom, refNoteItems, this, notesFrom_items r (k + 1) (by omega)]

/-- Whole documents: the model of `format_document` on `toTree d` spells `refHtml d`. -/
theorem doc_goal (d : Doc) (h : d.safe = true) : renderHtml {} {} d.toTree = d.refHtml := by
  simp only [Doc.safe, Bool.and_eq_true] at h
  have hn := notes_goal d.notes h.2 none
  have hl : lastLfAfter true (d.blocks.html false true) = true := blks_nl d.blocks
  have hb := blks_then d.blocks h.1 (notesForest d.notes) (some .document) none none 0 ⟨true, 0, 0, []⟩
    ⟨true, 0 + d.notes.length, 0 + d.notes.length, []⟩ (notesFrom 0 d.notes) rfl
    (by
      intro prev' idx'
      have e : pt (some .document) none = false := by simp [pt, paraTight]
      simp only [e, hl]
      exact hn prev' idx' 0 [])
  have hd : RT (renderT {} {} {} d.toTree) ⟨true, 0, 0, []⟩ ⟨true, 0 + d.notes.length, 0 + d.notes.length, []⟩
      (d.blocks.html false true ++ notesFrom 0 d.notes) := by
    have e1 : enter {} {} {} .document {} (d.blocks.toForestThen (notesForest d.notes)) = W.nop := rfl
    have e2 : exit {} {} .document (d.blocks.toForestThen (notesForest d.notes)) = W.nop := rfl
    simp only [Doc.toTree, renderT_eq, e1, e2]
    have := RT_seq (RT_seq (RT_nop _) hb) (RT_nop _)
    exact RT_congr (RT_weq this (by simp [htmlChildren])) rfl (by simp [pt, paraTight])
  obtain ⟨h1, h2⟩ := hd
  have hst : ({} : St) = ⟨true, 0, 0, []⟩ := rfl
  unfold renderHtml renderToks
  simp only [W.seq_fst, spell_append, hst, h1, h2, Doc.refHtml]
  cases hnl : d.notes with
  | nil => simp [finish, spell, notesFrom, refNotes]
  | cons n r =>
    simp [finish, spell, Tok.spell, nl, W.emit, notesFrom, refNotes, secOpen, refNoteItems, notesFrom_items r 1 (by omega),
      H.fn_section_close, S.t_ol, S.t_section]

end Comrak.Canon
