/-
C18 helper lemmas (part 2): the writer state after every step is the same with and without
position output, so the per-node erasure lemmas lift to whole trees.
-/
import Comrak.Lemmas.HtmlSp
import Comrak.Lemmas.HtmlTree
namespace Comrak
open Bytes

theorem lastLfAfter_append (c : Bool) (a b : Bytes) :
    lastLfAfter c (a ++ b) = lastLfAfter (lastLfAfter c a) b := by
  unfold lastLfAfter
  cases b with
  | nil => simp
  | cons x r =>
    have : (x :: r).getLast? = some ((x :: r).getLast (by simp)) := List.getLast?_eq_some_getLast (by simp)
    simp [List.getLast?_append, this]

theorem spell_append (a b : List Tok) : spell (a ++ b) = spell a ++ spell b := by
  simp [spell, List.flatMap_append]

theorem spell_cons (t : Tok) (ts : List Tok) : spell (t :: ts) = t.spell ++ spell ts := by
  simp [spell]

theorem lastLfAfter_closeAngle (c : Bool) (x : Bytes) : lastLfAfter c (x ++ [0x3E]) = false := by
  simp [lastLfAfter]

theorem lastLf_eraseTok (c : Bool) (t : Tok) :
    lastLfAfter c (Tok.spell (eraseSpTok t)) = lastLfAfter c (Tok.spell t) := by
  cases t with
  | op n as =>
    simp only [eraseSpTok, Tok.spell]
    rw [lastLfAfter_closeAngle, lastLfAfter_closeAngle]
  | vd n as =>
    simp only [eraseSpTok, Tok.spell]
    have : S.v_voidend = [0x20, 0x2F] ++ [0x3E] := by decide
    rw [this, ← List.append_assoc, ← List.append_assoc, lastLfAfter_closeAngle, lastLfAfter_closeAngle]
  | _ => rfl

theorem lastLf_erase (c : Bool) (ts : List Tok) :
    lastLfAfter c (spell (eraseSp ts)) = lastLfAfter c (spell ts) := by
  induction ts generalizing c with
  | nil => rfl
  | cons t r ih =>
    simp only [eraseSp, List.map_cons, spell_cons, lastLfAfter_append] at ih ⊢
    rw [lastLf_eraseTok]
    exact ih _

@[simp] theorem emit_lastLf (ts : List Tok) (st : St) :
    (W.emit ts st).2.lastLf = lastLfAfter st.lastLf (spell ts) := rfl
@[simp] theorem cr_lastLf (st : St) : (W.cr st).2.lastLf = lastLfAfter st.lastLf (spell (W.cr st).1) := by
  unfold W.cr; split
  · rename_i h; simp [spell, lastLfAfter]
  · simp [spell, Tok.spell, lastLfAfter]
@[simp] theorem spell_nil : spell [] = [] := rfl
@[simp] theorem lastLfAfter_nil (c : Bool) : lastLfAfter c [] = c := rfl

theorem putBackref_lastLf (name : Bytes) (total : Nat) (st : St) :
    (putBackref name total st).1.2.lastLf = lastLfAfter st.lastLf (spell (putBackref name total st).1.1) := by
  unfold putBackref
  by_cases h : st.writtenFnIx ≥ st.fnIx
  · simp [h]
  · simp [h]

/-- The writer's `last_was_lf` after `enter` is determined by what `enter` wrote. -/
theorem enter_lastLf (o : HtmlOpts) (nt : NormTable) (cx : Ctx) (v : NodeValue) (sp : Sp) (cs : Forest) (st : St) :
    (enter o nt cx v sp cs st).2.lastLf = lastLfAfter st.lastLf (spell (enter o nt cx v sp cs st).1) := by
  cases v
  case heading level setext =>
    cases h : o.headerIds <;> simp [enter, h, spell_append, spell_cons, lastLfAfter_append]
  case list l => cases hl : l.ty <;> simp [enter, hl, spell_append, lastLfAfter_append]
  all_goals simp [enter, spell_append, lastLfAfter_append]
  all_goals (repeat' split)
  all_goals (try simp_all [spell_append, lastLfAfter_append])

theorem enter_written (o : HtmlOpts) (nt : NormTable) (cx : Ctx) (v : NodeValue) (sp : Sp) (cs : Forest) (st : St) :
    (enter o nt cx v sp cs st).2.writtenFnIx = st.writtenFnIx := by
  cases v
  case heading level setext => cases h : o.headerIds <;> simp [enter, h]
  case footnoteDefinition name total => simp [enter]; split <;> simp
  case list l => cases hl : l.ty <;> simp [enter, hl]
  all_goals simp [enter]
  all_goals (repeat' split)
  all_goals (try simp_all)

theorem enter_anchors_withSp (o : HtmlOpts) (nt : NormTable) (cx : Ctx) (v : NodeValue) (sp : Sp) (cs : Forest) (st : St) :
    (enter (withSp o true) nt cx v sp cs st).2.anchors = (enter (withSp o false) nt cx v sp cs st).2.anchors := by
  cases v
  case heading level setext => cases h : o.headerIds <;> simp [enter, h]
  case footnoteDefinition name total => simp [enter]; split <;> simp
  case list l => cases hl : l.ty <;> simp [enter, hl]
  all_goals simp [enter]
  all_goals (repeat' split)
  all_goals (try simp_all)

theorem St.ext' (a b : St) (h1 : a.lastLf = b.lastLf) (h2 : a.fnIx = b.fnIx) (h3 : a.writtenFnIx = b.writtenFnIx)
    (h4 : a.anchors = b.anchors) : a = b := by
  cases a; cases b; simp_all

/-- Entering a node leaves the writer in the same state whether or not positions are written. -/
theorem enter_state_withSp (o : HtmlOpts) (nt : NormTable) (cx : Ctx) (v : NodeValue) (sp : Sp) (cs : Forest) (st : St) :
    (enter (withSp o true) nt cx v sp cs st).2 = (enter (withSp o false) nt cx v sp cs st).2 := by
  apply St.ext'
  · rw [enter_lastLf, enter_lastLf, ← enter_eraseSp, lastLf_erase]
  · rw [enter_fnIx, enter_fnIx]
  · rw [enter_written, enter_written]
  · exact enter_anchors_withSp o nt cx v sp cs st

theorem eraseSp_append (a b : List Tok) : eraseSp (a ++ b) = eraseSp a ++ eraseSp b := by
  simp [eraseSp]

mutual
theorem renderT_withSp (o : HtmlOpts) (nt : NormTable) :
    ∀ (t : Tree) (cx : Ctx) (st : St),
      eraseSp (renderT (withSp o true) nt cx t st).1 = (renderT (withSp o false) nt cx t st).1 ∧
      (renderT (withSp o true) nt cx t st).2 = (renderT (withSp o false) nt cx t st).2
  | .node v sp cs, cx, st => by
    rw [renderT_node, renderT_node]
    simp only [eraseSp_append]
    have hs := enter_state_withSp o nt cx v sp cs st
    have ht := enter_eraseSp o nt cx v sp cs st
    rw [hs]
    by_cases hc : htmlChildren v = true
    · simp only [hc, if_true]
      obtain ⟨f1, f2⟩ := renderF_withSp o nt cs (some v) cx.parent none 0 (enter (withSp o false) nt cx v sp cs st).2
      rw [f2, ht, f1, exit_withSp, exit_withSp]
      constructor
      · congr 1
        have := exit_eraseSp o cx v cs (renderF (withSp o false) nt (some v) cx.parent none 0 cs (enter (withSp o false) nt cx v sp cs st).2).2
        rw [exit_withSp, exit_withSp] at this
        exact this
      · rfl
    · have hc' : htmlChildren v = false := by simpa using hc
      simp only [hc', Bool.false_eq_true, if_false, ht, exit_withSp]
      constructor
      · have := exit_eraseSp o cx v cs (enter (withSp o false) nt cx v sp cs st).2
        rw [exit_withSp, exit_withSp] at this
        simp [eraseSp] at this ⊢
        exact this
      · trivial
theorem renderF_withSp (o : HtmlOpts) (nt : NormTable) :
    ∀ (f : Forest) (parent grand prev : Option NodeValue) (idx : Nat) (st : St),
      eraseSp (renderF (withSp o true) nt parent grand prev idx f st).1 = (renderF (withSp o false) nt parent grand prev idx f st).1 ∧
      (renderF (withSp o true) nt parent grand prev idx f st).2 = (renderF (withSp o false) nt parent grand prev idx f st).2
  | .nil, _, _, _, _, _ => by simp [renderF, eraseSp]
  | .cons t ts, parent, grand, prev, idx, st => by
    rw [renderF_cons, renderF_cons]
    simp only [eraseSp_append]
    obtain ⟨t1, t2⟩ := renderT_withSp o nt t { parent := parent, grand := grand, prev := prev, isLast := ts.isNil, index := idx } st
    rw [t2]
    obtain ⟨f1, f2⟩ := renderF_withSp o nt ts parent grand (some t.value) (idx + 1)
      (renderT (withSp o false) nt { parent := parent, grand := grand, prev := prev, isLast := ts.isNil, index := idx } t st).2
    rw [t1, f1, f2]
    exact ⟨rfl, rfl⟩
end

end Comrak
