/-
C03: the tree a canonical document spells satisfies `Shape` (C04's predicate): every edge is in
the containment table, heading levels are 1..6.
-/
import Comrak.Shape
import Comrak.Canon.Ok
namespace Comrak.Canon
open Comrak Bytes

def inlineParent : NodeValue → Bool
  | .paragraph | .heading .. | .emph | .strong | .strikethrough | .link .. | .image .. => true
  | _ => false

def blockParent : NodeValue → Bool
  | .document | .blockQuote | .item _ => true
  | _ => false

theorem shape_leaf_inline (p v : NodeValue) (hp : inlineParent p = true)
    (hv : v.kind = .text ∨ v.kind = .code ∨ v.kind = .softBreak ∨ v.kind = .lineBreak) :
    shapeT (some p) (leaf v) = true := by
  cases p <;> simp [inlineParent] at hp <;>
    (cases v <;> simp_all [NodeValue.kind, leaf, shapeT, shapeF, canContain, Kind.isBlock, placeOk, localOk])

theorem shape_node_inline (p v : NodeValue) (cs : Forest) (hp : inlineParent p = true)
    (hv : v = .emph ∨ v = .strong ∨ v = .strikethrough ∨ (∃ u t, v = .link u t) ∨ (∃ u t, v = .image u t))
    (hc : shapeF (some v) cs = true) :
    shapeT (some p) (.node v {} cs) = true := by
  rcases hv with rfl | rfl | rfl | ⟨u, t, rfl⟩ | ⟨u, t, rfl⟩ <;>
    (cases p <;> simp_all [inlineParent, NodeValue.kind, shapeT, canContain, Kind.isBlock, placeOk, localOk])

mutual
theorem inl_shape : ∀ (i : Inl) (p : NodeValue), inlineParent p = true → shapeT (some p) i.toTree = true
  | .text as, p, hp => shape_leaf_inline p _ hp (by simp [NodeValue.kind])
  | .code n s, p, hp => shape_leaf_inline p _ hp (by simp [NodeValue.kind])
  | .hard b, p, hp => shape_leaf_inline p _ hp (by simp [NodeValue.kind])
  | .soft, p, hp => shape_leaf_inline p _ hp (by simp [NodeValue.kind])
  | .emph _ cs, p, hp => shape_node_inline p _ _ hp (by simp) (inls_shape cs .emph rfl)
  | .strong _ cs, p, hp => shape_node_inline p _ _ hp (by simp) (inls_shape cs .strong rfl)
  | .strike cs, p, hp => shape_node_inline p _ _ hp (by simp) (inls_shape cs .strikethrough rfl)
  | .link u t _ _ cs, p, hp => shape_node_inline p _ _ hp (by simp) (inls_shape cs (.link u t) rfl)
  | .image u t _ cs, p, hp => shape_node_inline p _ _ hp (by simp) (inls_shape cs (.image u t) rfl)
  | .autolink s r, p, hp => by
    refine shape_node_inline p _ _ hp (Or.inr (Or.inr (Or.inr (Or.inl ⟨_, _, rfl⟩)))) ?_
    simp only [shapeF, Bool.and_true]
    exact shape_leaf_inline _ _ rfl (by simp [NodeValue.kind])
theorem inls_shape : ∀ (is : Inls) (p : NodeValue), inlineParent p = true → shapeF (some p) is.toForest = true
  | .nil, _, _ => rfl
  | .cons i r, p, hp => by
    simp only [Inls.toForest, shapeF, Bool.and_eq_true]
    exact ⟨inl_shape i p hp, inls_shape r p hp⟩
end

theorem shape_block_node (p v : NodeValue) (cs : Forest) (hp : blockParent p = true)
    (hv : v = .paragraph ∨ v = .blockQuote ∨ v = .thematicBreak ∨ (∃ l, v = .list l) ∨
      (∃ a b c d e f, v = .codeBlock a b c d e f) ∨ (∃ l s, v = .heading l s ∧ 1 ≤ l ∧ l ≤ 6))
    (hc : shapeF (some v) cs = true) :
    shapeT (some p) (.node v {} cs) = true := by
  rcases hv with rfl | rfl | rfl | ⟨l, rfl⟩ | ⟨a, b, c, d, e, f, rfl⟩ | ⟨l, s, rfl, h1, h2⟩ <;>
    (cases p <;> simp_all [blockParent, NodeValue.kind, shapeT, canContain, Kind.isBlock, placeOk, localOk])

mutual
theorem blk_shape : ∀ (b : Blk) (p : NodeValue) (tight : Bool) (bullet : UInt8) (idx : Nat) (prev : Prev),
    blockParent p = true → b.wf tight bullet idx prev = true → shapeT (some p) b.toTree = true
  | .para is, p, _, _, _, _, hp, _ => shape_block_node p _ _ hp (by simp) (inls_shape is .paragraph rfl)
  | .heading l is, p, _, _, _, _, hp, h => by
    simp only [Blk.wf, Bool.and_eq_true, decide_eq_true_eq] at h
    exact shape_block_node p _ _ hp (Or.inr (Or.inr (Or.inr (Or.inr (Or.inr ⟨l, false, rfl, h.1.1.1, h.1.1.2⟩)))))
      (inls_shape is (.heading l false) rfl)
  | .setext l n is, p, _, _, _, _, hp, h => by
    simp only [Blk.wf, Bool.and_eq_true, Bool.or_eq_true, beq_iff_eq] at h
    have hl : 1 ≤ l ∧ l ≤ 6 := by rcases h.1.1.1.1.1 with h1 | h1 <;> omega
    exact shape_block_node p _ _ hp (Or.inr (Or.inr (Or.inr (Or.inr (Or.inr ⟨l, true, rfl, hl.1, hl.2⟩)))))
      (inls_shape is (.heading l true) rfl)
  | .hr c n, p, _, _, _, _, hp, _ => shape_block_node p _ _ hp (by simp) rfl
  | .icode ls, p, _, _, _, _, hp, _ => shape_block_node p _ _ hp (by simp) rfl
  | .fence c len info ls, p, _, _, _, _, hp, _ => shape_block_node p _ _ hp (by simp) rfl
  | .quote bs, p, _, _, _, _, hp, h => by
    simp only [Blk.wf, Bool.and_eq_true] at h
    exact shape_block_node p _ _ hp (by simp) (blks_shape bs .blockQuote false 0 0 .none rfl h.2)
  | .list m items, p, _, _, _, _, hp, h => by
    simp only [Blk.wf, Bool.and_eq_true] at h
    exact shape_block_node p _ _ hp (Or.inr (Or.inr (Or.inr (Or.inl ⟨_, rfl⟩)))) (items_shape items m m.start _ h.2)
theorem blks_shape : ∀ (bs : Blks) (p : NodeValue) (tight : Bool) (bullet : UInt8) (idx : Nat) (prev : Prev),
    blockParent p = true → bs.wf tight bullet idx prev = true → shapeF (some p) bs.toForest = true
  | .nil, _, _, _, _, _, _, _ => rfl
  | .cons b r, p, tight, bullet, idx, prev, hp, h => by
    simp only [Blks.wf, Bool.and_eq_true] at h
    simp only [Blks.toForest, shapeF, Bool.and_eq_true]
    exact ⟨blk_shape b p tight bullet idx prev hp h.1, blks_shape r p tight bullet (idx + 1) _ hp h.2⟩
theorem items_shape : ∀ (items : Items) (m : Marker) (k : Nat) (L : NList),
    items.wf m = true → shapeF (some (.list L)) (items.toForest m k) = true
  | .nil, _, _, _, _ => rfl
  | .cons bs r, m, k, L, h => by
    simp only [Items.wf, Bool.and_eq_true] at h
    simp only [Items.toForest, shapeF, Bool.and_eq_true]
    refine ⟨?_, items_shape r m (k + 1) L h.2⟩
    have hc := blks_shape bs (.item (m.nlist k false)) m.tight _ 0 .none rfl h.1.2
    simp [shapeT, canContain, NodeValue.kind, Kind.isBlock, placeOk, localOk, hc]
end

theorem doc_shape (d : Doc) (h : d.wf = true) : Shape d.toTree = true := by
  simp only [Doc.wf, Bool.and_eq_true] at h
  have hc := blks_shape d.blocks .document false 0 0 .none rfl h.1
  simp [Shape, Doc.toTree, shapeT, placeOk, localOk, hc]

end Comrak.Canon
