/-
C03: the tree a canonical document spells satisfies `Shape` (C04's predicate): every edge is in
the containment table, heading levels are 1..6.
-/
import Comrak.Shape
import Comrak.Canon.Ok
namespace Comrak.Canon
open Comrak Bytes

def inlineParent : NodeValue → Bool
  | .paragraph | .heading .. | .emph | .strong | .strikethrough | .link .. | .image .. => true
  | _ => false

def blockParent : NodeValue → Bool
  | .document | .blockQuote | .item _ | .taskItem _ => true
  | _ => false

theorem shape_leaf_inline (p v : NodeValue) (hp : inlineParent p = true)
    (hv : v.kind = .text ∨ v.kind = .code ∨ v.kind = .softBreak ∨ v.kind = .lineBreak ∨ v.kind = .footnoteReference) :
    shapeT (some p) (leaf v) = true := by
  cases p <;> simp [inlineParent] at hp <;>
    (cases v <;> simp_all [NodeValue.kind, leaf, shapeT, shapeF, canContain, Kind.isBlock, placeOk, localOk])

theorem shape_node_inline (p v : NodeValue) (cs : Forest) (hp : inlineParent p = true)
    (hv : v = .emph ∨ v = .strong ∨ v = .strikethrough ∨ (∃ u t, v = .link u t) ∨ (∃ u t, v = .image u t))
    (hc : shapeF (some v) cs = true) :
    shapeT (some p) (.node v {} cs) = true := by
  rcases hv with rfl | rfl | rfl | ⟨u, t, rfl⟩ | ⟨u, t, rfl⟩ <;>
    (cases p <;> simp_all [inlineParent, NodeValue.kind, shapeT, canContain, Kind.isBlock, placeOk, localOk])

mutual
theorem inl_shape : ∀ (i : Inl) (p : NodeValue), inlineParent p = true → shapeT (some p) i.toTree = true
  | .text as, p, hp => shape_leaf_inline p _ hp (by simp [NodeValue.kind])
  | .code n s, p, hp => shape_leaf_inline p _ hp (by simp [NodeValue.kind])
  | .hard b, p, hp => shape_leaf_inline p _ hp (by simp [NodeValue.kind])
  | .soft, p, hp => shape_leaf_inline p _ hp (by simp [NodeValue.kind])
  | .fnref .., p, hp => shape_leaf_inline p _ hp (by simp [NodeValue.kind])
  | .emph _ cs, p, hp => shape_node_inline p _ _ hp (by simp) (inls_shape cs .emph rfl)
  | .strong _ cs, p, hp => shape_node_inline p _ _ hp (by simp) (inls_shape cs .strong rfl)
  | .strike cs, p, hp => shape_node_inline p _ _ hp (by simp) (inls_shape cs .strikethrough rfl)
  | .link u t _ _ cs, p, hp => shape_node_inline p _ _ hp (by simp) (inls_shape cs (.link u t) rfl)
  | .image u t _ cs, p, hp => shape_node_inline p _ _ hp (by simp) (inls_shape cs (.image u t) rfl)
  | .autolink s r, p, hp => by
    refine shape_node_inline p _ _ hp (Or.inr (Or.inr (Or.inr (Or.inl ⟨_, _, rfl⟩)))) ?_
    simp only [shapeF, Bool.and_true]
    exact shape_leaf_inline _ _ rfl (by simp [NodeValue.kind])
theorem inls_shape : ∀ (is : Inls) (p : NodeValue), inlineParent p = true → shapeF (some p) is.toForest = true
  | .nil, _, _ => rfl
  | .cons i r, p, hp => by
    simp only [Inls.toForest, shapeF, Bool.and_eq_true]
    exact ⟨inl_shape i p hp, inls_shape r p hp⟩
end

/-! ### Table cells -/

theorem cell_inl_shape : ∀ (i : Inl) (a b : Bool) (p n : UInt8) (f l : Bool) (pc : Nat),
    i.wf a b false p n f l pc = true → shapeT (some .tableCell) i.toTree = true
  | .text as, _, _, _, _, _, _, _, _ => by
    simp [Inl.toTree, leaf, shapeT, shapeF, canContain, NodeValue.kind, Kind.isBlock, placeOk, localOk]
  | .code n s, _, _, _, _, _, _, _, _ => by
    simp [Inl.toTree, leaf, shapeT, shapeF, canContain, NodeValue.kind, Kind.isBlock, placeOk, localOk]
  | .emph _ cs, _, _, _, _, _, _, _, _ => by
    simp [Inl.toTree, shapeT, canContain, NodeValue.kind, Kind.isBlock, placeOk, localOk, inls_shape cs .emph rfl]
  | .strong _ cs, _, _, _, _, _, _, _, _ => by
    simp [Inl.toTree, shapeT, canContain, NodeValue.kind, Kind.isBlock, placeOk, localOk, inls_shape cs .strong rfl]
  | .strike cs, _, _, _, _, _, _, _, _ => by
    simp [Inl.toTree, shapeT, canContain, NodeValue.kind, Kind.isBlock, placeOk, localOk, inls_shape cs .strikethrough rfl]
  | .link u t _ _ cs, _, _, _, _, _, _, _, _ => by
    simp [Inl.toTree, shapeT, canContain, NodeValue.kind, Kind.isBlock, placeOk, localOk, inls_shape cs (.link u t) rfl]
  | .image u t _ cs, _, _, _, _, _, _, _, _ => by
    simp [Inl.toTree, shapeT, canContain, NodeValue.kind, Kind.isBlock, placeOk, localOk, inls_shape cs (.image u t) rfl]
  | .autolink s r, _, _, _, _, _, _, _, _ => by
    simp [Inl.toTree, leaf, shapeT, shapeF, canContain, NodeValue.kind, Kind.isBlock, placeOk, localOk]
  | .hard _, _, _, _, _, _, _, _, h => by simp [Inl.wf] at h
  | .soft, _, _, _, _, _, _, _, h => by simp [Inl.wf] at h
  | .fnref .., _, _, _, _, _, _, _, _ => by
    simp [Inl.toTree, leaf, shapeT, shapeF, canContain, NodeValue.kind, Kind.isBlock, placeOk, localOk]

theorem cell_inls_shape : ∀ (is : Inls) (a b : Bool) (p n : UInt8) (f : Bool) (pc : Nat),
    is.wf a b false p n f pc = true → shapeF (some .tableCell) is.toForest = true
  | .nil, _, _, _, _, _, _, _ => rfl
  | .cons i r, a, b, p, n, f, pc, h => by
    simp only [Inls.wf, Bool.and_eq_true] at h
    simp only [Inls.toForest, shapeF, Bool.and_eq_true]
    exact ⟨cell_inl_shape i _ _ _ _ _ _ _ h.1.2, cell_inls_shape r _ _ _ _ _ _ h.2⟩

theorem cellsForest_length : ∀ cs : List Inls, (cellsForest cs).length = cs.length
  | [] => rfl
  | c :: r => by simp [cellsForest, Forest.length, cellsForest_length r]

theorem cellsForest_allCells : ∀ cs : List Inls, allCells (cellsForest cs) = true
  | [] => rfl
  | c :: r => by simp [cellsForest, allCells, cellsForest_allCells r]

theorem cellsForest_shape (hd : Bool) : ∀ cs : List Inls, cs.all cellWf = true →
    shapeF (some (.tableRow hd)) (cellsForest cs) = true
  | [], _ => rfl
  | c :: r, h => by
    simp only [List.all_cons, Bool.and_eq_true] at h
    have hc : shapeF (some .tableCell) c.toForest = true := by
      have := h.1
      simp only [cellWf, Bool.and_eq_true] at this
      exact cell_inls_shape c _ _ _ _ _ _ this.1
    simp [cellsForest, shapeF, shapeT, canContain, NodeValue.kind, placeOk, isRowV, localOk, hc,
      cellsForest_shape hd r h.2]

theorem row_shape (al : List Align) (a b c : Nat) (hd : Bool) (cs : List Inls) (h : cs.all cellWf = true) :
    shapeT (some (.table al a b c)) (.node (.tableRow hd) {} (cellsForest cs)) = true := by
  simp [shapeT, canContain, NodeValue.kind, placeOk, isTable, localOk, cellsForest_allCells, cellsForest_shape hd cs h]

theorem rowsForest_shape (al : List Align) (a b c n : Nat) : ∀ rows : List (List Inls),
    rows.all (fun r => r.length == n) = true → rows.all (fun r => r.all cellWf) = true →
    shapeF (some (.table al a b c)) (rowsForest rows) = true ∧ restRows (rowsForest rows) = true ∧
      cellsOk n (rowsForest rows) = true
  | [], _, _ => ⟨rfl, rfl, rfl⟩
  | r :: rs, h1, h2 => by
    simp only [List.all_cons, Bool.and_eq_true, beq_iff_eq] at h1 h2
    obtain ⟨i1, i2, i3⟩ := rowsForest_shape al a b c n rs (by simpa using h1.2) h2.2
    refine ⟨?_, ?_, ?_⟩
    · simp only [rowsForest, shapeF, Bool.and_eq_true]; exact ⟨row_shape al a b c false r h2.1, i1⟩
    · simp [rowsForest, restRows, i2]
    · simp [rowsForest, cellsOk, cellsForest_length, h1.1, i3]

theorem shape_block_node (p v : NodeValue) (cs : Forest) (hp : blockParent p = true)
    (hv : v = .paragraph ∨ v = .blockQuote ∨ v = .thematicBreak ∨ (∃ l, v = .list l) ∨
      (∃ a b c d e f, v = .codeBlock a b c d e f) ∨ (∃ l s, v = .heading l s ∧ 1 ≤ l ∧ l ≤ 6))
    (hc : shapeF (some v) cs = true) :
    shapeT (some p) (.node v {} cs) = true := by
  rcases hv with rfl | rfl | rfl | ⟨l, rfl⟩ | ⟨a, b, c, d, e, f, rfl⟩ | ⟨l, s, rfl, h1, h2⟩ <;>
    (cases p <;> simp_all [blockParent, NodeValue.kind, shapeT, canContain, Kind.isBlock, placeOk, localOk])

mutual
theorem blk_shape : ∀ (b : Blk) (p : NodeValue) (tight : Bool) (bullet : UInt8) (idx : Nat) (prev : Prev),
    blockParent p = true → b.wf tight bullet idx prev = true → shapeT (some p) b.toTree = true
  | .para is, p, _, _, _, _, hp, _ => shape_block_node p _ _ hp (by simp) (inls_shape is .paragraph rfl)
  | .heading l is, p, _, _, _, _, hp, h => by
    simp only [Blk.wf, Bool.and_eq_true, decide_eq_true_eq] at h
    exact shape_block_node p _ _ hp (Or.inr (Or.inr (Or.inr (Or.inr (Or.inr ⟨l, false, rfl, h.1.1.1, h.1.1.2⟩)))))
      (inls_shape is (.heading l false) rfl)
  | .setext l n is, p, _, _, _, _, hp, h => by
    simp only [Blk.wf, Bool.and_eq_true, Bool.or_eq_true, beq_iff_eq] at h
    have hl : 1 ≤ l ∧ l ≤ 6 := by rcases h.1.1.1.1.1 with h1 | h1 <;> omega
    exact shape_block_node p _ _ hp (Or.inr (Or.inr (Or.inr (Or.inr (Or.inr ⟨l, true, rfl, hl.1, hl.2⟩)))))
      (inls_shape is (.heading l true) rfl)
  | .hr c n, p, _, _, _, _, hp, _ => shape_block_node p _ _ hp (by simp) rfl
  | .icode ls, p, _, _, _, _, hp, _ => shape_block_node p _ _ hp (by simp) rfl
  | .fence c len info ls, p, _, _, _, _, hp, _ => shape_block_node p _ _ hp (by simp) rfl
  | .quote bs, p, _, _, _, _, hp, h => by
    simp only [Blk.wf, Bool.and_eq_true] at h
    exact shape_block_node p _ _ hp (by simp) (blks_shape bs .blockQuote false 0 0 .none rfl h.2)
  | .list m items, p, _, _, _, _, hp, h => by
    simp only [Blk.wf, Bool.and_eq_true] at h
    exact shape_block_node p _ _ hp (Or.inr (Or.inr (Or.inr (Or.inl ⟨_, rfl⟩)))) (items_shape items m m.start _ h.2)
  | .htmlb ls, p, _, _, _, _, hp, _ => by
    cases p <;> simp [blockParent] at hp <;>
      simp [Blk.toTree, leaf, shapeT, shapeF, canContain, NodeValue.kind, Kind.isBlock, placeOk, localOk]
  | .table al h rows, p, _, _, _, _, hp, hw => by
    simp only [Blk.wf, Bool.and_eq_true, beq_iff_eq] at hw
    obtain ⟨⟨⟨⟨⟨_, _⟩, hl⟩, hr⟩, hh⟩, hrs⟩ := hw
    obtain ⟨i1, i2, i3⟩ := rowsForest_shape al h.length rows.length (bodyCells rows) al.length rows hr hrs
    rw [hl] at i1
    cases p <;> simp [blockParent] at hp <;>
      simp [Blk.toTree, shapeT, shapeF, canContain, NodeValue.kind, Kind.isBlock, placeOk, localOk, rowsOk, cellsOk,
        cellsForest_length, hl, i1, i2, i3, isTable, cellsForest_allCells, cellsForest_shape true h hh]
theorem blks_shape : ∀ (bs : Blks) (p : NodeValue) (tight : Bool) (bullet : UInt8) (idx : Nat) (prev : Prev),
    blockParent p = true → bs.wf tight bullet idx prev = true → shapeF (some p) bs.toForest = true
  | .nil, _, _, _, _, _, _, _ => rfl
  | .cons b r, p, tight, bullet, idx, prev, hp, h => by
    simp only [Blks.wf, Bool.and_eq_true] at h
    simp only [Blks.toForest, shapeF, Bool.and_eq_true]
    exact ⟨blk_shape b p tight bullet idx prev hp h.1.1, blks_shape r p tight bullet (idx + 1) _ hp h.2⟩
theorem items_shape : ∀ (items : Items) (m : Marker) (k : Nat) (L : NList),
    items.wf m = true → shapeF (some (.list L)) (items.toForest m k) = true
  | .nil, _, _, _, _ => rfl
  | .cons t bs r, m, k, L, h => by
    simp only [Items.wf, Bool.and_eq_true] at h
    simp only [Items.toForest, shapeF, Bool.and_eq_true]
    refine ⟨?_, items_shape r m (k + 1) L h.2⟩
    have hc := blks_shape bs (t.value (m.nlist k false)) m.tight _ 0 .none (by cases t <;> rfl) h.1.2
    cases t <;> simp [Task.value] at hc ⊢ <;> simp [shapeT, canContain, NodeValue.kind, Kind.isBlock, placeOk, localOk, hc]
end

theorem shapeF_then (p : Option NodeValue) (tail : Forest) : ∀ bs : Blks,
    shapeF p (bs.toForestThen tail) = (shapeF p bs.toForest && shapeF p tail)
  | .nil => by simp [Blks.toForestThen, Blks.toForest, shapeF]
  | .cons b r => by simp [Blks.toForestThen, Blks.toForest, shapeF, shapeF_then p tail r, Bool.and_assoc]

theorem notesForest_shape : ∀ notes : List Note, shapeF (some .document) (notesForest notes) = true
  | [] => rfl
  | n :: r => by
    have hb := inls_shape n.body .paragraph rfl
    simp [notesForest, Note.toTree, shapeF, shapeT, canContain, NodeValue.kind, Kind.isBlock, placeOk, isDocOrDef, localOk,
      hb, notesForest_shape r]

theorem doc_shape (d : Doc) (h : d.wf = true) : Shape d.toTree = true := by
  simp only [Doc.wf, Bool.and_eq_true] at h
  have hc := blks_shape d.blocks .document false 0 0 .none rfl h.1.1
  simp [Shape, Doc.toTree, shapeT, placeOk, localOk, shapeF_then, hc, notesForest_shape]

end Comrak.Canon
