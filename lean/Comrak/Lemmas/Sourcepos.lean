/-
Helper lemmas for the source-position oracles and mechanism models (Comrak/Sourcepos.lean).
-/
import Comrak.Sourcepos
namespace Comrak
open Bytes

theorem posLe_trans {a b c d e f : Nat} (h1 : posLe a b c d = true) (h2 : posLe c d e f = true) :
    posLe a b e f = true := by
  simp only [posLe, Bool.or_eq_true, Bool.and_eq_true, decide_eq_true_eq] at *
  omega

theorem posLe_refl (a b : Nat) : posLe a b a b = true := by
  simp [posLe]

theorem posLt_of_lt_le {a b c d e f : Nat} (h1 : posLt a b c d = true) (h2 : posLe c d e f = true) :
    posLt a b e f = true := by
  simp only [posLe, posLt, Bool.or_eq_true, Bool.and_eq_true, decide_eq_true_eq] at *
  omega

theorem posLt_of_le_lt {a b c d e f : Nat} (h1 : posLe a b c d = true) (h2 : posLt c d e f = true) :
    posLt a b e f = true := by
  simp only [posLe, posLt, Bool.or_eq_true, Bool.and_eq_true, decide_eq_true_eq] at *
  omega

/-- Concatenation of the lines with their terminators. -/
def joinLines : List (Bytes × Bytes) → Bytes
  | [] => []
  | (c, t) :: ls => c ++ t ++ joinLines ls

theorem spxBytes_cons (e : Sp × Nat) (q : SpxQ) : spxBytes (e :: q) = e.2 + spxBytes q := by
  simp [spxBytes]

end Comrak
