/-
Positions of canonical documents, layer N: from `Doc.ok` to the two hypotheses of `positions_doc`
(`cleanG d.glines`, `d.ph`), and the theorem for canonical documents.
-/
import Comrak.Lemmas.CanonPosM
namespace Comrak.Canon
open Comrak Bytes

/-! ### The writer's order of the footnote definitions names valid definitions -/

theorem countP_lt_succ (n : Nat) : ∀ (L : List Nat),
    L.countP (fun x => decide (x < n + 1)) = L.countP (fun x => decide (x < n)) + L.count n
  | [] => rfl
  | a :: L => by
    simp only [List.countP_cons, List.count_cons, countP_lt_succ n L, beq_iff_eq, decide_eq_true_eq]
    by_cases h1 : a < n
    · have h2 : a < n + 1 := by omega
      have h3 : ¬ a = n := by omega
      simp [h1, h2, h3]; omega
    · by_cases h3 : a = n
      · subst h3; simp; omega
      · have h2 : ¬ a < n + 1 := by omega
        simp [h1, h2, h3]

theorem countP_ge : ∀ (n : Nat) (L : List Nat), (∀ i, i < n → i ∈ L) → n ≤ L.countP (fun x => decide (x < n))
  | 0, _, _ => Nat.zero_le _
  | n + 1, L, h => by
    have ih := countP_ge n L (fun i hi => h i (by omega))
    have hn : 0 < L.count n := List.count_pos_iff.mpr (h n (by omega))
    rw [countP_lt_succ]; omega

theorem order_valid (order : List Nat) (n : Nat) (hl : order.length = n) (hp : ∀ i, i < n → i ∈ order) :
    order.all (fun j => decide (j < n)) = true := by
  have h1 := countP_ge n order hp
  have h2 := List.countP_le_length (p := fun x => decide (x < n)) (l := order)
  have h3 : order.countP (fun x => decide (x < n)) = order.length := by omega
  exact List.all_eq_true.mpr (List.countP_eq_length.mp h3)

/-! ### Reference definitions -/

def RefDef.plain (r : RefDef) : Bool := plainB r.line

theorem refdef_plain (r : RefDef) (h1 : labelOk r.label = true) (h2 : destOk r.url r.angle = true) (h3 : titleOk r.title = true) :
    r.plain = true := by
  simp only [RefDef.plain, RefDef.line, plainB_append, label_plain _ h1, dest_plain _ _ h2, title_plain _ h3, Bool.and_true,
    Bool.true_and]
  rfl

mutual
theorem inl_defs_plain : ∀ (i : Inl) (a b br : Bool) (p n : UInt8) (f l : Bool) (pc : Nat),
    i.wf a b br p n f l pc = true → i.defs.all RefDef.plain = true
  | .text _, _, _, _, _, _, _, _, _, _ => rfl
  | .code .., _, _, _, _, _, _, _, _, _ => rfl
  | .emph us cs, a, b, br, _, _, _, _, _, h => by
    simp only [Inl.wf, Bool.and_eq_true] at h
    simpa [Inl.defs] using inls_defs_plain cs a b br _ _ true 0 h.2
  | .strong us cs, a, b, br, _, _, _, _, _, h => by
    simp only [Inl.wf, Bool.and_eq_true] at h
    simpa [Inl.defs] using inls_defs_plain cs a b br _ _ true 0 h.2
  | .strike cs, a, b, br, _, _, _, _, _, h => by
    simp only [Inl.wf, Bool.and_eq_true] at h
    simpa [Inl.defs] using inls_defs_plain cs a b br _ _ true 0 h.2
  | .link url title angle .inline cs, a, b, br, _, _, _, _, _, h => by
    simp only [Inl.wf, Bool.and_eq_true] at h
    simpa [Inl.defs] using inls_defs_plain cs true true br _ _ true 0 h.2
  | .link url title angle (.ref label dl bf) cs, a, b, br, _, _, _, _, _, h => by
    simp only [Inl.wf, Bool.and_eq_true] at h
    have hdl := h.1.1.1.1.1.1.1.2
    have hdest := h.1.1.2
    have htitle := h.1.2
    have ih := inls_defs_plain cs true true br _ _ true 0 h.2
    simp only [Inl.defs, List.all_cons, Bool.and_eq_true]
    exact ⟨refdef_plain _ hdl hdest htitle, ih⟩
  | .image url title angle cs, a, b, br, _, _, _, _, _, h => by
    simp only [Inl.wf, Bool.and_eq_true] at h
    simpa [Inl.defs] using inls_defs_plain cs a true br _ _ true 0 h.2
  | .autolink .., _, _, _, _, _, _, _, _, _ => rfl
  | .hard _, _, _, _, _, _, _, _, _, _ => rfl
  | .soft, _, _, _, _, _, _, _, _, _ => rfl
  | .fnref .., _, _, _, _, _, _, _, _, _ => rfl
theorem inls_defs_plain : ∀ (is : Inls) (a b br : Bool) (p af : UInt8) (f : Bool) (pc : Nat),
    is.wf a b br p af f pc = true → is.defs.all RefDef.plain = true
  | .nil, _, _, _, _, _, _, _, _ => rfl
  | .cons i r, a, b, br, p, af, f, pc, h => by
    simp only [Inls.wf, Bool.and_eq_true] at h
    simp only [Inls.defs, List.all_append, Bool.and_eq_true]
    exact ⟨inl_defs_plain i a b br p _ f _ pc h.1.2, inls_defs_plain r a b br _ af false _ h.2⟩
end

theorem cells_defs_plain (cells : List Inls) (h : cells.all cellWf = true) : (cells.flatMap Inls.defs).all RefDef.plain = true := by
  simp only [List.all_flatMap, List.all_eq_true] at h ⊢
  intro c hc
  have := h c hc
  simp only [cellWf, Bool.and_eq_true] at this
  exact List.all_eq_true.mp (inls_defs_plain c false false false 0x20 0x20 true 0 this.1)

mutual
theorem blk_defs_plain : ∀ (b : Blk) (tight : Bool) (bullet : UInt8) (idx : Nat) (prev : Prev),
    b.wf tight bullet idx prev = true → b.defs.all RefDef.plain = true
  | .para is, _, _, _, _, h => by
    simp only [Blk.wf, Bool.and_eq_true] at h
    simpa [Blk.defs] using inls_defs_plain is false false true 0x0A 0x0A true 0 h.2
  | .heading lv is, _, _, _, _, h => by
    simp only [Blk.wf, Bool.and_eq_true] at h
    simpa [Blk.defs] using inls_defs_plain is false false false 0x20 0x0A true 0 h.2
  | .setext lv n is, _, _, _, _, h => by
    simp only [Blk.wf, Bool.and_eq_true] at h
    simpa [Blk.defs] using inls_defs_plain is false false true 0x0A 0x0A true 0 h.2
  | .hr .., _, _, _, _, _ => rfl
  | .fence .., _, _, _, _, _ => rfl
  | .icode _, _, _, _, _, _ => rfl
  | .quote bs, _, _, _, _, h => by
    simp only [Blk.wf, Bool.and_eq_true] at h
    simpa [Blk.defs] using blks_defs_plain bs false 0 0 .none h.2
  | .list m items, _, _, _, _, h => by
    simp only [Blk.wf, Bool.and_eq_true] at h
    simpa [Blk.defs] using items_defs_plain items m h.2
  | .htmlb _, _, _, _, _, _ => rfl
  | .table al hd rows, _, _, _, _, h => by
    simp only [Blk.wf, Bool.and_eq_true] at h
    simp only [Blk.defs, List.all_append, Bool.and_eq_true]
    refine ⟨cells_defs_plain hd h.1.2, ?_⟩
    simp only [List.all_flatMap, List.all_eq_true]
    intro r hr c hc x hx
    have := List.all_eq_true.mp (cells_defs_plain r (List.all_eq_true.mp h.2 r hr)) x
      (List.mem_flatMap.mpr ⟨c, hc, hx⟩)
    exact this
theorem blks_defs_plain : ∀ (bs : Blks) (tight : Bool) (bullet : UInt8) (idx : Nat) (prev : Prev),
    bs.wf tight bullet idx prev = true → bs.defs.all RefDef.plain = true
  | .nil, _, _, _, _, _ => rfl
  | .cons b r, tight, bullet, idx, prev, h => by
    simp only [Blks.wf, Bool.and_eq_true] at h
    simp only [Blks.defs, List.all_append, Bool.and_eq_true]
    exact ⟨blk_defs_plain b tight bullet idx prev h.1.1, blks_defs_plain r tight bullet (idx + 1) _ h.2⟩
theorem items_defs_plain : ∀ (items : Items) (m : Marker), items.wf m = true → items.defs.all RefDef.plain = true
  | .nil, _, _ => rfl
  | .cons t bs r, m, h => by
    simp only [Items.wf, Bool.and_eq_true] at h
    simp only [Items.defs, List.all_append, Bool.and_eq_true]
    exact ⟨blks_defs_plain bs m.tight _ 0 .none h.1.2, items_defs_plain r m h.2⟩
end

/-! ### The document -/

theorem joinGroups_plain : ∀ (gs : List (List Bytes)), gs.all allPlain = true → allPlain (joinGroups gs) = true
  | [], _ => rfl
  | g :: rest, h => by
    simp only [List.all_cons, Bool.and_eq_true] at h
    have ih := joinGroups_plain rest h.2
    simp only [joinGroups]
    split
    · exact ih
    · split
      · exact h.1
      · simp only [allPlain_append, h.1, ih, Bool.and_true, Bool.true_and]; rfl

theorem note_facts (n : Note) (h : n.wf = true) : n.ph = true ∧ plainB n.line = true := by
  simp only [Note.wf, Bool.and_eq_true, Bool.not_eq_true'] at h
  obtain ⟨⟨⟨hname, hnil⟩, hwf⟩, _⟩ := h
  have F := inls_facts n.body false false false 0x0A 0x0A true 0 hwf
  have hp := plain_of_facts n.body _ _ _ _ F rfl
  refine ⟨?_, ?_⟩
  · simp only [Note.ph, Bool.and_eq_true, Bool.not_eq_true', List.isEmpty_eq_false_iff]
    exact ⟨⟨F.ph, F.nl rfl⟩, F.ne hnil⟩
  · simp only [Note.line, plainB_append, fnName_plain _ hname, hp, Bool.and_true, Bool.true_and]; rfl

theorem note_defs_plain (n : Note) (h : n.wf = true) : n.body.defs.all RefDef.plain = true := by
  simp only [Note.wf, Bool.and_eq_true] at h
  exact inls_defs_plain n.body false false false 0x0A 0x0A true 0 h.1.2

/-- `Doc.ok` gives the two hypotheses of `positions_doc`. -/
theorem hyps_of_ok (d : Doc) (h : d.ok = true) : cleanG d.glines = true ∧ d.ph = true := by
  simp only [Doc.ok, Doc.wf, Bool.and_eq_true] at h
  obtain ⟨⟨⟨hb, hrefs⟩, hnotes⟩, _⟩ := h
  simp only [Doc.notesOk, Bool.and_eq_true, beq_iff_eq] at hnotes
  obtain ⟨⟨⟨⟨⟨_, hnw⟩, huw⟩, _⟩, hlen⟩, hperm⟩ := hnotes
  simp only [Doc.refsOk, Bool.and_eq_true] at hrefs
  have Fb := blks_facts d.blocks false 0 0 .none false hb
  have hnph : d.notes.all Note.ph = true := by
    simp only [List.all_eq_true] at hnw ⊢
    exact fun n hn => (note_facts n (hnw n hn)).1
  have hvalid := order_valid d.noteOrder d.notes.length hlen (fun i hi => by
    have := List.all_eq_true.mp hperm i (List.mem_range.mpr hi)
    simpa using this)
  refine ⟨?_, ?_⟩
  · -- every written line is free of line ends
    have hwn : ∀ n ∈ d.writtenNotes, n.wf = true := by
      intro n hn
      simp only [Doc.writtenNotes, List.mem_append, List.mem_filterMap] at hn
      rcases hn with ⟨i, _, hi⟩ | hn
      · have := List.mem_of_getElem? hi
        exact List.all_eq_true.mp hnw n this
      · exact List.all_eq_true.mp huw n hn
    have hdefs : d.useDefs.all RefDef.plain = true := by
      simp only [Doc.useDefs, List.all_append, Bool.and_eq_true, List.all_flatMap]
      refine ⟨blks_defs_plain d.blocks false 0 0 .none hb, ?_⟩
      simp only [List.all_eq_true]
      intro n hn
      exact List.all_eq_true.mp (note_defs_plain n (hwn n hn))
    have hshadow : d.shadow.all RefDef.plain = true := by
      simp only [List.all_eq_true] at hrefs ⊢
      intro r hr
      have := hrefs.1 r hr
      simp only [RefDef.ok, Bool.and_eq_true] at this
      exact refdef_plain r this.1.1 this.1.2 this.2
    have hg : ∀ (rs : List RefDef), rs.all RefDef.plain = true → allPlain (rs.map RefDef.line) = true := by
      intro rs hrs
      simp only [allPlain, List.all_map, List.all_eq_true] at hrs ⊢
      exact fun r hr => hrs r hr
    have hf : ∀ (q : RefDef → Bool), (d.useDefs.filter q).all RefDef.plain = true := by
      intro q
      simp only [List.all_eq_true] at hdefs ⊢
      exact fun r hr => hdefs r (List.mem_filter.mp hr).1
    have hall : cleanG d.glines = allPlain d.glines := rfl
    rw [hall]
    refine joinGroups_plain _ ?_
    simp only [List.all_cons, List.all_append, List.all_nil, Bool.and_true, Bool.and_eq_true, List.all_map]
    refine ⟨⟨hg _ (hf _), Fb.2, hg _ (by simp only [List.all_append, Bool.and_eq_true]; exact ⟨hf _, hshadow⟩)⟩, ?_⟩
    simp only [List.all_eq_true]
    intro n hn
    simp only [Function.comp, allPlain, List.all_cons, List.all_nil, Bool.and_true]
    exact (note_facts n (hwn n hn)).2
  · simp only [Doc.ph, Bool.and_eq_true]
    exact ⟨⟨⟨Fb.1, hnph⟩, hvalid⟩, hperm⟩

/-- **Positions of canonical documents**: for every `d` with `Doc.ok d`, the positioned tree passes
    the C11 / C12 oracles on `write d`. -/
theorem positions_ok (d : Doc) (h : d.ok = true) : d.posOk = true :=
  positions_doc d (hyps_of_ok d h).1 (hyps_of_ok d h).2

end Comrak.Canon
