/-
The CommonMark writer on canonical documents, layer A: for `width = 0` the line-assembly state
machine of Comrak/Cm.lean, seen through the fields that decide what is written (`Core`), is a
small machine with three operations: flush the pending line ends, write bytes, ask for line ends.
-/
import Comrak.Cm
import Comrak.Lemmas.CanonPosK
namespace Comrak.CmCanon
open Comrak Bytes Comrak.Cm Comrak.Canon

/-- The fields of the writer state that decide the output when nothing wraps. -/
structure Core where
  rv : Bytes
  pfx : Bytes
  need : Nat
  bol : Bool
  tight : Bool
  nolb : Bool
  ce : Bool
  ol : List Nat
  deriving DecidableEq

def core (s : Cm.St) : Core :=
  ⟨s.rv, s.prefix_, s.needCr, s.beginLine, s.inTight, s.noLinebreaks, s.customEscape, s.olStack⟩

/-- Line ends written by a flush of `n` pending ones (the blank line carries the prefix). -/
def nls (n : Nat) (P : Bytes) : Bytes :=
  match n with
  | 0 => []
  | 1 => [0x0A]
  | _ => [0x0A] ++ P ++ [0x0A]

def Core.n (a : Core) : Nat := if a.tight && a.need > 1 then 1 else a.need

/-- What the next write puts before its own bytes: pending line ends, then the line prefix. -/
def Core.lead (a : Core) : Bytes :=
  (if a.rv.isEmpty then [] else nls a.n a.pfx) ++ (if a.n > 0 || a.bol then a.pfx else [])

structure Good (a : Core) : Prop where
  ce : a.ce = false
  nc : a.need ≤ 2
  hd : a.rv.head? ≠ some 0x0A

/-- Write the non-empty bytes `bs` (no line end among them). -/
def aW (bs : Bytes) (a : Core) : Core :=
  { a with rv := bs.reverse ++ a.lead.reverse ++ a.rv, need := 0, bol := false }

def aCr (a : Core) : Core := { a with need := max a.need 1 }
def aBlank (a : Core) : Core := { a with need := max a.need 2 }

theorem core_cr (s : Cm.St) : core s.cr = aCr (core s) := rfl
theorem core_blank (s : Cm.St) : core s.blankline = aBlank (core s) := rfl

/-! ### The flush -/

def aFlush (a : Core) : Core :=
  if a.n = 0 then { a with need := 0 }
  else { a with rv := (if a.rv.isEmpty then [] else (nls a.n a.pfx).reverse) ++ a.rv, bol := true, need := 0 }

theorem crLoop_nil (P : Bytes) : ∀ (n j : Nat), crLoop [] P n j [] = []
  | 0, _ => rfl
  | n + 1, j => by simp [crLoop, crLoop_nil P n (j + 1)]

theorem core_crFlush (s : Cm.St) (g : Good (core s)) : core (crFlush s) = aFlush (core s) := by
  obtain ⟨rv, pf, col, nc, lb, bl, bc, nolb, it, ce, ol⟩ := s
  have hn := g.nc
  have hh := g.hd
  simp only [core] at hn hh
  simp only [crFlush, aFlush, Core.n, core]
  have h3 : nc = 0 ∨ nc = 1 ∨ nc = 2 := by omega
  cases rv with
  | nil =>
    rcases h3 with rfl | rfl | rfl <;> cases it <;> simp [crLoop_nil]
  | cons c r =>
    have hc : (c == 0x0A) = false := by simpa using hh
    rcases h3 with rfl | rfl | rfl <;> cases it <;> simp [crLoop, hc, nls]

/-! ### Literal writes -/

theorem wrapCheck_zero (s : Cm.St) : wrapCheck {} s = s := by simp [wrapCheck]

/-- One literal byte (no line end), no table escape. -/
def aByte (c : UInt8) (a : Core) : Core :=
  { a with rv := c :: ((if a.bol then a.pfx.reverse else []) ++ a.rv), bol := false }

theorem core_litStep (s : Cm.St) (c : UInt8) (hc : c ≠ 0x0A) :
    core (litByte (pre false s c) c) = aByte c (core s) := by
  obtain ⟨rv, pf, col, nc, lb, bl, bc, nolb, it, ce, ol⟩ := s
  have hc' : (c == 0x0A) = false := by simpa using hc
  simp only [pre, litByte, hc', Bool.false_and, Bool.false_eq_true, if_false, core, aByte]
  cases bl <;> simp

theorem core_outLoop_lit : ∀ (bs : Bytes) (f : Nat) (s : Cm.St), bs.length < f → nlFree bs = true →
    core (outLoop {} false false .literal f s bs) = bs.foldl (fun a c => aByte c a) (core s)
  | [], f, s, _, _ => by cases f <;> simp [outLoop]
  | c :: r, 0, s, h, _ => by simp at h
  | c :: r, f + 1, s, h, hn => by
    simp only [nlFree, List.all_cons, Bool.and_eq_true, bne_iff_ne, ne_eq] at hn
    have hsp : (c == 0x20 && false) = false := by simp
    simp only [outLoop, hsp, Bool.false_eq_true, if_false, wrapCheck_zero, List.foldl_cons]
    have : (Esc.literal == Esc.literal) = true := rfl
    simp only [this, if_true]
    rw [core_outLoop_lit r f _ (by simpa using h) (by simpa [nlFree] using hn.2), core_litStep s c hn.1]

theorem foldl_aByte_mid : ∀ (bs : Bytes) (a : Core), a.bol = false →
    bs.foldl (fun a c => aByte c a) a = { a with rv := bs.reverse ++ a.rv }
  | [], a, _ => by simp
  | c :: r, a, h => by
    have h1 : (aByte c a).bol = false := rfl
    rw [List.foldl_cons, foldl_aByte_mid r _ h1]
    simp [aByte, h]

theorem foldl_aByte (bs : Bytes) (a : Core) (h0 : bs ≠ []) :
    bs.foldl (fun a c => aByte c a) a =
      { a with rv := bs.reverse ++ (if a.bol then a.pfx.reverse else []) ++ a.rv, bol := false } := by
  cases bs with
  | nil => exact absurd rfl h0
  | cons c r =>
    rw [List.foldl_cons, foldl_aByte_mid r _ rfl]
    simp [aByte]

theorem aW_eq_flush (bs : Bytes) (a : Core) (g : Good a) :
    aW bs a = (let f := aFlush a
      { f with rv := bs.reverse ++ (if f.bol then f.pfx.reverse else []) ++ f.rv, bol := false }) := by
  simp only [aW, aFlush, Core.lead]
  by_cases h0 : a.n = 0
  · simp only [h0, if_true]
    have : nls 0 a.pfx = [] := rfl
    cases a.bol <;> simp [this]
  · have hp : a.n > 0 := by omega
    simp only [h0, if_false, hp, decide_true, Bool.true_or, if_true]
    cases hr : a.rv.isEmpty <;> simp [hr]

/-- `write_all` of non-empty bytes without line end. -/
theorem core_wr (s : Cm.St) (g : Good (core s)) (bs : Bytes) (h0 : bs ≠ []) (hn : nlFree bs = true) :
    core (wr {} false bs s) = aW bs (core s) := by
  have he : bs.isEmpty = false := by cases bs <;> simp_all
  simp only [wr, he, Bool.false_eq_true, if_false, output, Bool.false_and]
  rw [core_outLoop_lit bs _ _ (by omega) hn, core_crFlush s g, foldl_aByte _ _ h0, aW_eq_flush bs _ g]

theorem core_outLit (s : Cm.St) (g : Good (core s)) (bs : Bytes) (h0 : bs ≠ []) (hn : nlFree bs = true) :
    core (output {} false s bs false .literal) = aW bs (core s) := by
  simp only [output, Bool.false_and]
  rw [core_outLoop_lit bs _ _ (by omega) hn, core_crFlush s g, foldl_aByte _ _ h0, aW_eq_flush bs _ g]

/-! ### Text: bytes the writer never escapes -/

/-- Letters, digits, space, `, ; ? / { } @ %` and the bytes of multi-byte characters. -/
def plainOk (c : UInt8) : Bool :=
  c ≥ 0x80 || isAsciiAlnum c || c == 0x20 || [0x2C, 0x3B, 0x3F, 0x2F, 0x7B, 0x7D, 0x40, 0x25].contains c

theorem plainOk_facts : ∀ c : UInt8, plainOk c = true →
    (decide (c < 0x80) = false) ∨
      ((decide (c < 0x20) || c == 0x2A || c == 0x5F || c == 0x5B || c == 0x5D || c == 0x23 || c == 0x3C || c == 0x3E
          || c == 0x5C || c == 0x60 || c == 0x21) = false ∧ (c == 0x26) = false ∧
        (c == 0x2D || c == 0x2B || c == 0x3D) = false ∧ (c == 0x2E || c == 0x29) = false ∧ c ≠ 0x0A) :=
  forall_uint8_of_fin (by decide +kernel)

theorem plainOk_noEscape (c : UInt8) (h : plainOk c = true) (bc fd : Bool) (nx : UInt8) :
    needsEscape c .normal bc fd nx = false := by
  rcases plainOk_facts c h with h1 | ⟨h1, h2, h3, h4, _⟩
  · simp [needsEscape, h1]
  · simp only [Bool.or_eq_false_iff] at h1 h3 h4
    simp [needsEscape, h1, h2, h3, h4]

theorem plainOk_ne_nl : ∀ c : UInt8, plainOk c = true → c ≠ 0x0A := forall_uint8_of_fin (by decide +kernel)

theorem core_normStep (s : Cm.St) (c : UInt8) (hc : plainOk c = true) (nx : Option UInt8) :
    core (let st2 := outc {} false (pre false s c) c .normal nx
          { st2 with beginLine := false, beginContent := st2.beginContent && isAsciiDigit c }) = aByte c (core s) := by
  obtain ⟨rv, pf, col, nc, lb, bl, bc, nolb, it, ce, ol⟩ := s
  simp only [outc, plainOk_noEscape c hc, Bool.false_eq_true, if_false, pre, Bool.false_and, core, aByte]
  cases bl <;> simp

theorem core_outLoop_norm : ∀ (bs : Bytes) (f : Nat) (s : Cm.St), bs.length < f → bs.all plainOk = true →
    core (outLoop {} false false .normal f s bs) = bs.foldl (fun a c => aByte c a) (core s)
  | [], f, s, _, _ => by cases f <;> simp [outLoop]
  | c :: r, 0, s, h, _ => by simp at h
  | c :: r, f + 1, s, h, hn => by
    simp only [List.all_cons, Bool.and_eq_true] at hn
    have hsp : (c == 0x20 && false) = false := by simp
    have he : (Esc.normal == Esc.literal) = false := rfl
    simp only [outLoop, hsp, Bool.false_eq_true, if_false, wrapCheck_zero, List.foldl_cons, he]
    rw [core_outLoop_norm r f _ (by simpa using h) hn.2]
    congr 1
    exact core_normStep s c hn.1 r.head?

/-- A text node whose bytes are never escaped. -/
theorem core_outText (s : Cm.St) (g : Good (core s)) (bs : Bytes) (h0 : bs ≠ []) (hp : bs.all plainOk = true) :
    core (output {} false s bs false .normal) = aW bs (core s) := by
  simp only [output, Bool.false_and]
  rw [core_outLoop_norm bs _ _ (by omega) hp, core_crFlush s g, foldl_aByte _ _ h0, aW_eq_flush bs _ g]

/-! ### The small machine -/

theorem aW_fields (bs : Bytes) (a : Core) : (aW bs a).pfx = a.pfx ∧ (aW bs a).tight = a.tight ∧ (aW bs a).nolb = a.nolb ∧
    (aW bs a).ce = a.ce ∧ (aW bs a).ol = a.ol ∧ (aW bs a).need = 0 ∧ (aW bs a).bol = false := ⟨rfl, rfl, rfl, rfl, rfl, rfl, rfl⟩

/-- Mid-line: nothing pending, not at a line start. -/
def Core.mid (a : Core) : Prop := a.need = 0 ∧ a.bol = false

theorem lead_mid (a : Core) (h : a.mid) : a.lead = [] := by
  obtain ⟨h1, h2⟩ := h
  simp [Core.lead, Core.n, h1, h2, nls]

theorem aW_mid (bs : Bytes) (a : Core) : (aW bs a).mid := ⟨rfl, rfl⟩

theorem aW_aW (x y : Bytes) (a : Core) : aW y (aW x a) = aW (x ++ y) a := by
  have := lead_mid _ (aW_mid x a)
  show ({ aW x a with rv := y.reverse ++ (aW x a).lead.reverse ++ (aW x a).rv, need := 0, bol := false } : Core) = _
  rw [this]
  simp [aW]

theorem good_aW (bs : Bytes) (a : Core) (g : Good a) (h0 : bs ≠ []) (hn : nlFree bs = true) : Good (aW bs a) := by
  refine ⟨g.ce, by simp [aW], ?_⟩
  obtain ⟨b, hb⟩ := dropLast_append_last bs h0
  have hbn : b ≠ 0x0A := by
    rw [hb, nlFree_append] at hn
    simp only [Bool.and_eq_true, nlFree, List.all_cons, List.all_nil, Bool.and_true, bne_iff_ne, ne_eq] at hn
    exact hn.2
  simp only [aW]
  rw [hb]
  simp [hbn]

theorem good_aCr (a : Core) (g : Good a) : Good (aCr a) := ⟨g.ce, by have := g.nc; simp [aCr]; omega, g.hd⟩
theorem good_aBlank (a : Core) (g : Good a) : Good (aBlank a) := ⟨g.ce, by simp [aBlank]; have := g.nc; omega, g.hd⟩

/-- Feeding inline source bytes: a line end asks for a new line, any other byte is written. -/
def feedA (x : Bytes) (a : Core) : Core := x.foldl (fun a b => if b = 0x0A then aCr a else aW [b] a) a

theorem feedA_nil (a : Core) : feedA [] a = a := rfl
theorem feedA_cons (b : UInt8) (r : Bytes) (a : Core) :
    feedA (b :: r) a = feedA r (if b = 0x0A then aCr a else aW [b] a) := rfl
theorem feedA_append (x y : Bytes) (a : Core) : feedA (x ++ y) a = feedA y (feedA x a) := by
  simp [feedA, List.foldl_append]

theorem feedA_nlFree : ∀ (x : Bytes) (a : Core), x ≠ [] → nlFree x = true → feedA x a = aW x a
  | [], _, h, _ => absurd rfl h
  | [b], a, _, hn => by
    simp only [nlFree, List.all_cons, List.all_nil, Bool.and_true, bne_iff_ne, ne_eq] at hn
    simp [feedA, hn]
  | b :: c :: r, a, _, hn => by
    simp only [nlFree, List.all_cons, Bool.and_eq_true, bne_iff_ne, ne_eq] at hn
    rw [feedA_cons, if_neg hn.1, feedA_nlFree (c :: r) _ (by simp) (by simp [nlFree, hn.2.1, hn.2.2]), aW_aW]
    rfl

theorem good_feedA : ∀ (x : Bytes) (a : Core), Good a → Good (feedA x a)
  | [], _, g => g
  | b :: r, a, g => by
    rw [feedA_cons]
    split
    · exact good_feedA r _ (good_aCr a g)
    · rename_i hb
      exact good_feedA r _ (good_aW [b] a g (by simp) (by simp [nlFree, hb]))

theorem feedA_fields : ∀ (x : Bytes) (a : Core), (feedA x a).pfx = a.pfx ∧ (feedA x a).tight = a.tight ∧
    (feedA x a).nolb = a.nolb ∧ (feedA x a).ce = a.ce ∧ (feedA x a).ol = a.ol
  | [], _ => ⟨rfl, rfl, rfl, rfl, rfl⟩
  | b :: r, a => by
    rw [feedA_cons]
    split <;> exact feedA_fields r _

end Comrak.CmCanon
