/-
Frame lemmas for the CommonMark writer model: nothing `output` does touches the container prefix
or the ordered-list stack; `format_item` therefore removes on exit exactly what it added on entry.
-/
import Comrak.Cm
import Comrak.Lemmas.Cm
open Comrak Bytes Comrak.Cm
namespace Comrak.Cm

/-- Two writer states with the same container prefix and ordered-list stack. -/
def SameFrame (a b : St) : Prop := b.prefix_ = a.prefix_ ∧ b.olStack = a.olStack

theorem SameFrame.rfl' (a : St) : SameFrame a a := ⟨rfl, rfl⟩
theorem SameFrame.trans {a b c : St} (h1 : SameFrame a b) (h2 : SameFrame b c) : SameFrame a c :=
  ⟨h2.1.trans h1.1, h2.2.trans h1.2⟩

theorem crFlush_frame (st : St) : SameFrame st (crFlush st) := by
  unfold SameFrame crFlush; constructor <;> (dsimp only; repeat' split) <;> rfl

theorem pre_frame (e : Bool) (st : St) (c : UInt8) : SameFrame st (pre e st c) := by
  unfold SameFrame pre; constructor <;> (dsimp only; split <;> split <;> rfl)

theorem wrapCheck_frame (o : CmOpts) (st : St) : SameFrame st (wrapCheck o st) := by
  unfold SameFrame wrapCheck; constructor <;> (split <;> rfl)

theorem litByte_frame (st : St) (c : UInt8) : SameFrame st (litByte st c) := by
  unfold SameFrame litByte; constructor <;> (split <;> rfl)

theorem outLitLoop_frame (o : CmOpts) (e : Bool) (bs : Bytes) (st : St) : SameFrame st (outLitLoop o e st bs) := by
  induction bs generalizing st with
  | nil => exact ⟨rfl, rfl⟩
  | cons c r ih =>
    unfold outLitLoop
    exact ((pre_frame e st c).trans (litByte_frame _ c)).trans ((wrapCheck_frame o _).trans (ih _))

theorem outc_frame (o : CmOpts) (e : Bool) (st : St) (c : UInt8) (esc : Esc) (nx : Option UInt8) :
    SameFrame st (outc o e st c esc nx) := by
  have hl := outLitLoop_frame o e ([0x26, 0x23] ++ ofNatDec c.toNat ++ [0x3B]) st
  unfold SameFrame at *
  unfold outc; constructor <;> (dsimp only; repeat' split) <;> first | rfl | exact hl.1 | exact hl.2

theorem outLoop_frame (o : CmOpts) (e w : Bool) (esc : Esc) (f : Nat) (st : St) (bs : Bytes) :
    SameFrame st (outLoop o e w esc f st bs) := by
  induction f generalizing st bs with
  | zero => unfold outLoop; exact ⟨rfl, rfl⟩
  | succ f ih =>
    cases bs with
    | nil => unfold outLoop; exact ⟨rfl, rfl⟩
    | cons c r =>
      unfold outLoop; simp only []
      have hp := pre_frame e st c
      split
      · split
        · refine hp.trans (SameFrame.trans (SameFrame.trans ?_ (wrapCheck_frame o _)) (ih _ _))
          unfold SameFrame; constructor <;> (repeat' split) <;> rfl
        · exact hp.trans ((wrapCheck_frame o _).trans (ih _ _))
      · split
        · exact hp.trans (((litByte_frame _ c).trans (wrapCheck_frame o _)).trans (ih _ _))
        · exact hp.trans (((outc_frame o e _ c esc _).trans (SameFrame.trans (b := { outc o e (pre e st c) c esc r.head? with beginLine := false, beginContent := (outc o e (pre e st c) c esc r.head?).beginContent && isAsciiDigit c }) ⟨rfl, rfl⟩ (wrapCheck_frame o _))).trans (ih _ _))

theorem output_frame (o : CmOpts) (e : Bool) (st : St) (b : Bytes) (w : Bool) (esc : Esc) :
    SameFrame st (output o e st b w esc) := by
  unfold output; exact (crFlush_frame st).trans (outLoop_frame ..)

theorem wr_frame (o : CmOpts) (e : Bool) (bs : Bytes) (st : St) : SameFrame st (wr o e bs st) := by
  unfold wr; split
  · exact ⟨rfl, rfl⟩
  · exact output_frame ..

theorem take_restore (p : Bytes) (m : Nat) :
    List.take (if m < p.length + (spaces m).length then p.length + (spaces m).length - m else 0) (p ++ spaces m) = p := by
  simp only [spaces, List.length_replicate]
  by_cases hp : p.length = 0
  · have : p = [] := List.eq_nil_of_length_eq_zero hp
    subst this; simp
  · have h1 : m < p.length + m := by omega
    simp only [h1, if_true]
    have : p.length + m - m = p.length := by omega
    rw [this, List.take_left']
    rfl

/-- Leaving a list item removes from the prefix exactly what entering it added, whatever was
    written in between (anything that leaves prefix and list stack as the item's content does). -/
theorem fmtItem_exit_restores_prefix (o : CmOpts) (ep ep' : Bool) (pl : NList) (s : Nat) (st st2 : St)
    (h : SameFrame (fmtItem o ep pl s true st) st2) :
    (fmtItem o ep' pl s false st2).prefix_ = st.prefix_ := by
  obtain ⟨hp, hs⟩ := h
  have hb := fun bs st' => wr_frame o ep bs st'
  rcases hty : pl.ty with _ | _ <;> rcases hst : st.olStack with _ | ⟨n, r⟩ <;>
    simp [fmtItem, hty, hst, St.cr] at hp hs ⊢ <;>
    simp [hp, hs, (hb _ _).1, (hb _ _).2, hst, take_restore]
end Comrak.Cm
