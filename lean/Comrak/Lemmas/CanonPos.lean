/-
C03 / C11 / C12, canonical documents: the positioned tree `Doc.toTreeP d` is the tree `Doc.toTree d`
of the renderer theorems with positions filled in, nothing else.
-/
import Comrak.Canon.Pos
namespace Comrak.Canon
open Comrak Bytes

mutual
/-- The tree with every position reset. -/
def eraseT : Tree → Tree
  | .node v _ cs => .node v {} (eraseF cs)
def eraseF : Forest → Forest
  | .nil => .nil
  | .cons t ts => .cons (eraseT t) (eraseF ts)
end

mutual
theorem inl_erase : ∀ (i : Inl) (c0 : Nat) (p : Pos), eraseT (i.toTreeP c0 p) = i.toTree
  | .text as, _, _ => by simp [Inl.toTreeP, Inl.toTree, leaf, eraseT, eraseF]
  | .code n s, _, _ => by simp [Inl.toTreeP, Inl.toTree, leaf, eraseT, eraseF]
  | .emph _ cs, c0, p => by simp [Inl.toTreeP, Inl.toTree, eraseT, inls_erase cs]
  | .strong _ cs, c0, p => by simp [Inl.toTreeP, Inl.toTree, eraseT, inls_erase cs]
  | .strike cs, c0, p => by simp [Inl.toTreeP, Inl.toTree, eraseT, inls_erase cs]
  | .link _ _ _ _ cs, c0, p => by simp [Inl.toTreeP, Inl.toTree, eraseT, inls_erase cs]
  | .image _ _ _ cs, c0, p => by simp [Inl.toTreeP, Inl.toTree, eraseT, inls_erase cs]
  | .autolink s r, _, _ => by simp [Inl.toTreeP, Inl.toTree, leaf, eraseT, eraseF]
  | .hard _, _, _ => by simp [Inl.toTreeP, Inl.toTree, leaf, eraseT, eraseF]
  | .soft, _, _ => by simp [Inl.toTreeP, Inl.toTree, leaf, eraseT, eraseF]
  | .fnref .., _, _ => by simp [Inl.toTreeP, Inl.toTree, leaf, eraseT, eraseF]
theorem inls_erase : ∀ (is : Inls) (c0 : Nat) (p : Pos), eraseF (is.toForestP c0 p) = is.toForest
  | .nil, _, _ => by simp [Inls.toForestP, Inls.toForest, eraseF]
  | .cons i r, c0, p => by simp [Inls.toForestP, Inls.toForest, eraseF, inl_erase i, inls_erase r]
end

mutual
theorem inl_erase0 : ∀ (i : Inl), eraseT i.toTree = i.toTree
  | .text as => by simp [Inl.toTree, leaf, eraseT, eraseF]
  | .code n s => by simp [Inl.toTree, leaf, eraseT, eraseF]
  | .emph _ cs => by simp [Inl.toTree, eraseT, inls_erase0 cs]
  | .strong _ cs => by simp [Inl.toTree, eraseT, inls_erase0 cs]
  | .strike cs => by simp [Inl.toTree, eraseT, inls_erase0 cs]
  | .link _ _ _ _ cs => by simp [Inl.toTree, eraseT, inls_erase0 cs]
  | .image _ _ _ cs => by simp [Inl.toTree, eraseT, inls_erase0 cs]
  | .autolink s r => by simp [Inl.toTree, leaf, eraseT, eraseF]
  | .hard _ => by simp [Inl.toTree, leaf, eraseT, eraseF]
  | .soft => by simp [Inl.toTree, leaf, eraseT, eraseF]
  | .fnref .. => by simp [Inl.toTree, leaf, eraseT, eraseF]
theorem inls_erase0 : ∀ (is : Inls), eraseF is.toForest = is.toForest
  | .nil => by simp [Inls.toForest, eraseF]
  | .cons i r => by simp [Inls.toForest, eraseF, inl_erase0 i, inls_erase0 r]
end

theorem cells_erase (l : Nat) : ∀ (cs : List Inls) (c : Nat), eraseF (cellsP l c cs) = cellsForest cs
  | [], _ => by simp [cellsP, cellsForest, eraseF]
  | x :: r, c => by
    simp only [cellsP, cellsForest, eraseF, eraseT, cells_erase l r]
    split <;> simp [inls_erase0, inls_erase]

theorem rows_erase (c : Nat) : ∀ (rows : List (List Inls)) (l : Nat), eraseF (rowsP c l rows) = rowsForest rows
  | [], _ => by simp [rowsP, rowsForest, eraseF]
  | r :: rs, l => by simp [rowsP, rowsForest, eraseF, eraseT, cells_erase, rows_erase c rs]

mutual
theorem blk_erase : ∀ (b : Blk) (l c0 c1 : Nat), eraseT (b.toTreeP l c0 c1) = b.toTree
  | .para is, _, _, _ => by simp [Blk.toTreeP, Blk.toTree, eraseT, inls_erase]
  | .heading _ is, _, _, _ => by simp [Blk.toTreeP, Blk.toTree, eraseT, inls_erase]
  | .setext _ _ is, _, _, _ => by simp [Blk.toTreeP, Blk.toTree, eraseT, inls_erase]
  | .hr _ _, _, _, _ => by simp [Blk.toTreeP, Blk.toTree, leaf, eraseT, eraseF]
  | .fence .., _, _, _ => by simp [Blk.toTreeP, Blk.toTree, leaf, eraseT, eraseF]
  | .icode _, _, _, _ => by simp [Blk.toTreeP, Blk.toTree, leaf, eraseT, eraseF]
  | .quote bs, l, _, c1 => by simp [Blk.toTreeP, Blk.toTree, eraseT, blks_erase bs]
  | .list m items, l, _, c1 => by simp [Blk.toTreeP, Blk.toTree, eraseT, items_erase items]
  | .htmlb _, _, _, _ => by simp [Blk.toTreeP, Blk.toTree, leaf, eraseT, eraseF]
  | .table al h rows, _, _, _ => by simp [Blk.toTreeP, Blk.toTree, eraseT, eraseF, cells_erase, rows_erase]
theorem blks_erase : ∀ (bs : Blks) (tight : Bool) (l c0 c1 : Nat), eraseF (bs.toForestP tight l c0 c1) = bs.toForest
  | .nil, _, _, _, _ => by simp [Blks.toForestP, Blks.toForest, eraseF]
  | .cons b r, tight, l, c0, c1 => by simp [Blks.toForestP, Blks.toForest, eraseF, blk_erase b, blks_erase r]
theorem items_erase : ∀ (items : Items) (m : Marker) (k l c : Nat), eraseF (items.toForestP m k l c) = items.toForest m k
  | .nil, _, _, _, _ => by simp [Items.toForestP, Items.toForest, eraseF]
  | .cons t bs r, m, k, l, c => by simp [Items.toForestP, Items.toForest, eraseF, eraseT, blks_erase bs, items_erase r]
end

theorem notes_erase (order : List Nat) (l0 nw : Nat) : ∀ (notes : List Note) (i : Nat),
    eraseF (notesForestP order l0 nw i notes) = notesForest notes
  | [], _ => by simp [notesForestP, notesForest, eraseF]
  | n :: r, i => by
    simp [notesForestP, notesForest, eraseF, eraseT, Note.toTreeP, Note.toTree, inls_erase, notes_erase order l0 nw r]

theorem then_erase (tailP tail : Forest) (h : eraseF tailP = tail) : ∀ (bs : Blks) (l : Nat),
    eraseF (bs.toForestThenP tailP l) = bs.toForestThen tail
  | .nil, _ => by simpa [Blks.toForestThenP, Blks.toForestThen] using h
  | .cons b r, l => by simp [Blks.toForestThenP, Blks.toForestThen, eraseF, blk_erase b, then_erase tailP tail h r]

/-- The positioned tree is the tree of the renderer theorems with positions filled in. -/
theorem doc_erase (d : Doc) : eraseT d.toTreeP = d.toTree := by
  simp only [Doc.toTreeP, Doc.toTree, eraseT]
  congr 1
  exact then_erase _ _ (notes_erase _ _ _ _ _) _ _

end Comrak.Canon
