/-
Lemmas for C15 (footnotes): the numbering walk issues `ix` values in first-reference order.
-/
import Comrak.Footnotes
import Comrak.Html
namespace Comrak
open Bytes

def ixsOf (l : List (Bytes × Nat × Nat)) : List Nat := l.map (·.2.2)

theorem ixsOf_append (a b : List (Bytes × Nat × Nat)) : ixsOf (a ++ b) = ixsOf a ++ ixsOf b := by
  simp [ixsOf]

/-- References emitted by one step (none when the label is unresolved). -/
def valueRefs : NodeValue → List (Bytes × Nat × Nat)
  | .footnoteReference name refNum ix => [(name, refNum, ix)]
  | _ => []

theorem stepRef_order (N : LabelNorm) (D : DefTab) (st : NSt) (label : Bytes) (rest : List Nat) :
    firstRefOrder st.seen.length (ixsOf (valueRefs (stepRef N D st label).1) ++ rest)
      = firstRefOrder (stepRef N D st label).2.seen.length rest := by
  cases hD : D.get? (N.fold label) with
  | none => simp [stepRef, hD, valueRefs, ixsOf]
  | some d =>
    by_cases hm : N.fold label ∈ st.seen
    · have hlt := List.idxOf_lt_length_of_mem hm
      have hne : ¬ (List.idxOf (N.fold label) st.seen + 1 = st.seen.length + 1) := by omega
      have h1 : 1 ≤ List.idxOf (N.fold label) st.seen + 1 := by omega
      have h2 : List.idxOf (N.fold label) st.seen + 1 ≤ st.seen.length := by omega
      simp [stepRef, hD, valueRefs, ixsOf, hm, firstRefOrder, h2]
      intro h; omega
    · have hidx : (st.seen ++ [N.fold label]).idxOf (N.fold label) = st.seen.length := by
        rw [List.idxOf_append]
        simp [hm]
      simp [stepRef, hD, valueRefs, ixsOf, hm, firstRefOrder, hidx]

mutual
theorem numberT_order (N : LabelNorm) (D : DefTab) : ∀ (t : Tree) (st : NSt) (rest : List Nat),
    leafRefsT t = true →
    firstRefOrder st.seen.length (ixsOf (allRefsT (numberT N D t st).1) ++ rest)
      = firstRefOrder (numberT N D t st).2.seen.length rest
  | .node v sp cs, st, rest, h => by
    cases v
    case footnoteReference name rn ix =>
      simp only [leafRefsT] at h
      have hcs : cs = .nil := by cases cs <;> simp_all [Forest.isNil]
      subst hcs
      simp only [numberT]
      have key := stepRef_order N D st name rest
      have e : allRefsT (.node (stepRef N D st name).1 sp .nil) = valueRefs (stepRef N D st name).1 := by
        cases (stepRef N D st name).1 <;> simp [allRefsT, allRefsF, valueRefs]
      rw [e]; exact key
    all_goals
      simp only [leafRefsT] at h
      simp only [numberT, allRefsT]
      exact numberF_order N D cs st rest h
theorem numberF_order (N : LabelNorm) (D : DefTab) : ∀ (f : Forest) (st : NSt) (rest : List Nat),
    leafRefsF f = true →
    firstRefOrder st.seen.length (ixsOf (allRefsF (numberF N D f st).1) ++ rest)
      = firstRefOrder (numberF N D f st).2.seen.length rest
  | .nil, st, rest, _ => by simp [numberF, allRefsF, ixsOf]
  | .cons t ts, st, rest, h => by
    simp only [leafRefsF, Bool.and_eq_true] at h
    simp only [numberF, allRefsF, ixsOf_append, List.append_assoc]
    rw [numberT_order N D t st _ h.1]
    exact numberF_order N D ts _ rest h.2
end

end Comrak

namespace Comrak
open Bytes

/-! ## The id/href graph at token level (what `renderToks` writes for footnotes) -/

def attrVal (as : List Attr) (n : Bytes) : Option Bytes :=
  match as.find? fun a => a.name == n with
  | some a => a.val.map spellVal
  | none => none

def hasAttr (as : List Attr) (n : Bytes) : Bool := as.any fun a => a.name == n

/-- `id` values of the footnote references (`<a ... data-footnote-ref>`). -/
def tokRefIds (ts : List Tok) : List Bytes :=
  ts.filterMap fun t =>
    match t with
    | .op _ as => if hasAttr as S.a_data_footnote_ref then attrVal as S.a_id else none
    | _ => none

/-- Targets of the back-links (`<a href="#.." data-footnote-backref>`), without the `#`. -/
def tokBackHrefs (ts : List Tok) : List Bytes :=
  ts.filterMap fun t =>
    match t with
    | .op _ as => if hasAttr as S.a_data_footnote_backref then (attrVal as S.a_href).map (·.drop 1) else none
    | _ => none

/-- `id` values of the rendered definitions (`<li id="fn-..">`). -/
def tokDefIds (ts : List Tok) : List Bytes :=
  ts.filterMap fun t =>
    match t with
    | .op n as => if n == S.t_li then attrVal as S.a_id else none
    | _ => none

/-- Every back-link points to the id of a rendered reference and vice versa. -/
def backrefsMatch (ts : List Tok) : Bool :=
  (tokBackHrefs ts).all (tokRefIds ts).contains && (tokRefIds ts).all (tokBackHrefs ts).contains &&
  (tokBackHrefs ts).length == (tokRefIds ts).length

/-! Small tree constructors for witnesses -/
def W.tx (s : Bytes) : Tree := .node (.text s) {} .nil
def W.rf (n : Bytes) : Tree := .node (.footnoteReference n 0 0) {} .nil
def W.para (l : List Tree) : Tree := .node .paragraph {} (Forest.ofList l)
def W.dfn (n : Bytes) (l : List Tree) : Tree := .node (.footnoteDefinition n 0) {} (Forest.ofList l)
def W.doc (l : List Tree) : Tree := .node .document {} (Forest.ofList l)

/-- `x[^a]` / `[^a]: A` / `[^b]: B[^a]`: the second reference to `a` sits in a definition that is dropped. -/
def W.discarded : Tree :=
  W.doc [W.para [W.tx [0x78], W.rf [0x61]], W.dfn [0x61] [W.para [W.tx [0x41]]],
         W.dfn [0x62] [W.para [W.tx [0x42], W.rf [0x61]]]]

/-- `[^a] [^a] [^a-2]` / `[^a]: A` / `[^a-2]: B`. -/
def W.suffix : Tree :=
  W.doc [W.para [W.rf [0x61], W.rf [0x61], W.rf [0x61, 0x2D, 0x32]], W.dfn [0x61] [W.para [W.tx [0x41]]],
         W.dfn [0x61, 0x2D, 0x32] [W.para [W.tx [0x42]]]]

/-- `x[^a]` / `[^a]: A` + indented `[^b]: inner`. -/
def W.nested : Tree :=
  W.doc [W.para [W.tx [0x78], W.rf [0x61]],
         W.dfn [0x61] [W.para [W.tx [0x41]], W.dfn [0x62] [W.para [W.tx [0x69]]]]]

/-- `x[^a] [^b]` / `[^a]: A` + indented `[^b]: inner` / `[^b]: B`. -/
def W.nestedDup : Tree :=
  W.doc [W.para [W.tx [0x78], W.rf [0x61], W.rf [0x62]],
         W.dfn [0x61] [W.para [W.tx [0x41]], W.dfn [0x62] [W.para [W.tx [0x69]]]],
         W.dfn [0x62] [W.para [W.tx [0x42]]]]

/-- A clean document: `x[^a] y[^B] z[^a] [^q]` / `[^b]: B[^a]` / `[^A]: A` (case variants, a reference inside a
    live definition, an unresolved name). -/
def W.clean : Tree :=
  W.doc [W.para [W.tx [0x78], W.rf [0x61], W.tx [0x79], W.rf [0x42], W.tx [0x7A], W.rf [0x61], W.rf [0x71]],
         W.dfn [0x62] [W.para [W.tx [0x42], W.rf [0x61]]], W.dfn [0x41] [W.para [W.tx [0x41]]]]

/-- A normaliser whose `keep` is not idempotent, as `normalize_label` is on a label starting with U+00A0:
    the leading no-break space becomes a space on the first application and is trimmed by the second. -/
def nbspKeep (s : Bytes) : Bytes := match s with | 0xC2 :: 0xA0 :: r => 0x20 :: keepAscii r | _ => keepAscii s
def nbspNorm : LabelNorm := { fold := fun s => (nbspKeep s).map toLowerAscii, keep := nbspKeep }

/-- `x[^\u{a0}u]` / `[^\u{a0}u]: A`. -/
def W.nbsp : Tree :=
  W.doc [W.para [W.tx [0x78], W.rf [0xC2, 0xA0, 0x75]], W.dfn [0xC2, 0xA0, 0x75] [W.para [W.tx [0x41]]]]

end Comrak
