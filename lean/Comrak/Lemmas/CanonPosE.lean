/-
Positions of canonical documents, layer E: the local facts the proof uses about blocks (`Blk.ph`),
and the blocks without block children.
-/
import Comrak.Lemmas.CanonPosD
import Comrak.Canon.Ok
namespace Comrak.Canon
open Comrak Bytes

def firstNotSp (s : Bytes) : Bool := match s.head? with | some b => !isSpTab b | none => false

/-- A table cell: inline content on one line in which every `|` is escaped. -/
def cellPh (c : Inls) : Bool := c.ph && nlFree c.src && !hasBarePipe 0 ([0x20] ++ c.src ++ [0x20])

mutual
/-- Local facts about a block the position proof uses; all of them follow from `Doc.ok`:
    no empty line inside a paragraph, heading level / underline / fence / break lengths at least
    1 / 1 / 3 / 3, heading content on one line, setext content not starting with a space, no empty
    line in an HTML block, first and last line of an indented code block not empty, containers not
    empty, a task marker only before a paragraph, table cells on one line with escaped pipes. -/
def Blk.ph : Blk → Bool
  | .para is => is.ph && allNonempty (splitNl is.src)
  | .heading lv is => decide (1 ≤ lv) && is.ph && nlFree is.src
  | .setext _ n is => decide (1 ≤ n) && is.ph && allNonempty (splitNl is.src) && firstNotSp is.src
  | .hr c n => (c == 0x2A || c == 0x2D || c == 0x5F) && decide (3 ≤ n)
  | .fence _ len _ _ => decide (3 ≤ len)
  | .icode ls => !ls.isEmpty && !(ls.getLastD []).isEmpty
  | .quote bs => !bs.isNil && bs.ph
  | .list _ items => !items.isNil && items.ph
  | .htmlb ls => !ls.isEmpty && allNonempty ls
  | .table al h rows => h.all cellPh && rows.all fun r => r.all cellPh
def Blks.ph : Blks → Bool
  | .nil => true
  | .cons b r => b.ph && r.ph
def Items.ph : Items → Bool
  | .nil => true
  | .cons t bs r => !bs.isNil && bs.ph && (!t.isTask || bs.startsPara) && r.ph
end

theorem itemLines_ne_nil (mk : Bytes) (ls : List Bytes) : itemLines mk ls ≠ [] := by
  cases ls <;> simp [itemLines]

theorem Items.lines_ne_nil (m : Marker) (k : Nat) : ∀ items : Items, items.isNil = false → items.lines m k ≠ []
  | .nil, h => by simp [Items.isNil] at h
  | .cons t bs r, _ => by
    simp only [Items.lines]
    have := itemLines_ne_nil (m.src k) (t.mark (bs.lines m.tight))
    cases hq : itemLines (m.src k) (t.mark (bs.lines m.tight)) with
    | nil => exact absurd hq this
    | cons x xs => simp

mutual
theorem Blk.lines_ne_nil : ∀ b : Blk, b.ph = true → b.lines ≠ []
  | .para is, _ => by simpa [Blk.lines] using splitNl_ne_nil _
  | .heading .., _ => by simp [Blk.lines]
  | .setext .., _ => by simp [Blk.lines]
  | .hr .., _ => by simp [Blk.lines]
  | .fence .., _ => by simp [Blk.lines]
  | .icode ls, h => by
    simp only [Blk.ph, Bool.and_eq_true, Bool.not_eq_true', List.isEmpty_eq_false_iff] at h
    simpa [Blk.lines] using h.1
  | .quote bs, h => by
    simp only [Blk.ph, Bool.and_eq_true, Bool.not_eq_true'] at h
    have := Blks.lines_ne_nil bs false h.1 h.2
    simpa [Blk.lines] using this
  | .list m items, h => by
    simp only [Blk.ph, Bool.and_eq_true, Bool.not_eq_true'] at h
    simpa [Blk.lines] using Items.lines_ne_nil m m.start items h.1
  | .htmlb ls, h => by
    simp only [Blk.ph, Bool.and_eq_true, Bool.not_eq_true', List.isEmpty_eq_false_iff] at h
    simpa [Blk.lines] using h.1
  | .table .., _ => by simp [Blk.lines]
theorem Blks.lines_ne_nil : ∀ (bs : Blks) (tight : Bool), bs.isNil = false → bs.ph = true → bs.lines tight ≠ []
  | .nil, _, h, _ => by simp [Blks.isNil] at h
  | .cons b r, tight, _, h => by
    simp only [Blks.ph, Bool.and_eq_true] at h
    have := Blk.lines_ne_nil b h.1
    simp only [Blks.lines]
    cases hq : b.lines with
    | nil => exact absurd hq this
    | cons x xs => simp
end

/-! ### The last line of a block is not empty -/

theorem getLastD_append_ne (xs ys : List Bytes) (h : ys ≠ []) : (xs ++ ys).getLastD [] = ys.getLastD [] := by
  cases ys with
  | nil => exact absurd rfl h
  | cons y t =>
    simp only [List.getLastD_eq_getLast?, List.getLast?_append]
    cases hq : (y :: t).getLast? with
    | none => simp at hq
    | some z => simp

theorem getLastD_map_ne (f : Bytes → Bytes) : ∀ (xs : List Bytes), xs ≠ [] → (xs.map f).getLastD [] = f (xs.getLastD [])
  | [], h => absurd rfl h
  | [x], _ => rfl
  | x :: y :: t, _ => by
    have := getLastD_map_ne f (y :: t) (by simp)
    simpa using this

theorem ite_indent_ne (l ind : Bytes) (h : l ≠ []) : (if l.isEmpty then [] else ind ++ l) ≠ [] := by
  cases l with
  | nil => exact absurd rfl h
  | cons a b => simp

theorem getLastD_map_ex {α : Type} (f : α → Bytes) : ∀ (xs : List α), xs ≠ [] → ∃ a, (xs.map f).getLastD [] = f a
  | [], h => absurd rfl h
  | [x], _ => ⟨x, rfl⟩
  | x :: y :: t, _ => by
    obtain ⟨a, ha⟩ := getLastD_map_ex f (y :: t) (by simp)
    exact ⟨a, by simpa using ha⟩

theorem splitNl_last_of_all (s : Bytes) (h : allNonempty (splitNl s) = true) : (splitNl s).getLastD [] ≠ [] := by
  have hne := splitNl_ne_nil s
  have hm : (splitNl s).getLastD [] ∈ splitNl s := by
    cases hq : splitNl s with
    | nil => exact absurd hq hne
    | cons x t =>
      rw [List.getLastD_eq_getLast?]
      cases hl : (x :: t).getLast? with
      | none => simp at hl
      | some z => simpa using List.mem_of_getLast? hl
  simp only [allNonempty, List.all_eq_true, Bool.not_eq_true', List.isEmpty_eq_false_iff] at h
  exact h _ hm

theorem itemLines_last (mk : Bytes) (t : Task) : ∀ (ls : List Bytes), ls ≠ [] → ls.getLastD [] ≠ [] →
    (itemLines mk (t.mark ls)).getLastD [] ≠ []
  | [], h, _ => absurd rfl h
  | [x], _, _ => by simp [Task.mark, itemLines]
  | x :: y :: r, _, hl => by
    simp only [Task.mark, itemLines]
    have e : ((mk ++ [0x20] ++ (t.src ++ x)) :: (y :: r).map fun l => if l.isEmpty then [] else rep (mk.length + 1) 0x20 ++ l) =
        [mk ++ [0x20] ++ (t.src ++ x)] ++ ((y :: r).map fun l => if l.isEmpty then [] else rep (mk.length + 1) 0x20 ++ l) := rfl
    rw [e, getLastD_append_ne _ _ (by simp), getLastD_map_ne _ _ (by simp)]
    have hl' : (y :: r).getLastD [] ≠ [] := by simpa using hl
    exact ite_indent_ne _ _ hl'

mutual
theorem Blk.last_ne_nil : ∀ b : Blk, b.ph = true → b.lines.getLastD [] ≠ []
  | .para is, h => by
    simp only [Blk.ph, Bool.and_eq_true] at h
    exact splitNl_last_of_all _ h.2
  | .heading .., _ => by simp [Blk.lines]
  | .setext _ n _, h => by
    simp only [Blk.ph, Bool.and_eq_true, decide_eq_true_eq] at h
    obtain ⟨m, rfl⟩ : ∃ m, n = m + 1 := ⟨n - 1, by omega⟩
    simp only [Blk.lines]
    rw [getLastD_append_ne _ _ (by simp)]
    simp [rep_succ]
  | .hr _ n, h => by
    simp only [Blk.ph, Bool.and_eq_true, decide_eq_true_eq] at h
    obtain ⟨m, rfl⟩ : ∃ m, n = m + 1 := ⟨n - 1, by omega⟩
    simp [Blk.lines, rep_succ]
  | .fence _ len _ _, h => by
    simp only [Blk.ph, decide_eq_true_eq] at h
    obtain ⟨m, rfl⟩ : ∃ m, len = m + 1 := ⟨len - 1, by omega⟩
    simp only [Blk.lines]
    rw [getLastD_append_ne _ _ (by simp)]
    simp [rep_succ]
  | .icode ls, h => by
    simp only [Blk.ph, Bool.and_eq_true, Bool.not_eq_true', List.isEmpty_eq_false_iff] at h
    simp only [Blk.lines]
    rw [getLastD_map_ne _ _ h.1]
    exact ite_indent_ne _ _ h.2
  | .quote bs, h => by
    simp only [Blk.ph, Bool.and_eq_true, Bool.not_eq_true'] at h
    simp only [Blk.lines]
    rw [getLastD_map_ne _ _ (Blks.lines_ne_nil bs false h.1 h.2)]
    unfold quoteLine; split <;> simp
  | .list m items, h => by
    simp only [Blk.ph, Bool.and_eq_true, Bool.not_eq_true'] at h
    exact Items.last_ne_nil items m m.start h.1 h.2
  | .htmlb ls, h => by
    simp only [Blk.ph, Bool.and_eq_true, Bool.not_eq_true', List.isEmpty_eq_false_iff] at h
    have hm : ls.getLastD [] ∈ ls := by
      cases ls with
      | nil => exact absurd rfl h.1
      | cons x t =>
        rw [List.getLastD_eq_getLast?]
        cases hl : (x :: t).getLast? with
        | none => simp at hl
        | some z => simpa using List.mem_of_getLast? hl
    have := h.2
    simp only [allNonempty, List.all_eq_true, Bool.not_eq_true', List.isEmpty_eq_false_iff] at this
    exact this _ hm
  | .table al hd rows, _ => by
    simp only [Blk.lines]
    cases rows with
    | nil => simp [rowSrc]
    | cons r rs =>
      rw [getLastD_append_ne _ _ (by simp)]
      obtain ⟨a, ha⟩ := getLastD_map_ex (fun r => rowSrc (r.map Inls.src)) (r :: rs) (by simp)
      rw [ha]
      simp [rowSrc]
theorem Blks.last_ne_nil : ∀ (bs : Blks) (tight : Bool), bs.isNil = false → bs.ph = true → (bs.lines tight).getLastD [] ≠ []
  | .nil, _, h, _ => by simp [Blks.isNil] at h
  | .cons b .nil, tight, _, h => by
    simp only [Blks.ph, Bool.and_eq_true] at h
    simpa [Blks.lines, Blks.isNil] using Blk.last_ne_nil b h.1
  | .cons b (.cons b2 r2), tight, _, h => by
    simp only [Blks.ph, Bool.and_eq_true] at h
    have ih := Blks.last_ne_nil (.cons b2 r2) tight rfl (by simpa [Blks.ph] using h.2)
    have hne := Blks.lines_ne_nil (.cons b2 r2) tight rfl (by simpa [Blks.ph] using h.2)
    simp only [Blks.lines] at ih hne ⊢
    rw [getLastD_append_ne _ _ hne]
    exact ih
theorem Items.last_ne_nil : ∀ (items : Items) (m : Marker) (k : Nat), items.isNil = false → items.ph = true →
    (items.lines m k).getLastD [] ≠ []
  | .nil, _, _, h, _ => by simp [Items.isNil] at h
  | .cons t bs .nil, m, k, _, h => by
    simp only [Items.ph, Bool.and_eq_true, Bool.not_eq_true'] at h
    simp only [Items.lines, Items.isNil, Bool.or_true, if_true, List.append_nil]
    exact itemLines_last _ t _ (Blks.lines_ne_nil bs m.tight h.1.1.1 h.1.1.2) (Blks.last_ne_nil bs m.tight h.1.1.1 h.1.1.2)
  | .cons t bs (.cons t2 bs2 r2), m, k, _, h => by
    simp only [Items.ph, Bool.and_eq_true] at h
    have ih := Items.last_ne_nil (.cons t2 bs2 r2) m (k + 1) rfl (by simpa [Items.ph] using h.2)
    have hne := Items.lines_ne_nil m (k + 1) (.cons t2 bs2 r2) rfl
    simp only [Items.lines] at ih hne ⊢
    rw [getLastD_append_ne _ _ hne]
    exact ih
end

end Comrak.Canon
