/-
C06 helper lemmas: an upper bound on what the HTML formatter model writes, token by token.
`Tok.size` over-approximates `Tok.spell` (6 bytes per escaped byte, the rest exactly).
-/
import Comrak.Html
import Comrak.Lemmas.CostNames
namespace Comrak.HtmlSize
open Comrak Bytes

/-! ### Escapers (same statements as `C06.escape_len`, needed below the property file) -/

theorem escByte_len' (b : UInt8) : (escByte b).length ≤ 6 := by
  unfold escByte; repeat' split
  all_goals simp [entQuot, entAmp, entLt, entGt]

theorem hrefByte_len' (b : UInt8) : (hrefByte b).length ≤ 6 := by
  unfold hrefByte; repeat' split
  all_goals simp [entAmp, entApos, pctByte]

theorem flatMap_len_le' (f : UInt8 → Bytes) (k : Nat) (h : ∀ b, (f b).length ≤ k) (l : Bytes) :
    (l.flatMap f).length ≤ k * l.length := by
  induction l with
  | nil => simp
  | cons b r ih =>
    simp only [List.flatMap_cons, List.length_append, List.length_cons]
    have := h b
    rw [Nat.mul_succ]; omega

theorem escape_len' (b : Bytes) : (escape b).length ≤ 6 * b.length := flatMap_len_le' escByte 6 escByte_len' b
theorem escapeHref_len' (b : Bytes) : (escapeHref b).length ≤ 6 * b.length := flatMap_len_le' hrefByte 6 hrefByte_len' b

/-! ### Sizes -/

def partSize : APart → Nat
  | .esc v => 6 * v.length
  | .href v => 6 * v.length
  | .lit v => v.length

def partsSize : List APart → Nat
  | [] => 0
  | p :: r => partSize p + partsSize r

def attrSize (a : Attr) : Nat :=
  match a.val with
  | none => 1 + a.name.length
  | some ps => 4 + a.name.length + partsSize ps

def attrsSize : List Attr → Nat
  | [] => 0
  | a :: r => attrSize a + attrsSize r

def tokSize : Tok → Nat
  | .op n as => 2 + n.length + attrsSize as
  | .cl n => 3 + n.length
  | .vd n as => 4 + n.length + attrsSize as
  | .txt v => 6 * v.length
  | .lit v => v.length
  | .raw v => v.length
  | .cmt => 25

def toksSize : List Tok → Nat
  | [] => 0
  | t :: r => tokSize t + toksSize r

theorem partsSize_append (a b : List APart) : partsSize (a ++ b) = partsSize a + partsSize b := by
  induction a with
  | nil => simp [partsSize]
  | cons p r ih => simp only [List.cons_append, partsSize, ih]; omega

theorem attrsSize_append (a b : List Attr) : attrsSize (a ++ b) = attrsSize a + attrsSize b := by
  induction a with
  | nil => simp [attrsSize]
  | cons p r ih => simp only [List.cons_append, attrsSize, ih]; omega

theorem toksSize_append (a b : List Tok) : toksSize (a ++ b) = toksSize a + toksSize b := by
  induction a with
  | nil => simp [toksSize]
  | cons p r ih => simp only [List.cons_append, toksSize, ih]; omega

theorem spellVal_le (ps : List APart) : (spellVal ps).length ≤ partsSize ps := by
  induction ps with
  | nil => simp [spellVal, partsSize]
  | cons p r ih =>
    simp only [spellVal, List.flatMap_cons, List.length_append, partsSize] at ih ⊢
    have : (APart.spell p).length ≤ partSize p := by
      cases p with
      | esc v => exact escape_len' v
      | href v => exact escapeHref_len' v
      | lit v => simp [APart.spell, partSize]
    omega

theorem spellAttrs_le (as : List Attr) : (spellAttrs as).length ≤ attrsSize as := by
  induction as with
  | nil => simp [spellAttrs, attrsSize]
  | cons a r ih =>
    simp only [spellAttrs, List.flatMap_cons, List.length_append, attrsSize] at ih ⊢
    have : (Attr.spell a).length ≤ attrSize a := by
      unfold Attr.spell attrSize
      cases a.val with
      | none => simp; omega
      | some ps => have := spellVal_le ps; simp; omega
    omega

/-- **What is written is at most the size of the tokens.** -/
theorem spell_le_size (ts : List Tok) : (spell ts).length ≤ toksSize ts := by
  induction ts with
  | nil => simp [spell, toksSize]
  | cons t r ih =>
    simp only [spell, List.flatMap_cons, List.length_append, toksSize] at ih ⊢
    have : (Tok.spell t).length ≤ tokSize t := by
      cases t with
      | op n as => have := spellAttrs_le as; simp [Tok.spell, tokSize]; omega
      | cl n => simp [Tok.spell, tokSize]; omega
      | vd n as => have := spellAttrs_le as; simp [Tok.spell, tokSize]; omega
      | txt v => exact escape_len' v
      | lit v => simp [Tok.spell, tokSize]
      | raw v => simp [Tok.spell, tokSize]
      | cmt => simp [Tok.spell, tokSize]
    omega

/-! ### Writer combinators -/

theorem size_seq (a b : W) (st : St) : toksSize ((a ⨟ b) st).1 = toksSize (a st).1 + toksSize (b (a st).2).1 := by
  simp [W.seq, toksSize_append]

theorem size_emit (ts : List Tok) (st : St) : toksSize (W.emit ts st).1 = toksSize ts := rfl
theorem size_nop (st : St) : toksSize (W.nop st).1 = 0 := rfl
theorem size_cr (st : St) : toksSize (W.cr st).1 ≤ 1 := by
  unfold W.cr; split <;> simp [toksSize, tokSize]

/-- Every run of the writer `w` writes tokens of size at most `n`, whatever the state. -/
def wBound (w : W) (n : Nat) : Prop := ∀ st, toksSize (w st).1 ≤ n

theorem wBound_cr : wBound W.cr 1 := size_cr
theorem wBound_nop : wBound W.nop 0 := fun _ => Nat.le_refl _
theorem wBound_emit (ts : List Tok) : wBound (W.emit ts) (toksSize ts) := fun _ => Nat.le_refl _
theorem wBound_seq {a b : W} {n m : Nat} (ha : wBound a n) (hb : wBound b m) : wBound (a ⨟ b) (n + m) := by
  intro st; rw [size_seq]; have := ha st; have := hb (a st).2; omega
theorem wBound_ite {c : Prop} [Decidable c] {a b : W} {n m : Nat} (ha : wBound a n) (hb : wBound b m) :
    wBound (if c then a else b) (n + m) := by
  intro st; split
  · have := ha st; omega
  · have := hb st; omega
theorem wBound_mono {w : W} {n m : Nat} (h : wBound w n) (hnm : n ≤ m) : wBound w m :=
  fun st => Nat.le_trans (h st) hnm

macro "wb" : tactic =>
  `(tactic| repeat' (first | exact wBound_cr | exact wBound_nop | exact wBound_emit _ | apply wBound_seq | apply wBound_ite))

/-! ### Variable parts -/

def spLen (sp : Sp) : Nat := (spBytes sp).length
def dig (n : Nat) : Nat := (ofNatDec n).length

theorem spAttr_size (o : HtmlOpts) (sp : Sp) : attrsSize (spAttr o sp) ≤ 18 + spLen sp := by
  unfold spAttr; split <;> simp [attrsSize, attrSize, partsSize, partSize, spLen]

theorem urlVal_size (o : HtmlOpts) (url : Bytes) : partsSize (urlVal o url) ≤ 6 * url.length := by
  unfold urlVal; split <;> simp [partsSize, partSize]

theorem alignAttr_size (a : Align) : attrsSize (alignAttr a) ≤ 15 := by
  cases a <;> simp [alignAttr, attrsSize, attrSize, partsSize, partSize, litAttr]

theorem alertCss_len (t : AlertType) : (alertCss t).length ≤ 24 := by cases t <;> simp [alertCss]
theorem alertTitle_len (t : AlertType) : (alertTitle t).length ≤ 9 := by cases t <;> simp [alertTitle]

theorem tagfilterBlock_len (l : Bytes) : (tagfilterBlock l).length ≤ 4 * l.length := by
  induction l with
  | nil => simp [tagfilterBlock]
  | cons b r ih =>
    simp only [tagfilterBlock]
    split
    · split <;> simp <;> omega
    · simp; omega

theorem htmlBlockToks_size (o : HtmlOpts) (l : Bytes) : toksSize (htmlBlockToks o l) ≤ 6 * l.length + 25 := by
  have := tagfilterBlock_len l
  unfold htmlBlockToks; repeat' split
  all_goals simp [toksSize, tokSize]
  all_goals omega

theorem htmlInlineToks_size (o : HtmlOpts) (l : Bytes) : toksSize (htmlInlineToks o l) ≤ 6 * l.length + 25 := by
  unfold htmlInlineToks; repeat' split
  all_goals simp [toksSize, tokSize]
  all_goals omega

theorem rowSectionToks_size (h : Bool) (p : Option NodeValue) : toksSize (rowSectionToks h p) ≤ 8 := by
  unfold rowSectionToks; repeat' split
  all_goals simp [toksSize, tokSize, attrsSize, nl]

theorem splitInfo_len (s : Bytes) : (splitInfo s).1.length + (splitInfo s).2.length = s.length := by
  induction s with
  | nil => simp [splitInfo]
  | cons c r ih => simp only [splitInfo]; split <;> simp <;> omega

theorem trimStartAux_len (fuel : Nat) (s : Bytes) : (trimStartAux fuel s).length ≤ s.length := by
  induction fuel generalizing s with
  | zero => simp [trimStartAux]
  | succ f ih =>
    simp only [trimStartAux]; split
    · omega
    · have := ih (s.drop (wsPrefixLen s)); simp at this ⊢; omega

theorem trimEndRevAux_len (fuel : Nat) (s : Bytes) : (trimEndRevAux fuel s).length ≤ s.length := by
  induction fuel generalizing s with
  | zero => simp [trimEndRevAux]
  | succ f ih =>
    simp only [trimEndRevAux]; split
    · omega
    · have := ih (s.drop (wsSuffixLenRev s)); simp at this ⊢; omega

theorem trimUnicode_len (s : Bytes) : (trimUnicode s).length ≤ s.length := by
  unfold trimUnicode trimEnd trimStart
  have h1 := trimStartAux_len s.length s
  have h2 := trimEndRevAux_len (trimStartAux s.length s).length (trimStartAux s.length s).reverse
  simp at h2 ⊢; omega

theorem codeBlockAttrs_size (o : HtmlOpts) (info : Bytes) (sp : Sp) :
    attrsSize (codeBlockAttrs o info sp).1 + attrsSize (codeBlockAttrs o info sp).2 ≤ 6 * info.length + 6 * spLen sp + 128 := by
  have h1 := splitInfo_len info
  have h2 := trimUnicode_len (splitInfo info).2
  unfold codeBlockAttrs
  simp only [attrsSize_append]
  repeat' split
  all_goals simp [attrsSize, attrSize, partsSize, partSize, spLen]
  all_goals omega

theorem mathCodeBlockToks_size (o : HtmlOpts) (sp : Sp) (l : Bytes) :
    toksSize (mathCodeBlockToks o sp l) ≤ 6 * l.length + 6 * spLen sp + 256 := by
  unfold mathCodeBlockToks
  simp only [nl, toksSize, tokSize, attrsSize_append]
  repeat' split
  all_goals simp [attrsSize, attrSize, partsSize, partSize, spLen]
  all_goals omega

/-! ### Per node -/

/-- Document bytes that `enter` writes (escaped: up to 6 bytes each). -/
def payloadIn : NodeValue → Nat
  | .codeBlock _ _ _ _ info literal => info.length + literal.length
  | .htmlBlock _ l => l.length
  | .text s => s.length
  | .code _ l => l.length
  | .htmlInline s => s.length
  | .raw s => s.length
  | .link u t => u.length + t.length
  | .image u t => u.length + t.length
  | .footnoteReference n _ _ => 2 * n.length
  | .footnoteDefinition n _ => n.length
  | .math _ _ l => l.length
  | .wikiLink u => u.length
  | .escapedTag s => s.length
  | .alert _ (some t) _ _ _ => t.length
  | _ => 0

/-- Document bytes that `exit` writes (the image title again in a `figcaption`, an escaped tag again). -/
def payloadOut : NodeValue → Nat
  | .image _ t => t.length
  | .escapedTag s => s.length
  | _ => 0

/-- The alternative text of an image: the plain text of its children (which are not rendered otherwise). -/
def altLen : NodeValue → Forest → Nat
  | .image _ _, cs => (plainF cs).length
  | _, _ => 0

/-- Decimal numbers written for a node besides its source position. -/
def numLen : NodeValue → Nat
  | .heading level _ => 2 * dig level
  | .list l => dig l.start
  | .footnoteReference _ refNum ix => 6 * dig refNum + dig ix
  | _ => 0

def pfxLen (o : HtmlOpts) : Nat := match o.headerIds with | some p => p.length | none => 0

macro "wbm" : tactic => `(tactic| (apply wBound_mono; (case h => wb)))

macro "szsimp" : tactic =>
  `(tactic| simp [toksSize, tokSize, attrsSize_append, attrsSize, attrSize, partsSize_append, partsSize, partSize,
      litAttr, nl, payloadIn, payloadOut, altLen, numLen, headingName, dig])

theorem enter_size (o : HtmlOpts) (nt : NormTable) (cx : Ctx) (v : NodeValue) (sp : Sp) (cs : Forest) (A : Nat)
    (hA : o.headerIds ≠ none → ∀ issued h, ((anchorize nt issued h).1).length ≤ A) :
    wBound (enter o nt cx v sp cs)
      (6 * (payloadIn v + altLen v cs) + 300 + 12 * spLen sp + numLen v + 2 * A + pfxLen o) := by
  have hsp := spAttr_size o sp
  simp only [spLen] at hsp ⊢
  cases v
  case heading level setext =>
    simp only [enter]
    cases ho : o.headerIds with
    | none =>
      simp only []; wbm; szsimp; omega
    | some pfx =>
      simp only []
      refine wBound_mono (wBound_seq (wBound_seq wBound_cr (wBound_emit _)) (m := 2 * A + pfx.length + 70) ?_) ?_
      · intro st
        have := hA (by simp [ho]) st.anchors (collectTextF cs)
        simp only [W.emit]
        szsimp; omega
      · szsimp; simp [pfxLen, ho]; omega
  case footnoteDefinition name total =>
    intro st
    simp only [enter, size_seq, size_emit]
    split <;> (simp only [size_emit, size_nop]; szsimp; omega)
  case list l =>
    simp only [enter]
    cases l.ty <;> (simp only []; wbm; repeat' split) <;> szsimp <;> omega
  case codeBlock f fc fl fo info literal =>
    have h1 := mathCodeBlockToks_size o sp literal
    have h2 := codeBlockAttrs_size o info sp
    simp only [spLen] at h1 h2
    simp only [enter]
    split
    · wbm; szsimp; omega
    · wbm; szsimp; omega
  case htmlBlock bt literal =>
    have h1 := htmlBlockToks_size o literal
    simp only [enter]; wbm; szsimp; omega
  case htmlInline s =>
    have h1 := htmlInlineToks_size o s
    simp only [enter]; wbm; szsimp; omega
  case tableRow header =>
    have h1 := rowSectionToks_size header cx.prev
    simp only [enter]; wbm; szsimp; omega
  case tableCell =>
    simp only [enter]
    generalize hh : alignAttr _ = aa
    have h1 : attrsSize aa ≤ 15 := by rw [← hh]; exact alignAttr_size _
    wbm; repeat' split
    all_goals szsimp
    all_goals omega
  case link url title =>
    have h1 := urlVal_size o url
    simp only [enter]; wbm; repeat' split
    all_goals szsimp
    all_goals omega
  case image url title =>
    have h1 := urlVal_size o url
    simp only [enter]; wbm; repeat' split
    all_goals szsimp
    all_goals omega
  case wikiLink url =>
    have h1 := urlVal_size o url
    simp only [enter]; wbm; szsimp; omega
  case alert ty title ml fl fo =>
    have h1 := alertCss_len ty
    have h2 := alertTitle_len ty
    simp only [enter]; wbm
    cases title <;> szsimp <;> omega
  all_goals (simp only [enter]; wbm; repeat' split)
  all_goals szsimp
  all_goals omega

theorem exit_size (o : HtmlOpts) (cx : Ctx) (v : NodeValue) (cs : Forest)
    (hv : ∀ n t, v ≠ .footnoteDefinition n t) (hp : ∀ n t, cx.parent ≠ some (.footnoteDefinition n t)) :
    wBound (exit o cx v cs) (6 * payloadOut v + 64 + numLen v) := by
  cases v
  case footnoteDefinition name total => exact absurd rfl (hv name total)
  case paragraph =>
    simp only [exit]
    repeat' split
    all_goals first
      | exact wBound_mono wBound_nop (Nat.zero_le _)
      | (rename_i name total hpar; exact absurd hpar (hp name total))
      | (wbm; szsimp)
  case list l =>
    simp only [exit]
    cases l.ty <;> (simp only []; wbm; szsimp; omega)
  all_goals (simp only [exit]; wbm; repeat' split)
  all_goals szsimp
  all_goals omega

/-! ### Whole trees -/

/-- Bytes of document text in a node value (what `enter` and `exit` may write escaped; a break counts 1,
    it becomes a space in an image's alternative text). -/
def textOf (v : NodeValue) : Nat :=
  payloadIn v + payloadOut v + (match v with | .softBreak => 1 | .lineBreak => 1 | _ => 0)

mutual
def boundT (K : Nat) : Tree → Nat
  | .node v sp cs => 6 * textOf v + K + 12 * spLen sp + 2 * numLen v + boundF K cs
def boundF (K : Nat) : Forest → Nat
  | .nil => 0
  | .cons t ts => boundT K t + boundF K ts
end

mutual
/-- No footnote definition in the tree (their back-references are bounded separately). -/
def noFnT : Tree → Prop
  | .node v _ cs => (∀ n k, v ≠ .footnoteDefinition n k) ∧ noFnF cs
def noFnF : Forest → Prop
  | .nil => True
  | .cons t ts => noFnT t ∧ noFnF ts
end

mutual
theorem plainT_le (K : Nat) : ∀ t : Tree, 6 * (plainT t).length ≤ boundT K t
  | .node v sp cs => by
    have ih := plainF_le K cs
    cases v <;> simp [plainT, boundT, textOf, payloadIn, payloadOut] <;> omega
theorem plainF_le (K : Nat) : ∀ f : Forest, 6 * (plainF f).length ≤ boundF K f
  | .nil => by simp [plainF, boundF]
  | .cons t ts => by
    have h1 := plainT_le K t
    have h2 := plainF_le K ts
    simp only [plainF, boundF, List.length_append]; omega
end

theorem altLen_children (v : NodeValue) (cs : Forest) (h : htmlChildren v = true) : altLen v cs = 0 := by
  cases v <;> simp [altLen] <;> simp [htmlChildren] at h

theorem altLen_le (v : NodeValue) (cs : Forest) : altLen v cs ≤ (plainF cs).length := by
  cases v <;> simp [altLen]

mutual
theorem renderT_size (o : HtmlOpts) (nt : NormTable) (A : Nat) (hA : o.headerIds ≠ none → ∀ issued h, ((anchorize nt issued h).1).length ≤ A) :
    ∀ (t : Tree) (cx : Ctx) (st : St), noFnT t → (∀ n k, cx.parent ≠ some (.footnoteDefinition n k)) →
    toksSize (renderT o nt cx t st).1 ≤ boundT (364 + 2 * A + pfxLen o) t
  | .node v sp cs, cx, st, hno, hp => by
    simp only [noFnT] at hno
    have h1 := enter_size o nt cx v sp cs A hA st
    have h3 := exit_size o cx v cs hno.1 hp
    simp only [renderT, toksSize_append, boundT]
    cases hc : htmlChildren v with
    | true =>
      have h2 := renderF_size o nt A hA cs (some v) cx.parent none 0 (enter o nt cx v sp cs st).2 hno.2
        (fun n k h => hno.1 n k (Option.some.inj h))
      have ha := altLen_children v cs hc
      have h3' := h3 (renderF o nt (some v) cx.parent none 0 cs (enter o nt cx v sp cs st).2).2
      simp only [↓reduceIte]
      simp only [textOf]
      omega
    | false =>
      have ha := altLen_le v cs
      have hpl := plainF_le (364 + 2 * A + pfxLen o) cs
      have h3' := h3 (enter o nt cx v sp cs st).2
      simp only [Bool.false_eq_true, ↓reduceIte, toksSize]
      simp only [textOf]
      omega
theorem renderF_size (o : HtmlOpts) (nt : NormTable) (A : Nat) (hA : o.headerIds ≠ none → ∀ issued h, ((anchorize nt issued h).1).length ≤ A) :
    ∀ (f : Forest) (parent grand prev : Option NodeValue) (idx : Nat) (st : St), noFnF f →
    (∀ n k, parent ≠ some (.footnoteDefinition n k)) →
    toksSize (renderF o nt parent grand prev idx f st).1 ≤ boundF (364 + 2 * A + pfxLen o) f
  | .nil, _, _, _, _, _, _, _ => by simp [renderF, toksSize, boundF]
  | .cons t ts, parent, grand, prev, idx, st, hno, hp => by
    simp only [noFnF] at hno
    have h1 := renderT_size o nt A hA t
      { parent := parent, grand := grand, prev := prev, isLast := ts.isNil, index := idx } st hno.1 hp
    have h2 := renderF_size o nt A hA ts parent grand (some t.value) (idx + 1)
      (renderT o nt { parent := parent, grand := grand, prev := prev, isLast := ts.isNil, index := idx } t st).2 hno.2 hp
    simp only [renderF, toksSize_append, boundF]
    omega
end

/-! ### The bound as sums over the tree -/

mutual
/-- Bytes of document text in the tree (image titles and escaped tags count twice: they are written twice). -/
def textBytesT : Tree → Nat
  | .node v _ cs => textOf v + textBytesF cs
def textBytesF : Forest → Nat
  | .nil => 0
  | .cons t ts => textBytesT t + textBytesF ts
end

mutual
def nodesT : Tree → Nat
  | .node _ _ cs => 1 + nodesF cs
def nodesF : Forest → Nat
  | .nil => 0
  | .cons t ts => nodesT t + nodesF ts
end

mutual
/-- Total length of the `l:c-l:c` source position strings of the tree. -/
def spDigitsT : Tree → Nat
  | .node _ sp cs => spLen sp + spDigitsF cs
def spDigitsF : Forest → Nat
  | .nil => 0
  | .cons t ts => spDigitsT t + spDigitsF ts
end

mutual
/-- Total length of the other decimal numbers written (heading levels, list starts, footnote indices). -/
def numDigitsT : Tree → Nat
  | .node v _ cs => numLen v + numDigitsF cs
def numDigitsF : Forest → Nat
  | .nil => 0
  | .cons t ts => numDigitsT t + numDigitsF ts
end

mutual
theorem boundT_eq (K : Nat) : ∀ t : Tree,
    boundT K t = 6 * textBytesT t + K * nodesT t + 12 * spDigitsT t + 2 * numDigitsT t
  | .node v sp cs => by
    have ih := boundF_eq K cs
    simp only [boundT, textBytesT, nodesT, spDigitsT, numDigitsT, ih, Nat.mul_add, Nat.mul_one]
    omega
theorem boundF_eq (K : Nat) : ∀ f : Forest,
    boundF K f = 6 * textBytesF f + K * nodesF f + 12 * spDigitsF f + 2 * numDigitsF f
  | .nil => by simp [boundF, textBytesF, nodesF, spDigitsF, numDigitsF]
  | .cons t ts => by
    have h1 := boundT_eq K t
    have h2 := boundF_eq K ts
    simp only [boundF, textBytesF, nodesF, spDigitsF, numDigitsF, h1, h2, Nat.mul_add]
    omega
end

/-- The part `renderHtml_size` leaves out: the back-references written at the end of a footnote definition
    are `total_references` links of bounded size each. -/
theorem backrefToks_size (name : Bytes) (fnIx D : Nat) : ∀ (k r : Nat), (∀ n, r ≤ n → n < r + k → dig n ≤ D) →
    toksSize (backrefToks name fnIx k r) ≤ k * (6 * name.length + 2 * dig fnIx + 4 * D + 256)
  | 0, _, _ => by simp [backrefToks, toksSize]
  | k + 1, r, h => by
    have ih := backrefToks_size name fnIx D k (r + 1) (fun n h1 h2 => h n (by omega) (by omega))
    have hd := h r (Nat.le_refl _) (by omega)
    simp only [backrefToks, toksSize_append, Nat.add_mul, Nat.one_mul]
    simp only [dig] at hd ih ⊢
    split <;> szsimp <;> omega

theorem finish_size (st : St) : toksSize (finish st).1 ≤ 17 := by
  unfold finish; split
  · simp [W.emit, toksSize, tokSize, nl]
  · simp [toksSize]

theorem renderHtml_size (o : HtmlOpts) (nt : NormTable) (t : Tree) (A : Nat)
    (hA : o.headerIds ≠ none → ∀ issued h, ((anchorize nt issued h).1).length ≤ A) (hno : noFnT t) :
    (renderHtml o nt t).length ≤
      6 * textBytesT t + (364 + 2 * A + pfxLen o) * nodesT t + 12 * spDigitsT t + 2 * numDigitsT t + 17 := by
  have h1 := renderT_size o nt A hA t {} {} hno (fun n k h => by simp at h)
  have h2 := finish_size (renderT o nt {} t {}).2
  have h3 := spell_le_size (renderToks o nt t)
  have h4 := boundT_eq (364 + 2 * A + pfxLen o) t
  unfold renderHtml
  unfold renderToks at h3 ⊢
  rw [size_seq] at h3
  omega

end Comrak.HtmlSize
