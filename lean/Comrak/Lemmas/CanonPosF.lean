/-
Positions of canonical documents, layer F: every block kind without block children passes the
checks when its lines stand in the source.
-/
import Comrak.Lemmas.CanonPosE
namespace Comrak.Canon
open Comrak Bytes

theorem rep_length (n : Nat) (c : UInt8) : (rep n c).length = n := by simp [rep]

theorem isPrefixB_self_append : ∀ (p r : Bytes), isPrefixB p (p ++ r) = true
  | [], _ => by simp [isPrefixB]
  | a :: p, r => by simp [isPrefixB, isPrefixB_self_append p r]

theorem nth_append_left : ∀ (xs ys : List Bytes) (k : Nat), k < xs.length → nth (xs ++ ys) k = nth xs k
  | [], _, _, h => by simp at h
  | x :: xs, ys, 0, _ => rfl
  | x :: xs, ys, k + 1, h => by simpa [nth] using nth_append_left xs ys k (by simpa using h)

theorem nth_zero_ne (ls : List Bytes) (h : allNonempty ls = true) (hne : ls ≠ []) : nth ls 0 ≠ [] := by
  cases ls with
  | nil => exact absurd rfl hne
  | cons x t =>
    simp only [allNonempty, List.all_cons, Bool.and_eq_true, Bool.not_eq_true', List.isEmpty_eq_false_iff] at h
    simpa [nth] using h.1

section blocks
variable (G : List Bytes)

local notation "LT" => lineEnts (joinLines G)
local notation "SRC" => joinLines G

/-- Both checks on one tree. -/
def GoodT (anc : Option Sp) (t : Tree) : Prop :=
  claimCheckT LT anc t = none ∧ sliceCheckT LT SRC t = none

/-- A claimed block whose span is that of its lines `ls`, all written from column `c` on. -/
theorem lines_node (hG : cleanG G = true) (v : NodeValue) (kids : Forest) (ls : List Bytes) (l c : Nat) (A : Sp)
    (hE : Emb G c l c ls) (hne : ls ≠ []) (hf : nth ls 0 ≠ []) (hl : ls.getLastD [] ≠ [])
    (hv : v.kind.spReliable = true)
    (hn1 : posLe A.sl A.sc l c = true) (hn2 : posLe (endOf l c c ls).1 (endOf l c c ls).2 A.el A.ec = true)
    (hs : ∀ s, (ls.length = 1 → s = nth ls 0) → (2 ≤ ls.length → ∃ mid, s = nth ls 0 ++ 0x0A :: mid ++ ls.getLastD []) →
      sliceFail v kids s = none)
    (hq : Valid G (spanLines l c ls) → sliceEndFail LT SRC v (spanLines l c ls) = none)
    (hk : claimCheckF LT (some (spanLines l c ls)) none kids = none ∧ sliceCheckF LT SRC kids = none) :
    GoodT G (some A) (.node v (spanLines l c ls) kids) := by
  have hnest : spNested A (spanLines l c ls) = true := by
    simp only [spNested, spanLines, Bool.and_eq_true]
    refine ⟨hn1, ?_⟩
    simp only [endOf] at hn2
    have : (if ls.length ≤ 1 then c else c) = c := by split <;> rfl
    rw [this] at hn2
    exact hn2
  have hlen := List.length_pos_iff.mpr hne
  by_cases h1 : ls.length = 1
  · obtain ⟨x, rfl⟩ : ∃ x, ls = [x] := by
      cases ls with
      | nil => simp at h1
      | cons x t => cases t with
        | nil => exact ⟨x, rfl⟩
        | cons y t' => simp at h1
    obtain ⟨hv1, hs1⟩ := span_single G hG x l c c hE (by simpa [nth] using hf)
    have hsl : (spanLines l c [x]).sl ≠ 0 := by have := hv1.l1; omega
    exact ⟨claim_node _ v _ kids A hv hsl (range_of_valid G hG _ hv1) hnest hk.1,
      slice_node _ _ v _ kids (fun s h => by
        rw [hs1] at h
        cases h
        exact ⟨hs _ (fun _ => rfl) (fun h2 => by simp at h2), hq hv1⟩) hk.2⟩
  · have h2 : 2 ≤ ls.length := by omega
    obtain ⟨hv1, mid, hs1⟩ := span_multi G hG ls l c hE h2 hf hl
    have hsl : (spanLines l c ls).sl ≠ 0 := by have := hv1.l1; omega
    exact ⟨claim_node _ v _ kids A hv hsl (range_of_valid G hG _ hv1) hnest hk.1,
      slice_node _ _ v _ kids (fun s h => by
        rw [hs1] at h
        cases h
        exact ⟨hs _ (fun h3 => absurd h3 h1) (fun _ => ⟨mid, rfl⟩), hq hv1⟩) hk.2⟩

/-- What is to be shown for a block. -/
def BlkGood (b : Blk) : Prop :=
  ∀ (l c0 c1 : Nat) (A : Sp), Emb G c0 l c1 b.lines → b.ph = true → 1 ≤ c0 → 1 ≤ c1 → (b.isPara = false → c1 = c0) →
    posLe A.sl A.sc l c1 = true → posLe (endOf l c0 c1 b.lines).1 (endOf l c0 c1 b.lines).2 A.el A.ec = true →
    GoodT G (some A) (b.toTreeP l c0 c1)

theorem clause_hr (ch : UInt8) (n : Nat) (h : (ch == 0x2A || ch == 0x2D || ch == 0x5F) = true) (hn : 3 ≤ n) :
    sliceFail .thematicBreak .nil (rep n ch) = none := by
  obtain ⟨m, rfl⟩ : ∃ m, n = m + 1 := ⟨n - 1, by omega⟩
  have hc : (rep (m + 1) ch).count ch = m + 1 := by simp [rep]
  have ha : allIn (fun x => x == ch || isSpTab x) (rep (m + 1) ch) = true := by
    simp [allIn, rep, List.all_replicate]
  have hh : (rep (m + 1) ch).head? = some ch := rfl
  have hd : decide ((rep (m + 1) ch).count ch ≥ 3) = true := by rw [hc]; simpa using hn
  simp only [sliceFail, firstB, hh, ha, hd, h, Bool.and_self, if_true]

theorem clause_fence (ch : UInt8) (len : Nat) (info lit rest : Bytes) (h : 3 ≤ len) :
    sliceFail (.codeBlock true ch len 0 info lit) .nil (rep len ch ++ rest) = none := by
  have hp : isPrefixB (List.replicate len ch) (rep len ch ++ rest) = true := isPrefixB_self_append _ _
  have hd : decide (len ≥ 3) = true := by simpa using h
  simp only [sliceFail, Bool.not_true, Bool.false_eq_true, if_false, hp, hd, Bool.and_self, if_true]

theorem blk_hr_pos (hG : cleanG G = true) (ch : UInt8) (n : Nat) : BlkGood G (.hr ch n) := fun l c0 c1 A hE hph _ _ hc hn1 hn2 => by
  have e := hc rfl
  subst e
  simp only [Blk.ph, Bool.and_eq_true, decide_eq_true_eq] at hph
  simp only [Blk.toTreeP, Blk.lines] at hE hn2 ⊢
  have hx : rep n ch ≠ [] := by
    obtain ⟨m, rfl⟩ : ∃ m, n = m + 1 := ⟨n - 1, by omega⟩
    simp [rep_succ]
  exact lines_node G hG _ .nil _ l c1 A hE (by simp) (by simpa [nth] using hx) (by simpa using hx) rfl hn1 hn2
    (fun s h1 _ => by rw [h1 rfl]; exact clause_hr ch n hph.1 hph.2) (fun _ => rfl) ⟨rfl, rfl⟩

theorem blk_fence_pos (hG : cleanG G = true) (ch : UInt8) (len : Nat) (info : Bytes) (ls : List Bytes) :
    BlkGood G (.fence ch len info ls) := fun l c0 c1 A hE hph _ _ hc hn1 hn2 => by
  have e := hc rfl
  subst e
  simp only [Blk.ph, decide_eq_true_eq] at hph
  have hl := Blk.last_ne_nil (.fence ch len info ls) (by simpa [Blk.ph] using hph)
  have hne := Blk.lines_ne_nil (.fence ch len info ls) (by simpa [Blk.ph] using hph)
  have hf : nth (Blk.fence ch len info ls).lines 0 ≠ [] := by
    obtain ⟨m, rfl⟩ : ∃ m, len = m + 1 := ⟨len - 1, by omega⟩
    simp [Blk.lines, nth, rep_succ]
  simp only [Blk.toTreeP]
  refine lines_node G hG _ .nil _ l c1 A hE hne hf hl rfl hn1 hn2 (fun s _ h2 => ?_) (fun _ => rfl) ⟨rfl, rfl⟩
  have h2' : 2 ≤ (Blk.fence ch len info ls).lines.length := by simp [Blk.lines]
  obtain ⟨mid, rfl⟩ := h2 h2'
  have : nth (Blk.fence ch len info ls).lines 0 = rep len ch ++ info := by simp [Blk.lines, nth]
  rw [this, List.append_assoc, List.append_assoc]
  exact clause_fence ch len info _ _ hph

theorem blk_icode_pos (ls : List Bytes) : BlkGood G (.icode ls) := fun l c0 c1 A _ _ _ _ _ _ _ => by
  simp only [Blk.toTreeP]
  exact ⟨claim_skip _ _ _ _ _ (by simp) rfl, slice_node_zero _ _ _ _ rfl⟩

theorem blk_htmlb_pos (hG : cleanG G = true) (ls : List Bytes) : BlkGood G (.htmlb ls) := fun l c0 c1 A hE hph _ _ hc hn1 hn2 => by
  have e := hc rfl
  subst e
  have hl := Blk.last_ne_nil (.htmlb ls) hph
  have hne := Blk.lines_ne_nil (.htmlb ls) hph
  simp only [Blk.ph, Bool.and_eq_true, Bool.not_eq_true', List.isEmpty_eq_false_iff] at hph
  simp only [Blk.toTreeP, Blk.lines] at hE hn2 hl hne ⊢
  exact lines_node G hG _ .nil _ l c1 A hE hne (nth_zero_ne ls hph.2 hne) hl rfl hn1 hn2 (fun s _ _ => rfl) (fun _ => rfl) ⟨rfl, rfl⟩

/-- Inline children of a block: checked against the block's own span. -/
theorem kids_good (hG : cleanG G = true) (is : Inls) (c0 : Nat) (q : Pos) (S : Sp) (hr : Reg G c0 q is.src) (hph : is.ph = true)
    (h1 : posLe S.sl S.sc q.1 q.2 = true)
    (h2 : is.src ≠ [] → posLe (adv c0 q is.src.dropLast).1 (adv c0 q is.src.dropLast).2 S.el S.ec = true) :
    claimCheckF LT (some S) none (is.toForestP c0 q) = none ∧ sliceCheckF LT SRC (is.toForestP c0 q) = none :=
  inls_good G hG is c0 q S none hr hph h1 h2 (fun Q h => by cases h)

theorem blk_heading_pos (hG : cleanG G = true) (lv : Nat) (is : Inls) : BlkGood G (.heading lv is) := fun l c0 c1 A hE hph _ h1c hc hn1 hn2 => by
  have e := hc rfl
  subst e
  simp only [Blk.ph, Bool.and_eq_true, decide_eq_true_eq] at hph
  obtain ⟨⟨hlv, hiph⟩, hnl⟩ := hph
  have hx : rep lv 0x23 ++ [0x20] ++ is.src ≠ [] := by simp
  simp only [Blk.toTreeP, Blk.lines] at hE hn2 ⊢
  obtain ⟨g1, g2, P, hP, hPl⟩ := hE.1 hx
  have hreg : Reg G c1 (l, c1 + lv + 1) is.src := by
    have := reg_of_line (G := G) (c0 := c1) l g1 g2 is.src (P ++ rep lv 0x23 ++ [0x20]) [] (by simp [hP]) hnl
    have e : (P ++ rep lv 0x23 ++ [0x20]).length + 1 = c1 + lv + 1 := by simp [rep_length]; omega
    rw [e] at this
    exact this
  refine lines_node G hG _ _ _ l c1 A hE (by simp) (by simp [nth]) (by simp) rfl hn1 hn2 (fun s h1 _ => ?_) (fun _ => rfl) ?_
  · rw [h1 rfl]
    obtain ⟨m, rfl⟩ : ∃ m, lv = m + 1 := ⟨lv - 1, by omega⟩
    simp [sliceFail, nth, firstB, rep_succ]
  · refine kids_good G hG is c1 _ _ hreg hiph (by simp [spanLines, posLe]; omega) (fun hne => ?_)
    have hd : nlFree is.src.dropLast = true := by
      obtain ⟨b, hb⟩ := dropLast_append_last _ hne
      rw [hb, nlFree_append] at hnl
      exact (Bool.and_eq_true _ _ ▸ hnl).1
    have hp := List.length_pos_iff.mpr hne
    rw [adv_nlFree c1 _ _ hd]
    simp only [spanLines, posLe, List.getLastD_cons, List.getLastD_nil, List.length_append, rep_length, List.length_cons,
      List.length_nil, List.length_dropLast, Bool.or_eq_true, Bool.and_eq_true, decide_eq_true_eq, List.length_singleton]
    omega

theorem para_reg (is : Inls) (l c0 c1 : Nat) (hE : Emb G c0 l c1 (splitNl is.src)) (hall : allNonempty (splitNl is.src) = true) :
    Reg G c0 (l, c1) is.src ∧ is.src ≠ [] := by
  have hne := splitNl_ne_nil is.src
  have hf := nth_zero_ne _ hall hne
  obtain ⟨g1, g2, P, hP, hPl⟩ := emb_get _ l c1 0 hE (List.length_pos_iff.mpr hne) hf
  simp only [Nat.add_zero, if_true] at g1 g2 hP hPl
  have hcur : Cur G (l, c1) := by
    refine ⟨g1, g2, by omega, ?_⟩
    show c1 ≤ (nth G (l - 1)).length + 1
    rw [hP]; simp; omega
  refine ⟨reg_of_emb is.src l c1 hcur hE ?_, ?_⟩
  · cases hs : splitNl is.src with
    | nil => rfl
    | cons x t =>
      rw [hs] at hall
      simp only [allNonempty, List.all_cons, Bool.and_eq_true] at hall
      simpa [allNonempty] using hall.2
  · intro e
    rw [e] at hf
    simp [splitNl, nth] at hf

theorem blk_para_pos (hG : cleanG G = true) (is : Inls) : BlkGood G (.para is) := fun l c0 c1 A hE hph h0 h1c _ hn1 hn2 => by
  simp only [Blk.ph, Bool.and_eq_true] at hph
  simp only [Blk.toTreeP, Blk.lines] at hE hn2 ⊢
  obtain ⟨hreg, hsrc⟩ := para_reg G is l c0 c1 hE hph.2
  have hend := adv_dropLast_end c0 is.src l c1 h0 h1c (splitNl_last_of_all _ hph.2)
  have hval := valid_of_reg hreg hsrc
  have hnest : spNested A (spanOf c0 (l, c1) is.src) = true := by
    simp only [spNested, spanOf, Bool.and_eq_true]
    rw [hend]
    exact ⟨hn1, hn2⟩
  obtain ⟨k1, k2⟩ := kids_good G hG is c0 (l, c1) (spanOf c0 (l, c1) is.src) hreg hph.1 (by simp [spanOf, posLe])
    (fun _ => by simp only [spanOf]; exact posLe_refl _ _)
  exact ⟨claim_node _ _ _ _ A rfl (span_sl_ne G hreg) (range_of_valid G hG _ hval) hnest k1,
    slice_node _ _ _ _ _ (fun s _ => ⟨rfl, rfl⟩) k2⟩

theorem splitNl_head (s : Bytes) (hall : allNonempty (splitNl s) = true) :
    ∃ b t, s.head? = some b ∧ nth (splitNl s) 0 = b :: t := by
  cases s with
  | nil => simp [splitNl, allNonempty] at hall
  | cons b r =>
    by_cases hb : b = 0x0A
    · subst hb
      rw [splitNl_nl] at hall
      simp [allNonempty] at hall
    · rw [splitNl_other b r hb]
      exact ⟨b, _, rfl, rfl⟩

theorem rtrimSp_of_last (s : Bytes) (c : UInt8) (hc : isSpTab c = false) : rtrimSp (s ++ [c]) = s ++ [c] := by
  simp [rtrimSp, List.reverse_append, List.dropWhile, hc]

theorem blk_setext_pos (hG : cleanG G = true) (lv n : Nat) (is : Inls) : BlkGood G (.setext lv n is) := fun l c0 c1 A hE hph h0 h1c hc hn1 hn2 => by
  have e := hc rfl
  subst e
  have hl := Blk.last_ne_nil (.setext lv n is) hph
  have hne := Blk.lines_ne_nil (.setext lv n is) hph
  simp only [Blk.ph, Bool.and_eq_true, decide_eq_true_eq] at hph
  obtain ⟨⟨⟨hn, hiph⟩, hall⟩, hfs⟩ := hph
  have hpne := splitNl_ne_nil is.src
  have hplen := List.length_pos_iff.mpr hpne
  have hf : nth (Blk.setext lv n is).lines 0 ≠ [] := by
    simp only [Blk.lines]
    rw [nth_append_left _ _ 0 hplen]
    exact nth_zero_ne _ hall hpne
  have hspan : ({ sl := l, sc := c1, el := l + (splitNl is.src).length, ec := c1 - 1 + n } : Sp) =
      spanLines l c1 (Blk.setext lv n is).lines := by
    simp only [spanLines, Blk.lines, List.length_append, List.length_singleton]
    rw [getLastD_append_ne _ _ (by simp)]
    simp [rep_length]
  simp only [Blk.toTreeP]
  rw [hspan]
  obtain ⟨hE1, _⟩ := emb_append _ _ l c1 (by simpa [Blk.lines] using hE)
  obtain ⟨hreg, hsrc⟩ := para_reg G is l c1 c1 hE1 hall
  refine lines_node G hG _ _ _ l c1 A hE hne hf hl rfl hn1 hn2 (fun s _ h2 => ?_) (fun _ => rfl) ?_
  · have h2' : 2 ≤ (Blk.setext lv n is).lines.length := by simp [Blk.lines]; omega
    obtain ⟨mid, rfl⟩ := h2 h2'
    obtain ⟨b, t, hb1, hb2⟩ := splitNl_head is.src hall
    have e0 : nth (Blk.setext lv n is).lines 0 = b :: t := by
      simp only [Blk.lines]; rw [nth_append_left _ _ 0 hplen]; exact hb2
    have hbs : isSpTab b = false := by
      simp only [firstNotSp, hb1, Bool.not_eq_true'] at hfs
      exact hfs
    obtain ⟨m, rfl⟩ : ∃ m, n = m + 1 := ⟨n - 1, by omega⟩
    have elast : (Blk.setext lv (m + 1) is).lines.getLastD [] = rep m (if lv = 1 then 0x3D else 0x2D) ++ [if lv = 1 then 0x3D else 0x2D] := by
      simp only [Blk.lines]
      rw [getLastD_append_ne _ _ (by simp)]
      simp [rep_succ']
    rw [e0, elast]
    have hrt : rtrimSp (b :: t ++ 0x0A :: mid ++ (rep m (if lv = 1 then 0x3D else 0x2D) ++ [if lv = 1 then 0x3D else 0x2D])) =
        b :: t ++ 0x0A :: mid ++ (rep m (if lv = 1 then 0x3D else 0x2D) ++ [if lv = 1 then 0x3D else 0x2D]) := by
      rw [← List.append_assoc]
      exact rtrimSp_of_last _ _ (by split <;> rfl)
    have hL : lastB (b :: t ++ 0x0A :: mid ++ (rep m (if lv = 1 then 0x3D else 0x2D) ++ [if lv = 1 then 0x3D else 0x2D])) =
        some (if lv = 1 then 0x3D else 0x2D) := by
      rw [← List.append_assoc]; exact lastB_snoc _ _
    have hF : firstB (b :: t ++ 0x0A :: mid ++ (rep m (if lv = 1 then 0x3D else 0x2D) ++ [if lv = 1 then 0x3D else 0x2D])) = some b := rfl
    have hC : (b :: t ++ 0x0A :: mid ++ (rep m (if lv = 1 then 0x3D else 0x2D) ++ [if lv = 1 then 0x3D else 0x2D])).contains 0x0A = true := by
      simp
    simp only [sliceFail, if_true, hrt, hL, hF, hC, hbs]
    split <;> simp
  · refine kids_good G hG is c1 _ _ hreg hiph (by simp [spanLines, posLe]) (fun _ => ?_)
    rw [adv_dropLast_end c1 is.src l c1 h0 h1c (splitNl_last_of_all _ hall)]
    simp only [endOf, spanLines, Blk.lines, List.length_append, List.length_singleton, posLe, Bool.or_eq_true,
      Bool.and_eq_true, decide_eq_true_eq]
    left; omega

end blocks

end Comrak.Canon
