/-
Bridge from the token-level HTML model to bytes, part 2: balance.
`balancedBytesCore` is the byte-level oracle `balancedBytes` without its two bookkeeping
clauses (`<thead>`/`<tbody>` at most once and directly under `<table>`; the footnote section at
most once): lexer + plain tag stack + void elements self-closed / non-void elements not.
`balancedBytes bs = ok → balancedBytesCore bs = ok` (`balancedBytes_imp_core`), and the core
oracle accepts the spelling of every token list that is token-level `balanced`, `allowedTok`
and `voidOk` (`balancedBytesCore_spell`).  Every token the renderer writes is `voidOk`.
-/
import Comrak.Lemmas.HtmlLex
import Comrak.Lemmas.HtmlTree
import Comrak.Lemmas.HtmlSafeTree
namespace Comrak
open Bytes

/-! ### The core oracle -/

def balStepCore (stack : List Bytes) : LTok → Except BalErr (List Bytes)
  | .text _ => .ok stack
  | .cmt _ => .ok stack
  | .vd n _ => if voidNames.contains n then .ok stack else .error (.selfClosedNonVoid n)
  | .op n _ => if voidNames.contains n then .error (.voidNotSelfClosed n) else .ok (n :: stack)
  | .cl n =>
    match stack with
    | [] => .error (.closeEmpty n)
    | top :: rest => if top == n then .ok rest else .error (.closeMismatch top n)

def balLoopCore : List Bytes → List LTok → Except BalErr Unit
  | [], [] => .ok ()
  | top :: _, [] => .error (.leftOpen top)
  | st, t :: ts =>
    match balStepCore st t with
    | .ok st' => balLoopCore st' ts
    | .error e => .error e

/-- `balancedBytes` without the table-section and footnote-section-once clauses. -/
def balancedBytesCore (bs : Bytes) : Except BalErr Unit :=
  match lexHtml bs with
  | none => .error .unlexable
  | some ts => balLoopCore [] ts

theorem balLoop_imp_core (ts : List LTok) (S : List Open) (fn : Nat) (h : balLoop S fn ts = .ok ()) :
    balLoopCore (S.map Open.name) ts = .ok () := by
  induction ts generalizing S fn with
  | nil =>
    cases S with
    | nil => rfl
    | cons a r => simp [balLoop] at h
  | cons t r ih =>
    simp only [balLoop] at h
    cases hs : balStep S fn t with
    | error e => rw [hs] at h; simp at h
    | ok p =>
      rw [hs] at h
      obtain ⟨S', fn'⟩ := p
      simp only at h
      have key : balStepCore (S.map Open.name) t = .ok (S'.map Open.name) := by
        cases t with
        | text v => simp only [balStep, Except.ok.injEq, Prod.mk.injEq] at hs; simp [balStepCore, ← hs.1]
        | cmt v => simp only [balStep, Except.ok.injEq, Prod.mk.injEq] at hs; simp [balStepCore, ← hs.1]
        | vd n as =>
          simp only [balStep] at hs
          split at hs
          · rename_i hv
            simp only [Except.ok.injEq, Prod.mk.injEq] at hs
            simp only [balStepCore, hv, if_true, ← hs.1]
          · simp at hs
        | op n as =>
          simp only [balStep] at hs
          simp only [balStepCore]
          split at hs
          · simp at hs
          · rename_i hv
            simp only [hv, Bool.false_eq_true, if_false]
            repeat' (split at hs)
            all_goals (first | (simp at hs; done) | skip)
            all_goals (simp only [Except.ok.injEq, Prod.mk.injEq] at hs; simp [← hs.1])
        | cl n =>
          simp only [balStep] at hs
          cases S with
          | nil => simp at hs
          | cons top rest =>
            simp only at hs
            split at hs
            · rename_i ht
              simp only [Except.ok.injEq, Prod.mk.injEq] at hs
              simp [balStepCore, ht, ← hs.1]
            · simp at hs
      simp only [balLoopCore, key]
      exact ih S' fn' h

/-- The core oracle is a weakening of the full oracle. -/
theorem balancedBytes_imp_core (bs : Bytes) (h : balancedBytes bs = .ok ()) : balancedBytesCore bs = .ok () := by
  unfold balancedBytes at h
  unfold balancedBytesCore
  cases hl : lexHtml bs with
  | none => rw [hl] at h; simp at h
  | some ts =>
    rw [hl] at h
    exact balLoop_imp_core ts [] 0 h

/-! ### Void elements -/

/-- Start tags are written for non-void elements only, self-closed tags for void elements only. -/
def isVoid (n : Bytes) : Bool := voidNames.contains n

def voidOk : Tok → Bool
  | .op n _ => !isVoid n
  | .vd n _ => isVoid n
  | _ => true

@[simp] theorem isVoid_t_blockquote : isVoid S.t_blockquote = false := by decide
@[simp] theorem isVoid_t_code : isVoid S.t_code = false := by decide
@[simp] theorem isVoid_t_pre : isVoid S.t_pre = false := by decide
@[simp] theorem isVoid_t_em : isVoid S.t_em = false := by decide
@[simp] theorem isVoid_t_a : isVoid S.t_a = false := by decide
@[simp] theorem isVoid_t_img : isVoid S.t_img = true := by decide
@[simp] theorem isVoid_t_figure : isVoid S.t_figure = false := by decide
@[simp] theorem isVoid_t_figcaption : isVoid S.t_figcaption = false := by decide
@[simp] theorem isVoid_t_li : isVoid S.t_li = false := by decide
@[simp] theorem isVoid_t_br : isVoid S.t_br = true := by decide
@[simp] theorem isVoid_t_ul : isVoid S.t_ul = false := by decide
@[simp] theorem isVoid_t_ol : isVoid S.t_ol = false := by decide
@[simp] theorem isVoid_t_p : isVoid S.t_p = false := by decide
@[simp] theorem isVoid_t_strong : isVoid S.t_strong = false := by decide
@[simp] theorem isVoid_t_hr : isVoid S.t_hr = true := by decide
@[simp] theorem isVoid_t_section : isVoid S.t_section = false := by decide
@[simp] theorem isVoid_t_sup : isVoid S.t_sup = false := by decide
@[simp] theorem isVoid_t_del : isVoid S.t_del = false := by decide
@[simp] theorem isVoid_t_table : isVoid S.t_table = false := by decide
@[simp] theorem isVoid_t_thead : isVoid S.t_thead = false := by decide
@[simp] theorem isVoid_t_tbody : isVoid S.t_tbody = false := by decide
@[simp] theorem isVoid_t_tr : isVoid S.t_tr = false := by decide
@[simp] theorem isVoid_t_th : isVoid S.t_th = false := by decide
@[simp] theorem isVoid_t_td : isVoid S.t_td = false := by decide
@[simp] theorem isVoid_t_input : isVoid S.t_input = true := by decide
@[simp] theorem isVoid_t_div : isVoid S.t_div = false := by decide
@[simp] theorem isVoid_t_dd : isVoid S.t_dd = false := by decide
@[simp] theorem isVoid_t_dl : isVoid S.t_dl = false := by decide
@[simp] theorem isVoid_t_dt : isVoid S.t_dt = false := by decide
@[simp] theorem isVoid_t_span : isVoid S.t_span = false := by decide
@[simp] theorem isVoid_t_sub : isVoid S.t_sub = false := by decide
@[simp] theorem isVoid_t_u : isVoid S.t_u = false := by decide

@[simp] theorem headingName_not_void (level : Nat) : isVoid (headingName level) = false := by
  apply Bool.eq_false_iff.mpr
  intro h
  have h2 : ofNatDec level = [0x72] := by
    simpa [isVoid, voidNames, headingName, S.t_h, S.t_br, S.t_hr, S.t_img, S.t_input] using h
  have := ofNatDec_digits level 0x72 (by rw [h2]; simp)
  exact absurd this (by decide)

@[simp] theorem void_cr (st : St) : (W.cr st).1.all voidOk = true := by
  unfold W.cr; split <;> simp [voidOk]

theorem void_backrefToks (name : Bytes) (ix k n : Nat) : (backrefToks name ix k n).all voidOk = true := by
  induction k generalizing n with
  | zero => rfl
  | succ k ih =>
    simp only [backrefToks, List.all_append, ih, Bool.and_true]
    by_cases h : n > 1 <;> simp [h, voidOk]

theorem void_putBackref (name : Bytes) (total : Nat) (st : St) :
    (putBackref name total st).1.1.all voidOk = true := by
  unfold putBackref; split <;> simp [void_backrefToks]

theorem void_htmlBlockToks (o : HtmlOpts) (l : Bytes) : (htmlBlockToks o l).all voidOk = true := by
  unfold htmlBlockToks; (repeat' split) <;> simp [voidOk]

theorem void_htmlInlineToks (o : HtmlOpts) (l : Bytes) : (htmlInlineToks o l).all voidOk = true := by
  unfold htmlInlineToks; (repeat' split) <;> simp [voidOk]

theorem void_rowSectionToks (h : Bool) (prev : Option NodeValue) : (rowSectionToks h prev).all voidOk = true := by
  unfold rowSectionToks; (repeat' split) <;> simp [voidOk, nl]

theorem void_mathCodeBlockToks (o : HtmlOpts) (sp : Sp) (l : Bytes) :
    (mathCodeBlockToks o sp l).all voidOk = true := by
  simp [mathCodeBlockToks, voidOk, nl]

theorem enter_void (o : HtmlOpts) (nt : NormTable) (cx : Ctx) (v : NodeValue) (sp : Sp) (cs : Forest) (st : St) :
    (enter o nt cx v sp cs st).1.all voidOk = true := by
  cases v
  case htmlBlock bt l => simp [enter, void_htmlBlockToks]
  case htmlInline l => simp [enter, void_htmlInlineToks]
  case codeBlock f fc fl fo info lit =>
    simp only [enter]
    split <;> simp [void_mathCodeBlockToks, voidOk, nl]
  case heading level setext =>
    cases h : o.headerIds <;> simp [enter, h, voidOk, headingName_not_void]
  case alert ty title m fl fo => cases title <;> simp [enter, voidOk, nl]
  case list l => cases hl : l.ty <;> simp [enter, hl, voidOk, nl]
  case tableRow h => simp [enter, voidOk, void_rowSectionToks]
  case tableCell =>
    simp [enter, voidOk]
    split
    · split <;> simp
    · simp
  all_goals simp only [enter]
  all_goals (repeat' split)
  all_goals (try simp_all [voidOk, nl, List.all_append])

theorem exit_void (o : HtmlOpts) (cx : Ctx) (v : NodeValue) (cs : Forest) (st : St) :
    (exit o cx v cs st).1.all voidOk = true := by
  cases v
  case paragraph =>
    simp only [exit]
    split
    · simp
    · cases hp : cx.parent with
      | none => simp [voidOk, nl]
      | some pv =>
        cases pv
        case footnoteDefinition name total =>
          simp only [W.seq_fst, List.all_append, Bool.and_eq_true]
          refine ⟨?_, by simp [voidOk, nl]⟩
          split
          · simp only [W.seq_fst, List.all_append, Bool.and_eq_true]
            exact ⟨by simp [voidOk], void_putBackref _ _ _⟩
          · simp
        all_goals simp [voidOk, nl]
  case footnoteDefinition name total =>
    simp only [exit, W.seq_fst, List.all_append, Bool.and_eq_true]
    refine ⟨⟨void_putBackref _ _ _, ?_⟩, by simp [voidOk, nl]⟩
    split <;> simp [voidOk, nl]
  case list l => cases hl : l.ty <;> simp [exit, hl, voidOk, nl]
  all_goals simp only [exit]
  all_goals (repeat' split)
  all_goals (try simp_all [voidOk, nl, List.all_append])

mutual
theorem renderT_void (o : HtmlOpts) (nt : NormTable) :
    ∀ (t : Tree) (cx : Ctx) (st : St), (renderT o nt cx t st).1.all voidOk = true
  | .node v sp cs, cx, st => by
    rw [renderT_node]
    simp only [List.all_append, Bool.and_eq_true]
    refine ⟨⟨enter_void o nt cx v sp cs st, ?_⟩, exit_void o cx v cs _⟩
    split
    · exact renderF_void o nt cs _ _ _ _ _
    · rfl
theorem renderF_void (o : HtmlOpts) (nt : NormTable) :
    ∀ (f : Forest) (parent grand prev : Option NodeValue) (idx : Nat) (st : St),
      (renderF o nt parent grand prev idx f st).1.all voidOk = true
  | .nil, _, _, _, _, _ => by simp [renderF]
  | .cons t ts, parent, grand, prev, idx, st => by
    rw [renderF_cons]
    simp only [List.all_append, Bool.and_eq_true]
    exact ⟨renderT_void o nt t _ st, renderF_void o nt ts _ _ _ _ _⟩
end

/-- Every token the renderer writes respects the void / non-void split - for every option
    vector and every tree, no hypothesis. -/
theorem renderToks_void (o : HtmlOpts) (nt : NormTable) (t : Tree) : (renderToks o nt t).all voidOk = true := by
  unfold renderToks
  simp only [W.seq_fst, List.all_append, Bool.and_eq_true]
  refine ⟨renderT_void o nt t {} {}, ?_⟩
  unfold finish
  split <;> simp [voidOk, nl]

/-! ### From token-level balance to the core oracle -/

theorem balLoopCore_textL (s : List Bytes) (pre : Bytes) (r : List LTok) :
    balLoopCore s (textL pre ++ r) = balLoopCore s r := by
  unfold textL
  split
  · rfl
  · simp [balLoopCore, balStepCore]

theorem balLoopCore_of_run (ts : List Tok) (s : List Bytes) (pre : Bytes) (hv : ts.all voidOk = true)
    (h : run s (events ts) = some []) : balLoopCore s (toLAux pre ts) = .ok () := by
  induction ts generalizing s pre with
  | nil =>
    have : s = [] := by simpa using h
    subst this
    have := balLoopCore_textL [] pre []
    simp only [List.append_nil] at this
    simp [toLAux, this, balLoopCore]
  | cons t r ih =>
    simp only [List.all_cons, Bool.and_eq_true] at hv
    rw [events_cons] at h
    cases t with
    | txt v => exact ih _ _ hv.2 (by simpa [Tok.events] using h)
    | lit v => exact ih _ _ hv.2 (by simpa [Tok.events] using h)
    | raw v => exact ih _ _ hv.2 (by simpa [Tok.events] using h)
    | cmt =>
      simp only [toLAux, balLoopCore_textL, balLoopCore, balStepCore]
      exact ih _ _ hv.2 (by simpa [Tok.events] using h)
    | vd n as =>
      have h1 : voidNames.contains n = true := by simpa [voidOk, isVoid] using hv.1
      simp only [toLAux, balLoopCore_textL, balLoopCore, balStepCore, h1, if_true]
      exact ih _ _ hv.2 (by simpa [Tok.events] using h)
    | op n as =>
      have h1 : voidNames.contains n = false := by simpa [voidOk, isVoid] using hv.1
      simp only [toLAux, balLoopCore_textL, balLoopCore, balStepCore, h1, Bool.false_eq_true, if_false]
      exact ih _ _ hv.2 (by simpa [Tok.events] using h)
    | cl n =>
      simp only [Tok.events, List.singleton_append] at h
      cases s with
      | nil => simp [run] at h
      | cons top st =>
        simp only [run] at h
        by_cases ht : top = n
        · subst ht
          simp only [if_true] at h
          simp only [toLAux, balLoopCore_textL, balLoopCore, balStepCore, beq_self_eq_true, if_true]
          exact ih _ _ hv.2 h
        · simp [ht] at h

/-- Every token written in safe mode is `allowedTok` (the statement of `C02.html_safe`, placed here so
    that C10 can use it without importing C02). -/
theorem renderToks_allowed (o : HtmlOpts) (hu : o.unsafe_ = false)
    (hp : ∀ p, o.headerIds = some p → litSafe p = true)
    (nt : NormTable) (hn : NormSafe nt) (t : Tree) (ht : treeSafe t = true) :
    (renderToks o nt t).all allowedTok = true := by
  unfold renderToks
  simp only [W.seq_fst, List.all_append, Bool.and_eq_true]
  refine ⟨renderT_allowed o hu hp nt hn t {} {} ht, ?_⟩
  unfold finish
  split <;> simp [allowedTok, nl]

/-- **Token-level balance implies byte-level balance (core oracle)** for allowed, void-respecting
    token lists. -/
theorem balancedBytesCore_spell (ts : List Tok) (ha : ts.all allowedTok = true) (hv : ts.all voidOk = true)
    (hb : balanced ts = true) : balancedBytesCore (spell ts) = .ok () := by
  unfold balancedBytesCore
  rw [lex_spell ts ha]
  unfold balanced at hb
  exact balLoopCore_of_run ts [] [] hv (by simpa using hb)

end Comrak
