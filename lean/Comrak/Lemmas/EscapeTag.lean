/-
C19 helper lemmas: the start-tag recogniser reads back what `openTag` wrote, and entity-decoding the href
escaper's output gives the plain percent-encoding of the input.
-/
import Comrak.Lemmas.Escape
namespace Comrak
open Bytes

/-! ### Start-tag recogniser on the tag writer's output -/

theorem spanName_append (n : Bytes) (c : UInt8) (r : Bytes) (hn : n.all nameChar = true)
    (hc : nameChar c = false) : spanName (n ++ c :: r) = (n, c :: r) := by
  induction n with
  | nil => simp [spanName, hc]
  | cons a p ih =>
    simp only [List.all_cons, Bool.and_eq_true] at hn
    simp [spanName, hn.1, ih hn.2]

theorem spanValue_append (x rest : Bytes) (hx : (0x22 : UInt8) ∉ x) :
    spanValue (x ++ 0x22 :: rest) = some (x, rest) := by
  induction x with
  | nil => simp [spanValue]
  | cons a p ih =>
    simp only [List.mem_cons, not_or] at hx
    have ha : a ≠ 0x22 := fun e => hx.1 e.symm
    simp [spanValue, ha, ih hx.2]

theorem noActive_no_quote (x : Bytes) (h : noActive x = true) : (0x22 : UInt8) ∉ x := by
  induction x with
  | nil => simp
  | cons b r ih =>
    simp only [noActive, Bool.and_eq_true] at h
    have h1 := h.1
    intro hm
    rcases List.mem_cons.mp hm with e | hm
    · rw [← e] at h1; simp at h1
    · exact ih h.2 hm

theorem unescapeText_escape' (a : Bytes) : unescapeText (escape a) = some a := by
  unfold unescapeText
  induction a with
  | nil => rfl
  | cons b r ih => rw [escape_cons, unescapeTextAux_escByte, ih]; rfl

theorem escape_noActive' (a : Bytes) : noActive (escape a) = true := by
  induction a with
  | nil => rfl
  | cons b r ih => rw [escape_cons]; exact noActive_append _ _ (noActive_escByte b) ih

theorem openTagAttrs_cons (k v : Bytes) (r : List (Bytes × Bytes)) :
    openTagAttrs ((k, v) :: r) = 0x20 :: (k ++ 0x3D :: 0x22 :: (escape v ++ 0x22 :: openTagAttrs r)) := by
  simp [openTagAttrs]

/-- The attribute part followed by `>` is read back exactly, given enough fuel (one unit per attribute + 1). -/
theorem parseAttrs_openTagAttrs (attrs : List (Bytes × Bytes))
    (hk : ∀ kv ∈ attrs, validName kv.1 = true) (fuel : Nat) (hf : attrs.length + 1 ≤ fuel) :
    parseAttrs fuel (openTagAttrs attrs ++ [0x3E]) = some attrs := by
  induction attrs generalizing fuel with
  | nil =>
    cases fuel with
    | zero => omega
    | succ f => simp [openTagAttrs, parseAttrs]
  | cons kv r ih =>
    obtain ⟨k, v⟩ := kv
    cases fuel with
    | zero => omega
    | succ f =>
      have hkv := hk (k, v) (by simp)
      simp only [validName, Bool.and_eq_true, Bool.not_eq_true'] at hkv
      have hrest := ih (fun kv h => hk kv (by simp [h])) f (by simpa using hf)
      have hsp : spanName (k ++ 0x3D :: 0x22 :: (escape v ++ 0x22 :: (openTagAttrs r ++ [0x3E])))
          = (k, 0x3D :: 0x22 :: (escape v ++ 0x22 :: (openTagAttrs r ++ [0x3E]))) :=
        spanName_append k 0x3D _ hkv.2 (by decide)
      have hval : spanValue (escape v ++ 0x22 :: (openTagAttrs r ++ [0x3E])) = some (escape v, openTagAttrs r ++ [0x3E]) :=
        spanValue_append _ _ (noActive_no_quote _ (escape_noActive' v))
      rw [openTagAttrs_cons]
      simp only [List.cons_append, List.append_assoc, parseAttrs, hsp, hkv.1, hval, unescapeText_escape', hrest]
      simp

theorem openTagAttrs_length (attrs : List (Bytes × Bytes)) : attrs.length ≤ (openTagAttrs attrs).length := by
  induction attrs with
  | nil => simp
  | cons kv r ih => obtain ⟨k, v⟩ := kv; rw [openTagAttrs_cons]; simp; omega

theorem openTagAttrs_head (attrs : List (Bytes × Bytes)) :
    ∃ c r, openTagAttrs attrs ++ [0x3E] = c :: r ∧ nameChar c = false := by
  cases attrs with
  | nil => exact ⟨0x3E, [], rfl, by decide⟩
  | cons kv r => obtain ⟨k, v⟩ := kv; rw [openTagAttrs_cons]; exact ⟨0x20, _, rfl, by decide⟩

theorem parseStartTag_openTag (tag : Bytes) (attrs : List (Bytes × Bytes)) (ht : validName tag = true)
    (hk : ∀ kv ∈ attrs, validName kv.1 = true) : parseStartTag (openTag tag attrs) = some (tag, attrs) := by
  simp only [validName, Bool.and_eq_true, Bool.not_eq_true'] at ht
  obtain ⟨c, r, e, hc⟩ := openTagAttrs_head attrs
  have hsp : spanName (tag ++ (openTagAttrs attrs ++ [0x3E])) = (tag, openTagAttrs attrs ++ [0x3E]) := by
    rw [e]; exact spanName_append tag c r ht.2 hc
  have hlen := openTagAttrs_length attrs
  have hp := parseAttrs_openTagAttrs attrs hk ((openTag tag attrs).length + 1) (by
    simp [openTag]; omega)
  simp only [openTag, List.cons_append, List.nil_append, List.append_assoc, parseStartTag, hsp, ht.1] at hp ⊢
  simp only [List.length_cons, List.length_append, List.length_nil] at hp ⊢
  simp [hp]

/-! ### Href escaper: nothing is lost up to percent-decoding -/

/-- Bytes the href escaper leaves readable after entity decoding: the safe set, `&` and `'`. -/
def hrefPlain (b : UInt8) : Bool := hrefSafe b || b == 0x26 || b == 0x27

/-- Plain percent-encoding: what `escapeHref` means once `&amp;` / `&#x27;` are read as `&` / `'`. -/
def pctEncByte (b : UInt8) : Bytes := if hrefPlain b then [b] else pctByte b
def pctEnc (bs : Bytes) : Bytes := bs.flatMap pctEncByte

theorem pctEnc_cons (b : UInt8) (r : Bytes) : pctEnc (b :: r) = pctEncByte b ++ pctEnc r := by
  simp [pctEnc]

theorem entityDecodeAux_plain (x rest : Bytes) (hx : (0x26 : UInt8) ∉ x) :
    entityDecodeAux 0 (x ++ rest) = x ++ entityDecodeAux 0 rest := by
  induction x with
  | nil => rfl
  | cons a p ih =>
    simp only [List.mem_cons, not_or] at hx
    have ha : ¬ ((0x26 : UInt8) = a) := hx.1
    simp [entityDecodeAux, isPrefixB, entAmp, entApos, ha, ih hx.2]

theorem pctByte_no_amp : ∀ b : UInt8, (0x26 : UInt8) ∉ pctByte b :=
  forall_uint8_of_fin (by decide +kernel)

theorem entityDecodeAux_hrefByte (b : UInt8) (rest : Bytes) :
    entityDecodeAux 0 (hrefByte b ++ rest) = pctEncByte b ++ entityDecodeAux 0 rest := by
  unfold hrefByte pctEncByte hrefPlain
  split
  · rename_i hs
    have : ¬ ((0x26 : UInt8) = b) := fun e => hrefSafe_ne_amp b hs e.symm
    simp [hs, entityDecodeAux, isPrefixB, entAmp, entApos, this]
  · rename_i hs
    split
    · rename_i h; subst h
      simp [entAmp, entityDecodeAux, isPrefixB]
    · split
      · rename_i h; subst h
        simp [entApos, entAmp, entityDecodeAux, isPrefixB]
      · rename_i h1 h2
        rw [if_neg (by simp [hs, h1, h2])]
        exact entityDecodeAux_plain _ _ (pctByte_no_amp b)

/-- Entity-decoding the href escaper's output gives the plain percent-encoding of the input. -/
theorem entityDecode_escapeHref (a : Bytes) : entityDecode (escapeHref a) = pctEnc a := by
  unfold entityDecode
  induction a with
  | nil => rfl
  | cons b r ih => rw [escapeHref_cons, entityDecodeAux_hrefByte, ih, pctEnc_cons]

/-- "The next two bytes are hex digits" - the only thing `pctDecodeAux 0` asks after a `%`. -/
def hex2 : Bytes → Bool
  | h :: l :: _ => (hexVal? h).isSome && (hexVal? l).isSome
  | _ => false

theorem pctDecodeAux_pct_no (s : Bytes) (h : hex2 s = false) :
    pctDecodeAux 0 (0x25 :: s) = 0x25 :: pctDecodeAux 0 s := by
  match s, h with
  | [], _ => simp [pctDecodeAux]
  | [_], _ => simp [pctDecodeAux]
  | a :: b :: t, h =>
    simp only [hex2, Bool.and_eq_false_iff] at h
    simp only [pctDecodeAux, if_true]
    cases ha : hexVal? a with
    | none => simp
    | some x =>
      cases hb : hexVal? b with
      | none => simp
      | some y => simp [ha, hb] at h

theorem pctDecodeAux_pct_yes (a b : UInt8) (t : Bytes) (x y : UInt8) (ha : hexVal? a = some x)
    (hb : hexVal? b = some y) :
    pctDecodeAux 0 (0x25 :: a :: b :: t) = (x <<< 4 ||| y) :: pctDecodeAux 0 t := by
  simp [pctDecodeAux, ha, hb]

theorem not_plain_not_hex : ∀ b : UInt8, hrefPlain b = false → hexVal? b = none :=
  forall_uint8_of_fin (by decide +kernel)

theorem plain_ne_pct_or : ∀ b : UInt8, hrefPlain b = false → b ≠ 0x25 :=
  forall_uint8_of_fin (by decide +kernel)

theorem hexVal_pct : hexVal? 0x25 = none := by decide

theorem pctEncByte_plain (b : UInt8) (h : hrefPlain b = true) : pctEncByte b = [b] := by
  simp [pctEncByte, h]

theorem pctEncByte_not (b : UInt8) (h : hrefPlain b = false) :
    pctEncByte b = [0x25, hexDigit (b >>> 4), hexDigit (b &&& 0xF)] := by
  simp [pctEncByte, h, pctByte]

theorem hex_plain (b : UInt8) (x : UInt8) (h : hexVal? b = some x) : hrefPlain b = true := by
  cases hp : hrefPlain b with
  | true => rfl
  | false => rw [not_plain_not_hex b hp] at h; cases h

/-- Encoding does not change whether the next two bytes are hex digits. -/
theorem hex2_pctEnc (r : Bytes) : hex2 (pctEnc r) = hex2 r := by
  cases r with
  | nil => rfl
  | cons h r' =>
    rw [pctEnc_cons]
    cases hp : hrefPlain h with
    | false =>
      rw [pctEncByte_not h hp]
      have hn := not_plain_not_hex h hp
      cases r' with
      | nil => simp [hex2, hexVal_pct]
      | cons l t => simp [hex2, hexVal_pct, hn]
    | true =>
      rw [pctEncByte_plain h hp]
      cases r' with
      | nil => simp [hex2, pctEnc]
      | cons l t =>
        rw [pctEnc_cons]
        cases hq : hrefPlain l with
        | false =>
          rw [pctEncByte_not l hq]
          simp [hex2, hexVal_pct, not_plain_not_hex l hq]
        | true =>
          rw [pctEncByte_plain l hq]
          simp [hex2]

theorem hex2_true (s : Bytes) (h : hex2 s = true) :
    ∃ a b t x y, s = a :: b :: t ∧ hexVal? a = some x ∧ hexVal? b = some y := by
  match s, h with
  | a :: b :: t, h =>
    simp only [hex2, Bool.and_eq_true, Option.isSome_iff_exists] at h
    obtain ⟨⟨x, hx⟩, ⟨y, hy⟩⟩ := h
    exact ⟨a, b, t, x, y, rfl, hx, hy⟩

theorem pctDecode_pctEnc_len (n : Nat) : ∀ a : Bytes, a.length ≤ n →
    pctDecodeAux 0 (pctEnc a) = pctDecodeAux 0 a := by
  induction n with
  | zero =>
    intro a h
    have : a = [] := List.eq_nil_of_length_eq_zero (by omega)
    subst this; rfl
  | succ n ih =>
    intro a hlen
    cases a with
    | nil => rfl
    | cons b r =>
      have hr : r.length ≤ n := by simpa using hlen
      rw [pctEnc_cons]
      cases hp : hrefPlain b with
      | false =>
        -- `b` is written as `%XY`, which decodes to `b`; `b` itself is neither `%` nor touched by the decoder
        rw [pctEncByte_not b hp]
        obtain ⟨h1, h2, h3⟩ := hex_roundtrip b
        have hb := plain_ne_pct_or b hp
        simp only [List.cons_append, List.nil_append]
        rw [pctDecodeAux_pct_yes _ _ _ _ _ h1 h2, h3, ih r hr]
        simp [pctDecodeAux, hb]
      | true =>
        rw [pctEncByte_plain b hp]
        simp only [List.cons_append, List.nil_append]
        by_cases hb : b = 0x25
        · subst hb
          cases h2 : hex2 r with
          | false =>
            rw [pctDecodeAux_pct_no r h2, pctDecodeAux_pct_no (pctEnc r) (by rw [hex2_pctEnc]; exact h2), ih r hr]
          | true =>
            obtain ⟨a, c, t, x, y, e, ha, hc⟩ := hex2_true r h2
            subst e
            have ht : t.length ≤ n := by simp at hr; omega
            rw [pctEnc_cons, pctEncByte_plain a (hex_plain a x ha), pctEnc_cons, pctEncByte_plain c (hex_plain c y hc)]
            simp only [List.cons_append, List.nil_append]
            rw [pctDecodeAux_pct_yes _ _ _ _ _ ha hc, pctDecodeAux_pct_yes _ _ _ _ _ ha hc, ih t ht]
        · simp [pctDecodeAux, hb, ih r hr]

theorem pctDecode_pctEnc (a : Bytes) : pctDecode (pctEnc a) = pctDecode a :=
  pctDecode_pctEnc_len a.length a (Nat.le_refl _)

end Comrak
