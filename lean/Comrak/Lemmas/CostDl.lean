/-
C06 helper lemmas: the dollar scanners with their memos (`dlLoop true`, the code as it is since /repo commits
657287d and b4925f3) take a number of steps linear in the length of the text.

Potential: 2 per byte still ahead of the inline loop + the text length while `no_code_dollar_closer` is not set
+ for `$` and `$$` the distance from `no_dollar_closer_before[len]` to the end of the text.
A `` $` `` scan that runs to the end costs at most the length and sets its flag. A `$` / `$$` scan only runs when
it starts at or behind the recorded failure position, and when it fails at byte `q` after `q - p + 1` steps the
record moves from at most `p` to `q`. A scan that finds its closer costs at most what it consumes, and the loop
resumes behind it (or, for a closer too close to make a span, it cost at most 2).
-/
import Comrak.Cost
namespace Comrak.Cost
open Comrak Bytes

/-! ### The scanners -/

theorem cdScan_none_cost (prev : UInt8) (bs : Bytes) (h : (cdScan prev bs).2 = none) :
    (cdScan prev bs).1 = bs.length + 1 := by
  induction bs generalizing prev with
  | nil => simp [cdScan]
  | cons b r ih =>
    simp only [cdScan] at h ⊢
    split at h
    · simp at h
    · rename_i hc
      simp only [hc, if_false, List.length_cons]
      have := ih b (by simpa using h)
      omega

theorem cdScan_some_cost (prev : UInt8) (bs : Bytes) (c : Nat) (h : (cdScan prev bs).2 = some c) :
    (cdScan prev bs).1 = c ∧ c ≤ bs.length := by
  induction bs generalizing prev c with
  | nil => simp [cdScan] at h
  | cons b r ih =>
    simp only [cdScan] at h ⊢
    split at h
    · rename_i hc
      simp only [hc]
      simp at h; subst h; simp
    · rename_i hc
      simp only [hc, if_false]
      simp only [Option.map_eq_some_iff] at h
      obtain ⟨c', hc', rfl⟩ := h
      have := ih b c' hc'
      simp only [List.length_cons]; omega

theorem shift_ranOut (r : MdRes) : r.shift = .ranOut ↔ r = .ranOut := by cases r <;> simp [MdRes.shift]
theorem shift_found (r : MdRes) (c : Nat) : r.shift = .found c ↔ ∃ c', r = .found c' ∧ c = c' + 1 := by
  cases r <;> simp [MdRes.shift]; omega

theorem shift_rejected (r : MdRes) : r.shift = .rejected ↔ r = .rejected := by cases r <;> simp [MdRes.shift]

/-- What a scan costs: to the end, everything + 1; a closer found, at most what is consumed; refused by the
    space / digit rule at a `$`, the bytes before that `$` + 1. -/
def MdOk (s : Nat × MdRes) (len : Nat) : Prop :=
  1 ≤ s.1 ∧ (s.2 = .ranOut → s.1 = len + 1) ∧ (∀ c, s.2 = .found c → s.1 ≤ c ∧ c ≤ len) ∧ (s.2 = .rejected → s.1 ≤ len)

theorem mdScan_rec (s : Nat × MdRes) (len : Nat) (ih : MdOk s len) : MdOk (s.1 + 1, s.2.shift) (len + 1) := by
  obtain ⟨h0, h1, h2, h3⟩ := ih
  refine ⟨by simp, ?_, ?_, ?_⟩
  · intro h; have := h1 ((shift_ranOut _).mp h); simp only; omega
  · intro c h
    obtain ⟨c', hc, rfl⟩ := (shift_found _ _).mp h
    have := h2 c' hc; simp only; omega
  · intro h; have := h3 ((shift_rejected _).mp h); simp only; omega

theorem mdScan_cost (n : Nat) : ∀ (prev : UInt8) (bs : Bytes), MdOk (mdScan n prev bs) bs.length
  | _, [] => by simp [mdScan, MdOk]
  | prev, b :: r => by
    have ih := mdScan_rec _ _ (mdScan_cost n b r)
    simp only [mdScan, List.length_cons]
    split
    · split
      · split
        · simp [MdOk]
        · split
          · exact ih
          · split <;> simp [MdOk]
      · split
        · rename_i hh
          cases r with
          | nil => simp at hh
          | cons x y => simp [MdOk]
        · exact ih
    · exact ih

theorem btScanB_pos (L : Nat) : ∀ (bs : Bytes) (memo : Nat → Nat) (pos cur e : Nat),
    (btScanB L memo pos cur bs).1 = some e → pos ≤ e
  | [], memo, pos, cur, e, h => by
    simp only [btScanB] at h
    split at h
    · simp at h
    · split at h <;> simp at h; omega
  | b :: r, memo, pos, cur, e, h => by
    simp only [btScanB] at h
    split at h
    · have := btScanB_pos L r _ _ _ _ h; omega
    · split at h
      · have := btScanB_pos L r _ _ _ _ h; omega
      · split at h
        · simp at h; omega
        · have := btScanB_pos L r _ _ _ _ h; omega

theorem runLen_le (c : UInt8) : ∀ r : Bytes, runLen c r ≤ r.length
  | [] => by simp [runLen]
  | b :: r => by
    have := runLen_le c r
    simp only [runLen]; split <;> simp <;> omega

/-! ### Amortisation -/

def nb (b : Bool) (n : Nat) : Nat := if b then 0 else n

/-- The text length while `no_code_dollar_closer` is not set, and (with `math_dollars`) the distance from each
    `no_dollar_closer_before[len]` to the end of the text. -/
def flagPot (md : Bool) (fl : DlFlags) (len : Nat) : Nat :=
  nb fl.ncd len + (if md then (len - fl.nd1) + (len - fl.nd2) else 0)

theorem dlCost_cons (e : DlEvent) (evs : List DlEvent) : dlCost (e :: evs) = e.cost + dlCost evs := by
  simp [dlCost]

theorem dlCost_nil : dlCost [] = 0 := rfl

/-- **Amortised bound for the dollar scanners as they are**: from any state of the inline loop, the steps of
    the scans still to come are at most 2 per byte ahead + the potential of the memos. -/
theorem dlLoop_bound (mc md : Bool) (inp : Bytes) : ∀ (fuel pos : Nat) (memo : Nat → Nat) (scanned : Bool) (fl : DlFlags),
    dlCost (dlLoop true mc md inp fuel pos memo scanned fl) ≤ 2 * (inp.length - pos) + flagPot md fl inp.length := by
  intro fuel
  induction fuel with
  | zero => intro pos memo scanned fl; simp [dlLoop, dlCost_nil]
  | succ fuel ih =>
    intro pos memo scanned fl
    -- moving on without an event: the position does not decrease
    have step : ∀ (pos' : Nat) (memo' : Nat → Nat) (sc' : Bool), pos ≤ pos' →
        dlCost (dlLoop true mc md inp fuel pos' memo' sc' fl) ≤ 2 * (inp.length - pos) + flagPot md fl inp.length := by
      intro pos' memo' sc' h
      have := ih pos' memo' sc' fl
      omega
    rw [dlLoop]
    split
    · simp [dlCost_nil]
    · rename_i b r hdrop
      have hlen : r.length + 1 = inp.length - pos := by
        have := congrArg List.length hdrop
        simpa using this.symm
      split
      · -- backslash
        split
        · split
          · exact step _ _ _ (by omega)
          · exact step _ _ _ (by omega)
        · exact step _ _ _ (by omega)
      · split
        · -- backtick
          simp only []
          split
          · exact step _ _ _ (by omega)
          · split
            · exact step _ _ _ (by omega)
            · split
              · rename_i e he
                have := btScanB_pos _ _ _ _ _ _ he
                exact step _ _ _ (by omega)
              · exact step _ _ _ (by omega)
        · split
          · -- dollar
            have hrun := runLen_le 0x24 r
            simp only []
            split
            · -- `` $` ``
              rename_i hcode
              have hr1 : 1 ≤ r.length := by
                cases r with
                | nil => simp at hcode
                | cons x y => simp
              split
              · exact step _ _ _ (by omega)
              · rename_i hflag
                have hncd : fl.ncd = false := by simpa using hflag
                split
                · rename_i c hc
                  have ⟨h1, h2⟩ := cdScan_some_cost _ _ _ hc
                  have hdl : (r.drop 1).length = r.length - 1 := by simp
                  split
                  · have := ih (pos + 2 + c) memo scanned fl
                    simp only [dlCost_cons]
                    omega
                  · have := ih (pos + 1) memo scanned fl
                    simp only [dlCost_cons]
                    omega
                · rename_i hc
                  have h1 := cdScan_none_cost _ _ hc
                  have hdl : (r.drop 1).length = r.length - 1 := by simp
                  have := ih (pos + 1) memo scanned { fl with ncd := true }
                  simp only [dlCost_cons]
                  simp only [flagPot, hncd, nb] at this ⊢
                  simp only [Bool.false_eq_true, if_false, if_true] at this ⊢
                  omega
            · split
              · -- `$` / `$$` with math_dollars
                rename_i hmd
                obtain ⟨hmd1, hd2⟩ := hmd
                subst hmd1
                by_cases hd1 : runLen 0x24 r + 1 = 1
                · have hrest : (r.drop (1 - 1)).length = r.length := by simp
                  simp only [hd1, if_true, true_and]
                  split
                  · exact step _ _ _ (by omega)
                  · split
                    · exact step _ _ _ (by omega)
                    · rename_i hflag
                      have hf : fl.nd1 ≤ pos + 1 := by omega
                      have hc := mdScan_cost 1 0x24 (r.drop (1 - 1))
                      obtain ⟨hc0, hc1, hc2, hc3⟩ := hc
                      split
                      · rename_i c hfound
                        have ⟨h1, h2⟩ := hc2 c hfound
                        split
                        · have := ih (pos + 1 + c) memo scanned fl
                          simp only [dlCost_cons]
                          omega
                        · have := ih (pos + 1) memo scanned fl
                          simp only [dlCost_cons]
                          omega
                      · rename_i hrej
                        have h1 := hc3 hrej
                        have := ih (pos + 1) memo scanned (failAt true 1 (pos + 1 + (mdScan 1 0x24 (r.drop (1 - 1))).1 - 1) fl)
                        simp only [dlCost_cons]
                        simp only [flagPot, failAt, if_true] at this ⊢
                        omega
                      · rename_i hran
                        have h1 := hc1 hran
                        have := ih (pos + 1) memo scanned (failAt true 1 (pos + 1 + (mdScan 1 0x24 (r.drop (1 - 1))).1 - 1) fl)
                        simp only [dlCost_cons]
                        simp only [flagPot, failAt, if_true] at this ⊢
                        omega
                · have hd2' : runLen 0x24 r + 1 = 2 := by omega
                  have hrest : (r.drop (2 - 1)).length = r.length - 1 := by simp
                  simp only [hd2', show ¬ ((2 : Nat) = 1) from by decide, if_false, false_and]
                  split
                  · exact step _ _ _ (by omega)
                  · rename_i hflag
                    have hf : fl.nd2 ≤ pos + 2 := by omega
                    have hc := mdScan_cost 2 0x24 (r.drop (2 - 1))
                    obtain ⟨hc0, hc1, hc2, hc3⟩ := hc
                    split
                    · rename_i c hfound
                      have ⟨h1, h2⟩ := hc2 c hfound
                      split
                      · have := ih (pos + 2 + c) memo scanned fl
                        simp only [dlCost_cons]
                        omega
                      · have := ih (pos + 2) memo scanned fl
                        simp only [dlCost_cons]
                        omega
                    · rename_i hrej
                      have h1 := hc3 hrej
                      have := ih (pos + 2) memo scanned (failAt true 2 (pos + 2 + (mdScan 2 0x24 (r.drop (2 - 1))).1 - 1) fl)
                      simp only [dlCost_cons]
                      simp only [flagPot, failAt, if_true, show ¬ ((2 : Nat) = 1) from by decide, if_false] at this ⊢
                      omega
                    · rename_i hran
                      have h1 := hc1 hran
                      have := ih (pos + 2) memo scanned (failAt true 2 (pos + 2 + (mdScan 2 0x24 (r.drop (2 - 1))).1 - 1) fl)
                      simp only [dlCost_cons]
                      simp only [flagPot, failAt, if_true, show ¬ ((2 : Nat) = 1) from by decide, if_false] at this ⊢
                      omega
              · exact step _ _ _ (by omega)
          · exact step _ _ _ (by omega)

/-- `"a" ++ "$\\\\" x k ++ " $"`: every `$` follows a backslash (skipped by the `$` scan) but the inline loop reads
    `\\\\` as an escaped backslash, so every `$` is an opener; the last `$` follows a space. -/
def famRej (k : Nat) : Bytes := [0x61] ++ (List.replicate k [0x24, 0x5C, 0x5C]).flatten ++ [0x20, 0x24]

end Comrak.Cost
