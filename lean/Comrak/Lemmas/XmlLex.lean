/-
Lexing the model's own spelling: `xlexLoop` run over the bytes of a well-formed token
(`tokGood`) produces exactly the token's events.  Pieces: indentation, names, escaped text,
escaped attribute values, attribute lists, the four token shapes, token lists.
-/
import Comrak.Lemmas.Xml
namespace Comrak
open Bytes

/-! ### Composition -/

theorem xlexLoop_append (st : XLexSt) (out : List XEv) (a b : Bytes) :
    xlexLoop st out (a ++ b) = xlexLoop (xlexLoop st out a).1 (xlexLoop st out a).2 b := by
  induction a generalizing st out with
  | nil => simp [xlexLoop]
  | cons c r ih => simp only [List.cons_append, xlexLoop]; exact ih _ _

theorem xlexLoop_append_eq {st st' : XLexSt} {out out' : List XEv} {a : Bytes} (b : Bytes)
    (h : xlexLoop st out a = (st', out')) : xlexLoop st out (a ++ b) = xlexLoop st' out' b := by
  rw [xlexLoop_append, h]

theorem xlexLoop_cons (st : XLexSt) (out : List XEv) (c : UInt8) (r : Bytes) :
    xlexLoop st out (c :: r) = xlexLoop (xlexStep st out c).1 (xlexStep st out c).2 r := rfl

/-! ### Byte classes -/

theorem nameStart_facts : ∀ c : UInt8, xmlNameStart c = true →
    xmlNameChar c = true ∧ c ≠ 0x2F ∧ c ≠ 0x3E ∧ xmlWs c = false :=
  forall_uint8_of_fin (by decide +kernel)

theorem xmlSafe_facts : ∀ c : UInt8, xmlUnsafe c = false → c ≠ 0x22 ∧ c ≠ 0x26 ∧ c ≠ 0x3C ∧ c ≠ 0x3E :=
  forall_uint8_of_fin (by decide +kernel)

/-! ### Indentation -/

theorem lex_spaces (k : Nat) (acc : Bytes) (out : List XEv) :
    xlexLoop (.text acc) out (List.replicate k 0x20) = (.text (List.replicate k 0x20 ++ acc), out) := by
  induction k generalizing acc with
  | zero => simp [xlexLoop]
  | succ k ih =>
    rw [List.replicate_succ, xlexLoop_cons]
    have : xlexStep (.text acc) out 0x20 = (.text (0x20 :: acc), out) := by simp [xlexStep]
    rw [this, ih]
    simp only [Prod.mk.injEq, XLexSt.text.injEq, and_true]
    rw [show (0x20 : UInt8) :: List.replicate k 0x20 = List.replicate (k + 1) 0x20 from rfl,
      List.replicate_succ' , List.append_assoc]
    rfl

/-! ### Names -/

theorem lex_nameChars (r acc : Bytes) (out : List XEv) (h : r.all xmlNameChar = true) :
    xlexLoop (.name acc) out r = (.name (r.reverse ++ acc), out) := by
  induction r generalizing acc with
  | nil => simp [xlexLoop]
  | cons c r ih =>
    simp only [List.all_cons, Bool.and_eq_true] at h
    rw [xlexLoop_cons]
    have : xlexStep (.name acc) out c = (.name (c :: acc), out) := by simp [xlexStep, h.1]
    rw [this, ih _ h.2]; simp

theorem lex_name (n : Bytes) (out : List XEv) (h : xmlLegalName n = true) :
    xlexLoop .lt out n = (.name n.reverse, out) := by
  cases n with
  | nil => simp [xmlLegalName] at h
  | cons c r =>
    simp only [xmlLegalName, Bool.and_eq_true] at h
    obtain ⟨_, h2, _, _⟩ := nameStart_facts c h.1
    rw [xlexLoop_cons]
    have : xlexStep .lt out c = (.name [c], out) := by simp [xlexStep, h2, h.1]
    rw [this, lex_nameChars r [c] out h.2]; simp

theorem lex_attrNameChars (n : Bytes) (as : List (Bytes × Bytes)) (r acc : Bytes) (out : List XEv)
    (h : r.all xmlNameChar = true) :
    xlexLoop (.attrName n as acc) out r = (.attrName n as (r.reverse ++ acc), out) := by
  induction r generalizing acc with
  | nil => simp [xlexLoop]
  | cons c r ih =>
    simp only [List.all_cons, Bool.and_eq_true] at h
    rw [xlexLoop_cons]
    have : xlexStep (.attrName n as acc) out c = (.attrName n as (c :: acc), out) := by simp [xlexStep, h.1]
    rw [this, ih _ h.2]; simp

theorem lex_attrName (n : Bytes) (as : List (Bytes × Bytes)) (an : Bytes) (out : List XEv)
    (h : xmlLegalName an = true) :
    xlexLoop (.attrs n as) out an = (.attrName n as an.reverse, out) := by
  cases an with
  | nil => simp [xmlLegalName] at h
  | cons c r =>
    simp only [xmlLegalName, Bool.and_eq_true] at h
    obtain ⟨_, h2, h3, h4⟩ := nameStart_facts c h.1
    rw [xlexLoop_cons]
    have : xlexStep (.attrs n as) out c = (.attrName n as [c], out) := by simp [xlexStep, h2, h3, h4, h.1]
    rw [this, lex_attrNameChars n as r [c] out h.2]; simp

theorem lex_closeNameChars (r acc : Bytes) (out : List XEv) (h : r.all xmlNameChar = true) (hne : acc ≠ []) :
    xlexLoop (.closeName acc) out r = (.closeName (r.reverse ++ acc), out) := by
  induction r generalizing acc with
  | nil => simp [xlexLoop]
  | cons c r ih =>
    simp only [List.all_cons, Bool.and_eq_true] at h
    rw [xlexLoop_cons]
    have : xlexStep (.closeName acc) out c = (.closeName (c :: acc), out) := by
      cases acc with
      | nil => exact absurd rfl hne
      | cons a t => simp [xlexStep, h.1]
    rw [this, ih _ h.2 (by simp)]; simp

/-- `</name>` from the text state. -/
theorem lex_endTag (n : Bytes) (out : List XEv) (h : xmlLegalName n = true) :
    xlexLoop .lt out ([0x2F] ++ n ++ [0x3E]) = (.text [], .close n :: out) := by
  cases n with
  | nil => simp [xmlLegalName] at h
  | cons c r =>
    simp only [xmlLegalName, Bool.and_eq_true] at h
    have h1 : xlexStep .lt out 0x2F = (.closeName [], out) := by simp [xlexStep]
    have h2 : xlexStep (.closeName []) out c = (.closeName [c], out) := by simp [xlexStep, h.1]
    have h3 := lex_closeNameChars r [c] out h.2 (by simp)
    have hall : (r.reverse ++ [c]).reverse = c :: r := by simp
    have hne : (r.reverse ++ [c]).isEmpty = false := by simp
    have hnc : xmlNameChar 0x3E = false := by decide
    have h4 : xlexStep (.closeName (r.reverse ++ [c])) out 0x3E = (.text [], .close (c :: r) :: out) := by
      simp only [xlexStep, hne, hnc, hall]; simp
    simp only [List.cons_append, List.nil_append, xlexLoop_cons, h1, h2]
    rw [xlexLoop_append_eq _ h3]
    simp [xlexLoop, h4]

/-! ### Escaped text and values -/

theorem lex_text_escByte (b : UInt8) (acc : Bytes) (out : List XEv) :
    xlexLoop (.text acc) out (escByte b) = (.text (b :: acc), out) := by
  unfold escByte
  split
  · rename_i h; subst h; simp [entQuot, xlexLoop, xlexStep, entOf]
  · split
    · rename_i h; subst h; simp [entAmp, xlexLoop, xlexStep, entOf]
    · split
      · rename_i h; subst h; simp [entLt, xlexLoop, xlexStep, entOf]
      · split
        · rename_i h; subst h; simp [entGt, xlexLoop, xlexStep, entOf]
        · rename_i h1 h2 h3 h4
          simp [xlexLoop, xlexStep, h2, h3, h4]

theorem lex_text_escape (l acc : Bytes) (out : List XEv) :
    xlexLoop (.text acc) out (escape l) = (.text (l.reverse ++ acc), out) := by
  induction l generalizing acc with
  | nil => simp [escape, xlexLoop]
  | cons b r ih =>
    rw [escape_cons, xlexLoop_append_eq _ (lex_text_escByte b acc out), ih]; simp

theorem lex_value_escByte (n : Bytes) (as : List (Bytes × Bytes)) (an : Bytes) (b : UInt8) (v : Bytes) (out : List XEv) :
    xlexLoop (.value n as an v) out (escByte b) = (.value n as an (b :: v), out) := by
  unfold escByte
  split
  · rename_i h; subst h; simp [entQuot, xlexLoop, xlexStep, entOf]
  · split
    · rename_i h; subst h; simp [entAmp, xlexLoop, xlexStep, entOf]
    · split
      · rename_i h; subst h; simp [entLt, xlexLoop, xlexStep, entOf]
      · split
        · rename_i h; subst h; simp [entGt, xlexLoop, xlexStep, entOf]
        · rename_i h1 h2 h3 h4
          simp [xlexLoop, xlexStep, h1, h2, h3, h4]

theorem lex_value_escape (n : Bytes) (as : List (Bytes × Bytes)) (an p v : Bytes) (out : List XEv) :
    xlexLoop (.value n as an v) out (escape p) = (.value n as an (p.reverse ++ v), out) := by
  induction p generalizing v with
  | nil => simp [escape, xlexLoop]
  | cons b r ih =>
    rw [escape_cons, xlexLoop_append_eq _ (lex_value_escByte n as an b v out), ih]; simp

/-! ### Inside a start tag -/

/-- The lexer state after the element name and the attributes `as` read so far. -/
def tagSt (n : Bytes) (as : List (Bytes × Bytes)) : XLexSt :=
  if as.isEmpty then .name n.reverse else .afterValue n as

theorem tagSt_space (n : Bytes) (as : List (Bytes × Bytes)) (out : List XEv) :
    xlexStep (tagSt n as) out 0x20 = (.attrs n as, out) := by
  have hnc : xmlNameChar 0x20 = false := by decide
  have hws : xmlWs 0x20 = true := by decide
  cases as with
  | nil => simp [tagSt, xlexStep, hnc, hws]
  | cons a r => simp [tagSt, xlexStep, hws]

theorem tagSt_gt (n : Bytes) (as : List (Bytes × Bytes)) (out : List XEv) :
    xlexStep (tagSt n as) out 0x3E = (.text [], .opn n as :: out) := by
  have hnc : xmlNameChar 0x3E = false := by decide
  have hws : xmlWs 0x3E = false := by decide
  cases as with
  | nil => simp [tagSt, xlexStep, hnc]
  | cons a r => simp [tagSt, xlexStep, hws]

/-- Decoded value of an attribute token. -/
def XVal.payload : XVal → Bytes
  | .esc v => v
  | .lit v => v

theorem spell_eq_escape_payload (v : XVal) (h : valOk v = true) : v.spell = escape v.payload := by
  cases v with
  | esc p => simp [XVal.spell, XVal.payload, xmlEscape_eq]
  | lit w => simp [XVal.spell, XVal.payload, escape_of_safeB w (by simpa [valOk] using h)]

/-- Attributes a start tag may carry after `as`: legal fresh names, escaped values. -/
def attrsGood (as : List (Bytes × Bytes)) : List XAttr → Bool
  | [] => true
  | .mk n v :: r =>
    xmlLegalName n && valOk v && !(as.any fun a => a.1 == n) && attrsGood (as ++ [(n, v.payload)]) r

theorem attrPairs_cons_mk (n : Bytes) (v : XVal) (r : List XAttr) :
    attrPairs (.mk n v :: r) = (n, v.payload) :: attrPairs r := by
  cases v <;> simp [attrPairs, XVal.payload]

/-- One attribute: ` name="value"`. -/
theorem lex_attr (n : Bytes) (as : List (Bytes × Bytes)) (an : Bytes) (v : XVal) (out : List XEv)
    (hn : xmlLegalName an = true) (hv : valOk v = true) (hf : (as.any fun a => a.1 == an) = false) :
    xlexLoop (tagSt n as) out (XAttr.spell (.mk an v)) = (tagSt n (as ++ [(an, v.payload)]), out) := by
  have heqc : xmlNameChar 0x3D = false := by decide
  simp only [XAttr.spell, List.cons_append, List.nil_append, List.append_assoc, xlexLoop_cons, tagSt_space]
  rw [xlexLoop_append_eq _ (lex_attrName n as an out hn)]
  have h1 : xlexStep (.attrName n as an.reverse) out 0x3D = (.afterEq n as an, out) := by
    simp [xlexStep, heqc]
  have h2 : xlexStep (.afterEq n as an) out 0x22 = (.value n as an [], out) := by simp [xlexStep]
  simp only [xlexLoop_cons, h1, h2]
  rw [spell_eq_escape_payload v hv, xlexLoop_append_eq _ (lex_value_escape n as an v.payload [] out)]
  have h3 : ∀ w : Bytes, xlexStep (.value n as an w) out 0x22 =
      (.afterValue n (as ++ [(an, w.reverse)]), out) := by
    intro w; simp [xlexStep, hf]
  simp [xlexLoop, h3, tagSt]

theorem lex_attrs (n : Bytes) (l : List XAttr) (as : List (Bytes × Bytes)) (out : List XEv)
    (h : attrsGood as l = true) :
    xlexLoop (tagSt n as) out (spellXAttrs l) = (tagSt n (as ++ attrPairs l), out) := by
  induction l generalizing as with
  | nil => simp [spellXAttrs, xlexLoop, attrPairs]
  | cons a r ih =>
    cases a with
    | mk an v =>
      simp only [attrsGood, Bool.and_eq_true, Bool.not_eq_true'] at h
      obtain ⟨⟨⟨h1, h2⟩, h3⟩, h4⟩ := h
      have : spellXAttrs (.mk an v :: r) = XAttr.spell (.mk an v) ++ spellXAttrs r := by simp [spellXAttrs]
      rw [this, xlexLoop_append_eq _ (lex_attr n as an v out h1 h2 h3), ih _ h4, attrPairs_cons_mk]
      simp

/-! ### Tokens -/

/-- A token the reader can lex: legal element name, good attribute list. -/
def tokGood (t : XTok) : Bool := xmlLegalName t.name && attrsGood [] t.attrs

/-- Text event for pending text `w` (forward order), if any. -/
def wsEv (w : Bytes) : List XEv := if w.isEmpty then [] else [.text w]

theorem xflush_eq (acc : Bytes) (out : List XEv) : xflush acc out = (wsEv acc.reverse).reverse ++ out := by
  unfold xflush wsEv
  cases acc <;> simp

/-- Events of one token, given the text `pre` pending before it. -/
def tokEvs (pre : Bytes) : XTok → List XEv
  | .opn i n as => wsEv (pre ++ indentBytes i) ++ [.opn n (attrPairs as)]
  | .leaf i n as l => wsEv (pre ++ indentBytes i) ++ [.opn n (attrPairs as)] ++ wsEv l ++ [.close n]
  | .empty i n as => wsEv (pre ++ indentBytes i) ++ [.empty n (attrPairs as)]
  | .close i n => wsEv (pre ++ indentBytes i) ++ [.close n]

def nlB : Bytes := [0x0A]

theorem indent_rev (i : Nat) : (indentBytes i).reverse = indentBytes i := by
  simp [indentBytes]

theorem lex_indent_lt (i : Nat) (acc : Bytes) (out : List XEv) (rest : Bytes) :
    xlexLoop (.text acc) out (indentBytes i ++ 0x3C :: rest) =
      xlexLoop .lt ((wsEv (acc.reverse ++ indentBytes i)).reverse ++ out) rest := by
  have hi : xlexLoop (.text acc) out (indentBytes i) = (.text (indentBytes i ++ acc), out) :=
    lex_spaces (min i maxIndent) acc out
  rw [xlexLoop_append_eq _ hi]
  rw [xlexLoop_cons]
  have : xlexStep (.text (indentBytes i ++ acc)) out 0x3C = (.lt, xflush (indentBytes i ++ acc) out) := by
    simp [xlexStep]
  rw [this, xflush_eq]
  simp [indent_rev]

theorem lex_startTag (n : Bytes) (as : List XAttr) (out : List XEv)
    (hn : xmlLegalName n = true) (ha : attrsGood [] as = true) :
    xlexLoop .lt out (n ++ spellXAttrs as) = (tagSt n (attrPairs as), out) := by
  rw [xlexLoop_append_eq _ (lex_name n out hn)]
  have := lex_attrs n as [] out ha
  simpa [tagSt] using this

theorem lex_startTag' (n : Bytes) (as : List XAttr) (out : List XEv) (rest : Bytes)
    (hn : xmlLegalName n = true) (ha : attrsGood [] as = true) :
    xlexLoop .lt out (n ++ (spellXAttrs as ++ rest)) = xlexLoop (tagSt n (attrPairs as)) out rest := by
  rw [← List.append_assoc, xlexLoop_append_eq _ (lex_startTag n as out hn ha)]

theorem lex_tok (tok : XTok) (acc : Bytes) (out : List XEv) (h : tokGood tok = true) :
    xlexLoop (.text acc) out tok.spell = (.text nlB.reverse, (tokEvs acc.reverse tok).reverse ++ out) := by
  have hnl : ∀ a o, xlexStep (.text a) o 0x0A = (.text (0x0A :: a), o) := by intro a o; simp [xlexStep]
  cases tok with
  | opn i n as =>
    simp only [tokGood, XTok.name, XTok.attrs, Bool.and_eq_true] at h
    simp only [XTok.spell, List.append_assoc, List.cons_append, List.nil_append]
    rw [lex_indent_lt, lex_startTag' n as _ _ h.1 h.2]
    simp [xlexLoop, tagSt_gt, hnl, tokEvs, nlB]
  | empty i n as =>
    simp only [tokGood, XTok.name, XTok.attrs, Bool.and_eq_true] at h
    simp only [XTok.spell, List.append_assoc, List.cons_append, List.nil_append]
    rw [lex_indent_lt, lex_startTag' n as _ _ h.1 h.2]
    rw [xlexLoop_cons, tagSt_space]
    have hws : xmlWs 0x2F = false := by decide
    have s1 : ∀ o, xlexStep (.attrs n (attrPairs as)) o 0x2F = (.slash n (attrPairs as), o) := by
      intro o; simp [xlexStep, hws]
    have s2 : ∀ o, xlexStep (.slash n (attrPairs as)) o 0x3E = (.text [], .empty n (attrPairs as) :: o) := by
      intro o; simp [xlexStep]
    simp only [xlexLoop_cons, s1, s2, hnl]
    simp [xlexLoop, tokEvs, nlB]
  | close i n =>
    simp only [tokGood, XTok.name, Bool.and_eq_true] at h
    simp only [XTok.spell, List.append_assoc, List.cons_append, List.nil_append]
    rw [lex_indent_lt]
    have := lex_endTag n ((wsEv (acc.reverse ++ indentBytes i)).reverse ++ out) h.1
    simp only [List.cons_append, List.nil_append] at this
    rw [show (0x2F : UInt8) :: (n ++ [0x3E, 0x0A]) = (0x2F :: (n ++ [0x3E])) ++ [0x0A] by simp,
      xlexLoop_append_eq _ this]
    simp [xlexLoop, hnl, tokEvs, nlB]
  | leaf i n as l =>
    simp only [tokGood, XTok.name, XTok.attrs, Bool.and_eq_true] at h
    simp only [XTok.spell, List.append_assoc, List.cons_append, List.nil_append]
    rw [lex_indent_lt, lex_startTag' n as _ _ h.1 h.2]
    rw [xlexLoop_cons, tagSt_gt, xmlEscape_eq, xlexLoop_append_eq _ (lex_text_escape l [] _)]
    rw [xlexLoop_cons]
    have h1 : ∀ o, xlexStep (.text (l.reverse ++ [])) o 0x3C = (.lt, xflush (l.reverse ++ []) o) := by
      intro o; simp [xlexStep]
    rw [h1, xflush_eq]
    have := lex_endTag n ((wsEv (l.reverse ++ []).reverse).reverse ++
      (.opn n (attrPairs as) :: ((wsEv (acc.reverse ++ indentBytes i)).reverse ++ out))) h.1
    simp only [List.cons_append, List.nil_append] at this
    rw [show (0x2F : UInt8) :: (n ++ [0x3E, 0x0A]) = (0x2F :: (n ++ [0x3E])) ++ [0x0A] by simp,
      xlexLoop_append_eq _ this]
    simp [xlexLoop, hnl, tokEvs, nlB]

/-- Events of a token list: the first token sees `pre`, every later one the newline that ended
    its predecessor. -/
def toksEvs (pre : Bytes) : List XTok → List XEv
  | [] => []
  | t :: r => tokEvs pre t ++ toksEvs nlB r

theorem lex_toks (ts : List XTok) (acc : Bytes) (out : List XEv) (h : ts.all tokGood = true) (hne : ts ≠ []) :
    xlexLoop (.text acc) out (spellXToks ts) = (.text nlB.reverse, (toksEvs acc.reverse ts).reverse ++ out) := by
  induction ts generalizing acc out with
  | nil => exact absurd rfl hne
  | cons t r ih =>
    simp only [List.all_cons, Bool.and_eq_true] at h
    have hs : spellXToks (t :: r) = t.spell ++ spellXToks r := by simp [spellXToks]
    rw [hs, xlexLoop_append_eq _ (lex_tok t acc out h.1)]
    cases r with
    | nil => simp [spellXToks, xlexLoop, toksEvs]
    | cons t2 r2 =>
      rw [ih _ _ h.2 (by simp)]
      simp [toksEvs]

/-- **Lexical well-formedness of the model's output.** -/
theorem lexXml_spell (ts : List XTok) (h : ts.all tokGood = true) (hne : ts ≠ []) :
    lexXml (spellXToks ts) = some (toksEvs [] ts ++ [.text nlB]) := by
  unfold lexXml
  rw [lex_toks ts [] [] h hne]
  simp [xflush, nlB]

end Comrak
