/-
C15 (footnotes), general theorems, part 2: the tree walk factors through the list of resolved keys; the
strip / re-attach step only moves definitions.
-/
import Comrak.Lemmas.FootnotesKeys
namespace Comrak
open Bytes

mutual
/-- Folded labels of the resolvable reference nodes, in walk order (not below a reference node). -/
def resKeysT (N : LabelNorm) (D : DefTab) : Tree → List Bytes
  | .node v _ cs =>
    match v with
    | .footnoteReference name _ _ => if (D.get? (N.fold name)).isSome then [N.fold name] else []
    | _ => resKeysF N D cs
def resKeysF (N : LabelNorm) (D : DefTab) : Forest → List Bytes
  | .nil => []
  | .cons t ts => resKeysT N D t ++ resKeysF N D ts
end

def innerRefs (t : Tree) : List (Bytes × Nat × Nat) := allRefsF t.children
def innerDefs (t : Tree) : List (Bytes × Nat) := allDefsF t.children

theorem emitKeys_isEmpty (D : DefTab) (st : NSt) (ks : List Bytes) :
    (emitKeys D st ks).isEmpty = ks.isEmpty := by
  cases ks <;> simp [emitKeys]

/-! ### L1: the walk = a run over the resolved keys -/
mutual
theorem numberT_keys (N : LabelNorm) (D : DefTab) : ∀ (t : Tree) (st : NSt), leafRefsT t = true →
    (numberT N D t st).2 = runKeys st (resKeysT N D t) ∧
    allRefsT (numberT N D t st).1 = emitKeys D st (resKeysT N D t)
  | .node v sp cs, st, h => by
    cases v
    case footnoteReference name rn ix =>
      simp only [leafRefsT] at h
      have hcs : cs = .nil := by cases cs <;> simp_all [Forest.isNil]
      subst hcs
      simp only [numberT, resKeysT]
      cases hD : D.get? (N.fold name) with
      | none => simp [stepRef, hD, allRefsT, allRefsF, runKeys, emitKeys]
      | some d => simp [stepRef, hD, allRefsT, runKeys, emitKeys, stepKey, nameOf]
    all_goals
      simp only [leafRefsT] at h
      simp only [numberT, allRefsT, resKeysT]
      exact numberF_keys N D cs st h
theorem numberF_keys (N : LabelNorm) (D : DefTab) : ∀ (f : Forest) (st : NSt), leafRefsF f = true →
    (numberF N D f st).2 = runKeys st (resKeysF N D f) ∧
    allRefsF (numberF N D f st).1 = emitKeys D st (resKeysF N D f)
  | .nil, st, _ => by simp [numberF, resKeysF, runKeys, allRefsF, emitKeys]
  | .cons t ts, st, h => by
    simp only [leafRefsF, Bool.and_eq_true] at h
    have h1 := numberT_keys N D t st h.1
    have h2 := numberF_keys N D ts (numberT N D t st).2 h.2
    simp only [numberF, resKeysF, allRefsF, runKeys_append, emitKeys_append]
    rw [h2.1, h2.2, h1.1, h1.2]
    exact ⟨rfl, rfl⟩
end

/-! ### L3/L4a: numbering keeps leaves leaves and does not touch definitions -/
mutual
theorem numberT_leaf (N : LabelNorm) (D : DefTab) : ∀ (t : Tree) (st : NSt), leafRefsT t = true →
    leafRefsT (numberT N D t st).1 = true
  | .node v sp cs, st, h => by
    cases v
    case footnoteReference name rn ix =>
      simp only [leafRefsT] at h
      have hcs : cs = .nil := by cases cs <;> simp_all [Forest.isNil]
      subst hcs
      simp only [numberT]
      cases hD : D.get? (N.fold name) with
      | none => simp [stepRef, hD, leafRefsT, leafRefsF]
      | some d => simp [stepRef, hD, leafRefsT, Forest.isNil]
    all_goals
      simp only [leafRefsT] at h
      simp only [numberT, leafRefsT]
      exact numberF_leaf N D cs st h
theorem numberF_leaf (N : LabelNorm) (D : DefTab) : ∀ (f : Forest) (st : NSt), leafRefsF f = true →
    leafRefsF (numberF N D f st).1 = true
  | .nil, st, _ => by simp [numberF, leafRefsF]
  | .cons t ts, st, h => by
    simp only [leafRefsF, Bool.and_eq_true] at h
    simp only [numberF, leafRefsF, Bool.and_eq_true]
    exact ⟨numberT_leaf N D t st h.1, numberF_leaf N D ts _ h.2⟩
end

mutual
theorem numberT_defs (N : LabelNorm) (D : DefTab) : ∀ (t : Tree) (st : NSt),
    allDefsT (numberT N D t st).1 = allDefsT t
  | .node v sp cs, st => by
    cases v
    case footnoteReference name rn ix =>
      simp only [numberT]
      cases hD : D.get? (N.fold name) with
      | none => simp [stepRef, hD, allDefsT]
      | some d => simp [stepRef, hD, allDefsT]
    all_goals
      simp only [numberT, allDefsT]
      rw [numberF_defs N D cs st]
theorem numberF_defs (N : LabelNorm) (D : DefTab) : ∀ (f : Forest) (st : NSt),
    allDefsF (numberF N D f st).1 = allDefsF f
  | .nil, st => by simp [numberF]
  | .cons t ts, st => by
    simp only [numberF, allDefsF]
    rw [numberT_defs N D t st, numberF_defs N D ts _]
end

/-! ### L6: the outermost definitions before and after numbering correspond position by position -/
mutual
theorem numberT_outerA (N : LabelNorm) (D : DefTab) : ∀ (t : Tree) (st : NSt),
    (outerDefsT (numberT N D t st).1).map (fun d => (defLabel d, innerDefs d))
      = (outerDefsT t).map (fun d => (defLabel d, innerDefs d))
  | .node v sp cs, st => by
    cases v
    case footnoteReference name rn ix =>
      simp only [numberT]
      cases hD : D.get? (N.fold name) with
      | none => simp [stepRef, hD, outerDefsT]
      | some d => simp [stepRef, hD, outerDefsT]
    case footnoteDefinition name tot =>
      simp [numberT, outerDefsT, defLabel, innerDefs, Tree.children, numberF_defs]
    all_goals
      simp only [numberT, outerDefsT]
      exact numberF_outerA N D cs st
theorem numberF_outerA (N : LabelNorm) (D : DefTab) : ∀ (f : Forest) (st : NSt),
    (outerDefsF (numberF N D f st).1).map (fun d => (defLabel d, innerDefs d))
      = (outerDefsF f).map (fun d => (defLabel d, innerDefs d))
  | .nil, st => by simp [numberF, outerDefsF]
  | .cons t ts, st => by
    simp only [numberF, outerDefsF, List.map_append]
    rw [numberT_outerA N D t st, numberF_outerA N D ts _]
end

mutual
theorem numberT_outerB (N : LabelNorm) (D : DefTab) : ∀ (t : Tree) (st : NSt), leafRefsT t = true →
    (outerDefsT (numberT N D t st).1).map (fun d => (innerRefs d).isEmpty)
      = (outerDefsT t).map (fun d => (resKeysF N D d.children).isEmpty)
  | .node v sp cs, st, h => by
    cases v
    case footnoteReference name rn ix =>
      simp only [leafRefsT] at h
      have hcs : cs = .nil := by cases cs <;> simp_all [Forest.isNil]
      subst hcs
      simp only [numberT]
      cases hD : D.get? (N.fold name) with
      | none => simp [stepRef, hD, outerDefsT, outerDefsF]
      | some d => simp [stepRef, hD, outerDefsT, outerDefsF]
    case footnoteDefinition name tot =>
      simp only [leafRefsT] at h
      simp [numberT, outerDefsT, innerRefs, Tree.children, (numberF_keys N D cs st h).2, emitKeys_isEmpty]
    all_goals
      simp only [leafRefsT] at h
      simp only [numberT, outerDefsT]
      exact numberF_outerB N D cs st h
theorem numberF_outerB (N : LabelNorm) (D : DefTab) : ∀ (f : Forest) (st : NSt), leafRefsF f = true →
    (outerDefsF (numberF N D f st).1).map (fun d => (innerRefs d).isEmpty)
      = (outerDefsF f).map (fun d => (resKeysF N D d.children).isEmpty)
  | .nil, st, _ => by simp [numberF, outerDefsF]
  | .cons t ts, st, h => by
    simp only [leafRefsF, Bool.and_eq_true] at h
    simp only [numberF, outerDefsF, List.map_append]
    rw [numberT_outerB N D t st h.1, numberF_outerB N D ts _ h.2]
end

/-! ### L2: stripping moves the references of the outermost definitions, nothing else -/

theorem perm_CSO {α} [BEq α] [LawfulBEq α] (C S O : List α) : (C ++ (S ++ O)).Perm (S ++ (C ++ O)) := by
  rw [List.perm_iff_count]; intro a; simp only [List.count_append]; omega

theorem perm_4 {α} [BEq α] [LawfulBEq α] (S1 O1 S2 O2 : List α) :
    ((S1 ++ O1) ++ (S2 ++ O2)).Perm ((S1 ++ S2) ++ (O1 ++ O2)) := by
  rw [List.perm_iff_count]; intro a; simp only [List.count_append]; omega

mutual
theorem stripT_refs : ∀ (t : Tree), leafRefsT t = true → isDefValue t.value = false →
    (allRefsT t).Perm (allRefsT (stripT t) ++ (outerDefsT t).flatMap innerRefs)
  | .node v sp cs, h, hv => by
    cases v
    case footnoteReference name rn ix =>
      simp only [leafRefsT] at h
      have hcs : cs = .nil := by cases cs <;> simp_all [Forest.isNil]
      subst hcs
      simp [allRefsT, stripT, stripF, outerDefsT, outerDefsF]
    case footnoteDefinition name tot => simp [Tree.value, isDefValue] at hv
    all_goals
      simp only [leafRefsT] at h
      simp only [allRefsT, stripT, outerDefsT]
      exact stripF_refs cs h
theorem stripF_refs : ∀ (f : Forest), leafRefsF f = true →
    (allRefsF f).Perm (allRefsF (stripF f) ++ (outerDefsF f).flatMap innerRefs)
  | .nil, _ => by simp [allRefsF, stripF, outerDefsF]
  | .cons (.node v sp cs) ts, h => by
    simp only [leafRefsF, Bool.and_eq_true] at h
    have hF := stripF_refs ts h.2
    cases v
    case footnoteDefinition name tot =>
      simp only [stripF, allRefsF, allRefsT, outerDefsF, outerDefsT, List.flatMap_append, List.flatMap_cons,
        List.flatMap_nil, List.append_nil, innerRefs, Tree.children]
      exact (List.Perm.append_left _ hF).trans (perm_CSO _ _ _)
    all_goals
      have hT := stripT_refs (.node _ sp cs) h.1 (by simp [Tree.value, isDefValue])
      simp only [stripF, allRefsF, outerDefsF, List.flatMap_append]
      exact (hT.append hF).trans (perm_4 _ _ _ _)
end

/-! ### L7/L8: nothing but the re-attached definitions is a definition in the output -/
mutual
theorem stripT_noDefs : ∀ (t : Tree), isDefValue t.value = false → allDefsT (stripT t) = []
  | .node v sp cs, hv => by
    cases v
    case footnoteDefinition name tot => simp [Tree.value, isDefValue] at hv
    all_goals
      simp only [stripT, allDefsT, List.nil_append]
      exact stripF_noDefs cs
theorem stripF_noDefs : ∀ (f : Forest), allDefsF (stripF f) = []
  | .nil => by simp [stripF, allDefsF]
  | .cons (.node v sp cs) ts => by
    cases v
    case footnoteDefinition name tot => simp only [stripF]; exact stripF_noDefs ts
    all_goals
      simp only [stripF, allDefsF]
      rw [stripT_noDefs (.node _ sp cs) (by simp [Tree.value, isDefValue]), stripF_noDefs ts]
      rfl
end

/-- `(name, total)` of a definition node; what `rootDefs` collects from the root's children. -/
def defInfo : Tree → Option (Bytes × Nat)
  | .node (.footnoteDefinition name total) _ _ => some (name, total)
  | _ => none

theorem filterMap_congr' {α β} (f g : α → Option β) (l : List α) (h : ∀ x, f x = g x) :
    l.filterMap f = l.filterMap g := by
  have : f = g := funext h
  rw [this]

theorem rootDefs_eq (v : NodeValue) (sp : Sp) (cs : Forest) :
    rootDefs (.node v sp cs) = cs.toList.filterMap defInfo := by
  simp only [rootDefs]
  apply filterMap_congr'
  intro c
  cases c with
  | node v sp cs => cases v <;> rfl

theorem stripF_top : ∀ (f : Forest), (stripF f).toList.filterMap defInfo = []
  | .nil => by simp [stripF, Forest.toList]
  | .cons (.node v sp cs) ts => by
    cases v
    case footnoteDefinition name tot => simp only [stripF]; exact stripF_top ts
    all_goals
      simp only [stripF, stripT, Forest.toList, List.filterMap_cons, defInfo]
      exact stripF_top ts

/-! ### Forests as lists -/
theorem allRefsF_append : ∀ (a b : Forest), allRefsF (a.append b) = allRefsF a ++ allRefsF b
  | .nil, b => rfl
  | .cons t ts, b => by simp [Forest.append, allRefsF, allRefsF_append ts b]
theorem allDefsF_append : ∀ (a b : Forest), allDefsF (a.append b) = allDefsF a ++ allDefsF b
  | .nil, b => rfl
  | .cons t ts, b => by simp [Forest.append, allDefsF, allDefsF_append ts b]
theorem toList_append : ∀ (a b : Forest), (a.append b).toList = a.toList ++ b.toList
  | .nil, b => rfl
  | .cons t ts, b => by simp [Forest.append, Forest.toList, toList_append ts b]
theorem allRefsF_ofList (l : List Tree) : allRefsF (Forest.ofList l) = l.flatMap allRefsT := by
  induction l with
  | nil => rfl
  | cons t ts ih => simp [Forest.ofList, allRefsF, ih]
theorem allDefsF_ofList (l : List Tree) : allDefsF (Forest.ofList l) = l.flatMap allDefsT := by
  induction l with
  | nil => rfl
  | cons t ts ih => simp [Forest.ofList, allDefsF, ih]
theorem toList_ofList (l : List Tree) : (Forest.ofList l).toList = l := by
  induction l with
  | nil => rfl
  | cons t ts ih => simp [Forest.ofList, Forest.toList, ih]

theorem allRefsT_setDef (n : Bytes) (c : Nat) (t : Tree) : allRefsT (setDef n c t) = innerRefs t := by
  cases t with
  | node v sp cs => simp [setDef, allRefsT, innerRefs, Tree.children]
theorem allDefsT_setDef (n : Bytes) (c : Nat) (t : Tree) : allDefsT (setDef n c t) = (n, c) :: innerDefs t := by
  cases t with
  | node v sp cs => simp [setDef, allDefsT, innerDefs, Tree.children]
theorem defInfo_setDef (n : Bytes) (c : Nat) (t : Tree) : defInfo (setDef n c t) = some (n, c) := by
  cases t with
  | node v sp cs => simp [setDef, defInfo]

/-! ### I1: what a slot of the definition table says -/
theorem buildTab_slot (N : LabelNorm) : ∀ (ds : List Tree) (i : Nat) (D0 : DefTab) (s : DefSlot),
    s ∈ buildTab N i ds D0 →
    s ∈ D0 ∨ ∃ j d, ds[j]? = some d ∧ s = ⟨N.fold (defLabel d), N.keep (defLabel d), i + j⟩ := by
  intro ds
  induction ds with
  | nil => intro i D0 s h; exact Or.inl (by simpa [buildTab] using h)
  | cons d ds ih =>
    intro i D0 s h
    simp only [buildTab] at h
    rcases ih (i + 1) _ s h with h1 | ⟨j, d', hj, hs⟩
    · simp only [DefTab.insert, List.mem_append, List.mem_filter, List.mem_singleton] at h1
      rcases h1 with h1 | h1
      · exact Or.inl h1.1
      · exact Or.inr ⟨0, d, by simp, by simpa using h1⟩
    · refine Or.inr ⟨j + 1, d', by simpa using hj, ?_⟩
      rw [hs]; congr 1; omega

theorem getSlot (N : LabelNorm) (outer : List Tree) (k : Bytes) (s : DefSlot)
    (h : (buildTab N 0 outer []).get? k = some s) :
    ∃ d, outer[s.pos]? = some d ∧ k = N.fold (defLabel d) ∧ s.name = N.keep (defLabel d) := by
  have hm := List.mem_of_find?_eq_some h
  have hk := List.find?_some h
  rcases buildTab_slot N outer 0 [] s hm with h1 | ⟨j, d, hj, hs⟩
  · simp at h1
  · refine ⟨d, ?_, ?_, ?_⟩
    · rw [hs]; simpa using hj
    · have : s.key = k := by simpa using hk
      rw [← this, hs]
    · rw [hs]

mutual
theorem resKeysT_isSome (N : LabelNorm) (D : DefTab) : ∀ (t : Tree) (k : Bytes), k ∈ resKeysT N D t →
    (D.get? k).isSome = true
  | .node v sp cs, k, h => by
    cases v
    case footnoteReference name rn ix =>
      simp only [resKeysT] at h
      split at h
      · rename_i hs; simp only [List.mem_singleton] at h; rw [h]; exact hs
      · simp at h
    all_goals
      simp only [resKeysT] at h
      exact resKeysF_isSome N D cs k h
theorem resKeysF_isSome (N : LabelNorm) (D : DefTab) : ∀ (f : Forest) (k : Bytes), k ∈ resKeysF N D f →
    (D.get? k).isSome = true
  | .nil, k, h => by simp [resKeysF] at h
  | .cons t ts, k, h => by
    simp only [resKeysF, List.mem_append] at h
    rcases h with h | h
    · exact resKeysT_isSome N D t k h
    · exact resKeysF_isSome N D ts k h
end

end Comrak
