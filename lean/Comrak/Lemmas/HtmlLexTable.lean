/-
Bridge from the token-level HTML model to bytes, part 5: the tag stack *with the table-section
flags* of the oracle `balancedBytes`.  `runO` is `balStep`'s stack discipline on abstract tag events
(`<thead>` / `<tbody>` only directly under `<table>`, each at most once per table); `RefO a b` says
that the event list `a` does on every flagged stack what the (shorter) list `b` does, whenever `b`
succeeds.  Generic lemmas: framing, simulation of the plain name stack `run` by `runO` for event
lists without `<thead>`/`<tbody>` start tags, and the step from `runO` to `balLoop` on lexed tokens.
-/
import Comrak.Lemmas.HtmlLexBal
import Comrak.Lemmas.HtmlLexFn
namespace Comrak
open Bytes

/-- Fresh stack entry. -/
def mkO (n : Bytes) : Open := ⟨n, false, false⟩

@[simp] theorem mkO_name (n : Bytes) : (mkO n).name = n := rfl

/-- Name of a table section element. -/
def isTS (n : Bytes) : Bool := n == S.t_thead || n == S.t_tbody

/-- `balStep` on tag events: the stack part (no void / footnote-section bookkeeping). -/
def stepO (stack : List Open) : Ev → Option (List Open)
  | .op n =>
    if isTS n then
      match stack with
      | top :: rest =>
        if top.name != S.t_table then none
        else if n == S.t_thead then
          (if top.thead then none else some (⟨n, false, false⟩ :: { top with thead := true } :: rest))
        else
          (if top.tbody then none else some (⟨n, false, false⟩ :: { top with tbody := true } :: rest))
      | [] => none
    else some (⟨n, false, false⟩ :: stack)
  | .cl n =>
    match stack with
    | [] => none
    | top :: rest => if top.name == n then some rest else none

def runO : List Open → List Ev → Option (List Open)
  | st, [] => some st
  | st, e :: r => (stepO st e).bind fun st' => runO st' r

@[simp] theorem runO_nil (S : List Open) : runO S [] = some S := rfl
theorem runO_cons (S : List Open) (e : Ev) (r : List Ev) :
    runO S (e :: r) = (stepO S e).bind fun S' => runO S' r := rfl

theorem runO_append (S : List Open) (a b : List Ev) :
    runO S (a ++ b) = (runO S a).bind fun S' => runO S' b := by
  induction a generalizing S with
  | nil => simp
  | cons e r ih =>
    simp only [List.cons_append, runO_cons]
    cases stepO S e with
    | none => simp
    | some S1 => simp [ih]

theorem runO_append_some {S S' : List Open} {a : List Ev} (b : List Ev) (h : runO S a = some S') :
    runO S (a ++ b) = runO S' b := by
  rw [runO_append, h]; rfl

theorem runO3 {S S1 S2 S3 : List Open} {a b c : List Ev}
    (h1 : runO S a = some S1) (h2 : runO S1 b = some S2) (h3 : runO S2 c = some S3) :
    runO S (a ++ b ++ c) = some S3 := by
  rw [List.append_assoc, runO_append_some _ h1, runO_append_some _ h2, h3]

theorem runO_append_inv {S Q : List Open} {a b : List Ev} (h : runO S (a ++ b) = some Q) :
    ∃ M, runO S a = some M ∧ runO M b = some Q := by
  rw [runO_append] at h
  cases hM : runO S a with
  | none => rw [hM] at h; simp at h
  | some M => rw [hM] at h; exact ⟨M, rfl, h⟩

/-! ### Framing -/

theorem stepO_frame {P Q : List Open} {e : Ev} (R : List Open) (h : stepO P e = some Q) :
    stepO (P ++ R) e = some (Q ++ R) := by
  cases e with
  | op n =>
    simp only [stepO] at h ⊢
    by_cases hts : isTS n = true
    · simp only [hts, if_true] at h ⊢
      cases P with
      | nil => simp at h
      | cons top rest =>
        simp only [List.cons_append] at h ⊢
        repeat' (split at h)
        all_goals (first | (simp at h; done) | skip)
        all_goals (simp only [Option.some.injEq] at h; subst h; simp_all)
    · simp only [hts] at h ⊢
      simp only [Bool.false_eq_true, if_false, Option.some.injEq] at h ⊢
      subst h; rfl
  | cl n =>
    simp only [stepO] at h ⊢
    cases P with
    | nil => simp at h
    | cons top rest =>
      simp only [List.cons_append] at h ⊢
      split at h
      · rename_i ht
        simp only [Option.some.injEq] at h
        simp [ht, h]
      · simp at h

/-- Whatever an event list does to a stack it does on top of any lower stack. -/
theorem runO_frame {P Q : List Open} {evs : List Ev} (R : List Open) (h : runO P evs = some Q) :
    runO (P ++ R) evs = some (Q ++ R) := by
  induction evs generalizing P with
  | nil => simp only [runO_nil, Option.some.injEq] at h; subst h; rfl
  | cons e r ih =>
    simp only [runO_cons] at h ⊢
    cases hs : stepO P e with
    | none => rw [hs] at h; simp at h
    | some P1 =>
      rw [hs] at h
      rw [stepO_frame R hs]
      exact ih h

/-! ### Events without table-section start tags -/

def noTSe : Ev → Bool
  | .op n => !isTS n
  | .cl _ => true

/-- Such events act on fresh entries exactly like on the plain name stack. -/
theorem runO_of_run_fresh (evs : List Ev) (h : evs.all noTSe = true) (p x : List Bytes)
    (hr : run p evs = some x) : runO (p.map mkO) evs = some (x.map mkO) := by
  induction evs generalizing p with
  | nil => simp only [run_nil, Option.some.injEq] at hr; subst hr; rfl
  | cons e r ih =>
    simp only [List.all_cons, Bool.and_eq_true] at h
    cases e with
    | op n =>
      have hn : isTS n = false := by simpa [noTSe] using h.1
      simp only [run_op] at hr
      simp only [runO_cons, stepO, hn, Bool.false_eq_true, if_false, Option.bind_some]
      exact ih h.2 (n :: p) hr
    | cl n =>
      cases p with
      | nil => simp [run] at hr
      | cons top st =>
        simp only [run] at hr
        by_cases ht : top = n
        · subst ht
          simp only [if_true] at hr
          simp only [runO_cons, stepO, List.map_cons, mkO_name, beq_self_eq_true, if_true, Option.bind_some]
          exact ih h.2 st hr
        · simp [ht] at hr

/-- On any flagged stack they follow the name stack (flags of surviving entries untouched). -/
theorem runO_of_run_names (evs : List Ev) (h : evs.all noTSe = true) (P : List Open) (x : List Bytes)
    (hr : run (P.map Open.name) evs = some x) : ∃ Q, runO P evs = some Q ∧ Q.map Open.name = x := by
  induction evs generalizing P with
  | nil => simp only [run_nil, Option.some.injEq] at hr; exact ⟨P, rfl, hr⟩
  | cons e r ih =>
    simp only [List.all_cons, Bool.and_eq_true] at h
    cases e with
    | op n =>
      have hn : isTS n = false := by simpa [noTSe] using h.1
      simp only [run_op] at hr
      simp only [runO_cons, stepO, hn, Bool.false_eq_true, if_false, Option.bind_some]
      exact ih h.2 (⟨n, false, false⟩ :: P) (by simpa using hr)
    | cl n =>
      cases P with
      | nil => simp [run] at hr
      | cons top st =>
        simp only [List.map_cons, run] at hr
        by_cases ht : top.name = n
        · simp only [ht, if_true] at hr
          simp only [runO_cons, stepO, ht, beq_self_eq_true, if_true, Option.bind_some]
          exact ih h.2 st hr
        · simp [ht] at hr

/-- Opening: from `run [] evs = some x` to any flagged stack. -/
theorem runO_opens (evs : List Ev) (h : evs.all noTSe = true) (x : List Bytes) (hr : run [] evs = some x)
    (S : List Open) : runO S evs = some (x.map mkO ++ S) := by
  have := runO_frame S (runO_of_run_fresh evs h [] x hr)
  simpa using this

/-- Closing: if the events pop exactly the names `c`, they pop any entries with these names. -/
theorem runO_closes (evs : List Ev) (h : evs.all noTSe = true) (P : List Open)
    (hr : run (P.map Open.name) evs = some []) (S : List Open) : runO (P ++ S) evs = some S := by
  obtain ⟨Q, h1, h2⟩ := runO_of_run_names evs h P [] hr
  have hQ : Q = [] := by simpa using h2
  subst hQ
  have := runO_frame S h1
  simpa using this

/-! ### Refinement of event lists -/

/-- `a` does what `b` does, on every stack on which `b` succeeds. -/
def RefO (a b : List Ev) : Prop := ∀ S Q, runO S b = some Q → runO S a = some Q

theorem RefO.refl (a : List Ev) : RefO a a := fun _ _ h => h

theorem RefO.append {a a' b b' : List Ev} (h1 : RefO a a') (h2 : RefO b b') : RefO (a ++ b) (a' ++ b') := by
  intro S Q h
  obtain ⟨M, m1, m2⟩ := runO_append_inv h
  rw [runO_append_some _ (h1 S M m1)]
  exact h2 M Q m2

theorem RefO.nil_keeps {a : List Ev} (h : RefO a []) (S : List Open) : runO S a = some S := h S S rfl

theorem RefO.of_keeps {a : List Ev} (h : ∀ S, runO S a = some S) : RefO a [] := by
  intro S Q hq
  simp only [runO_nil, Option.some.injEq] at hq
  subst hq; exact h S

/-! ### Tokens -/

def noTS : Tok → Bool
  | .op n _ => !isTS n
  | _ => true

theorem events_noTS (ts : List Tok) (h : ts.all noTS = true) : (events ts).all noTSe = true := by
  induction ts with
  | nil => rfl
  | cons t r ih =>
    simp only [List.all_cons, Bool.and_eq_true] at h
    rw [events_cons, List.all_append, ih h.2, Bool.and_true]
    cases t <;> simp_all [Tok.events, noTS, noTSe]

/-! ### From `runO` on events to `balLoop` on lexed tokens -/

theorem balStep_op_of_stepO (St St' : List Open) (fn : Nat) (n : Bytes) (as : List (Bytes × Option Bytes))
    (hv : voidNames.contains n = false)
    (hfn : (if isFootnoteSection n as then fn + 1 else fn) ≤ 1)
    (h : stepO St (.op n) = some St') :
    balStep St fn (.op n as) = .ok (St', if isFootnoteSection n as then fn + 1 else fn) := by
  have hfn' : ¬ (if isFootnoteSection n as then fn + 1 else fn) > 1 := by omega
  simp only [balStep, hv, Bool.false_eq_true, if_false, hfn']
  simp only [stepO, isTS] at h
  by_cases hts : (n == S.t_thead || n == S.t_tbody) = true
  · simp only [hts, if_true] at h ⊢
    cases St with
    | nil => simp at h
    | cons top rest =>
      simp only at h ⊢
      by_cases h1 : (top.name != S.t_table) = true
      · simp [h1] at h
      · simp only [h1, Bool.false_eq_true, if_false] at h ⊢
        by_cases h2 : (n == S.t_thead) = true
        · simp only [h2, if_true] at h ⊢
          by_cases h3 : top.thead = true
          · simp [h3] at h
          · simp only [h3, Bool.false_eq_true, if_false, Option.some.injEq] at h ⊢
            rw [h]
        · simp only [h2, Bool.false_eq_true, if_false] at h ⊢
          by_cases h3 : top.tbody = true
          · simp [h3] at h
          · simp only [h3, Bool.false_eq_true, if_false, Option.some.injEq] at h ⊢
            rw [h]
  · simp only [hts, Bool.false_eq_true, if_false, Option.some.injEq] at h ⊢
    rw [h]

theorem balLoop_textL (S : List Open) (fn : Nat) (pre : Bytes) (r : List LTok) :
    balLoop S fn (textL pre ++ r) = balLoop S fn r := by
  unfold textL
  split
  · rfl
  · simp [balLoop, balStep]

theorem balLoop_of_runO (ts : List Tok) (S : List Open) (fn : Nat) (pre : Bytes) (hv : ts.all voidOk = true)
    (hf : fn + fnCount ts ≤ 1) (h : runO S (events ts) = some []) :
    balLoop S fn (toLAux pre ts) = .ok () := by
  induction ts generalizing S fn pre with
  | nil =>
    have : S = [] := by simpa using h
    subst this
    have := balLoop_textL [] fn pre []
    simp only [List.append_nil] at this
    simp [toLAux, this, balLoop]
  | cons t r ih =>
    simp only [List.all_cons, Bool.and_eq_true] at hv
    rw [events_cons] at h
    rw [fnCount_cons] at hf
    cases t with
    | txt v => exact ih _ _ _ hv.2 (by simpa [fnSecTok] using hf) (by simpa [Tok.events] using h)
    | lit v => exact ih _ _ _ hv.2 (by simpa [fnSecTok] using hf) (by simpa [Tok.events] using h)
    | raw v => exact ih _ _ _ hv.2 (by simpa [fnSecTok] using hf) (by simpa [Tok.events] using h)
    | cmt =>
      simp only [toLAux, balLoop_textL, balLoop, balStep]
      exact ih _ _ _ hv.2 (by simpa [fnSecTok] using hf) (by simpa [Tok.events] using h)
    | vd n as =>
      have h1 : voidNames.contains n = true := by simpa [voidOk, isVoid] using hv.1
      simp only [toLAux, balLoop_textL, balLoop, balStep, h1, if_true]
      exact ih _ _ _ hv.2 (by simpa [fnSecTok] using hf) (by simpa [Tok.events] using h)
    | op n as =>
      have h1 : voidNames.contains n = false := by simpa [voidOk, isVoid] using hv.1
      simp only [Tok.events, List.singleton_append, runO_cons] at h
      cases hs : stepO S (.op n) with
      | none => rw [hs] at h; simp at h
      | some S' =>
        rw [hs] at h
        simp only [Option.bind_some] at h
        have hsec : fnSecTok (.op n as) = isFootnoteSection n (as.map lattr) := by
          simp [fnSecTok, isFootnoteSection, isSecName]
        rw [hsec] at hf
        have hle : (if isFootnoteSection n (as.map lattr) then fn + 1 else fn) ≤ 1 := by
          split <;> simp_all <;> omega
        simp only [toLAux, balLoop_textL, balLoop, balStep_op_of_stepO S S' fn n _ h1 hle hs]
        refine ih _ _ _ hv.2 ?_ h
        split <;> simp_all <;> omega
    | cl n =>
      simp only [Tok.events, List.singleton_append, runO_cons] at h
      cases S with
      | nil => simp [stepO] at h
      | cons top st =>
        simp only [stepO] at h
        by_cases ht : (top.name == n) = true
        · simp only [ht, if_true, Option.bind_some] at h
          simp only [toLAux, balLoop_textL, balLoop, balStep, ht, if_true]
          exact ih _ _ _ hv.2 (by simpa [fnSecTok] using hf) h
        · simp [ht] at h

end Comrak
