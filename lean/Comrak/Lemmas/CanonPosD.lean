/-
Positions of canonical documents, layer D: blocks whose lines stand in the source (`Emb`).
Part 1: spans of whole lines, and the blocks without block children.
-/
import Comrak.Lemmas.CanonPosC
namespace Comrak.Canon
open Comrak Bytes

/-! ### Lines of a block -/

theorem emb_get {G : List Bytes} {c0 : Nat} : ∀ (ls : List Bytes) (l c k : Nat), Emb G c0 l c ls → k < ls.length →
    nth ls k ≠ [] →
    1 ≤ l + k ∧ l + k ≤ G.length ∧ ∃ P, nth G (l + k - 1) = P ++ nth ls k ∧ P.length + 1 = (if k = 0 then c else c0)
  | [], _, _, _, _, h, _ => by simp at h
  | x :: rest, l, c, 0, he, _, hx => by
    simp only [nth] at hx
    obtain ⟨h1, h2, P, hP, hl⟩ := he.1 hx
    exact ⟨by omega, by omega, P, by simpa [nth] using hP, by simpa using hl⟩
  | x :: rest, l, c, k + 1, he, hk, hx => by
    simp only [nth] at hx
    obtain ⟨h1, h2, P, hP, hl⟩ := emb_get rest (l + 1) c0 k he.2 (by simpa using hk) hx
    refine ⟨by omega, by omega, P, ?_, ?_⟩
    · have e : l + (k + 1) - 1 = l + 1 + k - 1 := by omega
      rw [e]; simpa [nth] using hP
    · have : (if k = 0 then c0 else c0) = c0 := by split <;> rfl
      simpa [this] using hl

theorem emb_append {G : List Bytes} {c0 : Nat} : ∀ (xs ys : List Bytes) (l c : Nat), Emb G c0 l c (xs ++ ys) →
    Emb G c0 l c xs ∧ Emb G c0 (l + xs.length) (if xs.isEmpty then c else c0) ys
  | [], ys, l, c, h => ⟨trivial, by simpa using h⟩
  | x :: xs, ys, l, c, h => by
    obtain ⟨i1, i2⟩ := emb_append xs ys (l + 1) c0 h.2
    refine ⟨⟨h.1, i1⟩, ?_⟩
    have e : l + (x :: xs).length = l + 1 + xs.length := by simp; omega
    have : (if xs.isEmpty then c0 else c0) = c0 := by split <;> rfl
    rw [e]
    simpa [this] using i2

theorem getLastD_nth : ∀ (ls : List Bytes), ls.getLastD [] = nth ls (ls.length - 1)
  | [] => rfl
  | [x] => rfl
  | x :: y :: r => by
    have := getLastD_nth (y :: r)
    simp only [List.getLastD_cons] at this ⊢
    simp only [List.length_cons, Nat.add_sub_cancel, nth]
    simpa using this

/-- End position of a block written as the lines `ls`. -/
def endOf (l c0 c1 : Nat) (ls : List Bytes) : Pos :=
  (l + ls.length - 1, (if ls.length ≤ 1 then c1 else c0) - 1 + (ls.getLastD []).length)

section spans
variable (G : List Bytes)

local notation "LT" => lineEnts (joinLines G)
local notation "SRC" => joinLines G

/-- A block of one line. -/
theorem span_single (hG : cleanG G = true) (x : Bytes) (l c0 c : Nat) (hE : Emb G c0 l c [x]) (hx : x ≠ []) :
    Valid G (spanLines l c [x]) ∧ sliceLT LT SRC (spanLines l c [x]) = some x := by
  obtain ⟨h1, h2, P, hP, hl⟩ := hE.1 hx
  have hpos := List.length_pos_iff.mpr hx
  refine ⟨⟨h1, by simp [spanLines], by simpa [spanLines] using h2, by simp [spanLines]; omega, ?_, Or.inl ⟨?_, ?_⟩, ?_⟩, ?_⟩
  · simp only [spanLines, lenAt, hP, List.length_append]; omega
  · simp [spanLines]; omega
  · simp only [spanLines, lenAt, List.length_singleton, Nat.add_sub_cancel, hP, List.length_append, List.getLastD_cons,
      List.getLastD_nil]; omega
  · simp [spanLines]; omega
  · exact slice_line G hG l h1 h2 P x [] (by simpa using hP) _ rfl (by simp [spanLines]) (by simp [spanLines]; omega)
      (by simp [spanLines]; omega)

/-- A block of several lines (all written from column `c` on): its slice starts with the first
    line and ends with the last. -/
theorem span_multi (hG : cleanG G = true) (ls : List Bytes) (l c : Nat) (hE : Emb G c l c ls) (hn : 2 ≤ ls.length)
    (hf : nth ls 0 ≠ []) (hl : ls.getLastD [] ≠ []) :
    Valid G (spanLines l c ls) ∧
      ∃ mid, sliceLT LT SRC (spanLines l c ls) = some (nth ls 0 ++ 0x0A :: mid ++ ls.getLastD []) := by
  obtain ⟨a1, a2, P, hP, hPl⟩ := emb_get ls l c 0 hE (by omega) hf
  have hlast := getLastD_nth ls
  obtain ⟨b1, b2, Q, hQ, hQl⟩ := emb_get ls l c (ls.length - 1) hE (by omega) (by rw [← hlast]; exact hl)
  simp only [Nat.add_zero, if_true] at hP hPl a1 a2
  have hk : ¬ (ls.length - 1 = 0) := by omega
  simp only [hk, if_false] at hQl
  rw [← hlast] at hQ
  have e1 : l + (ls.length - 1) - 1 = l + ls.length - 1 - 1 := by omega
  rw [e1] at hQ
  have hp1 := List.length_pos_iff.mpr hf
  have hp2 := List.length_pos_iff.mpr hl
  refine ⟨⟨a1, by simp only [spanLines]; omega, by simp only [spanLines]; omega, by simp only [spanLines]; omega, ?_, Or.inl ⟨?_, ?_⟩,
    Or.inl (by simp only [spanLines]; omega)⟩, ?_⟩
  · simp only [spanLines, lenAt, hP, List.length_append]; omega
  · simp only [spanLines]; omega
  · simp only [spanLines, lenAt, hQ, List.length_append]; omega
  · have := slice_multi G hG (spanLines l c ls) a1 (by simp only [spanLines]; omega) (by simp only [spanLines]; omega)
      P (nth ls 0) (Q ++ ls.getLastD []) [] (by simpa only [spanLines] using hP) (by simpa only [spanLines, List.append_nil] using hQ)
      (by simp only [spanLines]; omega) (by simp only [spanLines, List.length_append]; omega)
    exact ⟨joinLines (List.drop (spanLines l c ls).sl (List.take ((spanLines l c ls).el - 1) G)) ++ Q,
      by rw [this]; simp⟩

/-- A slice that ends with the whole last line of its span ends where a line ends. -/
theorem atLineEnd_of (hG : cleanG G = true) (sp : Sp) (h1 : 1 ≤ sp.sl) (h2 : sp.sl ≤ sp.el) (h3 : sp.el ≤ G.length)
    (hc : sp.sc ≠ 0) (he : sp.ec = lenAt G sp.el) :
    sliceEndFail LT SRC .blockQuote sp = none := by
  have a1 := lineAt_join G hG sp.sl h1 (by omega)
  have a2 := lineAt_join G hG sp.el (by omega) h3
  simp only [sliceEndFail, spOffsets, a1, a2, hc, if_false]
  have hmem : (⟨offG G (sp.el - 1), (nth G (sp.el - 1)).length, 1⟩ : LineEnt) ∈ lineEnts (joinLines G) := by
    have h0 : sp.el ≠ 0 := by omega
    simp only [lineAt, h0, if_false] at a2
    exact List.mem_of_getElem? a2
  have : atLineEnd (lineEnts (joinLines G)) (joinLines G) (offG G (sp.el - 1) + sp.ec) = true := by
    simp only [atLineEnd, List.any_eq_true]
    refine ⟨_, hmem, ?_⟩
    simp only [he, lenAt]
    simp
  simp [this]

end spans

/-! ### Positions inside multi-line inline content -/

theorem adv_splitNl (c0 : Nat) : ∀ (s : Bytes) (l c : Nat),
    adv c0 (l, c) s = (l + (splitNl s).length - 1,
      (if (splitNl s).length ≤ 1 then c else c0) + ((splitNl s).getLastD []).length)
  | [], l, c => by simp [adv_nil, splitNl]
  | b :: r, l, c => by
    have hne := splitNl_ne_nil r
    have hpos : 0 < (splitNl r).length := List.length_pos_iff.mpr hne
    by_cases hb : b = 0x0A
    · subst hb
      rw [adv_cons, splitNl_nl]
      have : step c0 (l, c) 0x0A = (l + 1, c0) := by simp [step]
      rw [this, adv_splitNl c0 r (l + 1) c0]
      have e : (if (splitNl r).length ≤ 1 then c0 else c0) = c0 := by split <;> rfl
      have e2 : ¬ (([] : Bytes) :: splitNl r).length ≤ 1 := by simp; omega
      rw [e, if_neg e2]
      cases hs : splitNl r with
      | nil => exact absurd hs hne
      | cons x t => simp; omega
    · rw [adv_cons, splitNl_other b r hb]
      have : step c0 (l, c) b = (l, c + 1) := by simp [step, hb]
      rw [this, adv_splitNl c0 r l (c + 1)]
      cases hs : splitNl r with
      | nil => exact absurd hs hne
      | cons x t =>
        cases t with
        | nil => simp; omega
        | cons y t' => simp

theorem splitNl_append_nl : ∀ (d : Bytes), splitNl (d ++ [0x0A]) = splitNl d ++ [[]]
  | [] => by simp [splitNl]
  | x :: d => by
    have hne := splitNl_ne_nil d
    by_cases hx : x = 0x0A
    · subst hx
      rw [List.cons_append, splitNl_nl, splitNl_nl, splitNl_append_nl d]; rfl
    · rw [List.cons_append, splitNl_other x _ hx, splitNl_other x _ hx, splitNl_append_nl d]
      cases hq : splitNl d with
      | nil => exact absurd hq hne
      | cons y t => simp

/-- The last byte of inline content whose last line is not empty stands at the end of its lines. -/
theorem adv_dropLast_end (c0 : Nat) (s : Bytes) (l c : Nat) (h0 : 1 ≤ c0) (h1c : 1 ≤ c) (hl : (splitNl s).getLastD [] ≠ []) :
    adv c0 (l, c) s.dropLast = endOf l c0 c (splitNl s) := by
  have hs : s ≠ [] := by
    intro e; subst e; simp [splitNl] at hl
  obtain ⟨b, hb⟩ := dropLast_append_last s hs
  have h1 := adv_splitNl c0 s l c
  have hbn : b ≠ 0x0A := by
    intro e
    subst e
    rw [hb, splitNl_append_nl] at hl
    simp at hl
  have h2 : adv c0 (l, c) s = step c0 (adv c0 (l, c) s.dropLast) b := by
    conv => lhs; rw [hb]
    rw [adv_append]; rfl
  rw [h1] at h2
  have hpos := List.length_pos_iff.mpr hl
  simp only [step, hbn, if_false] at h2
  obtain ⟨e1, e2⟩ := Prod.mk.inj h2
  simp only [endOf]
  apply Prod.ext
  · simp only; omega
  · simp only
    by_cases hc : (splitNl s).length ≤ 1
    · simp only [hc, if_true] at e2 ⊢; omega
    · simp only [hc, if_false] at e2 ⊢; omega

end Comrak.Canon
