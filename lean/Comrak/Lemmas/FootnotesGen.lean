/-
C15 (footnotes), general theorems, part 3: the hypotheses (decidable predicates on the input tree), the shape of
`processFootnotes N t`, and the four clauses.
-/
import Comrak.Lemmas.FootnotesTree
namespace Comrak
open Bytes

/-! ### Names for the pieces of the pass on an input `t` -/
def fnD (N : LabelNorm) (t : Tree) : DefTab := buildTab N 0 (outerDefsF t.children) []
def fnKeys (N : LabelNorm) (t : Tree) : List Bytes := resKeysF N (fnD N t) t.children
def fnFin (N : LabelNorm) (t : Tree) : NSt := runKeys {} (fnKeys N t)
def fnNumbered (N : LabelNorm) (t : Tree) : Forest := (numberF N (fnD N t) t.children {}).1
def fnOuter' (N : LabelNorm) (t : Tree) : List Tree := outerDefsF (fnNumbered N t)
def fnO (N : LabelNorm) (t : Tree) (k : Bytes) : Tree := ((fnOuter' N t)[posOf (fnD N t) k]?).getD default

/-! ### The hypotheses -/
def isRefValue : NodeValue → Bool
  | .footnoteReference .. => true
  | _ => false

/-- The root is neither a definition (the pass leaves such a tree alone) nor a reference (never walked). -/
def rootPlain (t : Tree) : Bool := !isDefValue t.value && !isRefValue t.value

/-- No definition is nested in a definition (`find_footnote_definitions` would not see it). -/
def noNestedDefs (t : Tree) : Bool := (outerDefsF t.children).all fun d => (innerDefs d).isEmpty

/-- The `i`-th outermost definition `d` is dropped by the pass: a later definition with the same folded label
    holds the slot, or no resolvable reference anywhere in the tree has that folded label. -/
def droppedAt (N : LabelNorm) (t : Tree) (i : Nat) (d : Tree) : Bool :=
  match (fnD N t).get? (N.fold (defLabel d)) with
  | some s => s.pos != i || !(fnKeys N t).contains s.key
  | none => true

/-- No resolvable reference sits inside a definition that is dropped (unresolvable ones are harmless: they
    become text). -/
def noRefInDropped (N : LabelNorm) (t : Tree) : Bool :=
  (outerDefsF t.children).zipIdx.all fun (d, i) =>
    !droppedAt N t i d || (resKeysF N (fnD N t) d.children).isEmpty

/-- On the labels of the definitions, `keep`-equal implies `fold`-equal (true of `normalize_label`, whose folded
    form is a function of the preserved form). -/
def labelsCompat (N : LabelNorm) (t : Tree) : Bool :=
  ((outerDefsF t.children).map defLabel).all fun a =>
    ((outerDefsF t.children).map defLabel).all fun b => N.keep a != N.keep b || N.fold a == N.fold b

/-! ### Shape of the output -/

theorem filterMap_eq_map_of {α β} (F : α → Option β) (G : α → β) (l : List α)
    (h : ∀ x ∈ l, F x = some (G x)) : l.filterMap F = l.map G := by
  induction l with
  | nil => rfl
  | cons a l ih =>
    rw [List.filterMap_cons, h a (by simp), List.map_cons, ih (fun x hx => h x (by simp [hx]))]

theorem leafRefs_children (t : Tree) (hr : rootPlain t = true) (hl : leafRefsT t = true) :
    leafRefsF t.children = true := by
  obtain ⟨v, sp, cs⟩ := t
  cases v <;> simp_all [rootPlain, Tree.value, isRefValue, isDefValue, leafRefsT, Tree.children]

theorem fnFin_eq (N : LabelNorm) (t : Tree) (hr : rootPlain t = true) (hl : leafRefsT t = true) :
    (numberF N (fnD N t) t.children {}).2 = fnFin N t :=
  (numberF_keys N (fnD N t) t.children {} (leafRefs_children t hr hl)).1

theorem fnRefs_eq (N : LabelNorm) (t : Tree) (hr : rootPlain t = true) (hl : leafRefsT t = true) :
    allRefsF (fnNumbered N t) = emitKeys (fnD N t) {} (fnKeys N t) :=
  (numberF_keys N (fnD N t) t.children {} (leafRefs_children t hr hl)).2

theorem fnOuter'_length (N : LabelNorm) (t : Tree) : (fnOuter' N t).length = (outerDefsF t.children).length := by
  have := congrArg List.length (numberF_outerA N (fnD N t) t.children {})
  simpa [fnOuter', fnNumbered] using this

theorem fnSeen_mem (N : LabelNorm) (t : Tree) (k : Bytes) : k ∈ (fnFin N t).seen ↔ k ∈ fnKeys N t := by
  simp [fnFin, runKeys_seen_mem]

theorem fnSeen_nodup (N : LabelNorm) (t : Tree) : (fnFin N t).seen.Nodup :=
  runKeys_nodup {} _ (by simp)

/-- Every numbered key has a slot, and the slot describes an outermost definition. -/
theorem fnSlot (N : LabelNorm) (t : Tree) (k : Bytes) (hk : k ∈ (fnFin N t).seen) :
    ∃ s d, (fnD N t).get? k = some s ∧ (outerDefsF t.children)[s.pos]? = some d ∧
      k = N.fold (defLabel d) ∧ s.name = N.keep (defLabel d) := by
  have h1 := resKeysF_isSome N (fnD N t) t.children k ((fnSeen_mem N t k).mp hk)
  cases hs : (fnD N t).get? k with
  | none => simp [hs] at h1
  | some s =>
    obtain ⟨d, h2, h3, h4⟩ := getSlot N _ k s hs
    exact ⟨s, d, rfl, h2, h3, h4⟩

theorem fnPos_lt (N : LabelNorm) (t : Tree) (k : Bytes) (hk : k ∈ (fnFin N t).seen) :
    posOf (fnD N t) k < (fnOuter' N t).length := by
  obtain ⟨s, d, h1, h2, _, _⟩ := fnSlot N t k hk
  rw [fnOuter'_length]
  simp only [posOf, h1]
  by_cases h : s.pos < (outerDefsF t.children).length
  · exact h
  · rw [List.getElem?_eq_none (by omega)] at h2; cases h2

/-- The output of the pass: the stripped numbered forest, then one renamed definition per numbered key. -/
theorem process_shape (N : LabelNorm) (t : Tree) (hr : rootPlain t = true) (hl : leafRefsT t = true) :
    processFootnotes N t = .node t.value t.sp ((stripF (fnNumbered N t)).append (Forest.ofList
      ((fnFin N t).seen.map fun k => setDef (nameOf (fnD N t) k) ((fnFin N t).hist.count k) (fnO N t k)))) := by
  have hfin := fnFin_eq N t hr hl
  have hused : usedDefs (fnD N t) (fnOuter' N t) (fnFin N t) =
      (fnFin N t).seen.map fun k => setDef (nameOf (fnD N t) k) ((fnFin N t).hist.count k) (fnO N t k) := by
    unfold usedDefs
    apply filterMap_eq_map_of
    intro k hk
    obtain ⟨s, d, h1, _, _, _⟩ := fnSlot N t k hk
    have hlt := fnPos_lt N t k hk
    simp only [posOf, h1] at hlt
    simp only [h1, nameOf, fnO, posOf, List.getElem?_eq_getElem hlt, Option.map_some, Option.getD_some]
  obtain ⟨v, sp, cs⟩ := t
  have hv : isDefValue v = false := by
    simp only [rootPlain, Tree.value, Bool.and_eq_true, Bool.not_eq_true'] at hr; exact hr.1
  simp only [fnD, fnNumbered, fnOuter', Tree.children, Tree.value, Tree.sp] at hfin hused ⊢
  simp only [processFootnotes, hv, Bool.false_eq_true, if_false, hfin, hused]

theorem out_rootDefs (N : LabelNorm) (t : Tree) (hr : rootPlain t = true) (hl : leafRefsT t = true) :
    rootDefs (processFootnotes N t) =
      (fnFin N t).seen.map fun k => (nameOf (fnD N t) k, (fnFin N t).hist.count k) := by
  rw [process_shape N t hr hl, rootDefs_eq, toList_append, toList_ofList, List.filterMap_append, stripF_top,
    List.nil_append, List.filterMap_map]
  apply filterMap_eq_map_of
  intro k _
  simp [defInfo_setDef]

theorem allRefsT_plain (v : NodeValue) (sp : Sp) (cs : Forest) (h : isRefValue v = false) :
    allRefsT (.node v sp cs) = allRefsF cs := by
  cases v <;> simp_all [isRefValue, allRefsT]

theorem allDefsT_plain (v : NodeValue) (sp : Sp) (cs : Forest) (h : isDefValue v = false) :
    allDefsT (.node v sp cs) = allDefsF cs := by
  cases v <;> simp_all [isDefValue, allDefsT]

theorem out_allRefs (N : LabelNorm) (t : Tree) (hr : rootPlain t = true) (hl : leafRefsT t = true) :
    allRefsT (processFootnotes N t) =
      allRefsF (stripF (fnNumbered N t)) ++ (fnFin N t).seen.flatMap fun k => innerRefs (fnO N t k) := by
  have hv : isRefValue t.value = false := by
    simp only [rootPlain, Bool.and_eq_true, Bool.not_eq_true'] at hr; exact hr.2
  rw [process_shape N t hr hl, allRefsT_plain _ _ _ hv, allRefsF_append, allRefsF_ofList, List.flatMap_map]
  simp only [allRefsT_setDef]

theorem out_allDefs (N : LabelNorm) (t : Tree) (hr : rootPlain t = true) (hl : leafRefsT t = true) :
    allDefsT (processFootnotes N t) =
      (fnFin N t).seen.flatMap fun k =>
        (nameOf (fnD N t) k, (fnFin N t).hist.count k) :: innerDefs (fnO N t k) := by
  have hv : isDefValue t.value = false := by
    simp only [rootPlain, Bool.and_eq_true, Bool.not_eq_true'] at hr; exact hr.1
  rw [process_shape N t hr hl, allDefsT_plain _ _ _ hv, allDefsF_append, allDefsF_ofList, stripF_noDefs,
    List.nil_append, List.flatMap_map]
  simp only [allDefsT_setDef]

/-- `fnO` is an outermost definition of the numbered forest, or the (empty) default tree. -/
theorem fnO_cases (N : LabelNorm) (t : Tree) (k : Bytes) :
    fnO N t k ∈ fnOuter' N t ∨ fnO N t k = default := by
  unfold fnO
  cases h : (fnOuter' N t)[posOf (fnD N t) k]? with
  | none => right; rfl
  | some d => left; exact List.mem_of_getElem? h

theorem innerRefs_default : innerRefs (default : Tree) = [] := rfl
theorem innerDefs_default : innerDefs (default : Tree) = [] := rfl

/-- Every reference of the output is one the walk wrote. -/
theorem out_refs_sub (N : LabelNorm) (t : Tree) (hr : rootPlain t = true) (hl : leafRefsT t = true)
    (r : Bytes × Nat × Nat) (h : r ∈ allRefsT (processFootnotes N t)) :
    r ∈ emitKeys (fnD N t) {} (fnKeys N t) := by
  rw [← fnRefs_eq N t hr hl]
  have hleaf : leafRefsF (fnNumbered N t) = true :=
    numberF_leaf N _ _ _ (leafRefs_children t hr hl)
  have hp := stripF_refs (fnNumbered N t) hleaf
  rw [hp.mem_iff, List.mem_append]
  rw [out_allRefs N t hr hl, List.mem_append] at h
  rcases h with h | h
  · exact Or.inl h
  · right
    rw [List.mem_flatMap] at h ⊢
    obtain ⟨k, _, hk⟩ := h
    rcases fnO_cases N t k with h1 | h1
    · exact ⟨_, h1, hk⟩
    · rw [h1, innerRefs_default] at hk; cases hk

/-! ### Re-attaching loses no reference when no resolvable reference sits in a dropped definition -/

theorem flatMap_eq_range {α β} (g : α → List β) (d : α) (l : List α) :
    l.flatMap g = (List.range l.length).flatMap (fun i => g (l[i]?.getD d)) := by
  induction l with
  | nil => rfl
  | cons a l ih =>
    rw [List.length_cons, List.range_succ_eq_map, List.flatMap_cons, List.flatMap_cons, List.flatMap_map, ih]
    simp

theorem flatMap_filter_of_nil {α β} (G : α → List β) (p : α → Bool) (l : List α)
    (h : ∀ x ∈ l, p x = false → G x = []) : l.flatMap G = (l.filter p).flatMap G := by
  induction l with
  | nil => rfl
  | cons a l ih =>
    have ih' := ih (fun x hx => h x (by simp [hx]))
    cases hp : p a with
    | true => simp [hp, ih']
    | false => simp [hp, ih', h a (by simp) hp]

theorem flatMap_perm_range {β} (G : Nat → List β) (P : List Nat) (m : Nat) (hP : P.Nodup)
    (hlt : ∀ p ∈ P, p < m) (h0 : ∀ i, i < m → i ∉ P → G i = []) :
    (P.flatMap G).Perm ((List.range m).flatMap G) := by
  rw [flatMap_filter_of_nil G (fun i => decide (i ∈ P)) (List.range m)
    (fun x hx hp => h0 x (by simpa using hx) (by simpa using hp))]
  apply List.Perm.flatMap_right
  rw [List.perm_ext_iff_of_nodup hP (List.Nodup.sublist List.filter_sublist List.nodup_range)]
  intro a
  simp only [List.mem_filter, List.mem_range, decide_eq_true_eq]
  exact ⟨fun h => ⟨hlt a h, h⟩, fun h => h.2⟩

theorem posOf_inj (N : LabelNorm) (t : Tree) (k1 k2 : Bytes) (h1 : k1 ∈ (fnFin N t).seen)
    (h2 : k2 ∈ (fnFin N t).seen) (h : posOf (fnD N t) k1 = posOf (fnD N t) k2) : k1 = k2 := by
  obtain ⟨s1, d1, a1, b1, c1, _⟩ := fnSlot N t k1 h1
  obtain ⟨s2, d2, a2, b2, c2, _⟩ := fnSlot N t k2 h2
  simp only [posOf, a1, a2] at h
  rw [h, b2] at b1
  have : d2 = d1 := Option.some.inj b1
  rw [c1, c2, this]

theorem out_refs_perm (N : LabelNorm) (t : Tree) (hr : rootPlain t = true) (hl : leafRefsT t = true)
    (hd : noRefInDropped N t = true) :
    (allRefsT (processFootnotes N t)).Perm (emitKeys (fnD N t) {} (fnKeys N t)) := by
  rw [← fnRefs_eq N t hr hl, out_allRefs N t hr hl]
  have hleafC := leafRefs_children t hr hl
  have hleaf : leafRefsF (fnNumbered N t) = true := numberF_leaf N _ _ _ hleafC
  refine List.Perm.trans ?_ (stripF_refs (fnNumbered N t) hleaf).symm
  apply List.Perm.append_left
  -- positions
  let G : Nat → List (Bytes × Nat × Nat) := fun i => innerRefs ((fnOuter' N t)[i]?.getD default)
  have e1 : ((fnFin N t).seen.flatMap fun k => innerRefs (fnO N t k))
      = ((fnFin N t).seen.map (posOf (fnD N t))).flatMap G := by
    rw [List.flatMap_map]; rfl
  have e2 : (outerDefsF (fnNumbered N t)).flatMap innerRefs = (List.range (fnOuter' N t).length).flatMap G :=
    flatMap_eq_range innerRefs default (fnOuter' N t)
  rw [e1, e2]
  apply flatMap_perm_range
  · -- distinct keys sit at distinct positions
    rw [List.Nodup, List.pairwise_map]
    exact List.Pairwise.imp_of_mem (fun ha hb hne hp => hne (posOf_inj N t _ _ ha hb hp)) (fnSeen_nodup N t)
  · intro p hp
    obtain ⟨k, hk, rfl⟩ := List.mem_map.mp hp
    exact fnPos_lt N t k hk
  · intro i hi hnot
    -- the i-th outermost definition is not re-attached: it is dropped, so nothing in it resolves
    have hB := numberF_outerB N (fnD N t) t.children {} hleafC
    have hBi := congrArg (fun l => l[i]?) hB
    simp only [List.getElem?_map] at hBi
    have hi' : i < (outerDefsF t.children).length := by rw [← fnOuter'_length N t]; exact hi
    have g1 : (outerDefsF (numberF N (fnD N t) t.children {}).1)[i]? = some (fnOuter' N t)[i] := by
      simp only [fnOuter', fnNumbered] at hi ⊢; exact List.getElem?_eq_getElem hi
    rw [g1, List.getElem?_eq_getElem hi'] at hBi
    simp only [Option.map_some, Option.some.injEq] at hBi
    show innerRefs ((fnOuter' N t)[i]?.getD default) = []
    rw [List.getElem?_eq_getElem hi, Option.getD_some]
    cases hE : (innerRefs (fnOuter' N t)[i]).isEmpty with
    | true => simpa using hE
    | false =>
      exfalso
      rw [hE] at hBi
      -- hypothesis at (d, i)
      simp only [noRefInDropped, List.all_eq_true] at hd
      have hmem : ((outerDefsF t.children)[i], i) ∈ (outerDefsF t.children).zipIdx := by
        rw [List.mem_zipIdx_iff_getElem?]; exact List.getElem?_eq_getElem hi'
      have hdi := hd _ hmem
      simp only [← hBi, Bool.or_false, Bool.not_eq_true'] at hdi
      -- not dropped: the slot of its label is at `i` and the key is referenced
      unfold droppedAt at hdi
      cases hs : (fnD N t).get? (N.fold (defLabel (outerDefsF t.children)[i])) with
      | none => simp [hs] at hdi
      | some s =>
        simp only [hs, Bool.or_eq_false_iff, bne_eq_false_iff_eq, Bool.not_eq_false', List.contains_iff_mem] at hdi
        have hkey : s.key = N.fold (defLabel (outerDefsF t.children)[i]) := by
          simpa using List.find?_some hs
        have hs' : (fnD N t).get? s.key = some s := by rw [hkey]; exact hs
        apply hnot
        rw [List.mem_map]
        exact ⟨s.key, (fnSeen_mem N t _).mpr hdi.2, by simp [posOf, hs', hdi.1]⟩

/-! ### The four clauses -/

theorem fnHist_count (N : LabelNorm) (t : Tree) (k : Bytes) : (fnFin N t).hist.count k = (fnKeys N t).count k := by
  simp [fnFin, runKeys_hist, List.count_reverse]

/-- Clause 1: every reference carries the number and name of a definition under the root. -/
theorem refsPointOk_gen (N : LabelNorm) (t : Tree) (hr : rootPlain t = true) (hl : leafRefsT t = true) :
    refsPointOk N (processFootnotes N t) = true := by
  simp only [refsPointOk, List.all_eq_true]
  intro r hrm
  obtain ⟨k, hk, hname, hix⟩ := emitKeys_point (fnD N t) _ _ r (out_refs_sub N t hr hl r hrm)
  change k ∈ (fnFin N t).seen at hk
  change r.2.2 = (fnFin N t).seen.idxOf k + 1 at hix
  have hlt := List.idxOf_lt_length_of_mem hk
  rw [out_rootDefs N t hr hl, hix]
  simp only [Nat.add_sub_cancel, List.getElem?_map, List.getElem?_eq_getElem hlt, List.getElem_idxOf hlt,
    Option.map_some, hname, beq_self_eq_true, Bool.and_true, decide_eq_true_eq]
  omega

/-- The `ref_num`s of the output references numbered `i+1` are a permutation of `1 .. count`. -/
theorem out_nums_perm (N : LabelNorm) (t : Tree) (hr : rootPlain t = true) (hl : leafRefsT t = true)
    (hd : noRefInDropped N t = true) (i : Nat) (k : Bytes) (hk : (fnFin N t).seen[i]? = some k) :
    (((allRefsT (processFootnotes N t)).filter fun r => r.2.2 == i + 1).map (·.2.1)).Perm
      (List.range' 1 ((fnKeys N t).count k)) := by
  obtain ⟨hi, hki⟩ := List.getElem?_eq_some_iff.mp hk
  have hmem : k ∈ (fnFin N t).seen := List.mem_of_getElem? hk
  have hidx : (fnFin N t).seen.idxOf k = i := by
    rw [← hki]; exact (fnSeen_nodup N t).idxOf_getElem i hi
  have key := emitKeys_nums (fnD N t) (fnKeys N t) {} k hmem
  change (((emitKeys (fnD N t) {} (fnKeys N t)).filter fun r => r.2.2 == (fnFin N t).seen.idxOf k + 1).map (·.2.1))
      = List.range' (([] : List Bytes).count k + 1) ((fnKeys N t).count k) at key
  rw [hidx] at key
  simp only [List.count_nil, Nat.zero_add] at key
  rw [← key]
  exact ((out_refs_perm N t hr hl hd).filter _).map _

/-- Clause 3: for each rendered definition the references carrying its number have `ref_num` 1 .. total. -/
theorem refNumsOk_gen (N : LabelNorm) (t : Tree) (hr : rootPlain t = true) (hl : leafRefsT t = true)
    (hd : noRefInDropped N t = true) : refNumsOk (processFootnotes N t) = true := by
  simp only [refNumsOk, List.all_eq_true]
  intro ⟨d, i⟩ hmem
  rw [List.mem_zipIdx_iff_getElem?, out_rootDefs N t hr hl, List.getElem?_map] at hmem
  simp only at hmem
  cases hk : (fnFin N t).seen[i]? with
  | none => simp [hk] at hmem
  | some k =>
    simp only [hk, Option.map_some, Option.some.injEq] at hmem
    have hp := out_nums_perm N t hr hl hd i k hk
    subst hmem
    simp only [fnHist_count, Bool.and_eq_true, beq_iff_eq, List.all_eq_true, List.contains_iff_mem]
    refine ⟨by rw [hp.length_eq, List.length_range'], ?_⟩
    intro x hx
    exact hp.mem_iff.mpr hx

/-- Clause 4: every rendered definition is referenced from the output, and no other definition is rendered. -/
theorem unreferencedOmittedOk_gen (N : LabelNorm) (t : Tree) (hr : rootPlain t = true) (hl : leafRefsT t = true)
    (hn : noNestedDefs t = true) (hd : noRefInDropped N t = true) :
    unreferencedOmittedOk (processFootnotes N t) = true := by
  simp only [unreferencedOmittedOk, Bool.and_eq_true, List.all_eq_true]
  constructor
  · intro ⟨d, i⟩ hmem
    rw [List.mem_zipIdx_iff_getElem?, out_rootDefs N t hr hl, List.getElem?_map] at hmem
    simp only at hmem
    cases hk : (fnFin N t).seen[i]? with
    | none => simp [hk] at hmem
    | some k =>
      have hp := out_nums_perm N t hr hl hd i k hk
      have hkm : k ∈ fnKeys N t := (fnSeen_mem N t k).mp (List.mem_of_getElem? hk)
      have hc : 0 < (fnKeys N t).count k := List.count_pos_iff.mpr hkm
      have h1 : 1 ∈ List.range' 1 ((fnKeys N t).count k) := by
        rw [List.mem_range']; exact ⟨0, hc, by simp⟩
      have h2 := hp.mem_iff.mpr h1
      rw [List.mem_map] at h2
      obtain ⟨r, hrf, _⟩ := h2
      rw [List.mem_filter] at hrf
      simp only [List.any_eq_true]
      exact ⟨r, hrf.1, hrf.2⟩
  · -- no stray definitions
    simp only [noStrayDefs, beq_iff_eq]
    rw [out_allDefs N t hr hl, out_rootDefs N t hr hl]
    have hnil : ∀ k, innerDefs (fnO N t k) = [] := by
      intro k
      rcases fnO_cases N t k with h | h
      · have hA := numberF_outerA N (fnD N t) t.children {}
        have hm : (defLabel (fnO N t k), innerDefs (fnO N t k)) ∈
            (outerDefsF (numberF N (fnD N t) t.children {}).1).map (fun d => (defLabel d, innerDefs d)) :=
          List.mem_map.mpr ⟨_, h, rfl⟩
        rw [hA, List.mem_map] at hm
        obtain ⟨d, hd1, hd2⟩ := hm
        simp only [noNestedDefs, List.all_eq_true] at hn
        have := hn d hd1
        simp only [Prod.mk.injEq] at hd2
        rw [← hd2.2]; simpa using this
      · rw [h]; rfl
    simp only [hnil, List.length_map]
    induction (fnFin N t).seen with
    | nil => rfl
    | cons a l ih => simp [List.flatMap_cons, ih]

/-- With no nested definition every definition of the output is one of the re-attached ones. -/
theorem out_allDefs_flat (N : LabelNorm) (t : Tree) (hr : rootPlain t = true) (hl : leafRefsT t = true)
    (hn : noNestedDefs t = true) :
    (allDefsT (processFootnotes N t)).map (·.1) = (fnFin N t).seen.map (nameOf (fnD N t)) := by
  rw [out_allDefs N t hr hl]
  have hnil : ∀ k, innerDefs (fnO N t k) = [] := by
    intro k
    rcases fnO_cases N t k with h | h
    · have hA := numberF_outerA N (fnD N t) t.children {}
      have hm : (defLabel (fnO N t k), innerDefs (fnO N t k)) ∈
          (outerDefsF (numberF N (fnD N t) t.children {}).1).map (fun d => (defLabel d, innerDefs d)) :=
        List.mem_map.mpr ⟨_, h, rfl⟩
      rw [hA, List.mem_map] at hm
      obtain ⟨d, hd1, hd2⟩ := hm
      simp only [noNestedDefs, List.all_eq_true] at hn
      have := hn d hd1
      simp only [Prod.mk.injEq] at hd2
      rw [← hd2.2]; simpa using this
    · rw [h]; rfl
  simp only [hnil]
  induction (fnFin N t).seen with
  | nil => rfl
  | cons a l ih => simp [List.flatMap_cons, ih]

/-- Clause 2: no definition name is rendered twice. -/
theorem defsOnceOk_gen (N : LabelNorm) (t : Tree) (hr : rootPlain t = true) (hl : leafRefsT t = true)
    (hn : noNestedDefs t = true) (hc : labelsCompat N t = true) :
    defsOnceOk (processFootnotes N t) = true := by
  simp only [defsOnceOk, decide_eq_true_eq]
  rw [out_allDefs_flat N t hr hl hn, List.Nodup, List.pairwise_map]
  refine List.Pairwise.imp_of_mem ?_ (fnSeen_nodup N t)
  intro k1 k2 h1 h2 hne hname
  apply hne
  obtain ⟨s1, d1, a1, b1, c1, e1⟩ := fnSlot N t k1 h1
  obtain ⟨s2, d2, a2, b2, c2, e2⟩ := fnSlot N t k2 h2
  simp only [nameOf, a1, a2, e1, e2] at hname
  simp only [labelsCompat, List.all_eq_true, List.mem_map, forall_exists_index, and_imp,
    forall_apply_eq_imp_iff₂] at hc
  have := hc d1 (List.mem_of_getElem? b1) d2 (List.mem_of_getElem? b2)
  simp only [hname, bne_self_eq_false, Bool.false_or, beq_iff_eq] at this
  rw [c1, c2, this]

/-! ### Witness trees for the general theorems -/

/-- `x[^a] [^B] [^a] [^q]` / `[^b]: B[^a]` / `[^a]: old[^zz]` / `[^A]: A` / `[^c]: C`:
    case variants, a reference inside a live definition, an unresolved name, a definition shadowed by a later
    duplicate (holding only an unresolvable reference) and an unreferenced definition. -/
def W.clean2 : Tree :=
  W.doc [W.para [W.tx [0x78], W.rf [0x61], W.rf [0x42], W.rf [0x61], W.rf [0x71]],
         W.dfn [0x62] [W.para [W.tx [0x42], W.rf [0x61]]],
         W.dfn [0x61] [W.para [W.tx [0x6F], W.rf [0x7A, 0x7A]]],
         W.dfn [0x41] [W.para [W.tx [0x41]]],
         W.dfn [0x63] [W.para [W.tx [0x43]]]]

/-- An (unresolvable) reference node with a reference node below it - never built by the inline parser. -/
def W.leafBad : Tree :=
  W.doc [W.para [.node (.footnoteReference [0x71] 0 0) {} (Forest.ofList [W.rf [0x61]])],
         W.dfn [0x61] [W.para [W.tx [0x41]]]]

/-- A tree whose root is a definition: the pass leaves it alone. -/
def W.rootDef : Tree := W.dfn [0x61] [W.para [W.rf [0x61]]]

/-- `x` / `[^b]: B[^a]` / `[^a]: A`: `a` is referenced only from `b`, which is dropped. -/
def W.onlyFromDropped : Tree :=
  W.doc [W.para [W.tx [0x78]], W.dfn [0x62] [W.para [W.tx [0x42], W.rf [0x61]]], W.dfn [0x61] [W.para [W.tx [0x41]]]]

/-- A normaliser whose preserved form forgets what the folded form distinguishes. -/
def constKeepNorm : LabelNorm := ⟨id, fun _ => []⟩

/-- `[^a] [^b]` / `[^a]: A` / `[^b]: B`. -/
def W.two : Tree :=
  W.doc [W.para [W.rf [0x61], W.rf [0x62]], W.dfn [0x61] [W.para [W.tx [0x41]]], W.dfn [0x62] [W.para [W.tx [0x42]]]]

end Comrak
