/-
Helper lemmas for the link-array model of arena_tree (Comrak/ArenaTree.lean): what each `Cell::set` does to
each field, the field-wise effect of `detach`, segment lemmas for `NextChain` / `PrevChain`, and uniqueness
of the represented forest (`Repr a kids -> children a = kids`).
-/
import Comrak.ArenaTree
namespace Comrak.ArenaTree

section setters
variable (a : Arena) (i j : Nat) (v : Option Nat)

@[simp] theorem setParent_size : (setParent a i v).size = a.size := rfl
@[simp] theorem setPrev_size : (setPrev a i v).size = a.size := rfl
@[simp] theorem setNext_size : (setNext a i v).size = a.size := rfl
@[simp] theorem setFirst_size : (setFirst a i v).size = a.size := rfl
@[simp] theorem setLast_size : (setLast a i v).size = a.size := rfl

@[simp] theorem setParent_parent : ((setParent a i v).node j).parent = if j = i then v else (a.node j).parent := by
  simp only [setParent]; split <;> rfl
@[simp] theorem setParent_prev : ((setParent a i v).node j).prev = (a.node j).prev := by
  simp only [setParent]; split <;> rfl
@[simp] theorem setParent_next : ((setParent a i v).node j).next = (a.node j).next := by
  simp only [setParent]; split <;> rfl
@[simp] theorem setParent_first : ((setParent a i v).node j).first = (a.node j).first := by
  simp only [setParent]; split <;> rfl
@[simp] theorem setParent_last : ((setParent a i v).node j).last = (a.node j).last := by
  simp only [setParent]; split <;> rfl

@[simp] theorem setPrev_parent : ((setPrev a i v).node j).parent = (a.node j).parent := by
  simp only [setPrev]; split <;> rfl
@[simp] theorem setPrev_prev : ((setPrev a i v).node j).prev = if j = i then v else (a.node j).prev := by
  simp only [setPrev]; split <;> rfl
@[simp] theorem setPrev_next : ((setPrev a i v).node j).next = (a.node j).next := by
  simp only [setPrev]; split <;> rfl
@[simp] theorem setPrev_first : ((setPrev a i v).node j).first = (a.node j).first := by
  simp only [setPrev]; split <;> rfl
@[simp] theorem setPrev_last : ((setPrev a i v).node j).last = (a.node j).last := by
  simp only [setPrev]; split <;> rfl

@[simp] theorem setNext_parent : ((setNext a i v).node j).parent = (a.node j).parent := by
  simp only [setNext]; split <;> rfl
@[simp] theorem setNext_prev : ((setNext a i v).node j).prev = (a.node j).prev := by
  simp only [setNext]; split <;> rfl
@[simp] theorem setNext_next : ((setNext a i v).node j).next = if j = i then v else (a.node j).next := by
  simp only [setNext]; split <;> rfl
@[simp] theorem setNext_first : ((setNext a i v).node j).first = (a.node j).first := by
  simp only [setNext]; split <;> rfl
@[simp] theorem setNext_last : ((setNext a i v).node j).last = (a.node j).last := by
  simp only [setNext]; split <;> rfl

@[simp] theorem setFirst_parent : ((setFirst a i v).node j).parent = (a.node j).parent := by
  simp only [setFirst]; split <;> rfl
@[simp] theorem setFirst_prev : ((setFirst a i v).node j).prev = (a.node j).prev := by
  simp only [setFirst]; split <;> rfl
@[simp] theorem setFirst_next : ((setFirst a i v).node j).next = (a.node j).next := by
  simp only [setFirst]; split <;> rfl
@[simp] theorem setFirst_first : ((setFirst a i v).node j).first = if j = i then v else (a.node j).first := by
  simp only [setFirst]; split <;> rfl
@[simp] theorem setFirst_last : ((setFirst a i v).node j).last = (a.node j).last := by
  simp only [setFirst]; split <;> rfl

@[simp] theorem setLast_parent : ((setLast a i v).node j).parent = (a.node j).parent := by
  simp only [setLast]; split <;> rfl
@[simp] theorem setLast_prev : ((setLast a i v).node j).prev = (a.node j).prev := by
  simp only [setLast]; split <;> rfl
@[simp] theorem setLast_next : ((setLast a i v).node j).next = (a.node j).next := by
  simp only [setLast]; split <;> rfl
@[simp] theorem setLast_first : ((setLast a i v).node j).first = (a.node j).first := by
  simp only [setLast]; split <;> rfl
@[simp] theorem setLast_last : ((setLast a i v).node j).last = if j = i then v else (a.node j).last := by
  simp only [setLast]; split <;> rfl
end setters

/-! field-wise description of `detach` -/
theorem detach_size (a : Arena) (x : Nat) : (detach a x).size = a.size := by
  cases hp : (a.node x).parent <;> cases hv : (a.node x).prev <;> cases hn : (a.node x).next <;> simp [detach, hp, hv, hn]

theorem detach_parent (a : Arena) (x j : Nat) :
    ((detach a x).node j).parent = if j = x then none else (a.node j).parent := by
  cases hp : (a.node x).parent <;> cases hv : (a.node x).prev <;> cases hn : (a.node x).next <;> simp [detach, hp, hv, hn]

theorem detach_prev (a : Arena) (x j : Nat) :
    ((detach a x).node j).prev =
      if some j = (a.node x).next then (a.node x).prev else if j = x then none else (a.node j).prev := by
  cases hp : (a.node x).parent <;> cases hv : (a.node x).prev <;> cases hn : (a.node x).next <;> simp [detach, hp, hv, hn]

theorem detach_next (a : Arena) (x j : Nat) :
    ((detach a x).node j).next =
      if some j = (a.node x).prev then (a.node x).next else if j = x then none else (a.node j).next := by
  cases hp : (a.node x).parent <;> cases hv : (a.node x).prev <;> cases hn : (a.node x).next <;> simp [detach, hp, hv, hn]

theorem detach_first (a : Arena) (x j : Nat) :
    ((detach a x).node j).first =
      if (a.node x).prev = none ∧ (a.node x).parent = some j then (a.node x).next else (a.node j).first := by
  cases hp : (a.node x).parent <;> cases hv : (a.node x).prev <;> cases hn : (a.node x).next <;> simp [detach, hp, hv, hn]
  all_goals (split <;> simp_all [eq_comm])

theorem detach_last (a : Arena) (x j : Nat) :
    ((detach a x).node j).last =
      if (a.node x).next = none ∧ (a.node x).parent = some j then (a.node x).prev else (a.node j).last := by
  cases hp : (a.node x).parent <;> cases hv : (a.node x).prev <;> cases hn : (a.node x).next <;> simp [detach, hp, hv, hn]
  all_goals (split <;> simp_all [eq_comm])


theorem eq_nil_or_snoc (l : List Nat) : l = [] ∨ ∃ l' y, l = l' ++ [y] := by
  rcases List.eq_nil_or_concat l with e | ⟨l', y, e⟩
  · exact Or.inl e
  · exact Or.inr ⟨l', y, by simpa using e⟩

theorem headOr_none (l : List Nat) : headOr l none = l.head? := by cases l <;> rfl

theorem headOr_append (l1 l2 : List Nat) (d : Option Nat) : headOr (l1 ++ l2) d = headOr l1 (headOr l2 d) := by
  cases l1 <;> rfl

theorem lastOr_append (l1 l2 : List Nat) (d : Option Nat) : lastOr (l1 ++ l2) d = lastOr l2 (lastOr l1 d) := by
  induction l1 generalizing d with
  | nil => rfl
  | cons x r ih => simp [lastOr, ih]

theorem lastOr_concat (l : List Nat) (y : Nat) (d : Option Nat) : lastOr (l ++ [y]) d = some y := by
  simp [lastOr_append, lastOr]

theorem lastOr_eq (l : List Nat) (d : Option Nat) :
    lastOr l d = match l.getLast? with | some y => some y | none => d := by
  induction l generalizing d with
  | nil => rfl
  | cons x r ih =>
    simp only [lastOr, ih, List.getLast?_cons]
    cases r.getLast? <;> simp

theorem lastOr_none (l : List Nat) : lastOr l none = l.getLast? := by
  rw [lastOr_eq]; cases l.getLast? <;> rfl

theorem lastOr_mem {l : List Nat} {y : Nat} (h : lastOr l none = some y) : y ∈ l := by
  rw [lastOr_none] at h; exact List.mem_of_getLast? h

theorem headOr_mem {l : List Nat} {y : Nat} (h : headOr l none = some y) : y ∈ l := by
  rw [headOr_none] at h; exact List.mem_of_head? h

theorem nextChain_append (a : Arena) (l1 l2 : List Nat) (nx : Option Nat) :
    NextChain a (l1 ++ l2) nx ↔ NextChain a l1 (headOr l2 nx) ∧ NextChain a l2 nx := by
  induction l1 with
  | nil => simp [NextChain]
  | cons x r ih => simp only [List.cons_append, NextChain, ih, headOr_append, and_assoc]

theorem prevChain_append (a : Arena) (l1 l2 : List Nat) (pv : Option Nat) :
    PrevChain a pv (l1 ++ l2) ↔ PrevChain a pv l1 ∧ PrevChain a (lastOr l1 pv) l2 := by
  induction l1 generalizing pv with
  | nil => simp [PrevChain, lastOr]
  | cons x r ih => simp only [List.cons_append, PrevChain, ih, lastOr, and_assoc]

theorem nextChain_congr {a a' : Arena} {l : List Nat} {nx : Option Nat}
    (h : ∀ x ∈ l, (a'.node x).next = (a.node x).next) (hc : NextChain a l nx) : NextChain a' l nx := by
  induction l with
  | nil => trivial
  | cons x r ih =>
    refine ⟨?_, ih (fun y hy => h y (List.mem_cons_of_mem _ hy)) hc.2⟩
    rw [h x (List.mem_cons_self ..)]; exact hc.1

theorem prevChain_congr {a a' : Arena} {l : List Nat} {pv : Option Nat}
    (h : ∀ x ∈ l, (a'.node x).prev = (a.node x).prev) (hc : PrevChain a pv l) : PrevChain a' pv l := by
  induction l generalizing pv with
  | nil => trivial
  | cons x r ih =>
    refine ⟨?_, ih (fun y hy => h y (List.mem_cons_of_mem _ hy)) hc.2⟩
    rw [h x (List.mem_cons_self ..)]; exact hc.1

/-- pigeonhole: a duplicate-free list of numbers below `n` has at most `n` elements -/
theorem nodup_bound_length : ∀ (n : Nat) (l : List Nat), l.Nodup → (∀ x ∈ l, x < n) → l.length ≤ n
  | 0, l, _, hb => by
    cases l with
    | nil => simp
    | cons x r => exact absurd (hb x (List.mem_cons_self ..)) (by omega)
  | n + 1, l, hn, hb => by
    have h1 := nodup_bound_length n (l.erase n) (hn.erase n) (by
      intro x hx
      have h2 := (hn.mem_erase_iff).1 hx
      have := hb x h2.2
      omega)
    have h3 := List.length_erase (a := n) (l := l)
    split at h3 <;> omega

theorem chain_of_nextChain (a : Arena) : ∀ (l : List Nat) (fuel : Nat), NextChain a l none → l.length ≤ fuel →
    chain a fuel (headOr l none) = l
  | [], fuel, _, _ => by cases fuel <;> rfl
  | x :: r, 0, _, h => by simp at h
  | x :: r, fuel + 1, hc, h => by
    simp only [headOr, chain]
    rw [hc.1, chain_of_nextChain a r fuel hc.2 (by simpa using h)]

/-- The represented forest is unique: it is what `children` computes. -/
theorem Repr.children_eq {a : Arena} {kids : Nat → List Nat} (h : Repr a kids) (p : Nat) : children a p = kids p := by
  unfold children
  rw [h.first, ← headOr_none]
  apply chain_of_nextChain a _ _ (h.next p)
  exact nodup_bound_length _ _ (h.nodup p) (fun x hx => h.bound x p (h.parent p x hx))

theorem Repr.links {a : Arena} {kids : Nat → List Nat} (h : Repr a kids) : Links a := by
  have : children a = kids := funext h.children_eq
  unfold Links; rw [this]; exact h

/-- Taking `x` out of the child list `l1 ++ x :: l2` of `p`: any arena whose fields are these functions of
the old fields represents the forest with `x` removed. -/
theorem repr_unlink {a a' : Arena} {kids : Nat → List Nat} (h : Repr a kids) {p x : Nat} {l1 l2 : List Nat}
    (hk : kids p = l1 ++ x :: l2)
    (hsize : a'.size = a.size)
    (hpar : ∀ j, (a'.node j).parent = if j = x then none else (a.node j).parent)
    (hprev : ∀ j, (a'.node j).prev =
      if some j = headOr l2 none then lastOr l1 none else if j = x then none else (a.node j).prev)
    (hnext : ∀ j, (a'.node j).next =
      if some j = lastOr l1 none then headOr l2 none else if j = x then none else (a.node j).next)
    (hfirst : ∀ j, (a'.node j).first = if l1 = [] ∧ j = p then headOr l2 none else (a.node j).first)
    (hlast : ∀ j, (a'.node j).last = if l2 = [] ∧ j = p then lastOr l1 none else (a.node j).last) :
    Repr a' (fun q => if q = p then l1 ++ l2 else kids q) := by
  have nd := h.nodup p
  rw [hk, List.nodup_append] at nd
  obtain ⟨nd1, ndx2, ndd⟩ := nd
  rw [List.nodup_cons] at ndx2
  obtain ⟨hx2, nd2⟩ := ndx2
  have hx1 : x ∉ l1 := fun hm => ndd x hm x (List.mem_cons_self ..) rfl
  have hd12 : ∀ y, y ∈ l1 → y ∈ l2 → False := fun y h1 h2 => ndd y h1 y (List.mem_cons_of_mem _ h2) rfl
  have hp1 : ∀ y, y ∈ l1 → (a.node y).parent = some p := fun y hy => h.parent p y (by rw [hk]; simp [hy])
  have hp2 : ∀ y, y ∈ l2 → (a.node y).parent = some p := fun y hy => h.parent p y (by rw [hk]; simp [hy])
  have hpx : (a.node x).parent = some p := h.parent p x (by rw [hk]; simp)
  have hother : ∀ q, q ≠ p → ∀ y, y ∈ kids q → y ≠ x ∧ y ∉ l1 ∧ y ∉ l2 := by
    intro q hq y hy
    have := h.parent q y hy
    refine ⟨?_, ?_, ?_⟩
    · intro e; subst e; rw [hpx] at this; exact hq (Option.some.inj this).symm
    · intro e; rw [hp1 y e] at this; exact hq (Option.some.inj this).symm
    · intro e; rw [hp2 y e] at this; exact hq (Option.some.inj this).symm
  have hnc := h.next p
  rw [hk, nextChain_append] at hnc
  obtain ⟨hnc1, hncx, hnc2⟩ := hnc
  have hpc := h.prev p
  rw [hk, prevChain_append] at hpc
  obtain ⟨hpc1, hpcx, hpc2⟩ := hpc
  -- next' is unchanged on l2 and on other child lists; prev' unchanged on l1 and on other lists
  have next_same : ∀ y, y ≠ x → some y ≠ lastOr l1 none → (a'.node y).next = (a.node y).next := by
    intro y h1 h2; rw [hnext]; simp [h1, h2]
  have prev_same : ∀ y, y ≠ x → some y ≠ headOr l2 none → (a'.node y).prev = (a.node y).prev := by
    intro y h1 h2; rw [hprev]; simp [h1, h2]
  refine ⟨?_, ?_, ?_, ?_, ?_, ?_, ?_, ?_, ?_⟩
  · -- nodup
    intro q; by_cases hq : q = p
    · simp only [hq, if_true]; rw [List.nodup_append]; exact ⟨nd1, nd2, fun y h1 z h2 e => hd12 y h1 (e ▸ h2)⟩
    · simp only [hq, if_false]; exact h.nodup q
  · -- first
    intro q; by_cases hq : q = p
    · subst hq; simp only [if_true]; rw [hfirst]
      cases l1 with
      | nil => simp [headOr_none]
      | cons y r => simp [h.first q, hk]
    · simp only [hq, if_false]; rw [hfirst]; simp [hq, h.first q]
  · -- last
    intro q; by_cases hq : q = p
    · subst hq; simp only [if_true]; rw [hlast]
      cases l2 with
      | nil => simp [lastOr_none]
      | cons y r => simp [h.last q, hk, List.getLast?_append]
    · simp only [hq, if_false]; rw [hlast]; simp [hq, h.last q]
  · -- parent
    intro q y hy; by_cases hq : q = p
    · subst hq; simp only [if_true, List.mem_append] at hy
      have hyx : y ≠ x := by rcases hy with hy | hy <;> (intro e; subst e; contradiction)
      rw [hpar]; simp only [hyx, if_false]
      rcases hy with hy | hy
      · exact hp1 y hy
      · exact hp2 y hy
    · simp only [hq, if_false] at hy
      rw [hpar]; simp only [(hother q hq y hy).1, if_false]; exact h.parent q y hy
  · -- next
    intro q; by_cases hq : q = p
    · subst hq; simp only [if_true]; rw [nextChain_append]
      constructor
      · rcases eq_nil_or_snoc l1 with e | ⟨l1', pv, e⟩
        · subst e; trivial
        · subst e
          rw [nextChain_append] at hnc1 ⊢
          have hnd1 := nd1; rw [List.nodup_append] at hnd1
          refine ⟨nextChain_congr (a := a) ?_ hnc1.1, ?_, trivial⟩
          · intro y hy; apply next_same
            · intro e; subst e; exact hx1 (by simp [hy])
            · rw [lastOr_concat]; intro e; exact hnd1.2.2 y hy pv (by simp) (Option.some.inj e)
          · rw [hnext]; simp [lastOr_concat, headOr]
      · refine nextChain_congr (a := a) ?_ hnc2
        intro y hy; apply next_same
        · intro e; subst e; exact hx2 hy
        · intro e; exact hd12 y (lastOr_mem e.symm) hy
    · simp only [hq, if_false]
      refine nextChain_congr (a := a) ?_ (h.next q)
      intro y hy; have ho := hother q hq y hy
      apply next_same _ ho.1
      intro e; exact ho.2.1 (lastOr_mem e.symm)
  · -- prev
    intro q; by_cases hq : q = p
    · subst hq; simp only [if_true]; rw [prevChain_append]
      constructor
      · refine prevChain_congr (a := a) ?_ hpc1
        intro y hy; apply prev_same
        · intro e; subst e; exact hx1 hy
        · intro e; exact hd12 y hy (headOr_mem e.symm)
      · cases l2 with
        | nil => trivial
        | cons n l2' =>
          have hnd2 := nd2; rw [List.nodup_cons] at hnd2
          refine ⟨?_, prevChain_congr (a := a) ?_ hpc2.2⟩
          · rw [hprev]; simp [headOr]
          · intro y hy; apply prev_same
            · intro e; subst e; exact hx2 (by simp [hy])
            · simp only [headOr]; intro e; exact hnd2.1 (Option.some.inj e ▸ hy)
    · simp only [hq, if_false]
      refine prevChain_congr (a := a) ?_ (h.prev q)
      intro y hy; have ho := hother q hq y hy
      apply prev_same _ ho.1
      intro e; exact ho.2.2 (headOr_mem e.symm)
  · -- mem
    intro y q hy
    rw [hpar] at hy
    by_cases hyx : y = x
    · simp [hyx] at hy
    · simp only [hyx, if_false] at hy
      have hm := h.mem y q hy
      by_cases hq : q = p
      · subst hq; simp only [if_true]; rw [hk] at hm
        simp only [List.mem_append, List.mem_cons] at hm ⊢
        rcases hm with hm | hm | hm
        · exact Or.inl hm
        · exact absurd hm hyx
        · exact Or.inr hm
      · simp only [hq, if_false]; exact hm
  · -- root
    intro y hy
    rw [hpar] at hy
    have hy1 : some y ≠ lastOr l1 none := by
      intro e; have hm := lastOr_mem e.symm
      by_cases hyx : y = x
      · subst hyx; exact hx1 hm
      · simp only [hyx, if_false] at hy; rw [hp1 y hm] at hy; cases hy
    have hy2 : some y ≠ headOr l2 none := by
      intro e; have hm := headOr_mem e.symm
      by_cases hyx : y = x
      · subst hyx; exact hx2 hm
      · simp only [hyx, if_false] at hy; rw [hp2 y hm] at hy; cases hy
    rw [hprev, hnext]; simp only [hy1, hy2, if_false]
    by_cases hyx : y = x
    · simp [hyx]
    · simp only [hyx, if_false] at hy ⊢; exact h.root y hy
  · -- bound
    intro y q hy
    rw [hpar] at hy
    by_cases hyx : y = x
    · simp [hyx] at hy
    · simp only [hyx, if_false] at hy; rw [hsize]; exact h.bound y q hy

/-- Putting the parentless node `c` into the child list of `p` between `l1` and `l2`. -/
theorem repr_link {a a' : Arena} {kids : Nat → List Nat} (h : Repr a kids) {p c : Nat} {l1 l2 : List Nat}
    (hk : kids p = l1 ++ l2) (hc : (a.node c).parent = none) (hcs : c < a.size)
    (hsize : a'.size = a.size)
    (hpar : ∀ j, (a'.node j).parent = if j = c then some p else (a.node j).parent)
    (hprev : ∀ j, (a'.node j).prev =
      if j = c then lastOr l1 none else if some j = headOr l2 none then some c else (a.node j).prev)
    (hnext : ∀ j, (a'.node j).next =
      if j = c then headOr l2 none else if some j = lastOr l1 none then some c else (a.node j).next)
    (hfirst : ∀ j, (a'.node j).first = if l1 = [] ∧ j = p then some c else (a.node j).first)
    (hlast : ∀ j, (a'.node j).last = if l2 = [] ∧ j = p then some c else (a.node j).last) :
    Repr a' (fun q => if q = p then l1 ++ c :: l2 else kids q) := by
  have nd := h.nodup p
  rw [hk, List.nodup_append] at nd
  obtain ⟨nd1, nd2, ndd⟩ := nd
  have hd12 : ∀ y, y ∈ l1 → y ∈ l2 → False := fun y h1 h2 => ndd y h1 y h2 rfl
  have hp1 : ∀ y, y ∈ l1 → (a.node y).parent = some p := fun y hy => h.parent p y (by rw [hk]; simp [hy])
  have hp2 : ∀ y, y ∈ l2 → (a.node y).parent = some p := fun y hy => h.parent p y (by rw [hk]; simp [hy])
  have hcn : ∀ q, c ∉ kids q := fun q hm => by rw [h.parent q c hm] at hc; cases hc
  have hc1 : c ∉ l1 := fun hm => by rw [hp1 c hm] at hc; cases hc
  have hc2 : c ∉ l2 := fun hm => by rw [hp2 c hm] at hc; cases hc
  have hother : ∀ q, q ≠ p → ∀ y, y ∈ kids q → y ≠ c ∧ y ∉ l1 ∧ y ∉ l2 := by
    intro q hq y hy
    have := h.parent q y hy
    refine ⟨?_, ?_, ?_⟩
    · intro e; subst e; exact hcn q hy
    · intro e; rw [hp1 y e] at this; exact hq (Option.some.inj this).symm
    · intro e; rw [hp2 y e] at this; exact hq (Option.some.inj this).symm
  have hnc := h.next p
  rw [hk, nextChain_append] at hnc
  obtain ⟨hnc1, hnc2⟩ := hnc
  have hpc := h.prev p
  rw [hk, prevChain_append] at hpc
  obtain ⟨hpc1, hpc2⟩ := hpc
  have next_same : ∀ y, y ≠ c → some y ≠ lastOr l1 none → (a'.node y).next = (a.node y).next := by
    intro y h1 h2; rw [hnext]; simp [h1, h2]
  have prev_same : ∀ y, y ≠ c → some y ≠ headOr l2 none → (a'.node y).prev = (a.node y).prev := by
    intro y h1 h2; rw [hprev]; simp [h1, h2]
  refine ⟨?_, ?_, ?_, ?_, ?_, ?_, ?_, ?_, ?_⟩
  · -- nodup
    intro q; by_cases hq : q = p
    · simp only [hq, if_true]; rw [List.nodup_append]
      refine ⟨nd1, List.nodup_cons.2 ⟨hc2, nd2⟩, ?_⟩
      intro y h1 z h2 e; subst e
      rcases List.mem_cons.1 h2 with e | h2
      · subst e; exact hc1 h1
      · exact hd12 y h1 h2
    · simp only [hq, if_false]; exact h.nodup q
  · -- first
    intro q; by_cases hq : q = p
    · subst hq; simp only [if_true]; rw [hfirst]
      cases l1 with
      | nil => simp
      | cons y r => simp [h.first q, hk]
    · simp only [hq, if_false]; rw [hfirst]; simp [hq, h.first q]
  · -- last
    intro q; by_cases hq : q = p
    · subst hq; simp only [if_true]; rw [hlast]
      cases l2 with
      | nil => simp
      | cons y r => simp [h.last q, hk, List.getLast?_append]
    · simp only [hq, if_false]; rw [hlast]; simp [hq, h.last q]
  · -- parent
    intro q y hy; by_cases hq : q = p
    · subst hq; simp only [if_true, List.mem_append, List.mem_cons] at hy
      rw [hpar]
      by_cases hyc : y = c
      · simp [hyc]
      · simp only [hyc, if_false]
        rcases hy with hy | hy | hy
        · exact hp1 y hy
        · exact absurd hy hyc
        · exact hp2 y hy
    · simp only [hq, if_false] at hy
      rw [hpar]; simp only [(hother q hq y hy).1, if_false]; exact h.parent q y hy
  · -- next
    intro q; by_cases hq : q = p
    · subst hq; simp only [if_true]; rw [nextChain_append]
      constructor
      · rcases eq_nil_or_snoc l1 with e | ⟨l1', pv, e⟩
        · subst e; trivial
        · subst e
          rw [nextChain_append] at hnc1 ⊢
          have hnd1 := nd1; rw [List.nodup_append] at hnd1
          have hpvc : pv ≠ c := fun e => hc1 (by simp [e])
          refine ⟨nextChain_congr (a := a) ?_ hnc1.1, ?_, trivial⟩
          · intro y hy; apply next_same
            · intro e; subst e; exact hc1 (by simp [hy])
            · rw [lastOr_concat]; intro e; exact hnd1.2.2 y hy pv (by simp) (Option.some.inj e)
          · rw [hnext]; simp [lastOr_concat, headOr, hpvc]
      · refine ⟨?_, nextChain_congr (a := a) ?_ hnc2⟩
        · rw [hnext]; simp
        · intro y hy; apply next_same
          · intro e; subst e; exact hc2 hy
          · intro e; exact hd12 y (lastOr_mem e.symm) hy
    · simp only [hq, if_false]
      refine nextChain_congr (a := a) ?_ (h.next q)
      intro y hy; have ho := hother q hq y hy
      apply next_same _ ho.1
      intro e; exact ho.2.1 (lastOr_mem e.symm)
  · -- prev
    intro q; by_cases hq : q = p
    · subst hq; simp only [if_true]; rw [prevChain_append]
      constructor
      · refine prevChain_congr (a := a) ?_ hpc1
        intro y hy; apply prev_same
        · intro e; subst e; exact hc1 hy
        · intro e; exact hd12 y hy (headOr_mem e.symm)
      · refine ⟨?_, ?_⟩
        · rw [hprev]; simp
        · cases l2 with
          | nil => trivial
          | cons n l2' =>
            have hnd2 := nd2; rw [List.nodup_cons] at hnd2
            have hnc' : n ≠ c := fun e => hc2 (by simp [e])
            refine ⟨?_, prevChain_congr (a := a) ?_ hpc2.2⟩
            · rw [hprev]; simp [headOr, hnc']
            · intro y hy; apply prev_same
              · intro e; subst e; exact hc2 (by simp [hy])
              · simp only [headOr]; intro e; exact hnd2.1 (Option.some.inj e ▸ hy)
    · simp only [hq, if_false]
      refine prevChain_congr (a := a) ?_ (h.prev q)
      intro y hy; have ho := hother q hq y hy
      apply prev_same _ ho.1
      intro e; exact ho.2.2 (headOr_mem e.symm)
  · -- mem
    intro y q hy
    rw [hpar] at hy
    by_cases hyc : y = c
    · simp only [hyc, if_true] at hy; have := Option.some.inj hy; subst this; simp [hyc]
    · simp only [hyc, if_false] at hy
      have hm := h.mem y q hy
      by_cases hq : q = p
      · subst hq; simp only [if_true]; rw [hk] at hm
        simp only [List.mem_append, List.mem_cons] at hm ⊢
        rcases hm with hm | hm
        · exact Or.inl hm
        · exact Or.inr (Or.inr hm)
      · simp only [hq, if_false]; exact hm
  · -- root
    intro y hy
    rw [hpar] at hy
    by_cases hyc : y = c
    · simp [hyc] at hy
    · simp only [hyc, if_false] at hy
      have hy1 : some y ≠ lastOr l1 none := by
        intro e; have hm := lastOr_mem e.symm; rw [hp1 y hm] at hy; cases hy
      have hy2 : some y ≠ headOr l2 none := by
        intro e; have hm := headOr_mem e.symm; rw [hp2 y hm] at hy; cases hy
      rw [hprev, hnext]; simp only [hyc, hy1, hy2, if_false]
      exact h.root y hy
  · -- bound
    intro y q hy
    rw [hpar] at hy
    by_cases hyc : y = c
    · rw [hsize, hyc]; exact hcs
    · simp only [hyc, if_false] at hy; rw [hsize]; exact h.bound y q hy


theorem lastOr_eq_none {l : List Nat} : lastOr l none = none ↔ l = [] := by
  rcases eq_nil_or_snoc l with e | ⟨l', y, e⟩ <;> subst e <;> simp [lastOr, lastOr_concat]

theorem headOr_eq_none {l : List Nat} : headOr l none = none ↔ l = [] := by
  cases l <;> simp [headOr]

theorem Repr.of_fields {a a' : Arena} {kids kids' : Nat → List Nat} (h : Repr a kids)
    (hsize : a'.size = a.size)
    (hpar : ∀ j, (a'.node j).parent = (a.node j).parent)
    (hprev : ∀ j, (a'.node j).prev = (a.node j).prev)
    (hnext : ∀ j, (a'.node j).next = (a.node j).next)
    (hfirst : ∀ j, (a'.node j).first = (a.node j).first)
    (hlast : ∀ j, (a'.node j).last = (a.node j).last)
    (hk : ∀ q, kids' q = kids q) : Repr a' kids' := by
  have e1 : kids' = kids := funext hk
  have e2 : a' = a := by
    cases a with | mk s n => cases a' with | mk s' n' =>
    simp only [Arena.mk.injEq]
    refine ⟨hsize, funext fun j => ?_⟩
    have h1 := hpar j; have h2 := hprev j; have h3 := hnext j; have h4 := hfirst j; have h5 := hlast j
    simp only at h1 h2 h3 h4 h5
    cases hn : n j; cases hn' : n' j
    simp_all
  rw [e1, e2]; exact h

theorem repr_detach {a : Arena} {kids : Nat → List Nat} (h : Repr a kids) (x : Nat) :
    Repr (detach a x) (fun q => (kids q).erase x) := by
  cases hp : (a.node x).parent with
  | none =>
    have hr := h.root x hp
    have hnm : ∀ q, x ∉ kids q := fun q hm => by rw [h.parent q x hm] at hp; cases hp
    refine h.of_fields (detach_size a x) ?_ ?_ ?_ ?_ ?_ ?_
    · intro j; rw [detach_parent]; split <;> simp_all
    · intro j; rw [detach_prev]; simp only [hr.1, hr.2]; split <;> simp_all
    · intro j; rw [detach_next]; simp only [hr.1, hr.2]; split <;> simp_all
    · intro j; rw [detach_first]; simp [hp]
    · intro j; rw [detach_last]; simp [hp]
    · intro q; exact List.erase_of_not_mem (hnm q)
  | some p =>
    obtain ⟨l1, l2, hk⟩ := List.append_of_mem (h.mem x p hp)
    have nd := h.nodup p
    rw [hk, List.nodup_append] at nd
    have hx1 : x ∉ l1 := fun hm => nd.2.2 x hm x (List.mem_cons_self ..) rfl
    have hnc := h.next p
    rw [hk, nextChain_append] at hnc
    have hpc := h.prev p
    rw [hk, prevChain_append] at hpc
    have hxn : (a.node x).next = headOr l2 none := hnc.2.1
    have hxp : (a.node x).prev = lastOr l1 none := hpc.2.1
    have key := repr_unlink (a' := detach a x) h hk (detach_size a x)
      (detach_parent a x)
      (fun j => by rw [detach_prev, hxn, hxp])
      (fun j => by rw [detach_next, hxn, hxp])
      (fun j => by rw [detach_first, hxn, hxp, hp]; simp only [lastOr_eq_none, Option.some.injEq, eq_comm (a := p)])
      (fun j => by rw [detach_last, hxn, hxp, hp]; simp only [headOr_eq_none, Option.some.injEq, eq_comm (a := p)])
    refine key.of_fields rfl (fun _ => rfl) (fun _ => rfl) (fun _ => rfl) (fun _ => rfl) (fun _ => rfl) ?_
    intro q
    by_cases hq : q = p
    · subst hq; simp only [if_true]; rw [hk, List.erase_append_right _ hx1, List.erase_cons_head]
    · simp only [hq, if_false]
      apply List.erase_of_not_mem
      intro hm; rw [h.parent q x hm] at hp; exact hq (Option.some.inj hp)


theorem repr_append {a : Arena} {kids : Nat → List Nat} (h : Repr a kids) {p c : Nat} (hcs : c < a.size) :
    Repr (append a p c) (fun q => if q = p then (kids p).erase c ++ [c] else (kids q).erase c) := by
  obtain ⟨kids1, hk1⟩ : ∃ k, k = fun q => (kids q).erase c := ⟨_, rfl⟩
  have h1 : Repr (detach a c) kids1 := hk1 ▸ repr_detach h c
  suffices Repr (append a p c) (fun q => if q = p then kids1 p ++ [c] else kids1 q) by subst hk1; exact this
  have hc1 : ((detach a c).node c).parent = none := by rw [detach_parent]; simp
  have hs1 : c < (detach a c).size := by rw [detach_size]; exact hcs
  simp only [append, setParent_last]
  generalize detach a c = a1 at h1 hc1 hs1 ⊢
  have hl1 := h1.last p
  have hroot := h1.root c hc1
  rw [← lastOr_none] at hl1
  have hnil := @lastOr_eq_none (kids1 p)
  have hcl : some c ≠ lastOr (kids1 p) none := fun e => by
    have := h1.parent p c (lastOr_mem e.symm); rw [hc1] at this; cases this
  refine repr_link (l2 := []) h1 (by simp) hc1 hs1 ?_ ?_ ?_ ?_ ?_ ?_
  · cases hl : (a1.node p).last <;> simp
  · intro j; cases hl : (a1.node p).last <;> simp
  · intro j; cases hl : (a1.node p).last <;> simp [headOr] <;> grind
  · intro j; cases hl : (a1.node p).last <;> simp [headOr] <;> grind
  · intro j; cases hl : (a1.node p).last <;> simp <;> grind
  · intro j; cases hl : (a1.node p).last <;> simp <;> grind

theorem insertAfterL_not_mem {x c : Nat} {l : List Nat} (h : x ∉ l) : insertAfterL x c l = l := by
  induction l with
  | nil => rfl
  | cons y r ih =>
    simp only [List.mem_cons, not_or] at h
    simp [insertAfterL, Ne.symm h.1, ih h.2]

theorem insertAfterL_split {x c : Nat} {l1 l2 : List Nat} (h : x ∉ l1) :
    insertAfterL x c (l1 ++ x :: l2) = l1 ++ x :: c :: l2 := by
  induction l1 with
  | nil => simp [insertAfterL]
  | cons y r ih =>
    simp only [List.mem_cons, not_or] at h
    simp [insertAfterL, Ne.symm h.1, ih h.2]

theorem insertBeforeL_not_mem {x c : Nat} {l : List Nat} (h : x ∉ l) : insertBeforeL x c l = l := by
  induction l with
  | nil => rfl
  | cons y r ih =>
    simp only [List.mem_cons, not_or] at h
    simp [insertBeforeL, Ne.symm h.1, ih h.2]

theorem insertBeforeL_split {x c : Nat} {l1 l2 : List Nat} (h : x ∉ l1) :
    insertBeforeL x c (l1 ++ x :: l2) = l1 ++ c :: x :: l2 := by
  induction l1 with
  | nil => simp [insertBeforeL]
  | cons y r ih =>
    simp only [List.mem_cons, not_or] at h
    simp [insertBeforeL, Ne.symm h.1, ih h.2]

theorem repr_prepend {a : Arena} {kids : Nat → List Nat} (h : Repr a kids) {p c : Nat} (hcs : c < a.size) :
    Repr (prepend a p c) (fun q => if q = p then c :: (kids p).erase c else (kids q).erase c) := by
  obtain ⟨kids1, hk1⟩ : ∃ k, k = fun q => (kids q).erase c := ⟨_, rfl⟩
  have h1 : Repr (detach a c) kids1 := hk1 ▸ repr_detach h c
  suffices Repr (prepend a p c) (fun q => if q = p then c :: kids1 p else kids1 q) by subst hk1; exact this
  have hc1 : ((detach a c).node c).parent = none := by rw [detach_parent]; simp
  have hs1 : c < (detach a c).size := by rw [detach_size]; exact hcs
  simp only [prepend, setParent_first]
  generalize detach a c = a1 at h1 hc1 hs1 ⊢
  have hf1 := h1.first p
  have hroot := h1.root c hc1
  rw [← headOr_none] at hf1
  have hnil := @headOr_eq_none (kids1 p)
  have hcl : some c ≠ headOr (kids1 p) none := fun e => by
    have := h1.parent p c (headOr_mem e.symm); rw [hc1] at this; cases this
  refine repr_link (l1 := []) h1 (by simp) hc1 hs1 ?_ ?_ ?_ ?_ ?_ ?_
  · cases hl : (a1.node p).first <;> simp
  · intro j; cases hl : (a1.node p).first <;> simp
  · intro j; cases hl : (a1.node p).first <;> simp [lastOr] <;> grind
  · intro j; cases hl : (a1.node p).first <;> simp [lastOr] <;> grind
  · intro j; cases hl : (a1.node p).first <;> simp <;> grind
  · intro j; cases hl : (a1.node p).first <;> simp <;> grind

theorem repr_insertAfter {a : Arena} {kids : Nat → List Nat} (h : Repr a kids) {x c p : Nat} (hcs : c < a.size)
    (hxc : x ≠ c) (hxp : (a.node x).parent = some p) :
    Repr (insertAfter a x c) (fun q => insertAfterL x c ((kids q).erase c)) := by
  obtain ⟨kids1, hk1⟩ : ∃ k, k = fun q => (kids q).erase c := ⟨_, rfl⟩
  have h1 : Repr (detach a c) kids1 := hk1 ▸ repr_detach h c
  suffices Repr (insertAfter a x c) (fun q => insertAfterL x c (kids1 q)) by subst hk1; exact this
  have hc1 : ((detach a c).node c).parent = none := by rw [detach_parent]; simp
  have hs1 : c < (detach a c).size := by rw [detach_size]; exact hcs
  have hx1 : ((detach a c).node x).parent = some p := by rw [detach_parent]; simp [hxc, hxp]
  simp only [insertAfter, setParent_parent, setParent_next, setPrev_next, setPrev_parent, setNext_parent, ite_self]
  generalize detach a c = a1 at h1 hc1 hs1 hx1 ⊢
  obtain ⟨l1, l2, hk⟩ := List.append_of_mem (h1.mem x p hx1)
  have nd := h1.nodup p
  rw [hk, List.nodup_append] at nd
  have hxl1 : x ∉ l1 := fun hm => nd.2.2 x hm x (List.mem_cons_self ..) rfl
  have hnc := h1.next p
  rw [hk, nextChain_append] at hnc
  have hxn : (a1.node x).next = headOr l2 none := hnc.2.1
  have hroot := h1.root c hc1
  have hnil := @headOr_eq_none l2
  have hcn : some c ≠ headOr l2 none := fun e => by
    have := h1.parent p c (by rw [hk]; simp [headOr_mem e.symm]); rw [hc1] at this; cases this
  have hlast : lastOr (l1 ++ [x]) none = some x := lastOr_concat ..
  have hne : l1 ++ [x] ≠ [] := by simp
  have hkc : ∀ q, insertAfterL x c (kids1 q) = (fun q => if q = p then (l1 ++ [x]) ++ c :: l2 else kids1 q) q := by
    intro q
    by_cases hq : q = p
    · subst hq; simp only [if_true]; rw [hk, insertAfterL_split hxl1]; simp
    · simp only [hq, if_false]
      apply insertAfterL_not_mem
      intro hm; rw [h1.parent q x hm] at hx1; exact hq (Option.some.inj hx1)
  rw [show (fun q => insertAfterL x c (kids1 q)) = _ from funext hkc]
  refine repr_link (l1 := l1 ++ [x]) (l2 := l2) h1 (by simp [hk]) hc1 hs1 ?_ ?_ ?_ ?_ ?_ ?_
  · cases hl : (a1.node x).next <;> simp [hx1]
  · intro j; cases hl : (a1.node x).next <;> simp [hx1]
  · intro j; cases hl : (a1.node x).next <;> simp [hx1] <;> grind
  · intro j; cases hl : (a1.node x).next <;> simp [hx1] <;> grind
  · intro j; cases hl : (a1.node x).next <;> simp [hx1] <;> grind
  · intro j; cases hl : (a1.node x).next <;> simp [hx1] <;> grind
theorem repr_insertBefore {a : Arena} {kids : Nat → List Nat} (h : Repr a kids) {x c p : Nat} (hcs : c < a.size)
    (hxc : x ≠ c) (hxp : (a.node x).parent = some p) :
    Repr (insertBefore a x c) (fun q => insertBeforeL x c ((kids q).erase c)) := by
  obtain ⟨kids1, hk1⟩ : ∃ k, k = fun q => (kids q).erase c := ⟨_, rfl⟩
  have h1 : Repr (detach a c) kids1 := hk1 ▸ repr_detach h c
  suffices Repr (insertBefore a x c) (fun q => insertBeforeL x c (kids1 q)) by subst hk1; exact this
  have hc1 : ((detach a c).node c).parent = none := by rw [detach_parent]; simp
  have hs1 : c < (detach a c).size := by rw [detach_size]; exact hcs
  have hx1 : ((detach a c).node x).parent = some p := by rw [detach_parent]; simp [hxc, hxp]
  simp only [insertBefore, setParent_parent, setParent_prev, setNext_prev, setPrev_parent, setNext_parent, ite_self]
  generalize detach a c = a1 at h1 hc1 hs1 hx1 ⊢
  obtain ⟨l1, l2, hk⟩ := List.append_of_mem (h1.mem x p hx1)
  have nd := h1.nodup p
  rw [hk, List.nodup_append] at nd
  have hxl1 : x ∉ l1 := fun hm => nd.2.2 x hm x (List.mem_cons_self ..) rfl
  have hpc := h1.prev p
  rw [hk, prevChain_append] at hpc
  have hxv : (a1.node x).prev = lastOr l1 none := hpc.2.1
  have hroot := h1.root c hc1
  have hnil := @lastOr_eq_none l1
  have hcn : some c ≠ lastOr l1 none := fun e => by
    have := h1.parent p c (by rw [hk]; simp [lastOr_mem e.symm]); rw [hc1] at this; cases this
  have hhead : headOr (x :: l2) none = some x := rfl
  have hne : x :: l2 ≠ [] := by simp
  have hkc : ∀ q, insertBeforeL x c (kids1 q) = (fun q => if q = p then l1 ++ c :: (x :: l2) else kids1 q) q := by
    intro q
    by_cases hq : q = p
    · subst hq; simp only [if_true]; rw [hk, insertBeforeL_split hxl1]
    · simp only [hq, if_false]
      apply insertBeforeL_not_mem
      intro hm; rw [h1.parent q x hm] at hx1; exact hq (Option.some.inj hx1)
  rw [show (fun q => insertBeforeL x c (kids1 q)) = _ from funext hkc]
  refine repr_link (l1 := l1) (l2 := x :: l2) h1 hk hc1 hs1 ?_ ?_ ?_ ?_ ?_ ?_
  · cases hl : (a1.node x).prev <;> simp [hx1]
  · intro j; cases hl : (a1.node x).prev <;> simp [hx1]
  · intro j; cases hl : (a1.node x).prev <;> simp [hx1] <;> grind
  · intro j; cases hl : (a1.node x).prev <;> simp [hx1] <;> grind
  · intro j; cases hl : (a1.node x).prev <;> simp [hx1] <;> grind
  · intro j; cases hl : (a1.node x).prev <;> simp [hx1] <;> grind

/-! ### ancestors under re-parenting -/

theorem Anc.trans' {a : Arena} {x y z : Nat} (h1 : Anc a x y) (h2 : Anc a y z) : Anc a x z := by
  induction h1 with
  | step h => exact Anc.trans h h2
  | trans h _ ih => exact Anc.trans h (ih h2)

/-- Re-parenting one node `c`: every new ancestor pair is an old one or goes through the new edge. -/
theorem anc_reparent {a a' : Arena} {c : Nat} {newp : Option Nat}
    (hpar : ∀ j, (a'.node j).parent = if j = c then newp else (a.node j).parent) {x y : Nat} (h : Anc a' x y) :
    Anc a x y ∨ ∃ p, newp = some p ∧ (x = c ∨ Anc a x c) ∧ (y = p ∨ Anc a p y) := by
  induction h with
  | @step x q hq =>
    rw [hpar] at hq
    by_cases hx : x = c
    · simp only [hx, if_true] at hq; exact Or.inr ⟨q, hq, Or.inl hx, Or.inl rfl⟩
    · simp only [hx, if_false] at hq; exact Or.inl (Anc.step hq)
  | @trans x q y hq _ ih =>
    rw [hpar] at hq
    by_cases hx : x = c
    · simp only [hx, if_true] at hq
      rcases ih with ih | ⟨p, hp, _, hy⟩
      · exact Or.inr ⟨q, hq, Or.inl hx, Or.inr ih⟩
      · exact Or.inr ⟨p, hp, Or.inl hx, hy⟩
    · simp only [hx, if_false] at hq
      rcases ih with ih | ⟨p, hp, hc, hy⟩
      · exact Or.inl (Anc.trans hq ih)
      · refine Or.inr ⟨p, hp, Or.inr ?_, hy⟩
        rcases hc with hc | hc
        · exact Anc.step (hc ▸ hq)
        · exact Anc.trans hq hc

theorem acyclic_reparent {a a' : Arena} {c : Nat} {newp : Option Nat}
    (hpar : ∀ j, (a'.node j).parent = if j = c then newp else (a.node j).parent)
    (h : Acyclic a) (hnew : ∀ p, newp = some p → p ≠ c ∧ ¬ Anc a p c) : Acyclic a' := by
  intro x hx
  rcases anc_reparent hpar hx with h1 | ⟨p, hp, hc, hy⟩
  · exact h x h1
  · obtain ⟨hpc, hnc⟩ := hnew p hp
    rcases hc with hc | hc <;> rcases hy with hy | hy
    · exact hpc (hy.symm.trans hc)
    · exact hnc (hc ▸ hy)
    · exact hnc (hy ▸ hc)
    · exact hnc (hy.trans' hc)

theorem append_parent (a : Arena) (p c j : Nat) :
    ((append a p c).node j).parent = if j = c then some p else (a.node j).parent := by
  cases hl : ((detach a c).node p).last <;> simp [append, hl, detach_parent] <;> split <;> simp_all

theorem prepend_parent (a : Arena) (p c j : Nat) :
    ((prepend a p c).node j).parent = if j = c then some p else (a.node j).parent := by
  cases hl : ((detach a c).node p).first <;> simp [prepend, hl, detach_parent] <;> split <;> simp_all

theorem insertAfter_parent (a : Arena) {x c : Nat} (hxc : x ≠ c) (j : Nat) :
    ((insertAfter a x c).node j).parent = if j = c then (a.node x).parent else (a.node j).parent := by
  cases hl : ((detach a c).node x).next <;> cases hp : (a.node x).parent <;>
    simp [insertAfter, hl, hp, hxc, detach_parent] <;> grind

theorem insertBefore_parent (a : Arena) {x c : Nat} (hxc : x ≠ c) (j : Nat) :
    ((insertBefore a x c).node j).parent = if j = c then (a.node x).parent else (a.node j).parent := by
  cases hl : ((detach a c).node x).prev <;> cases hp : (a.node x).parent <;>
    simp [insertBefore, hl, hp, hxc, detach_parent] <;> grind

end Comrak.ArenaTree
