/-
Bridge from the token-level HTML model to bytes, part 1: the byte-level lexer `lexHtml` run over
the spelling of allowed tokens returns exactly the tokens' image `toL`
(`lex_spell : ts.all allowedTok = true → lexHtml (spell ts) = some (toL ts)`).
Pieces: `valueSafe` facts for the three spellings of attribute-value parts and text,
vocabulary names are lexable names, the lexer inside a tag (`TagReady`), one token, token lists.
-/
import Comrak.HtmlSafe
import Comrak.Lemmas.HtmlSafe
import Comrak.Lemmas.Escape
import Comrak.Props.C19
namespace Comrak
open Bytes

/-! ### `valueSafe`: what escaped text, escaped URLs and harmless literals have in common -/

theorem valueSafe_append (x y : Bytes) (hx : valueSafe x = true) (hy : valueSafe y = true) :
    valueSafe (x ++ y) = true := by
  induction x with
  | nil => simpa using hy
  | cons b r ih =>
    simp only [valueSafe, Bool.and_eq_true, List.cons_append] at hx ⊢
    refine ⟨?_, ih hx.2⟩
    have h1 := hx.1
    by_cases hb : b = 0x26
    · subst hb
      simp only [↓reduceIte, Bool.or_eq_true] at h1 ⊢
      have := @isPrefixB_append
      rcases h1 with (((h | h) | h) | h) | h
      · exact Or.inl (Or.inl (Or.inl (Or.inl (by simpa using this _ _ y h))))
      · exact Or.inl (Or.inl (Or.inl (Or.inr (by simpa using this _ _ y h))))
      · exact Or.inl (Or.inl (Or.inr (by simpa using this _ _ y h)))
      · exact Or.inl (Or.inr (by simpa using this _ _ y h))
      · exact Or.inr (by simpa using this _ _ y h)
    · simp only [hb, ↓reduceIte] at h1 ⊢
      exact h1

theorem valueSafe_of_noActive (x : Bytes) (h : noActive x = true) : valueSafe x = true := by
  induction x with
  | nil => rfl
  | cons b r ih =>
    simp only [noActive, Bool.and_eq_true] at h
    simp only [valueSafe, Bool.and_eq_true]
    refine ⟨?_, ih h.2⟩
    have h1 := h.1
    by_cases hb : b = 0x26
    · subst hb
      simp only [↓reduceIte, Bool.or_eq_true] at h1 ⊢
      rcases h1 with ((h | h) | h) | h
      · exact Or.inl (Or.inl (Or.inl (Or.inl h)))
      · exact Or.inl (Or.inl (Or.inl (Or.inr h)))
      · exact Or.inl (Or.inl (Or.inr h))
      · exact Or.inl (Or.inr h)
    · simp only [hb, ↓reduceIte] at h1 ⊢
      exact h1

theorem hrefSafe_facts : ∀ b : UInt8, hrefSafe b = true → b ≠ 0x26 ∧ b ≠ 0x22 ∧ b ≠ 0x3C ∧ b ≠ 0x3E :=
  forall_uint8_of_fin (by decide +kernel)

theorem valueSafe_of_hrefAlphabet (x : Bytes) (h : hrefAlphabet x = true) : valueSafe x = true := by
  induction x with
  | nil => rfl
  | cons b r ih =>
    simp only [hrefAlphabet, Bool.and_eq_true] at h
    simp only [valueSafe, Bool.and_eq_true]
    refine ⟨?_, ih h.2⟩
    have h1 := h.1
    simp only [Bool.or_eq_true, Bool.and_eq_true, beq_iff_eq] at h1
    rcases h1 with hs | ⟨hb, hp⟩
    · obtain ⟨f1, f2, f3, f4⟩ := hrefSafe_facts b hs
      simp [f1, f2, f3, f4]
    · subst hb
      simp only [↓reduceIte, Bool.or_eq_true]
      rcases hp with h | h
      · exact Or.inl (Or.inl (Or.inl (Or.inr h)))
      · exact Or.inr h

theorem valueSafe_of_litSafe (x : Bytes) (h : litSafe x = true) : valueSafe x = true := by
  induction x with
  | nil => rfl
  | cons b r ih =>
    simp only [litSafe_cons, Bool.and_eq_true, Bool.not_eq_true', Bool.or_eq_false_iff, beq_eq_false_iff_ne] at h
    simp only [valueSafe, Bool.and_eq_true]
    refine ⟨?_, ih h.2⟩
    obtain ⟨⟨⟨f1, f2⟩, f3⟩, f4⟩ := h.1
    simp [f1, f2, f3, f4]

/-- A `valueSafe` byte string contains no raw `"`, `<`, `>`. -/
theorem valueSafe_mem (x : Bytes) (h : valueSafe x = true) (c : UInt8) (hc : c ∈ x) :
    c ≠ 0x22 ∧ c ≠ 0x3C ∧ c ≠ 0x3E := by
  induction x with
  | nil => simp at hc
  | cons b r ih =>
    simp only [valueSafe, Bool.and_eq_true] at h
    rcases List.mem_cons.mp hc with rfl | hm
    · have h1 := h.1
      by_cases hb : c = 0x26
      · subst hb; decide
      · simpa [hb, and_assoc] using h1
    · exact ih h.2 hm

theorem valueSafe_escape (v : Bytes) : valueSafe (escape v) = true :=
  valueSafe_of_noActive _ (Comrak.C19.escape_no_active v)

theorem valueSafe_escapeHref (v : Bytes) : valueSafe (escapeHref v) = true :=
  valueSafe_of_hrefAlphabet _ (Comrak.C19.escapeHref_alphabet v)

theorem valueSafe_part (p : APart) (h : partOk p = true) : valueSafe p.spell = true := by
  cases p with
  | esc v => exact valueSafe_escape v
  | href v => exact valueSafe_escapeHref v
  | lit v => exact valueSafe_of_litSafe v (by simpa [partOk] using h)

/-- The spelled value of an allowed attribute is in the safe value language. -/
theorem valueSafe_spellVal (ps : List APart) (h : ps.all partOk = true) : valueSafe (spellVal ps) = true := by
  induction ps with
  | nil => rfl
  | cons p r ih =>
    simp only [List.all_cons, Bool.and_eq_true] at h
    simp only [spellVal, List.flatMap_cons]
    exact valueSafe_append _ _ (valueSafe_part p h.1) (ih h.2)

/-! ### Vocabulary names are lexable names -/

/-- A tag name the lexer accepts: a letter followed by letters and digits. -/
def tagNameOk : Bytes → Bool
  | [] => false
  | c :: r => isAsciiAlpha c && r.all tagNameChar

/-- An attribute name the lexer accepts: non-empty, letters, digits, `-`, `_`, `:`. -/
def attrNameOk : Bytes → Bool
  | [] => false
  | c :: r => attrNameChar c && r.all attrNameChar

theorem tagVocab_ok : tagVocab.all tagNameOk = true := by decide
theorem attrVocab_ok : attrVocab.all attrNameOk = true := by decide

theorem tagNameOk_of_vocab (n : Bytes) (h : tagVocab.contains n = true) : tagNameOk n = true := by
  have := tagVocab_ok
  rw [List.all_eq_true] at this
  exact this n (by simpa using h)

theorem attrNameOk_of_vocab (n : Bytes) (h : attrVocab.contains n = true) : attrNameOk n = true := by
  have := attrVocab_ok
  rw [List.all_eq_true] at this
  exact this n (by simpa using h)

/-! ### Composition -/

theorem lexLoop_append (st : LexSt) (out : List LTok) (a b : Bytes) :
    lexLoop st out (a ++ b) = lexLoop (lexLoop st out a).1 (lexLoop st out a).2 b := by
  induction a generalizing st out with
  | nil => simp [lexLoop]
  | cons c r ih => simp only [List.cons_append, lexLoop]; exact ih _ _

theorem lexLoop_append_eq {st st' : LexSt} {out out' : List LTok} {a : Bytes} (b : Bytes)
    (h : lexLoop st out a = (st', out')) : lexLoop st out (a ++ b) = lexLoop st' out' b := by
  rw [lexLoop_append, h]

theorem lexLoop_cons (st : LexSt) (out : List LTok) (c : UInt8) (r : Bytes) :
    lexLoop st out (c :: r) = lexLoop (lexStep st out c).1 (lexStep st out c).2 r := rfl

theorem lexLoop_nil (st : LexSt) (out : List LTok) : lexLoop st out [] = (st, out) := rfl

/-! ### Byte classes -/

theorem alpha_facts : ∀ c : UInt8, isAsciiAlpha c = true → tagNameChar c = true ∧ c ≠ 0x2F ∧ c ≠ 0x21 :=
  forall_uint8_of_fin (by decide +kernel)

theorem tagNameChar_facts : ∀ c : UInt8, tagNameChar c = true → c ≠ 0x3E ∧ c ≠ 0x20 :=
  forall_uint8_of_fin (by decide +kernel)

theorem attrNameChar_facts : ∀ c : UInt8, attrNameChar c = true → c ≠ 0x2F ∧ c ≠ 0x3D ∧ c ≠ 0x20 ∧ c ≠ 0x3E :=
  forall_uint8_of_fin (by decide +kernel)

/-! ### Text -/

theorem lex_text (bs acc : Bytes) (out : List LTok) (h : ∀ c ∈ bs, c ≠ 0x3C ∧ c ≠ 0x3E) :
    lexLoop (.text acc) out bs = (.text (bs.reverse ++ acc), out) := by
  induction bs generalizing acc with
  | nil => simp [lexLoop]
  | cons c r ih =>
    have hc := h c (by simp)
    rw [lexLoop_cons]
    have : lexStep (.text acc) out c = (.text (c :: acc), out) := by simp [lexStep, hc.1, hc.2]
    rw [this, ih _ (fun d hd => h d (by simp [hd]))]; simp

theorem lex_text_valueSafe (bs acc : Bytes) (out : List LTok) (h : valueSafe bs = true) :
    lexLoop (.text acc) out bs = (.text (bs.reverse ++ acc), out) :=
  lex_text bs acc out fun c hc => (valueSafe_mem bs h c hc).2

/-! ### Names -/

theorem lex_nameChars (r acc : Bytes) (out : List LTok) (h : r.all tagNameChar = true) :
    lexLoop (.name acc) out r = (.name (r.reverse ++ acc), out) := by
  induction r generalizing acc with
  | nil => simp [lexLoop]
  | cons c r ih =>
    simp only [List.all_cons, Bool.and_eq_true] at h
    rw [lexLoop_cons]
    have : lexStep (.name acc) out c = (.name (c :: acc), out) := by simp [lexStep, h.1]
    rw [this, ih _ h.2]; simp

theorem lex_name (n : Bytes) (out : List LTok) (h : tagNameOk n = true) :
    lexLoop .lt out n = (.name n.reverse, out) := by
  cases n with
  | nil => simp [tagNameOk] at h
  | cons c r =>
    simp only [tagNameOk, Bool.and_eq_true] at h
    obtain ⟨_, h2, h3⟩ := alpha_facts c h.1
    rw [lexLoop_cons]
    have : lexStep .lt out c = (.name [c], out) := by simp [lexStep, h2, h3, h.1]
    rw [this, lex_nameChars r [c] out h.2]; simp

theorem lex_closeNameChars (r acc : Bytes) (out : List LTok) (h : r.all tagNameChar = true) :
    lexLoop (.closeName acc) out r = (.closeName (r.reverse ++ acc), out) := by
  induction r generalizing acc with
  | nil => simp [lexLoop]
  | cons c r ih =>
    simp only [List.all_cons, Bool.and_eq_true] at h
    obtain ⟨h1, _⟩ := tagNameChar_facts c h.1
    rw [lexLoop_cons]
    have : lexStep (.closeName acc) out c = (.closeName (c :: acc), out) := by simp [lexStep, h.1, h1]
    rw [this, ih _ h.2]; simp

theorem tagNameOk_all (n : Bytes) (h : tagNameOk n = true) : n.all tagNameChar = true ∧ n ≠ [] := by
  cases n with
  | nil => simp [tagNameOk] at h
  | cons c r =>
    simp only [tagNameOk, Bool.and_eq_true] at h
    simp [h.2, (alpha_facts c h.1).1]

/-- `/name>` after `<`. -/
theorem lex_endTag (n : Bytes) (out : List LTok) (h : tagNameOk n = true) :
    lexLoop .lt out ([0x2F] ++ n ++ [0x3E]) = (.text [], .cl n :: out) := by
  obtain ⟨ha, hne⟩ := tagNameOk_all n h
  have h1 : lexStep .lt out 0x2F = (.closeName [], out) := by simp [lexStep]
  have h3 : lexLoop (.closeName []) out n = (.closeName n.reverse, out) := by
    simpa using lex_closeNameChars n [] out ha
  have hemp : n.reverse.isEmpty = false := by cases n <;> simp_all
  have h4 : lexStep (.closeName n.reverse) out 0x3E = (.text [], .cl n :: out) := by
    simp [lexStep, hemp]
  simp only [List.cons_append, List.nil_append, lexLoop_cons, h1]
  rw [lexLoop_append_eq _ h3]
  simp [lexLoop, h4]

theorem lex_attrNameChars (n : Bytes) (as : List (Bytes × Option Bytes)) (r acc : Bytes) (out : List LTok)
    (h : r.all attrNameChar = true) :
    lexLoop (.attrName n as acc) out r = (.attrName n as (r.reverse ++ acc), out) := by
  induction r generalizing acc with
  | nil => simp [lexLoop]
  | cons c r ih =>
    simp only [List.all_cons, Bool.and_eq_true] at h
    rw [lexLoop_cons]
    have : lexStep (.attrName n as acc) out c = (.attrName n as (c :: acc), out) := by simp [lexStep, h.1]
    rw [this, ih _ h.2]; simp

theorem lex_attrName (n : Bytes) (as : List (Bytes × Option Bytes)) (an : Bytes) (out : List LTok)
    (h : attrNameOk an = true) :
    lexLoop (.attrs n as) out an = (.attrName n as an.reverse, out) := by
  cases an with
  | nil => simp [attrNameOk] at h
  | cons c r =>
    simp only [attrNameOk, Bool.and_eq_true] at h
    obtain ⟨h2, _⟩ := attrNameChar_facts c h.1
    rw [lexLoop_cons]
    have : lexStep (.attrs n as) out c = (.attrName n as [c], out) := by simp [lexStep, h2, h.1]
    rw [this, lex_attrNameChars n as r [c] out h.2]; simp

/-! ### Attribute values -/

theorem lex_value (n : Bytes) (as : List (Bytes × Option Bytes)) (an bs v : Bytes) (out : List LTok)
    (h : ∀ c ∈ bs, c ≠ 0x22) :
    lexLoop (.value n as an v) out bs = (.value n as an (bs.reverse ++ v), out) := by
  induction bs generalizing v with
  | nil => simp [lexLoop]
  | cons c r ih =>
    have hc := h c (by simp)
    rw [lexLoop_cons]
    have : lexStep (.value n as an v) out c = (.value n as an (c :: v), out) := by simp [lexStep, hc]
    rw [this, ih _ (fun d hd => h d (by simp [hd]))]; simp

/-! ### Inside a start tag -/

/-- Image of a model attribute: name and spelled (still escaped) value. -/
def lattr (a : Attr) : Bytes × Option Bytes := (a.name, a.val.map spellVal)

/-- A lexer state inside the start tag of `n` from which a space continues with the attributes
    `as` read so far and `>` ends the tag: after the name, after a quoted value, after a bare
    attribute name. -/
def TagReady (s : LexSt) (n : Bytes) (as : List (Bytes × Option Bytes)) : Prop :=
  (∀ out, lexStep s out 0x20 = (.attrs n as, out)) ∧
  (∀ out, lexStep s out 0x3E = (.text [], .op n as :: out))

theorem tagReady_name (n : Bytes) : TagReady (.name n.reverse) n [] := by
  have h1 : tagNameChar 0x20 = false := by decide
  have h2 : tagNameChar 0x3E = false := by decide
  constructor <;> intro out <;> simp [lexStep, h1, h2]

theorem tagReady_afterValue (n : Bytes) (as : List (Bytes × Option Bytes)) : TagReady (.afterValue n as) n as := by
  constructor <;> intro out <;> simp [lexStep]

theorem tagReady_attrName (n : Bytes) (as : List (Bytes × Option Bytes)) (an : Bytes) :
    TagReady (.attrName n as an.reverse) n (as ++ [(an, none)]) := by
  have h1 : attrNameChar 0x20 = false := by decide
  have h2 : attrNameChar 0x3E = false := by decide
  constructor <;> intro out <;> simp [lexStep, h1, h2]

/-- One attribute: ` name` or ` name="value"`. -/
theorem lex_attr (s : LexSt) (n : Bytes) (as : List (Bytes × Option Bytes)) (a : Attr)
    (hr : TagReady s n as) (ha : attrOk a = true) :
    ∃ s', (∀ out, lexLoop s out a.spell = (s', out)) ∧ TagReady s' n (as ++ [lattr a]) := by
  obtain ⟨name, val⟩ := a
  simp only [attrOk, Bool.and_eq_true] at ha
  have hn := attrNameOk_of_vocab name ha.1
  cases val with
  | none =>
    refine ⟨.attrName n as name.reverse, fun out => ?_, tagReady_attrName n as name⟩
    simp only [Attr.spell, List.cons_append, List.nil_append, lexLoop_cons, hr.1]
    exact lex_attrName n as name out hn
  | some ps =>
    have hv := valueSafe_spellVal ps ha.2
    refine ⟨.afterValue n (as ++ [(name, some (spellVal ps))]), fun out => ?_, tagReady_afterValue _ _⟩
    have heqc : attrNameChar 0x3D = false := by decide
    simp only [Attr.spell, List.cons_append, List.nil_append, List.append_assoc, lexLoop_cons, hr.1]
    rw [lexLoop_append_eq _ (lex_attrName n as name out hn)]
    have h1 : lexStep (.attrName n as name.reverse) out 0x3D = (.afterEq n as name, out) := by
      simp [lexStep, heqc]
    have h2 : lexStep (.afterEq n as name) out 0x22 = (.value n as name [], out) := by simp [lexStep]
    simp only [lexLoop_cons, h1, h2]
    rw [lexLoop_append_eq _ (lex_value n as name (spellVal ps) [] out
      (fun c hc => (valueSafe_mem _ hv c hc).1))]
    simp [lexLoop, lexStep]

theorem lex_attrs (n : Bytes) (l : List Attr) (s : LexSt) (as : List (Bytes × Option Bytes))
    (hr : TagReady s n as) (h : l.all attrOk = true) :
    ∃ s', (∀ out, lexLoop s out (spellAttrs l) = (s', out)) ∧ TagReady s' n (as ++ l.map lattr) := by
  induction l generalizing s as with
  | nil => exact ⟨s, fun out => rfl, by simpa using hr⟩
  | cons a r ih =>
    simp only [List.all_cons, Bool.and_eq_true] at h
    obtain ⟨s1, e1, r1⟩ := lex_attr s n as a hr h.1
    obtain ⟨s2, e2, r2⟩ := ih s1 _ r1 h.2
    refine ⟨s2, fun out => ?_, by simpa using r2⟩
    have : spellAttrs (a :: r) = a.spell ++ spellAttrs r := by simp [spellAttrs]
    rw [this, lexLoop_append_eq _ (e1 out), e2]

/-- `name attrs` after `<`. -/
theorem lex_startTag (n : Bytes) (l : List Attr) (hn : tagNameOk n = true) (h : l.all attrOk = true) :
    ∃ s', (∀ out, lexLoop .lt out (n ++ spellAttrs l) = (s', out)) ∧ TagReady s' n (l.map lattr) := by
  obtain ⟨s', e, r⟩ := lex_attrs n l (.name n.reverse) [] (tagReady_name n) h
  refine ⟨s', fun out => ?_, by simpa using r⟩
  rw [lexLoop_append_eq _ (lex_name n out hn), e]

/-! ### Tokens -/

theorem lex_lt (acc : Bytes) (out : List LTok) (rest : Bytes) :
    lexLoop (.text acc) out (0x3C :: rest) = lexLoop .lt (flushText acc out) rest := by
  rw [lexLoop_cons]; simp [lexStep]

theorem lex_op (n : Bytes) (l : List Attr) (acc : Bytes) (out : List LTok)
    (hn : tagNameOk n = true) (h : l.all attrOk = true) :
    lexLoop (.text acc) out (Tok.spell (.op n l)) = (.text [], .op n (l.map lattr) :: flushText acc out) := by
  obtain ⟨s', e, r⟩ := lex_startTag n l hn h
  simp only [Tok.spell, List.cons_append, List.nil_append, lex_lt]
  rw [lexLoop_append_eq _ (e _)]
  simp only [lexLoop_cons, r.2, lexLoop_nil]

theorem lex_vd (n : Bytes) (l : List Attr) (acc : Bytes) (out : List LTok)
    (hn : tagNameOk n = true) (h : l.all attrOk = true) :
    lexLoop (.text acc) out (Tok.spell (.vd n l)) = (.text [], .vd n (l.map lattr) :: flushText acc out) := by
  obtain ⟨s', e, r⟩ := lex_startTag n l hn h
  simp only [Tok.spell, List.cons_append, List.nil_append, lex_lt]
  rw [lexLoop_append_eq _ (e _)]
  have s1 : ∀ o, lexStep (.attrs n (l.map lattr)) o 0x2F = (.slash n (l.map lattr), o) := by
    intro o; simp [lexStep]
  have s2 : ∀ o, lexStep (.slash n (l.map lattr)) o 0x3E = (.text [], .vd n (l.map lattr) :: o) := by
    intro o; simp [lexStep]
  simp only [S.v_voidend, lexLoop_cons, r.1, s1, s2, lexLoop_nil]

theorem lex_cl (n : Bytes) (acc : Bytes) (out : List LTok) (hn : tagNameOk n = true) :
    lexLoop (.text acc) out (Tok.spell (.cl n)) = (.text [], .cl n :: flushText acc out) := by
  have := lex_endTag n (flushText acc out) hn
  simp only [List.cons_append, List.nil_append] at this
  simp only [Tok.spell, List.cons_append, List.nil_append, lex_lt]
  exact this

theorem lex_cmt_lt (out : List LTok) :
    lexLoop .lt out (S.v_omitted.drop 1) = (.text [], .cmt omittedBody :: out) := by
  simp [S.v_omitted, omittedBody, lexLoop, lexStep]

theorem lex_cmt (acc : Bytes) (out : List LTok) :
    lexLoop (.text acc) out (Tok.spell .cmt) = (.text [], .cmt omittedBody :: flushText acc out) := by
  have : Tok.spell .cmt = 0x3C :: S.v_omitted.drop 1 := by simp [Tok.spell, S.v_omitted]
  rw [this, lex_lt, lex_cmt_lt]

/-! ### Token lists -/

/-- Pending text (forward order) as a lexed token, if any. -/
def textL (w : Bytes) : List LTok := if w.isEmpty then [] else [.text w]

theorem flushText_eq (acc : Bytes) (out : List LTok) : flushText acc out = (textL acc.reverse).reverse ++ out := by
  unfold flushText textL
  cases acc <;> simp

/-- The lexed image of a token list, given the text `pre` pending before it: text-like tokens
    (`txt` spelled escaped, `lit`, `raw`) merge with their neighbours into one `LTok.text`
    (empty text vanishes); tags keep their names, attribute values are the spelled values;
    the placeholder comment becomes `LTok.cmt` of its body. -/
def toLAux (pre : Bytes) : List Tok → List LTok
  | [] => textL pre
  | .txt v :: r => toLAux (pre ++ escape v) r
  | .lit v :: r => toLAux (pre ++ v) r
  | .raw v :: r => toLAux (pre ++ v) r
  | .op n as :: r => textL pre ++ .op n (as.map lattr) :: toLAux [] r
  | .cl n :: r => textL pre ++ .cl n :: toLAux [] r
  | .vd n as :: r => textL pre ++ .vd n (as.map lattr) :: toLAux [] r
  | .cmt :: r => textL pre ++ .cmt omittedBody :: toLAux [] r

def toL (ts : List Tok) : List LTok := toLAux [] ts

/-- What `lexHtml` does with the final lexer state. -/
def lexDone : LexSt × List LTok → Option (List LTok)
  | (.text acc, out) => some (flushText acc out).reverse
  | _ => none

theorem lexHtml_eq (bs : Bytes) : lexHtml bs = lexDone (lexLoop (.text []) [] bs) := by
  unfold lexHtml lexDone
  split <;> simp_all

theorem spell_cons (t : Tok) (r : List Tok) : spell (t :: r) = t.spell ++ spell r := by simp [spell]

theorem lex_toks (ts : List Tok) (acc : Bytes) (out : List LTok) (h : ts.all allowedTok = true) :
    lexDone (lexLoop (.text acc) out (spell ts)) = some (out.reverse ++ toLAux acc.reverse ts) := by
  induction ts generalizing acc out with
  | nil => simp [spell, lexLoop, lexDone, toLAux, flushText_eq]
  | cons t r ih =>
    simp only [List.all_cons, Bool.and_eq_true] at h
    rw [spell_cons]
    cases t with
    | txt v =>
      simp only [Tok.spell]
      rw [lexLoop_append_eq _ (lex_text_valueSafe (escape v) acc out (valueSafe_escape v)), ih _ _ h.2]
      simp [toLAux]
    | lit v =>
      have hv := valueSafe_of_litSafe v (by simpa [allowedTok] using h.1)
      simp only [Tok.spell]
      rw [lexLoop_append_eq _ (lex_text_valueSafe v acc out hv), ih _ _ h.2]
      simp [toLAux]
    | raw v =>
      have hv := valueSafe_of_litSafe v (by simpa [allowedTok] using h.1)
      simp only [Tok.spell]
      rw [lexLoop_append_eq _ (lex_text_valueSafe v acc out hv), ih _ _ h.2]
      simp [toLAux]
    | op n l =>
      have h1 := h.1
      simp only [allowedTok, Bool.and_eq_true] at h1
      rw [lexLoop_append_eq _ (lex_op n l acc out (tagNameOk_of_vocab n h1.1) h1.2), ih _ _ h.2]
      simp [toLAux, flushText_eq]
    | vd n l =>
      have h1 := h.1
      simp only [allowedTok, Bool.and_eq_true] at h1
      rw [lexLoop_append_eq _ (lex_vd n l acc out (tagNameOk_of_vocab n h1.1) h1.2), ih _ _ h.2]
      simp [toLAux, flushText_eq]
    | cl n =>
      have h1 := h.1
      simp only [allowedTok] at h1
      rw [lexLoop_append_eq _ (lex_cl n acc out (tagNameOk_of_vocab n h1)), ih _ _ h.2]
      simp [toLAux, flushText_eq]
    | cmt =>
      rw [lexLoop_append_eq _ (lex_cmt acc out), ih _ _ h.2]
      simp [toLAux, flushText_eq]

/-- **The lexer inverts the spelling of allowed tokens.** No side condition beyond `allowedTok`
    is needed: names come from the fixed vocabularies (lexable by enumeration), values and text
    are `valueSafe`, the comment is the fixed placeholder. -/
theorem lex_spell (ts : List Tok) (h : ts.all allowedTok = true) : lexHtml (spell ts) = some (toL ts) := by
  rw [lexHtml_eq, lex_toks ts [] [] h]
  simp [toL]

end Comrak
