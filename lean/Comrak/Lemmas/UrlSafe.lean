/-
C02 helper lemmas (part 3): `escape_href` and the dangerous-scheme test.
-/
import Comrak.Lemmas.HtmlSafeTree
namespace Comrak
open Bytes

/-- Lower-case letters, `:` and `/`: the bytes of the scheme patterns. -/
def plainPat (p : Bytes) : Bool := p.all fun c => (0x61 ≤ c && c ≤ 0x7A) || c == 0x3A || c == 0x2F

theorem hrefByte_head : ∀ b : UInt8,
    (hrefSafe b = true → hrefByte b = [b]) ∧
    (hrefSafe b = false → ∃ h t, hrefByte b = h :: t ∧ (h = 0x26 ∨ h = 0x25)) := by
  intro b
  refine ⟨fun h => by simp [hrefByte, h], fun h => ?_⟩
  unfold hrefByte
  simp only [h, Bool.false_eq_true, if_false]
  split
  · exact ⟨0x26, _, rfl, Or.inl rfl⟩
  · split
    · exact ⟨0x26, _, rfl, Or.inl rfl⟩
    · exact ⟨0x25, _, rfl, Or.inr rfl⟩

theorem plain_facts : ∀ a : UInt8, ((0x61 ≤ a && a ≤ 0x7A) || a == 0x3A || a == 0x2F) = true →
    a ≠ 0x26 ∧ a ≠ 0x25 ∧ ∀ b : UInt8, a = toLowerAscii b → hrefSafe b = true := by
  intro a
  have key : ∀ n : Fin 256, ((0x61 ≤ UInt8.ofNat n.val && UInt8.ofNat n.val ≤ 0x7A) || UInt8.ofNat n.val == 0x3A || UInt8.ofNat n.val == 0x2F) = true →
      UInt8.ofNat n.val ≠ 0x26 ∧ UInt8.ofNat n.val ≠ 0x25 ∧
      (List.all (List.finRange 256) fun m : Fin 256 =>
        decide (UInt8.ofNat n.val = toLowerAscii (UInt8.ofNat m.val) → hrefSafe (UInt8.ofNat m.val) = true)) = true := by
    decide +kernel
  intro ha
  have := key ⟨a.toNat, a.toNat_lt⟩
  simp only [UInt8.ofNat_toNat] at this
  obtain ⟨h1, h2, h3⟩ := this ha
  refine ⟨h1, h2, fun b hb => ?_⟩
  rw [List.all_eq_true] at h3
  have := h3 ⟨b.toNat, b.toNat_lt⟩ (List.mem_finRange _)
  simp only [UInt8.ofNat_toNat, decide_eq_true_eq] at this
  exact this hb

/-- `escape_href` neither hides nor creates a scheme prefix: matching a pattern of lower-case
    letters, `:` and `/` case-insensitively gives the same answer before and after escaping. -/
theorem isPrefixCI_escapeHref (p : Bytes) (hp : plainPat p = true) (u : Bytes) :
    isPrefixCI p (escapeHref u) = isPrefixCI p u := by
  induction p generalizing u with
  | nil => simp [isPrefixCI]
  | cons a p ih =>
    simp only [plainPat, List.all_cons, Bool.and_eq_true] at hp
    obtain ⟨ha1, ha2, ha3⟩ := plain_facts a hp.1
    cases u with
    | nil => simp [escapeHref, isPrefixCI]
    | cons b r =>
      rw [escapeHref_cons]
      by_cases hs : hrefSafe b = true
      · rw [(hrefByte_head b).1 hs]
        simp only [List.singleton_append, isPrefixCI, ih (by simpa [plainPat] using hp.2)]
      · have hs' : hrefSafe b = false := by simpa using hs
        obtain ⟨h, t, e, hh⟩ := (hrefByte_head b).2 hs'
        rw [e]
        simp only [List.cons_append, isPrefixCI]
        have hne : (a == toLowerAscii h) = false := by
          rcases hh with rfl | rfl
          · have : toLowerAscii 0x26 = 0x26 := by decide
            rw [this]; simpa using ha1
          · have : toLowerAscii 0x25 = 0x25 := by decide
            rw [this]; simpa using ha2
        have hne2 : (a == toLowerAscii b) = false := by
          apply Bool.eq_false_iff.mpr
          intro heq
          have := ha3 b (by simpa using heq)
          rw [this] at hs'; exact absurd hs' (by simp)
        simp [hne, hne2]

/-- **`escape_href` preserves the verdict of `dangerous_url`.** -/
theorem dangerousUrl_escapeHref (u : Bytes) : dangerousUrl (escapeHref u) = dangerousUrl u := by
  unfold dangerousUrl
  rw [isPrefixCI_escapeHref _ (by decide), isPrefixCI_escapeHref _ (by decide), isPrefixCI_escapeHref _ (by decide),
    isPrefixCI_escapeHref _ (by decide), isPrefixCI_escapeHref _ (by decide), isPrefixCI_escapeHref _ (by decide),
    isPrefixCI_escapeHref _ (by decide), isPrefixCI_escapeHref _ (by decide)]

end Comrak
