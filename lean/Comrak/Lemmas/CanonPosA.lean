/-
Positions of canonical documents, layer A: the line table and the slices of a source that is given
as a list of lines `G` free of line-end bytes (`src = joinLines G`).
-/
import Comrak.Canon.Pos
import Comrak.Lemmas.Sourcepos
namespace Comrak.Canon
open Comrak Bytes

/-- No line-end byte. -/
def cleanB (g : Bytes) : Bool := g.all fun b => b != 0x0A && b != 0x0D
def cleanG (G : List Bytes) : Bool := G.all cleanB

theorem joinLines_nil : joinLines [] = [] := rfl
theorem joinLines_cons (g : Bytes) (G : List Bytes) : joinLines (g :: G) = g ++ 0x0A :: joinLines G := by
  simp [joinLines]
theorem joinLines_append (A B : List Bytes) : joinLines (A ++ B) = joinLines A ++ joinLines B := by
  simp [joinLines]

theorem splitLines_line (g rest : Bytes) (h : cleanB g = true) :
    splitLines (g ++ 0x0A :: rest) = (g, [0x0A]) :: splitLines rest := by
  induction g with
  | nil => simp [splitLines]
  | cons b g ih =>
    simp only [cleanB, List.all_cons, Bool.and_eq_true, bne_iff_ne, ne_eq] at h
    have hg : cleanB g = true := by simpa [cleanB] using h.2
    simp only [List.cons_append, splitLines, ih hg, h.1.1, h.1.2, if_false]

theorem splitLines_join : ∀ (G : List Bytes), cleanG G = true →
    splitLines (joinLines G) = G.map fun g => (g, [0x0A])
  | [], _ => rfl
  | g :: G, h => by
    simp only [cleanG, List.all_cons, Bool.and_eq_true] at h
    rw [joinLines_cons, splitLines_line g _ h.1, splitLines_join G (by simpa [cleanG] using h.2)]
    rfl

/-- Line number `k` (0-based), empty beyond the end. -/
def nth : List Bytes → Nat → Bytes
  | [], _ => []
  | g :: _, 0 => g
  | _ :: G, k + 1 => nth G k

theorem drop_len_add {α} (g r : List α) (m : Nat) : (g ++ r).drop (g.length + m) = r.drop m := by
  induction g with
  | nil => simp
  | cons a g ih => simpa [Nat.succ_add] using ih

theorem take_len_add {α} (g r : List α) (m : Nat) : (g ++ r).take (g.length + m) = g ++ r.take m := by
  induction g with
  | nil => simp
  | cons a g ih => simpa [Nat.succ_add] using ih

/-- Offset of the first byte of line number `k` (0-based). -/
def offG : List Bytes → Nat → Nat
  | _, 0 => 0
  | [], _ + 1 => 0
  | g :: G, k + 1 => g.length + 1 + offG G k

theorem lineEntsFrom_get : ∀ (G : List Bytes) (o k : Nat), k < G.length →
    (lineEntsFrom o (G.map fun g => (g, [0x0A])))[k]? = some ⟨o + offG G k, (nth G k).length, 1⟩
  | [], _, _, h => by simp at h
  | g :: G, o, 0, _ => by simp [lineEntsFrom, offG, nth]
  | g :: G, o, k + 1, h => by
    simp only [List.map_cons, lineEntsFrom, List.getElem?_cons_succ, List.length_singleton]
    rw [lineEntsFrom_get G _ k (by simpa using h)]
    simp [offG, nth]
    omega

theorem lineEntsFrom_length : ∀ (L : List (Bytes × Bytes)) (o : Nat), (lineEntsFrom o L).length = L.length
  | [], _ => rfl
  | (c, t) :: ls, o => by simp [lineEntsFrom, lineEntsFrom_length ls]

theorem lineEnts_length (G : List Bytes) (h : cleanG G = true) : (lineEnts (joinLines G)).length = G.length := by
  simp [lineEnts, splitLines_join G h, lineEntsFrom_length]

theorem lineAt_join (G : List Bytes) (h : cleanG G = true) (l : Nat) (h1 : 1 ≤ l) (h2 : l ≤ G.length) :
    lineAt (lineEnts (joinLines G)) l = some ⟨offG G (l - 1), (nth G (l - 1)).length, 1⟩ := by
  have h0 : l ≠ 0 := by omega
  simp only [lineAt, h0, if_false, lineEnts, splitLines_join G h]
  rw [lineEntsFrom_get G 0 (l - 1) (by omega)]
  simp

/-! ### Access to the bytes -/

theorem joinLines_length : ∀ (G : List Bytes), (joinLines G).length = offG G G.length
  | [] => rfl
  | g :: G => by simp [joinLines_cons, offG, joinLines_length G]; omega

theorem joinLines_drop : ∀ (G : List Bytes) (k j : Nat), k < G.length → j ≤ (nth G k).length →
    (joinLines G).drop (offG G k + j) = (nth G k).drop j ++ 0x0A :: joinLines (G.drop (k + 1))
  | [], _, _, h, _ => by simp at h
  | g :: G, 0, j, _, hj => by
    simp only [nth] at hj
    simp [joinLines_cons, offG, nth, List.drop_append_of_le_length hj]
  | g :: G, k + 1, j, h, hj => by
    simp only [nth] at hj
    have := joinLines_drop G k j (by simpa using h) hj
    simp only [joinLines_cons, offG, nth, List.drop_succ_cons]
    rw [← this]
    have e : g.length + 1 + offG G k + j = g.length + ((offG G k + j) + 1) := by omega
    rw [e, drop_len_add]
    rfl

theorem joinLines_take : ∀ (G : List Bytes) (k j : Nat), k < G.length → j ≤ (nth G k).length →
    (joinLines G).take (offG G k + j) = joinLines (G.take k) ++ (nth G k).take j
  | [], _, _, h, _ => by simp at h
  | g :: G, 0, j, _, hj => by
    simp only [nth] at hj
    simp [joinLines_cons, offG, nth, joinLines_nil, List.take_append_of_le_length hj]
  | g :: G, k + 1, j, h, hj => by
    simp only [nth] at hj
    have := joinLines_take G k j (by simpa using h) hj
    simp only [joinLines_cons, offG, nth, List.take_succ_cons]
    have e : g.length + 1 + offG G k + j = g.length + ((offG G k + j) + 1) := by omega
    rw [e, take_len_add, List.take_succ_cons, this]
    simp

theorem offG_mono (G : List Bytes) : ∀ (k : Nat), k < G.length → offG G k + (nth G k).length + 1 = offG G (k + 1) := by
  induction G with
  | nil => intro k h; simp at h
  | cons g G ih =>
    intro k h
    cases k with
    | zero => simp [offG, nth]
    | succ k =>
      have := ih k (by simpa using h)
      simp only [offG, nth]
      omega

theorem offG_le (G : List Bytes) : ∀ (k m : Nat), k ≤ m → offG G k ≤ offG G m := by
  induction G with
  | nil => intro k m _; cases k <;> cases m <;> simp [offG]
  | cons g G ih =>
    intro k m h
    cases k with
    | zero => simp [offG]
    | succ k =>
      cases m with
      | zero => omega
      | succ m => simp only [offG]; have := ih k m (by omega); omega

theorem offG_take : ∀ (G : List Bytes) (m k : Nat), k ≤ m → offG (G.take m) k = offG G k := by
  intro G
  induction G with
  | nil => intro m k _; simp
  | cons g G ih =>
    intro m k hkm
    cases k with
    | zero => simp [offG]
    | succ k =>
      cases m with
      | zero => omega
      | succ m => simp [offG, ih m k (by omega)]

theorem nth_take : ∀ (G : List Bytes) (m k : Nat), k < m → nth (G.take m) k = nth G k := by
  intro G
  induction G with
  | nil => intro m k _; simp [nth]
  | cons g G ih =>
    intro m k hkm
    cases m with
    | zero => omega
    | succ m =>
      cases k with
      | zero => simp [nth]
      | succ k => simp [nth, ih m k (by omega)]

/-! ### Range clause -/

def lenAt (G : List Bytes) (l : Nat) : Nat := (nth G (l - 1)).length

/-- A span that lies in the source, in terms of the lines. -/
structure Valid (G : List Bytes) (sp : Sp) : Prop where
  l1 : 1 ≤ sp.sl
  l2 : sp.sl ≤ sp.el
  l3 : sp.el ≤ G.length
  c1 : 1 ≤ sp.sc
  c2 : sp.sc ≤ lenAt G sp.sl + 1
  c3 : (1 ≤ sp.ec ∧ sp.ec ≤ lenAt G sp.el + 1) ∨ (sp.ec = 0 ∧ lenAt G sp.el = 0)
  c4 : sp.sl < sp.el ∨ (sp.sl = sp.el ∧ (sp.sc ≤ sp.ec ∨ (sp.ec = 0 ∧ sp.sc = 1)))

theorem range_of_valid (G : List Bytes) (h : cleanG G = true) (sp : Sp) (v : Valid G sp) :
    spRangeFail (lineEnts (joinLines G)) sp = none := by
  obtain ⟨l1, l2, l3, c1, c2, c3, c4⟩ := v
  have a1 := lineAt_join G h sp.sl l1 (by omega)
  have a2 := lineAt_join G h sp.el (by omega) l3
  have e1 : spLinesOk (lineEnts (joinLines G)) sp = true := by
    simp [spLinesOk, lineEnts_length G h, l1, l2, l3]
  have e2 : spStartColOk (lineEnts (joinLines G)) sp = true := by
    simp only [spStartColOk, a1, LineEnt.maxCol]
    simp only [lenAt] at c2
    simp only [Nat.one_ne_zero, if_false, Bool.and_eq_true, decide_eq_true_eq]
    omega
  have e3 : spEndColOk (lineEnts (joinLines G)) sp = true := by
    simp only [spEndColOk, a2, LineEnt.maxCol]
    simp only [lenAt] at c3
    simp only [Nat.one_ne_zero, if_false, Bool.or_eq_true, Bool.and_eq_true, decide_eq_true_eq]
    omega
  have e4 : spStartLeEnd sp = true := by
    simp only [spStartLeEnd]; simp; omega
  simp [spRangeFail, e1, e2, e3, e4]

/-! ### Slices -/

/-- A span on one line: `X` stands on line `l` after the `P.length` bytes `P`. -/
theorem slice_line (G : List Bytes) (h : cleanG G = true) (l : Nat) (h1 : 1 ≤ l) (h2 : l ≤ G.length)
    (P X R : Bytes) (hg : nth G (l - 1) = P ++ X ++ R) (sp : Sp)
    (e1 : sp.sl = l) (e2 : sp.el = l) (e3 : sp.sc = P.length + 1) (e4 : sp.ec = P.length + X.length) :
    sliceLT (lineEnts (joinLines G)) (joinLines G) sp = some X := by
  have a1 := lineAt_join G h l h1 h2
  have hlen : (nth G (l - 1)).length = P.length + X.length + R.length := by simp [hg]; omega
  have hk : l - 1 < G.length := by omega
  have hsrc : offG G (l - 1) + (nth G (l - 1)).length + 1 ≤ (joinLines G).length := by
    rw [joinLines_length, offG_mono G (l - 1) hk]
    exact offG_le G _ _ (by omega)
  have hd := joinLines_drop G (l - 1) P.length hk (by omega)
  simp only [sliceLT, spOffsets, e1, e2, a1, e3, e4]
  have hne : ¬ (P.length + 1 = 0) := by omega
  simp only [hne, if_false]
  have ha : offG G (l - 1) + (P.length + 1) - 1 = offG G (l - 1) + P.length := by omega
  have hb : offG G (l - 1) + (P.length + X.length) - (offG G (l - 1) + P.length) = X.length := by omega
  rw [ha]
  have hc : (offG G (l - 1) + P.length ≤ offG G (l - 1) + (P.length + X.length) ∧
      offG G (l - 1) + (P.length + X.length) ≤ (joinLines G).length) := by omega
  simp only [decide_eq_true_eq, hc, and_self, if_true, Bool.and_self, hb, hd, hg]
  simp

/-- A span over several lines: it starts with what follows `P` on its first line and ends with the
    first `ec` bytes of its last line. -/
theorem slice_multi (G : List Bytes) (h : cleanG G = true) (sp : Sp) (h1 : 1 ≤ sp.sl) (h2 : sp.sl < sp.el)
    (h3 : sp.el ≤ G.length) (P U W R : Bytes) (hs : nth G (sp.sl - 1) = P ++ U) (he : nth G (sp.el - 1) = W ++ R)
    (e3 : sp.sc = P.length + 1) (e4 : sp.ec = W.length) :
    sliceLT (lineEnts (joinLines G)) (joinLines G) sp =
      some (U ++ 0x0A :: joinLines ((G.take (sp.el - 1)).drop sp.sl) ++ W) := by
  have a1 := lineAt_join G h sp.sl h1 (by omega)
  have a2 := lineAt_join G h sp.el (by omega) h3
  have hk1 : sp.sl - 1 < G.length := by omega
  have hk2 : sp.el - 1 < G.length := by omega
  have ht := joinLines_take G (sp.el - 1) W.length hk2 (by simp [he])
  have hlt : sp.sl - 1 < (G.take (sp.el - 1)).length := by simp; omega
  have hgd : nth (G.take (sp.el - 1)) (sp.sl - 1) = nth G (sp.sl - 1) := nth_take G _ _ (by omega)
  have hd := joinLines_drop (G.take (sp.el - 1)) (sp.sl - 1) P.length hlt (by rw [hgd, hs]; simp)
  have hoff : offG (G.take (sp.el - 1)) (sp.sl - 1) = offG G (sp.sl - 1) := offG_take G _ _ (by omega)
  have hsrc : offG G (sp.el - 1) + (nth G (sp.el - 1)).length + 1 ≤ (joinLines G).length := by
    rw [joinLines_length, offG_mono G (sp.el - 1) hk2]
    exact offG_le G _ _ (by omega)
  have hlen2 : (nth G (sp.el - 1)).length = W.length + R.length := by simp [he]
  have hmono : offG G (sp.sl - 1) + (nth G (sp.sl - 1)).length + 1 ≤ offG G (sp.el - 1) := by
    rw [offG_mono G (sp.sl - 1) hk1]
    exact offG_le G _ _ (by omega)
  have hlen1 : (nth G (sp.sl - 1)).length = P.length + U.length := by simp [hs]
  have hjl : (joinLines (G.take (sp.el - 1))).length = offG G (sp.el - 1) := by
    rw [joinLines_length, List.length_take, Nat.min_eq_left (by omega), offG_take G _ _ (Nat.le_refl _)]
  simp only [sliceLT, spOffsets, a1, a2, e3, e4]
  have hne : ¬ (P.length + 1 = 0) := by omega
  simp only [hne, if_false]
  have ha : offG G (sp.sl - 1) + (P.length + 1) - 1 = offG G (sp.sl - 1) + P.length := by omega
  rw [ha]
  have hc : (offG G (sp.sl - 1) + P.length ≤ offG G (sp.el - 1) + W.length ∧
      offG G (sp.el - 1) + W.length ≤ (joinLines G).length) := by omega
  simp only [decide_eq_true_eq, hc, and_self, if_true, Bool.and_self]
  rw [← List.drop_take, ht, he, List.take_left',
    List.drop_append_of_le_length (by rw [hjl]; omega), ← hoff, hd, hgd, hs]
  · have e : sp.sl - 1 + 1 = sp.sl := by omega
    simp [e]
  · rfl

end Comrak.Canon
