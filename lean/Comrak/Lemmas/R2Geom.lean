/-
C04 / C01 helper lemmas: "formatters never meet a node in a context they do not handle".

`geomT` is the formatter-independent reading of that sentence: at every node, the facts about
its surroundings that some formatter relies on without checking (a paragraph has a parent, an
item sits in a list, a table has a row, a row sits in a table, a cell sits in a row of a table
and its index is within the table's alignments).  `geomT_of_shape` derives it from the C04
shape predicate by a mutual induction that carries the table geometry two levels down
(table -> rows -> cells).  The XML and CommonMark formatters' own panic sites are then stated
as predicates (`xmlNoPanicT`, `cmNoPanicT`) and shown to follow from `geomT`.
-/
import Comrak.Shape
import Comrak.Xml
import Comrak.Cm
namespace Comrak
open Bytes

def isListV : Option NodeValue → Bool | some (.list _) => true | _ => false

/-- What the formatters take for granted about the surroundings of one node. -/
def nodeGeom (parent grand : Option NodeValue) (idx : Nat) (v : NodeValue) (cs : Forest) : Bool :=
  match v with
  | .paragraph => parent.isSome
  | .item _ => isListV parent
  | .taskItem _ => isListV parent
  | .table .. => decide (cs.length ≥ 1)
  | .tableRow _ => isTable parent
  | .tableCell =>
    isRowV parent && (match grand with | some (.table aligns ..) => decide (idx < aligns.length) | _ => false)
  | _ => true

mutual
def geomT (parent grand : Option NodeValue) (idx : Nat) : Tree → Bool
  | .node v _ cs => nodeGeom parent grand idx v cs && geomF (some v) parent 0 cs
def geomF (parent grand : Option NodeValue) (idx : Nat) : Forest → Bool
  | .nil => true
  | .cons t ts => geomT parent grand idx t && geomF parent grand (idx + 1) ts
end

/-! ### From `Shape` to `geomT` -/

/-- What has to be known about the context of a node beyond `shapeT parent` of it. -/
def ctxOk (parent grand : Option NodeValue) (idx : Nat) (v : NodeValue) (cs : Forest) : Bool :=
  match v with
  | .paragraph => parent.isSome
  | .item _ => parent.isSome
  | .taskItem _ => parent.isSome
  | .tableRow _ => (match parent with | some (.table aligns ..) => decide (cs.length ≤ aligns.length) | _ => false)
  | .tableCell => (match grand with | some (.table aligns ..) => decide (idx < aligns.length) | _ => false)
  | _ => true

/-- Every row among the siblings has at most `n` cells. -/
def rowsFit (n : Nat) : Forest → Bool
  | .nil => true
  | .cons (.node v _ cs) r => (match v with | .tableRow _ => decide (cs.length ≤ n) | _ => true) && rowsFit n r

/-- What has to be known about a run of siblings (children of `v`, from index `idx` on). -/
def fctxOk (v : NodeValue) (g : Option NodeValue) (idx : Nat) (f : Forest) : Bool :=
  match v with
  | .table aligns .. => rowsFit aligns.length f
  | .tableRow _ => (match g with | some (.table aligns ..) => decide (idx + f.length ≤ aligns.length) | _ => false)
  | _ => true

theorem cellsOk_rowsFit (n : Nat) : ∀ f : Forest, cellsOk n f = true → rowsFit n f = true
  | .nil, _ => rfl
  | .cons (.node v _ cs) r, h => by
    simp only [cellsOk, Bool.and_eq_true] at h
    simp only [rowsFit, Bool.and_eq_true]
    refine ⟨?_, cellsOk_rowsFit n r h.2⟩
    cases v <;> simp_all

theorem rowsOk_length_pos (cs : Forest) (h : rowsOk cs = true) : cs.length ≥ 1 := by
  cases cs with
  | nil => simp [rowsOk] at h
  | cons t ts => simp [Forest.length]

/-- An item (or task item) that has a parent at all has a list as parent, by the containment table. -/
theorem item_parent_list (p : NodeValue) (v : NodeValue) (hv : v.kind = .item ∨ v.kind = .taskItem)
    (h : canContain p.kind v.kind = true) : isListV (some p) = true := by
  rcases hv with hv | hv <;> rw [hv] at h <;> cases p <;> simp_all [canContain, NodeValue.kind, Kind.isBlock, isListV]

theorem nodeGeom_of_shape (parent grand : Option NodeValue) (idx : Nat) (v : NodeValue) (cs : Forest)
    (hc : (match parent with | some p => canContain p.kind v.kind | none => true) = true)
    (hp : placeOk parent v = true) (hl : localOk v cs = true) (hx : ctxOk parent grand idx v cs = true) :
    nodeGeom parent grand idx v cs = true := by
  cases v
  case item l =>
    cases parent with
    | none => simp [ctxOk] at hx
    | some p => exact item_parent_list p (.item l) (Or.inl rfl) hc
  case taskItem s =>
    cases parent with
    | none => simp [ctxOk] at hx
    | some p => exact item_parent_list p (.taskItem s) (Or.inr rfl) hc
  case table aligns n r c =>
    simp only [localOk, Bool.and_eq_true] at hl
    simpa [nodeGeom] using rowsOk_length_pos cs hl.1.1
  case tableCell =>
    simp only [placeOk] at hp
    simp only [ctxOk] at hx
    simp [nodeGeom, hp, hx]
  all_goals simp_all [nodeGeom, ctxOk, placeOk]

theorem fctxOk_children (parent grand : Option NodeValue) (idx : Nat) (v : NodeValue) (cs : Forest)
    (hl : localOk v cs = true) (hx : ctxOk parent grand idx v cs = true) :
    fctxOk v parent 0 cs = true := by
  cases v
  case table aligns n r c =>
    simp only [localOk, Bool.and_eq_true, beq_iff_eq] at hl
    simp only [fctxOk]
    rw [hl.1.2]
    exact cellsOk_rowsFit n cs hl.2
  case tableRow h =>
    simp only [ctxOk] at hx
    simp only [fctxOk]
    split at hx
    · simpa using hx
    · simp at hx
  all_goals rfl

/-- The context facts of the head of a run of siblings. -/
theorem ctxOk_head (v : NodeValue) (g : Option NodeValue) (idx : Nat) (w : NodeValue) (sp : Sp) (cs' ts : Forest)
    (hp : placeOk (some v) w = true) (hf : fctxOk v g idx (.cons (.node w sp cs') ts) = true) :
    ctxOk (some v) g idx w cs' = true := by
  cases w
  case tableRow h =>
    cases v <;> simp [placeOk, isTable] at hp
    simp only [fctxOk, rowsFit, Bool.and_eq_true] at hf
    simpa [ctxOk] using hf.1
  case tableCell =>
    cases v <;> simp [placeOk, isRowV] at hp
    cases g with
    | none => simp [fctxOk] at hf
    | some gv =>
      cases gv <;> simp [fctxOk, Forest.length] at hf
      have hf' := of_decide_eq_true hf
      simp only [ctxOk, decide_eq_true_eq]
      omega
  all_goals simp [ctxOk]

theorem fctxOk_tail (v : NodeValue) (g : Option NodeValue) (idx : Nat) (t : Tree) (ts : Forest)
    (hf : fctxOk v g idx (.cons t ts) = true) : fctxOk v g (idx + 1) ts = true := by
  cases v
  case table aligns n r c =>
    cases t with
    | node w sp cs' =>
      simp only [fctxOk, rowsFit, Bool.and_eq_true] at hf
      simpa [fctxOk] using hf.2
  case tableRow h =>
    cases g with
    | none => simp [fctxOk] at hf
    | some gv =>
      cases gv <;> simp [fctxOk, Forest.length] at hf
      have hf' := of_decide_eq_true hf
      simp only [fctxOk, decide_eq_true_eq]
      omega
  all_goals rfl

mutual
theorem geomT_of_shapeT : ∀ (t : Tree) (parent grand : Option NodeValue) (idx : Nat),
    shapeT parent t = true → ctxOk parent grand idx t.value t.children = true → geomT parent grand idx t = true
  | .node v sp cs, parent, grand, idx, h, hx => by
    simp only [shapeT, Bool.and_eq_true] at h
    simp only [Tree.value, Tree.children] at hx
    simp only [geomT, Bool.and_eq_true]
    exact ⟨nodeGeom_of_shape parent grand idx v cs h.1.1.1 h.1.1.2 h.1.2 hx,
      geomF_of_shapeF cs v parent 0 h.2 (fctxOk_children parent grand idx v cs h.1.2 hx)⟩
theorem geomF_of_shapeF : ∀ (f : Forest) (v : NodeValue) (g : Option NodeValue) (idx : Nat),
    shapeF (some v) f = true → fctxOk v g idx f = true → geomF (some v) g idx f = true
  | .nil, _, _, _, _, _ => rfl
  | .cons (.node w sp cs') ts, v, g, idx, h, hf => by
    simp only [shapeF, Bool.and_eq_true] at h
    have hp : placeOk (some v) w = true := by
      have := h.1
      simp only [shapeT, Bool.and_eq_true] at this
      exact this.1.1.2
    simp only [geomF, Bool.and_eq_true]
    exact ⟨geomT_of_shapeT (.node w sp cs') (some v) g idx h.1 (ctxOk_head v g idx w sp cs' ts hp hf),
      geomF_of_shapeF ts v g (idx + 1) h.2 (fctxOk_tail v g idx _ ts hf)⟩
end

/-- Kinds that may be the root of a tree handed to a formatter: a paragraph, an item or a task
    item as root would have no parent to look at (rows and cells are excluded by `Shape`
    itself).  Every parsed tree has the document as root. -/
def rootOk : NodeValue → Bool
  | .paragraph => false
  | .item _ => false
  | .taskItem _ => false
  | _ => true

/-- A `Shape` tree with an admissible root has the geometry the formatters rely on, everywhere. -/
theorem geom_of_shape (t : Tree) (h : Shape t = true) (hr : rootOk t.value = true) : geomT none none 0 t = true := by
  apply geomT_of_shapeT t none none 0 h
  cases t with
  | node v sp cs =>
    simp only [Shape, shapeT, Bool.and_eq_true] at h
    have hp := h.1.1.2
    simp only [Tree.value, Tree.children] at hr ⊢
    cases v <;> simp_all [ctxOk, placeOk, isTable, isRowV, rootOk]

/-! ### XML (`src/xml.rs`) -/

/-- The partial operations of `XmlFormatter::format_node`: for a table cell,
    `ancestors.next().unwrap()` twice (parent and grandparent must exist) and, below a header
    row of a table, `alignments[ix]` (the index must be within the alignments).  Everything else
    in `format_node` is total (`alert.title.unwrap()` is guarded by `is_some()`, the
    `unreachable!()` of `escape` is behind the `XML_UNSAFE` table that lists exactly its four
    arms: `xmlUnsafe`/`xmlEsc` in the model). -/
def xmlNodeNoPanic (cx : XCtx) (v : NodeValue) : Bool :=
  match v with
  | .tableCell =>
    cx.parent.isSome && cx.grand.isSome &&
    (match cx.parent, cx.grand with
     | some (.tableRow true), some (.table aligns ..) => decide (cx.index < aligns.length)
     | _, _ => true)
  | _ => true

mutual
def xmlNoPanicT (cx : XCtx) : Tree → Bool
  | .node v _ cs => xmlNodeNoPanic cx v && xmlNoPanicF (some v) cx.parent 0 cs
def xmlNoPanicF (parent grand : Option NodeValue) (idx : Nat) : Forest → Bool
  | .nil => true
  | .cons t ts => xmlNoPanicT { parent := parent, grand := grand, index := idx } t && xmlNoPanicF parent grand (idx + 1) ts
end

theorem xmlNode_of_geom (cx : XCtx) (v : NodeValue) (cs : Forest)
    (h : nodeGeom cx.parent cx.grand cx.index v cs = true) : xmlNodeNoPanic cx v = true := by
  cases v
  case tableCell =>
    simp only [nodeGeom, Bool.and_eq_true] at h
    obtain ⟨h1, h2⟩ := h
    cases hp : cx.parent with
    | none => simp [hp, isRowV] at h1
    | some p =>
      cases hg : cx.grand with
      | none => simp [hg] at h2
      | some g =>
        simp only [xmlNodeNoPanic, hp, hg, Option.isSome_some, Bool.true_and]
        split
        · rename_i heq1 heq2
          cases heq2
          simpa [hg] using h2
        · rfl
  all_goals rfl

mutual
theorem xmlNoPanicT_of_geom : ∀ (t : Tree) (cx : XCtx), geomT cx.parent cx.grand cx.index t = true → xmlNoPanicT cx t = true
  | .node v sp cs, cx, h => by
    simp only [geomT, Bool.and_eq_true] at h
    simp only [xmlNoPanicT, Bool.and_eq_true]
    exact ⟨xmlNode_of_geom cx v cs h.1, xmlNoPanicF_of_geom cs (some v) cx.parent 0 h.2⟩
theorem xmlNoPanicF_of_geom : ∀ (f : Forest) (parent grand : Option NodeValue) (idx : Nat),
    geomF parent grand idx f = true → xmlNoPanicF parent grand idx f = true
  | .nil, _, _, _, _ => rfl
  | .cons t ts, parent, grand, idx, h => by
    simp only [geomF, Bool.and_eq_true] at h
    simp only [xmlNoPanicF, Bool.and_eq_true]
    exact ⟨xmlNoPanicT_of_geom t { parent := parent, grand := grand, index := idx } h.1,
      xmlNoPanicF_of_geom ts parent grand (idx + 1) h.2⟩
end

/-- Where the XML model reads `aligns.getD ix none` in place of the code's `alignments[ix]`:
    under `xmlNodeNoPanic` the default is never used. -/
theorem xml_align_in_range (cx : XCtx) (hdr : Bool) (aligns : List Align) (n r c : Nat)
    (hp : cx.parent = some (.tableRow true)) (hg : cx.grand = some (.table aligns n r c))
    (h : xmlNodeNoPanic cx .tableCell = true) :
    ∃ hlt : cx.index < aligns.length, aligns.getD cx.index .none = aligns[cx.index] := by
  have _ := hdr
  simp only [xmlNodeNoPanic, hp, hg, Option.isSome_some, Bool.true_and, decide_eq_true_eq] at h
  exact ⟨h, by simp [List.getD, h]⟩

/-! ### CommonMark (`src/cm.rs`) -/

/-- The partial operations of `CommonMarkFormatter::format_node`:
    * `format_item` (items and task items): `node.parent().unwrap()` and `unreachable!()` unless
      the parent is a list;
    * `format_code`: `literal[0]` is read before `literal.is_empty()` is consulted, so the
      literal must not be empty (the parser guarantees it: `normalizeCode_nonempty`, C01);
    * `format_table_cell` on exit: `node.parent().unwrap()` and `panic!()` unless the parent is a
      row; for the last cell of a header row also `.parent().unwrap().parent().unwrap()` and
      `panic!()` unless the grandparent is a table.
    (`get_in_tight_list_item`'s `tmp.parent().unwrap()` is reached only for an item that is
    somebody's child; `alert.title.unwrap()` is guarded; `format_code_block`'s `literal[0]` is
    behind `literal.len() <= 2 ||`; the `write!(..).unwrap()`s write to a `Vec`.  The debug-build
    `validate()` panic at the top of `format_document` is `shape_validate`.) -/
def cmNodeNoPanic (cx : Cm.Ctx) (v : NodeValue) : Bool :=
  match v with
  | .item _ => isListV cx.parent
  | .taskItem _ => isListV cx.parent
  | .code _ lit => !lit.isEmpty
  | .tableCell =>
    (match cx.parent with
     | some (.tableRow h) => !(h && cx.next.isNone) || isTable cx.grand
     | _ => false)
  | _ => true

mutual
def cmNoPanicT (cx : Cm.Ctx) : Tree → Bool
  | .node v _ cs => cmNodeNoPanic cx v && cmNoPanicF (some v) cx.parent false cs
def cmNoPanicF (parent grand : Option NodeValue) (hasPrev : Bool) : Forest → Bool
  | .nil => true
  | .cons t ts =>
    cmNoPanicT { parent := parent, grand := grand, hasPrev := hasPrev,
                 next := (match ts with | .cons n _ => some n.value | .nil => none) } t &&
    cmNoPanicF parent grand true ts
end

def codeLitNonEmpty : NodeValue → Bool
  | .code _ lit => !lit.isEmpty
  | _ => true

theorem cmNode_of_geom (cx : Cm.Ctx) (idx : Nat) (v : NodeValue) (cs : Forest)
    (h : nodeGeom cx.parent cx.grand idx v cs = true) (hc : codeLitNonEmpty v = true) :
    cmNodeNoPanic cx v = true := by
  cases v
  case tableCell =>
    simp only [nodeGeom, Bool.and_eq_true] at h
    obtain ⟨h1, h2⟩ := h
    cases hp : cx.parent with
    | none => simp [hp, isRowV] at h1
    | some p =>
      cases p <;> simp [hp, isRowV] at h1
      cases hg : cx.grand with
      | none => simp [hg] at h2
      | some g =>
        cases g <;> simp [hg] at h2
        simp [cmNodeNoPanic, hp, hg, isTable]
  all_goals simp_all [cmNodeNoPanic, nodeGeom, codeLitNonEmpty]

mutual
theorem cmNoPanicT_of_geom : ∀ (t : Tree) (cx : Cm.Ctx) (idx : Nat),
    geomT cx.parent cx.grand idx t = true → t.allV codeLitNonEmpty = true → cmNoPanicT cx t = true
  | .node v sp cs, cx, idx, h, hc => by
    simp only [geomT, Bool.and_eq_true] at h
    simp only [Tree.allV, Bool.and_eq_true] at hc
    simp only [cmNoPanicT, Bool.and_eq_true]
    exact ⟨cmNode_of_geom cx idx v cs h.1 hc.1, cmNoPanicF_of_geom cs (some v) cx.parent false 0 h.2 hc.2⟩
theorem cmNoPanicF_of_geom : ∀ (f : Forest) (parent grand : Option NodeValue) (hp : Bool) (idx : Nat),
    geomF parent grand idx f = true → f.allV codeLitNonEmpty = true → cmNoPanicF parent grand hp f = true
  | .nil, _, _, _, _, _, _ => rfl
  | .cons t ts, parent, grand, hp, idx, h, hc => by
    simp only [geomF, Bool.and_eq_true] at h
    simp only [Forest.allV, Bool.and_eq_true] at hc
    simp only [cmNoPanicF, Bool.and_eq_true]
    exact ⟨cmNoPanicT_of_geom t _ idx h.1 hc.1, cmNoPanicF_of_geom ts parent grand true (idx + 1) h.2 hc.2⟩
end

end Comrak
