/-
Lemmas for C15 (anchors): the decimal spelling is injective, hence the candidates
`id, id-1, id-2, ...` are pairwise different, hence (pigeonhole) `issued.length + 1` of them
cannot all be in `issued`.
-/
import Comrak.Anchor
namespace Comrak
open Bytes

/-- Value of a decimal digit string read on top of `v`. -/
def decVal (v : Nat) (ds : Bytes) : Nat := ds.foldl (fun v c => v * 10 + (c.toNat - 48)) v

theorem decVal_append (v : Nat) (a b : Bytes) : decVal v (a ++ b) = decVal (decVal v a) b := by
  simp [decVal, List.foldl_append]

theorem digit_toNat (n : Nat) : (UInt8.ofNat (48 + n % 10)).toNat - 48 = n % 10 := by
  have h : n % 10 < 10 := Nat.mod_lt _ (by omega)
  have h2 : ∀ m : Fin 10, (UInt8.ofNat (48 + m.val)).toNat - 48 = m.val := by decide
  exact h2 ⟨n % 10, h⟩

/-- With enough fuel the digits are put in front of `acc` and read back as `n`. -/
theorem ofNatDecAux_spec (fuel n : Nat) (acc : Bytes) (h : n < fuel) :
    ∃ ds, ofNatDecAux fuel n acc = ds ++ acc ∧ decVal 0 ds = n := by
  induction fuel generalizing n acc with
  | zero => omega
  | succ k ih =>
    simp only [ofNatDecAux]
    split
    · rename_i hlt
      refine ⟨[UInt8.ofNat (48 + n % 10)], rfl, ?_⟩
      simp only [decVal, List.foldl_cons, List.foldl_nil, Nat.zero_mul, Nat.zero_add, digit_toNat]
      omega
    · rename_i hge
      have hk : n / 10 < k := by omega
      obtain ⟨ds, h1, h2⟩ := ih (n / 10) (UInt8.ofNat (48 + n % 10) :: acc) hk
      refine ⟨ds ++ [UInt8.ofNat (48 + n % 10)], by rw [h1, List.append_assoc]; rfl, ?_⟩
      rw [decVal_append, h2]
      simp only [decVal, List.foldl_cons, List.foldl_nil, digit_toNat]
      omega

theorem decVal_ofNatDec (n : Nat) : decVal 0 (ofNatDec n) = n := by
  obtain ⟨ds, h1, h2⟩ := ofNatDecAux_spec (n + 1) n [] (by omega)
  unfold ofNatDec
  rw [h1, List.append_nil, h2]

theorem ofNatDec_injective {m n : Nat} (h : ofNatDec m = ofNatDec n) : m = n := by
  rw [← decVal_ofNatDec m, ← decVal_ofNatDec n, h]

/-- The candidates of the uniqueness loop are pairwise different. -/
theorem anchorCand_injective (id : Bytes) {j k : Nat} (h : anchorCand id j = anchorCand id k) : j = k := by
  unfold anchorCand at h
  by_cases hj : j = 0 <;> by_cases hk : k = 0
  · omega
  · simp only [hj, hk, if_true, if_false] at h
    have := congrArg List.length h
    simp at this
  · simp only [hj, hk, if_true, if_false] at h
    have := congrArg List.length h
    simp at this
  · simp only [hj, hk, if_false] at h
    have h1 : ofNatDec j = ofNatDec k := by
      have := List.append_cancel_left h
      exact this
    exact ofNatDec_injective h1

theorem anchorLoop_eq_cand (issued : List Bytes) (id : Bytes) (fuel uniq : Nat) :
    anchorLoop issued id (fuel + 1) uniq =
      if issued.contains (anchorCand id uniq) then anchorLoop issued id fuel (uniq + 1)
      else some (anchorCand id uniq) := rfl

/-- A failed search means every candidate tried was already issued. -/
theorem anchorLoop_none (issued : List Bytes) (id : Bytes) (fuel uniq : Nat)
    (h : anchorLoop issued id fuel uniq = none) : ∀ k, k < fuel → anchorCand id (uniq + k) ∈ issued := by
  induction fuel generalizing uniq with
  | zero => intro k hk; omega
  | succ f ih =>
    rw [anchorLoop_eq_cand] at h
    split at h
    · rename_i hc
      intro k hk
      cases k with
      | zero => simpa using hc
      | succ k =>
        have := ih (uniq + 1) h k (by omega)
        have e : uniq + 1 + k = uniq + (k + 1) := by omega
        rwa [e] at this
    · simp at h

/-- A successful search returns a candidate that was not issued before. -/
theorem anchorLoop_some_spec (issued : List Bytes) (id : Bytes) (fuel uniq : Nat) (a : Bytes)
    (h : anchorLoop issued id fuel uniq = some a) :
    a ∉ issued ∧ ∃ k, k < fuel ∧ a = anchorCand id (uniq + k) ∧ ∀ j, j < k → anchorCand id (uniq + j) ∈ issued := by
  induction fuel generalizing uniq with
  | zero => simp [anchorLoop] at h
  | succ f ih =>
    rw [anchorLoop_eq_cand] at h
    split at h
    · rename_i hc
      obtain ⟨h1, k, hk, h2, h3⟩ := ih (uniq + 1) h
      refine ⟨h1, k + 1, by omega, ?_, ?_⟩
      · have e : uniq + 1 + k = uniq + (k + 1) := by omega
        rwa [e] at h2
      · intro j hj
        cases j with
        | zero => simpa using hc
        | succ j =>
          have := h3 j (by omega)
          have e : uniq + 1 + j = uniq + (j + 1) := by omega
          rwa [e] at this
    · rename_i hc
      have ha : a = anchorCand id uniq := by simpa using h.symm
      subst ha
      refine ⟨by simpa using hc, 0, by omega, rfl, ?_⟩
      intro j hj; omega

/-- Pigeonhole: `issued.length + 1` pairwise different candidates are not all in `issued`. -/
theorem anchorLoop_ne_none (issued : List Bytes) (id : Bytes) (uniq : Nat) :
    anchorLoop issued id (issued.length + 1) uniq ≠ none := by
  intro h
  have hall := anchorLoop_none issued id _ uniq h
  let cands := (List.range (issued.length + 1)).map fun k => anchorCand id (uniq + k)
  have hnd : cands.Nodup := by
    show List.Pairwise (· ≠ ·) _
    rw [List.pairwise_map]
    refine List.Pairwise.imp ?_ (List.nodup_range (n := issued.length + 1))
    intro a b hab he
    exact hab (by have := anchorCand_injective id he; omega)
  have hsub : cands ⊆ issued := by
    intro x hx
    obtain ⟨k, hk, rfl⟩ := List.mem_map.mp hx
    exact hall k (List.mem_range.mp hk)
  have := List.Nodup.length_le_of_subset hnd hsub
  simp [cands] at this
  omega

theorem anchorizeFrom_spec (nt : NormTable) (hs : List Bytes) (issued : List Bytes)
    (fresh : ∀ issued h, (anchorize nt issued h).1 ∉ issued ∧ (anchorize nt issued h).2 = (anchorize nt issued h).1 :: issued) :
    (∀ a ∈ anchorizeFrom nt issued hs, a ∉ issued) ∧ (anchorizeFrom nt issued hs).Nodup := by
  induction hs generalizing issued with
  | nil => simp [anchorizeFrom]
  | cons h hs ih =>
    simp only [anchorizeFrom]
    obtain ⟨f1, f2⟩ := fresh issued h
    obtain ⟨i1, i2⟩ := ih (anchorize nt issued h).2
    have i1 : ∀ a ∈ anchorizeFrom nt (anchorize nt issued h).2 hs, a ∉ (anchorize nt issued h).1 :: issued := by
      intro a ha
      have := i1 a ha
      rwa [f2] at this
    refine ⟨?_, ?_⟩
    · intro a ha
      rcases List.mem_cons.mp ha with rfl | ha
      · exact f1
      · have := i1 a ha
        simp only [List.mem_cons, not_or] at this
        exact this.2
    · rw [List.nodup_cons]
      refine ⟨?_, i2⟩
      intro hm
      have := i1 _ hm
      simp at this

end Comrak
