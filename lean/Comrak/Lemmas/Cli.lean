/-
Helper lemmas for C16 (Props/C16.lean).
-/
import Comrak.Cli
namespace Comrak.Cli
open Comrak Bytes

deriving instance DecidableEq for Except

/-- Turning extensions on one by one = "the field is on iff it was on or its name is in the list". -/
theorem foldl_enableExt (es : List Ext) (o : ExtensionOptions) :
    es.foldl enableExt o =
      { o with
        strikethrough := o.strikethrough || es.contains .strikethrough
        tagfilter := o.tagfilter || es.contains .tagfilter
        table := o.table || es.contains .table
        autolink := o.autolink || es.contains .autolink
        tasklist := o.tasklist || es.contains .tasklist
        superscript := o.superscript || es.contains .superscript
        footnotes := o.footnotes || es.contains .footnotes
        descriptionLists := o.descriptionLists || es.contains .descriptionLists
        multilineBlockQuotes := o.multilineBlockQuotes || es.contains .multilineBlockQuotes
        alerts := o.alerts || es.contains .alerts
        mathDollars := o.mathDollars || es.contains .mathDollars
        mathCode := o.mathCode || es.contains .mathCode
        wikilinksTitleAfterPipe := o.wikilinksTitleAfterPipe || es.contains .wikilinksTitleAfterPipe
        wikilinksTitleBeforePipe := o.wikilinksTitleBeforePipe || es.contains .wikilinksTitleBeforePipe
        underline := o.underline || es.contains .underline
        subscript := o.subscript || es.contains .subscript
        spoiler := o.spoiler || es.contains .spoiler
        greentext := o.greentext || es.contains .greentext } := by
  induction es generalizing o with
  | nil => simp
  | cons e es ih =>
    rw [List.foldl_cons, ih]
    cases e <;> simp [enableExt]

theorem mergeLoop_all_some (env : List Bytes) (pre cfg : List Bytes) :
    mergeLoop pre.length (env.map some) (pre ++ cfg) = some (pre ++ env ++ cfg) := by
  induction env generalizing pre with
  | nil => simp [mergeLoop]
  | cons a env ih =>
    simp only [List.map_cons, mergeLoop]
    have hle : pre.length ≤ (pre ++ cfg).length := by simp
    have h : (pre ++ cfg).insertIdx pre.length a = (pre ++ [a]) ++ cfg := by
      induction pre with
      | nil => simp
      | cons p pre ihp => simpa using ihp (by simp)
    rw [if_pos hle, h]
    have := ih (pre ++ [a])
    simp only [List.length_append, List.length_cons, List.length_nil, Nat.zero_add] at this
    rw [this]
    simp

theorem readFiles_ok (w : World) (fs : List Bytes) (acc : Bytes)
    (content : Bytes → Bytes) (h : ∀ f ∈ fs, w.file f = some (content f)) :
    readFiles w fs acc = .ok (acc ++ (fs.map content).flatten) := by
  induction fs generalizing acc with
  | nil => simp [readFiles]
  | cons f fs ih =>
    have hf := h f (by simp)
    simp only [readFiles, hf]
    rw [ih _ (fun g hg => h g (by simp [hg]))]
    simp

theorem readFiles_unreadable (w : World) (pre : List Bytes) (f : Bytes) (post : List Bytes) (acc : Bytes)
    (hpre : ∀ g ∈ pre, (w.file g).isSome) (hf : w.file f = none) :
    readFiles w (pre ++ f :: post) acc = .error f := by
  induction pre generalizing acc with
  | nil => simp [readFiles, hf]
  | cons g pre ih =>
    have hg := hpre g (by simp)
    cases hc : w.file g with
    | none => simp [hc] at hg
    | some c =>
      simp only [List.cons_append, readFiles, hc]
      exact ih _ (fun x hx => hpre x (by simp [hx]))

end Comrak.Cli
