/-
Helper lemmas about the line splitter (Comrak/Feed.lean).
-/
import Comrak.Feed
namespace Comrak.Feed
open Comrak Bytes

/-- A byte that is neither a line end nor NUL. -/
def plain (b : UInt8) : Prop := b ≠ 0x0A ∧ b ≠ 0x0D ∧ b ≠ 0x00

/-- The CR flag only matters when the next byte is LF. -/
theorem splitLines_flag_head (cur : Bytes) (b : UInt8) (r : Bytes) (hb : b ≠ 0x0A) :
    splitLines cur true (b :: r) = splitLines cur false (b :: r) := by
  simp [splitLines, hb]

theorem splitLines_noLF (cur : Bytes) (cr : Bool) (y : Bytes) (h : (0x0A : UInt8) ∉ y) :
    splitLines cur cr y = splitLines cur false y := by
  cases y with
  | nil => simp [splitLines]
  | cons b r =>
    have hb : b ≠ 0x0A := fun e => h (by simp [e])
    simp [splitLines, hb]

/-- A run of plain bytes is appended to the pending line. -/
theorem splitLines_seg (seg rest cur : Bytes) (h : ∀ b ∈ seg, plain b) :
    splitLines cur false (seg ++ rest) = splitLines (cur ++ seg) false rest := by
  induction seg generalizing cur with
  | nil => simp
  | cons b r ih =>
    have hb := h b (by simp)
    have hr : ∀ c ∈ r, plain c := fun c hc => h c (by simp [hc])
    simp only [List.cons_append, splitLines, hb.1, hb.2.1, hb.2.2, if_false]
    rw [ih _ hr]; simp

theorem scanSeg_append (rem : Bytes) : (scanSeg rem).1 ++ (scanSeg rem).2 = rem := by
  induction rem with
  | nil => rfl
  | cons b r ih =>
    simp only [scanSeg]
    split
    · rfl
    · simp [ih]

theorem scanSeg_plain (rem : Bytes) : ∀ b ∈ (scanSeg rem).1, plain b := by
  induction rem with
  | nil => simp [scanSeg]
  | cons c r ih =>
    simp only [scanSeg]
    split
    · simp
    · rename_i hc
      intro b hb
      simp only [List.mem_cons] at hb
      rcases hb with rfl | hb
      · simp only [isLineEnd, Bool.or_eq_true, beq_iff_eq, not_or] at hc
        exact ⟨hc.1.1, hc.1.2, hc.2⟩
      · exact ih b hb

/-- The scan stops at the end of the input or at a line-end byte or NUL. -/
theorem scanSeg_stop (rem : Bytes) (c : UInt8) (t : Bytes) (h : (scanSeg rem).2 = c :: t) :
    c = 0x0A ∨ c = 0x0D ∨ c = 0x00 := by
  induction rem with
  | nil => simp [scanSeg] at h
  | cons b r ih =>
    simp only [scanSeg] at h
    split at h
    · rename_i hb
      simp only [List.cons.injEq] at h
      rw [← h.1]
      simpa [isLineEnd, or_assoc] using hb
    · exact ih h

theorem feedLoop_nil (eof : Bool) (fuel : Nat) (lb : Bytes) : feedLoop eof fuel lb [] = ⟨[], lb, false⟩ := by
  cases fuel <;> simp [feedLoop]

/-- The loop computes the specification (for `eof = true`, any pending `linebuf`). -/
theorem feedLoop_spec (fuel : Nat) (lb rem : Bytes) (hf : rem.length ≤ fuel) :
    finish (feedLoop true fuel lb rem) = splitLines lb false rem := by
  induction fuel generalizing lb rem with
  | zero =>
    have : rem = [] := List.eq_nil_of_length_eq_zero (by omega)
    subst this
    by_cases h : lb = [] <;> simp [feedLoop, finish, splitLines, h]
  | succ fuel ih =>
    cases rem with
    | nil => by_cases h : lb = [] <;> simp [feedLoop, finish, splitLines, h]
    | cons a rem' =>
      have happ := scanSeg_append (a :: rem')
      have hpl := scanSeg_plain (a :: rem')
      have hstop := scanSeg_stop (a :: rem')
      simp only [feedLoop]
      generalize hs : (scanSeg (a :: rem')).1 = seg at *
      generalize hr : (scanSeg (a :: rem')).2 = rest at *
      rw [← happ, splitLines_seg seg rest lb hpl]
      have hlen : seg.length + rest.length ≤ fuel + 1 := by
        have := congrArg List.length happ
        simp only [List.length_append, List.length_cons] at this hf
        omega
      cases rest with
      | nil =>
        have hne : lb ++ seg ≠ [] := by
          intro e
          have : seg = [] := (List.append_eq_nil_iff.mp e).2
          subst this
          simp at happ
        simp [advance, feedLoop_nil, finish, splitLines, hne]
      | cons c t =>
        have ht : t.length ≤ fuel := by simp only [List.length_cons] at hlen; omega
        rcases hstop c t rfl with rfl | rfl | rfl
        · -- LF
          have := ih [] t ht
          simp only [finish] at this
          simp only [isLineEnd, advance, splitLines, finish]
          simp only [← this]
          by_cases hb : (feedLoop true fuel [] t).linebuf = [] <;> simp [hb]
        · -- CR
          cases t with
          | nil => simp [isLineEnd, advance, splitLines, finish, feedLoop_nil]
          | cons c' u =>
            have hu : u.length ≤ fuel := by simp only [List.length_cons] at ht; omega
            by_cases hc' : c' = 0x0A
            · subst hc'
              have := ih [] u hu
              simp only [finish] at this
              simp only [isLineEnd, advance, splitLines, finish]
              simp only [← this]
              by_cases hb : (feedLoop true fuel [] u).linebuf = [] <;> simp [hb]
            · have := ih [] (c' :: u) ht
              simp only [finish] at this
              have e2 : splitLines (lb ++ seg) false (0x0D :: c' :: u)
                  = (lb ++ seg) :: splitLines [] false (c' :: u) := by
                rw [← splitLines_flag_head [] c' u hc']; simp [splitLines]
              rw [e2]
              simp only [isLineEnd, advance, hc', finish]
              simp only [← this]
              by_cases hb : (feedLoop true fuel [] (c' :: u)).linebuf = [] <;> simp [hb]
        · -- NUL
          have := ih (lb ++ seg ++ FFFD) t ht
          simp only [finish] at this
          simp only [isLineEnd, advance, splitLines, finish]
          simp only [← this]
          simp

/-! ### Bytes of the lines -/

theorem splitLines_bytes (P : UInt8 → Prop) (hF : ∀ b ∈ FFFD, P b) (x cur : Bytes) (cr : Bool)
    (hx : ∀ b ∈ x, plain b → P b) (hc : ∀ b ∈ cur, P b) :
    ∀ l ∈ splitLines cur cr x, ∀ b ∈ l, P b := by
  induction x generalizing cur cr with
  | nil =>
    intro l hl
    simp only [splitLines] at hl
    split at hl
    · simp at hl
    · simp only [List.mem_singleton] at hl; subst hl; exact hc
  | cons a r ih =>
    have hr : ∀ b ∈ r, plain b → P b := fun b hb => hx b (by simp [hb])
    intro l hl
    simp only [splitLines] at hl
    split at hl
    · split at hl
      · exact ih cur false hr hc l hl
      · simp only [List.mem_cons] at hl
        rcases hl with rfl | hl
        · exact hc
        · exact ih [] false hr (by simp) l hl
    · split at hl
      · simp only [List.mem_cons] at hl
        rcases hl with rfl | hl
        · exact hc
        · exact ih [] true hr (by simp) l hl
      · split at hl
        · refine ih (cur ++ FFFD) false hr ?_ l hl
          intro b hb
          simp only [List.mem_append] at hb
          rcases hb with hb | hb
          · exact hc b hb
          · exact hF b hb
        · rename_i h1 h2 h3
          refine ih (cur ++ [a]) false hr ?_ l hl
          intro b hb
          simp only [List.mem_append, List.mem_singleton] at hb
          rcases hb with hb | rfl
          · exact hc b hb
          · exact hx b (by simp) ⟨h1, h2, h3⟩

end Comrak.Feed
