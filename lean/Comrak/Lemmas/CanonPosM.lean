/-
Positions of canonical documents, layer M: from `Blk.wf` (part of `Doc.ok`) to the local facts
`Blk.ph`, together with the fact that no line a block writes contains a line end or carriage return.
-/
import Comrak.Lemmas.CanonPosL
namespace Comrak.Canon
open Comrak Bytes

theorem cleanB_eq_plainB (g : Bytes) : cleanB g = plainB g := rfl

def allPlain (ls : List Bytes) : Bool := ls.all plainB

theorem allPlain_append (a b : List Bytes) : allPlain (a ++ b) = (allPlain a && allPlain b) := by simp [allPlain]

theorem allPlain_single (x : Bytes) : allPlain [x] = plainB x := by simp [allPlain]

theorem splitNl_plain : ∀ (s : Bytes), (∀ x ∈ s, x ≠ 0x0D) → allPlain (splitNl s) = true
  | [], _ => rfl
  | b :: r, h => by
    have ih := splitNl_plain r (fun x hx => h x (by simp [hx]))
    have hne := splitNl_ne_nil r
    by_cases hb : b = 0x0A
    · subst hb
      rw [splitNl_nl]
      simpa [allPlain, plainB] using ih
    · rw [splitNl_other b r hb]
      cases hq : splitNl r with
      | nil => exact absurd hq hne
      | cons x t =>
        rw [hq] at ih
        simp only [allPlain, List.all_cons, Bool.and_eq_true] at ih
        have hb2 : b ≠ 0x0D := h b (by simp)
        simp only [List.headD_cons, List.tail_cons, allPlain, List.all_cons, Bool.and_eq_true]
        refine ⟨?_, ih.2⟩
        simp only [plainB, List.all_cons, Bool.and_eq_true, bne_iff_ne, ne_eq]
        exact ⟨⟨hb, hb2⟩, ih.1⟩

theorem plain_of_facts (is : Inls) (br : Bool) (p a : UInt8) (f : Bool) (F : InlsF br p a f is) (hb : br = false) : plainB is.src = true := by
  have h1 := F.nl hb
  simp only [plainB, nlFree, List.all_eq_true, Bool.and_eq_true, bne_iff_ne, ne_eq] at h1 ⊢
  exact fun x hx => ⟨h1 x hx, F.cr x hx⟩

theorem digit_plain : ∀ j : Fin 10, plainByte (UInt8.ofNat (48 + j.val)) = true := by decide

theorem decBytes_plain (n : Nat) : plainB (decBytes n) = true := by
  simp only [plainB, decBytes, List.all_map, List.all_eq_true]
  intro c hc
  have hd := Nat.isDigit_of_mem_toDigits (b := 10) (by omega) (by omega) hc
  simp only [Char.isDigit, Bool.and_eq_true, decide_eq_true_eq] at hd
  have h1 : 48 ≤ c.toNat := by
    have := hd.1; simp only [UInt32.le_iff_toNat_le] at this; exact this
  have h2 : c.toNat ≤ 57 := by
    have := hd.2; simp only [UInt32.le_iff_toNat_le] at this; exact this
  have := digit_plain ⟨c.toNat - 48, by omega⟩
  have e : 48 + (c.toNat - 48) = c.toNat := by omega
  simp only [e, plainByte] at this
  exact this

theorem infoChar_plain : ∀ c : UInt8, infoChar c = true → plainByte c = true :=
  forall_uint8_of_fin (by decide +kernel)

theorem marker_plain (m : Marker) (k : Nat) (hb : m.ordered = false → plainByte m.bullet = true) : plainB (m.src k) = true := by
  unfold Marker.src
  split
  · simp only [plainB_append, decBytes_plain, Bool.true_and]
    split <;> rfl
  · rename_i h
    have := hb (by simpa using h)
    simp only [plainB, List.all_cons, List.all_nil, Bool.and_true]
    exact this

theorem task_plain (t : Task) (bs : Blks) (h : t.ok bs = true) : plainB t.src = true := by
  cases t with
  | no => rfl
  | unchecked => rfl
  | checked c =>
    simp only [Task.ok, Bool.and_eq_true, Bool.or_eq_true, beq_iff_eq] at h
    rcases h.1 with rfl | rfl <;> rfl

theorem map_plain (f : Bytes → Bytes) (hf : ∀ l, plainB l = true → plainB (f l) = true) (ls : List Bytes)
    (h : allPlain ls = true) : allPlain (ls.map f) = true := by
  simp only [allPlain, List.all_map, List.all_eq_true] at h ⊢
  exact fun l hl => hf l (h l hl)

theorem quoteLine_plain (l : Bytes) (h : plainB l = true) : plainB (quoteLine l) = true := by
  unfold quoteLine
  split
  · rfl
  · simp only [plainB_append, h, Bool.and_true]; rfl

theorem indent_plain (w : Nat) (l : Bytes) (h : plainB l = true) : plainB (if l.isEmpty then [] else rep w 0x20 ++ l) = true := by
  split
  · rfl
  · simp only [plainB_append, h, rep_plain w 0x20 rfl, Bool.and_self]

theorem itemLines_plain (mk ts : Bytes) (t : Task) (hmk : plainB mk = true) (hts : plainB t.src = true) :
    ∀ (ls : List Bytes), allPlain ls = true → allPlain (itemLines mk (t.mark ls)) = true
  | [], _ => by simp [Task.mark, itemLines, allPlain, hmk]
  | x :: xs, h => by
    simp only [allPlain, List.all_cons, Bool.and_eq_true] at h
    have h1 : plainB (mk ++ [0x20] ++ (t.src ++ x)) = true := by
      simp only [plainB_append, hmk, hts, h.1, Bool.and_true, Bool.true_and]; rfl
    have h2 := map_plain _ (indent_plain (mk.length + 1)) xs (by simpa [allPlain] using h.2)
    simp only [Task.mark, itemLines]
    simp only [allPlain, List.all_cons, Bool.and_eq_true]
    exact ⟨h1, by simpa [allPlain] using h2⟩

theorem cells_row_plain (cells : List Inls) (h : cells.all cellWf = true) : plainB (rowSrc (cells.map Inls.src)) = true := by
  have : ∀ (cs : List Inls), cs.all cellWf = true → plainB ((cs.map Inls.src).flatMap fun c => [0x20] ++ c ++ [0x20, 0x7C]) = true := by
    intro cs
    induction cs with
    | nil => intro _; rfl
    | cons c r ih =>
      intro hc
      simp only [List.all_cons, Bool.and_eq_true] at hc
      have hw := hc.1
      simp only [cellWf, Bool.and_eq_true] at hw
      have F := inls_facts c false false false 0x20 0x20 true 0 hw.1
      have hp := plain_of_facts c _ _ _ _ F rfl
      simp only [List.map_cons, List.flatMap_cons, plainB_append, hp, ih hc.2, Bool.and_true, Bool.true_and]
      rfl
  simp only [rowSrc, plainB_append, this cells h, Bool.and_true]
  rfl

theorem align_row_plain (al : List Align) : plainB (rowSrc (al.map alignSrc)) = true := by
  have : ∀ (xs : List Align), plainB ((xs.map alignSrc).flatMap fun c => [0x20] ++ c ++ [0x20, 0x7C]) = true := by
    intro xs
    induction xs with
    | nil => rfl
    | cons a r ih =>
      simp only [List.map_cons, List.flatMap_cons, plainB_append, ih, Bool.and_true]
      cases a <;> rfl
  simp only [rowSrc, plainB_append, this al, Bool.and_true]
  rfl

theorem getLast_getLastD (ls : List Bytes) (h : (match ls.getLast? with | some l => !l.isEmpty | none => false) = true) :
    (ls.getLastD []).isEmpty = false := by
  rw [List.getLastD_eq_getLast?]
  cases hq : ls.getLast? with
  | none => simp [hq] at h
  | some l => simpa [hq] using h

mutual
theorem blk_facts : ∀ (b : Blk) (tight : Bool) (bullet : UInt8) (idx : Nat) (prev : Prev),
    b.wf tight bullet idx prev = true → b.ph = true ∧ allPlain b.lines = true
  | .para is, _, _, _, _, h => by
    simp only [Blk.wf, Bool.and_eq_true, Bool.not_eq_true'] at h
    have F := inls_facts is false false true 0x0A 0x0A true 0 h.2
    have hne := F.ne h.1.2
    exact ⟨by simp [Blk.ph, F.ph, sep_allNonempty _ hne F.sep], by simpa [Blk.lines] using splitNl_plain _ F.cr⟩
  | .heading lv is, _, _, _, _, h => by
    simp only [Blk.wf, Bool.and_eq_true, decide_eq_true_eq] at h
    have F := inls_facts is false false false 0x20 0x0A true 0 h.2
    have hp := plain_of_facts is _ _ _ _ F rfl
    refine ⟨by simp [Blk.ph, F.ph, F.nl rfl, h.1.1.1], ?_⟩
    simp only [Blk.lines, allPlain, List.all_cons, List.all_nil, Bool.and_true, plainB_append, hp, rep_plain lv 0x23 rfl]
    rfl
  | .setext lv n is, _, _, _, _, h => by
    simp only [Blk.wf, Bool.and_eq_true, decide_eq_true_eq, Bool.not_eq_true'] at h
    have F := inls_facts is false false true 0x0A 0x0A true 0 h.2
    have hne := F.ne h.1.2
    have hn : 2 ≤ n := h.1.1.1.1.2
    have hfs : firstNotSp is.src = true := by
      have := F.fsp h.1.2 rfl rfl
      cases hq : is.src with
      | nil => exact absurd hq hne
      | cons x t =>
        have hh := F.hd
        rw [hq] at hh
        simp only [List.headD_cons] at hh
        simp [firstNotSp, hh, this]
    refine ⟨by simp [Blk.ph, F.ph, sep_allNonempty _ hne F.sep, hfs]; omega, ?_⟩
    simp only [Blk.lines, allPlain_append, splitNl_plain _ F.cr, Bool.true_and, allPlain_single]
    exact rep_plain n (if lv = 1 then 0x3D else 0x2D) (by split <;> rfl)
  | .hr c n, _, _, _, _, h => by
    simp only [Blk.wf, Bool.and_eq_true, decide_eq_true_eq] at h
    have hc := h.1.1.1.1
    refine ⟨by simp [Blk.ph, hc, h.1.1.1.2], ?_⟩
    simp only [Blk.lines, allPlain, List.all_cons, List.all_nil, Bool.and_true]
    simp only [Bool.or_eq_true, beq_iff_eq] at hc
    rcases hc with (rfl | rfl) | rfl <;> exact rep_plain n _ rfl
  | .fence c len info ls, _, _, _, _, h => by
    simp only [Blk.wf, Bool.and_eq_true, decide_eq_true_eq] at h
    obtain ⟨⟨⟨⟨hc, hlen⟩, _⟩, hinfo⟩, hls⟩ := h
    refine ⟨by simp [Blk.ph, hlen], ?_⟩
    have hcp : plainByte c = true := by
      simp only [Bool.or_eq_true, beq_iff_eq] at hc
      rcases hc with rfl | rfl <;> rfl
    have hlines : allPlain ls = true := by
      simp only [allPlain, List.all_eq_true]
      intro l hl
      have := List.all_eq_true.mp hls l hl
      simp only [Bool.and_eq_true] at this
      exact plainB_of_all l _ printable_plain this.1
    simp only [Blk.lines, allPlain_append, hlines, allPlain_single, plainB_append,
      rep_plain len c hcp, plainB_of_all info _ infoChar_plain hinfo, Bool.and_self]
  | .icode ls, _, _, _, _, h => by
    simp only [Blk.wf, Bool.and_eq_true, Bool.not_eq_true', List.isEmpty_eq_false_iff] at h
    obtain ⟨⟨⟨⟨_, hne⟩, hall⟩, _⟩, hlast⟩ := h
    have hl2 := getLast_getLastD ls hlast
    refine ⟨?_, ?_⟩
    · simp only [Blk.ph, Bool.and_eq_true, Bool.not_eq_true', List.isEmpty_eq_false_iff]
      exact ⟨hne, by simpa using hl2⟩
    simp only [Blk.lines]
    refine map_plain _ (indent_plain 4) ls ?_
    simp only [allPlain, List.all_eq_true]
    intro l hl
    have := List.all_eq_true.mp hall l hl
    simp only [Bool.and_eq_true] at this
    exact plainB_of_all l _ printable_plain this.1
  | .quote bs, _, _, _, _, h => by
    simp only [Blk.wf, Bool.and_eq_true, Bool.not_eq_true'] at h
    have F := blks_facts bs false 0 0 .none false h.2
    refine ⟨by simp [Blk.ph, h.1.2, F.1], ?_⟩
    simp only [Blk.lines]
    exact map_plain _ quoteLine_plain _ F.2
  | .list m items, _, _, _, _, h => by
    simp only [Blk.wf, Bool.and_eq_true, Bool.not_eq_true'] at h
    obtain ⟨⟨⟨⟨⟨_, hm⟩, hnil⟩, _⟩, _⟩, hwf⟩ := h
    have hb : m.ordered = false → plainByte m.bullet = true := by
      intro ho
      simp only [ho, Bool.false_eq_true, if_false, Bool.or_eq_true, beq_iff_eq] at hm
      rcases hm with (h1 | h1) | h1 <;> rw [h1] <;> rfl
    have F := items_facts items m m.start hb hwf
    exact ⟨by simp [Blk.ph, hnil, F.1], by simpa [Blk.lines] using F.2⟩
  | .htmlb ls, _, _, _, _, h => by
    simp only [Blk.wf, Bool.and_eq_true] at h
    have hne : ls ≠ [] := by
      intro e; subst e; simp at h
    refine ⟨?_, ?_⟩
    · simp only [Blk.ph, Bool.and_eq_true, Bool.not_eq_true', List.isEmpty_eq_false_iff]
      refine ⟨hne, ?_⟩
      have := h.2
      simp only [allNonempty, List.all_eq_true, Bool.and_eq_true] at this ⊢
      exact fun l hl => (this l hl).1.1
    · simp only [Blk.lines, allPlain, List.all_eq_true]
      intro l hl
      have := List.all_eq_true.mp h.2 l hl
      simp only [Bool.and_eq_true] at this
      exact plainB_of_all l _ printable_plain this.1.2
  | .table al hd rows, _, _, _, _, h => by
    simp only [Blk.wf, Bool.and_eq_true] at h
    obtain ⟨⟨_, hh⟩, hr⟩ := h
    refine ⟨?_, ?_⟩
    · simp only [Blk.ph, Bool.and_eq_true, List.all_eq_true] at hh hr ⊢
      exact ⟨fun c hc => cellPh_of_wf c (hh c hc), fun r hrm c hc => cellPh_of_wf c (hr r hrm c hc)⟩
    · have hrows : allPlain (rows.map fun r => rowSrc (r.map Inls.src)) = true := by
        simp only [allPlain, List.all_map, List.all_eq_true]
        intro r hrm
        exact cells_row_plain r (List.all_eq_true.mp hr r hrm)
      have h2 : allPlain [rowSrc (hd.map Inls.src), rowSrc (al.map alignSrc)] = true := by
        simp only [allPlain, List.all_cons, List.all_nil, cells_row_plain hd hh, align_row_plain, Bool.and_self]
      simp only [Blk.lines, allPlain_append, hrows, h2, Bool.and_self]
theorem blks_facts : ∀ (bs : Blks) (tight : Bool) (bullet : UInt8) (idx : Nat) (prev : Prev) (tl : Bool),
    bs.wf tight bullet idx prev = true → bs.ph = true ∧ allPlain (bs.lines tl) = true
  | .nil, _, _, _, _, _, _ => ⟨rfl, rfl⟩
  | .cons b r, tight, bullet, idx, prev, tl, h => by
    simp only [Blks.wf, Bool.and_eq_true] at h
    have Fb := blk_facts b tight bullet idx prev h.1.1
    have Fr := blks_facts r tight bullet (idx + 1) b.asPrev tl h.2
    refine ⟨by simp [Blks.ph, Fb.1, Fr.1], ?_⟩
    simp only [Blks.lines, allPlain_append, Fb.2, Fr.2, Bool.and_true, Bool.true_and]
    split <;> rfl
theorem items_facts : ∀ (items : Items) (m : Marker) (k : Nat), (m.ordered = false → plainByte m.bullet = true) →
    items.wf m = true → items.ph = true ∧ allPlain (items.lines m k) = true
  | .nil, _, _, _, _ => ⟨rfl, rfl⟩
  | .cons t bs r, m, k, hb, h => by
    simp only [Items.wf, Bool.and_eq_true, Bool.not_eq_true'] at h
    obtain ⟨⟨⟨hnil, htok⟩, hbs⟩, hr⟩ := h
    have Fb := blks_facts bs m.tight _ 0 .none m.tight hbs
    have Fr := items_facts r m (k + 1) hb hr
    refine ⟨?_, ?_⟩
    · simp only [Items.ph, Bool.and_eq_true, Bool.not_eq_true', Bool.or_eq_true]
      refine ⟨⟨⟨hnil, Fb.1⟩, ?_⟩, Fr.1⟩
      cases t with
      | no => left; rfl
      | unchecked => right; simpa [Task.ok] using htok
      | checked c =>
        right
        simp only [Task.ok, Bool.and_eq_true] at htok
        exact htok.2
    · simp only [Items.lines, allPlain_append, Fr.2, Bool.and_true,
        itemLines_plain (m.src k) t.src t (marker_plain m k hb) (task_plain t bs htok) _ Fb.2, Bool.true_and]
      split <;> rfl
end

end Comrak.Canon
