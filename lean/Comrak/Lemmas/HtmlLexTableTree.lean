/-
Bridge from the token-level HTML model to bytes, part 6: the rendered document passes the flagged
tag-stack machine `runO` (hence the full oracle `balancedBytes`): `<thead>` / `<tbody>` are only written
by table rows, rows sit directly under their table with the header row first (`balShapeT`), so each
section is opened directly under `<table>` and at most once per table.
-/
import Comrak.Lemmas.HtmlLexTable
namespace Comrak
open Bytes

@[simp] theorem isTS_t_blockquote : isTS S.t_blockquote = false := by decide
@[simp] theorem isTS_t_code : isTS S.t_code = false := by decide
@[simp] theorem isTS_t_pre : isTS S.t_pre = false := by decide
@[simp] theorem isTS_t_em : isTS S.t_em = false := by decide
@[simp] theorem isTS_t_a : isTS S.t_a = false := by decide
@[simp] theorem isTS_t_img : isTS S.t_img = false := by decide
@[simp] theorem isTS_t_figure : isTS S.t_figure = false := by decide
@[simp] theorem isTS_t_figcaption : isTS S.t_figcaption = false := by decide
@[simp] theorem isTS_t_li : isTS S.t_li = false := by decide
@[simp] theorem isTS_t_br : isTS S.t_br = false := by decide
@[simp] theorem isTS_t_ul : isTS S.t_ul = false := by decide
@[simp] theorem isTS_t_ol : isTS S.t_ol = false := by decide
@[simp] theorem isTS_t_p : isTS S.t_p = false := by decide
@[simp] theorem isTS_t_strong : isTS S.t_strong = false := by decide
@[simp] theorem isTS_t_hr : isTS S.t_hr = false := by decide
@[simp] theorem isTS_t_section : isTS S.t_section = false := by decide
@[simp] theorem isTS_t_sup : isTS S.t_sup = false := by decide
@[simp] theorem isTS_t_del : isTS S.t_del = false := by decide
@[simp] theorem isTS_t_table : isTS S.t_table = false := by decide
@[simp] theorem isTS_t_thead : isTS S.t_thead = true := by decide
@[simp] theorem isTS_t_tbody : isTS S.t_tbody = true := by decide
@[simp] theorem isTS_t_tr : isTS S.t_tr = false := by decide
@[simp] theorem isTS_t_th : isTS S.t_th = false := by decide
@[simp] theorem isTS_t_td : isTS S.t_td = false := by decide
@[simp] theorem isTS_t_input : isTS S.t_input = false := by decide
@[simp] theorem isTS_t_div : isTS S.t_div = false := by decide
@[simp] theorem isTS_t_dd : isTS S.t_dd = false := by decide
@[simp] theorem isTS_t_dl : isTS S.t_dl = false := by decide
@[simp] theorem isTS_t_dt : isTS S.t_dt = false := by decide
@[simp] theorem isTS_t_span : isTS S.t_span = false := by decide
@[simp] theorem isTS_t_sub : isTS S.t_sub = false := by decide
@[simp] theorem isTS_t_u : isTS S.t_u = false := by decide

@[simp] theorem isTS_heading (level : Nat) : isTS (headingName level) = false := by
  simp [isTS, headingName, S.t_h, S.t_thead, S.t_tbody]

/-! ### Per node: only a table row writes `<thead>` / `<tbody>` -/

@[simp] theorem noTS_cr (st : St) : (W.cr st).1.all noTS = true := by
  unfold W.cr; split <;> simp [noTS]

theorem noTS_backrefToks (name : Bytes) (ix k n : Nat) : (backrefToks name ix k n).all noTS = true := by
  induction k generalizing n with
  | zero => rfl
  | succ k ih =>
    simp only [backrefToks, List.all_append, ih, Bool.and_true]
    by_cases h : n > 1 <;> simp [h, noTS]

theorem noTS_putBackref (name : Bytes) (total : Nat) (st : St) :
    (putBackref name total st).1.1.all noTS = true := by
  unfold putBackref; split <;> simp [noTS_backrefToks]

theorem noTS_htmlBlockToks (o : HtmlOpts) (l : Bytes) : (htmlBlockToks o l).all noTS = true := by
  unfold htmlBlockToks; (repeat' split) <;> simp [noTS]

theorem noTS_htmlInlineToks (o : HtmlOpts) (l : Bytes) : (htmlInlineToks o l).all noTS = true := by
  unfold htmlInlineToks; (repeat' split) <;> simp [noTS]

theorem noTS_mathCodeBlockToks (o : HtmlOpts) (sp : Sp) (l : Bytes) :
    (mathCodeBlockToks o sp l).all noTS = true := by
  simp [mathCodeBlockToks, noTS, nl]

theorem enter_noTS (o : HtmlOpts) (nt : NormTable) (cx : Ctx) (v : NodeValue) (sp : Sp) (cs : Forest) (st : St)
    (hr : isRow v = false) : (enter o nt cx v sp cs st).1.all noTS = true := by
  cases v
  case tableRow h => simp [isRow] at hr
  case htmlBlock bt l => simp [enter, noTS_htmlBlockToks]
  case htmlInline l => simp [enter, noTS_htmlInlineToks]
  case codeBlock f fc fl fo info lit =>
    simp only [enter]
    split <;> simp [noTS_mathCodeBlockToks, noTS, nl]
  case heading level setext =>
    cases h : o.headerIds <;> simp [enter, h, noTS]
  case alert ty title m fl fo => cases title <;> simp [enter, noTS, nl]
  case list l => cases hl : l.ty <;> simp [enter, hl, noTS, nl]
  case tableCell =>
    simp [enter, noTS]
    split
    · split <;> simp
    · simp
  all_goals simp only [enter]
  all_goals (repeat' split)
  all_goals (try simp_all [noTS, nl, List.all_append])

theorem exit_noTS (o : HtmlOpts) (cx : Ctx) (v : NodeValue) (cs : Forest) (st : St) :
    (exit o cx v cs st).1.all noTS = true := by
  cases v
  case paragraph =>
    simp only [exit]
    split
    · simp
    · cases hp : cx.parent with
      | none => simp [noTS, nl]
      | some pv =>
        cases pv
        case footnoteDefinition name total =>
          simp only [W.seq_fst, List.all_append, Bool.and_eq_true]
          refine ⟨?_, by simp [noTS, nl]⟩
          split
          · simp only [W.seq_fst, List.all_append, Bool.and_eq_true]
            exact ⟨by simp [noTS], noTS_putBackref _ _ _⟩
          · simp
        all_goals simp [noTS, nl]
  case footnoteDefinition name total =>
    simp only [exit, W.seq_fst, List.all_append, Bool.and_eq_true]
    refine ⟨⟨noTS_putBackref _ _ _, ?_⟩, by simp [noTS, nl]⟩
    split <;> simp [noTS, nl]
  case list l => cases hl : l.ty <;> simp [exit, hl, noTS, nl]
  all_goals simp only [exit]
  all_goals (repeat' split)
  all_goals (try simp_all [noTS, nl, List.all_append])

/-- `enter` of anything but a row pushes fresh entries for exactly `opened`. -/
theorem enter_openedO (o : HtmlOpts) (nt : NormTable) (cx : Ctx) (v : NodeValue) (sp : Sp) (cs : Forest)
    (st : St) (hr : isRow v = false) (K : List Open) :
    runO K (events (enter o nt cx v sp cs st).1) = some ((opened o cx st v).map mkO ++ K) := by
  have h := enter_opened o nt cx v sp cs st []
  simp only [List.append_nil] at h
  exact runO_opens _ (events_noTS _ (enter_noTS o nt cx v sp cs st hr)) _ h K

/-- `exit` pops any entries named `closing` (whatever their flags). -/
theorem exit_closingO (o : HtmlOpts) (cx : Ctx) (v : NodeValue) (cs : Forest) (st : St)
    (P : List Open) (hP : P.map Open.name = closing o cx v cs) (K : List Open) :
    runO (P ++ K) (events (exit o cx v cs st).1) = some K := by
  have h := exit_closing o cx v cs st []
  simp only [List.append_nil] at h
  exact runO_closes _ (events_noTS _ (exit_noTS o cx v cs st)) P (by rw [hP]; exact h) K

theorem events_rowSectionToks (h : Bool) (prev : Option NodeValue) :
    events (rowSectionToks h prev) = (rowSectionNames h prev).map Ev.op := by
  unfold rowSectionToks rowSectionNames
  split
  · simp [Tok.events, nl]
  · split <;> simp [Tok.events, nl]

theorem events_enter_row (o : HtmlOpts) (nt : NormTable) (cx : Ctx) (h : Bool) (sp : Sp) (cs : Forest) (st : St) :
    events (enter o nt cx (.tableRow h) sp cs st).1 = (rowSectionNames h cx.prev).map Ev.op ++ [.op S.t_tr] := by
  simp [enter, events_rowSectionToks, Tok.events]

theorem events_exit_row (o : HtmlOpts) (cx : Ctx) (h : Bool) (cs : Forest) (st : St) :
    events (exit o cx (.tableRow h) cs st).1 = .cl S.t_tr :: (if h then [.cl S.t_thead] else []) := by
  cases h <;> simp [exit, Tok.events]

/-! ### Net effects -/

/-- The footnote `<section><ol>` is opened between two values of `fnIx`. -/
def secOpen (a b : Nat) : List Ev := if a = 0 ∧ b ≠ 0 then [.op S.t_section, .op S.t_ol] else []

theorem secOpen_same (a : Nat) : secOpen a a = [] := by
  unfold secOpen; split <;> simp_all

theorem secOpen_eq {a b : Nat} (h : b = a) : secOpen a b = [] := by rw [h, secOpen_same]

theorem secOpen_trans {a b c : Nat} (h1 : a ≤ b) (h2 : b ≤ c) : secOpen a b ++ secOpen b c = secOpen a c := by
  unfold secOpen
  by_cases ha : a = 0 <;> by_cases hb : b = 0 <;> by_cases hc : c = 0 <;> simp_all <;> omega

/-- Net effect of a table row. -/
def rowNet (h : Bool) (prev : Option NodeValue) : List Ev :=
  if h then [.op S.t_thead, .cl S.t_thead] else (rowSectionNames false prev).map Ev.op

def TGoalO (o : HtmlOpts) (nt : NormTable) (cx : Ctx) (t : Tree) : Prop :=
  ∀ (st : St),
    (isRow t.value = false →
      RefO (events (renderT o nt cx t st).1) (secOpen st.fnIx (renderT o nt cx t st).2.fnIx)) ∧
    (isRow t.value = true →
      RefO (events (renderT o nt cx t st).1) (rowNet (rowHeader t.value) cx.prev))

def FGoalO (o : HtmlOpts) (nt : NormTable) (parent grand prev : Option NodeValue) (idx : Nat) (f : Forest) : Prop :=
  ∀ (st : St),
    (isTable parent = false →
      RefO (events (renderF o nt parent grand prev idx f st).1)
        (secOpen st.fnIx (renderF o nt parent grand prev idx f st).2.fnIx)) ∧
    (restRows f = true → prev = some (.tableRow false) →
      RefO (events (renderF o nt parent grand prev idx f st).1) []) ∧
    (restRows f = true → prev = some (.tableRow true) →
      RefO (events (renderF o nt parent grand prev idx f st).1) (if f.isNil then [] else [.op S.t_tbody])) ∧
    (rowsOk f = true →
      RefO (events (renderF o nt parent grand prev idx f st).1)
        ([.op S.t_thead, .cl S.t_thead] ++ if f.length ≠ 1 then [.op S.t_tbody] else []))

theorem stepO_op_plain (K : List Open) (n : Bytes) (h : isTS n = false) : stepO K (.op n) = some (mkO n :: K) := by
  simp [stepO, h, mkO]

theorem stepO_thead (tb : Bool) (R : List Open) :
    stepO (⟨S.t_table, false, tb⟩ :: R) (.op S.t_thead) = some (mkO S.t_thead :: ⟨S.t_table, true, tb⟩ :: R) := by
  simp [stepO, mkO]

theorem stepO_tbody (th : Bool) (R : List Open) :
    stepO (⟨S.t_table, th, false⟩ :: R) (.op S.t_tbody) = some (mkO S.t_tbody :: ⟨S.t_table, th, true⟩ :: R) := by
  have : (S.t_tbody == S.t_thead) = false := by decide
  simp [stepO, mkO, this]

theorem stepO_cl (n : Bytes) (th tb : Bool) (R : List Open) : stepO (⟨n, th, tb⟩ :: R) (.cl n) = some R := by
  simp [stepO]

theorem runO_cl_mkO (n : Bytes) (M : List Open) (r : List Ev) : runO (mkO n :: M) (.cl n :: r) = runO M r := by
  simp [runO_cons, stepO, mkO]

theorem map_name_mkO (l : List Bytes) : (l.map mkO).map Open.name = l := by
  induction l with
  | nil => rfl
  | cons a r ih => simp [ih]

/-- A node that is neither a row, a table nor a footnote definition, around children that keep
    every stack: the whole node keeps every stack. -/
theorem node_otherO (o : HtmlOpts) (nt : NormTable) (cx : Ctx) (v : NodeValue) (sp : Sp) (cs : Forest) (st st2 : St)
    (cE : List Ev) (hr : isRow v = false) (hd : isDef v = false) (htb : isTable (some v) = false)
    (hc : RefO cE []) (K : List Open) :
    runO K (events (enter o nt cx v sp cs st).1 ++ cE ++ events (exit o cx v cs st2).1) = some K := by
  refine runO3 (enter_openedO o nt cx v sp cs st hr K) (hc.nil_keeps _) ?_
  refine exit_closingO o cx v cs st2 _ ?_ K
  rw [map_name_mkO, closing_other o cx v cs hd hr htb, ← opened_indep o cx st v hd]

theorem node_stepO (o : HtmlOpts) (nt : NormTable) (cx : Ctx) (v : NodeValue) (sp : Sp) (cs : Forest)
    (ht : tableOk v cs = true)
    (hOld : FGoal o nt (some v) cx.parent none 0 cs)
    (hF : FGoalO o nt (some v) cx.parent none 0 cs) : TGoalO o nt cx (.node v sp cs) := by
  intro st
  rw [renderT_node]
  simp only [Tree.value, events_append]
  have Hfn1 := enter_fnIx o nt cx v sp cs st
  have Hfn3 := fun st' => exit_fnIx o cx v cs st'
  by_cases hc : htmlChildren v = true
  · simp only [hc, if_true]
    have HF := hF (enter o nt cx v sp cs st).2
    have HO := hOld (enter o nt cx v sp cs st).2 []
    have hmono := (renderF_fnCount o nt cs (some v) cx.parent none 0 (enter o nt cx v sp cs st).2).2
    refine ⟨fun hnr => ?_, fun hr => ?_⟩
    · by_cases hdoc : isDoc v = true
      · -- document: no tags of its own
        have hv : v = .document := by cases v <;> simp_all [isDoc]
        subst hv
        have := HF.1 (by simp [isTable])
        simpa [enter, exit] using this
      · have hdoc' : isDoc v = false := by simpa using hdoc
        by_cases hdef : isDef v = true
        · -- footnote definition: the first one opens the section
          have h1 : (enter o nt cx v sp cs st).2.fnIx = st.fnIx + 1 := by simp [Hfn1, hdef]
          have c0 : RefO (events (renderF o nt (some v) cx.parent none 0 cs (enter o nt cx v sp cs st).2).1) [] := by
            have := HF.1 (by cases v <;> simp_all [isTable, isDef])
            rwa [show secOpen (enter o nt cx v sp cs st).2.fnIx
                (renderF o nt (some v) cx.parent none 0 cs (enter o nt cx v sp cs st).2).2.fnIx = [] by
              unfold secOpen; rw [h1]; simp] at this
          have hcl : closing o cx v cs = [S.t_li] := by cases v <;> simp_all [closing, isDef]
          have hop : opened o cx st v = if st.fnIx = 0 then [S.t_li, S.t_ol, S.t_section] else [S.t_li] := by
            cases v <;> simp_all [opened, isDef]
          have E := fun K => enter_openedO o nt cx v sp cs st hnr K
          rw [Hfn3]
          intro K Q hq
          by_cases h0 : st.fnIx = 0
          · have hne : (renderF o nt (some v) cx.parent none 0 cs (enter o nt cx v sp cs st).2).2.fnIx ≠ 0 := by omega
            have hQ : Q = mkO S.t_ol :: mkO S.t_section :: K := by
              simp [secOpen, h0, hne, runO_cons, stepO] at hq
              exact hq.symm
            subst hQ
            refine runO3 (E K) (c0.nil_keeps _) ?_
            have := exit_closingO o cx v cs (renderF o nt (some v) cx.parent none 0 cs (enter o nt cx v sp cs st).2).2
              [mkO S.t_li] (by simp [hcl]) (mkO S.t_ol :: mkO S.t_section :: K)
            simpa [hop, h0] using this
          · have hQ : Q = K := by
              simp [secOpen, h0] at hq
              exact hq.symm
            subst hQ
            refine runO3 (E Q) (c0.nil_keeps _) ?_
            have := exit_closingO o cx v cs (renderF o nt (some v) cx.parent none 0 cs (enter o nt cx v sp cs st).2).2
              [mkO S.t_li] (by simp [hcl]) Q
            simpa [hop, h0] using this
        · have hdef' : isDef v = false := by simpa using hdef
          have hfn : (enter o nt cx v sp cs st).2.fnIx = st.fnIx := by simp [Hfn1, hdef']
          by_cases htb : isTable (some v) = true
          · -- table: header section, then the body section left open by the rows and closed here
            have hrows : rowsOk cs = true := by cases v <;> simp_all [isTable, tableOk]
            have C := HF.2.2.2 hrows
            have G2 := (HO.1 htb (rowsOk_allRows _ hrows)).2
            rw [Hfn3, G2, hfn, secOpen_same]
            apply RefO.of_keeps
            intro K
            have hop : opened o cx st v = [S.t_table] := by cases v <;> simp_all [opened, isTable]
            have hcl : closing o cx v cs = if cs.length ≠ 1 then [S.t_tbody, S.t_table] else [S.t_table] := by
              cases v <;> simp_all [closing, isTable]
            have E := enter_openedO o nt cx v sp cs st hnr K
            rw [hop] at E
            by_cases hl : cs.length ≠ 1
            · have M := C (mkO S.t_table :: K) (mkO S.t_tbody :: ⟨S.t_table, true, true⟩ :: K)
                (by simp [hl, runO_cons, mkO, stepO_thead, stepO_tbody, stepO_cl])
              refine runO3 E M ?_
              exact exit_closingO o cx v cs _ [mkO S.t_tbody, ⟨S.t_table, true, true⟩] (by simp [hcl, hl]) K
            · have M := C (mkO S.t_table :: K) (⟨S.t_table, true, false⟩ :: K)
                (by simp [hl, runO_cons, mkO, stepO_thead, stepO_cl])
              refine runO3 E M ?_
              exact exit_closingO o cx v cs _ [⟨S.t_table, true, false⟩] (by simp [hcl, hl]) K
          · -- any other node with HTML children
            have htb' : isTable (some v) = false := by simpa using htb
            have G2 := (HO.2.2.2 htb' (by simp [hdef']) (by simp [hdoc'])).2
            have c0 := HF.1 htb'
            rw [G2, secOpen_same] at c0
            rw [Hfn3, G2, hfn, secOpen_same]
            exact RefO.of_keeps (node_otherO o nt cx v sp cs st _ _ hnr hdef' htb' c0)
    · -- table row
      obtain ⟨h, hv⟩ : ∃ h, v = .tableRow h := by cases v <;> simp_all [isRow]
      subst hv
      have G2 := (HO.2.2.2 (by simp [isTable]) (by simp [isDef]) (by simp [isDoc])).2
      have c0 := HF.1 (by simp [isTable])
      rw [G2, secOpen_same] at c0
      rw [events_enter_row, events_exit_row]
      simp only [rowHeader]
      intro K Q hq
      cases h
      · -- body row
        simp only [rowNet, Bool.false_eq_true, if_false] at hq ⊢
        have e1 : runO K (List.map Ev.op (rowSectionNames false cx.prev) ++ [Ev.op S.t_tr]) = some (mkO S.t_tr :: Q) := by
          rw [runO_append_some _ hq]; simp [runO_cons, stepO_op_plain]
        refine runO3 e1 (c0.nil_keeps _) ?_
        rw [runO_cl_mkO]; rfl
      · -- header row
        have hq' : runO K ([.op S.t_thead] ++ [.cl S.t_thead]) = some Q := by simpa [rowNet] using hq
        obtain ⟨M, hM1, hM2⟩ := runO_append_inv hq'
        have e1 : runO K (List.map Ev.op (rowSectionNames true cx.prev) ++ [Ev.op S.t_tr]) = some (mkO S.t_tr :: M) := by
          have : List.map Ev.op (rowSectionNames true cx.prev) = [.op S.t_thead] := by simp [rowSectionNames]
          rw [this, runO_append_some _ hM1]; simp [runO_cons, stepO_op_plain]
        refine runO3 e1 (c0.nil_keeps _) ?_
        rw [if_pos rfl, runO_cl_mkO]; exact hM2
  · -- children rendered in Plain mode (image): no tag events from them
    have hc' : htmlChildren v = false := by simpa using hc
    obtain ⟨hd1, hd2, hd3, htb⟩ := htmlChildren_of v hc'
    simp only [hc', Bool.false_eq_true, if_false]
    refine ⟨fun _ => ?_, by simp [hd3]⟩
    have hfn : (enter o nt cx v sp cs st).2.fnIx = st.fnIx := by simp [Hfn1, hd2]
    rw [Hfn3, hfn, secOpen_same]
    exact RefO.of_keeps (node_otherO o nt cx v sp cs st _ _ hd3 hd2 htb (RefO.refl _))

theorem forest_stepO (o : HtmlOpts) (nt : NormTable) (parent grand prev : Option NodeValue) (idx : Nat)
    (t : Tree) (ts : Forest)
    (hp : placeOk parent t.value = true)
    (hT : TGoalO o nt { parent := parent, grand := grand, prev := prev, isLast := ts.isNil, index := idx } t)
    (hF : FGoalO o nt parent grand (some t.value) (idx + 1) ts) :
    FGoalO o nt parent grand prev idx (.cons t ts) := by
  intro st
  rw [renderF_cons]
  simp only [events_append]
  have HT := hT st
  have HF := hF (renderT o nt { parent := parent, grand := grand, prev := prev, isLast := ts.isNil, index := idx } t st).2
  have m1 := (renderT_fnCount o nt t { parent := parent, grand := grand, prev := prev, isLast := ts.isNil, index := idx } st).2
  have m2 := (renderF_fnCount o nt ts parent grand (some t.value) (idx + 1)
    (renderT o nt { parent := parent, grand := grand, prev := prev, isLast := ts.isNil, index := idx } t st).2).2
  refine ⟨?_, ?_, ?_, ?_⟩
  · -- parent is not a table: no rows among the children
    intro htb
    have hnr : isRow t.value = false := by
      cases hv : t.value <;> simp_all [isRow, placeOk]
    have := RefO.append (HT.1 hnr) (HF.1 htb)
    rwa [secOpen_trans m1 m2] at this
  · -- body rows after a body row
    intro hrest hprev
    cases t with
    | node w sp cs =>
      simp only [restRows, Bool.and_eq_true] at hrest
      have hw : w = .tableRow false := by
        cases w <;> simp_all
        rename_i hd; cases hd <;> simp_all
      subst hw
      have a := HT.2 (by simp [isRow, Tree.value])
      have b := HF.2.1 hrest.2 rfl
      have := RefO.append a b
      simpa [rowNet, rowHeader, Tree.value, hprev, rowSectionNames] using this
  · -- body rows after the header row: the first opens `<tbody>`
    intro hrest hprev
    cases t with
    | node w sp cs =>
      simp only [restRows, Bool.and_eq_true] at hrest
      have hw : w = .tableRow false := by
        cases w <;> simp_all
        rename_i hd; cases hd <;> simp_all
      subst hw
      have a := HT.2 (by simp [isRow, Tree.value])
      have b := HF.2.1 hrest.2 rfl
      have := RefO.append a b
      simpa [rowNet, rowHeader, Tree.value, hprev, rowSectionNames, Forest.isNil] using this
  · -- header row, then body rows
    intro hrows
    cases t with
    | node w sp cs =>
      simp only [rowsOk, Bool.and_eq_true] at hrows
      have hw : w = .tableRow true := by
        cases w <;> simp_all
        rename_i hd; cases hd <;> simp_all
      subst hw
      have a := HT.2 (by simp [isRow, Tree.value])
      have b := HF.2.2.1 hrows.2 rfl
      have := RefO.append a b
      cases ts <;> simpa [rowNet, rowHeader, Tree.value, Forest.isNil, Forest.length] using this

theorem forest_nilO (o : HtmlOpts) (nt : NormTable) (parent grand prev : Option NodeValue) (idx : Nat) :
    FGoalO o nt parent grand prev idx .nil := by
  intro st
  simp [renderF, secOpen_same, rowsOk, Forest.isNil, RefO.refl]

mutual
theorem renderT_goalO (o : HtmlOpts) (nt : NormTable) :
    ∀ (t : Tree) (cx : Ctx), balShapeT cx.parent t = true → TGoalO o nt cx t
  | .node v sp cs, cx, h => by
    simp only [balShapeT, Bool.and_eq_true] at h
    exact node_stepO o nt cx v sp cs h.1.2 (renderF_goal o nt cs (some v) cx.parent none 0 h.2 rfl)
      (renderF_goalO o nt cs (some v) cx.parent none 0 h.2)
theorem renderF_goalO (o : HtmlOpts) (nt : NormTable) :
    ∀ (f : Forest) (parent grand prev : Option NodeValue) (idx : Nat),
      balShapeF parent f = true → FGoalO o nt parent grand prev idx f
  | .nil, parent, grand, prev, idx, _ => forest_nilO o nt parent grand prev idx
  | .cons t ts, parent, grand, prev, idx, h => by
    simp only [balShapeF, Bool.and_eq_true] at h
    have hp : placeOk parent t.value = true := by
      cases t with
      | node v sp cs => simp only [balShapeT, Bool.and_eq_true] at h; exact h.1.1.1
    exact forest_stepO o nt parent grand prev idx t ts hp
      (renderT_goalO o nt t { parent := parent, grand := grand, prev := prev, isLast := ts.isNil, index := idx } h.1)
      (renderF_goalO o nt ts parent grand (some t.value) (idx + 1) h.2)
end

/-- **The rendered document passes the flagged tag-stack machine**: every `<thead>` / `<tbody>` start
    tag is written directly under `<table>` and at most once per table, every end tag matches, nothing
    is left open - all options, every tree with `balShapeT`. -/
theorem renderToks_runO (o : HtmlOpts) (nt : NormTable) (t : Tree) (h : balShapeT none t = true) :
    runO [] (events (renderToks o nt t)) = some [] := by
  have hT := renderT_goalO o nt t {} h ({} : St)
  have hnr : isRow t.value = false := by
    cases t with
    | node v sp cs =>
      simp only [balShapeT, Bool.and_eq_true] at h
      have := h.1.1
      cases v <;> simp_all [isRow, placeOk, isTable, Tree.value]
  have R := RefO.append (hT.1 hnr) (RefO.refl (events (finish (renderT o nt {} t {}).2).1))
  unfold renderToks
  simp only [W.seq_fst, events_append]
  apply R
  have h0 : ({} : St).fnIx = 0 := rfl
  rw [h0]
  unfold finish secOpen
  by_cases k : (renderT o nt {} t {}).2.fnIx = 0
  · simp [k]
  · have k' : (renderT o nt {} t {}).2.fnIx > 0 := by omega
    simp [k, k', Tok.events, nl, runO_cons, stepO]

end Comrak
