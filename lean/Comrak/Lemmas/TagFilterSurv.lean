/-
C14: no disallowed tag survives `tagfilterBlock`.  Rewriting a `<` to `&lt;` never changes the decision
`disallowedAtW sp` taken at an earlier `<`: that decision reads `<`, an optional `/`, name letters, one delimiter
byte and possibly `>`; none of them is `<`, and where the byte read *is* a later `<` (mismatch / non-delimiter) the
`&` that may replace it is a mismatch / non-delimiter as well.
-/
import Comrak.Lemmas.TagFilter
namespace Comrak
open Bytes

/-- Number of positions of `out` holding a `<` that opens a disallowed tag (white-space class `sp`). -/
def survivorsW (sp : UInt8 → Bool) : Bytes → Nat
  | [] => 0
  | b :: r => (if b = 0x3C ∧ disallowedAtW sp (b :: r) = true then 1 else 0) + survivorsW sp r

/-- comrak's own white-space class. -/
def survivorsC (out : Bytes) : Nat := survivorsW isSpace out
/-- The HTML tokenizer's white-space class (what `Drv.C14.survivors` counts). -/
def survivorsH (out : Bytes) : Nat := survivorsW htmlSpace out

/-- White-space classes that contain neither `<` nor `&`. -/
def SpOk (sp : UInt8 → Bool) : Prop := sp 0x3C = false ∧ sp 0x26 = false

theorem spOk_isSpace : SpOk isSpace := ⟨by decide, by decide⟩
theorem spOk_htmlSpace : SpOk htmlSpace := ⟨by decide, by decide⟩

/-- Head shape of the rewrite: a byte other than `<` is copied. -/
theorem rewriteSpecW_cons_ne (sp : UInt8 → Bool) (b : UInt8) (r : Bytes) (h : b ≠ 0x3C) :
    rewriteSpecW sp (b :: r) = b :: rewriteSpecW sp r := by
  simp [rewriteSpecW, h]

/-- Head shape of the rewrite at `<`: the first output byte is `<` or `&`. -/
theorem rewriteSpecW_cons_lt (sp : UInt8 → Bool) (r : Bytes) :
    rewriteSpecW sp (0x3C :: r) = 0x3C :: rewriteSpecW sp r ∨
    rewriteSpecW sp (0x3C :: r) = 0x26 :: 0x6C :: 0x74 :: 0x3B :: rewriteSpecW sp r := by
  by_cases hd : disallowedAtW sp (0x3C :: r) = true
  · right; simp [rewriteSpecW, hd, S.v_lt]
  · left; simp [rewriteSpecW, hd]

theorem stripSlash_rewrite (sp : UInt8 → Bool) (r : Bytes) :
    stripSlash (rewriteSpecW sp r) = rewriteSpecW sp (stripSlash r) := by
  cases r with
  | nil => rfl
  | cons c t =>
    by_cases hc : c = 0x3C
    · subst hc
      rcases rewriteSpecW_cons_lt sp t with e | e
      · rw [e]; simp [stripSlash, e]
      · rw [e]
        have : stripSlash (0x3C :: t) = 0x3C :: t := by simp [stripSlash]
        rw [this, e]; simp [stripSlash]
    · rw [rewriteSpecW_cons_ne sp c t hc]
      by_cases h2 : c = 0x2F
      · subst h2; simp [stripSlash]
      · simp [stripSlash, h2, rewriteSpecW_cons_ne sp c t hc]

/-- Bytes that can occur in a tag name: lower-casing neither `<` nor `&` yields them. -/
def nameByteOk (a : UInt8) : Bool := a != 0x3C && a != 0x26

theorem toLower_ne_lt (b : UInt8) (h : b ≠ 0x3C) : toLowerAscii b ≠ 0x3C := by
  have hh : ∀ n : Fin 256, UInt8.ofNat n.val ≠ 0x3C → toLowerAscii (UInt8.ofNat n.val) ≠ 0x3C := by
    decide +kernel
  have := hh ⟨b.toNat, b.toNat_lt⟩
  simp only [UInt8.ofNat_toNat] at this
  exact this h

theorem isPrefixCI_rewrite (sp : UInt8 → Bool) (name s : Bytes) (hn : name.all nameByteOk = true) :
    isPrefixCI name (rewriteSpecW sp s) = isPrefixCI name s ∧
    (isPrefixCI name s = true →
      (rewriteSpecW sp s).drop name.length = rewriteSpecW sp (s.drop name.length)) := by
  induction name generalizing s with
  | nil => simp [isPrefixCI]
  | cons a p ih =>
    simp only [List.all_cons, Bool.and_eq_true, nameByteOk, bne_iff_ne, ne_eq] at hn
    obtain ⟨⟨ha1, ha2⟩, hp⟩ := hn
    cases s with
    | nil => simp [isPrefixCI, rewriteSpecW]
    | cons b t =>
      by_cases hb : b = 0x3C
      · subst hb
        have hlow : toLowerAscii (0x3C : UInt8) = 0x3C := by decide
        have hlow2 : toLowerAscii (0x26 : UInt8) = 0x26 := by decide
        have hb1 : (a == (0x3C : UInt8)) = false := by rw [beq_eq_false_iff_ne]; exact ha1
        have hb2 : (a == (0x26 : UInt8)) = false := by rw [beq_eq_false_iff_ne]; exact ha2
        rcases rewriteSpecW_cons_lt sp t with e | e
        · rw [e]; simp [isPrefixCI, hlow, hb1]
        · rw [e]; simp [isPrefixCI, hlow, hlow2, hb1, hb2]
      · rw [rewriteSpecW_cons_ne sp b t hb]
        have := ih t (by simpa [nameByteOk] using hp)
        simp only [isPrefixCI, this.1, List.length_cons, List.drop_succ_cons, Bool.and_eq_true, true_and]
        intro h
        exact this.2 h.2

theorem tagDelimW_rewrite (sp : UInt8 → Bool) (hsp : SpOk sp) (s : Bytes) :
    tagDelimW sp (rewriteSpecW sp s) = tagDelimW sp s := by
  cases s with
  | nil => rfl
  | cons c r =>
    by_cases hc : c = 0x3C
    · subst hc
      rcases rewriteSpecW_cons_lt sp r with e | e
      · rw [e]; simp [tagDelimW]
      · rw [e]; simp [tagDelimW, hsp.1, hsp.2]
    · rw [rewriteSpecW_cons_ne sp c r hc]
      cases r with
      | nil => simp [tagDelimW, rewriteSpecW]
      | cons d u =>
        by_cases hd : d = 0x3C
        · subst hd
          rcases rewriteSpecW_cons_lt sp u with e | e
          · rw [e]; simp [tagDelimW]
          · rw [e]; simp [tagDelimW]
        · rw [rewriteSpecW_cons_ne sp d u hd]; simp [tagDelimW]

theorem blacklist_nameBytes : ∀ n ∈ tagBlacklist, n.all nameByteOk = true := by decide

/-- The decision at a `<` is the same before and after rewriting everything behind it. -/
theorem disallowedAtW_rewrite (sp : UInt8 → Bool) (hsp : SpOk sp) (r : Bytes) :
    disallowedAtW sp (0x3C :: rewriteSpecW sp r) = disallowedAtW sp (0x3C :: r) := by
  simp only [disallowedAtW, if_true, stripSlash_rewrite]
  apply Bool.eq_iff_iff.mpr
  simp only [List.any_eq_true, Bool.and_eq_true]
  constructor
  · rintro ⟨n, hn, h1, h2⟩
    have := isPrefixCI_rewrite sp n (stripSlash r) (blacklist_nameBytes n hn)
    rw [this.1] at h1
    rw [this.2 h1, tagDelimW_rewrite sp hsp] at h2
    exact ⟨n, hn, h1, h2⟩
  · rintro ⟨n, hn, h1, h2⟩
    have := isPrefixCI_rewrite sp n (stripSlash r) (blacklist_nameBytes n hn)
    refine ⟨n, hn, by rw [this.1]; exact h1, ?_⟩
    rw [this.2 h1, tagDelimW_rewrite sp hsp]
    exact h2

theorem survivorsW_rewrite (sp : UInt8 → Bool) (hsp : SpOk sp) (l : Bytes) :
    survivorsW sp (rewriteSpecW sp l) = 0 := by
  induction l with
  | nil => rfl
  | cons b r ih =>
    by_cases hb : b = 0x3C
    · subst hb
      by_cases hd : disallowedAtW sp (0x3C :: r) = true
      · have : rewriteSpecW sp (0x3C :: r) = 0x26 :: 0x6C :: 0x74 :: 0x3B :: rewriteSpecW sp r := by
          simp [rewriteSpecW, hd, S.v_lt]
        rw [this]
        simp [survivorsW, ih]
      · have : rewriteSpecW sp (0x3C :: r) = 0x3C :: rewriteSpecW sp r := by
          simp [rewriteSpecW, hd]
        rw [this]
        simp only [survivorsW, ih, disallowedAtW_rewrite sp hsp r, hd]
        simp
    · rw [rewriteSpecW_cons_ne sp b r hb]
      simp [survivorsW, hb, ih]

end Comrak
