/-
Per-node pairing lemmas for the HTML renderer: which element names `enter` leaves open and
which names `exit` closes, for every node kind and every option vector.
-/
import Comrak.Lemmas.Html
namespace Comrak
open Bytes

/-- Section element opened by a table row before its `<tr>`. -/
def rowSectionNames (header : Bool) (prev : Option NodeValue) : List Bytes :=
  if header then [S.t_thead]
  else match prev with
    | some (.tableRow true) => [S.t_tbody]
    | _ => []

theorem run_rowSectionToks (h : Bool) (prev : Option NodeValue) (s : List Bytes) :
    run s (events (rowSectionToks h prev)) = some (rowSectionNames h prev ++ s) := by
  unfold rowSectionToks rowSectionNames
  split
  · simp [Tok.events, nl]
  · split <;> simp [Tok.events, nl]

/-- Element names left open by `enter`, innermost first. -/
def opened (o : HtmlOpts) (cx : Ctx) (st : St) : NodeValue → List Bytes
  | .blockQuote => [S.t_blockquote]
  | .multilineBlockQuote .. => [S.t_blockquote]
  | .list l => match l.ty with | .bullet => [S.t_ul] | .ordered => [S.t_ol]
  | .item _ => [S.t_li]
  | .descriptionList => [S.t_dl]
  | .descriptionTerm => [S.t_dt]
  | .descriptionDetails => [S.t_dd]
  | .paragraph => if paraTight cx then [] else [S.t_p]
  | .heading level _ => [headingName level]
  | .footnoteDefinition .. => if st.fnIx = 0 then [S.t_li, S.t_ol, S.t_section] else [S.t_li]
  | .table .. => [S.t_table]
  | .tableRow h => S.t_tr :: rowSectionNames h cx.prev
  | .tableCell => [if (match cx.parent with | some (.tableRow h) => h | _ => false) then S.t_th else S.t_td]
  | .taskItem _ => [S.t_li]
  | .emph => [S.t_em]
  | .strong => if !o.gfmQuirks || !parentIsStrong cx then [S.t_strong] else []
  | .strikethrough => [S.t_del]
  | .superscript => [S.t_sup]
  | .subscript => [S.t_sub]
  | .underline => [S.t_u]
  | .spoileredText => [S.t_span]
  | .link .. => if !o.relaxedAutolinks || !parentIsLink cx then [S.t_a] else []
  | .image .. => if o.figureWithCaption then [S.t_figure] else []
  | .escaped => if o.escapedCharSpans then [S.t_span] else []
  | .wikiLink _ => [S.t_a]
  | .alert .. => [S.t_div]
  | _ => []

/-- Element names closed by `exit`, innermost first. -/
def closing (o : HtmlOpts) (cx : Ctx) (v : NodeValue) (cs : Forest) : List Bytes :=
  match v with
  | .footnoteDefinition .. => [S.t_li]
  | .table .. => if cs.length ≠ 1 then [S.t_tbody, S.t_table] else [S.t_table]
  | .tableRow h => if h then [S.t_tr, S.t_thead] else [S.t_tr]
  | v => opened o cx {} v

theorem run_backrefToks (s : List Bytes) (name : Bytes) (ix k n : Nat) :
    run s (events (backrefToks name ix k n)) = some s := by
  induction k generalizing n with
  | zero => simp [backrefToks]
  | succ k ih =>
    simp only [backrefToks]
    split <;> simp [Tok.events, litAttr, ih]

theorem run_putBackref (s : List Bytes) (name : Bytes) (total : Nat) (st : St) :
    run s (events (putBackref name total st).1.1) = some s := by
  unfold putBackref
  split
  · simp
  · simp [run_backrefToks]

theorem run_htmlBlockToks (o : HtmlOpts) (l : Bytes) (s : List Bytes) :
    run s (events (htmlBlockToks o l)) = some s := by
  unfold htmlBlockToks; (repeat' split) <;> simp [Tok.events]

theorem run_htmlInlineToks (o : HtmlOpts) (l : Bytes) (s : List Bytes) :
    run s (events (htmlInlineToks o l)) = some s := by
  unfold htmlInlineToks; (repeat' split) <;> simp [Tok.events]

theorem enter_opened (o : HtmlOpts) (nt : NormTable) (cx : Ctx) (v : NodeValue) (sp : Sp) (cs : Forest)
    (st : St) (s : List Bytes) :
    run s (events (enter o nt cx v sp cs st).1) = some (opened o cx st v ++ s) := by
  cases v
  case alert ty title m fl fo => cases title <;> simp [enter, opened, Tok.events, nl, litAttr]
  case heading level setext =>
    cases h : o.headerIds <;> simp [enter, opened, Tok.events, nl, litAttr, h]
  case htmlBlock bt l => simp [enter, opened, run_htmlBlockToks]
  case htmlInline l => simp [enter, opened, run_htmlInlineToks]
  case tableRow h =>
    simp [enter, opened, Tok.events, run_append_some _ (run_rowSectionToks _ _ _)]
  all_goals simp [enter, opened, Tok.events, nl, litAttr]
  all_goals (repeat' split)
  all_goals (try simp_all [Tok.events, nl, mathCodeBlockToks])

theorem exit_closing (o : HtmlOpts) (cx : Ctx) (v : NodeValue) (cs : Forest) (st : St) (s : List Bytes) :
    run (closing o cx v cs ++ s) (events (exit o cx v cs st).1) = some s := by
  cases v
  case paragraph =>
    simp only [exit, closing, opened]
    split
    · simp
    · cases hp : cx.parent with
      | none => simp [Tok.events, nl]
      | some pv =>
        cases pv <;> simp [Tok.events, nl]
        split <;> simp [Tok.events, run_putBackref, run_append_some _ (run_putBackref _ _ _ _)]
  case footnoteDefinition name total =>
    simp only [exit, closing]
    simp [Tok.events, nl, run_append_some _ (run_putBackref _ _ _ _)]
    split <;> simp [Tok.events, nl]
  all_goals simp [exit, closing, opened, Tok.events, nl]
  all_goals (repeat' split)
  all_goals (try simp_all [Tok.events, nl])

end Comrak
