/-
Positions of canonical documents, layer K: the facts about the bytes of inline content that follow
from `Inl.wf` / `Inls.wf` (part of `Doc.ok`).
-/
import Comrak.Lemmas.CanonPosJ
import Comrak.Lemmas.Escape
namespace Comrak.Canon
open Comrak Bytes

/-- No line end and no carriage return. -/
def plainB (s : Bytes) : Bool := s.all fun b => b != 0x0A && b != 0x0D

theorem plainB_append (a b : Bytes) : plainB (a ++ b) = (plainB a && plainB b) := by simp [plainB]

theorem plainB_nlFree (s : Bytes) (h : plainB s = true) : nlFree s = true := by
  simp only [plainB, nlFree, List.all_eq_true, Bool.and_eq_true, bne_iff_ne, ne_eq] at h ⊢
  exact fun b hb => (h b hb).1

/-- Line ends in `s` (between the bytes `p` and `a`) are never adjacent to another line end. -/
def sepOk (p : UInt8) : Bytes → UInt8 → Bool
  | [], _ => true
  | b :: r, a => (b != 0x0A || (p != 0x0A && r.headD a != 0x0A)) && sepOk b r a

theorem sep_nlFree : ∀ (s : Bytes) (p a : UInt8), nlFree s = true → sepOk p s a = true
  | [], _, _, _ => rfl
  | b :: r, p, a, h => by
    simp only [nlFree, List.all_cons, Bool.and_eq_true, bne_iff_ne, ne_eq] at h
    simp [sepOk, h.1, sep_nlFree r b a (by simpa [nlFree] using h.2)]

theorem headD_append (x y : Bytes) (a : UInt8) : (x ++ y).headD a = x.headD (y.headD a) := by
  cases x <;> simp

theorem sep_append : ∀ (x y : Bytes) (p a : UInt8), sepOk p x (y.headD a) = true → sepOk (x.getLastD p) y a = true →
    sepOk p (x ++ y) a = true
  | [], y, p, a, _, h2 => by simpa using h2
  | b :: r, y, p, a, h1, h2 => by
    simp only [sepOk, Bool.and_eq_true] at h1
    have e : (b :: r).getLastD p = r.getLastD b := by cases r <;> rfl
    rw [e] at h2
    simp only [List.cons_append, sepOk, Bool.and_eq_true, headD_append]
    exact ⟨h1.1, sep_append r y b a h1.2 h2⟩

/-- Content whose line ends are never adjacent has no empty line. -/
theorem sep_pieces : ∀ (s : Bytes) (p : UInt8), sepOk p s 0x0A = true →
    allNonempty (splitNl s).tail = true ∧ (s ≠ [] → s.head? ≠ some 0x0A → (splitNl s).headD [] ≠ [])
  | [], _, _ => ⟨by simp [splitNl, allNonempty], fun h => absurd rfl h⟩
  | b :: r, p, h => by
    simp only [sepOk, Bool.and_eq_true, Bool.or_eq_true, bne_iff_ne, ne_eq] at h
    obtain ⟨i1, i2⟩ := sep_pieces r b h.2
    by_cases hb : b = 0x0A
    · subst hb
      have hh := h.1.resolve_left (by simp)
      have hr : r ≠ [] := by
        intro e; subst e; simp at hh
      have hrh : r.head? ≠ some 0x0A := by
        cases r with
        | nil => exact absurd rfl hr
        | cons c t => simpa using hh.2
      have hne := splitNl_ne_nil r
      rw [splitNl_nl]
      refine ⟨?_, fun _ h2 => absurd rfl h2⟩
      cases hs : splitNl r with
      | nil => exact absurd hs hne
      | cons x t =>
        rw [hs] at i1 i2
        have := i2 hr hrh
        simp only [List.tail_cons, allNonempty, List.all_cons, Bool.and_eq_true, Bool.not_eq_true', List.isEmpty_eq_false_iff]
        exact ⟨by simpa using this, by simpa [allNonempty] using i1⟩
    · rw [splitNl_other b r hb]
      exact ⟨by simpa using i1, fun _ _ => by simp⟩

theorem sep_allNonempty (s : Bytes) (hs : s ≠ []) (h : sepOk 0x0A s 0x0A = true) : allNonempty (splitNl s) = true := by
  obtain ⟨i1, i2⟩ := sep_pieces s 0x0A h
  have hh : s.head? ≠ some 0x0A := by
    cases s with
    | nil => exact absurd rfl hs
    | cons b r =>
      simp only [sepOk, Bool.and_eq_true, Bool.or_eq_true, bne_iff_ne, ne_eq] at h
      intro e
      simp only [List.head?_cons, Option.some.injEq] at e
      subst e
      simp at h
  have := i2 hs hh
  have hne := splitNl_ne_nil s
  cases hq : splitNl s with
  | nil => exact absurd hq hne
  | cons x t =>
    rw [hq] at i1 this
    simp only [allNonempty, List.all_cons, Bool.and_eq_true, Bool.not_eq_true', List.isEmpty_eq_false_iff]
    exact ⟨by simpa using this, by simpa [allNonempty] using i1⟩

/-! ### Atoms -/

/-- What `Atom.ok` gives about the spelling of an atom. -/
def atomFact (a : Atom) : Bool :=
  !a.src.isEmpty && plainB a.src && !isSpTab (a.src.headD 0 ) || (a.isSpace && a.src == [0x20])

def atomFact' (a : Atom) : Bool := !a.src.isEmpty && plainB a.src && (a.isSpace || !isSpTab (a.src.headD 0))

theorem ch_fact : ∀ c : UInt8, (isAsciiAlnum c || c == 0x20 || plainPunct.contains c) = true → atomFact' (.ch c) = true :=
  forall_uint8_of_fin (by decide +kernel)

theorem esc_fact : ∀ c : UInt8, isPunct c = true → atomFact' (.esc c) = true :=
  forall_uint8_of_fin (by decide +kernel)

theorem num_fact : ∀ c : UInt8, (0x21 ≤ c && c ≤ 0x7E) = true → (atomFact' (.num c false) && atomFact' (.num c true)) = true :=
  forall_uint8_of_fin (by decide +kernel)

theorem ent_fact : (List.range entTable.length).all (fun i => atomFact' (.ent i)) = true := by decide +kernel
theorem uni_fact : (List.range uniTable.length).all (fun i => atomFact' (.uni i)) = true := by decide +kernel

theorem atom_fact (a : Atom) (h : a.ok = true) : atomFact' a = true := by
  cases a with
  | ch c => exact ch_fact c h
  | esc c => exact esc_fact c h
  | ent i =>
    simp only [Atom.ok, decide_eq_true_eq] at h
    exact List.all_eq_true.mp ent_fact i (List.mem_range.mpr h)
  | num c hex =>
    have := num_fact c h
    simp only [Bool.and_eq_true] at this
    cases hex
    · exact this.1
    · exact this.2
  | uni i =>
    simp only [Atom.ok, decide_eq_true_eq] at h
    exact List.all_eq_true.mp uni_fact i (List.mem_range.mpr h)

theorem atoms_plain : ∀ (as : List Atom), as.all Atom.ok = true → plainB (atomsSrc as) = true
  | [], _ => rfl
  | a :: r, h => by
    simp only [List.all_cons, Bool.and_eq_true] at h
    have := atom_fact a h.1
    simp only [atomFact', Bool.and_eq_true] at this
    simp only [atomsSrc, List.flatMap_cons, plainB_append, Bool.and_eq_true]
    exact ⟨this.1.2, atoms_plain r h.2⟩

theorem atoms_ne (as : List Atom) (h : as.all Atom.ok = true) (hne : as ≠ []) : atomsSrc as ≠ [] := by
  cases as with
  | nil => exact absurd rfl hne
  | cons a r =>
    simp only [List.all_cons, Bool.and_eq_true] at h
    have := atom_fact a h.1
    simp only [atomFact', Bool.and_eq_true, Bool.not_eq_true', List.isEmpty_eq_false_iff] at this
    simp only [atomsSrc, List.flatMap_cons]
    intro e
    exact this.1.1 (List.append_eq_nil_iff.mp e).1

/-- The first byte of a text that does not begin with a space atom is not a space or tab. -/
theorem atoms_first (as : List Atom) (h : as.all Atom.ok = true) (hf : ∀ a, as.head? = some a → a.isSpace = false) (hne : as ≠ []) :
    isSpTab ((atomsSrc as).headD 0) = false := by
  cases as with
  | nil => exact absurd rfl hne
  | cons a r =>
    simp only [List.all_cons, Bool.and_eq_true] at h
    have := atom_fact a h.1
    simp only [atomFact', Bool.and_eq_true, Bool.not_eq_true', List.isEmpty_eq_false_iff, Bool.or_eq_true] at this
    have hs := hf a rfl
    have h3 := this.2.resolve_left (by simp [hs])
    simp only [atomsSrc, List.flatMap_cons]
    cases hq : a.src with
    | nil => exact absurd hq this.1.1
    | cons x t => rw [hq] at h3; simpa using h3

/-! ### Characters of destinations, titles, labels -/

def plainByte (b : UInt8) : Bool := b != 0x0A && b != 0x0D

theorem urlChar_plain : ∀ c : UInt8, (urlChar c || c == 0x20) = true → plainByte c = true :=
  forall_uint8_of_fin (by decide +kernel)
theorem titleChar_plain : ∀ c : UInt8, titleChar c = true → plainByte c = true :=
  forall_uint8_of_fin (by decide +kernel)
theorem alnum_plain : ∀ c : UInt8, isAsciiAlnum c = true → plainByte c = true :=
  forall_uint8_of_fin (by decide +kernel)
theorem printable_plain : ∀ c : UInt8, (0x20 ≤ c && c ≤ 0x7E) = true → plainByte c = true :=
  forall_uint8_of_fin (by decide +kernel)

theorem plainB_of_all (s : Bytes) (q : UInt8 → Bool) (hq : ∀ c, q c = true → plainByte c = true) (h : s.all q = true) :
    plainB s = true := by
  simp only [plainB, List.all_eq_true] at h ⊢
  exact fun b hb => hq b (h b hb)

theorem dest_plain (url : Bytes) (angle : Bool) (h : destOk url angle = true) : plainB (destSrc url angle) = true := by
  have hu : plainB url = true := by
    cases angle
    · simp only [destOk, Bool.false_eq_true, if_false, Bool.and_eq_true] at h
      exact plainB_of_all url urlChar (fun c hc => urlChar_plain c (by simp [hc])) h.2
    · simp only [destOk, if_true] at h
      exact plainB_of_all url _ urlChar_plain h
  cases angle
  · simpa [destSrc] using hu
  · simp only [destSrc, if_true, plainB_append, hu, Bool.and_true, Bool.true_and]; rfl

theorem title_plain (t : Bytes) (h : titleOk t = true) : plainB (titleSrc t) = true := by
  simp only [titleOk, Bool.and_eq_true] at h
  have ht := plainB_of_all t titleChar titleChar_plain h.1.1
  unfold titleSrc
  split
  · rfl
  · simp only [plainB_append, ht, Bool.and_true, Bool.true_and]; rfl

theorem label_plain (l : Bytes) (h : labelOk l = true) : plainB l = true := by
  simp only [labelOk, Bool.and_eq_true] at h
  exact plainB_of_all l isAsciiAlnum alnum_plain h.2

theorem scheme_plain : schemeTable.all plainB = true := by decide +kernel

theorem autolink_plain (sc : Nat) (r : Bytes) (h1 : sc < schemeTable.length) (h2 : r.all urlChar = true) :
    plainB (autolinkUrl sc r) = true := by
  have hs : plainB (schemeTable.getD sc []) = true := by
    have := List.all_eq_true.mp scheme_plain (schemeTable.getD sc []) (by
      rw [List.getD_eq_getElem?_getD, List.getElem?_eq_getElem h1]; simp)
    exact this
  have hr := plainB_of_all r urlChar (fun c hc => urlChar_plain c (by simp [hc])) h2
  simp only [autolinkUrl, plainB_append, hs, hr, Bool.and_true, Bool.true_and]; rfl

/-! ### The facts, by induction over inline content -/

/-- Facts about the source bytes of one inline (`br`: breaks allowed; `p`, `n`: the bytes before and after). -/
structure InlF (br : Bool) (p n : UInt8) (f : Bool) (i : Inl) : Prop where
  ph : i.ph = true
  cr : ∀ x ∈ i.src, x ≠ 0x0D
  nl : br = false → nlFree i.src = true
  sep : sepOk p i.src n = true
  hd : i.src.head? = some i.firstB
  lst : i.src.getLast? = some i.lastB
  fsp : f = true → p = 0x0A → isSpTab i.firstB = false

structure InlsF (br : Bool) (p a : UInt8) (f : Bool) (is : Inls) : Prop where
  ph : is.ph = true
  cr : ∀ x ∈ is.src, x ≠ 0x0D
  nl : br = false → nlFree is.src = true
  sep : sepOk p is.src a = true
  hd : is.src.headD a = is.firstB a
  ne : is.isNil = false → is.src ≠ []
  fsp : is.isNil = false → f = true → p = 0x0A → isSpTab (is.firstB a) = false

theorem plainB_cr (s : Bytes) (h : plainB s = true) : ∀ x ∈ s, x ≠ 0x0D := by
  simp only [plainB, List.all_eq_true, Bool.and_eq_true, bne_iff_ne, ne_eq] at h
  exact fun x hx => (h x hx).2

/-- A leaf whose source is free of line ends and carriage returns. -/
theorem leaf_facts (br : Bool) (p n : UInt8) (f : Bool) (i : Inl) (hph : i.ph = true) (hp : plainB i.src = true)
    (hd : i.src.head? = some i.firstB) (lst : i.src.getLast? = some i.lastB)
    (fsp : f = true → p = 0x0A → isSpTab i.firstB = false) : InlF br p n f i :=
  ⟨hph, plainB_cr _ hp, fun _ => plainB_nlFree _ hp, sep_nlFree _ _ _ (plainB_nlFree _ hp), hd, lst, fsp⟩

/-- `u ++ cs.src ++ t` with `u`, `t` free of line ends. -/
theorem wrap_facts (br : Bool) (p n : UInt8) (u t : Bytes) (cs : Inls) (hu : plainB u = true) (ht : plainB t = true)
    (hu0 : u ≠ []) (ht0 : t ≠ []) (F : InlsF br (u.getLastD 0) (t.headD 0) true cs) :
    (∀ x ∈ u ++ cs.src ++ t, x ≠ 0x0D) ∧ (br = false → nlFree (u ++ cs.src ++ t) = true) ∧
      sepOk p (u ++ cs.src ++ t) n = true ∧ (u ++ cs.src ++ t).head? = u.head? ∧ (u ++ cs.src ++ t).getLast? = t.getLast? := by
  refine ⟨?_, ?_, ?_, ?_, ?_⟩
  · intro x hx
    simp only [List.mem_append] at hx
    rcases hx with (hx | hx) | hx
    · exact plainB_cr u hu x hx
    · exact F.cr x hx
    · exact plainB_cr t ht x hx
  · intro hb
    simp only [nlFree_append, plainB_nlFree u hu, F.nl hb, plainB_nlFree t ht, Bool.and_self]
  · rw [List.append_assoc]
    refine sep_append u (cs.src ++ t) p n (sep_nlFree _ _ _ (plainB_nlFree u hu)) ?_
    have e1 : u.getLastD p = u.getLastD 0 := by
      cases u with
      | nil => exact absurd rfl hu0
      | cons a b =>
        simp only [List.getLastD_eq_getLast?]
        cases hq : (a :: b).getLast? with
        | none => simp at hq
        | some z => rfl
    have e2 : t.headD n = t.headD 0 := by
      cases t with
      | nil => exact absurd rfl ht0
      | cons a b => rfl
    rw [e1]
    refine sep_append cs.src t _ n (by rw [e2]; exact F.sep) (sep_nlFree _ _ _ (plainB_nlFree t ht))
  · cases u with
    | nil => exact absurd rfl hu0
    | cons a b => rfl
  · rw [List.getLast?_append]
    cases hq : t.getLast? with
    | none =>
      cases t with
      | nil => exact absurd rfl ht0
      | cons a b => simp at hq
    | some z => simp

theorem rep_plain (n : Nat) (c : UInt8) (hc : plainByte c = true) : plainB (rep n c) = true := by
  simp only [plainB, rep, List.all_replicate]
  simp only [plainByte] at hc
  simp [hc]

theorem headD_some (s : Bytes) (h : s ≠ []) : s.head? = some (s.headD 0) := by
  cases s with
  | nil => exact absurd rfl h
  | cons a b => rfl

theorem getLastD_some (s : Bytes) (h : s ≠ []) : s.getLast? = some (s.getLastD 0) := by
  cases hq : s.getLast? with
  | none => simp at hq; exact absurd hq h
  | some z => simp [List.getLastD_eq_getLast?, hq]

theorem fnName_plain (l : Bytes) (h : fnNameOk l = true) : plainB l = true := by
  simp only [fnNameOk, Bool.and_eq_true] at h
  exact plainB_of_all l isAsciiAlnum alnum_plain h.2

mutual
theorem inl_facts : ∀ (i : Inl) (a b br : Bool) (p n : UInt8) (f l : Bool) (pc : Nat),
    i.wf a b br p n f l pc = true → InlF br p n f i
  | .text as, _, _, br, p, n, f, _, _, h => by
    simp only [Inl.wf, Bool.and_eq_true, Bool.not_eq_true', List.isEmpty_eq_false_iff] at h
    obtain ⟨⟨⟨hne, hok⟩, hh⟩, _⟩ := h
    have hsne := atoms_ne as hok hne
    have hpl := atoms_plain as hok
    refine leaf_facts br p n f _ ?_ hpl (headD_some _ hsne) (getLastD_some _ hsne) (fun _ hp => ?_)
    · simp only [Inl.ph, Bool.and_eq_true, Bool.not_eq_true', List.isEmpty_eq_false_iff]
      exact ⟨hsne, plainB_nlFree _ hpl⟩
    · subst hp
      refine atoms_first as hok (fun a ha => ?_) hne
      rw [ha] at hh
      simpa using hh
  | .code k s, _, _, br, p, n, f, _, _, h => by
    simp only [Inl.wf, Bool.and_eq_true, decide_eq_true_eq] at h
    have hk : 1 ≤ k := h.1.1.1.1.1.1.1.1.1.1.1.1
    have hs : s.all (fun c => 0x20 ≤ c && c ≤ 0x7E) = true := h.1.1.1.1.1.1.1.1.1.2
    obtain ⟨m, rfl⟩ : ∃ m, k = m + 1 := ⟨k - 1, by omega⟩
    have hr := rep_plain (m + 1) 0x60 rfl
    have hs' := plainB_of_all s _ printable_plain hs
    have hpl : plainB (Inl.code (m + 1) s).src = true := by
      simp only [Inl.src, plainB_append, hr, hs', Bool.and_self]
    refine leaf_facts br p n f _ (by simp [Inl.ph]) hpl (by simp [Inl.src, rep_succ, Inl.firstB]) ?_ (fun _ _ => rfl)
    have e : (Inl.code (m + 1) s).src = (rep (m + 1) 0x60 ++ s ++ rep m 0x60) ++ [0x60] := by
      simp [Inl.src, rep_succ']
    rw [e, List.getLast?_append]; rfl
  | .emph us cs, a, b, br, p, n, f, _, _, h => by
    simp only [Inl.wf, Bool.and_eq_true] at h
    have F := inls_facts cs a b br _ _ true 0 h.2
    have hd : plainB [if us then (0x5F : UInt8) else 0x2A] = true := by cases us <;> rfl
    have e : (Inl.emph us cs).src = [if us then 0x5F else 0x2A] ++ cs.src ++ [if us then 0x5F else 0x2A] := by simp [Inl.src]
    obtain ⟨w1, w2, w3, w4, w5⟩ := wrap_facts br p n _ _ cs hd hd (by simp) (by simp) (by simpa using F)
    rw [← e] at w1 w2 w3 w4 w5
    exact ⟨by simpa [Inl.ph] using F.ph, w1, w2, w3, by simpa [Inl.firstB] using w4, by simpa [Inl.lastB] using w5,
      fun _ _ => by cases us <;> rfl⟩
  | .strong us cs, a, b, br, p, n, f, _, _, h => by
    simp only [Inl.wf, Bool.and_eq_true] at h
    have F := inls_facts cs a b br _ _ true 0 h.2
    have hd : plainB [if us then (0x5F : UInt8) else 0x2A, if us then (0x5F : UInt8) else 0x2A] = true := by cases us <;> rfl
    have e : (Inl.strong us cs).src = [if us then 0x5F else 0x2A, if us then 0x5F else 0x2A] ++ cs.src ++
        [if us then 0x5F else 0x2A, if us then 0x5F else 0x2A] := by simp [Inl.src]
    obtain ⟨w1, w2, w3, w4, w5⟩ := wrap_facts br p n _ _ cs hd hd (by simp) (by simp) (by simpa using F)
    rw [← e] at w1 w2 w3 w4 w5
    exact ⟨by simpa [Inl.ph] using F.ph, w1, w2, w3, by simpa [Inl.firstB] using w4, by simpa [Inl.lastB] using w5,
      fun _ _ => by cases us <;> rfl⟩
  | .strike cs, a, b, br, p, n, f, _, _, h => by
    simp only [Inl.wf, Bool.and_eq_true] at h
    have F := inls_facts cs a b br _ _ true 0 h.2
    have e : (Inl.strike cs).src = [0x7E, 0x7E] ++ cs.src ++ [0x7E, 0x7E] := by simp [Inl.src]
    obtain ⟨w1, w2, w3, w4, w5⟩ := wrap_facts br p n [0x7E, 0x7E] [0x7E, 0x7E] cs rfl rfl (by simp) (by simp) (by simpa using F)
    rw [← e] at w1 w2 w3 w4 w5
    exact ⟨by simpa [Inl.ph] using F.ph, w1, w2, w3, by simpa [Inl.firstB] using w4, by simpa [Inl.lastB] using w5, fun _ _ => rfl⟩
  | .link url title angle .inline cs, a, b, br, p, n, f, _, _, h => by
    simp only [Inl.wf, Bool.and_eq_true] at h
    obtain ⟨⟨⟨_, hdest⟩, htitle⟩, hcs⟩ := h
    have F := inls_facts cs true true br _ _ true 0 hcs
    have ht : plainB ([0x5D, 0x28] ++ destSrc url angle ++ titleSrc title ++ [0x29]) = true := by
      simp only [plainB_append, dest_plain url angle hdest, title_plain title htitle, Bool.and_true, Bool.true_and]; rfl
    have e : (Inl.link url title angle .inline cs).src = [0x5B] ++ cs.src ++ ([0x5D, 0x28] ++ destSrc url angle ++ titleSrc title ++ [0x29]) := by
      simp [Inl.src]
    obtain ⟨w1, w2, w3, w4, w5⟩ := wrap_facts br p n [0x5B] _ cs rfl ht (by simp) (by simp) (by simpa using F)
    rw [← e] at w1 w2 w3 w4 w5
    exact ⟨by simpa [Inl.ph] using F.ph, w1, w2, w3, by simpa [Inl.firstB] using w4,
      by rw [w5, List.getLast?_append]; simp [Inl.lastB], fun _ _ => rfl⟩
  | .link url title angle (.ref label dl bf) cs, a, b, br, p, n, f, _, _, h => by
    simp only [Inl.wf, Bool.and_eq_true] at h
    have hl1 := h.1.1.1.1.1.1.1.1
    have hcs := h.2
    have F := inls_facts cs true true br _ _ true 0 hcs
    have ht : plainB ([0x5D, 0x5B] ++ label ++ [0x5D]) = true := by
      simp only [plainB_append, label_plain label hl1, Bool.and_true, Bool.true_and]; rfl
    have e : (Inl.link url title angle (.ref label dl bf) cs).src = [0x5B] ++ cs.src ++ ([0x5D, 0x5B] ++ label ++ [0x5D]) := by
      simp [Inl.src]
    obtain ⟨w1, w2, w3, w4, w5⟩ := wrap_facts br p n [0x5B] _ cs rfl ht (by simp) (by simp) (by simpa using F)
    rw [← e] at w1 w2 w3 w4 w5
    exact ⟨by simpa [Inl.ph] using F.ph, w1, w2, w3, by simpa [Inl.firstB] using w4,
      by rw [w5, List.getLast?_append]; simp [Inl.lastB], fun _ _ => rfl⟩
  | .image url title angle cs, a, b, br, p, n, f, _, _, h => by
    simp only [Inl.wf, Bool.and_eq_true] at h
    obtain ⟨⟨⟨_, hdest⟩, htitle⟩, hcs⟩ := h
    have F := inls_facts cs a true br _ _ true 0 hcs
    have ht : plainB ([0x5D, 0x28] ++ destSrc url angle ++ titleSrc title ++ [0x29]) = true := by
      simp only [plainB_append, dest_plain url angle hdest, title_plain title htitle, Bool.and_true, Bool.true_and]; rfl
    have e : (Inl.image url title angle cs).src = [0x21, 0x5B] ++ cs.src ++ ([0x5D, 0x28] ++ destSrc url angle ++ titleSrc title ++ [0x29]) := by
      simp [Inl.src]
    obtain ⟨w1, w2, w3, w4, w5⟩ := wrap_facts br p n [0x21, 0x5B] _ cs rfl ht (by simp) (by simp) (by simpa using F)
    rw [← e] at w1 w2 w3 w4 w5
    exact ⟨by simpa [Inl.ph] using F.ph, w1, w2, w3, by simpa [Inl.firstB] using w4,
      by rw [w5, List.getLast?_append]; simp [Inl.lastB], fun _ _ => rfl⟩
  | .autolink sc r, _, _, br, p, n, f, _, _, h => by
    simp only [Inl.wf, Bool.and_eq_true, decide_eq_true_eq] at h
    have hu := autolink_plain sc r h.1.2 h.2
    have hpl : plainB (Inl.autolink sc r).src = true := by
      simp only [Inl.src, plainB_append, hu, Bool.and_true, Bool.true_and]; rfl
    refine leaf_facts br p n f _ (by simpa [Inl.ph] using plainB_nlFree _ hu) hpl (by simp [Inl.src, Inl.firstB]) ?_ (fun _ _ => rfl)
    simp [Inl.src, Inl.lastB]
  | .hard bs, _, _, br, p, n, f, _, _, h => by
    simp only [Inl.wf, Bool.and_eq_true, Bool.not_eq_true', bne_iff_ne, ne_eq] at h
    obtain ⟨⟨⟨⟨⟨⟨⟨hbr, hf⟩, _⟩, hp⟩, _⟩, hn⟩, _⟩, _⟩ := h
    subst hbr
    cases bs
    · exact ⟨rfl, (by simp [Inl.src]), (fun h => by cases h), (by simp [Inl.src, sepOk, hn]), rfl, rfl,
        (fun h1 _ => by rw [h1] at hf; cases hf)⟩
    · exact ⟨rfl, (by simp [Inl.src]), (fun h => by cases h), (by simp [Inl.src, sepOk, hn]), rfl, rfl,
        (fun h1 _ => by rw [h1] at hf; cases hf)⟩
  | .soft, _, _, br, p, n, f, _, _, h => by
    simp only [Inl.wf, Bool.and_eq_true, Bool.not_eq_true', bne_iff_ne, ne_eq] at h
    obtain ⟨⟨⟨⟨⟨⟨hbr, hf⟩, _⟩, hp⟩, _⟩, hn⟩, _⟩ := h
    subst hbr
    exact ⟨rfl, (by simp [Inl.src]), (fun h => by cases h), (by simp [Inl.src, sepOk, hn, hp]), rfl, rfl,
      (fun h1 _ => by rw [h1] at hf; cases hf)⟩
  | .fnref name rn ix, _, _, br, p, n, f, _, _, h => by
    simp only [Inl.wf, Bool.and_eq_true] at h
    have hnm := fnName_plain name h.1.1.1.1.1.1.2
    have hpl : plainB (Inl.fnref name rn ix).src = true := by
      simp only [Inl.src, plainB_append, hnm, Bool.and_true, Bool.true_and]; rfl
    refine leaf_facts br p n f _ rfl hpl (by simp [Inl.src, Inl.firstB]) ?_ (fun _ _ => rfl)
    simp [Inl.src, Inl.lastB]
theorem inls_facts : ∀ (is : Inls) (a b br : Bool) (p af : UInt8) (f : Bool) (pc : Nat),
    is.wf a b br p af f pc = true → InlsF br p af f is
  | .nil, _, _, br, p, af, f, _, _ =>
    ⟨rfl, (by simp [Inls.src]), (fun _ => rfl), rfl, rfl, (fun h => by cases h), (fun h => by cases h)⟩
  | .cons i r, a, b, br, p, af, f, pc, h => by
    simp only [Inls.wf, Bool.and_eq_true] at h
    have Fi := inl_facts i a b br p (r.firstB af) f r.isNil pc h.1.2
    have Fr := inls_facts r a b br i.lastB af false i.textClass h.2
    have hine := Inl.src_ne_nil i Fi.ph
    refine ⟨by simp [Inls.ph, Fi.ph, Fr.ph], ?_, ?_, ?_, ?_, fun _ => by simp [Inls.src, hine], ?_⟩
    · intro x hx
      simp only [Inls.src, List.mem_append] at hx
      rcases hx with hx | hx
      · exact Fi.cr x hx
      · exact Fr.cr x hx
    · intro hb; simp only [Inls.src, nlFree_append, Fi.nl hb, Fr.nl hb, Bool.and_self]
    · simp only [Inls.src]
      refine sep_append i.src r.src p af (by rw [Fr.hd]; exact Fi.sep) ?_
      have : i.src.getLastD p = i.lastB := by
        rw [List.getLastD_eq_getLast?, Fi.lst]; rfl
      rw [this]; exact Fr.sep
    · simp only [Inls.src, Inls.firstB, headD_append]
      cases hq : i.src with
      | nil => exact absurd hq hine
      | cons x t =>
        have := Fi.hd
        rw [hq] at this
        simpa using this
    · intro _ hf hp
      simpa [Inls.firstB] using Fi.fsp hf hp
end

end Comrak.Canon
