/-
C06 helper lemmas: the positional backtick memo (`btLoopPos`, the model that equals the real
`backtick-scan` counter) obeys the same amortised bound as the specification-level memo.

Invariant `MemoInv memo pos rs`: every memo entry that lies ahead of the current position is (at most)
the start of a run of that length that is still ahead. Hence once `scanned_for_backticks` is set, a scan
that is not rejected by the memo test always finds its closer: at most one scan ever fails.
-/
import Comrak.Cost
namespace Comrak.Cost
open Comrak

/-- Some run of length `k` among `rs` (which start at byte `pos`) starts at byte `x` or later. -/
def ahead (k x : Nat) : Nat → List Run → Prop
  | _, [] => False
  | pos, r :: rs => (r.len = k ∧ x ≤ pos + r.gap) ∨ ahead k x (pos + r.gap + r.len) rs

def MemoInv (memo : Nat → Nat) (pos : Nat) (rs : List Run) : Prop :=
  ∀ k, pos < memo k → ahead k (memo k) pos rs

theorem memoInv_init (rs : List Run) : MemoInv (fun _ => 0) 0 rs := by
  intro k h; exact absurd h (by simp)

/-- Passing a run: entries ahead of the new position still point at runs that are ahead. -/
theorem memoInv_tail (memo : Nat → Nat) (pos : Nat) (r : Run) (rs : List Run)
    (h : MemoInv memo pos (r :: rs)) : MemoInv memo (pos + r.gap + r.len) rs := by
  intro k hk
  have := h k (by omega)
  simp only [ahead] at this
  rcases this with ⟨_, h2⟩ | h2
  · omega
  · exact h2

/-- Overwriting an entry with a position that is not ahead keeps the invariant. -/
theorem memoInv_update (memo : Nat → Nat) (pos : Nat) (rs : List Run) (j x : Nat) (hx : x ≤ pos)
    (h : MemoInv memo pos rs) : MemoInv (fun k => if k = j then x else memo k) pos rs := by
  intro k hk
  by_cases hj : k = j
  · simp [hj] at hk; omega
  · simp only [hj, if_false] at hk ⊢; exact h k hk

/-- A run of the wanted length ahead: the scan finds it. -/
theorem scanPos_found_of_ahead (L x : Nat) : ∀ (memo : Nat → Nat) (pos : Nat) (rs : List Run),
    ahead L x pos rs → (scanPos L memo pos rs).found = true
  | _, _, [], h => by simp [ahead] at h
  | memo, pos, r :: rs, h => by
    simp only [scanPos]
    split
    · rfl
    · rename_i hne
      simp only [ahead] at h
      rcases h with ⟨h1, _⟩ | h2
      · exact absurd h1 hne
      · exact scanPos_found_of_ahead L x _ _ rs h2

/-- Every entry after a scan is the old one or the start of a scanned run of that length. -/
theorem scanPos_memo (L k : Nat) : ∀ (memo : Nat → Nat) (pos : Nat) (rs : List Run),
    (scanPos L memo pos rs).memo k = memo k ∨ ahead k ((scanPos L memo pos rs).memo k) pos rs
  | _, _, [] => by simp [scanPos]
  | memo, pos, r :: rs => by
    simp only [scanPos]
    split
    · -- closer
      simp only [ahead]
      split
      · by_cases hk : k = r.len
        · right; left; simp [hk]
        · left; simp [hk]
      · left; rfl
    · simp only [ahead]
      rcases scanPos_memo L k (if r.len ≤ MAXBACKTICKS then fun k => if k = r.len then pos + r.gap else memo k else memo)
          (pos + r.gap + r.len) rs with h | h
      · rw [h]
        split
        · by_cases hk : k = r.len
          · right; left; simp [hk]
          · left; simp [hk]
        · left; rfl
      · right; right; exact h

/-- A failed (or any) scan leaves the invariant intact at the position it started from. -/
theorem memoInv_scan_same (L : Nat) (memo : Nat → Nat) (pos : Nat) (rs : List Run) (h : MemoInv memo pos rs) :
    MemoInv (scanPos L memo pos rs).memo pos rs := by
  intro k hk
  rcases scanPos_memo L k memo pos rs with h1 | h1
  · rw [h1] at hk ⊢; exact h k hk
  · exact h1

/-- A successful scan leaves the invariant intact at the position it stops at. -/
theorem memoInv_scan_found (L : Nat) : ∀ (memo : Nat → Nat) (pos : Nat) (rs : List Run), MemoInv memo pos rs →
    (scanPos L memo pos rs).found = true →
    MemoInv (scanPos L memo pos rs).memo (scanPos L memo pos rs).pos (scanPos L memo pos rs).rest
  | _, _, [], _, hf => by simp [scanPos] at hf
  | memo, pos, r :: rs, h, hf => by
    have ht := memoInv_tail memo pos r rs h
    have hu : MemoInv (if r.len ≤ MAXBACKTICKS then fun k => if k = r.len then pos + r.gap else memo k else memo)
        (pos + r.gap + r.len) rs := by
      split
      · exact memoInv_update memo _ rs r.len (pos + r.gap) (by omega) ht
      · exact ht
    simp only [scanPos] at hf ⊢
    split
    · exact hu
    · rename_i hne
      simp only [hne, if_false] at hf
      exact memoInv_scan_found L _ _ rs hu hf

/-- Cost accounting of a scan: a successful one consumes exactly what it costs and shortens the list;
    a failed one costs everything that is left. -/
theorem scanPos_cost (L : Nat) : ∀ (memo : Nat → Nat) (pos : Nat) (rs : List Run),
    ((scanPos L memo pos rs).found = true →
        (scanPos L memo pos rs).cost + totalLen (scanPos L memo pos rs).rest = totalLen rs ∧
        (scanPos L memo pos rs).rest.length < rs.length) ∧
    ((scanPos L memo pos rs).found = false → (scanPos L memo pos rs).cost = totalLen rs)
  | _, _, [] => by simp [scanPos, totalLen]
  | memo, pos, r :: rs => by
    simp only [scanPos]
    split
    · simp [totalLen]
    · have ih := scanPos_cost L (if r.len ≤ MAXBACKTICKS then fun k => if k = r.len then pos + r.gap else memo k else memo)
          (pos + r.gap + r.len) rs
      simp only [totalLen, List.length_cons]
      constructor
      · intro hf
        have := ih.1 hf
        omega
      · intro hf
        have := ih.2 hf
        omega

/-- The amortised bound, by flag state (the same as for the specification-level memo). -/
def btBoundPos : Bool → List Run → Nat → Nat
  | true, rs, _ => rs.length + totalLen rs
  | false, rs, tail => rs.length + 2 * totalLen rs + tail

theorem btLoopPos_bound (fuel : Nat) : ∀ (scanned : Bool) (memo : Nat → Nat) (pos : Nat) (rs : List Run) (tail : Nat),
    MemoInv memo pos rs → btLoopPos fuel scanned memo pos rs tail ≤ btBoundPos scanned rs tail := by
  induction fuel with
  | zero => intro scanned memo pos rs tail _; simp [btLoopPos]
  | succ fuel ih =>
    intro scanned memo pos rs tail hI
    cases rs with
    | nil => simp [btLoopPos]
    | cons r rs =>
      have ht := memoInv_tail memo pos r rs hI
      simp only [btLoopPos]
      split
      · have := ih scanned memo _ rs tail ht
        cases scanned <;> simp only [btBoundPos, totalLen, List.length_cons] at * <;> omega
      · split
        · have := ih scanned memo _ rs tail ht
          cases scanned <;> simp only [btBoundPos, totalLen, List.length_cons] at * <;> omega
        · rename_i hlen hmemo
          have hc := scanPos_cost r.len memo (pos + r.gap + r.len) rs
          split
          · rename_i hf
            have hI' := memoInv_scan_found r.len memo _ rs ht hf
            have := ih scanned _ _ _ tail hI'
            have ⟨h1, h2⟩ := hc.1 hf
            cases scanned <;> simp only [btBoundPos, totalLen, List.length_cons] at * <;> omega
          · rename_i hf
            have hf' : (scanPos r.len memo (pos + r.gap + r.len) rs).found = false := by
              simpa using hf
            have hI' := memoInv_scan_same r.len memo _ rs ht
            have := ih true _ _ _ tail hI'
            have h1 := hc.2 hf'
            cases scanned with
            | false => simp only [btBoundPos, totalLen, List.length_cons] at *; omega
            | true =>
              -- the flag is set and the memo test passed: a run of this length is ahead, the scan succeeds
              exfalso
              have hgt : pos + r.gap + r.len < memo r.len := by
                simp only [Bool.true_and, decide_eq_true_eq] at hmemo; omega
              have ha := ht r.len hgt
              have := scanPos_found_of_ahead r.len _ memo _ rs ha
              rw [this] at hf'; exact absurd hf' (by simp)

end Comrak.Cost
