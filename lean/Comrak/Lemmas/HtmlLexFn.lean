/-
Bridge from the token-level HTML model to bytes, part 4: the footnote `<section class="footnotes">`
start tag occurs at most once in the lexed bytes of a rendered document (the `footnotesTwice` clause
of the oracle `balancedBytes`, which is independent of the tag stack) - all options, all trees.
-/
import Comrak.Lemmas.HtmlLex
import Comrak.Lemmas.HtmlTree
namespace Comrak
open Bytes

def isSecName (n : Bytes) : Bool := n == S.t_section

/-- Lexed token that `balStep` counts as the footnote section. -/
def isFnSecL : LTok → Bool
  | .op n as => isFootnoteSection n as
  | _ => false

/-- Model token whose image is counted as the footnote section. -/
def fnSecTok : Tok → Bool
  | .op n as => isSecName n && (as.map lattr).any fun a => a.1 == S.a_class && a.2 == some S.v_footnotes
  | _ => false

def fnCount (ts : List Tok) : Nat := ts.countP fnSecTok

@[simp] theorem isSecName_t_blockquote : isSecName S.t_blockquote = false := by decide
@[simp] theorem isSecName_t_code : isSecName S.t_code = false := by decide
@[simp] theorem isSecName_t_pre : isSecName S.t_pre = false := by decide
@[simp] theorem isSecName_t_em : isSecName S.t_em = false := by decide
@[simp] theorem isSecName_t_a : isSecName S.t_a = false := by decide
@[simp] theorem isSecName_t_img : isSecName S.t_img = false := by decide
@[simp] theorem isSecName_t_figure : isSecName S.t_figure = false := by decide
@[simp] theorem isSecName_t_figcaption : isSecName S.t_figcaption = false := by decide
@[simp] theorem isSecName_t_li : isSecName S.t_li = false := by decide
@[simp] theorem isSecName_t_br : isSecName S.t_br = false := by decide
@[simp] theorem isSecName_t_ul : isSecName S.t_ul = false := by decide
@[simp] theorem isSecName_t_ol : isSecName S.t_ol = false := by decide
@[simp] theorem isSecName_t_p : isSecName S.t_p = false := by decide
@[simp] theorem isSecName_t_strong : isSecName S.t_strong = false := by decide
@[simp] theorem isSecName_t_hr : isSecName S.t_hr = false := by decide
@[simp] theorem isSecName_t_section : isSecName S.t_section = true := by decide
@[simp] theorem isSecName_t_sup : isSecName S.t_sup = false := by decide
@[simp] theorem isSecName_t_del : isSecName S.t_del = false := by decide
@[simp] theorem isSecName_t_table : isSecName S.t_table = false := by decide
@[simp] theorem isSecName_t_thead : isSecName S.t_thead = false := by decide
@[simp] theorem isSecName_t_tbody : isSecName S.t_tbody = false := by decide
@[simp] theorem isSecName_t_tr : isSecName S.t_tr = false := by decide
@[simp] theorem isSecName_t_th : isSecName S.t_th = false := by decide
@[simp] theorem isSecName_t_td : isSecName S.t_td = false := by decide
@[simp] theorem isSecName_t_input : isSecName S.t_input = false := by decide
@[simp] theorem isSecName_t_div : isSecName S.t_div = false := by decide
@[simp] theorem isSecName_t_dd : isSecName S.t_dd = false := by decide
@[simp] theorem isSecName_t_dl : isSecName S.t_dl = false := by decide
@[simp] theorem isSecName_t_dt : isSecName S.t_dt = false := by decide
@[simp] theorem isSecName_t_span : isSecName S.t_span = false := by decide
@[simp] theorem isSecName_t_sub : isSecName S.t_sub = false := by decide
@[simp] theorem isSecName_t_u : isSecName S.t_u = false := by decide

@[simp] theorem isSecName_heading (level : Nat) : isSecName (headingName level) = false := by
  simp [isSecName, headingName, S.t_h, S.t_section]

@[simp] theorem fnCount_nil : fnCount [] = 0 := rfl
@[simp] theorem fnCount_append (a b : List Tok) : fnCount (a ++ b) = fnCount a + fnCount b := by
  simp [fnCount, List.countP_append]
theorem fnCount_cons (t : Tok) (r : List Tok) : fnCount (t :: r) = (if fnSecTok t then 1 else 0) + fnCount r := by
  simp [fnCount, List.countP_cons]; omega

/-- A token list none of whose start tags is `<section>`. -/
def noSec : Tok → Bool
  | .op n _ => !isSecName n
  | _ => true

theorem fnCount_noSec (ts : List Tok) (h : ts.all noSec = true) : fnCount ts = 0 := by
  induction ts with
  | nil => rfl
  | cons t r ih =>
    simp only [List.all_cons, Bool.and_eq_true] at h
    rw [fnCount_cons, ih h.2]
    cases t <;> simp_all [fnSecTok, noSec]

/-! ### The lexed image counts the same -/

theorem countP_textL (pre : Bytes) : (textL pre).countP isFnSecL = 0 := by
  unfold textL; split <;> simp [isFnSecL]

theorem countP_toLAux (ts : List Tok) (pre : Bytes) : (toLAux pre ts).countP isFnSecL = fnCount ts := by
  induction ts generalizing pre with
  | nil => simp [toLAux, countP_textL]
  | cons t r ih =>
    rw [fnCount_cons]
    cases t <;>
      simp [toLAux, List.countP_append, List.countP_cons, countP_textL, ih, isFnSecL, fnSecTok, isFootnoteSection,
        isSecName] <;> omega

/-! ### Per node -/

@[simp] theorem noSec_cr (st : St) : (W.cr st).1.all noSec = true := by
  unfold W.cr; split <;> simp [noSec]

theorem noSec_backrefToks (name : Bytes) (ix k n : Nat) : (backrefToks name ix k n).all noSec = true := by
  induction k generalizing n with
  | zero => rfl
  | succ k ih =>
    simp only [backrefToks, List.all_append, ih, Bool.and_true]
    by_cases h : n > 1 <;> simp [h, noSec]

theorem noSec_putBackref (name : Bytes) (total : Nat) (st : St) :
    (putBackref name total st).1.1.all noSec = true := by
  unfold putBackref; split <;> simp [noSec_backrefToks]

theorem noSec_htmlBlockToks (o : HtmlOpts) (l : Bytes) : (htmlBlockToks o l).all noSec = true := by
  unfold htmlBlockToks; (repeat' split) <;> simp [noSec]

theorem noSec_htmlInlineToks (o : HtmlOpts) (l : Bytes) : (htmlInlineToks o l).all noSec = true := by
  unfold htmlInlineToks; (repeat' split) <;> simp [noSec]

theorem noSec_rowSectionToks (h : Bool) (prev : Option NodeValue) : (rowSectionToks h prev).all noSec = true := by
  unfold rowSectionToks; (repeat' split) <;> simp [noSec, nl]

theorem noSec_mathCodeBlockToks (o : HtmlOpts) (sp : Sp) (l : Bytes) :
    (mathCodeBlockToks o sp l).all noSec = true := by
  simp [mathCodeBlockToks, noSec, nl]

/-- Every node other than a footnote definition writes no `<section>` on entry. -/
theorem enter_noSec (o : HtmlOpts) (nt : NormTable) (cx : Ctx) (v : NodeValue) (sp : Sp) (cs : Forest) (st : St)
    (hd : isDef v = false) : (enter o nt cx v sp cs st).1.all noSec = true := by
  cases v
  case footnoteDefinition name total => simp [isDef] at hd
  case htmlBlock bt l => simp [enter, noSec_htmlBlockToks]
  case htmlInline l => simp [enter, noSec_htmlInlineToks]
  case codeBlock f fc fl fo info lit =>
    simp only [enter]
    split <;> simp [noSec_mathCodeBlockToks, noSec, nl]
  case heading level setext =>
    cases h : o.headerIds <;> simp [enter, h, noSec]
  case alert ty title m fl fo => cases title <;> simp [enter, noSec, nl]
  case list l => cases hl : l.ty <;> simp [enter, hl, noSec, nl]
  case tableRow h => simp [enter, noSec, noSec_rowSectionToks]
  case tableCell =>
    simp [enter, noSec]
    split
    · split <;> simp
    · simp
  all_goals simp only [enter]
  all_goals (repeat' split)
  all_goals (try simp_all [noSec, nl, List.all_append])

/-- A footnote definition writes the footnote section exactly when it is the first one. -/
theorem enter_def_fnCount (o : HtmlOpts) (nt : NormTable) (cx : Ctx) (name : Bytes) (total : Nat) (sp : Sp) (cs : Forest)
    (st : St) :
    fnCount (enter o nt cx (.footnoteDefinition name total) sp cs st).1 = if st.fnIx = 0 then 1 else 0 := by
  simp only [enter]
  split
  · rename_i h
    simp [h, fnCount, fnSecTok, nl, lattr, litAttr, spellVal, APart.spell, List.any_append]
  · rename_i h
    simp [fnCount, fnSecTok]

theorem exit_noSec (o : HtmlOpts) (cx : Ctx) (v : NodeValue) (cs : Forest) (st : St) :
    (exit o cx v cs st).1.all noSec = true := by
  cases v
  case paragraph =>
    simp only [exit]
    split
    · simp
    · cases hp : cx.parent with
      | none => simp [noSec, nl]
      | some pv =>
        cases pv
        case footnoteDefinition name total =>
          simp only [W.seq_fst, List.all_append, Bool.and_eq_true]
          refine ⟨?_, by simp [noSec, nl]⟩
          split
          · simp only [W.seq_fst, List.all_append, Bool.and_eq_true]
            exact ⟨by simp [noSec], noSec_putBackref _ _ _⟩
          · simp
        all_goals simp [noSec, nl]
  case footnoteDefinition name total =>
    simp only [exit, W.seq_fst, List.all_append, Bool.and_eq_true]
    refine ⟨⟨noSec_putBackref _ _ _, ?_⟩, by simp [noSec, nl]⟩
    split <;> simp [noSec, nl]
  case list l => cases hl : l.ty <;> simp [exit, hl, noSec, nl]
  all_goals simp only [exit]
  all_goals (repeat' split)
  all_goals (try simp_all [noSec, nl, List.all_append])

/-! ### Whole tree -/

/-- 1 once a footnote definition has been entered. -/
def fnInd (k : Nat) : Nat := if k = 0 then 0 else 1

theorem enter_fnCount (o : HtmlOpts) (nt : NormTable) (cx : Ctx) (v : NodeValue) (sp : Sp) (cs : Forest) (st : St) :
    fnCount (enter o nt cx v sp cs st).1 + fnInd st.fnIx = fnInd (enter o nt cx v sp cs st).2.fnIx ∧
    st.fnIx ≤ (enter o nt cx v sp cs st).2.fnIx := by
  rw [enter_fnIx]
  by_cases hd : isDef v = true
  · obtain ⟨name, total, rfl⟩ : ∃ name total, v = .footnoteDefinition name total := by
      cases v <;> simp_all [isDef]
    rw [enter_def_fnCount]
    simp only [isDef, if_true, fnInd]
    refine ⟨?_, by omega⟩
    split <;> simp_all
  · have hd' : isDef v = false := by simpa using hd
    rw [fnCount_noSec _ (enter_noSec o nt cx v sp cs st hd')]
    simp [hd']

mutual
theorem renderT_fnCount (o : HtmlOpts) (nt : NormTable) :
    ∀ (t : Tree) (cx : Ctx) (st : St),
      fnCount (renderT o nt cx t st).1 + fnInd st.fnIx = fnInd (renderT o nt cx t st).2.fnIx ∧
      st.fnIx ≤ (renderT o nt cx t st).2.fnIx
  | .node v sp cs, cx, st => by
    rw [renderT_node]
    simp only [fnCount_append, fnCount_noSec _ (exit_noSec o cx v cs _), exit_fnIx, Nat.add_zero]
    obtain ⟨e1, e2⟩ := enter_fnCount o nt cx v sp cs st
    split
    · obtain ⟨f1, f2⟩ := renderF_fnCount o nt cs (some v) cx.parent none 0 (enter o nt cx v sp cs st).2
      exact ⟨by omega, by omega⟩
    · exact ⟨by simpa using e1, e2⟩
theorem renderF_fnCount (o : HtmlOpts) (nt : NormTable) :
    ∀ (f : Forest) (parent grand prev : Option NodeValue) (idx : Nat) (st : St),
      fnCount (renderF o nt parent grand prev idx f st).1 + fnInd st.fnIx =
        fnInd (renderF o nt parent grand prev idx f st).2.fnIx ∧
      st.fnIx ≤ (renderF o nt parent grand prev idx f st).2.fnIx
  | .nil, _, _, _, _, _ => by simp [renderF]
  | .cons t ts, parent, grand, prev, idx, st => by
    rw [renderF_cons]
    simp only [fnCount_append]
    obtain ⟨t1, t2⟩ := renderT_fnCount o nt t
      { parent := parent, grand := grand, prev := prev, isLast := ts.isNil, index := idx } st
    obtain ⟨f1, f2⟩ := renderF_fnCount o nt ts parent grand (some t.value) (idx + 1)
      (renderT o nt { parent := parent, grand := grand, prev := prev, isLast := ts.isNil, index := idx } t st).2
    exact ⟨by omega, by omega⟩
end

/-- The footnote section start tag is written at most once - all options, all trees. -/
theorem renderToks_fnCount (o : HtmlOpts) (nt : NormTable) (t : Tree) : fnCount (renderToks o nt t) ≤ 1 := by
  unfold renderToks
  simp only [W.seq_fst, fnCount_append]
  obtain ⟨t1, _⟩ := renderT_fnCount o nt t {} {}
  have hf : fnCount (finish (renderT o nt {} t {}).2).1 = 0 := by
    apply fnCount_noSec
    unfold finish
    split <;> simp [noSec, nl]
  have h0 : fnInd ({} : St).fnIx = 0 := rfl
  have h1 : fnInd (renderT o nt {} t {}).2.fnIx ≤ 1 := by unfold fnInd; split <;> omega
  omega

/-- The lexed bytes of any allowed token list contain as many footnote-section start tags as the
    token list. -/
theorem lex_spell_fnCount (ts : List Tok) (h : ts.all allowedTok = true) :
    ∃ l, lexHtml (spell ts) = some l ∧ l.countP isFnSecL = fnCount ts :=
  ⟨toL ts, lex_spell ts h, countP_toLAux ts []⟩

end Comrak
