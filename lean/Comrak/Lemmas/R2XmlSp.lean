/-
C18 helper lemmas, XML half: erasing the ` sourcepos="…"` attribute from the tokens of the XML
formatter model (Comrak/Xml.lean).  The formatter's only state is the `indent` field, which does
not depend on the option, so the per-node lemma lifts to whole trees by a plain mutual induction.
-/
import Comrak.Lemmas.Xml
namespace Comrak
open Bytes

/-- Is this piece of a start tag comrak's own `sourcepos` attribute? -/
def isXmlSpAttr : XAttr → Bool
  | .mk n _ => n == XS.a_sourcepos

/-- Remove the `sourcepos` attribute from a start tag. -/
def eraseXmlSpTok : XTok → XTok
  | .opn i n as => .opn i n (as.filter fun a => !isXmlSpAttr a)
  | .leaf i n as l => .leaf i n (as.filter fun a => !isXmlSpAttr a) l
  | .empty i n as => .empty i n (as.filter fun a => !isXmlSpAttr a)
  | .close i n => .close i n

def eraseXmlSp (ts : List XTok) : List XTok := ts.map eraseXmlSpTok

def withXmlSp (o : XmlOpts) (b : Bool) : XmlOpts := { o with sourcepos := b }

@[simp] theorem xne_a_xmlns : (XS.a_xmlns == XS.a_sourcepos) = false := by decide
@[simp] theorem xne_a_xml_space : (XS.a_xml_space == XS.a_sourcepos) = false := by decide
@[simp] theorem xne_a_type : (XS.a_type == XS.a_sourcepos) = false := by decide
@[simp] theorem xne_a_start : (XS.a_start == XS.a_sourcepos) = false := by decide
@[simp] theorem xne_a_delim : (XS.a_delim == XS.a_sourcepos) = false := by decide
@[simp] theorem xne_a_tasklist : (XS.a_tasklist == XS.a_sourcepos) = false := by decide
@[simp] theorem xne_a_tight : (XS.a_tight == XS.a_sourcepos) = false := by decide
@[simp] theorem xne_a_level : (XS.a_level == XS.a_sourcepos) = false := by decide
@[simp] theorem xne_a_info : (XS.a_info == XS.a_sourcepos) = false := by decide
@[simp] theorem xne_a_math_style : (XS.a_math_style == XS.a_sourcepos) = false := by decide
@[simp] theorem xne_a_destination : (XS.a_destination == XS.a_sourcepos) = false := by decide
@[simp] theorem xne_a_title : (XS.a_title == XS.a_sourcepos) = false := by decide
@[simp] theorem xne_a_align : (XS.a_align == XS.a_sourcepos) = false := by decide
@[simp] theorem xne_a_label : (XS.a_label == XS.a_sourcepos) = false := by decide
@[simp] theorem xne_a_completed : (XS.a_completed == XS.a_sourcepos) = false := by decide
@[simp] theorem xne_a_multiline : (XS.a_multiline == XS.a_sourcepos) = false := by decide
@[simp] theorem xne_a_tag : (XS.a_tag == XS.a_sourcepos) = false := by decide
@[simp] theorem xeq_a_sourcepos : (XS.a_sourcepos == XS.a_sourcepos) = true := by decide

@[simp] theorem isXmlSpAttr_xAttr (n v : Bytes) : isXmlSpAttr (xAttr n v) = (n == XS.a_sourcepos) := rfl
@[simp] theorem isXmlSpAttr_xAttrE (n v : Bytes) : isXmlSpAttr (xAttrE n v) = (n == XS.a_sourcepos) := rfl
@[simp] theorem isXmlSpAttr_preserve : isXmlSpAttr preserveAttr = false := by
  simp [preserveAttr]

@[simp] theorem xmlSpAttr_off (o : XmlOpts) (sp : Sp) : xmlSpAttr (withXmlSp o false) sp = [] := by
  simp [xmlSpAttr, withXmlSp]

/-- With the option on, the position attribute (when written at all) is erased. -/
@[simp] theorem filter_xmlSpAttr (o : XmlOpts) (b : Bool) (sp : Sp) :
    (xmlSpAttr (withXmlSp o b) sp).filter (fun a => !isXmlSpAttr a) = [] := by
  simp only [xmlSpAttr, withXmlSp]
  by_cases h : (b && sp.sl != 0) = true <;> simp [h]

theorem alignXmlAttr_noSp (al : Align) :
    (alignXmlAttr al).filter (fun a => !isXmlSpAttr a) = alignXmlAttr al := by
  cases al <;> simp [alignXmlAttr]

/-- Per kind: none of the attributes `format_node` writes after the position is called
    `sourcepos`, so erasing leaves them alone (all 41 kinds, every context). -/
theorem xmlKindAttrs_noSp (cx : XCtx) (v : NodeValue) :
    (xmlKindAttrs cx v).filter (fun a => !isXmlSpAttr a) = xmlKindAttrs cx v := by
  cases v
  case tableCell =>
    simp only [xmlKindAttrs]
    split <;> simp [alignXmlAttr_noSp]
  case codeBlock f fc fl fo info lit =>
    simp only [xmlKindAttrs]
    by_cases h1 : info.isEmpty = true <;> by_cases h2 : (info == XS.v_math) = true <;>
      simp [h1, h2]
  case list l =>
    simp only [xmlKindAttrs]
    cases l.ty <;> cases l.isTaskList <;> simp
  case alert ty title m fl fo =>
    simp only [xmlKindAttrs]
    cases title <;> cases m <;> simp
  all_goals simp [xmlKindAttrs]

/-- The attribute list of one start tag: erasing the position attribute from the list written
    with the option on gives the list written with it off. -/
theorem xmlAttrs_eraseSp (o : XmlOpts) (b : Bool) (cx : XCtx) (v : NodeValue) (sp : Sp) :
    (xmlAttrs (withXmlSp o b) cx v sp).filter (fun a => !isXmlSpAttr a)
      = xmlAttrs (withXmlSp o false) cx v sp := by
  simp [xmlAttrs, List.filter_append, xmlKindAttrs_noSp]

theorem eraseXmlSp_append (a b : List XTok) : eraseXmlSp (a ++ b) = eraseXmlSp a ++ eraseXmlSp b := by
  simp [eraseXmlSp]

mutual
theorem renderXmlT_withSp (o : XmlOpts) (b : Bool) :
    ∀ (t : Tree) (ind : Nat) (cx : XCtx),
      eraseXmlSp (renderXmlT (withXmlSp o b) ind cx t) = renderXmlT (withXmlSp o false) ind cx t
  | .node v sp cs, ind, cx => by
    have hF := renderXmlF_withSp o b cs (ind + 2) (some v) cx.parent 0
    have hA := xmlAttrs_eraseSp o b cx v sp
    simp only [renderXmlT]
    split
    · split
      · simp [eraseXmlSp, eraseXmlSpTok, hA]
      · simp only [eraseXmlSp, List.map_cons, List.map_append, eraseXmlSpTok, hA] at hF ⊢
        rw [hF]; rfl
    · split
      · simp [eraseXmlSp, eraseXmlSpTok, hA]
      · simp only [eraseXmlSp, List.map_cons, List.map_append, eraseXmlSpTok, hA] at hF ⊢
        rw [hF]; rfl
theorem renderXmlF_withSp (o : XmlOpts) (b : Bool) :
    ∀ (f : Forest) (ind : Nat) (parent grand : Option NodeValue) (idx : Nat),
      eraseXmlSp (renderXmlF (withXmlSp o b) ind parent grand idx f)
        = renderXmlF (withXmlSp o false) ind parent grand idx f
  | .nil, _, _, _, _ => by simp [renderXmlF, eraseXmlSp]
  | .cons t ts, ind, parent, grand, idx => by
    simp only [renderXmlF, eraseXmlSp_append]
    rw [renderXmlT_withSp o b t ind _, renderXmlF_withSp o b ts ind parent grand (idx + 1)]
end

/-- Erasing is idempotent (after erasing, no start tag carries the attribute). -/
theorem eraseXmlSpTok_idem (t : XTok) : eraseXmlSpTok (eraseXmlSpTok t) = eraseXmlSpTok t := by
  cases t <;> simp [eraseXmlSpTok, List.filter_filter]

/-! ### Bytes: what erasing removes from the output -/

/-- The bytes of a position attribute: ` sourcepos="l:c-l:c"`. -/
def xmlSpAttrBytes (sp : Sp) : Bytes :=
  [0x20] ++ XS.a_sourcepos ++ [0x3D, 0x22] ++ xmlSpBytes sp ++ [0x22]

/-- The start tag written with the option on is the one written with it off with
    ` sourcepos="l:c-l:c"` inserted right after the element name (and nothing at all when the
    start line is 0). -/
theorem spell_xmlAttrs_on (o : XmlOpts) (cx : XCtx) (v : NodeValue) (sp : Sp) :
    spellXAttrs (xmlAttrs (withXmlSp o true) cx v sp)
      = (if sp.sl != 0 then xmlSpAttrBytes sp else []) ++ spellXAttrs (xmlAttrs (withXmlSp o false) cx v sp) := by
  simp only [xmlAttrs, xmlSpAttr, withXmlSp, spellXAttrs, List.flatMap_append]
  by_cases h : sp.sl = 0 <;>
    simp [h, xAttr, XAttr.spell, XVal.spell, xmlSpAttrBytes]

end Comrak
