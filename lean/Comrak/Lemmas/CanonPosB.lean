/-
Positions of canonical documents, layer B: inline content `x` written from a position `p` on into
the lines `G` (`Reg`), the spans `spanOf` claims for it, and their slices.
-/
import Comrak.Lemmas.CanonPosA
namespace Comrak.Canon
open Comrak Bytes

/-- One byte further. -/
def step (c0 : Nat) (p : Pos) (b : UInt8) : Pos := if b = 0x0A then (p.1 + 1, c0) else (p.1, p.2 + 1)

theorem adv_nil (c0 : Nat) (p : Pos) : adv c0 p [] = p := rfl
theorem adv_cons (c0 : Nat) (p : Pos) (b : UInt8) (r : Bytes) : adv c0 p (b :: r) = adv c0 (step c0 p b) r := rfl
theorem adv_append (c0 : Nat) (p : Pos) (a b : Bytes) : adv c0 p (a ++ b) = adv c0 (adv c0 p a) b := by
  simp [adv, List.foldl_append]

def nlFree (x : Bytes) : Bool := x.all fun b => b != 0x0A

theorem nlFree_append (a b : Bytes) : nlFree (a ++ b) = (nlFree a && nlFree b) := by simp [nlFree]

theorem adv_nlFree (c0 : Nat) : ∀ (x : Bytes) (p : Pos), nlFree x = true → adv c0 p x = (p.1, p.2 + x.length)
  | [], p, _ => by simp [adv_nil]
  | b :: r, p, h => by
    simp only [nlFree, List.all_cons, Bool.and_eq_true, bne_iff_ne, ne_eq] at h
    rw [adv_cons, adv_nlFree c0 r _ (by simpa [nlFree] using h.2)]
    simp [step, h.1]; omega

/-- The line of a position counts the line ends passed. -/
theorem adv_line (c0 : Nat) : ∀ (x : Bytes) (p : Pos), (adv c0 p x).1 = p.1 + x.count 0x0A
  | [], p => by simp [adv_nil]
  | b :: r, p => by
    rw [adv_cons, adv_line c0 r]
    by_cases hb : b = 0x0A
    · subst hb; simp [step]; omega
    · have : (0x0A : UInt8) ≠ b := fun e => hb e.symm
      simp [step, hb, List.count_cons, this]

theorem count_zero_nlFree (x : Bytes) (h : x.count 0x0A = 0) : nlFree x = true := by
  have hm := List.count_eq_zero.mp h
  simp only [nlFree, List.all_eq_true, bne_iff_ne, ne_eq]
  intro b hb e
  subst e
  exact hm hb

theorem posLe_step (c0 : Nat) (p : Pos) (b : UInt8) : posLt p.1 p.2 (step c0 p b).1 (step c0 p b).2 = true := by
  unfold step posLt
  split <;> simp

theorem posLt_trans' {a b c d e f : Nat} (h1 : posLt a b c d = true) (h2 : posLe c d e f = true) : posLt a b e f = true := by
  simp only [posLt, posLe, Bool.or_eq_true, Bool.and_eq_true, decide_eq_true_eq] at *
  omega

theorem posLe_of_lt {a b c d : Nat} (h : posLt a b c d = true) : posLe a b c d = true := by
  simp only [posLt, posLe, Bool.or_eq_true, Bool.and_eq_true, decide_eq_true_eq] at *
  omega

theorem adv_le (c0 : Nat) : ∀ (x : Bytes) (p : Pos), posLe p.1 p.2 (adv c0 p x).1 (adv c0 p x).2 = true
  | [], p => by simp [adv_nil, posLe]
  | b :: r, p => by
    rw [adv_cons]
    exact posLe_trans (posLe_of_lt (posLe_step c0 p b)) (adv_le c0 r _)

theorem adv_lt (c0 : Nat) (x : Bytes) (p : Pos) (h : x ≠ []) : posLt p.1 p.2 (adv c0 p x).1 (adv c0 p x).2 = true := by
  cases x with
  | nil => exact absurd rfl h
  | cons b r => rw [adv_cons]; exact posLt_trans' (posLe_step c0 p b) (adv_le c0 r _)

/-! ### Regions -/

/-- A cursor position: on a line of the source, at most one past its last byte. -/
def Cur (G : List Bytes) (p : Pos) : Prop :=
  1 ≤ p.1 ∧ p.1 ≤ G.length ∧ 1 ≤ p.2 ∧ p.2 ≤ lenAt G p.1 + 1

/-- The bytes `x`, written from `p` on, are in the source: every byte other than a line end stands
    at its position, every position passed is a cursor position. -/
def Reg (G : List Bytes) (c0 : Nat) : Pos → Bytes → Prop
  | p, [] => Cur G p
  | p, b :: r =>
    Cur G p ∧ (b ≠ 0x0A → ((nth G (p.1 - 1)).drop (p.2 - 1)).head? = some b) ∧ Reg G c0 (step c0 p b) r

theorem reg_cur {G : List Bytes} {c0 : Nat} {p : Pos} {x : Bytes} (h : Reg G c0 p x) : Cur G p := by
  cases x with
  | nil => exact h
  | cons b r => exact h.1

theorem reg_append {G : List Bytes} {c0 : Nat} : ∀ {a b : Bytes} {p : Pos}, Reg G c0 p (a ++ b) →
    Reg G c0 p a ∧ Reg G c0 (adv c0 p a) b
  | [], b, p, h => ⟨reg_cur h, by simpa [adv_nil] using h⟩
  | x :: a, b, p, h => by
    obtain ⟨h1, h2, h3⟩ := h
    obtain ⟨i1, i2⟩ := reg_append (a := a) (b := b) h3
    exact ⟨⟨h1, h2, i1⟩, by rw [adv_cons]; exact i2⟩

theorem reg_cur_end {G : List Bytes} {c0 : Nat} {p : Pos} {x : Bytes} (h : Reg G c0 p x) : Cur G (adv c0 p x) := by
  have := (reg_append (a := x) (b := []) (by simpa using h)).2
  exact this

/-- A run without line end stands on its line. -/
theorem reg_at {G : List Bytes} {c0 : Nat} : ∀ {u rest : Bytes} {p : Pos}, Reg G c0 p (u ++ rest) → nlFree u = true →
    ∃ R, (nth G (p.1 - 1)).drop (p.2 - 1) = u ++ R
  | [], _, p, _, _ => ⟨_, rfl⟩
  | b :: u, rest, p, h, hn => by
    simp only [nlFree, List.all_cons, Bool.and_eq_true, bne_iff_ne, ne_eq] at hn
    obtain ⟨hcur, h2, h3⟩ := h
    have hb := h2 hn.1
    have hs : step c0 p b = (p.1, p.2 + 1) := by simp [step, hn.1]
    rw [hs] at h3
    obtain ⟨R, hR⟩ := reg_at (u := u) (rest := rest) h3 (by simpa [nlFree] using hn.2)
    simp only at hR
    have hc : 1 ≤ p.2 := hcur.2.2.1
    cases hd : (nth G (p.1 - 1)).drop (p.2 - 1) with
    | nil => simp [hd] at hb
    | cons y t =>
      simp only [hd, List.head?_cons, Option.some.injEq] at hb
      subst hb
      have : (nth G (p.1 - 1)).drop (p.2 + 1 - 1) = t := by
        have e : p.2 + 1 - 1 = (p.2 - 1) + 1 := by omega
        rw [e, ← List.drop_drop, hd]; rfl
      rw [this] at hR
      exact ⟨R, by simp [hR]⟩

/-- The same as a decomposition of the line. -/
theorem reg_at' {G : List Bytes} {c0 : Nat} {u rest : Bytes} {p : Pos} (h : Reg G c0 p (u ++ rest)) (hn : nlFree u = true) :
    ∃ P R, nth G (p.1 - 1) = P ++ u ++ R ∧ P.length + 1 = p.2 := by
  obtain ⟨R, hR⟩ := reg_at h hn
  have hc := reg_cur h
  refine ⟨(nth G (p.1 - 1)).take (p.2 - 1), R, ?_, ?_⟩
  · rw [List.append_assoc, ← hR, List.take_append_drop]
  · have := hc.2.2.2
    have h1 := hc.2.2.1
    simp only [lenAt] at this
    rw [List.length_take, Nat.min_eq_left (by omega)]; omega

/-- Content that lies on one line. -/
theorem reg_of_line {G : List Bytes} {c0 : Nat} (l : Nat) (h1 : 1 ≤ l) (h2 : l ≤ G.length) :
    ∀ (x P R : Bytes), nth G (l - 1) = P ++ x ++ R → nlFree x = true → Reg G c0 (l, P.length + 1) x
  | [], P, R, hg, _ => by
    refine ⟨h1, h2, by simp, ?_⟩
    show P.length + 1 ≤ (nth G (l - 1)).length + 1
    rw [hg]; simp
  | b :: x, P, R, hg, hn => by
    simp only [nlFree, List.all_cons, Bool.and_eq_true, bne_iff_ne, ne_eq] at hn
    refine ⟨⟨h1, h2, by simp, ?_⟩, ?_, ?_⟩
    · show P.length + 1 ≤ (nth G (l - 1)).length + 1
      rw [hg]; simp
    · intro _
      simp [hg]
    · have hs : step c0 (l, P.length + 1) b = (l, (P ++ [b]).length + 1) := by simp [step, hn.1]
      rw [hs]
      exact reg_of_line l h1 h2 x (P ++ [b]) R (by simp [hg]) (by simpa [nlFree] using hn.2)

/-! ### Lines of a block in the source -/

/-- The lines `ls` of a block stand on the lines `l, l+1, ..` of the source, the first one from
    column `c` on, the others from column `c0` on, each up to the end of its line; nothing is said
    about an empty line (the containers do not indent it). -/
def Emb (G : List Bytes) (c0 : Nat) : Nat → Nat → List Bytes → Prop
  | _, _, [] => True
  | l, c, x :: rest =>
    (x ≠ [] → 1 ≤ l ∧ l ≤ G.length ∧ ∃ P, nth G (l - 1) = P ++ x ∧ P.length + 1 = c) ∧ Emb G c0 (l + 1) c0 rest

theorem splitNl_ne_nil : ∀ (s : Bytes), splitNl s ≠ []
  | [] => by simp [splitNl]
  | b :: r => by
    simp only [splitNl]
    cases splitNl r with
    | nil => simp
    | cons l ls => by_cases hb : b = 0x0A <;> simp [hb]

theorem splitNl_nl (r : Bytes) : splitNl (0x0A :: r) = [] :: splitNl r := by
  have := splitNl_ne_nil r
  simp only [splitNl]
  split
  · contradiction
  · simp_all

theorem splitNl_other (b : UInt8) (r : Bytes) (hb : b ≠ 0x0A) :
    splitNl (b :: r) = (b :: (splitNl r).headD []) :: (splitNl r).tail := by
  have := splitNl_ne_nil r
  simp only [splitNl]
  split
  · contradiction
  · rename_i l ls e
    simp [hb, e]

def allNonempty (ls : List Bytes) : Bool := ls.all fun x => !x.isEmpty

/-- Content over several lines, every line of it non-empty (except possibly the first). -/
theorem reg_of_emb {G : List Bytes} {c0 : Nat} : ∀ (s : Bytes) (l c : Nat), Cur G (l, c) →
    Emb G c0 l c (splitNl s) → allNonempty (splitNl s).tail = true → Reg G c0 (l, c) s
  | [], l, c, hc, _, _ => hc
  | b :: r, l, c, hc, he, ht => by
    by_cases hb : b = 0x0A
    · subst hb
      rw [splitNl_nl] at he ht
      simp only [List.tail_cons] at ht
      have hne := splitNl_ne_nil r
      cases hs : splitNl r with
      | nil => exact absurd hs hne
      | cons x t =>
        rw [hs] at he ht
        simp only [allNonempty, List.all_cons, Bool.and_eq_true, Bool.not_eq_true', List.isEmpty_eq_false_iff] at ht
        have he2 := he.2
        simp only [Emb] at he2
        obtain ⟨g1, g2, P, gP, gl⟩ := he2.1 ht.1
        have hc2 : Cur G (l + 1, c0) := by
          refine ⟨by omega, g2, by omega, ?_⟩
          show c0 ≤ (nth G (l + 1 - 1)).length + 1
          rw [gP]; simp; omega
        refine ⟨hc, fun h => absurd rfl h, ?_⟩
        have hst : step c0 (l, c) 0x0A = (l + 1, c0) := by simp [step]
        rw [hst]
        refine reg_of_emb r (l + 1) c0 hc2 (by rw [hs]; exact he.2) ?_
        rw [hs]; simpa [allNonempty] using ht.2
    · rw [splitNl_other b r hb] at he ht
      simp only [List.tail_cons] at ht
      obtain ⟨g1, g2, P, gP, gl⟩ := he.1 (by simp)
      have hst : step c0 (l, c) b = (l, c + 1) := by simp [step, hb]
      refine ⟨hc, fun _ => ?_, ?_⟩
      · have : c - 1 = P.length := by omega
        simp [this, gP]
      · rw [hst]
        have hc2 : Cur G (l, c + 1) := by
          refine ⟨g1, g2, by omega, ?_⟩
          show c + 1 ≤ (nth G (l - 1)).length + 1
          rw [gP]; simp; omega
        refine reg_of_emb r l (c + 1) hc2 ?_ ?_
        · have hne := splitNl_ne_nil r
          cases hs : splitNl r with
          | nil => exact absurd hs hne
          | cons x t =>
            rw [hs] at he
            simp only [List.headD_cons, List.tail_cons] at he
            refine ⟨fun hx => ⟨g1, g2, P ++ [b], by simp [gP, hs], by simp; omega⟩, he.2⟩
        · have hne := splitNl_ne_nil r
          cases hs : splitNl r with
          | nil => exact absurd hs hne
          | cons x t => rw [hs] at ht; simpa using ht

/-! ### Spans -/

theorem dropLast_append_last (x : Bytes) (h : x ≠ []) : ∃ b, x = x.dropLast ++ [b] :=
  ⟨x.getLast h, (List.dropLast_concat_getLast h).symm⟩

/-- The span of non-empty content of a region lies in the source. -/
theorem valid_of_reg {G : List Bytes} {c0 : Nat} {p : Pos} {x : Bytes} (h : Reg G c0 p x) (hx : x ≠ []) :
    Valid G (spanOf c0 p x) := by
  obtain ⟨b, hb⟩ := dropLast_append_last x hx
  have hr : Reg G c0 p (x.dropLast ++ [b]) := by rw [← hb]; exact h
  have he := reg_cur (reg_append hr).2
  have hs := reg_cur h
  have hle := adv_le c0 x.dropLast p
  simp only [posLe, Bool.or_eq_true, Bool.and_eq_true, decide_eq_true_eq] at hle
  obtain ⟨s1, s2, s3, s4⟩ := hs
  obtain ⟨e1, e2, e3, e4⟩ := he
  exact ⟨s1, by simp only [spanOf]; omega, e2, s3, s4, Or.inl ⟨e3, e4⟩, by simp only [spanOf]; omega⟩

/-- Content on one line: its slice is the content itself. -/
theorem slice_of_reg_line {G : List Bytes} (hG : cleanG G = true) {c0 : Nat} {p : Pos} {x : Bytes}
    (h : Reg G c0 p x) (hn : nlFree x = true) (hx : x ≠ []) :
    sliceLT (lineEnts (joinLines G)) (joinLines G) (spanOf c0 p x) = some x := by
  obtain ⟨P, R, hg, hl⟩ := reg_at' (u := x) (rest := []) (by simpa using h) hn
  have hc := reg_cur h
  have hd : nlFree x.dropLast = true := by
    obtain ⟨b, hb⟩ := dropLast_append_last x hx
    rw [hb, nlFree_append] at hn
    exact (Bool.and_eq_true _ _ ▸ hn).1
  have hlen : x.dropLast.length = x.length - 1 := by simp
  have hpos : 0 < x.length := List.length_pos_iff.mpr hx
  refine slice_line G hG p.1 hc.1 hc.2.1 P x R hg _ ?_ ?_ ?_ ?_
  · simp [spanOf]
  · simp [spanOf, adv_nlFree c0 _ _ hd]
  · simp [spanOf]; omega
  · simp [spanOf, adv_nlFree c0 _ _ hd, hlen]; omega

/-- Content that begins with the run `u` and ends with the run `w` (both without line end): so
    does its slice. -/
theorem slice_of_reg {G : List Bytes} (hG : cleanG G = true) {c0 : Nat} {p : Pos} {u v w : Bytes}
    (h : Reg G c0 p (u ++ v ++ w)) (hu : nlFree u = true) (hw : nlFree w = true) (hu0 : u ≠ []) (hw0 : w ≠ []) :
    ∃ mid, sliceLT (lineEnts (joinLines G)) (joinLines G) (spanOf c0 p (u ++ v ++ w)) = some (u ++ mid ++ w) := by
  by_cases hv : nlFree v = true
  · refine ⟨v, slice_of_reg_line hG h ?_ (by simp [hu0])⟩
    simp [nlFree_append, hu, hv, hw]
  · -- several lines
    have hx0 : u ++ v ++ w ≠ [] := by simp [hu0]
    obtain ⟨b, hb⟩ := dropLast_append_last w hw0
    have hwd : nlFree w.dropLast = true := by
      rw [hb, nlFree_append] at hw
      exact (Bool.and_eq_true _ _ ▸ hw).1
    have hdl : (u ++ v ++ w).dropLast = u ++ v ++ w.dropLast := by
      rw [List.dropLast_append_of_ne_nil hw0]
    have hq := (reg_append h).2
    obtain ⟨Pp, Ru, gp, lp⟩ := reg_at' (u := u) (rest := v ++ w) (by simpa using h) hu
    obtain ⟨Pq, Rw, gq, lq⟩ := reg_at' (u := w) (rest := []) (by simpa using hq) hw
    have hcp := reg_cur h
    have hcq := reg_cur hq
    have hline : (adv c0 p (u ++ v)).1 = p.1 + (u ++ v).count 0x0A := adv_line c0 _ p
    have hcnt : 0 < (u ++ v).count 0x0A := by
      rcases Nat.eq_zero_or_pos ((u ++ v).count 0x0A) with h0 | h0
      · have := count_zero_nlFree _ h0
        rw [nlFree_append] at this
        simp [hu] at this
        exact absurd this hv
      · exact h0
    have hend : adv c0 p (u ++ v ++ w).dropLast = ((adv c0 p (u ++ v)).1, (adv c0 p (u ++ v)).2 + w.dropLast.length) := by
      rw [hdl, adv_append, adv_nlFree c0 _ _ hwd]
    have hwl : w.dropLast.length + 1 = w.length := by
      have := List.length_pos_iff.mpr hw0; simp; omega
    have := slice_multi G hG (spanOf c0 p (u ++ v ++ w)) (by simp only [spanOf]; first | exact hcp.1 | skip)
      (by simp only [spanOf, hend]; omega) (by simp only [spanOf, hend]; exact hcq.2.1)
      Pp (u ++ Ru) (Pq ++ w) Rw (by simp only [spanOf]; rw [gp]; simp)
      (by simp only [spanOf, hend]; rw [gq]) (by simp [spanOf, lp])
      (by simp only [spanOf, hend, List.length_append]; omega)
    exact ⟨Ru ++ 0x0A :: joinLines (List.drop (spanOf c0 p (u ++ v ++ w)).sl (List.take ((spanOf c0 p (u ++ v ++ w)).el - 1) G)) ++ Pq,
      by rw [this]; simp⟩

end Comrak.Canon
