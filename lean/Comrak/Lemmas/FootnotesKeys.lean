/-
C15 (footnotes), general theorems, part 1: the numbering walk seen as a run over the list of resolved keys.
`resKeysT/F` reads the folded labels of the resolvable reference nodes off the *input* tree (walk order);
`runKeys` / `emitKeys` are the state and the emitted `(name, ref_num, ix)` triples as functions of that list.
-/
import Comrak.Lemmas.Footnotes
namespace Comrak
open Bytes

def nameOf (D : DefTab) (k : Bytes) : Bytes := match D.get? k with | some d => d.name | none => []
def posOf (D : DefTab) (k : Bytes) : Nat := match D.get? k with | some d => d.pos | none => 0

def stepKey (st : NSt) (key : Bytes) : NSt :=
  ⟨if st.seen.contains key then st.seen else st.seen ++ [key], key :: st.hist⟩

def runKeys : NSt → List Bytes → NSt
  | st, [] => st
  | st, k :: ks => runKeys (stepKey st k) ks

def emitKeys (D : DefTab) : NSt → List Bytes → List (Bytes × Nat × Nat)
  | _, [] => []
  | st, k :: ks =>
    (nameOf D k, (stepKey st k).hist.count k, (stepKey st k).seen.idxOf k + 1) :: emitKeys D (stepKey st k) ks

theorem runKeys_append (st : NSt) (a b : List Bytes) : runKeys st (a ++ b) = runKeys (runKeys st a) b := by
  induction a generalizing st with
  | nil => rfl
  | cons k ks ih => simp [runKeys, ih]

theorem emitKeys_append (D : DefTab) (st : NSt) (a b : List Bytes) :
    emitKeys D st (a ++ b) = emitKeys D st a ++ emitKeys D (runKeys st a) b := by
  induction a generalizing st with
  | nil => rfl
  | cons k ks ih => simp [runKeys, emitKeys, ih]

theorem stepKey_mem (st : NSt) (k : Bytes) : k ∈ (stepKey st k).seen := by
  unfold stepKey
  by_cases h : k ∈ st.seen <;> simp [h]

theorem stepKey_prefix (st : NSt) (k : Bytes) : ∃ e, (stepKey st k).seen = st.seen ++ e := by
  unfold stepKey
  by_cases h : k ∈ st.seen
  · exact ⟨[], by simp [h]⟩
  · exact ⟨[k], by simp [h]⟩

theorem runKeys_prefix (st : NSt) (ks : List Bytes) : ∃ e, (runKeys st ks).seen = st.seen ++ e := by
  induction ks generalizing st with
  | nil => exact ⟨[], by simp [runKeys]⟩
  | cons k ks ih =>
    obtain ⟨e1, h1⟩ := stepKey_prefix st k
    obtain ⟨e2, h2⟩ := ih (stepKey st k)
    exact ⟨e1 ++ e2, by simp [runKeys, h2, h1]⟩

theorem stepKey_seen_mem (st : NSt) (k x : Bytes) : x ∈ (stepKey st k).seen ↔ x ∈ st.seen ∨ x = k := by
  unfold stepKey
  by_cases h : k ∈ st.seen
  · simp only [List.contains_iff_mem, h, if_true]
    constructor
    · exact Or.inl
    · rintro (h1 | h1)
      · exact h1
      · rw [h1]; exact h
  · simp [h]

theorem runKeys_seen_mem (st : NSt) (ks : List Bytes) (x : Bytes) :
    x ∈ (runKeys st ks).seen ↔ x ∈ st.seen ∨ x ∈ ks := by
  induction ks generalizing st with
  | nil => simp [runKeys]
  | cons k ks ih =>
    simp only [runKeys, ih, stepKey_seen_mem, List.mem_cons]
    constructor
    · rintro ((h | h) | h)
      · exact Or.inl h
      · exact Or.inr (Or.inl h)
      · exact Or.inr (Or.inr h)
    · rintro (h | h | h)
      · exact Or.inl (Or.inl h)
      · exact Or.inl (Or.inr h)
      · exact Or.inr h

theorem stepKey_nodup (st : NSt) (k : Bytes) (h : st.seen.Nodup) : (stepKey st k).seen.Nodup := by
  unfold stepKey
  by_cases hk : k ∈ st.seen
  · simpa [hk] using h
  · simp only [List.contains_iff_mem, hk, if_false]
    rw [List.nodup_append]
    refine ⟨h, by simp, ?_⟩
    intro a ha b hb
    simp only [List.mem_singleton] at hb
    subst hb
    intro e; subst e; exact hk ha

theorem runKeys_nodup (st : NSt) (ks : List Bytes) (h : st.seen.Nodup) : (runKeys st ks).seen.Nodup := by
  induction ks generalizing st with
  | nil => simpa [runKeys] using h
  | cons k ks ih => exact ih _ (stepKey_nodup st k h)

theorem runKeys_hist (st : NSt) (ks : List Bytes) : (runKeys st ks).hist = ks.reverse ++ st.hist := by
  induction ks generalizing st with
  | nil => simp [runKeys]
  | cons k ks ih => simp [runKeys, ih, stepKey]

theorem idxOf_prefix (k : Bytes) (a e : List Bytes) (h : k ∈ a) : (a ++ e).idxOf k = a.idxOf k := by
  rw [List.idxOf_append]; simp [h]

theorem idxOf_inj_of_mem (l : List Bytes) (a b : Bytes) (ha : a ∈ l) (h : l.idxOf a = l.idxOf b) : a = b := by
  have h1 : l.idxOf a < l.length := List.idxOf_lt_length_of_mem ha
  have h2 : l.idxOf b < l.length := by rw [← h]; exact h1
  have e1 : l[l.idxOf a] = a := List.getElem_idxOf h1
  have e2 : l[l.idxOf b] = b := List.getElem_idxOf h2
  rw [← e1, ← e2]
  congr 1

/-- Every emitted reference carries the stored name of its key and the final position of that key. -/
theorem emitKeys_point (D : DefTab) : ∀ (ks : List Bytes) (st : NSt) (r : Bytes × Nat × Nat),
    r ∈ emitKeys D st ks →
    ∃ k, k ∈ (runKeys st ks).seen ∧ r.1 = nameOf D k ∧ r.2.2 = (runKeys st ks).seen.idxOf k + 1 := by
  intro ks
  induction ks with
  | nil => intro st r h; simp [emitKeys] at h
  | cons k ks ih =>
    intro st r h
    simp only [emitKeys, List.mem_cons] at h
    rcases h with h | h
    · refine ⟨k, ?_, by rw [h], ?_⟩
      · simp only [runKeys]
        rw [runKeys_seen_mem]; exact Or.inl (stepKey_mem st k)
      · obtain ⟨e, he⟩ := runKeys_prefix (stepKey st k) ks
        simp only [runKeys]
        rw [he, idxOf_prefix k _ e (stepKey_mem st k), h]
    · exact ih (stepKey st k) r h

/-- The `ref_num`s handed out for one key are consecutive, in walk order. -/
theorem emitKeys_nums (D : DefTab) : ∀ (ks : List Bytes) (st : NSt) (k : Bytes),
    k ∈ (runKeys st ks).seen →
    ((emitKeys D st ks).filter (fun r => r.2.2 == (runKeys st ks).seen.idxOf k + 1)).map (·.2.1)
      = List.range' (st.hist.count k + 1) (ks.count k) := by
  intro ks
  induction ks with
  | nil => intro st k _; simp [emitKeys]
  | cons k' ks ih =>
    intro st k hk
    simp only [runKeys] at hk ⊢
    have IH := ih (stepKey st k') k hk
    obtain ⟨e, he⟩ := runKeys_prefix (stepKey st k') ks
    have hk'mem : k' ∈ (runKeys (stepKey st k') ks).seen := by
      rw [runKeys_seen_mem]; exact Or.inl (stepKey_mem st k')
    have hidx : (stepKey st k').seen.idxOf k' = (runKeys (stepKey st k') ks).seen.idxOf k' := by
      rw [he, idxOf_prefix k' _ e (stepKey_mem st k')]
    simp only [emitKeys, List.filter_cons, hidx]
    by_cases hkk : k' = k
    · subst hkk
      simp only [beq_self_eq_true, if_true, List.map_cons, IH]
      have hc : (stepKey st k').hist.count k' = st.hist.count k' + 1 := by simp [stepKey]
      rw [hc, List.count_cons_self, List.range'_succ]
    · have hne : ((runKeys (stepKey st k') ks).seen.idxOf k' + 1 == (runKeys (stepKey st k') ks).seen.idxOf k + 1) = false := by
        rw [beq_eq_false_iff_ne]
        intro h
        exact hkk (idxOf_inj_of_mem _ k' k hk'mem (by omega))
      simp only [hne, Bool.false_eq_true, if_false, IH]
      have hc : (stepKey st k').hist.count k = st.hist.count k := by
        simp [stepKey, hkk]
      have hc2 : (k' :: ks).count k = ks.count k := by simp [hkk]
      rw [hc, hc2]

end Comrak
