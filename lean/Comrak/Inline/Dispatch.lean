/-
C13: the inline dispatch of src/parser/inlines.rs.

* `special` / `skip` / `smartT`: the three tables `Subject::new` fills from the options.  They are NOT
  written by hand: they read `Comrak/Generated/SpecialChars.lean`, which the harness regenerates from
  the real code before every proof stage (`cvh regen specialchars`).
* `arm`: which branch of the `match c` in `parse_inline` a byte selects, with the option bits that
  branch passes on.
* `findSpecialChar`: `Subject::find_special_char`.
-/
import Comrak.Features
import Comrak.Generated.SpecialChars
namespace Comrak
open Bytes

/-- The seven option bits that feed the tables (`Subject::new`, `find_special_char`). -/
structure TabBits where
  autolink : Bool
  strikethrough : Bool
  subscript : Bool
  superscript : Bool
  underline : Bool
  spoiler : Bool
  smart : Bool
  deriving DecidableEq, Repr

/-- Index of the option combination in the generated tables: bit k = option k of
    [autolink, strikethrough, subscript, superscript, underline, spoiler, smart]. -/
def TabBits.index (t : TabBits) : Nat :=
  t.autolink.toNat + 2 * t.strikethrough.toNat + 4 * t.subscript.toNat + 8 * t.superscript.toNat
    + 16 * t.underline.toNat + 32 * t.spoiler.toNat + 64 * t.smart.toNat

def TabBits.enable (t : TabBits) : Feature → TabBits
  | .autolink => { t with autolink := true }
  | .strikethrough => { t with strikethrough := true }
  | .subscript => { t with subscript := true }
  | .superscript => { t with superscript := true }
  | .underline => { t with underline := true }
  | .spoiler => { t with spoiler := true }
  | .smart => { t with smart := true }
  | _ => t

def Opts.tab (o : Opts) : TabBits :=
  ⟨o.autolink, o.strikethrough, o.subscript, o.superscript, o.underline, o.spoiler, o.smart⟩

def TabBits.specialMask (t : TabBits) : Nat := Generated.specialMasks.getD t.index 0
def TabBits.skipMask (t : TabBits) : Nat := Generated.skipMasks.getD t.index 0
def TabBits.smartMask (t : TabBits) : Nat := Generated.smartMasks.getD t.index 0

def specialMask (o : Opts) : Nat := o.tab.specialMask
def skipMask (o : Opts) : Nat := o.tab.skipMask
def smartMask (o : Opts) : Nat := o.tab.smartMask

/-- `special_chars[c]` of a `Subject` created with options `o`. -/
def special (o : Opts) (c : UInt8) : Bool := (specialMask o).testBit c.toNat
/-- `skip_chars[c]`. -/
def skip (o : Opts) (c : UInt8) : Bool := (skipMask o).testBit c.toNat
/-- `smart_chars[c]`. -/
def smartT (o : Opts) (c : UInt8) : Bool := (smartMask o).testBit c.toNat

/-- The branches of `match c` in `parse_inline`, each with the option bits it hands on. -/
inductive Arm where
  | nul                                   -- `'\0' => return false`
  | newline
  | backticks
  | backslash
  | entity
  | pointyBrace
  | colon (tryAutolink : Bool)            -- `':'`: `handle_autolink_colon` only with autolink
  | autolinkW                             -- `'w' if autolink`
  | delim (c : UInt8) (smartQuote : Bool) -- `'*' | '_' | '\'' | '"'` -> `handle_delim`
  | hyphen (smart : Bool)
  | period (smart : Bool)
  | openBracket (tryWikilink : Bool)      -- `'['`: `handle_wikilink` only with wikilinks and outside brackets
  | closeBracket                          -- `']'`: `handle_close_bracket` (its `footnotes` read: `siteCloseBracket`)
  | bang
  | tilde                                 -- `'~' if strikethrough || subscript`
  | caret                                 -- `'^' if superscript && !within_brackets`
  | dollars (mathDollars mathCode : Bool)
  | spoilerPipe                           -- `'|' if spoiler`
  | text                                  -- `_`: a text run up to `find_special_char`
  deriving DecidableEq, Repr

/-- Which branch of `parse_inline` the byte under the cursor selects. `c as char` maps bytes
    >= 0x80 to Latin-1 characters, none of which is matched: they fall to the text arm. -/
def arm (o : Opts) (withinBrackets : Bool) (c : UInt8) : Arm :=
  if c == 0x00 then .nul
  else if c == 0x0D || c == 0x0A then .newline
  else if c == 0x60 then .backticks
  else if c == 0x5C then .backslash
  else if c == 0x26 then .entity
  else if c == 0x3C then .pointyBrace
  else if c == 0x3A then .colon o.autolink
  else if c == 0x77 && o.autolink then .autolinkW
  else if c == 0x2A || c == 0x5F then .delim c false
  else if c == 0x27 || c == 0x22 then .delim c o.smart
  else if c == 0x2D then .hyphen o.smart
  else if c == 0x2E then .period o.smart
  else if c == 0x5B then .openBracket (o.wikilinks && !withinBrackets)
  else if c == 0x5D then .closeBracket
  else if c == 0x21 then .bang
  else if c == 0x7E && (o.strikethrough || o.subscript) then .tilde
  else if c == 0x5E && o.superscript && !withinBrackets then .caret
  else if c == 0x24 then .dollars o.mathDollars o.mathCode
  else if c == 0x7C && o.spoiler then .spoilerPipe
  else .text

/-- Does the scan of `find_special_char` stop at byte `c`? -/
def stops (o : Opts) (withinBrackets : Bool) (c : UInt8) : Bool :=
  (special o c && !(c == 0x5E && withinBrackets)) || (o.smart && smartT o c)

/-- First index `>= n` (counting the head of the list as `n`) at which the scan stops. -/
def findFrom (o : Opts) (wb : Bool) : Bytes → Nat → Nat
  | [], n => n
  | c :: r, n => if stops o wb c then n else findFrom o wb r (n + 1)

/-- `Subject::find_special_char` with `self.pos = p`, `self.input = s`. -/
def findSpecialChar (o : Opts) (wb : Bool) (s : Bytes) (p : Nat) : Nat :=
  if p ≤ s.length then findFrom o wb (s.drop p) p else s.length

/-- Bit mask with bit `b` set for every byte `b` of the list. -/
def maskOf (l : Bytes) : Nat := l.foldr (fun b m => m ||| (1 <<< b.toNat)) 0

/-- `a` and `b` agree on all of the 256 bits outside `t`. -/
def agreeOutside (a b t : Nat) : Bool := ((a ^^^ b) &&& ((2 ^ 256 - 1) ^^^ (t &&& (2 ^ 256 - 1)))) == 0

end Comrak
