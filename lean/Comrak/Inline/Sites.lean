/-
C13: catalogue of the option *consultation sites* of the parser, other than the tables and the
`match c` of `parse_inline` (those are in Dispatch.lean).  Each site is the guarded condition of the
source written as a small function of the options and of the *local view* the condition looks at
(the byte under the cursor, a few neighbouring facts).  The list of sites is tied to the source by the
consultation audit (/verif/audit/option_reads.json, re-scanned on every run).

Line numbers refer to /repo/src/parser/inlines.rs and /repo/src/parser/mod.rs at the pinned tree.
-/
import Comrak.Features
namespace Comrak
open Bytes

def isSpaceOrTab (c : UInt8) : Bool := c == 0x20 || c == 0x09

/-! ### Inline sites (inlines.rs) -/

/-- `process_emphasis` (482-487): is a closer with delimiter character `c` handled as emphasis-like? -/
def siteEmphasisEligible (o : Opts) (c : UInt8) : Bool :=
  c == 0x2A || c == 0x5F || ((o.strikethrough || o.subscript) && c == 0x7E)
    || (o.superscript && c == 0x5E) || (o.spoiler && c == 0x7C)

/-- `insert_emph` (1089-1094): a `~` pair is rejected unless both runs are used up entirely.
    `openerLeft` / `closerLeft` are the run lengths left after taking `use_delims`. -/
def siteInsertEmphReject (o : Opts) (openerChar : UInt8) (openerLeft closerLeft : Nat) : Bool :=
  (o.strikethrough || o.subscript) && openerChar == 0x7E && (openerLeft != closerLeft || openerLeft > 0)

inductive EmphKind where
  | subscript | strikethrough | escapedTag (double : Bool) | superscript | spoileredText
  | escapedPipe | underline | emph | strong
  deriving DecidableEq, Repr

/-- `insert_emph` (1122-1149): the node created for a matched pair. -/
def siteEmphKind (o : Opts) (openerChar : UInt8) (useDelims : Nat) : EmphKind :=
  if o.subscript && openerChar == 0x7E && useDelims == 1 then .subscript
  else if openerChar == 0x7E then
    (if o.strikethrough then .strikethrough else .escapedTag (useDelims != 1))
  else if o.superscript && openerChar == 0x5E then .superscript
  else if o.spoiler && openerChar == 0x7C then (if useDelims == 2 then .spoileredText else .escapedPipe)
  else if o.underline && openerChar == 0x5F && useDelims == 2 then .underline
  else if useDelims == 1 then .emph
  else .strong

inductive DelimText where
  | rightSingle | rightDouble | leftDouble | verbatim
  deriving DecidableEq, Repr

/-- `handle_delim` (878-899): the text written for the run and whether it goes on the delimiter stack. -/
def siteHandleDelim (o : Opts) (c : UInt8) (canOpen canClose : Bool) : DelimText × Bool :=
  (if c == 0x27 && o.smart then .rightSingle
   else if c == 0x22 && o.smart then (if canClose then .rightDouble else .leftDouble)
   else .verbatim,
   (canOpen || canClose) && (!(c == 0x27 || c == 0x22) || o.smart))

/-- `handle_hyphen` (908) / `handle_period` (939), with the cursor byte `c` that selected the arm:
    does the smart rewriting look at the following bytes? -/
def siteHyphenPeriod (o : Opts) (c : UInt8) (nextSame : Bool) : Bool :=
  (c == 0x2D || c == 0x2E) && o.smart && nextSame

inductive DollarMode where
  | plainText | codeMath | dollarMath | noMath
  deriving DecidableEq, Repr

/-- `handle_dollars` (808-830) with `scan_to_closing_dollar` (742), cursor byte `c`:
    which scanner, if any, runs after the opening dollars. -/
def siteDollars (o : Opts) (c : UInt8) (openDollars : Nat) (nextIsBacktick : Bool) : DollarMode :=
  if c != 0x24 then .noMath
  else if !(o.mathDollars || o.mathCode) then .plainText
  else if openDollars == 1 && o.mathCode && nextIsBacktick then .codeMath
  else if o.mathDollars then .dollarMath
  else .noMath

/-- `handle_autolink_with` (1286-1295), reached from the `:` and `w` arms with cursor byte `c`:
    `none` = the arm is not an autolink arm or the attempt is cut off inside brackets;
    `some r` = the matcher runs with `relaxed = r`. -/
def siteAutolinkWith (o : Opts) (c : UInt8) (withinBrackets : Bool) : Option Bool :=
  if !(o.autolink && (c == 0x3A || c == 0x77)) then none
  else if !o.relaxedAutolinks && withinBrackets then none
  else some o.relaxedAutolinks

/-- `handle_close_bracket` (1615-1632): a footnote reference is attempted when the text node after
    the opening bracket starts with `^` (`afterOpener` = its first byte, if any). -/
def siteCloseBracketFootnote (o : Opts) (afterOpener : Option UInt8) : Bool :=
  o.footnotes && afterOpener == some 0x5E

/-! ### Block sites (mod.rs) -/

/-- `handle_blockquote` with `is_not_greentext` (1560): does a block quote open at the first
    non-space byte `c0` (followed by `c1`)? -/
def siteBlockQuoteStart (o : Opts) (indented : Bool) (c0 c1 : UInt8) : Bool :=
  !indented && c0 == 0x3E && (!o.greentext || isSpaceOrTab c1)

def wsRun : Bytes → Nat
  | c :: r => if isSpaceOrTab c then wsRun r + 1 else 0
  | [] => 0

/-- Length of the run of `>` at the start of the line rest. -/
def gtRun : Bytes → Nat
  | 0x3E :: r => gtRun r + 1
  | _ => 0

/-- `scanners::open_multiline_block_quote_fence`: `[>]{3,} / [ \t]*[\r\n]`. -/
def scanMultilineFence (rest : Bytes) : Option Nat :=
  let r := rest.drop (gtRun rest)
  let nl : Bool := match r.drop (wsRun r) with
    | c :: _ => c == 0x0D || c == 0x0A
    | [] => false
  if decide (gtRun rest ≥ 3) && nl then some (gtRun rest) else none

/-- `detect_multiline_blockquote` (1571-1582); `rest` = the line from the first non-space byte. -/
def siteMultilineBlockQuote (o : Opts) (indented : Bool) (rest : Bytes) : Option Nat :=
  if !indented && o.multilineBlockQuotes then scanMultilineFence rest else none

/-- Length of the footnote name: bytes other than `]`, space, CR, LF, NUL, tab. -/
def fnNameLen : Bytes → Nat
  | c :: r => if c == 0x5D || c == 0x20 || c == 0x0D || c == 0x0A || c == 0x00 || c == 0x09 then 0 else fnNameLen r + 1
  | [] => 0

/-- `scanners::footnote_definition`: `'[^' ([^\] \r\n\x00\t]+) ']:' [ \t]*`. -/
def scanFootnoteDefinition : Bytes → Option Nat
  | 0x5B :: 0x5E :: r =>
    let n := fnNameLen r
    if n > 0 ∧ (r.drop n).take 2 = [0x5D, 0x3A] then some (2 + n + 2 + wsRun (r.drop (n + 2))) else none
  | _ => none

/-- `detect_footnote` (1851-1866). -/
def siteFootnoteDefinition (o : Opts) (indented : Bool) (depthOk : Bool) (rest : Bytes) : Option Nat :=
  if !indented && o.footnotes && depthOk then scanFootnoteDefinition rest else none

/-- `scanners::description_item_start`: `[:~] [ \t]+`. -/
def scanDescriptionItemStart : Bytes → Option Nat
  | c :: r => if (c == 0x3A || c == 0x7E) && wsRun r > 0 then some (1 + wsRun r) else none
  | [] => none

/-- `detect_description_list` (1895-1909); `detailsOk` = `parse_desc_list_details` (a condition on the
    tree: the last child is a paragraph or a description list). -/
def siteDescriptionList (o : Opts) (indented : Bool) (rest : Bytes) (detailsOk : Bool) : Option Nat :=
  if !indented && o.descriptionLists then
    (match scanDescriptionItemStart rest with
     | some n => if detailsOk then some n else none
     | none => none)
  else none

/-- `detect_alert` + the fence check of `handle_alert` (2031-2069): `c0` the first non-space byte,
    `scanOk` the result of `alert_start` on the rest, `fence` the number of `>` before the `]`. -/
def siteAlert (o : Opts) (indented : Bool) (c0 : UInt8) (scanOk : Bool) (fence : Nat) : Bool :=
  !indented && o.alerts && c0 == 0x3E && scanOk
    && !(fence == 2 || (fence ≥ 3 && !o.multilineBlockQuotes))

inductive ContainerKind where
  | document | blockQuote | paragraph | table | footnoteDefinition | item | descriptionItem | other
  deriving DecidableEq, Repr

inductive TableOutcome where
  | stop                 -- `break` out of `open_new_blocks` (also: the same paragraph handed back, which accepts lines)
  | stopMarkVisited      -- same, with `table_visited` set on the paragraph
  | openTable            -- the paragraph is replaced by a table
  | addRow               -- a row is added to the open table
  deriving DecidableEq, Repr

/-- What the last alternative of `open_new_blocks` (2127-2150) does with `table::try_opening_block`.
    `startMatches` = `scanners::table_start` on the line, `rowsOk` = both rows parse with equal cell
    counts, `rowOk` = `row(line)` parses (for an open table), `blank` the line is blank. -/
structure TableView where
  indented : Bool
  kind : ContainerKind
  visited : Bool
  startMatches : Bool
  rowsOk : Bool
  blank : Bool
  rowOk : Bool

def siteTableOpen (o : Opts) (v : TableView) : TableOutcome :=
  if !v.indented && o.table then
    match v.kind with
    | .paragraph =>
      if v.visited then .stop else if !v.startMatches then .stop
      else if v.rowsOk then .openTable else .stopMarkVisited
    | .table => if v.blank then .stop else if v.rowOk then .addRow else .stop
    | _ => .stop
  else .stop

/-- The first clause of `add_text_to_container` (2517-2528): is the line added to the open paragraph
    as a lazy continuation? -/
structure LazyView where
  currentIsLastMatched : Bool     -- `self.current.same_node(last_matched_container)`
  containerIsLastMatched : Bool   -- `container.same_node(last_matched_container)`
  blank : Bool
  container : ContainerKind       -- kind of `container`
  currentIsParagraph : Bool

def siteLazyContinuation (o : Opts) (v : LazyView) : Bool :=
  !v.currentIsLastMatched && v.containerIsLastMatched && !v.blank
    && (!o.greentext || !(v.container == .blockQuote || v.container == .document))
    && v.currentIsParagraph

/-- `finish` (2652): `process_footnotes` runs only with the option; it rewrites the tree only when there
    is a definition or a reference node. -/
def siteProcessFootnotes (o : Opts) (defs refs : Nat) : Bool :=
  o.footnotes && (defs > 0 || refs > 0)

def isSpaceChar (c : UInt8) : Bool :=
  c == 0x20 || c == 0x09 || c == 0x0B || c == 0x0C || c == 0x0D || c == 0x0A

def dropSpaceChars : Bytes → Bytes
  | c :: r => if isSpaceChar c then dropSpaceChars r else c :: r
  | [] => []

/-- `scanners::tasklist` on node text: `spacechar* '[' [^\x00\r\n] ']' (spacechar | end)`,
    returns the symbol between the brackets. -/
def scanTasklist (text : Bytes) : Option UInt8 :=
  match dropSpaceChars text with
  | 0x5B :: s :: 0x5D :: r =>
    if s == 0x00 || s == 0x0D || s == 0x0A then none
    else match r with
      | [] => some s
      | c :: _ => if isSpaceChar c || c == 0x00 then some s else none
  | _ => none

/-- `postprocess_text_node` + `process_tasklist` (3004, 3025-3036): is the text a task marker?
    (`text` is the node text, after entity decoding and merging of adjacent text nodes.) -/
def siteTasklist (o : Opts) (text : Bytes) : Option UInt8 :=
  if o.tasklist then
    (match scanTasklist text with
     | some s => if !o.relaxedTasklistMatching && !(s == 0x20 || s == 0x78 || s == 0x58) then none else some s
     | none => none)
  else none

/-- `postprocess_text_node` (3008-3016) + `process_email_autolinks`: the scan looks for `@` in the node
    text; `some relaxed` = an e-mail match is attempted at some `@`. -/
def siteEmailAutolink (o : Opts) (text : Bytes) : Option Bool :=
  if o.autolink && text.contains 0x40 then some o.relaxedAutolinks else none

/-- `feed` (1200-1203): front matter is split off when the option is set and the document starts with
    the delimiter (`startsWithDelimiter`; the delimiter of the check is `---`). -/
def siteFrontMatter (o : Opts) (startsWithDelimiter : Bool) : Bool :=
  o.frontMatterDelimiter && startsWithDelimiter

end Comrak
