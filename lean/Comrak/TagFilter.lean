/-
Model of `html::tagfilter` and `html::tagfilter_block` (src/html.rs), every index explicit.
`tagfilterE` is the code as it was written on the pinned tree: `literal[j]` is read without a bounds check, so the
model returns `none` (= Rust panic) when `j` is past the end.  `tagfilter` is the total
function used by the renderer model (equal to `tagfilterE` whenever that is defined).
-/
import Comrak.Names
import Comrak.Url
namespace Comrak
open Bytes

def tagBlacklist : List Bytes :=
  [S.v_title, S.v_textarea, S.v_style, S.v_xmp, S.v_iframe, S.v_noembed, S.v_noframes, S.v_script, S.v_plaintext]

/-- First blacklisted name that prefixes `s` case-insensitively (the `for t in BLACKLIST` loop). -/
def firstBlacklisted (s : Bytes) : Option Bytes := tagBlacklist.find? fun t => isPrefixCI t s

/-- The delimiter test at index `j` of `literal`; `none` when `literal[j]` is out of bounds. -/
def delimAt (l : Bytes) (j : Nat) : Option Bool :=
  match l[j]? with
  | none => none
  | some c => some (htmlSpace c || c == 0x3E || (c == 0x2F && l.length ≥ j + 2 && l[j+1]? == some 0x3E))

/-- `tagfilter` as written in the source; `none` models the index panic. -/
def tagfilterE (l : Bytes) : Option Bool :=
  if l.length < 3 || l[0]? != some 0x3C then some false else
  let i := if l[1]? == some 0x2F then 2 else 1
  match firstBlacklisted (l.drop i) with
  | none => some false
  | some t => delimAt l (i + t.length)

/-- `tagfilter` as it is now (after the `fix:` commit adding `if j >= literal.len() { return false }`):
    an out-of-range delimiter position means "no match". -/
def tagfilter (l : Bytes) : Bool := (tagfilterE l).getD false

/-- `tagfilter_block`: every `<` that opens a filtered tag is written as `&lt;`. -/
def tagfilterBlock : Bytes → Bytes
  | [] => []
  | b :: r => if b = 0x3C then (if tagfilter (b :: r) then S.v_lt else [0x3C]) ++ tagfilterBlock r
              else b :: tagfilterBlock r

/-! ## Independent specification (GFM "Disallowed Raw HTML") -/

/-- After the tag name: a white-space byte (class `sp`), `>`, or `/>`. -/
def tagDelimW (sp : UInt8 → Bool) : Bytes → Bool
  | c :: r => sp c || c == 0x3E || (c == 0x2F && (match r with | d :: _ => d == 0x3E | [] => false))
  | [] => false

/-- Drop one optional leading `/`. -/
def stripSlash (r : Bytes) : Bytes :=
  match r with
  | c :: t => if c = 0x2F then t else r
  | [] => []

/-- `s` starts with `<`, optional `/`, one of the nine names in any letter case, then a delimiter. -/
def disallowedAtW (sp : UInt8 → Bool) (s : Bytes) : Bool :=
  match s with
  | c :: r =>
    if c = 0x3C then
      tagBlacklist.any fun name => isPrefixCI name (stripSlash r) && tagDelimW sp ((stripSlash r).drop name.length)
    else false
  | [] => false

/-- The GFM rule with the HTML tokenizer's white space (tab, LF, FF, CR, space). -/
def disallowedAt (s : Bytes) : Bool := disallowedAtW htmlSpace s

/-- The rule as comrak decides it: white space is `ctype::isspace` (no form feed). -/
def disallowedAtC (s : Bytes) : Bool := disallowedAtW isSpace s

/-- The rewrite the property prescribes: `<` becomes `&lt;` exactly at disallowed positions. -/
def rewriteSpecW (sp : UInt8 → Bool) : Bytes → Bytes
  | [] => []
  | b :: r => (if b = 0x3C ∧ disallowedAtW sp (b :: r) = true then S.v_lt else [b]) ++ rewriteSpecW sp r

def rewriteSpec (s : Bytes) : Bytes := rewriteSpecW htmlSpace s

end Comrak
