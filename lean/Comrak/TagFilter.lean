/-
Model of `html::tagfilter` and `html::tagfilter_block` (src/html.rs), every index explicit.
`tagfilterE` is the code as written: `literal[j]` is read without a bounds check, so the
model returns `none` (= Rust panic) when `j` is past the end.  `tagfilter` is the total
function used by the renderer model (equal to `tagfilterE` whenever that is defined).
-/
import Comrak.Names
import Comrak.Url
namespace Comrak
open Bytes

def tagBlacklist : List Bytes :=
  [S.v_title, S.v_textarea, S.v_style, S.v_xmp, S.v_iframe, S.v_noembed, S.v_noframes, S.v_script, S.v_plaintext]

/-- First blacklisted name that prefixes `s` case-insensitively (the `for t in BLACKLIST` loop). -/
def firstBlacklisted (s : Bytes) : Option Bytes := tagBlacklist.find? fun t => isPrefixCI t s

/-- The delimiter test at index `j` of `literal`; `none` when `literal[j]` is out of bounds. -/
def delimAt (l : Bytes) (j : Nat) : Option Bool :=
  match l[j]? with
  | none => none
  | some c => some (isSpace c || c == 0x3E || (c == 0x2F && l.length ≥ j + 2 && l[j+1]? == some 0x3E))

/-- `tagfilter` as written in the source; `none` models the index panic. -/
def tagfilterE (l : Bytes) : Option Bool :=
  if l.length < 3 || l[0]? != some 0x3C then some false else
  let i := if l[1]? == some 0x2F then 2 else 1
  match firstBlacklisted (l.drop i) with
  | none => some false
  | some t => delimAt l (i + t.length)

/-- Total version: an out-of-range delimiter position means "no match". -/
def tagfilter (l : Bytes) : Bool := (tagfilterE l).getD false

/-- `tagfilter_block`: every `<` that opens a filtered tag is written as `&lt;`. -/
def tagfilterBlock : Bytes → Bytes
  | [] => []
  | b :: r => if b = 0x3C then (if tagfilter (b :: r) then S.v_lt else [0x3C]) ++ tagfilterBlock r
              else b :: tagfilterBlock r

end Comrak
