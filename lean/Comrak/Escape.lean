/-
Model of `html::escape`, `html::escape_href` and `html::write_opening_tag`
(src/html.rs).  Specification form (`flatMap` over a per-byte function) and
loop-shaped form (the offset / slice-copy loops of the Rust code).
-/
import Comrak.Bytes
namespace Comrak
open Bytes

/-! ## Entities (explicit bytes: string literals do not reduce in the kernel) -/
def entQuot : Bytes := [0x26,0x71,0x75,0x6F,0x74,0x3B]   -- &quot;
def entAmp  : Bytes := [0x26,0x61,0x6D,0x70,0x3B]        -- &amp;
def entLt   : Bytes := [0x26,0x6C,0x74,0x3B]             -- &lt;
def entGt   : Bytes := [0x26,0x67,0x74,0x3B]             -- &gt;
def entApos : Bytes := [0x26,0x23,0x78,0x32,0x37,0x3B]   -- &#x27;

/-! ## Text escaper -/

/-- `HTML_UNSAFE` of `escape`. -/
def htmlUnsafe (b : UInt8) : Bool := b == 0x22 || b == 0x26 || b == 0x3C || b == 0x3E

/-- What `escape` writes for one byte. -/
def escByte (b : UInt8) : Bytes :=
  if b = 0x22 then entQuot
  else if b = 0x26 then entAmp
  else if b = 0x3C then entLt
  else if b = 0x3E then entGt
  else [b]

/-- Specification form of `html::escape`. -/
def escape (bs : Bytes) : Bytes := bs.flatMap escByte

/-- Loop-shaped form: `pending` is `buffer[offset..i]`, flushed at each unsafe byte
    and at the end, exactly as the `for (i, &byte)` loop of `html::escape`. -/
def escapeLoop (pending : Bytes) : Bytes → Bytes
  | [] => pending
  | b :: r =>
    if htmlUnsafe b then pending ++ escByte b ++ escapeLoop [] r
    else escapeLoop (pending ++ [b]) r

/-! ## Href escaper -/

/-- `HREF_SAFE` of `escape_href`: `-_.+!*(),%#@?=;:/,+$~`, letters, digits. -/
def hrefSafe (b : UInt8) : Bool :=
  isAsciiAlnum b ||
  b == 0x2D || b == 0x5F || b == 0x2E || b == 0x2B || b == 0x21 || b == 0x2A ||
  b == 0x28 || b == 0x29 || b == 0x2C || b == 0x25 || b == 0x23 || b == 0x40 ||
  b == 0x3F || b == 0x3D || b == 0x3B || b == 0x3A || b == 0x2F || b == 0x24 || b == 0x7E

/-- `%XX` with upper-case hex, as `write!("%{:02X}")`. -/
def pctByte (b : UInt8) : Bytes := [0x25, hexDigit (b >>> 4), hexDigit (b &&& 0xF)]

/-- What `escape_href` writes for one byte. -/
def hrefByte (b : UInt8) : Bytes :=
  if hrefSafe b then [b]
  else if b = 0x26 then entAmp
  else if b = 0x27 then entApos
  else pctByte b

/-- Specification form of `html::escape_href`. -/
def escapeHref (bs : Bytes) : Bytes := bs.flatMap hrefByte

/-- Loop-shaped form: copy the run of safe bytes, then escape one byte. Structural
    on the input with the pending safe run carried along. -/
def escapeHrefLoop (run : Bytes) : Bytes → Bytes
  | [] => run
  | b :: r =>
    if hrefSafe b then escapeHrefLoop (run ++ [b]) r
    else run ++ hrefByte b ++ escapeHrefLoop [] r

/-! ## Tag writer -/

/-- `write_opening_tag(output, tag, attributes)`. Names are written raw, values through `escape`. -/
def openTagAttrs : List (Bytes × Bytes) → Bytes
  | [] => []
  | (k, v) :: r => [0x20] ++ k ++ [0x3D, 0x22] ++ escape v ++ [0x22] ++ openTagAttrs r

def openTag (tag : Bytes) (attrs : List (Bytes × Bytes)) : Bytes :=
  [0x3C] ++ tag ++ openTagAttrs attrs ++ [0x3E]

/-! ## Decoders and recognisers (the property's oracles) -/

/-- Strict inverse of `escape`: fails on a raw `<`, `>`, `"` or on an `&` that does not
    begin one of the four entities. `skip` bytes of an already recognised entity are dropped. -/
def unescapeTextAux (skip : Nat) : Bytes → Option Bytes
  | [] => if skip = 0 then some [] else none
  | b :: r =>
    match skip with
    | k + 1 => unescapeTextAux k r
    | 0 =>
      if b = 0x26 then
        if isPrefixB entQuot (b :: r) then (unescapeTextAux 5 r).map (0x22 :: ·)
        else if isPrefixB entAmp (b :: r) then (unescapeTextAux 4 r).map (0x26 :: ·)
        else if isPrefixB entLt (b :: r) then (unescapeTextAux 3 r).map (0x3C :: ·)
        else if isPrefixB entGt (b :: r) then (unescapeTextAux 3 r).map (0x3E :: ·)
        else none
      else if b = 0x22 || b = 0x3C || b = 0x3E then none
      else (unescapeTextAux 0 r).map (b :: ·)

def unescapeText (bs : Bytes) : Option Bytes := unescapeTextAux 0 bs

/-- "No active character": no raw `<`, `>`, `"`, and every `&` begins one of the four entities. -/
def noActive : Bytes → Bool
  | [] => true
  | b :: r =>
    (if b = 0x26 then
        isPrefixB entQuot (b :: r) || isPrefixB entAmp (b :: r) ||
        isPrefixB entLt (b :: r) || isPrefixB entGt (b :: r)
     else !(b == 0x22 || b == 0x3C || b == 0x3E)) && noActive r

/-- Output alphabet of `escape_href`: every byte is URL-safe, or is an `&` that begins
    `&amp;` or `&#x27;`.  (`%XX` consists of safe bytes: `%` itself is in the safe set.) -/
def hrefAlphabet : Bytes → Bool
  | [] => true
  | b :: r =>
    (hrefSafe b || (b == 0x26 && (isPrefixB entAmp (b :: r) || isPrefixB entApos (b :: r)))) &&
    hrefAlphabet r

/-- Entity decoding for the two entities `escape_href` produces (lenient elsewhere). -/
def entityDecodeAux (skip : Nat) : Bytes → Bytes
  | [] => []
  | b :: r =>
    match skip with
    | k + 1 => entityDecodeAux k r
    | 0 =>
      if isPrefixB entAmp (b :: r) then 0x26 :: entityDecodeAux 4 r
      else if isPrefixB entApos (b :: r) then 0x27 :: entityDecodeAux 5 r
      else b :: entityDecodeAux 0 r

def entityDecode (bs : Bytes) : Bytes := entityDecodeAux 0 bs

/-- Percent decoding: `%XY` with two hex digits becomes the byte, everything else is kept. -/
def pctDecodeAux (skip : Nat) : Bytes → Bytes
  | [] => []
  | b :: r =>
    match skip with
    | k + 1 => pctDecodeAux k r
    | 0 =>
      if b = 0x25 then
        match r with
        | h :: l :: _ =>
          match hexVal? h, hexVal? l with
          | some x, some y => (x <<< 4 ||| y) :: pctDecodeAux 2 r
          | _, _ => b :: pctDecodeAux 0 r
        | _ => b :: pctDecodeAux 0 r
      else b :: pctDecodeAux 0 r

def pctDecode (bs : Bytes) : Bytes := pctDecodeAux 0 bs

/-- Name characters accepted by the start-tag recogniser: letters, digits, `-`, `_`, `:`. -/
def nameChar (c : UInt8) : Bool := isAsciiAlnum c || c == 0x2D || c == 0x5F || c == 0x3A

def validName (n : Bytes) : Bool := !n.isEmpty && n.all nameChar

/-- Split a maximal name prefix. -/
def spanName : Bytes → Bytes × Bytes
  | [] => ([], [])
  | c :: r => if nameChar c then let (n, t) := spanName r; (c :: n, t) else ([], c :: r)

/-- Split an attribute value at the closing quote; the value must be `noActive`-clean,
    which is checked by decoding it. Returns (raw value, rest after the quote). -/
def spanValue : Bytes → Option (Bytes × Bytes)
  | [] => none
  | c :: r => if c = 0x22 then some ([], r) else (spanValue r).map fun (v, t) => (c :: v, t)

/-- Attributes of a start tag: (` ` name `="` value `"`)* `>`; `fuel` bounds the number of
    attributes (callers pass the input length). -/
def parseAttrs : Nat → Bytes → Option (List (Bytes × Bytes))
  | 0, _ => none
  | fuel + 1, s =>
    match s with
    | [0x3E] => some []
    | 0x20 :: r =>
      let (k, t) := spanName r
      if k.isEmpty then none else
      match t with
      | 0x3D :: 0x22 :: u =>
        match spanValue u with
        | some (raw, rest) =>
          match unescapeText raw, parseAttrs fuel rest with
          | some v, some more => some ((k, v) :: more)
          | _, _ => none
        | none => none
      | _ => none
    | _ => none

/-- Recogniser for exactly one syntactically complete start tag; returns the element
    name and the decoded attribute list. -/
def parseStartTag (s : Bytes) : Option (Bytes × List (Bytes × Bytes)) :=
  match s with
  | 0x3C :: r =>
    let (n, t) := spanName r
    if n.isEmpty then none else (parseAttrs (s.length + 1) t).map fun a => (n, a)
  | _ => none

end Comrak
