import Comrak.Bytes
import Comrak.Escape
