/-
Line-protocol driver: one request per line on stdin, one response per line on stdout.
Executes the model definitions the theorems are about. Handlers: Comrak/Drv/All.lean.
-/
import Comrak.Drv.All
open Comrak.Drv

def answer (line : String) : String :=
  match line.trimAscii.toString.splitOn " " with
  | [] => "err empty"
  | cmd :: args =>
    let rec go : List Handler → String
      | [] => "err unknown-cmd " ++ cmd
      | h :: hs =>
        match h cmd args with
        | some (.ok s) => "ok " ++ s
        | some (.error e) => "err " ++ e
        | none => go hs
    go handlers

partial def loop (inp out : IO.FS.Stream) : IO Unit := do
  let line ← inp.getLine
  if line.isEmpty then
    out.flush
    return ()
  out.putStrLn (answer line)
  loop inp out

def main : IO Unit := do
  loop (← IO.getStdin) (← IO.getStdout)
