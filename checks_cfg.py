"""Per-property configuration of /verif/check: one module per claimed property under checks/."""
import glob
import importlib.util
import os

from checks_common import TRUSTED_BASE  # noqa: F401

ROOT = os.path.dirname(os.path.abspath(__file__))
PROPS = {}
MANIFEST_TEXT = {}
NOT_CLAIMED_REASON = {}

for _p in sorted(glob.glob(os.path.join(ROOT, "checks", "C*.py"))):
    _spec = importlib.util.spec_from_file_location("checks_" + os.path.basename(_p)[:-3], _p)
    _m = importlib.util.module_from_spec(_spec)
    _spec.loader.exec_module(_m)
    PROPS[_m.ID] = _m.PROP
    MANIFEST_TEXT[_m.ID] = _m.TEXT
