"""Per-property configuration of /verif/check."""

TRUSTED_BASE = [
    "Lean 4.33.0 kernel (thorough tier: leanchecker re-check of the property modules)",
    "axioms: at most propext, Classical.choice, Quot.sound (audited per theorem on every run); no sorry, no native_decide, no added axioms",
    "hand-written Lean model tied to /repo by the correspondence harness /verif/harness (cvh), rebuilt against the working tree on every run",
    "Rust compiler, std, and the Lean driver's line protocol (/verif/lean/Main.lean)",
]

HTML_TB = ["recursive renderT/renderF stand for comrak's explicit work-stack traversal (exercised by the correspondence on deep and wide trees, not proved)",
           "anchor normalisation (Unicode lower-casing / category filter) is a parameter of the model; the harness supplies the real Anchorizer's value per heading text"]

PROPS = {
    "C18": {
        "lean_props": ["Comrak.Props.C18"],
        "lean_audit": ["Comrak.Audit.C18"],
        "required_theorems": ["enter_sourcepos_only_adds", "exit_sourcepos_only_adds", "exit_independent_of_sourcepos"],
        "strength": "per-node theorems for all kinds/options/states (HTML); tree-level lift, XML and CommonMark by correspondence + on/off oracle",
        "trusted_base": HTML_TB,
        "assumptions": ["the on/off oracle compares strip(on) with strip(off), so a literal data-sourcepos attribute inside passed-through raw HTML is not blamed on the option",
                        "XML and CommonMark formatters are not yet in the Lean model for this property: decided there by the oracle on real output only"],
    },
    "C10": {
        "lean_props": ["Comrak.Props.C10"],
        "lean_audit": ["Comrak.Audit.C10"],
        "required_theorems": ["enter_leaves_opened", "exit_closes_closing", "html_balanced", "html_balanced_of_shape"],
        "strength": "full at token level for every tree with balShapeT (implied by Shape); byte level by the lexer oracle on real output",
        "trusted_base": ["token spelling: K compares spell(renderToks) with the real bytes; the step from token balance to byte balance (lexHtml o spell) is checked by running the byte-level oracle on the real output, not proved"],
        "assumptions": ["plugins and URL rewriters are outside the model", "that every parsed tree satisfies balShapeT is checked on every parsed tree of the run (it is C04's subject)"],
    },
    "C19": {
        "lean_props": ["Comrak.Props.C19"],
        "lean_audit": ["Comrak.Audit.C19"],
        "required_theorems": ["escape_append", "escapeHref_append", "escape_no_active", "escapeHref_alphabet",
                              "unescapeText_escape", "escape_injective", "hrefDecode_escapeHref_partial"],
        "strength": "full for the text escaper and the tag writer; href escaper: injectivity refuted (by design), proved on inputs without '%'",
        "assumptions": ["io::Write error paths are not modelled (writers are Vec<u8>)"],
    },
}

NOT_CLAIMED_REASON = {}

MANIFEST_TEXT = {
    "C18": {
        "text": "Proof (partial). For the complete token-level model of html.rs, Lean proves for every node kind, option vector, context and writer state that erasing data-sourcepos from what a node writes with the option on gives exactly what it writes with the option off, on entering and on leaving the node (enter/exit_sourcepos_only_adds). The lift to whole trees, and the XML/CommonMark/parser halves, are decided on every run by byte-equal correspondence of the model with format_html for both settings and by the on/off oracle on the real format_html, format_xml, format_commonmark and parse_document over generated documents and directly built trees x random option vectors.",
        "note": "Trusted: Lean kernel + standard axioms; harness/driver; the tree-level lift needs equality of the two runs' writer states, exercised not proved.",
        "technique": "Lean 4 per-node theorems (case analysis over 41 kinds) + differential correspondence + metamorphic on/off oracle on real output",
        "design_ref": "DESIGN.md section 7, C18",
    },
    "C10": {
        "text": "Proof. html.rs's format_node_default is modelled completely at token level (41 node kinds, all options, footnote and table bookkeeping). Lean proves, for every option vector and every tree of any depth/width whose rows sit under tables with a unique leading header row and whose footnote definitions sit under the document or another definition (balShapeT, implied by Shape), that the emitted tag events are balanced and nothing is left open (html_balanced), via per-node pairing lemmas for all kinds. The model is tied to the code by byte-equality of real format_html output with the spelled model tokens on generated documents x random option vectors on every run; the byte-level tag-stack oracle (Lean lexer + stack machine, incl. thead/tbody/footnote-section once) is also run on the real output.",
        "note": "Trusted: Lean kernel + standard axioms; harness/driver; recursive traversal stands for the explicit work stack; token-to-byte lexing step is exercised, not proved; balShapeT of parsed trees is checked per run, proved nowhere (C04).",
        "technique": "Lean 4 theorem by mutual structural induction over Tree/Forest with per-kind pairing lemmas + differential correspondence (byte-equal HTML) + lexer/stack oracle on real output",
        "design_ref": "DESIGN.md section 7, C10",
    },
    "C19": {
        "text": "Proof. escape/escape_href/write_opening_tag are modelled completely (per-byte specification and loop-shaped forms); homomorphism, no-active-character, output alphabet and the decoder round trip are Lean theorems for every byte string. The literal round trip of the href escaper is refuted by a Lean witness (by design: '%' is in the safe set) and recorded as a known finding; injectivity is proved on inputs without '%'. The model is tied to the code by byte-equality on all 65793 strings of length <= 2 plus random longer strings and attribute lists on every run.",
        "note": "Trusted: Lean kernel + {propext, Classical.choice, Quot.sound}; the correspondence harness and the Lean driver; io::Write never fails (Vec sink).",
        "technique": "Lean 4 theorems (induction over byte lists, decide +kernel over the 256 byte values) + exhaustive/random differential correspondence against the real functions",
        "design_ref": "DESIGN.md section 7, C19",
    },
}
