//! C06: bounded work and output.
//! K: step counts of the Lean cost models vs the real step counters (hook H3) on the sublanguages where the models
//!    are exact, by equality: backtick scanner (`backtick-scan`, one paragraph over {a, `}), code-dollar scanner
//!    (`dollar-scan`, one paragraph over {$, `, a, \} with math_code on), process_emphasis (`emphasis-opener-search`,
//!    one paragraph over {*, _, a, space}); the proved bounds are re-checked on every text.
//! S (always full volume): deterministic step counters and output length on input families
//!    fragment^n, prefix^n body suffix^n, (fragment LF)^n and tree-shaped repetitions, for every fragment up
//!    to length 3 (quick) / 4 (thorough) over the Markdown-significant alphabet plus curated pathological
//!    shapes, under default / GFM / all-extensions options, all three renderers: the log-log slope of the
//!    total step count between the two largest n must stay <= 1.25 (+ tolerance), output <= a*n + b.
//!    Every measurement runs in an isolated worker with a wall-clock backstop.
use crate::model::{Batch, Model};
use crate::opts::Opts;
use crate::report::Report;
use crate::rng::Rng;
use crate::util::{hex, show};
use crate::worker::{default_workers, expand_spec, run_cases, spec_of, Outcome};
use crate::Cfg;
use comrak::{format_commonmark, format_html, format_xml, parse_document, Arena};
use std::panic::{catch_unwind, AssertUnwindSafe};
use std::time::Duration;

pub const SLOPE_LIMIT: f64 = 1.25;
pub const SLOPE_TOL: f64 = 0.10;
/// output <= OUT_A * input + OUT_B (bytes), per renderer
pub const OUT_A: u64 = 160;
pub const OUT_B: u64 = 4096;

fn optset(name: &str) -> Option<Opts> {
    match name {
        "default" => Some(Opts::default()),
        "gfm" => Some(Opts::gfm()),
        "all" => Some(Opts::all_extensions()),
        "all+smart" => Some(Opts::all_extensions().with("smart", true).with("relaxed_autolinks", true)),
        "all+ids" => {
            let mut o = Opts::all_extensions();
            o.header_ids = Some("h-".to_string());
            Some(o)
        }
        _ => None,
    }
}

// ------------------------------------------------------------------ worker side

/// `fam <optset> <docspec>` -> `ok <insize> <html> <cm> <xml> <s0,..,s11>` | `fail <hex detail>`
pub fn worker_case(line: &str) -> String {
    let toks: Vec<&str> = line.split(' ').collect();
    if toks.len() < 3 || toks[0] != "fam" {
        return "bad-case".into();
    }
    let o = match optset(toks[1]) {
        Some(o) => o,
        None => return "bad-optset".into(),
    };
    let md = match expand_spec(toks[2]).and_then(|b| String::from_utf8(b).ok()) {
        Some(s) => s,
        None => return "bad-doc".into(),
    };
    let c = o.to_comrak();
    let r = catch_unwind(AssertUnwindSafe(|| {
        comrak::verif::reset();
        let arena = Arena::new();
        let root = parse_document(&arena, &md, &c);
        let mut lens = [0usize; 3];
        let mut out = Vec::new();
        format_html(root, &c, &mut out).unwrap();
        lens[0] = out.len();
        out.clear();
        format_commonmark(root, &c, &mut out).unwrap();
        lens[1] = out.len();
        out.clear();
        format_xml(root, &c, &mut out).unwrap();
        lens[2] = out.len();
        (lens, comrak::verif::steps())
    }));
    match r {
        Err(_) => format!("fail {}", hex(crate::worker::take_panic().as_bytes())),
        Ok((lens, st)) => format!(
            "ok {} {} {} {} {}",
            md.len(),
            lens[0],
            lens[1],
            lens[2],
            st.iter().map(|x| x.to_string()).collect::<Vec<_>>().join(",")
        ),
    }
}

#[derive(Clone, Debug)]
struct Meas {
    insize: u64,
    out: [u64; 3],
    steps: Vec<u64>,
    ms: u64,
}

impl Meas {
    fn total(&self) -> u64 {
        // the catch-all `inline-peek` counter (index 11) overlaps the per-mechanism ones; it is part of the total
        self.steps.iter().sum()
    }
}

fn parse_reply(l: &str, ms: u64) -> Option<Meas> {
    let t: Vec<&str> = l.split(' ').collect();
    if t.len() != 6 || t[0] != "ok" {
        return None;
    }
    Some(Meas {
        insize: t[1].parse().ok()?,
        out: [t[2].parse().ok()?, t[3].parse().ok()?, t[4].parse().ok()?],
        steps: t[5].split(',').map(|x| x.parse().unwrap_or(0)).collect(),
        ms,
    })
}

// ------------------------------------------------------------------ families

#[derive(Clone, Debug)]
struct Family {
    /// shape name: rep | nest | lines | tree
    shape: &'static str,
    frag: Vec<u8>,
    /// closing counterpart for nest/tree
    close: Vec<u8>,
    curated: bool,
}

fn mirror(f: &[u8]) -> Vec<u8> {
    f.iter()
        .rev()
        .map(|c| match c {
            b'[' => b']',
            b']' => b'[',
            b'(' => b')',
            b')' => b'(',
            b'<' => b'>',
            b'>' => b'<',
            c => *c,
        })
        .collect()
}

impl Family {
    fn spec(&self, n: usize) -> String {
        match self.shape {
            "rep" => spec_of(&[(b"a", 1), (&self.frag, n), (b"\n", 1)]),
            "repraw" => spec_of(&[(&self.frag, n), (b"\n", 1)]),
            // head once, then the fragment n times (state left on a delimiter/bracket stack by the head)
            "headrep" => spec_of(&[(&self.close, 1), (&self.frag, n), (b"\n", 1)]),
            "nest" => spec_of(&[(&self.frag, n), (b"a", 1), (&self.close, n), (b"\n", 1)]),
            "lines" => {
                let mut l = self.frag.clone();
                l.push(b'\n');
                spec_of(&[(&l, n)])
            }
            // context prefix, the payload n times, context suffix (`close` = prefix 0x01 suffix)
            "wrap" => {
                let cut = self.close.iter().position(|c| *c == 1).unwrap_or(self.close.len());
                let (pre, suf) = (&self.close[..cut], &self.close[(cut + 1).min(self.close.len())..]);
                spec_of(&[(pre, 1), (&self.frag, n), (suf, 1)])
            }
            // a table n columns wide: header row, delimiter row, one body row
            "rows" => spec_of(&[(&self.frag, n), (b"|\n", 1), (&self.close, n), (b"|\n", 1), (&self.frag, n), (b"|\n", 1)]),
            // the fragment n times with the byte 0x01 replaced by the running number (n distinct labels, names, headings)
            "numbered" => {
                let parts: Vec<Vec<u8>> = (0..n)
                    .map(|i| {
                        let mut v = vec![];
                        for b in &self.frag {
                            if *b == 1 {
                                v.extend_from_slice(i.to_string().as_bytes());
                            } else {
                                v.push(*b);
                            }
                        }
                        v
                    })
                    .collect();
                let refs: Vec<(&[u8], usize)> = parts.iter().map(|p| (p.as_slice(), 1)).collect();
                spec_of(&refs)
            }
            "paras" => {
                let mut l = self.frag.clone();
                l.extend_from_slice(b"\n\n");
                spec_of(&[(&l, n)])
            }
            _ => {
                // tree: t(0) = a, t(k+1) = frag t(k) close ' ' t(k); n is the size, depth = log2 n
                let depth = (usize::BITS - 1 - n.max(1).leading_zeros()) as usize;
                let mut t: Vec<u8> = b"a".to_vec();
                for _ in 0..depth {
                    let mut u = self.frag.clone();
                    u.extend_from_slice(&t);
                    u.extend_from_slice(&self.close);
                    u.push(b' ');
                    u.extend_from_slice(&t);
                    t = u;
                }
                t.push(b'\n');
                spec_of(&[(&t, 1)])
            }
        }
    }
    fn name(&self) -> String {
        format!("{}:{}:{}", self.shape, hex(&self.frag), hex(&self.close))
    }
}

pub const ALPHABET: &[u8] = b"*_`[]()<>!&\\|~^$:-#=+@./\"' \na1";

fn curated() -> Vec<Family> {
    let mut v = vec![];
    let f = |shape: &'static str, frag: &str, close: &str| Family { shape, frag: frag.as_bytes().to_vec(), close: close.as_bytes().to_vec(), curated: true };
    for (a, b) in [
        ("[", "]"), ("[", "](u)"), ("![", "](u)"), ("![", "]"), ("[", "][]"), ("[", "][a]"), ("![", "][]"), ("![", "][a]"), ("[*", "*]"), ("*[", "]*"), ("[`a` ", "]"), ("![a", "]"), ("[![", "]]"), ("[a](", ")"), ("[[", "]]"), ("*a ", " b*"), ("**a ", " b**"), ("_a ", " b_"), ("*a **b ", " c** d*"),
        ("~~a ", " b~~"), ("||a ", " b||"), ("^a ", " b^"), ("<", ">"), ("<a href=\"", "\">"), ("`", "`"), ("$", "$"), ("$$", "$$"), ("(", ")"), ("\"", "\""), ("'", "'"),
        ("> ", ""), (">", ""), ("- ", ""), ("1. ", ""), ("> - ", ""), (">>> ", ""), ("[^", "]"), ("<!--", "-->"), ("<![CDATA[", "]]>"), ("<?", "?>"), ("&", ";"),
        // n containers opened on one line, then n more lines (each of them walks the open containers)
        ("- ", "\n"), ("1. ", "\n"), ("> ", "\n"), ("> - ", "\n"), ("- ", "\nb"), ("[^a]: ", "\n"),
    ] {
        v.push(f("nest", a, b));
        v.push(f("tree", a, b));
    }
    for s in [
        "*a **b ", "*a **b", "**a *b ", "a**b", "*a_b ", "_a*b ", "***a ", "a*_", "[a", "[a]", "[a](", "[a][", "![a", "[a]: /u\n", "[a]\n", "[^a] ", "[^a]: x\n", "[^a]: x\n\n", "x[^a]\n\n[^a]: y\n\n",
        "`a", "``a", "` `` ", "`a``b", "$`a", "$a", "$$a", "$a$$b ", "`$a", "| a ", "|a|b|\n", "|-", "| a |\n|---|\n| b |\n", "|a|\n|-|\n", "a@b.c ", "a@b.c\n", "www.a.b ", "http://a.b ", "https://a.b/c?d=e&f ",
        "mailto:a@b.c ", "xmpp:a@b.c/d ", "<a@b.c>", "<http://a>", "&amp;", "&#35;", "&#x22;", "&nosuch;", "&a", "\\a", "\\\\", "\\`", "<a>", "</a>", "<a", "<!--a", "<!-- a -->", "<?a", "<![CDATA[a", "<!a",
        "<div>\n", "> a\n", "- a\n", "1. a\n", "  - a\n", "\ta\n", "    a\n", "# a\n", "a\n===\n", "a\n---\n", "***\n", "```\na\n", "~~~\n", "```\n```\n", "a  \n", "a\\\n", "\"a\" ", "'a' ", "a--b...", ": a\n", "a\n\n: b\n\n",
        "[[a|b]]", "[[a", "||a", "~a~ ", "~~a~~ ", "^a^ ", "==a== ", ":smile: ", "- [ ] a\n", "- [x] a\n", "> [!NOTE]\n> a\n\n", ">>>\na\n>>>\n", "$$\na\n$$\n", "\u{0}", "\r", "\r\n", "\u{feff}", "é", "a\u{a0}", "\u{2028}",
    ] {
        for shape in ["repraw", "lines", "paras"] {
            v.push(f(shape, s, ""));
        }
    }
    // n unterminated openers, then a tail that is a proper prefix of the closer (a "no closer ahead" memo that is
    // only set when the scan reaches the very end shows only here)
    for (pl, suf) in [("<?x ", "x?\n"), ("<!--x ", "x-\n"), ("<!--x ", "x--\n"), ("<![CDATA[x ", "x]\n"), ("<![CDATA[x ", "x]]\n"), ("<!x ", "x\n"), ("<a ", "x\n")] {
        let mut close = b"a ".to_vec();
        close.push(1);
        close.extend_from_slice(suf.as_bytes());
        v.push(Family { shape: "wrap", frag: pl.as_bytes().to_vec(), close, curated: true });
    }
    // reference definitions + many uses
    v.push(f("repraw", "[a] ", ""));
    // a head that leaves something on the delimiter / bracket stack, then n copies of a fragment
    for head in ["a**a ", "a__a ", "a*a ", "*a ", "**a ", "_a ", "__a ", "[a ", "![a ", "`", "``", "$", "<", "a**a _b ", "a~~a ", "||a "] {
        for frag in ["*a_ ", "_a* ", "*a ", "_a ", "**a ", "__a ", "a* ", "a_ ", "a** ", "*a** ", "**a* ", "[a ", "a] ", "`a ", "a` ", "~a ", "a~ "] {
            v.push(f("headrep", frag, head));
        }
    }
    // every pair of line kinds, repeated as one run of lines (paragraph continuation, table probing, lazy lines)
    const LINES: &[&str] = &["a", "|-|", "|-|-|", "|a|", "|a|b|", "|:-|", "- a", "* a", "1. a", "> a", "```", "~~~", "    a", "<div>", "</div>", "[a]: /u", ": a",
        "===", "---", "# a", "a  ", "[^a]: x", "  a", "\ta", "$$", ">>>", "- [ ] a", "|"];
    for l1 in LINES {
        for l2 in LINES {
            v.push(f("lines", &format!("{}\n{}", l1, l2), ""));
        }
    }
    v
}

fn fragments(maxlen: usize) -> Vec<Vec<u8>> {
    let mut all: Vec<Vec<u8>> = vec![];
    let mut cur: Vec<Vec<u8>> = vec![vec![]];
    for _ in 0..maxlen {
        let mut next = vec![];
        for w in &cur {
            for &c in ALPHABET {
                let mut t = w.clone();
                t.push(c);
                next.push(t);
            }
        }
        all.extend(next.iter().cloned());
        cur = next;
    }
    all
}

fn enumerated(maxlen: usize) -> Vec<Family> {
    let mut v = vec![];
    for fr in fragments(maxlen) {
        let plain = fr.iter().all(|c| matches!(c, b'a' | b'1' | b' '));
        if plain {
            continue;
        }
        v.push(Family { shape: "rep", frag: fr.clone(), close: vec![], curated: false });
        if !fr.contains(&b'\n') {
            v.push(Family { shape: "lines", frag: fr.clone(), close: vec![], curated: false });
            v.push(Family { shape: "nest", frag: fr.clone(), close: mirror(&fr), curated: false });
        }
    }
    v
}

// ------------------------------------------------------------------ signatures (fragment classes)

fn contains(h: &[u8], n: &[u8]) -> bool {
    h.windows(n.len()).any(|w| w == n)
}

/// Two `*` (or two `_`) runs of different lengths l1, l2, neither a multiple of 3, with (l1 + l2) % 3 == 0:
/// the "rule of three" makes the opener search skip candidates.
fn star_runs_sum_to_multiple_of_three(t: &[u8]) -> bool {
    for ch in [b'*', b'_'] {
        let mut lens = vec![];
        let mut cur = 0;
        for c in t.iter().chain([b' '].iter()) {
            if *c == ch {
                cur += 1;
            } else {
                if cur > 0 {
                    lens.push(cur);
                }
                cur = 0;
            }
        }
        for a in &lens {
            for b in &lens {
                if a != b && a % 3 != 0 && b % 3 != 0 && (a + b) % 3 == 0 {
                    return true;
                }
            }
        }
    }
    false
}

/// Narrow class of (option set, family) for failures that are listed as known findings.
fn family_sig(optname: &str, fam: &Family, clause: &str) -> String {
    let math_code = optname.starts_with("all");
    let autolink = optname != "default";
    // fragment^2 . close^2: sees patterns across the repetition seams
    let both = [fam.frag.clone(), fam.frag.clone(), fam.close.clone(), fam.close.clone()].concat();
    if clause == "steps-superlinear" || clause == "wall-clock" {
        if math_code && contains(&both, b"$`") {
            return "math_code/fragment-contains-dollar-backtick".into();
        }
        if autolink && both.windows(3).any(|w| w[1] == b'@' && w[0].is_ascii_alphanumeric() && w[2].is_ascii_alphanumeric()) {
            return "autolink/fragment-contains-email-like".into();
        }
        if math_code && contains(&both, b"\\$") {
            return "math_dollars/fragment-contains-backslash-dollar".into();
        }
        if math_code && contains(&both, b"[^") {
            // footnotes are on in the all-extensions option sets only
            return "footnotes/fragment-contains-bracket-caret".into();
        }
        if star_runs_sum_to_multiple_of_three(&both) {
            return "emphasis/star-runs-of-two-lengths-summing-to-a-multiple-of-3".into();
        }
    }
    format!("{}/{}", optname, fam.shape)
}

// ------------------------------------------------------------------ measuring

struct Job {
    fam: usize,
    optname: &'static str,
    n: usize,
}

fn measure(jobs: &[Job], fams: &[Family], budget: Duration) -> Vec<(Outcome, String)> {
    let lines: Vec<String> = jobs.iter().map(|j| format!("fam {} {}", j.optname, fams[j.fam].spec(j.n))).collect();
    let outs = run_cases("C06", &lines, budget, default_workers());
    outs.into_iter().zip(lines).collect()
}

fn slope(a: &Meas, b: &Meas) -> f64 {
    let (s1, s2) = (a.total().max(1) as f64, b.total().max(1) as f64);
    let (n1, n2) = (a.insize.max(1) as f64, b.insize.max(1) as f64);
    if n2 <= n1 {
        return 0.0;
    }
    (s2 / s1).ln() / (n2 / n1).ln()
}

fn worst_counter(a: &Meas, b: &Meas) -> String {
    let names = comrak::verif::STEP_NAMES;
    let mut best = (0.0f64, 0usize);
    for i in 0..a.steps.len().min(b.steps.len()) {
        if b.steps[i] > 1000 {
            let s = ((b.steps[i].max(1) as f64) / (a.steps[i].max(1) as f64)).ln() / ((b.insize as f64) / (a.insize as f64)).ln();
            if s > best.0 {
                best = (s, i);
            }
        }
    }
    format!("{} (slope {:.2}: {} -> {})", names.get(best.1).unwrap_or(&"?"), best.0, a.steps[best.1], b.steps[best.1])
}

fn judge_pair(rep: &mut Report, optname: &str, fam: &Family, n1: usize, n2: usize, r1: &(Outcome, String), r2: &(Outcome, String)) -> Option<f64> {
    rep.s_evals += 2;
    let input = format!("pair {} {} {} {} {} {}", optname, fam.shape, hex(&fam.frag), hex(&fam.close), n1, n2);
    let mut ms = vec![];
    for (out, _line) in [r1, r2] {
        match out {
            Outcome::Reply(l, t) => match parse_reply(l, *t) {
                Some(m) => ms.push(m),
                None => {
                    // panics belong to C01; they are counted, not judged, here
                    rep.count("skipped-panic(C01)");
                    return None;
                }
            },
            Outcome::Hang(t) => {
                let sig = family_sig(optname, fam, "wall-clock");
                rep.fail("wall-clock", &sig, input, format!("no answer within {} ms for {:?} n={}", t, show(&fam.frag), n2));
                return None;
            }
            Outcome::Died { .. } => {
                rep.count("skipped-crash(C01)");
                return None;
            }
        }
    }
    let (a, b) = (&ms[0], &ms[1]);
    let sl = slope(a, b);
    if sl > SLOPE_LIMIT + SLOPE_TOL && b.total() > 20_000 {
        let sig = family_sig(optname, fam, "steps-superlinear");
        if std::env::var("CVH_DEBUG").is_ok() {
            eprintln!("superlinear {:.2} {} {} {:?} {:?} [{}] worst {}", sl, optname, fam.shape, show(&fam.frag), show(&fam.close), sig, worst_counter(a, b));
        }
        rep.fail(
            "steps-superlinear",
            &sig,
            input.clone(),
            format!("total steps {} -> {} for input {} -> {} bytes (slope {:.2} > {:.2}); fastest-growing counter: {}; {} ms -> {} ms; family {} {:?}/{:?} options {}", a.total(), b.total(), a.insize, b.insize, sl, SLOPE_LIMIT, worst_counter(a, b), a.ms, b.ms, fam.shape, show(&fam.frag), show(&fam.close), optname),
        );
    }
    for (i, rname) in ["html", "commonmark", "xml"].iter().enumerate() {
        if b.out[i] > OUT_A * b.insize + OUT_B {
            let sig = family_sig(optname, fam, "output");
            rep.fail("output-size", &sig, input.clone(), format!("{} output {} bytes for {} input bytes (> {} * n + {}); family {} {:?}", rname, b.out[i], b.insize, OUT_A, OUT_B, fam.shape, show(&fam.frag)));
        }
        let ratio = b.out[i] * 100 / b.insize.max(1);
        let key = format!("max-output-percent-{}", rname);
        let cur = rep.dist.get(&key).copied().unwrap_or(0);
        if ratio > cur {
            rep.dist.insert(key, ratio);
        }
    }
    Some(sl)
}

fn run_families(rep: &mut Report, fams: &[Family], optnames: &[&'static str], n1: usize, n2: usize, label: &str) -> Vec<(usize, &'static str, f64)> {
    let mut jobs = vec![];
    for (i, _f) in fams.iter().enumerate() {
        for o in optnames {
            jobs.push(Job { fam: i, optname: o, n: n1 });
            jobs.push(Job { fam: i, optname: o, n: n2 });
        }
    }
    let t0 = std::time::Instant::now();
    let res = measure(&jobs, fams, Duration::from_secs(40));
    let mut slopes = vec![];
    for k in (0..jobs.len()).step_by(2) {
        let f = &fams[jobs[k].fam];
        rep.count(&format!("families-{}-{}", label, f.shape));
        if let Some(sl) = judge_pair(rep, jobs[k].optname, f, n1, n2, &res[k], &res[k + 1]) {
            rep.nontrivial(&(f.name(), jobs[k].optname));
            let b = if sl < 0.9 { "<0.9" } else if sl <= 1.05 { "0.9-1.05" } else if sl <= 1.25 { "1.05-1.25" } else if sl <= 1.6 { "1.25-1.6" } else { ">1.6" };
            rep.count(&format!("slope-{}", b));
            slopes.push((jobs[k].fam, jobs[k].optname, sl));
        }
    }
    rep.notes.push(format!("{}: {} measurements (n = {} and {}) in {:.1}s", label, jobs.len(), n1, n2, t0.elapsed().as_secs_f64()));
    slopes
}

const OPTSETS: &[&str] = &["default", "gfm", "all"];

/// The caps the property names, observed on the tree: table auto-completion (at most 500 000 cells that
/// are not in the source, per table), list nesting (at most 100 levels), reference expansion (at most
/// max(100 000, input) bytes of destination + title). `cap <which>` replays one of them.
pub fn run_caps(rep: &mut Report, only: Option<&str>) {
    use comrak::nodes::NodeValue;
    let o = Opts::all_extensions().to_comrak();
    let want = |w: &str| only.map_or(true, |x| x == w);
    let count = |md: &str, pred: &dyn Fn(&NodeValue) -> bool| -> Result<(usize, usize, usize), String> {
        catch_unwind(AssertUnwindSafe(|| {
            let arena = Arena::new();
            let root = parse_document(&arena, md, &o);
            let n = root.descendants().filter(|x| pred(&x.data.borrow().value)).count();
            let mut depth = 0usize;
            let mut maxdepth = 0usize;
            for e in root.traverse() {
                match e {
                    comrak::arena_tree::NodeEdge::Start(x) => {
                        if matches!(x.data.borrow().value, NodeValue::List(_)) {
                            depth += 1;
                            maxdepth = maxdepth.max(depth);
                        }
                    }
                    comrak::arena_tree::NodeEdge::End(x) => {
                        if matches!(x.data.borrow().value, NodeValue::List(_)) {
                            depth -= 1;
                        }
                    }
                }
            }
            let mut h = Vec::new();
            format_html(root, &o, &mut h).unwrap();
            (n, maxdepth, h.len())
        }))
        .map_err(|e| e.downcast_ref::<String>().cloned().or_else(|| e.downcast_ref::<&str>().map(|x| x.to_string())).unwrap_or_else(|| "panic".to_string()))
    };
    if want("table") {
        for (cols, rows) in [(1000usize, 800usize), (2000, 300)] {
            let mut md = String::new();
            md.push_str(&"|a".repeat(cols));
            md.push_str("|\n");
            md.push_str(&"|-".repeat(cols));
            md.push_str("|\n");
            for _ in 0..rows {
                md.push_str("|x\n");
            }
            rep.s_evals += 1;
            rep.count("cap-table");
            match count(&md, &|v| matches!(v, NodeValue::TableCell)) {
                Ok((cells, _, html)) => {
                    let in_source = cols + rows;
                    let bound = in_source + 500_000 + cols;
                    let out_bound = OUT_A * md.len() as u64 + OUT_B + 500_000 * 12;
                    if cells > bound || html as u64 > out_bound {
                        rep.fail("cap", "table-auto-completion", format!("cap table {} {}", cols, rows), format!("a {}-column table with {} one-cell rows ({} bytes) has {} cells (bound: {} in the source + 500000 + one row) and {} bytes of HTML (bound {})", cols, rows, md.len(), cells, in_source, html, out_bound));
                    }
                }
                Err(e) => rep.fail("cap", "table-auto-completion-panic", format!("cap table {} {}", cols, rows), e),
            }
        }
    }
    if want("table") {
        // K: the row / cell bookkeeping of the real NodeTable against the Lean recursion the cap theorem is about
        let m = Model::from_env();
        let mut bt = Batch::new();
        let mut r = Rng::new(0xC06_CA9);
        let mut cases: Vec<(usize, Vec<usize>)> = vec![(1000, vec![1; 800]), (2000, vec![1; 300]), (1500, (0..700).map(|i| 1 + i % 3).collect())];
        for _ in 0..60 {
            let cols = r.range(1, 9);
            let n = r.range(0, 9);
            cases.push((cols, (0..n).map(|_| r.range(1, 12)).collect()));
        }
        for (cols, widths) in cases {
            let mut md = String::new();
            md.push_str(&"|a".repeat(cols));
            md.push_str("|\n");
            md.push_str(&"|-".repeat(cols));
            md.push_str("|\n");
            for w in &widths {
                md.push_str(&"|x".repeat(*w));
                md.push('\n');
            }
            let got = catch_unwind(AssertUnwindSafe(|| {
                let arena = Arena::new();
                let root = parse_document(&arena, &md, &o);
                let t = root.descendants().find_map(|x| match x.data.borrow().value {
                    NodeValue::Table(ref t) => Some((t.num_columns, t.num_rows, t.num_nonempty_cells)),
                    _ => None,
                });
                t
            }));
            let input = format!("cap tablek {} {}", cols, widths.iter().map(|w| w.to_string()).collect::<Vec<_>>().join(","));
            match got {
                Ok(Some((c, rows, nonempty))) if c == cols => {
                    // (the header row is not counted: its `incr_table_row_count` is applied to the paragraph it replaces)
                    let real = format!("{} {} {}", rows, (c * rows).saturating_sub(nonempty), nonempty);
                    let ks = if widths.is_empty() { "".to_string() } else { widths.iter().map(|w| w.to_string()).collect::<Vec<_>>().join(",") };
                    if ks.is_empty() {
                        continue;
                    }
                    bt.push(format!("c06cap {} {}", cols, ks), move |resp, rep| {
                        rep.k_evals += 1;
                        if resp != real {
                            rep.disagree("table-cap-bookkeeping", input, format!("real <accepted rows> <autocompleted> <in source> = {} model = {}", real, resp));
                        }
                    });
                }
                Ok(_) => rep.count("cap-k-skipped-no-table"),
                Err(_) => rep.count("cap-k-skipped-panic"),
            }
        }
        bt.run(&m, rep);
    }
    if want("nesting") {
        for (marker, n) in [("- ", 400usize), ("1. ", 400), ("- ", 3000), ("> - ", 300), ("+ ", 150)] {
            let md = format!("{}x\n", marker.repeat(n));
            rep.s_evals += 1;
            rep.count("cap-nesting");
            match count(&md, &|_| false) {
                Ok((_, depth, _)) => {
                    if depth > 100 {
                        rep.fail("cap", "list-nesting", format!("cap nesting {} {}", hex(marker.as_bytes()), n), format!("{} list markers {:?} on one line open {} nested lists (cap: 100)", n, marker, depth));
                    }
                }
                Err(e) => rep.fail("cap", "list-nesting-panic", format!("cap nesting {} {}", hex(marker.as_bytes()), n), e),
            }
        }
    }
    if want("references") {
        // the budget is the document's, not a block's: the same uses spread over many paragraphs, headings and cells
        for (url_len, blocks) in [(8000usize, 100usize), (3000, 400)] {
            let url = format!("/{}", "x".repeat(url_len));
            let mut md = format!("[a]: {}\n\n", url);
            for i in 0..blocks {
                md.push_str(if i % 3 == 2 { "# [a] [a]\n\n" } else { "[a] [a] [a] [a]\n\n" });
            }
            rep.s_evals += 1;
            rep.count("cap-references");
            match count(&md, &|v| matches!(v, NodeValue::Link(_))) {
                Ok((links, _, html)) => {
                    let budget = md.len().max(100_000);
                    if links * url.len() > budget + url.len() || html as u64 > OUT_A * md.len() as u64 + OUT_B + 2 * budget as u64 {
                        rep.fail("cap", "reference-expansion", format!("cap references {} {}", url_len, blocks), format!("{} uses of a {}-byte destination spread over {} blocks resolved: {} bytes of expansion, {} bytes of HTML for {} bytes of input (cap: max(100000, input) for the whole document)", links, url.len(), blocks, links * url.len(), html, md.len()));
                    }
                }
                Err(e) => rep.fail("cap", "reference-expansion-panic", format!("cap references {} {}", url_len, blocks), e),
            }
        }
        for (url_len, uses) in [(1000usize, 600usize), (5000, 300)] {
            let url = format!("/{}", "a".repeat(url_len));
            let mut md = format!("[a]: {}\n\n", url);
            for _ in 0..uses {
                md.push_str("[a] ");
            }
            md.push('\n');
            rep.s_evals += 1;
            rep.count("cap-references");
            match count(&md, &|v| matches!(v, NodeValue::Link(_))) {
                Ok((links, _, _)) => {
                    let budget = md.len().max(100_000);
                    if links * url.len() > budget + url.len() {
                        rep.fail("cap", "reference-expansion", format!("cap references {} {}", url_len, uses), format!("{} uses of a {}-byte destination resolved: {} bytes of expansion for {} bytes of input (cap: max(100000, input))", links, url.len(), links * url.len(), md.len()));
                    }
                }
                Err(e) => rep.fail("cap", "reference-expansion-panic", format!("cap references {} {}", url_len, uses), e),
            }
        }
    }
}

pub fn run(cfg: &Cfg, rep: &mut Report) {
    rep.rule = "S: for every fragment up to length 3 (quick) / 4 (thorough) over the alphabet *_`[]()<>!&\\|~^$:-#=+@./\"' LF a 1 (fragments of only a/1/space skipped) the families a.f^n, (f LF)^n and f^n.a.mirror(f)^n, plus ~150 curated shapes as nest/tree/repeat/lines/paragraph families; each measured at two sizes n (2^11, 2^12 quick; up to 2^16, 2^17 thorough; length-3/4 fragments screened at smaller n and re-measured at the large sizes when the slope exceeds 1.1) under default, GFM and all-extensions options; per measurement: 12 deterministic step counters (hook comrak::verif::steps) over parse + HTML + CommonMark + XML, output lengths, wall clock in an isolated worker. Oracle: log-log slope of total steps <= 1.25 (+0.10 tolerance), output <= 160 n + 4096. K (equality of step counts, exhaustive short + random texts): backtick-scan == Lean btStepsPos on one-paragraph texts over {a, `}; dollar-scan == Lean dlSteps (the code as it is since /repo commits 657287d and b4925f3, with its no-closer memos) on texts over {$, `, a, \\} with math_code and over {$, `, a, \\, space, 1} with math_dollars (with and without math_code); emphasis-opener-search == Lean emSteps true (the code as it is since /repo commits 9704a60 and e31def4) on texts over {*, _, a, space} and, with strikethrough on, over {*, _, ~, a, space}; proved bounds (3n backticks; 3n code-dollar, 5n math-dollar; 44 n + chars for process_emphasis) re-checked on every text.".into();
    if std::env::var("CVH_C06_ICOUNT_ONLY").is_ok() {
        let mut ifams = wrap_families(cfg.tier_thorough);
        ifams.extend(curated().into_iter().filter(|f| f.shape == "nest"));
        ifams.extend(icount_line_families());
        run_icount(rep, &ifams, &["all+ids"], 2000, 4000);
        return;
    }
    k_stage(cfg, rep);
    if std::env::var("CVH_C06_KONLY").is_ok() {
        return;
    }
    run_caps(rep, None);
    let (big1, big2) = if cfg.tier_thorough { (1usize << 16, 1usize << 17) } else { (1usize << 11, 1usize << 12) };
    let (scr1, scr2) = if cfg.tier_thorough { (1usize << 11, 1usize << 12) } else { (1usize << 9, 1usize << 10) };
    let passing = |fams: &[Family], slopes: &[(usize, &'static str, f64)], lo: f64| -> Vec<Family> {
        // families to re-measure at the large sizes: slope above `lo` under some option set, but not already failing
        // (a family that is super-linear at the screening size is reported there; re-running it 32x larger only burns the budget)
        let mut keep = vec![];
        for (i, f) in fams.iter().enumerate() {
            let ss: Vec<f64> = slopes.iter().filter(|(j, _, _)| *j == i).map(|(_, _, s)| *s).collect();
            if ss.iter().any(|s| *s > lo) && ss.iter().all(|s| *s <= SLOPE_LIMIT + SLOPE_TOL) {
                keep.push(f.clone());
            }
        }
        keep
    };
    // curated shapes and all fragments up to length 2
    let mut fams = curated();
    fams.extend(enumerated(2));
    if cfg.tier_thorough {
        let sl = run_families(rep, &fams, OPTSETS, scr1, scr2, "curated+len<=2-screen");
        let ok = passing(&fams, &sl, -1.0);
        run_families(rep, &ok, OPTSETS, big1, big2, "curated+len<=2-large");
    } else {
        run_families(rep, &fams, OPTSETS, big1, big2, "curated+len<=2");
    }
    // longer fragments: screen, then confirm the suspicious ones at the large sizes
    let maxlen = if cfg.tier_thorough { 4 } else { 3 };
    let long: Vec<Family> = enumerated(maxlen).into_iter().filter(|f| f.frag.len() > 2).collect();
    // the thorough tier samples length-4 fragments (the full set x 3 shapes is beyond the budget): every length-3 fragment, one in 12 of length 4
    let mut r = Rng::new(cfg.seed ^ 0xC06);
    let long: Vec<Family> = long.into_iter().filter(|f| f.frag.len() < 4 || r.chance(1, 12)).collect();
    let slopes = run_families(rep, &long, OPTSETS, scr1, scr2, "len>=3-screen");
    let suspects = passing(&long, &slopes, 1.08);
    rep.add("suspects-remeasured", suspects.len() as u64);
    run_families(rep, &suspects, OPTSETS, big1, big2, "len>=3-confirm");
    // smart punctuation + relaxed autolinks on the curated shapes
    let cur = curated();
    run_families(rep, &cur, &["all+smart"], big1, big2, "curated-smart");
    // instruction counts (valgrind) on the payload contexts and the curated nest shapes
    let mut ifams = wrap_families(cfg.tier_thorough);
    ifams.extend(curated().into_iter().filter(|f| f.shape == "nest"));
    ifams.extend(icount_line_families());
    let iopts: &[&'static str] = if cfg.tier_thorough { &["default", "all+ids"] } else { &["all+ids"] };
    run_icount(rep, &ifams, iopts, 2000, 4000);
    for (i, f) in cur.iter().take(3).enumerate() {
        let _ = i;
        rep.sample(format!("family {} frag {:?} close {:?}: n=3 -> {:?}", f.shape, show(&f.frag), show(&f.close), show(&expand_spec(&f.spec(3)).unwrap_or_default())));
    }
}

// ------------------------------------------------------------------ instruction counts

/// Payload contexts: a construct whose payload goes through its own cleaning / unescaping /
/// normalising helper (destination, title, info string, label, ...), filled with n copies of a fragment.
fn wrap_families(thorough: bool) -> Vec<Family> {
    const CTX: &[(&str, &str)] = &[
        ("[a](", ")\n"), ("[a](<", ">)\n"), ("[a](u \"", "\")\n"), ("![a](", ")\n"), ("``` ", "\nx\n```\n"), ("[a]: ", "\n\n[a]\n"), ("[a]: u \"", "\"\n\n[a]\n"),
        ("[", "]: u\n"), ("[", "]\n"), ("<http://a/", ">\n"), ("`", "`\n"), ("> [!NOTE] ", "\n> x\n"), ("[[", "]]\n"), ("<a href=\"", "\">\n"), ("# ", "\n"),
        ("| ", " |\n|-|\n"), ("[^", "]\n\n[^x]: y\n"), ("- [ ] ", "\n"), ("$", "$\n"), ("x\n: ", "\n"), ("www.a.b/", "\n"), ("http://a.b/", " x\n"), ("a@b.c", "\n"),
    ];
    let quick: &[&str] = &["\\!", "&amp;", "%20", "a", "(", ")", "*", " ", "\u{e9}", "&a"];
    let more: &[&str] = &["\\\\", "&#35;", "\"", "_", ")", "]", "[", "~", "|", "\\(", "a ", "A", "\u{130}"];
    let mut v = vec![];
    for (pre, suf) in CTX {
        let mut close = pre.as_bytes().to_vec();
        close.push(1);
        close.extend_from_slice(suf.as_bytes());
        for pl in quick.iter().chain(if thorough { more.iter() } else { [].iter() }) {
            v.push(Family { shape: "wrap", frag: pl.as_bytes().to_vec(), close: close.clone(), curated: true });
        }
    }
    v
}

/// Whole-line shapes for the instruction counts: identical headings (anchor bookkeeping), reference
/// definitions, list items, quotes, table rows, and tables n columns wide.
fn icount_line_families() -> Vec<Family> {
    let f = |shape: &'static str, frag: &str, close: &str| Family { shape, frag: frag.as_bytes().to_vec(), close: close.as_bytes().to_vec(), curated: true };
    let mut v = vec![];
    for l in ["# a", "## a b", "a\n===", "[a]: /u", "[a]: /u\n[a]", "- a", "1. a", "> a", "|a|b|", "<div>", "a  ", ": a", "[^a]: x", "- [ ] a", "a\n\n# a"] {
        v.push(f("lines", l, ""));
    }
    // n distinct labels / names / headings (a lookup that is linear in the number of distinct keys shows only here)
    for l in ["x[^\u{1}]\n\n[^\u{1}]: n\n\n", "[r\u{1}]: /u\n\n[r\u{1}]\n\n", "# h\u{1}\n\n", "t\u{1}\n\n: d\n\n", "[[w\u{1}]] ", "[^\u{1}] ", ":s\u{1}: "] {
        v.push(f("numbered", l, ""));
    }
    // an autolink running into a tail that alternates closing brackets with trimmed punctuation
    for (pre, suf) in [("www.a.b/p", "\n"), ("http://a.b/p", " x\n"), ("a@b.c", "\n")] {
        let mut close = pre.as_bytes().to_vec();
        close.push(1);
        close.extend_from_slice(suf.as_bytes());
        for pl in [":)", ").", ")]", ")*", ")?)"] {
            v.push(Family { shape: "wrap", frag: pl.as_bytes().to_vec(), close: close.clone(), curated: true });
        }
    }
    v.push(f("rows", "|a", "|-"));
    v.push(f("rows", "|a ", "|:-:"));
    // n unterminated openers and a tail that is a proper prefix of the closer: the scanners' work is not seen by the
    // step counters, only by the instruction counts
    for (pl, suf) in [("<?x ", "x?\n"), ("<!--x ", "x--\n"), ("<![CDATA[x ", "x]]\n")] {
        let mut close = b"a ".to_vec();
        close.push(1);
        close.extend_from_slice(suf.as_bytes());
        v.push(Family { shape: "wrap", frag: pl.as_bytes().to_vec(), close, curated: true });
    }
    v
}

fn valgrind_ok() -> bool {
    std::process::Command::new("valgrind").arg("--version").stdout(std::process::Stdio::null()).stderr(std::process::Stdio::null()).status().map(|s| s.success()).unwrap_or(false)
}

/// Instructions executed by one worker process handling one case (cachegrind, no cache simulation: a
/// deterministic count that includes work no step counter sees - copying, memmove, hashing, formatting).
fn icount(case: &str, budget: Duration) -> Option<u64> {
    use std::io::Write;
    let exe = if std::path::Path::new("/proc/self/exe").exists() { std::fs::read_link("/proc/self/exe").ok()? } else { std::env::current_exe().ok()? };
    let mut ch = std::process::Command::new("valgrind")
        .args(["--tool=cachegrind", "--cache-sim=no", "--cachegrind-out-file=/dev/null", "--log-fd=2"])
        .arg(exe)
        .args(["worker", "C06"])
        .env("CVH_MEM_CAP_MB", "8192")
        .stdin(std::process::Stdio::piped())
        .stdout(std::process::Stdio::piped())
        .stderr(std::process::Stdio::piped())
        .spawn()
        .ok()?;
    {
        let mut si = ch.stdin.take()?;
        let _ = si.write_all(case.as_bytes());
        let _ = si.write_all(b"\n");
    }
    let t0 = std::time::Instant::now();
    loop {
        match ch.try_wait() {
            Ok(Some(_)) => break,
            Ok(None) => {
                if t0.elapsed() > budget {
                    let _ = ch.kill();
                    let _ = ch.wait();
                    return None;
                }
                std::thread::sleep(Duration::from_millis(20));
            }
            Err(_) => return None,
        }
    }
    let out = ch.wait_with_output().ok()?;
    if !String::from_utf8_lossy(&out.stdout).starts_with("ok ") {
        return None;
    }
    let err = String::from_utf8_lossy(&out.stderr);
    for l in err.lines() {
        if let Some(i) = l.find("I   refs:") {
            let n: String = l[i + 9..].chars().filter(|c| c.is_ascii_digit()).collect();
            return n.parse().ok();
        }
    }
    None
}

fn judge_icount(rep: &mut Report, optname: &str, fam: &Family, n1: usize, n2: usize, i0: u64, i1: Option<u64>, i2: Option<u64>) -> Option<f64> {
    rep.s_evals += 2;
    let (a, b) = match (i1, i2) {
        (Some(a), Some(b)) => (a.saturating_sub(i0).max(1), b.saturating_sub(i0).max(1)),
        _ => {
            rep.count("icount-unmeasured(panic, crash or time-out: C01 / step-counter stage)");
            return None;
        }
    };
    let (s1, s2) = (expand_len(&fam.spec(n1)), expand_len(&fam.spec(n2)));
    let sl = ((b as f64) / (a as f64)).ln() / ((s2.max(1) as f64) / (s1.max(1) as f64)).ln();
    let bucket = if sl < 0.9 { "<0.9" } else if sl <= 1.05 { "0.9-1.05" } else if sl <= 1.25 { "1.05-1.25" } else if sl <= 1.6 { "1.25-1.6" } else { ">1.6" };
    rep.count(&format!("icount-slope-{}", bucket));
    rep.nontrivial(&("icount", fam.name(), optname));
    if sl > ISLOPE_LIMIT && b > 5_000_000 {
        // a named mechanism class if there is one, else the family itself (instruction counts see every helper,
        // so the class of a finding must not be wider than the family that shows it)
        // (the named classes are about nesting / repetition of one fragment: a numbered family is judged on its own)
        let named = if fam.shape == "numbered" { format!("{}/{}", optname, fam.shape) } else { family_sig(optname, fam, "steps-superlinear") };
        let sig = if named == format!("{}/{}", optname, fam.shape) { format!("{}/{}/{}/{}", optname, fam.shape, hex(&fam.frag), hex(&fam.close)) } else { named };
        let input = format!("ipair {} {} {} {} {} {}", optname, fam.shape, hex(&fam.frag), hex(&fam.close), n1, n2);
        rep.fail(
            "instructions-superlinear",
            &sig,
            input,
            format!("instructions (above the empty-document run) {} -> {} for input {} -> {} bytes (slope {:.2} > {:.2}); family {} {:?}/{:?} options {}", a, b, s1, s2, sl, ISLOPE_LIMIT, fam.shape, show(&fam.frag), show(&fam.close), optname),
        );
    }
    Some(sl)
}

fn expand_len(spec: &str) -> u64 {
    expand_spec(spec).map(|b| b.len() as u64).unwrap_or(0)
}

/// Slope limit for instruction counts: generous (hash-map growth, allocator behaviour and buffer doubling
/// add a few percent), far below the 2.0 of a quadratic helper.
pub const ISLOPE_LIMIT: f64 = 1.40;

/// Two phases: every family at (n1, n2); the families whose slope is above 1.12 without failing are
/// measured again at four times the size (a quadratic term that is still small next to the linear part at
/// the first sizes dominates there).
fn run_icount(rep: &mut Report, fams: &[Family], optnames: &[&'static str], n1: usize, n2: usize) {
    let suspects = run_icount_pass(rep, fams, optnames, n1, n2);
    if !suspects.is_empty() {
        rep.add("icount-suspects-remeasured", suspects.len() as u64);
        run_icount_pass(rep, &suspects, optnames, n1 * 4, n2 * 4);
    }
}

fn run_icount_pass(rep: &mut Report, fams: &[Family], optnames: &[&'static str], n1: usize, n2: usize) -> Vec<Family> {
    if !valgrind_ok() {
        rep.notes.push("instruction-count stage skipped: valgrind not runnable".into());
        return vec![];
    }
    let t0 = std::time::Instant::now();
    let budget = Duration::from_secs(120);
    let mut cases: Vec<(usize, &'static str, usize)> = vec![];
    for (i, _f) in fams.iter().enumerate() {
        for o in optnames {
            cases.push((i, o, n1));
            cases.push((i, o, n2));
        }
    }
    let next = std::sync::atomic::AtomicUsize::new(0);
    let results: std::sync::Mutex<Vec<Option<u64>>> = std::sync::Mutex::new(vec![None; cases.len()]);
    let mut base: std::collections::HashMap<&'static str, u64> = std::collections::HashMap::new();
    for o in optnames {
        base.insert(o, icount(&format!("fam {} 0a", o), budget).unwrap_or(0));
    }
    std::thread::scope(|sc| {
        for _ in 0..default_workers() {
            sc.spawn(|| loop {
                let k = next.fetch_add(1, std::sync::atomic::Ordering::SeqCst);
                if k >= cases.len() {
                    break;
                }
                let (i, o, n) = cases[k];
                let r = icount(&format!("fam {} {}", o, fams[i].spec(n)), budget);
                results.lock().unwrap()[k] = r;
            });
        }
    });
    let results = results.into_inner().unwrap();
    let mut suspects: Vec<Family> = vec![];
    for k in (0..cases.len()).step_by(2) {
        let (i, o, _) = cases[k];
        rep.count(&format!("icount-families-{}", fams[i].shape));
        if let Some(sl) = judge_icount(rep, o, &fams[i], n1, n2, *base.get(o).unwrap_or(&0), results[k], results[k + 1]) {
            // not already reported (a slope above the limit on a count below the reporting threshold is a suspect too)
            let reported = rep.s_fail.iter().any(|c| c.kind == "instructions-superlinear" && c.input.contains(&format!(" {} {} {} ", fams[i].shape, hex(&fams[i].frag), hex(&fams[i].close))));
            if sl > 1.12 && !reported && !suspects.iter().any(|f: &Family| f.name() == fams[i].name()) {
                suspects.push(fams[i].clone());
            }
        }
    }
    rep.notes.push(format!("instruction counts: {} valgrind runs (n = {} and {}) in {:.1}s; empty-document baselines {:?}", cases.len(), n1, n2, t0.elapsed().as_secs_f64(), base));
    suspects
}

// ------------------------------------------------------------------ K

fn real_steps(text: &str, o: &Opts, counter: usize) -> Option<u64> {
    let o = o.to_comrak();
    catch_unwind(AssertUnwindSafe(|| {
        comrak::verif::reset();
        let arena = Arena::new();
        let _ = parse_document(&arena, text, &o);
        comrak::verif::steps()[counter]
    }))
    .ok()
}

fn real_backtick_steps(text: &str) -> Option<u64> {
    real_steps(text, &Opts::default(), 3)
}

/// K for the dollar scanners: the real `dollar-scan` counter (index 4) of a one-paragraph text 'a' + w, w over
/// letters, digits, spaces, `$`, backtick and backslash, with `math_code` = mc and `math_dollars` = md ==
/// the Lean byte-level model `dlSteps mc md` of the code as it is since /repo commits 657287d and b4925f3
/// (`no_code_dollar_closer`, `no_dollar_closer_before[len]`); the proved bounds (`dollar_linear`,
/// `math_dollar_linear`) are re-checked on every text.
fn k_cd<'a>(bt: &mut Batch<'a>, rep: &mut Report, body: Vec<u8>, mc: bool, md: bool) {
    let mut text = b"a".to_vec();
    text.extend_from_slice(&body);
    let s = String::from_utf8(text.clone()).unwrap();
    let real = match real_steps(&s, &Opts::default().with("math_code", mc).with("math_dollars", md), 4) {
        Some(x) => x,
        None => {
            rep.count("k-skipped-panic");
            return;
        }
    };
    if body.contains(&b'$') {
        rep.nontrivial(&(body.clone(), mc, md));
    }
    let inp = format!("cd {} {} {}", hex(&text), mc as u8, md as u8);
    bt.push(format!("c06dl {} {} {}", mc as u8, md as u8, hex(&text)), move |resp, rep| {
        rep.k_evals += 1;
        // answer: <dlSteps (code as it is)> <dlStepsOld (before 657287d)> <executed scans> <steps of rejected `$` scans> <length> <abstraction ok>
        let f: Vec<&str> = resp.split(' ').collect();
        let get = |i: usize| f.get(i).and_then(|x| x.parse::<u64>().ok());
        let (model, old, rej, len, abs) = match (get(0), get(1), get(3), get(4), get(5)) {
            (Some(a), Some(b), Some(c), Some(d), Some(e)) => (a, b, c, d, e),
            _ => {
                rep.disagree("dollar-steps-model", inp, format!("malformed model answer {:?}", resp));
                return;
            }
        };
        if model != real {
            rep.disagree("dollar-steps-model", inp, format!("real dollar-scan steps = {} model dlSteps = {} (before the repair: {})", real, model, old));
            return;
        }
        if model != old {
            rep.count("k-dollar-code-differs-from-scanner-before-repair");
        }
        if rej > 0 {
            rep.count("k-dollar-texts-with-a-rejected-scan");
        }
        // dollar_linear (math_dollars off): <= 3 len; math_dollar_linear: <= 5 len
        let bound = if md { 5 * len } else { 3 * len };
        if real > bound {
            rep.disagree("dollar-steps-bound", inp.clone(), format!("real dollar-scan steps {} exceed the proved bound {}", real, bound));
        }
        if abs == 0 {
            rep.disagree("dollar-steps-abstraction", inp, "cdStepsOld(pieces) differs from the memo-less byte-level model although every old scan runs to the end".to_string());
        }
    });
}

/// K for `process_emphasis`: the real `emphasis-opener-search` counter (index 5) of a one-paragraph text
/// 'a' + w, w over letters, spaces, `*`, `_` and - with `tilde`, i.e. strikethrough on - `~`, == the Lean model
/// `emSteps true` (the code as it is since /repo commits 9704a60 and e31def4: 42 slots, the bottom raised after
/// every failed search; `~` with its insert_emph exit) run on the delimiter list of the text.
fn k_em<'a>(bt: &mut Batch<'a>, rep: &mut Report, body: Vec<u8>, tilde: bool) {
    let mut text = b"a".to_vec();
    text.extend_from_slice(&body);
    let s = String::from_utf8(text.clone()).unwrap();
    let real = match real_steps(&s, &Opts::default().with("strikethrough", tilde), 5) {
        Some(x) => x,
        None => {
            rep.count("k-skipped-panic");
            return;
        }
    };
    if body.iter().any(|c| *c == b'*' || *c == b'_' || *c == b'~') {
        rep.nontrivial(&(body.clone(), tilde));
    }
    let inp = format!("em {} {}", hex(&text), tilde as u8);
    bt.push(format!("c06em {} {}", tilde as u8, hex(&text)), move |resp, rep| {
        rep.k_evals += 1;
        // answer: <steps of the code as it is (emSteps true)> <steps of the loop before /repo commit 9704a60 (emSteps false)>
        //         <delimiters> <delimiter characters> <no odd match>
        let f: Vec<&str> = resp.split(' ').collect();
        let get = |i: usize| f.get(i).and_then(|x| x.parse::<u64>().ok());
        let (cur, old, n, chars) = match (get(0), get(1), get(2), get(3)) {
            (Some(a), Some(b), Some(c), Some(d)) => (a, b, c, d),
            _ => {
                rep.disagree("emphasis-steps-model", inp, format!("model answer {:?} (fuel exhausted or malformed)", resp));
                return;
            }
        };
        if cur != real {
            rep.disagree("emphasis-steps-model", inp, format!("real emphasis-opener-search steps = {} model emSteps true = {} (loop before the repair: {})", real, cur, old));
            return;
        }
        if cur != old {
            rep.count("k-emphasis-code-differs-from-loop-before-repair");
        }
        // emphasis_linear: proved for the code as it is on every text whose delimiters are `*` and `_` runs (all texts here)
        if real > 44 * n + chars {
            rep.disagree("emphasis-steps-bound", inp.clone(), format!("real steps {} exceed the proved bound 44 n + chars = {}", real, 44 * n + chars));
        }
        // emphasis_linear_old_noodd: the loop before the repair obeys the same bound on texts without an odd match
        let noodd = get(4) == Some(1);
        if noodd && old > 44 * n + chars {
            rep.disagree("emphasis-steps-bound", inp, format!("no odd match in the text, yet the old-loop model steps {} exceed the proved bound {}", old, 44 * n + chars));
        }
        if !noodd {
            rep.count("k-emphasis-texts-with-an-odd-match");
        }
        if old > 44 * n + chars {
            rep.count("k-emphasis-old-loop-above-linear-bound(rule-of-three)");
        }
    });
}

fn k_bt<'a>(bt: &mut Batch<'a>, rep: &mut Report, body: Vec<u8>) {
    // one paragraph: starts with a letter (no fence, no list), no newline, no other special byte
    let mut text = b"a".to_vec();
    text.extend_from_slice(&body);
    let s = String::from_utf8(text.clone()).unwrap();
    let real = match real_backtick_steps(&s) {
        Some(x) => x,
        None => {
            rep.count("k-skipped-panic");
            return;
        }
    };
    if body.contains(&b'`') {
        rep.nontrivial(&body);
    }
    let inp = format!("bt {}", hex(&text));
    bt.push(format!("c06bt {}", hex(&text)), move |resp, rep| {
        rep.k_evals += 1;
        // answer: <btStepsPos (positional memo, as implemented)> <btSteps (specification-level memo)> <n>
        let model: u64 = resp.split(' ').next().and_then(|x| x.parse().ok()).unwrap_or(u64::MAX);
        let spec: u64 = resp.split(' ').nth(1).and_then(|x| x.parse().ok()).unwrap_or(0);
        if spec != model {
            rep.count("k-positional-memo-differs-from-specification-memo");
        }
        if model != real {
            rep.disagree("backtick-steps-model", inp, format!("real backtick-scan steps = {} model btSteps = {}", real, model));
        }
        let n = resp.split(' ').nth(2).and_then(|x| x.parse::<u64>().ok()).unwrap_or(0);
        if real > 3 * n {
            rep.disagree("backtick-steps-bound", String::new(), format!("real steps {} exceed the proved bound 3n = {}", real, 3 * n));
        }
    });
}

fn k_stage(cfg: &Cfg, rep: &mut Report) {
    let m = Model::from_env();
    let mut r = Rng::new(cfg.seed ^ 0xC06_4B);
    let mut bt = Batch::new();
    let maxlen = if cfg.tier_thorough { 14 } else { 11 };
    let mut n_exh = 0;
    for len in 0..=maxlen {
        for mask in 0u32..(1u32 << len) {
            let body: Vec<u8> = (0..len).map(|i| if mask >> i & 1 == 1 { b'`' } else { b'a' }).collect();
            k_bt(&mut bt, rep, body);
            n_exh += 1;
        }
    }
    rep.exhaustive = true;
    rep.exhaustive_what.push(format!("backtick scanner: all {} texts 'a'+w, w over {{a,`}} of length <= {}", n_exh, maxlen));
    let n = if cfg.tier_thorough { 60_000 } else { 8_000 };
    for i in 0..n {
        // runs of varied lengths incl. > MAXBACKTICKS (80), repeated and unique lengths
        let k = r.range(1, 40);
        let mut body = vec![];
        for _ in 0..k {
            let run = match r.below(10) {
                0 => r.range(78, 84),
                1 => r.range(1, 200),
                _ => r.range(1, 6),
            };
            body.extend(std::iter::repeat(b'`').take(run));
            let gap = r.range(1, 4);
            body.extend(std::iter::repeat(b'a').take(gap));
        }
        if r.chance(1, 2) {
            while body.last() == Some(&b'a') {
                body.pop();
            }
        }
        if i < 3 {
            rep.sample(format!("backtick text {:?}", show(&body)));
        }
        k_bt(&mut bt, rep, body);
    }
    // ---- dollar scanners
    let maxlen = if cfg.tier_thorough { 9 } else { 8 };
    let mut n_exh = 0;
    const CD: &[u8] = b"$`a\\";
    for len in 0..=maxlen {
        for code in 0u32..(1u32 << (2 * len)) {
            let body: Vec<u8> = (0..len).map(|i| CD[(code >> (2 * i) & 3) as usize]).collect();
            k_cd(&mut bt, rep, body, true, false);
            n_exh += 1;
        }
    }
    rep.exhaustive_what.push(format!("code-dollar scanner (math_code): all {} texts 'a'+w, w over {{$,`,a,\\}} of length <= {}", n_exh, maxlen));
    let maxlen = if cfg.tier_thorough { 7 } else { 6 };
    let mut n_exh = 0;
    const MD: &[u8] = b"$`a\\ 1";
    for len in 0..=maxlen {
        for code in 0u32..6u32.pow(len as u32) {
            let mut c = code;
            let body: Vec<u8> = (0..len).map(|_| { let x = MD[(c % 6) as usize]; c /= 6; x }).collect();
            k_cd(&mut bt, rep, body.clone(), false, true);
            k_cd(&mut bt, rep, body, true, true);
            n_exh += 2;
        }
    }
    rep.exhaustive_what.push(format!("math-dollar scanner (math_dollars, with and without math_code): all {} texts 'a'+w, w over {{$,`,a,\\,space,1}} of length <= {}", n_exh, maxlen));
    let n = if cfg.tier_thorough { 60_000 } else { 8_000 };
    for i in 0..n {
        let k = r.range(1, 50);
        let mut body = vec![];
        let closers = r.chance(1, 2);
        let (mc, md) = match r.below(3) { 0 => (true, false), 1 => (false, true), _ => (true, true) };
        for _ in 0..k {
            match r.below(12) {
                0 | 1 | 2 => body.extend_from_slice(b"$`"),
                3 | 4 => body.extend(std::iter::repeat(b'$').take(r.range(1, 3))),
                5 => body.extend(std::iter::repeat(b'`').take(r.range(1, 3))),
                6 => body.push(b'\\'),
                7 if closers => body.extend_from_slice(b"`$"),
                8 if md => body.push(b' '),
                9 if md => body.push(b'1'),
                10 if md => body.extend_from_slice(b"\\\\$"),
                _ => body.extend(std::iter::repeat(b'a').take(r.range(1, 3))),
            }
            if !closers && body.last() == Some(&b'`') {
                // no "`$" anywhere: every executed code-dollar opener runs to the end
                body.push(b'a');
            }
        }
        if i < 3 {
            rep.sample(format!("dollar text (math_code {}, math_dollars {}) {:?}", mc, md, show(&body)));
        }
        k_cd(&mut bt, rep, body, mc, md);
    }
    // the families of the (former) known findings at small sizes, and the space-rule family that no flag covers
    for k in 1..=40usize {
        k_cd(&mut bt, rep, b"$`a".repeat(k), true, false);
        k_cd(&mut bt, rep, b"$\\\\".repeat(k), false, true);
        k_cd(&mut bt, rep, b"$\\\\".repeat(k), true, true);
        // scans ended by the space rule / the digit rule (no memo for them before /repo commit b4925f3)
        for tail in [&b" $"[..], &b"$1"[..], &b" $$ $1"[..]] {
            let mut t = b"$\\\\".repeat(k);
            t.extend_from_slice(tail);
            k_cd(&mut bt, rep, t.clone(), false, true);
            k_cd(&mut bt, rep, t, true, true);
        }
    }
    // ---- process_emphasis
    let maxlen = if cfg.tier_thorough { 9 } else { 8 };
    let mut n_exh = 0;
    const EM: &[u8] = b"*_a ";
    for len in 0..=maxlen {
        for code in 0u32..(1u32 << (2 * len)) {
            let body: Vec<u8> = (0..len).map(|i| EM[(code >> (2 * i) & 3) as usize]).collect();
            k_em(&mut bt, rep, body, false);
            n_exh += 1;
        }
    }
    rep.exhaustive_what.push(format!("process_emphasis: all {} texts 'a'+w, w over {{*,_,a,space}} of length <= {}", n_exh, maxlen));
    // with strikethrough on: `~` is a delimiter (and a skip character of scan_delims)
    let maxlen = if cfg.tier_thorough { 8 } else { 7 };
    let mut n_exh = 0;
    const EMT: &[u8] = b"*_~a ";
    for len in 0..=maxlen {
        for code in 0u32..5u32.pow(len as u32) {
            let mut c = code;
            let body: Vec<u8> = (0..len).map(|_| { let x = EMT[(c % 5) as usize]; c /= 5; x }).collect();
            if body.contains(&b'~') {
                k_em(&mut bt, rep, body, true);
                n_exh += 1;
            }
        }
    }
    rep.exhaustive_what.push(format!("process_emphasis with strikethrough: all {} texts 'a'+w containing ~, w over {{*,_,~,a,space}} of length <= {}", n_exh, maxlen));
    let n = if cfg.tier_thorough { 60_000 } else { 8_000 };
    for i in 0..n {
        // many delimiter runs of lengths 1..7 in all flanking situations
        let k = r.range(1, 60);
        let mut body = vec![];
        let one = r.chance(1, 3);
        let with_tilde = r.chance(1, 3);
        for _ in 0..k {
            match r.below(8) {
                0 | 1 => body.push(b'a'),
                2 => body.push(b' '),
                3 => body.extend_from_slice(b"a "),
                _ => {
                    let c = if with_tilde && r.chance(1, 2) { b'~' } else if one || r.chance(2, 3) { b'*' } else { b'_' };
                    let run = match r.below(6) {
                        0 => r.range(3, 7),
                        1 | 2 => 2,
                        _ => 1,
                    };
                    body.extend(std::iter::repeat(c).take(run));
                }
            }
        }
        if i < 3 {
            rep.sample(format!("emphasis text {:?}", show(&body)));
        }
        let tilde = body.contains(&b'~');
        k_em(&mut bt, rep, body, tilde);
    }
    // the rule-of-three family of the known finding, small sizes (model == code on it; the growth is in S)
    for k in 1..=40usize {
        k_em(&mut bt, rep, b" *a **b".repeat(k)[1..].to_vec(), false);
        k_em(&mut bt, rep, b"**b*a ".repeat(k), false);
        k_em(&mut bt, rep, b"__b_a ".repeat(k), false);
        k_em(&mut bt, rep, b"~~b~a ".repeat(k), true);
        k_em(&mut bt, rep, b"~b*a ".repeat(k), true);
    }
    bt.run(&m, rep);
}

pub fn replay(kind: &str, input: &str) -> Result<Option<String>, String> {
    let toks: Vec<&str> = input.split(' ').collect();
    let mut rep = Report::new("C06");
    match toks.first() {
        Some(&"pair") if toks.len() >= 7 => {
            let optname: &'static str = OPTSETS.iter().chain(["all+smart", "all+ids"].iter()).find(|o| **o == toks[1]).copied().ok_or("bad option set")?;
            let shape: &'static str = ["rep", "repraw", "headrep", "nest", "lines", "paras", "tree", "wrap", "rows", "numbered"].iter().find(|s| **s == toks[2]).copied().ok_or("bad shape")?;
            let fam = Family { shape, frag: crate::util::unhex(toks[3]).ok_or("bad hex")?, close: crate::util::unhex(toks[4]).ok_or("bad hex")?, curated: true };
            let n1: usize = toks[5].parse().map_err(|_| "bad n")?;
            let n2: usize = toks[6].parse().map_err(|_| "bad n")?;
            let fams = vec![fam];
            let jobs = vec![Job { fam: 0, optname, n: n1 }, Job { fam: 0, optname, n: n2 }];
            let res = measure(&jobs, &fams, Duration::from_secs(120));
            judge_pair(&mut rep, optname, &fams[0], n1, n2, &res[0], &res[1]);
        }
        Some(&"ipair") if toks.len() >= 7 => {
            let optname: &'static str = OPTSETS.iter().chain(["all+smart", "all+ids"].iter()).find(|o| **o == toks[1]).copied().ok_or("bad option set")?;
            let shape: &'static str = ["rep", "repraw", "headrep", "nest", "lines", "paras", "tree", "wrap", "rows", "numbered"].iter().find(|s| **s == toks[2]).copied().ok_or("bad shape")?;
            let fam = Family { shape, frag: crate::util::unhex(toks[3]).ok_or("bad hex")?, close: crate::util::unhex(toks[4]).ok_or("bad hex")?, curated: true };
            let n1: usize = toks[5].parse().map_err(|_| "bad n")?;
            let n2: usize = toks[6].parse().map_err(|_| "bad n")?;
            run_icount(&mut rep, &[fam], &[optname], n1, n2);
        }
        Some(&"bt") if toks.len() >= 2 => {
            let m = Model::from_env();
            let mut bt = Batch::new();
            let t = crate::util::unhex(toks[1]).ok_or("bad hex")?;
            k_bt(&mut bt, &mut rep, t[1.min(t.len())..].to_vec());
            bt.run(&m, &mut rep);
        }
        Some(&"cd") if toks.len() >= 2 => {
            let m = Model::from_env();
            let mut bt = Batch::new();
            let t = crate::util::unhex(toks[1]).ok_or("bad hex")?;
            let mc = toks.get(2).map_or(true, |x| *x == "1");
            let md = toks.get(3).map_or(false, |x| *x == "1");
            k_cd(&mut bt, &mut rep, t[1.min(t.len())..].to_vec(), mc, md);
            bt.run(&m, &mut rep);
        }
        Some(&"em") if toks.len() >= 2 => {
            let m = Model::from_env();
            let mut bt = Batch::new();
            let t = crate::util::unhex(toks[1]).ok_or("bad hex")?;
            let tilde = toks.get(2).map_or(false, |x| *x == "1");
            k_em(&mut bt, &mut rep, t[1.min(t.len())..].to_vec(), tilde);
            bt.run(&m, &mut rep);
        }
        Some(&"cap") if toks.len() >= 2 => {
            let which: &'static str = ["table", "nesting", "references"].iter().find(|w| **w == toks[1]).copied().ok_or("bad cap")?;
            run_caps(&mut rep, Some(which));
        }
        _ => return Err("bad replay input (want: pair <optset> <shape> <hex frag> <hex close> <n1> <n2> | bt <hex> | em <hex> | cd <hex>)".into()),
    }
    for c in rep.s_fail.iter().chain(rep.k_disagree.iter()) {
        if kind.is_empty() || c.kind == kind {
            return Ok(Some(format!("{} [{}]: {}", c.kind, c.sig, c.detail)));
        }
    }
    Ok(None)
}
