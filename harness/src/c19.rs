//! C19: escape / escape_href / write_opening_tag against the Lean model and its oracles.
use crate::model::{Batch, Model};
use crate::report::Report;
use crate::rng::Rng;
use crate::util::{hex, show, unhex};
use crate::Cfg;
use comrak::html::{escape, escape_href, write_opening_tag};
use std::panic::{catch_unwind, AssertUnwindSafe};

fn real_escape(b: &[u8]) -> Result<Vec<u8>, String> {
    catch_unwind(AssertUnwindSafe(|| {
        let mut o = Vec::new();
        escape(&mut o, b).unwrap();
        o
    }))
    .map_err(|_| "PANIC".to_string())
}
fn real_href(b: &[u8]) -> Result<Vec<u8>, String> {
    catch_unwind(AssertUnwindSafe(|| {
        let mut o = Vec::new();
        escape_href(&mut o, b).unwrap();
        o
    }))
    .map_err(|_| "PANIC".to_string())
}
fn real_otag(tag: &str, attrs: &[(String, String)]) -> Result<Vec<u8>, String> {
    catch_unwind(AssertUnwindSafe(|| {
        let mut o = Vec::new();
        write_opening_tag(&mut o, tag, attrs.iter().map(|(k, v)| (k.as_str(), v.as_str()))).unwrap();
        o
    }))
    .map_err(|_| "PANIC".to_string())
}

fn has_pct_triple(b: &[u8]) -> bool {
    b.windows(3).any(|w| w[0] == b'%' && w[1].is_ascii_hexdigit() && w[2].is_ascii_hexdigit())
}

const HOT: &[u8] = b"&<>\"'%;#x27amplgtquo \n\t\\/:?=";

/// Entity- and escape-shaped fragments: outputs of the escapers themselves, their prefixes and
/// neighbours. An escaper that looks ahead (instead of acting byte by byte) shows on these.
const FRAGS: &[&str] = &[
    "&amp;", "&quot;", "&lt;", "&gt;", "&#x27;", "&#39;", "&apos;", "&", "amp;", "&am", "p;", ";", "#", "#x27;", "x27", "%", "%2",
    "%25", "%41", "%zz", "'", "\"", "<", ">", "a", " ", "\u{e9}", "&&", "&#", "&a", "&amp", "&amp;amp;", "lt;", "gt;", "quot;",
    // URL-shaped openings (a prefix handled ahead of the per-byte loop shows at a cut inside it)
    "http://[::1]/x", "https://[2001:db8::1]:8080/a b", "http://[", "://[", "[::1]", "]", "[", "//", "http://a.b/c?d=e&f=g#h", "mailto:a@b.c", "javascript:",
];

fn gen_frags(r: &mut Rng, maxn: usize) -> Vec<u8> {
    let n = r.range(1, maxn);
    let mut s = String::new();
    for _ in 0..n {
        s.push_str(r.ps(FRAGS));
    }
    s.into_bytes()
}

fn gen_bytes(r: &mut Rng, maxlen: usize) -> Vec<u8> {
    let n = r.range(0, maxlen);
    let mode = r.below(4);
    (0..n)
        .map(|_| match mode {
            0 => r.byte(),
            1 => *r.pick(HOT),
            2 => {
                if r.chance(1, 2) {
                    *r.pick(HOT)
                } else {
                    r.byte()
                }
            }
            _ => {
                if r.chance(1, 3) {
                    *r.pick(b"&<>\"'")
                } else {
                    r.range(0x20, 0x7e) as u8
                }
            }
        })
        .collect()
}

fn gen_str(r: &mut Rng, maxlen: usize) -> String {
    // valid UTF-8 (write_opening_tag takes &str)
    let n = r.range(0, maxlen);
    let mut s = String::new();
    for _ in 0..n {
        match r.below(6) {
            0 => s.push(*r.pick(&['&', '<', '>', '"', '\''])),
            1 => s.push(*r.pick(&['é', '世', '\u{0}', '\u{7f}', '𝄞', '\n'])),
            _ => s.push(r.range(0x20, 0x7e) as u8 as char),
        }
    }
    s
}

fn gen_name(r: &mut Rng) -> String {
    let n = r.range(1, 8);
    (0..n).map(|_| *r.pick(b"abcdefghijklmnopqrstuvwxyzABCXYZ0123456789-_:") as char).collect()
}

/// All checks on one input byte string (K: bytes equal; S: oracles on the real output).
fn push_bytes_case<'a>(bt: &mut Batch<'a>, rep: &mut Report, a: Vec<u8>) {
    let ha = hex(&a);
    match real_escape(&a) {
        Err(p) => rep.fail("escape-total", "panic", format!("esc {}", ha), p),
        Ok(out) => {
            let (h1, h2, h3) = (ha.clone(), ha.clone(), ha.clone());
            let (o1, o2, o3) = (out.clone(), out.clone(), out);
            bt.push(format!("esc {}", ha), move |resp, rep| {
                rep.k_evals += 1;
                if resp != hex(&o1) {
                    rep.disagree("escape-bytes", format!("esc {}", h1), format!("real={} model={}", hex(&o1), resp));
                }
            });
            bt.push(format!("noact {}", hex(&o2)), move |resp, rep| {
                rep.s_evals += 1;
                if resp != "1" {
                    rep.fail("escape-no-active-char", "text", format!("esc {}", h2), format!("output {} has an active character", show(&o2)));
                }
            });
            bt.push(format!("unesc {}", hex(&o3)), move |resp, rep| {
                rep.s_evals += 1;
                if resp != format!("some {}", h3) {
                    rep.fail("escape-roundtrip", "text", format!("esc {}", h3), format!("decode(escape(x)) = {} for x = {}", resp, h3));
                }
            });
        }
    }
    match real_href(&a) {
        Err(p) => rep.fail("href-total", "panic", format!("href {}", ha), p),
        Ok(out) => {
            let (h1, h2, h3) = (ha.clone(), ha.clone(), ha.clone());
            let (o1, o2, o3) = (out.clone(), out.clone(), out);
            let pct = has_pct_triple(&a);
            bt.push(format!("href {}", ha), move |resp, rep| {
                rep.k_evals += 1;
                if resp != hex(&o1) {
                    rep.disagree("href-bytes", format!("href {}", h1), format!("real={} model={}", hex(&o1), resp));
                }
            });
            bt.push(format!("hrefalpha {}", hex(&o2)), move |resp, rep| {
                rep.s_evals += 1;
                if resp != "1" {
                    rep.fail("href-alphabet", "href", format!("href {}", h2), format!("output {} leaves the URL-safe alphabet", show(&o2)));
                }
            });
            bt.push(format!("hrefdec {}", hex(&o3)), move |resp, rep| {
                rep.s_evals += 1;
                if resp != h3 {
                    let sig = if pct { "input-has-literal-%XX" } else { "other" };
                    rep.fail("href-roundtrip", sig, format!("href {}", h3), format!("decode(escape_href(x)) = {} for x = {}", resp, h3));
                }
            });
        }
    }
}

fn push_concat_case(rep: &mut Report, a: &[u8], b: &[u8]) {
    // homomorphism on the real code (relational oracle, evaluated here)
    let mut ab = a.to_vec();
    ab.extend_from_slice(b);
    rep.s_evals += 2;
    if let (Ok(x), Ok(y), Ok(z)) = (real_escape(a), real_escape(b), real_escape(&ab)) {
        let mut xy = x;
        xy.extend_from_slice(&y);
        if xy != z {
            rep.fail("escape-homomorphism", "text", format!("cat {} {}", hex(a), hex(b)), "escape(a++b) != escape(a)++escape(b)".into());
        }
    }
    if let (Ok(x), Ok(y), Ok(z)) = (real_href(a), real_href(b), real_href(&ab)) {
        let mut xy = x;
        xy.extend_from_slice(&y);
        if xy != z {
            rep.fail("href-homomorphism", "href", format!("cat {} {}", hex(a), hex(b)), "escape_href(a++b) != escape_href(a)++escape_href(b)".into());
        }
    }
}

fn push_tag_case<'a>(bt: &mut Batch<'a>, rep: &mut Report, tag: String, attrs: Vec<(String, String)>) {
    let mut input = format!("otag {}", hex(tag.as_bytes()));
    for (k, v) in &attrs {
        input.push_str(&format!(" {} {}", hex(k.as_bytes()), hex(v.as_bytes())));
    }
    match real_otag(&tag, &attrs) {
        Err(p) => rep.fail("opening-tag-total", "panic", input, p),
        Ok(out) => {
            let (i1, i2) = (input.clone(), input.clone());
            let (o1, o2) = (out.clone(), out);
            bt.push(input.clone(), move |resp, rep| {
                rep.k_evals += 1;
                if resp != hex(&o1) {
                    rep.disagree("opening-tag-bytes", i1, format!("real={} model={}", hex(&o1), resp));
                }
            });
            let mut want = format!("some {}", hex(tag.as_bytes()));
            for (k, v) in &attrs {
                want.push_str(&format!(" {} {}", hex(k.as_bytes()), hex(v.as_bytes())));
            }
            bt.push(format!("pstag {}", hex(&o2)), move |resp, rep| {
                rep.s_evals += 1;
                if resp != want {
                    rep.fail("opening-tag-complete", "tag", i2, format!("output {} does not parse back as one start tag with the given attributes: {}", show(&o2), resp));
                }
            });
        }
    }
}

pub fn run(cfg: &Cfg, rep: &mut Report) {
    let m = Model::from_env();
    let mut rng = Rng::new(cfg.seed ^ 0xC19);
    rep.rule = "exhaustive: every byte string of length <= 2 through escape and escape_href; random: strings up to 64 bytes biased to the escaped characters, attribute lists through write_opening_tag. distinct_nontrivial counts distinct inputs whose output differs from the input (at least one byte escaped)".into();

    // 1. exhaustive: all strings of length <= 2 over the 256 byte values
    let mut bt = Batch::new();
    let mut all: Vec<Vec<u8>> = vec![vec![]];
    for x in 0..=255u8 {
        all.push(vec![x]);
    }
    for x in 0..=255u8 {
        for y in 0..=255u8 {
            all.push(vec![x, y]);
        }
    }
    for a in all {
        if let Ok(o) = real_escape(&a) {
            if o != a {
                rep.nontrivial(&(0u8, a.clone()));
            }
        }
        if let Ok(o) = real_href(&a) {
            if o != a {
                rep.nontrivial(&(1u8, a.clone()));
            }
        }
        if a.len() == 2 {
            push_concat_case(rep, &a[..1], &a[1..]);
        }
        rep.count(&format!("len{}", a.len()));
        push_bytes_case(&mut bt, rep, a);
    }
    rep.exhaustive = true;
    rep.exhaustive_what.push("all 65793 byte strings of length <= 2, both escapers, bytes + oracles".into());
    bt.run(&m, rep);

    // 1b. exhaustive over all sequences of <= 2 fragments, and all splits of each for the homomorphism
    let mut bt = Batch::new();
    for f1 in FRAGS {
        for f2 in FRAGS.iter().chain(std::iter::once(&"")) {
            let a = format!("{}{}", f1, f2).into_bytes();
            for cut in 0..=a.len() {
                push_concat_case(rep, &a[..cut], &a[cut..]);
            }
            rep.count("fragment-pairs");
            push_bytes_case(&mut bt, rep, a);
        }
    }
    rep.exhaustive_what.push(format!("all sequences of <= 2 of {} entity/escape-shaped fragments, every split point", FRAGS.len()));
    bt.run(&m, rep);

    // 1c. long unbroken runs of escaped bytes, every length up to a few buffer sizes, followed by each kind
    // of byte (a pending-output buffer or a chunked fast path shows only at its own boundary)
    let mut bt = Batch::new();
    let fills: [&[u8]; 7] = [b" ", b"\xe6\x97\xa5", b"\"", b"<", b"&'", b"\xff", b"\x01"];
    let followers: [&[u8]; 9] = [b"", b"&", b"'", b"a", b"%", b"\xff", b"<", b"\"", b"&amp;"];
    let mut runs = 0usize;
    for (fi, fill) in fills.iter().enumerate() {
        let maxlen = if fi < 2 { 700 } else { 160 };
        for l in 0..=maxlen {
            for fo in followers.iter() {
                for pre in [&b""[..], &b"a"[..]] {
                    let mut a: Vec<u8> = pre.to_vec();
                    while a.len() < pre.len() + l {
                        a.extend_from_slice(fill);
                    }
                    a.truncate(pre.len() + l);
                    a.extend_from_slice(fo);
                    let cut = a.len() / 2;
                    push_concat_case(rep, &a[..cut], &a[cut..]);
                    push_bytes_case(&mut bt, rep, a);
                    runs += 1;
                }
            }
        }
        if bt.len() > 20_000 {
            bt.run(&m, rep);
            bt = Batch::new();
        }
    }
    rep.add("escaped-runs", runs as u64);
    rep.exhaustive_what.push("runs of escaped bytes of every length 0..160 (0..700 for two fills) x 9 followers x 2 prefixes, both escapers".into());
    bt.run(&m, rep);

    // 2. random longer strings
    let n = if cfg.tier_thorough { 300_000 } else if cfg.full { 60_000 } else { 12_000 };
    let mut bt = Batch::new();
    for i in 0..n {
        let a = if i % 3 == 0 { gen_frags(&mut rng, 8) } else { gen_bytes(&mut rng, 64) };
        if i < 4 {
            rep.sample(format!("bytes {}", show(&a)));
        }
        if real_escape(&a).map(|o| o != a).unwrap_or(false) {
            rep.nontrivial(&(0u8, a.clone()));
        }
        if real_href(&a).map(|o| o != a).unwrap_or(false) {
            rep.nontrivial(&(1u8, a.clone()));
        }
        rep.count(if has_pct_triple(&a) { "random-with-%XX" } else { "random-without-%XX" });
        let cut = rng.range(0, a.len());
        push_concat_case(rep, &a[..cut], &a[cut..]);
        push_bytes_case(&mut bt, rep, a);
    }
    bt.run(&m, rep);

    // 3. attribute lists through write_opening_tag
    let n = if cfg.tier_thorough { 100_000 } else if cfg.full { 20_000 } else { 4_000 };
    let mut bt = Batch::new();
    for i in 0..n {
        let tag = gen_name(&mut rng);
        let k = rng.range(0, 4);
        let attrs: Vec<(String, String)> = (0..k)
            .map(|_| {
                let v = match rng.below(4) {
                    // values with exactly one kind of special character (a fast path that checks only some of them shows here)
                    0 => format!("x{}y", rng.ps(&["\"", "&", "<", ">", "'", "\"\"", "\" on=\"z"])),
                    1 => String::from_utf8_lossy(&gen_frags(&mut rng, 4)).into_owned(),
                    _ => gen_str(&mut rng, 24),
                };
                (gen_name(&mut rng), v)
            })
            .collect();
        if i < 3 {
            rep.sample(format!("tag {} {:?}", tag, attrs));
        }
        rep.count(&format!("attrs{}", k));
        rep.nontrivial(&(2u8, tag.clone(), attrs.clone()));
        push_tag_case(&mut bt, rep, tag, attrs);
    }
    bt.run(&m, rep);
}

/// Re-executes one recorded case against the current tree. Ok(None) = passes now.
pub fn replay(kind: &str, input: &str) -> Result<Option<String>, String> {
    let m = Model::from_env();
    let mut rep = Report::new("C19");
    let parts: Vec<&str> = input.split(' ').collect();
    let mut bt = Batch::new();
    match parts.as_slice() {
        ["esc", h] | ["href", h] => {
            let a = unhex(h).ok_or("bad hex")?;
            push_bytes_case(&mut bt, &mut rep, a);
        }
        ["cat", a, b] => {
            let (a, b) = (unhex(a).ok_or("bad hex")?, unhex(b).ok_or("bad hex")?);
            push_concat_case(&mut rep, &a, &b);
        }
        ["otag", t, rest @ ..] => {
            let tag = String::from_utf8(unhex(t).ok_or("bad hex")?).map_err(|e| e.to_string())?;
            let mut attrs = vec![];
            for kv in rest.chunks(2) {
                if kv.len() == 2 {
                    attrs.push((
                        String::from_utf8(unhex(kv[0]).ok_or("bad hex")?).map_err(|e| e.to_string())?,
                        String::from_utf8(unhex(kv[1]).ok_or("bad hex")?).map_err(|e| e.to_string())?,
                    ));
                }
            }
            push_tag_case(&mut bt, &mut rep, tag, attrs);
        }
        _ => return Err(format!("unrecognised replay input {:?}", input)),
    }
    bt.run(&m, &mut rep);
    for c in rep.s_fail.iter().chain(rep.k_disagree.iter()) {
        if kind.is_empty() || c.kind == kind {
            return Ok(Some(format!("{}: {}", c.kind, c.detail)));
        }
    }
    Ok(None)
}
