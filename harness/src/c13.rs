//! C13: extensions are inert on documents that do not use their syntax.
//!
//! regen: `cvh regen specialchars <outdir>` evaluates the REAL `special_chars` / `skip_chars` /
//!        `smart_chars` tables (hook `verif_inline_hooks::char_tables`) for every combination of the
//!        option bits that feed them and writes `Comrak/Generated/SpecialChars.lean`; the Lean lemmas
//!        over that data are re-proved on every run.
//! K:     the driver (built from the regenerated file) reports the same tables as the real code; the
//!        harness's mirror of the `trigger` table equals the Lean one; the consultation audit
//!        (every read of `options.extension/parse/render.*` in /repo/src/parser/*.rs vs the allow-list
//!        /verif/audit/option_reads.json).
//! S:     `markdown_to_html(x, base)` == `markdown_to_html(x, base + F)` for every feature F:
//!        exhaustively for all valid-UTF-8 documents of length <= 2 avoiding F's triggers in three
//!        contexts, for trigger-filtered documents of the shared generators on random bases, and for
//!        a small family of documents that spell trigger characters as entities.
use crate::gen::{mixed_doc, Corpus};
use crate::model::{Batch, Model};
use crate::opts::{Opts, BOOLS};
use crate::report::Report;
use crate::rng::Rng;
use crate::util::{hex, show, unhex};
use crate::Cfg;
use comrak::nodes::NodeValue;
use std::collections::BTreeMap;
use std::panic::{catch_unwind, AssertUnwindSafe};

#[derive(Clone, Copy, PartialEq, Eq, Debug)]
pub enum How {
    Bool,
    HeaderIds,
    FrontMatter,
}

pub struct Feat {
    pub name: &'static str,
    pub trig: &'static [u8],
    pub how: How,
}

/// Mirror of `Comrak.trigger` (lean/Comrak/Features.lean); K compares the two on every run.
pub const FEATURES: &[Feat] = &[
    Feat { name: "strikethrough", trig: b"~", how: How::Bool },
    Feat { name: "tagfilter", trig: b"<", how: How::Bool },
    Feat { name: "table", trig: b"|-", how: How::Bool },
    Feat { name: "autolink", trig: b":w@", how: How::Bool },
    Feat { name: "tasklist", trig: b"[", how: How::Bool },
    Feat { name: "superscript", trig: b"^", how: How::Bool },
    Feat { name: "footnotes", trig: b"^", how: How::Bool },
    Feat { name: "description_lists", trig: b":", how: How::Bool },
    Feat { name: "multiline_block_quotes", trig: b">", how: How::Bool },
    Feat { name: "alerts", trig: b">", how: How::Bool },
    Feat { name: "math_dollars", trig: b"$", how: How::Bool },
    Feat { name: "math_code", trig: b"$", how: How::Bool },
    Feat { name: "wikilinks_title_after_pipe", trig: b"[", how: How::Bool },
    Feat { name: "wikilinks_title_before_pipe", trig: b"[", how: How::Bool },
    Feat { name: "underline", trig: b"_", how: How::Bool },
    Feat { name: "subscript", trig: b"~", how: How::Bool },
    Feat { name: "spoiler", trig: b"|", how: How::Bool },
    Feat { name: "greentext", trig: b">", how: How::Bool },
    Feat { name: "smart", trig: b"\"'.-", how: How::Bool },
    Feat { name: "relaxed_tasklist_matching", trig: b"[", how: How::Bool },
    Feat { name: "relaxed_autolinks", trig: b":w@", how: How::Bool },
    Feat { name: "header_ids", trig: b"#=-", how: How::HeaderIds },
    Feat { name: "front_matter_delimiter", trig: b"-", how: How::FrontMatter },
];

/// The option bits that feed the three tables (read off `Subject::new` / `find_special_char`);
/// bit k of a table index is option TABLE_BITS[k].
pub const TABLE_BITS: &[&str] = &["autolink", "strikethrough", "subscript", "superscript", "underline", "spoiler", "smart"];

fn feat(name: &str) -> Option<&'static Feat> {
    FEATURES.iter().find(|f| f.name == name)
}

/// (base with F off, base with F on)
fn on_off(base: &Opts, f: &Feat) -> (Opts, Opts) {
    let mut off = base.clone();
    let mut on = base.clone();
    match f.how {
        How::Bool => {
            off.set(f.name, false);
            on.set(f.name, true);
        }
        How::HeaderIds => {
            off.header_ids = None;
            on.header_ids = Some("h-".to_string());
        }
        How::FrontMatter => {
            off.front_matter_delimiter = None;
            on.front_matter_delimiter = Some("---".to_string());
        }
    }
    (off, on)
}

fn render(doc: &str, o: &Opts) -> Result<String, ()> {
    let c = o.to_comrak();
    catch_unwind(AssertUnwindSafe(|| comrak::markdown_to_html(doc, &c))).map_err(|_| ())
}

fn input_of(f: &Feat, base: &Opts, doc: &str) -> String {
    format!("doc {} {} {}", f.name, base.wire(), hex(doc.as_bytes()))
}

fn trigger_free(f: &Feat, doc: &str) -> bool {
    !doc.bytes().any(|b| f.trig.contains(&b))
}

/// One comparison. `Ok(None)`: inert here (both calls panicking alike is C01's business, not an
/// inertness failure); `Ok(Some(detail))`: outputs differ; `Err`: exactly one of the two calls panics.
fn differs(f: &Feat, base: &Opts, doc: &str) -> Result<Option<String>, String> {
    let (off, on) = on_off(base, f);
    let (a, b) = match (render(doc, &off), render(doc, &on)) {
        (Ok(a), Ok(b)) => (a, b),
        (Err(_), Err(_)) => return Ok(None), // skipped: C01's subject
        (Err(_), Ok(_)) => return Err(format!("panic with {} off, none with it on, on {:?} base [{}]", f.name, show(doc.as_bytes()), off.describe())),
        (Ok(_), Err(_)) => return Err(format!("panic with {} on, none with it off, on {:?} base [{}]", f.name, show(doc.as_bytes()), off.describe())),
    };
    if a == b {
        Ok(None)
    } else {
        Ok(Some(format!(
            "feature {} is not inert on {:?} (no byte of {:?} in it), base [{}]: off -> {:?}; on -> {:?}",
            f.name,
            show(doc.as_bytes()),
            show(f.trig),
            off.describe(),
            show(a.as_bytes()),
            show(b.as_bytes())
        )))
    }
}

/// Greedy shrink (lines, then characters) keeping "the two outputs differ".
fn shrink(f: &Feat, base: &Opts, doc: &str) -> String {
    let fails = |d: &str| matches!(differs(f, base, d), Ok(Some(_)) | Err(_));
    let mut cur: Vec<String> = doc.split_inclusive('\n').map(|s| s.to_string()).collect();
    let mut i = 0;
    while i < cur.len() {
        let mut t = cur.clone();
        t.remove(i);
        if fails(&t.concat()) {
            cur = t;
        } else {
            i += 1;
        }
    }
    let mut cs: Vec<char> = cur.concat().chars().collect();
    let mut progress = true;
    while progress {
        progress = false;
        let mut i = 0;
        while i < cs.len() {
            let mut t = cs.clone();
            t.remove(i);
            let d: String = t.iter().collect();
            if fails(&d) {
                cs = t;
                progress = true;
            } else {
                i += 1;
            }
        }
    }
    cs.into_iter().collect()
}

// ---------------------------------------------------------------------------------------------
// failure classification (known finding: greentext switches lazy continuation off)

/// Lines as comrak's `feed` cuts them (`\n`, `\r\n` or a lone `\r` end a line), terminators included.
fn split_lines(doc: &str) -> Vec<&str> {
    let b = doc.as_bytes();
    let mut out = vec![];
    let (mut st, mut i) = (0, 0);
    while i < b.len() {
        if b[i] == b'\n' || b[i] == b'\r' {
            if b[i] == b'\r' && i + 1 < b.len() && b[i + 1] == b'\n' {
                i += 1;
            }
            out.push(&doc[st..=i]);
            st = i + 1;
        }
        i += 1;
    }
    if st < b.len() {
        out.push(&doc[st..]);
    }
    out
}

/// Smallest line prefix of `doc` on which the two outputs already differ.
fn first_divergent_prefix(f: &Feat, base: &Opts, doc: &str) -> String {
    let lines: Vec<&str> = split_lines(doc);
    let mut acc = String::new();
    for l in &lines {
        acc.push_str(l);
        if let Ok(Some(_)) | Err(_) = differs(f, base, &acc) {
            return acc;
        }
    }
    doc.to_string()
}

/// Is there a line of `doc` that is a lazy paragraph continuation line with the feature off (it
/// follows a non-blank line and lies inside, not at the start of, a paragraph nested in some
/// container) and continues no paragraph with the feature on? This is exactly the greentext clause of
/// `add_text_to_container` (plain continuation lines never reach that clause, and the input has no
/// `>`, so the last matched container is the document). Unreferenced footnote definitions are dropped
/// from the tree, so a paragraph referencing every definition is appended first; it cannot change how
/// the earlier lines are parsed.
fn has_lazy_continuation_split(f: &Feat, base: &Opts, doc: &str) -> bool {
    let (off, on) = on_off(base, f);
    let mut ext = doc.to_string();
    if !ext.ends_with('\n') {
        ext.push('\n');
    }
    ext.push('\n');
    for l in split_lines(doc) {
        let t = l.trim_start();
        if let Some(r) = t.strip_prefix("[^") {
            if let Some(k) = r.find("]:") {
                if !r[..k].contains(['>', ']']) {
                    ext.push_str(&format!("[^{}] ", &r[..k]));
                }
            }
        }
    }
    ext.push('\n');
    let lines: Vec<&str> = split_lines(doc);
    let is_blank = |l: &str| l.bytes().all(|b| b == b' ' || b == b'\t' || b == b'\r' || b == b'\n');
    let r = catch_unwind(AssertUnwindSafe(|| {
        let a1 = comrak::Arena::new();
        let a2 = comrak::Arena::new();
        let (c_off, c_on) = (off.to_comrak(), on.to_comrak());
        let r_off = comrak::parse_document(&a1, &ext, &c_off);
        let r_on = comrak::parse_document(&a2, &ext, &c_on);
        let spans = |n: &comrak::nodes::AstNode, line: usize| {
            let d = n.data.borrow();
            // a paragraph, or the setext heading a continuation line like `=` turns it into
            matches!(d.value, NodeValue::Paragraph | NodeValue::Heading(_)) && d.sourcepos.start.line < line && d.sourcepos.end.line >= line
        };
        (2..=lines.len()).any(|line| {
            !is_blank(lines[line - 1])
                && !is_blank(lines[line - 2])
                && r_off.descendants().any(|n| spans(n, line) && n.parent().map_or(false, |p| !matches!(p.data.borrow().value, NodeValue::Document)))
                && !r_on.descendants().any(|n| spans(n, line))
        })
    }));
    r.unwrap_or(false)
}

/// Does the parsed document contain a `Link` directly inside a `Link`? (`render_link` in html.rs
/// reads `parse.relaxed_autolinks` and drops the inner `<a>`.)
fn has_nested_link(base: &Opts, doc: &str) -> bool {
    let c = base.to_comrak();
    catch_unwind(AssertUnwindSafe(|| {
        let a = comrak::Arena::new();
        let r = comrak::parse_document(&a, doc, &c);
        r.descendants().any(|n| {
            matches!(n.data.borrow().value, NodeValue::Link(_)) && n.parent().map_or(false, |p| matches!(p.data.borrow().value, NodeValue::Link(_)))
        })
    }))
    .unwrap_or(false)
}

/// `description_item_start` also accepts `~` as the details marker (undocumented).
fn last_line_is_tilde_details(doc: &str) -> bool {
    let ls = split_lines(doc);
    let last = ls.last().copied().unwrap_or("");
    let t = last.trim_start_matches([' ', '\t', '>']);
    let b = t.as_bytes();
    b.len() >= 2 && b[0] == b'~' && (b[1] == b' ' || b[1] == b'\t')
}

/// Numeric or named character references that decode to one of F's trigger characters.
fn has_entity_encoded_trigger(f: &Feat, doc: &str) -> bool {
    let b = doc.as_bytes();
    let named: &[(&str, u8)] = &[
        ("commat", b'@'), ("colon", b':'), ("lsqb", b'['), ("lbrack", b'['), ("Hat", b'^'), ("gt", b'>'), ("GT", b'>'), ("lt", b'<'), ("LT", b'<'),
        ("vert", b'|'), ("verbar", b'|'), ("VerticalLine", b'|'), ("lowbar", b'_'), ("UnderBar", b'_'), ("dollar", b'$'), ("num", b'#'),
        ("equals", b'='), ("hyphen", b'-'), ("dash", b'-'), ("period", b'.'), ("quot", b'"'), ("QUOT", b'"'), ("apos", b'\''), ("sim", b'~'),
    ];
    let mut i = 0;
    while i < b.len() {
        if b[i] == b'&' {
            if let Some(end) = b[i..].iter().take(34).position(|&c| c == b';') {
                let body = &doc[i + 1..i + end];
                let cp = if let Some(h) = body.strip_prefix("#x").or_else(|| body.strip_prefix("#X")) {
                    u32::from_str_radix(h, 16).ok()
                } else if let Some(d) = body.strip_prefix('#') {
                    d.parse::<u32>().ok()
                } else {
                    named.iter().find(|(n, _)| *n == body).map(|(_, c)| *c as u32)
                };
                if let Some(cp) = cp {
                    if cp < 128 && f.trig.contains(&(cp as u8)) {
                        return true;
                    }
                }
            }
        }
        i += 1;
    }
    false
}

/// (sig, shrunk input document) of a failing case, from the input's syntactic class.
fn classify(f: &Feat, base: &Opts, doc: &str) -> (String, String) {
    let pre = first_divergent_prefix(f, base, doc);
    if f.name == "greentext" && has_lazy_continuation_split(f, base, &pre) {
        return ("greentext-lazy-continuation".to_string(), pre);
    }
    if f.name == "relaxed_autolinks" && has_nested_link(base, &pre) {
        return ("relaxed-autolinks-nested-link-rendering".to_string(), pre);
    }
    if f.name == "description_lists" && last_line_is_tilde_details(&pre) {
        return ("description-details-tilde-marker".to_string(), pre);
    }
    if has_entity_encoded_trigger(f, &pre) {
        return (format!("{}-entity-encoded-trigger", f.name), pre);
    }
    (f.name.to_string(), pre)
}

// ---------------------------------------------------------------------------------------------
// S workers

#[derive(Default)]
struct Part {
    evals: u64,
    counts: BTreeMap<String, u64>,
    /// (feature index, base, document, panic?)
    fails: Vec<(usize, Opts, String, Option<String>)>,
    fail_n: u64,
    samples: Vec<String>,
}

impl Part {
    fn bump(&mut self, k: &str, n: u64) {
        *self.counts.entry(k.to_string()).or_insert(0) += n;
    }
    fn check(&mut self, fi: usize, base: &Opts, doc: &str, class: &str) {
        let f = &FEATURES[fi];
        debug_assert!(trigger_free(f, doc));
        self.evals += 1;
        match differs(f, base, doc) {
            Ok(None) => {}
            Ok(Some(_)) => {
                self.fail_n += 1;
                self.bump(&format!("differs/{}/{}", f.name, class), 1);
                if self.fails.len() < 4000 {
                    self.fails.push((fi, base.clone(), doc.to_string(), None));
                }
            }
            Err(_) => {
                // parser panics (e.g. the `Spx::consume` assertion behind e-mail autolinks) are C01's
                // subject: counted as skipped here, also when only one of the two calls panics
                self.bump("skipped-panic-one-side-only", 1);
            }
        }
    }
}

/// Base with every other switchable feature on.
fn dense_base() -> Opts {
    let mut o = Opts::default();
    for n in &BOOLS[..21] {
        o.set(n, true);
    }
    o.set("unsafe_", true);
    o.header_ids = Some("h-".to_string());
    o
}

/// All valid UTF-8 strings of length <= 2 over the 256 byte values.
fn short_docs() -> Vec<String> {
    let mut v = vec![String::new()];
    for a in 0u16..256 {
        if let Ok(s) = String::from_utf8(vec![a as u8]) {
            v.push(s);
        }
        for b in 0u16..256 {
            if let Ok(s) = String::from_utf8(vec![a as u8, b as u8]) {
                v.push(s);
            }
        }
    }
    v
}

fn exhaustive_short(fi: usize, bases: &[Opts], shorts: &[String], part: &mut Part) {
    let f = &FEATURES[fi];
    let mut n = 0u64;
    for s in shorts {
        if !trigger_free(f, s) {
            continue;
        }
        for base in bases {
            // alone, mid-word, at line start after a paragraph line (followed by text / as the last line)
            part.check(fi, base, s, "short-alone");
            part.check(fi, base, &format!("a{}b", s), "short-midword");
            part.check(fi, base, &format!("a\n{}b", s), "short-linestart");
            part.check(fi, base, &format!("a\n{}", s), "short-lastline");
            n += 4;
        }
    }
    part.bump(&format!("short/{}", f.name), n);
}

fn strip_triggers(f: &Feat, doc: &str) -> String {
    // triggers are ASCII, so deleting them keeps the document valid UTF-8
    let v: Vec<u8> = doc.bytes().filter(|b| !f.trig.contains(b)).collect();
    String::from_utf8(v).unwrap_or_default()
}

fn tuned_base(f: &Feat, r: &mut Rng) -> Opts {
    let mut o = Opts::random(r);
    // options that only act together with another one: make the pair likely
    match f.name {
        "tagfilter" => {
            if r.chance(1, 2) {
                o.set("unsafe_", true);
            }
        }
        "relaxed_autolinks" => {
            if r.chance(2, 3) {
                o.set("autolink", true);
            }
        }
        "relaxed_tasklist_matching" => {
            if r.chance(2, 3) {
                o.set("tasklist", true);
            }
        }
        _ => {}
    }
    o
}

fn random_docs(fi: usize, n: usize, seed: u64, corpus: &Corpus, part: &mut Part) {
    let f = &FEATURES[fi];
    let mut r = Rng::new(seed ^ (0xC13_0000 + fi as u64));
    for i in 0..n {
        let (d, gen) = mixed_doc(&mut r, corpus);
        let doc = strip_triggers(f, &d);
        let base = tuned_base(f, &mut r);
        if i == 0 && fi % 8 == 0 {
            part.samples.push(format!("{} on [{}] / {} document {:?}", f.name, base.describe(), gen, show(&doc.as_bytes()[..doc.len().min(80)])));
        }
        part.check(fi, &base, &doc, gen);
        part.bump(&format!("random/{}", f.name), 1);
        part.bump(&format!("generator/{}", gen), 1);
    }
}

/// Long trigger-free documents: a fragment repeated 1 300 times between a head and a tail that leave
/// something open across the repetition (delimiter stack, bracket stack, containers). Limits, caps and
/// look-back bounds that depend on which features are on only show at such lengths.
fn long_docs(fi: usize, part: &mut Part) {
    let f = &FEATURES[fi];
    const FRAGS: &[&str] = &[
        " _a", " *a", "*a **b ", "a* ", "[a ", "[a](u) ", "`a ", "<b> ", "a@b.c ", "www.x.y ", "WWW.X.Y/Z ", "HTTPS://X.Y/Z ", "A@B.C ", "$a ", "~a ", "^a ", "\\* ", "&amp; ", "![a", "\"a\" ", "a--b ", "a\n", "> a\n",
        "- a\n", "1. a\n", "|a|b|\n", "a\n\n", "# a\n", "[^a] ", ": a\n", "||a ", "== ",
    ];
    const WRAPS: &[(&str, &str)] = &[("", "\n"), ("*foo", " bar*\n"), ("[", "](u)\n"), ("**x __y", " y__ x**\n"), ("> ", "\n")];
    for frag in FRAGS {
        for (head, tail) in WRAPS {
            let doc = strip_triggers(f, &format!("{}{}{}", head, frag.repeat(1300), tail));
            if doc.trim().len() < 1300 {
                continue;
            }
            for base in [Opts::default(), dense_base()] {
                part.check(fi, &base, &doc, "long");
                part.bump(&format!("long/{}", f.name), 1);
            }
        }
    }
}

/// Documents that spell F's trigger characters as character references: trigger-free byte-wise.
fn entity_docs(fi: usize, part: &mut Part) {
    let f = &FEATURES[fi];
    let templates: &[&str] = &[
        "- [x] a\n", "- [ ] a\n", "x a@b.c y\n", "x www.a.bc y\n", "x http://a.bc y\n", "a[^a]\n\n[^a]: x\n", "[^a]\n", "~a~ ~~b~~\n", "a^b^\n",
        "__a__\n", "||a||\n", "| a |\n|---|\n| b |\n", "$a$ $$b$$ $`c`$\n", "[[a|b]]\n", "> [!NOTE]\n> a\n", ">>>\na\n>>>\n", ">a\n", "a\n\n: b\n",
        "\"a\" 'b' a--b...\n", "<xmp> <title>\n", "# a\n", "a\n===\n", "a\n---\n", "---\na: b\n---\nc\n", "- [~] a\n", "[http://a.bc]\n",
    ];
    let bases = [Opts::default(), dense_base()];
    let mut n = 0u64;
    for t in templates {
        if trigger_free(f, t) {
            continue;
        }
        for style in 0..2 {
            let mut doc = String::new();
            for ch in t.chars() {
                if ch.is_ascii() && f.trig.contains(&(ch as u8)) {
                    if style == 0 {
                        doc.push_str(&format!("&#{};", ch as u32));
                    } else {
                        doc.push_str(&format!("&#x{:x};", ch as u32));
                    }
                } else {
                    doc.push(ch);
                }
            }
            if !trigger_free(f, &doc) {
                continue; // the reference itself contains a trigger byte (e.g. '#' for header_ids)
            }
            for base in &bases {
                part.check(fi, base, &doc, "entity");
                n += 1;
            }
        }
    }
    part.bump(&format!("entity/{}", f.name), n);
}

// ---------------------------------------------------------------------------------------------
// K: tables, trigger mirror, consultation audit

fn table_opts(idx: usize) -> Opts {
    let mut o = Opts::default();
    for (k, name) in TABLE_BITS.iter().enumerate() {
        o.set(name, idx >> k & 1 == 1);
    }
    o
}

fn mask_hex(t: &[bool; 256]) -> String {
    // bit c of the mask = table[c]; printed as a hexadecimal natural number
    let mut s = String::new();
    let mut started = false;
    for nib in (0..64).rev() {
        let mut v = 0u8;
        for k in 0..4 {
            if t[nib * 4 + k] {
                v |= 1 << k;
            }
        }
        if v != 0 || started || nib == 0 {
            started = true;
            s.push(std::char::from_digit(v as u32, 16).unwrap());
        }
    }
    s
}

fn real_tables(o: &Opts) -> Result<[String; 3], String> {
    let c = o.to_comrak();
    let t = catch_unwind(AssertUnwindSafe(|| comrak::verif_inline_hooks::char_tables(&c))).map_err(|_| "PANIC in Subject::new".to_string())?;
    Ok([mask_hex(&t.0), mask_hex(&t.1), mask_hex(&t.2)])
}

/// `cvh regen specialchars <outdir>`
pub fn regen(outdir: &str) -> Result<(), String> {
    let mut cols: [Vec<String>; 3] = [vec![], vec![], vec![]];
    for idx in 0..(1usize << TABLE_BITS.len()) {
        let t = real_tables(&table_opts(idx))?;
        for k in 0..3 {
            cols[k].push(format!("0x{}", t[k]));
        }
    }
    // every other boolean option, switched on alone and on top of all table bits: (name, special, skip, smart)
    let mut others: Vec<String> = vec![];
    for name in BOOLS.iter() {
        if TABLE_BITS.contains(name) {
            continue;
        }
        for idx in [0usize, (1 << TABLE_BITS.len()) - 1] {
            let mut o = table_opts(idx);
            o.set(name, true);
            let t = real_tables(&o)?;
            others.push(format!("({}, 0x{}, 0x{}, 0x{})", idx, t[0], t[1], t[2]));
        }
    }
    for (hid, fm) in [(true, false), (false, true)] {
        for idx in [0usize, (1 << TABLE_BITS.len()) - 1] {
            let mut o = table_opts(idx);
            if hid {
                o.header_ids = Some("h-".into());
            }
            if fm {
                o.front_matter_delimiter = Some("---".into());
            }
            let t = real_tables(&o)?;
            others.push(format!("({}, 0x{}, 0x{}, 0x{})", idx, t[0], t[1], t[2]));
        }
    }
    let list = |v: &Vec<String>| -> String {
        let mut s = String::from("[\n");
        for (i, ch) in v.chunks(4).enumerate() {
            s.push_str("  ");
            s.push_str(&ch.join(", "));
            if (i + 1) * 4 < v.len() {
                s.push(',');
            }
            s.push('\n');
        }
        s.push(']');
        s
    };
    let mut out = String::new();
    out.push_str("/-\nGENERATED by `cvh regen specialchars` (harness/src/c13.rs) from the REAL tables that\n`Subject::new` (src/parser/inlines.rs) computes; regenerated before every proof stage. Do not edit.\n\n");
    out.push_str("Entry i of each list is the table for the option combination whose bit k (value 2^k) is\n");
    out.push_str(&format!("option k of {:?}; bit c of an entry = table[c].\n", TABLE_BITS));
    out.push_str("`otherOptionTables`: (index, special, skip, smart) with one further option switched on.\n-/\n");
    out.push_str("namespace Comrak.Generated\n\n");
    out.push_str(&format!("def tableBits : Nat := {}\n\n", TABLE_BITS.len()));
    for (k, name) in ["specialMasks", "skipMasks", "smartMasks"].iter().enumerate() {
        out.push_str(&format!("def {} : List Nat := {}\n\n", name, list(&cols[k])));
    }
    out.push_str(&format!("def otherOptionTables : List (Nat × Nat × Nat × Nat) := {}\n\n", list(&others)));
    out.push_str("end Comrak.Generated\n");
    std::fs::create_dir_all(outdir).map_err(|e| e.to_string())?;
    let path = format!("{}/SpecialChars.lean", outdir);
    if std::fs::read_to_string(&path).ok().as_deref() == Some(out.as_str()) {
        return Ok(());
    }
    let tmp = format!("{}/.SpecialChars.lean.{}.tmp", outdir, std::process::id());
    std::fs::write(&tmp, out).map_err(|e| e.to_string())?;
    std::fs::rename(&tmp, &path).map_err(|e| e.to_string())
}

const AUDIT_FILE: &str = "/verif/audit/option_reads.json";

/// (file, "group.field") -> number of reads, in the current /repo/src/parser/*.rs and src/html.rs.
pub fn scan_option_reads() -> Result<BTreeMap<(String, String), u64>, String> {
    let mut out = BTreeMap::new();
    let rd = std::fs::read_dir(format!("{}/src/parser", crate::util::repo_root())).map_err(|e| e.to_string())?;
    let mut files: Vec<std::path::PathBuf> = rd.filter_map(|e| e.ok()).map(|e| e.path()).filter(|p| p.extension().map_or(false, |x| x == "rs")).collect();
    files.sort();
    // the HTML renderer is where tagfilter / header_ids act; any *parse* or *extension* option read
    // there is a consultation site too (render options are C18's business)
    files.push(std::path::PathBuf::from(format!("{}/src/html.rs", crate::util::repo_root())));
    for p in files {
        let name = p.file_name().unwrap().to_string_lossy().to_string();
        let renderer = name == "html.rs";
        let src = std::fs::read_to_string(&p).map_err(|e| e.to_string())?;
        // drop line comments (doc examples live there), then all white space so that reads broken
        // over several lines are seen
        let mut flat = String::new();
        for line in src.lines() {
            let code = match line.find("//") {
                Some(i) => &line[..i],
                None => line,
            };
            flat.extend(code.chars().filter(|c| !c.is_whitespace()));
        }
        for group in ["extension", "parse", "render"] {
            if renderer && group == "render" {
                continue;
            }
            let pat = format!("options.{}.", group);
            let mut at = 0;
            while let Some(i) = flat[at..].find(&pat) {
                let st = at + i + pat.len();
                let field: String = flat[st..].chars().take_while(|c| c.is_ascii_alphanumeric() || *c == '_').collect();
                // an assignment `options.x.y = v` is not a read (none exist outside doc comments)
                *out.entry((name.clone(), format!("{}.{}", group, field))).or_insert(0) += 1;
                at = st;
            }
        }
    }
    Ok(out)
}

fn load_allow_list() -> Result<BTreeMap<(String, String), u64>, String> {
    let s = std::fs::read_to_string(AUDIT_FILE).map_err(|e| format!("{}: {}", AUDIT_FILE, e))?;
    let mut out = BTreeMap::new();
    for line in s.lines() {
        // one entry per line: {"file": "inlines.rs", "field": "extension.autolink", "count": 3, ...}
        let get = |key: &str| -> Option<String> {
            let k = format!("\"{}\":", key);
            let i = line.find(&k)? + k.len();
            let rest = line[i..].trim_start();
            if let Some(r) = rest.strip_prefix('"') {
                Some(r[..r.find('"')?].to_string())
            } else {
                Some(rest.chars().take_while(|c| c.is_ascii_digit()).collect())
            }
        };
        if let (Some(f), Some(fl), Some(c)) = (get("file"), get("field"), get("count")) {
            out.insert((f, fl), c.parse::<u64>().map_err(|e| e.to_string())?);
        }
    }
    if out.is_empty() {
        return Err(format!("{}: no entries", AUDIT_FILE));
    }
    Ok(out)
}

fn audit(rep: &mut Report) {
    let (cur, allow) = match (scan_option_reads(), load_allow_list()) {
        (Ok(c), Ok(a)) => (c, a),
        (Err(e), _) | (_, Err(e)) => {
            rep.k_evals += 1;
            rep.disagree("consultation-audit", "audit".into(), format!("audit could not run: {}", e));
            return;
        }
    };
    let mut keys: Vec<&(String, String)> = cur.keys().chain(allow.keys()).collect();
    keys.sort();
    keys.dedup();
    for k in keys {
        rep.k_evals += 1;
        let (c, a) = (cur.get(k).copied().unwrap_or(0), allow.get(k).copied().unwrap_or(0));
        rep.add("audit-option-reads", c);
        if c != a {
            rep.disagree(
                "consultation-audit",
                "audit".into(),
                format!("{} reads options.{} {} time(s), the catalogued consultation sites account for {} (a new or removed site: its inertness lemma is missing)", k.0, k.1, c, a),
            );
        }
    }
}

fn k_stage(rep: &mut Report) {
    let m = Model::from_env();
    let mut bt = Batch::new();
    // tables: the driver is built from the regenerated file
    for idx in 0..(1usize << TABLE_BITS.len()) {
        match real_tables(&table_opts(idx)) {
            Err(e) => {
                rep.k_evals += 1;
                rep.disagree("special-tables", format!("tables {}", idx), e);
            }
            Ok(t) => {
                let want = format!("{} {} {}", t[0], t[1], t[2]);
                bt.push(format!("c13tables {}", idx), move |resp, rep| {
                    rep.k_evals += 1;
                    if resp != want {
                        rep.disagree("special-tables", format!("tables {}", idx), format!("real (special skip smart) = {} but the generated Lean tables give {}", want, resp));
                    }
                });
            }
        }
    }
    // the harness's mirror of `trigger`
    for f in FEATURES {
        let mut t: Vec<u8> = f.trig.to_vec();
        t.sort();
        let want = hex(&t);
        let name = f.name;
        bt.push(format!("c13trig {}", name), move |resp, rep| {
            rep.k_evals += 1;
            if resp != want {
                rep.disagree("trigger-table", format!("trig {}", name), format!("harness trigger bytes {} but Lean `trigger` has {}", want, resp));
            }
        });
    }
    bt.push("c13features".to_string(), move |resp, rep| {
        rep.k_evals += 1;
        let want: Vec<&str> = FEATURES.iter().map(|f| f.name).collect();
        if resp != want.join(",") {
            rep.disagree("trigger-table", "features".into(), format!("harness features {} but Lean has {}", want.join(","), resp));
        }
    });
    bt.run(&m, rep);
    audit(rep);
}

// ---------------------------------------------------------------------------------------------

pub fn run(cfg: &Cfg, rep: &mut Report) {
    rep.rule = "for each of the 23 switchable features F: every valid-UTF-8 document of length <= 2 without a trigger byte of F, alone / as a<doc>b / as a\\n<doc>b / as a\\n<doc>, on the empty base and on the base with every other feature on (thorough: two random bases more); documents of the shared mixed generator (grammar, palette, bytes, corpus) with F's trigger bytes deleted, on random option vectors; documents spelling trigger characters as numeric character references. Oracle: markdown_to_html(doc, base) == markdown_to_html(doc, base + F), byte for byte. distinct_nontrivial counts distinct (feature, generator, base density) classes".into();
    k_stage(rep);

    let shorts = short_docs();
    let corpus = Corpus::load();
    // S always runs at full volume for this property (DESIGN section 2: `_partial` properties)
    let n_random = if cfg.tier_thorough { 60_000 } else if cfg.full { 25_000 } else { 15_000 };
    let mut bases = vec![Opts::default(), dense_base()];
    if cfg.tier_thorough {
        let mut r = Rng::new(cfg.seed ^ 0xC13_BA5E);
        bases.push(Opts::random(&mut r));
        bases.push(Opts::random(&mut r));
    }
    let mut parts: Vec<Part> = vec![];
    std::thread::scope(|sc| {
        let mut hs = vec![];
        for fi in 0..FEATURES.len() {
            let (shorts, corpus, bases) = (&shorts, &corpus, &bases);
            let seed = cfg.seed;
            hs.push(sc.spawn(move || {
                let mut p = Part::default();
                exhaustive_short(fi, bases, shorts, &mut p);
                entity_docs(fi, &mut p);
                long_docs(fi, &mut p);
                random_docs(fi, n_random, seed, corpus, &mut p);
                p
            }));
        }
        for h in hs {
            parts.push(h.join().expect("C13 worker panicked"));
        }
    });
    rep.exhaustive = true;
    rep.exhaustive_what.push(format!(
        "per feature: all {} valid UTF-8 documents of length <= 2 minus those containing a trigger byte, x 4 contexts x {} bases",
        shorts.len(),
        bases.len()
    ));
    rep.exhaustive_what.push("special/skip/smart tables for all 128 combinations of the seven option bits that feed them (regenerated into Lean and compared with the driver)".into());
    let mut classified = 0;
    let mut shrunk_per_feature = vec![0usize; FEATURES.len()];
    for p in parts {
        rep.s_evals += p.evals;
        for (k, v) in p.counts {
            rep.add(&k, v);
            if let Some(rest) = k.strip_prefix("random/").or_else(|| k.strip_prefix("short/")) {
                rep.nontrivial(&(rest.to_string(), k.starts_with("short/")));
            }
        }
        for s in p.samples {
            rep.sample(s);
        }
        // failures beyond the kept ones are only counted
        let kept = p.fails.len() as u64;
        for (fi, base, doc, panic) in p.fails {
            let f = &FEATURES[fi];
            if let Some(pm) = panic {
                rep.fail("inert-total", "panic", input_of(f, &base, &doc), pm);
                continue;
            }
            // classification costs a few renders: bound it, the rest keep the feature's own signature
            let (sig, shrunk) = if classified < 200_000 {
                classified += 1;
                classify(f, &base, &doc)
            } else {
                (f.name.to_string(), doc.clone())
            };
            // unlisted classes: report a minimal document (first three per feature)
            let (sig, shrunk) = if sig == f.name && shrunk_per_feature[fi] < 200 {
                shrunk_per_feature[fi] += 1;
                let small = shrink(f, &base, &shrunk);
                // the class is read off the minimal document (a long document can hide the line that matters)
                let (sig2, _) = classify(f, &base, &small);
                (sig2, small)
            } else {
                (sig, shrunk)
            };
            let detail = differs(f, &base, &shrunk).ok().flatten().unwrap_or_else(|| "differs".into());
            rep.count(&format!("fail-sig/{}", sig));
            rep.fail("feature-not-inert", &sig, input_of(f, &base, &shrunk), detail);
        }
        if p.fail_n > kept {
            rep.s_fail_n += p.fail_n - kept;
        }
    }
    for f in FEATURES {
        rep.nontrivial(&f.name);
    }
    rep.sample("short: \"a\\n~b\" for feature table (no '|' or '-'), bases [] and [all other features]".to_string());
    rep.sample("entity: \"- &#91;x&#93; a\" for feature tasklist".to_string());
}

pub fn replay(kind: &str, input: &str) -> Result<Option<String>, String> {
    let toks: Vec<&str> = input.split(' ').collect();
    match toks.first().copied() {
        Some("doc") if toks.len() == 10 => {
            let f = feat(toks[1]).ok_or("unknown feature")?;
            let base = Opts::from_wire(&toks[2..9]).ok_or("bad option vector")?;
            let doc = String::from_utf8(unhex(toks[9]).ok_or("bad hex")?).map_err(|_| "document is not UTF-8")?;
            if !trigger_free(f, &doc) {
                return Err(format!("document contains a trigger byte of {}", f.name));
            }
            if kind == "shrink" {
                let d = shrink(f, &base, &doc);
                return Ok(Some(format!("shrunk to {:?}: {} sig {}", d, input_of(f, &base, &d), classify(f, &base, &d).0)));
            }
            match differs(f, &base, &doc) {
                Ok(None) => Ok(None),
                Ok(Some(d)) => Ok(Some(format!("{}: {}", if kind.is_empty() { "feature-not-inert" } else { kind }, d))),
                Err(p) => Ok(Some(format!("inert-total: {}", p))),
            }
        }
        Some("audit") => {
            let mut rep = Report::new("C13");
            audit(&mut rep);
            Ok(rep.k_disagree.first().map(|c| format!("{}: {}", c.kind, c.detail)))
        }
        Some("tables") | Some("trig") | Some("features") => {
            let mut rep = Report::new("C13");
            k_stage(&mut rep);
            Ok(rep.k_disagree.iter().find(|c| c.input == input).map(|c| format!("{}: {}", c.kind, c.detail)))
        }
        _ => Err("bad replay input".into()),
    }
}
