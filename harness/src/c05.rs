//! C05: rendering is a deterministic pure function of input and options.
//! K: the real HTML equals the model's (a function of options and tree) for every repetition;
//!    source audit of hash-map / global-state sites against /verif/audit/c05_sites.json.
//! S: repeated calls in one process (a fresh `HashMap` gets a fresh seed, so hash-order
//!    dependence shows within a few calls), calls racing on threads that share one `Options`,
//!    and fresh processes (`cvh c05worker`) must all yield byte-identical output for all three
//!    formatters.
use crate::gen::Corpus;
use crate::htmlk::{gen_case, Src};
use crate::model::{Batch, Model};
use crate::opts::Opts;
use crate::report::Report;
use crate::rng::Rng;
use crate::util::{diff_window, hex};
use crate::Cfg;
use comrak::{format_commonmark, format_html, format_xml};

/// (html, xml, commonmark) of one subject, computed from scratch (parse or build, then format).
pub fn render_all(src: &Src, o: &Opts) -> Result<[Vec<u8>; 3], String> {
    let c = o.to_comrak();
    src.with_root(o, |root| {
        let mut h = Vec::new();
        format_html(root, &c, &mut h).unwrap();
        let mut x = Vec::new();
        format_xml(root, &c, &mut x).unwrap();
        let mut m = Vec::new();
        format_commonmark(root, &c, &mut m).unwrap();
        [h, x, m]
    })
}

const FMT: [&str; 3] = ["html", "xml", "commonmark"];

fn sig_for(which: usize, a: &[u8], b: &[u8]) -> String {
    // narrow class: which formatter, and whether the first difference sits inside a <pre/<code start tag
    let mut i = 0;
    while i < a.len() && i < b.len() && a[i] == b[i] {
        i += 1;
    }
    let lo = a[..i].iter().rposition(|c| *c == b'<').unwrap_or(0);
    let tag: String = a[lo..].iter().take(5).map(|c| *c as char).collect();
    if tag.starts_with("<pre") || tag.starts_with("<code") {
        format!("{}-code-block-attributes", FMT[which])
    } else {
        format!("{}-other", FMT[which])
    }
}

/// Runs inside a worker: repeated calls, racing threads; returns
/// `ok\t<hex html>\t<norm wire>\t<tree wire>` or `differs\t<kind>\t<sig>\t<detail>` or `skipped-panic`.
fn case_in_worker(o: &Opts, src: &Src, reps: usize, threads: usize) -> String {
    let first = match render_all(src, o) {
        Ok(r) => r,
        Err(_) => return "skipped-panic".into(), // totality is C01's subject
    };
    for _ in 0..reps {
        if let Ok(r) = render_all(src, o) {
            for w in 0..3 {
                if r[w] != first[w] {
                    return format!("differs\trepeat-call-differs\t{}\t{}", sig_for(w, &first[w], &r[w]), diff_window(&first[w], &r[w]));
                }
            }
        }
    }
    // one tree rendered twice, by every writer and in another order (a writer must not change what it renders)
    {
        let c = o.to_comrak();
        let twice = src.with_root(o, |root| {
            let mut outs: Vec<Vec<u8>> = vec![];
            for which in [2usize, 0, 1, 2, 0] {
                let mut b = Vec::new();
                match which {
                    0 => format_html(root, &c, &mut b).unwrap(),
                    1 => format_xml(root, &c, &mut b).unwrap(),
                    _ => format_commonmark(root, &c, &mut b).unwrap(),
                };
                outs.push(b);
            }
            outs
        });
        if let Ok(outs) = twice {
            for (k, which) in [2usize, 0, 1, 2, 0].iter().enumerate() {
                if outs[k] != first[*which] {
                    return format!("differs\tsame-tree-rendered-again-differs\t{}\t{}", sig_for(*which, &first[*which], &outs[k]), diff_window(&first[*which], &outs[k]));
                }
            }
        }
    }
    if threads > 0 {
        let c = o.to_comrak();
        let barrier = std::sync::Barrier::new(threads);
        let results: Vec<Result<[Vec<u8>; 3], String>> = std::thread::scope(|sc| {
            let hs: Vec<_> = (0..threads)
                .map(|_| {
                    let (c, src, o, barrier) = (&c, src, o, &barrier);
                    sc.spawn(move || {
                        barrier.wait();
                        src.with_root(o, |root| {
                            let mut h = Vec::new();
                            format_html(root, c, &mut h).unwrap();
                            let mut x = Vec::new();
                            format_xml(root, c, &mut x).unwrap();
                            let mut m = Vec::new();
                            format_commonmark(root, c, &mut m).unwrap();
                            [h, x, m]
                        })
                    })
                })
                .collect();
            hs.into_iter().map(|h| h.join().unwrap_or_else(|_| Err("thread panicked".into()))).collect()
        });
        for r in results.into_iter().flatten() {
            for w in 0..3 {
                if r[w] != first[w] {
                    return format!("differs\tthread-call-differs\t{}\t{}", sig_for(w, &first[w], &r[w]), diff_window(&first[w], &r[w]));
                }
            }
        }
    }
    match src.render(o) {
        Ok(r) => format!("ok\t{}\t{}\t{}\t{}", hex(&r.html), r.norm_wire, r.tree_wire, r.kinds.join(",")),
        Err(_) => "skipped-panic".into(),
    }
}

/// One case of the C05 worker (`cvh worker C05`, run under the watchdog of worker.rs):
///  * `<replay input>`                 -> `R hex(html) hex(xml) hex(cm)` rendered in this (fresh) process
///  * `seq <input A> || <input B>`     -> renders B on a fresh thread, then A followed by B on another
///                                        fresh thread; answers `same` or `differs <formatter>`
pub fn worker_case(line: &str) -> String {
    if let Some(rest) = line.strip_prefix("case ") {
        let mut it = rest.splitn(3, ' ');
        let reps: usize = it.next().and_then(|x| x.parse().ok()).unwrap_or(1);
        let threads: usize = it.next().and_then(|x| x.parse().ok()).unwrap_or(0);
        return match it.next().and_then(Src::parse_input) {
            Some((o, src)) => case_in_worker(&o, &src, reps, threads),
            None => "ERR bad-input".into(),
        };
    }
    if let Some(rest) = line.strip_prefix("syn ") {
        return syn_case(rest);
    }
    if let Some(rest) = line.strip_prefix("arena ") {
        return arena_case(rest);
    }
    if let Some(rest) = line.strip_prefix("plug ") {
        return plug_case(rest);
    }
    if let Some(rest) = line.strip_prefix("cb ") {
        return cb_case(rest);
    }
    if let Some(rest) = line.strip_prefix("seq ") {
        let (a, b) = match rest.split_once(" || ") {
            Some(x) => x,
            None => return "ERR bad-seq".into(),
        };
        let (pa, pb) = match (Src::parse_input(a), Src::parse_input(b)) {
            (Some(x), Some(y)) => (x, y),
            _ => return "ERR bad-input".into(),
        };
        let pb2 = pb.clone();
        let fresh = std::thread::spawn(move || render_all(&pb2.1, &pb2.0)).join();
        let after = std::thread::spawn(move || {
            let _ = render_all(&pa.1, &pa.0);
            render_all(&pb.1, &pb.0)
        })
        .join();
        return match (fresh, after) {
            (Ok(Ok(x)), Ok(Ok(y))) => {
                for w in 0..3 {
                    if x[w] != y[w] {
                        return format!("differs {} :: {}", FMT[w], diff_window(&x[w], &y[w]));
                    }
                }
                "same".into()
            }
            _ => "skipped-panic".into(),
        };
    }
    match Src::parse_input(line).and_then(|(o, src)| render_all(&src, &o).ok()) {
        Some(r) => format!("R {} {} {}", hex(&r[0]), hex(&r[1]), hex(&r[2])),
        None => "skipped-panic".into(),
    }
}


// ---------------------------------------------------------------- earlier documents in the caller's arena; racing callbacks

fn render3<'a>(root: &'a comrak::nodes::AstNode<'a>, c: &comrak::Options) -> [Vec<u8>; 3] {
    let mut h = Vec::new();
    format_html(root, c, &mut h).unwrap();
    let mut x = Vec::new();
    format_xml(root, c, &mut x).unwrap();
    let mut m = Vec::new();
    format_commonmark(root, c, &mut m).unwrap();
    [h, x, m]
}

/// `arena <input>`: the document parsed into a fresh arena, and into an arena that already holds
/// earlier documents (600 000 nodes of them: the arena is the caller's and outlives a document).
fn arena_case(rest: &str) -> String {
    use std::panic::{catch_unwind, AssertUnwindSafe};
    let (o, md) = match Src::parse_input(rest) {
        Some((o, Src::Doc(md))) => (o, md),
        _ => return "ERR bad-input".into(),
    };
    let c = o.to_comrak();
    let r = catch_unwind(AssertUnwindSafe(|| {
        let fresh = {
            let arena = comrak::Arena::new();
            render3(comrak::parse_document(&arena, &md, &c), &c)
        };
        let arena = comrak::Arena::new();
        let filler = "x\n\n".repeat(300_000);
        let _ = comrak::parse_document(&arena, &filler, &c);
        let _ = comrak::parse_document(&arena, "| a | b |\n|---|---|\n| 1 |\n\n[^n]: x\n\n# h\n\n# h\n", &c);
        let after = render3(comrak::parse_document(&arena, &md, &c), &c);
        (fresh, after)
    }));
    match r {
        Ok((x, y)) => {
            for w in 0..3 {
                if x[w] != y[w] {
                    return format!("differs {} :: {}", FMT[w], diff_window(&x[w], &y[w]));
                }
            }
            "same".into()
        }
        Err(_) => "skipped-panic".into(),
    }
}

/// Heading adapter that writes the flattened heading text it is given into the tag.
struct EchoHeadings;
impl comrak::adapters::HeadingAdapter for EchoHeadings {
    fn enter(&self, output: &mut dyn std::io::Write, heading: &comrak::adapters::HeadingMeta, _sp: Option<comrak::nodes::Sourcepos>) -> std::io::Result<()> {
        write!(output, "<h{} data-text=\"{}\">", heading.level, heading.content.replace('&', "&amp;").replace('"', "&quot;").replace('<', "&lt;"))
    }
    fn exit(&self, output: &mut dyn std::io::Write, heading: &comrak::adapters::HeadingMeta) -> std::io::Result<()> {
        write!(output, "</h{}><!--{}-->", heading.level, heading.content.len())
    }
}

/// Highlighter that writes the same bytes whatever the time of day, after `delay_ms` per block.
struct SlowHighlighter {
    delay_ms: u64,
}
impl comrak::adapters::SyntaxHighlighterAdapter for SlowHighlighter {
    fn write_highlighted(&self, output: &mut dyn std::io::Write, lang: Option<&str>, code: &str) -> std::io::Result<()> {
        if self.delay_ms > 0 {
            std::thread::sleep(std::time::Duration::from_millis(self.delay_ms));
        }
        write!(output, "<span class=\"hl-{}\">{}</span>", lang.unwrap_or("none").len(), code.len())
    }
    fn write_pre_tag(&self, output: &mut dyn std::io::Write, _a: std::collections::HashMap<String, String>) -> std::io::Result<()> {
        output.write_all(b"<pre class=\"hl\">")
    }
    fn write_code_tag(&self, output: &mut dyn std::io::Write, _a: std::collections::HashMap<String, String>) -> std::io::Result<()> {
        output.write_all(b"<code>")
    }
}

fn html_with_plugins(o: &Opts, md: &str, slow_ms: u64) -> Option<Vec<u8>> {
    use std::panic::{catch_unwind, AssertUnwindSafe};
    catch_unwind(AssertUnwindSafe(|| {
        let c = o.to_comrak();
        let heads = EchoHeadings;
        let hl = SlowHighlighter { delay_ms: slow_ms };
        let mut plugins = comrak::Plugins::default();
        plugins.render.heading_adapter = Some(&heads);
        plugins.render.codefence_syntax_highlighter = Some(&hl);
        let arena = comrak::Arena::new();
        let root = comrak::parse_document(&arena, md, &c);
        let mut h = Vec::new();
        comrak::format_html_with_plugins(root, &c, &mut h, &plugins).unwrap();
        h
    }))
    .ok()
}

/// `plug <input A> || <input B>`: B rendered with a heading adapter and a highlighter on a fresh thread,
/// after A on another thread (fresh arenas: an address seen before may come back), and with a highlighter
/// that takes 150 ms per block: all three must agree.
fn plug_case(rest: &str) -> String {
    let (a, b) = match rest.split_once(" || ") {
        Some(x) => x,
        None => return "ERR bad-plug".into(),
    };
    let (pa, pb) = match (Src::parse_input(a), Src::parse_input(b)) {
        (Some((oa, Src::Doc(a))), Some((ob, Src::Doc(b)))) => ((oa, a), (ob, b)),
        _ => return "ERR bad-input".into(),
    };
    let pb1 = pb.clone();
    let fresh = std::thread::spawn(move || html_with_plugins(&pb1.0, &pb1.1, 0)).join().ok().flatten();
    let pb2 = pb.clone();
    let after = std::thread::spawn(move || {
        let mut last = None;
        // the same shape several times: allocators hand a freed address out again
        for _ in 0..3 {
            let _ = html_with_plugins(&pa.0, &pa.1, 0);
            last = html_with_plugins(&pb2.0, &pb2.1, 0);
        }
        last
    })
    .join()
    .ok()
    .flatten();
    let blocks = pb.1.matches("```").count() / 2;
    let slow = if blocks >= 8 { html_with_plugins(&pb.0, &pb.1, 150) } else { fresh.clone() };
    match (fresh, after, slow) {
        (Some(x), Some(y), Some(z)) => {
            if x != y {
                return format!("differs html-after-earlier-document :: {}", diff_window(&x, &y));
            }
            if x != z {
                return format!("differs html-with-slow-highlighter :: {}", diff_window(&x, &z));
            }
            "same".into()
        }
        _ => "skipped-panic".into(),
    }
}

/// `cb <threads> <input>`: the document parsed with a `broken_link_callback` on one thread, and on
/// `threads` threads sharing one `Options` whose callback keeps every caller inside until half of the
/// threads are inside it at the same moment (or 40 ms have passed).
fn cb_case(rest: &str) -> String {
    use comrak::{BrokenLinkReference, ResolvedReference};
    use std::panic::{catch_unwind, AssertUnwindSafe};
    use std::sync::atomic::{AtomicUsize, Ordering};
    use std::sync::Arc;
    let mut it = rest.splitn(2, ' ');
    let threads: usize = it.next().and_then(|x| x.parse().ok()).unwrap_or(8);
    let (o, md) = match it.next().and_then(Src::parse_input) {
        Some((o, Src::Doc(md))) => (o, md),
        _ => return "ERR bad-input".into(),
    };
    let resolve = |r: &BrokenLinkReference| Some(ResolvedReference { url: format!("/r/{}", r.normalized), title: r.original.to_string() });
    let mut plain = o.to_comrak();
    plain.parse.broken_link_callback = Some(Arc::new(move |r: BrokenLinkReference| resolve(&r)));
    let single = match catch_unwind(AssertUnwindSafe(|| {
        let arena = comrak::Arena::new();
        render3(comrak::parse_document(&arena, &md, &plain), &plain)
    })) {
        Ok(x) => x,
        Err(_) => return "skipped-panic".into(),
    };
    let inside = Arc::new(AtomicUsize::new(0));
    let need = (threads / 2).max(2);
    let mut shared = o.to_comrak();
    let g = inside.clone();
    shared.parse.broken_link_callback = Some(Arc::new(move |r: BrokenLinkReference| {
        g.fetch_add(1, Ordering::SeqCst);
        let t0 = std::time::Instant::now();
        while g.load(Ordering::SeqCst) < need && t0.elapsed() < std::time::Duration::from_millis(40) {
            std::thread::yield_now();
        }
        std::thread::sleep(std::time::Duration::from_millis(2));
        g.fetch_sub(1, Ordering::SeqCst);
        resolve(&r)
    }));
    let shared = Arc::new(shared);
    let md = Arc::new(md);
    let hs: Vec<_> = (0..threads)
        .map(|_| {
            let (c, md) = (shared.clone(), md.clone());
            std::thread::spawn(move || {
                catch_unwind(AssertUnwindSafe(|| {
                    let arena = comrak::Arena::new();
                    render3(comrak::parse_document(&arena, &md, &c), &c)
                }))
                .ok()
            })
        })
        .collect();
    for h in hs {
        match h.join() {
            Ok(Some(y)) => {
                for w in 0..3 {
                    if single[w] != y[w] {
                        return format!("differs {} :: {}", FMT[w], diff_window(&single[w], &y[w]));
                    }
                }
            }
            _ => return "skipped-panic".into(),
        }
    }
    "same".into()
}

// ---------------------------------------------------------------- syntect stage
// The syntax highlighter plugin (src/plugins/syntect.rs) is part of the property's subject: one
// adapter is shared by every call of a worker process (so state kept inside the adapter across
// documents shows), by the racing threads of one case, and is compared with a fresh adapter.
use comrak::plugins::syntect::{SyntectAdapter, SyntectAdapterBuilder};
use std::sync::OnceLock;

static SHARED_ADAPTERS: OnceLock<[SyntectAdapter; 2]> = OnceLock::new();

fn new_adapter(mode: usize) -> SyntectAdapter {
    if mode == 0 {
        SyntectAdapter::new(Some("base16-ocean.dark"))
    } else {
        SyntectAdapterBuilder::new().css().build()
    }
}

fn shared_adapter(mode: usize) -> &'static SyntectAdapter {
    &SHARED_ADAPTERS.get_or_init(|| [new_adapter(0), new_adapter(1)])[mode]
}

fn syn_render(o: &Opts, md: &str, ad: &SyntectAdapter) -> Result<Vec<u8>, String> {
    let c = o.to_comrak();
    let r = std::panic::catch_unwind(std::panic::AssertUnwindSafe(|| {
        let mut plugins = comrak::Plugins::default();
        plugins.render.codefence_syntax_highlighter = Some(ad);
        comrak::markdown_to_html_with_plugins(md, &c, &plugins).into_bytes()
    }));
    r.map_err(|_| "panic".to_string())
}

/// `syn <mode> <reps> <threads> <doc input>`: `ok <hex html>` or `differs\t<kind>\t<sig>\t<detail>`.
fn syn_case(rest: &str) -> String {
    let mut it = rest.splitn(4, ' ');
    let mode: usize = it.next().and_then(|x| x.parse().ok()).unwrap_or(0).min(1);
    let reps: usize = it.next().and_then(|x| x.parse().ok()).unwrap_or(1);
    let threads: usize = it.next().and_then(|x| x.parse().ok()).unwrap_or(0);
    let (o, md) = match it.next().and_then(Src::parse_input) {
        Some((o, Src::Doc(md))) => (o, md),
        _ => return "ERR bad-input".into(),
    };
    let fresh_ad = new_adapter(mode);
    let fresh = match syn_render(&o, &md, &fresh_ad) {
        Ok(r) => r,
        Err(_) => return "skipped-panic".into(),
    };
    let sig = |a: &[u8], b: &[u8]| sig_for(0, a, b).replace("html-", "syntect-");
    let shared = shared_adapter(mode);
    for i in 0..reps {
        match syn_render(&o, &md, shared) {
            Ok(r) if r == fresh => {}
            Ok(r) => {
                let kind = if i == 0 { "syntect-depends-on-earlier-document" } else { "syntect-repeat-call-differs" };
                return format!("differs\t{}\t{}\t{}", kind, sig(&fresh, &r), diff_window(&fresh, &r));
            }
            Err(_) => return "differs\tsyntect-panics-after-earlier-document\tany\tpanic with the shared adapter, none with a fresh one".into(),
        }
        match syn_render(&o, &md, &fresh_ad) {
            Ok(r) if r == fresh => {}
            Ok(r) => return format!("differs\tsyntect-repeat-call-differs\t{}\t{}", sig(&fresh, &r), diff_window(&fresh, &r)),
            Err(_) => return "skipped-panic".into(),
        }
    }
    if threads > 0 {
        let barrier = std::sync::Barrier::new(threads);
        let results: Vec<Result<Vec<u8>, String>> = std::thread::scope(|sc| {
            let hs: Vec<_> = (0..threads)
                .map(|_| {
                    let (o, md, barrier) = (&o, &md, &barrier);
                    sc.spawn(move || {
                        barrier.wait();
                        syn_render(o, md, shared)
                    })
                })
                .collect();
            hs.into_iter().map(|h| h.join().unwrap_or_else(|_| Err("thread panicked".into()))).collect()
        });
        for r in results.into_iter().flatten() {
            if r != fresh {
                return format!("differs\tsyntect-thread-call-differs\t{}\t{}", sig(&fresh, &r), diff_window(&fresh, &r));
            }
        }
    }
    format!("ok {}", hex(&fresh))
}

const SYN_LANGS: [&str; 14] = ["rust", "toml", "text", "py", "python", "c", "", "rust extra=1", "nope", "js", "ts", "console", "html", "RUST"];
const SYN_BODIES: [&str; 8] = ["fn main() { let x = 1; }\n", "a = \"b\"\n[t]\nk = 1\n", "plain words\n", "def f(x):\n    return x + 1\n", "<p class=\"x\">&amp;</p>\n", "int main(void) { return 0; }\n", "\n", "x < y && z > \"q\"\n"];

fn gen_syn_doc(r: &mut Rng) -> String {
    let mut d = String::new();
    let n = 1 + r.below(3);
    for _ in 0..n {
        if r.chance(1, 3) {
            d.push_str("para *text*\n\n");
        }
        let fence = if r.chance(1, 4) { "~~~" } else { "```" };
        d.push_str(fence);
        if r.chance(1, 5) {
            d.push(' ');
        }
        d.push_str(SYN_LANGS[r.below(SYN_LANGS.len())]);
        d.push('\n');
        d.push_str(SYN_BODIES[r.below(SYN_BODIES.len())]);
        d.push_str(fence);
        d.push_str("\n\n");
    }
    d
}

/// Footnote graphs: several definitions, the body referring to some of them, definitions referring to
/// further footnotes (first references made from inside other footnotes, chains, cycles, shared
/// targets), unreferenced and duplicate definitions. Numbering and section order of such documents
/// go through the footnote map.
fn gen_footnote_graph(r: &mut Rng) -> String {
    const L: [&str; 10] = ["a", "b", "c", "d", "e", "f", "g", "h", "A", "x y"];
    let k = 3 + r.below(7);
    let mut d = String::new();
    let nbody = 1 + r.below(4);
    d.push_str("Body");
    for _ in 0..nbody {
        d.push_str(&format!(" text[^{}]", L[r.below(k)]));
    }
    d.push_str(".\n\n");
    let mut order: Vec<usize> = (0..k).collect();
    for i in (1..order.len()).rev() {
        order.swap(i, r.below(i + 1));
    }
    for &i in &order {
        d.push_str(&format!("[^{}]: note {}", L[i], i));
        for _ in 0..r.below(3) {
            d.push_str(&format!(" see[^{}]", L[r.below(k)]));
        }
        d.push('\n');
        if r.chance(1, 5) {
            d.push_str(&format!("\n    [^{}]: nested\n", L[r.below(k)]));
        }
        d.push('\n');
    }
    if r.chance(1, 3) {
        d.push_str(&format!("More[^{}] and[^{}].\n", L[r.below(k)], L[r.below(k)]));
    }
    d
}

fn source_audit(rep: &mut Report) {
    // sites where iteration order or ambient state could leak into output
    let pats = ["HashMap", "HashSet", "static mut", "thread_local!", "lazy_static", "OnceCell", "OnceLock", "SystemTime", "Instant::", "rand::", "unsafe impl Send", "unsafe impl Sync", "RandomState"];
    let mut found: Vec<String> = vec![];
    // modules declared under #[cfg(comrak_verif)] in lib.rs are verification hooks as a whole
    let mut guarded_mods: Vec<String> = vec![];
    if let Ok(librs) = std::fs::read_to_string(format!("{}/src/lib.rs", crate::util::repo_root())) {
        let mut pending = false;
        for l in librs.lines() {
            let t = l.trim();
            if t.contains("cfg(comrak_verif)") {
                pending = true;
                continue;
            }
            if pending {
                if t.starts_with("#[") || t.starts_with("///") {
                    continue;
                }
                if let Some(rest) = t.strip_prefix("pub mod ").or_else(|| t.strip_prefix("mod ")) {
                    if let Some(name) = rest.strip_suffix(';') {
                        guarded_mods.push(format!("{}.rs", name.trim()));
                    }
                }
                pending = false;
            }
        }
    }
    let root = crate::util::repo_root();
    let mut stack = vec![std::path::PathBuf::from(format!("{}/src", root))];
    while let Some(d) = stack.pop() {
        if let Ok(rd) = std::fs::read_dir(&d) {
            for e in rd.flatten() {
                let p = e.path();
                if p.is_dir() {
                    if p.file_name().map(|n| n == "tests").unwrap_or(false) {
                        continue;
                    }
                    stack.push(p);
                } else if p.extension().map(|x| x == "rs").unwrap_or(false)
                    && !p.ends_with("tests.rs")
                    && !p.ends_with("scanners.rs")
                    && !guarded_mods.iter().any(|g| p.ends_with(g))
                {
                    if let Ok(text) = std::fs::read_to_string(&p) {
                        // skip items guarded by #[cfg(comrak_verif)] (verification hooks): from the attribute to
                        // the end of the item it guards (brace matching; a guarded single statement ends at `;`)
                        let mut guard_pending = false;
                        let mut depth: i32 = 0;
                        let mut in_guard = false;
                        for l in text.lines() {
                            let t = l.trim_start();
                            if !in_guard && !guard_pending && l.contains("cfg(comrak_verif)") {
                                guard_pending = true;
                                continue;
                            }
                            if guard_pending || in_guard {
                                let opens = l.matches('{').count() as i32;
                                let closes = l.matches('}').count() as i32;
                                if guard_pending {
                                    if t.starts_with("#[") || t.starts_with("///") {
                                        continue;
                                    }
                                    guard_pending = false;
                                    depth = opens - closes;
                                    in_guard = depth > 0 || !(t.ends_with(';') || t.ends_with('}') || t.ends_with(','));
                                    if depth <= 0 && (t.ends_with(';') || t.ends_with('}') || t.ends_with(',')) {
                                        in_guard = false;
                                    }
                                    continue;
                                }
                                depth += opens - closes;
                                if depth <= 0 && (opens + closes > 0 || t.ends_with(';')) {
                                    in_guard = false;
                                }
                                continue;
                            }
                            if t.starts_with("//") {
                                continue;
                            }
                            for pat in pats {
                                if l.contains(pat) {
                                    found.push(format!("{}|{}|{}", p.strip_prefix(format!("{}/", root)).unwrap_or(&p).display(), pat, t));
                                }
                            }
                        }
                    }
                }
            }
        }
    }
    found.sort();
    let allow = std::fs::read_to_string("/verif/audit/c05_sites.txt").unwrap_or_default();
    let allowed: std::collections::HashSet<&str> = allow.lines().collect();
    rep.add("audit-sites", found.len() as u64);
    for f in &found {
        rep.k_evals += 1;
        if !allowed.contains(f.as_str()) {
            rep.disagree("source-audit", f.clone(), "a hash-map / ambient-state site that is not in /verif/audit/c05_sites.txt (each listed site has an order-independence argument; a new one is an open obligation)".into());
        }
    }
    if std::env::var("CVH_WRITE_AUDIT").is_ok() {
        let _ = std::fs::write("/verif/audit/c05_sites.txt", found.join("\n") + "\n");
    }
}

pub fn run(cfg: &Cfg, rep: &mut Report) {
    let m = Model::from_env();
    let mut rng = Rng::new(cfg.seed ^ 0xC05);
    let corpus = Corpus::load();
    rep.rule = "documents and direct trees x random option vectors weighted to multi-attribute tags (github_pre_lang, full_info_string, sourcepos), footnotes, reference definitions, duplicate headings; each rendered repeatedly in one thread, from threads sharing one Options, and in fresh processes, by HTML, XML and CommonMark formatters; distinct_nontrivial counts distinct (kind sequence, option bits) classes".into();
    source_audit(rep);
    let n = if cfg.tier_thorough { 40_000 } else if cfg.full { 10_000 } else { 2_500 };
    let reps = if cfg.tier_thorough { 12 } else { 6 };
    let budget = std::time::Duration::from_secs(20);
    // All real rendering happens in isolated workers (a dependence on earlier documents can make
    // the renderer hang or allocate without bound; the coordinating process must survive that).
    let mut cases: Vec<(Opts, Src, String)> = vec![];
    let mut lines_w: Vec<String> = vec![];
    for i in 0..n {
        let (src, name) = if i % 5 == 4 { (Src::Doc(gen_footnote_graph(&mut rng)), "footnote-graph") } else { gen_case(&mut rng, &corpus) };
        let mut o = Opts::random(&mut rng);
        if name == "footnote-graph" {
            o.set("footnotes", true);
        }
        if rng.chance(1, 2) {
            o.set("github_pre_lang", rng.chance(1, 2)).set("full_info_string", true).set("sourcepos", rng.chance(2, 3));
        }
        if rng.chance(1, 3) {
            o.set("footnotes", true);
            o.header_ids = Some("h-".into());
        }
        if i < 3 {
            rep.sample(format!("{} opts [{}]", src.show(), o.describe()));
        }
        rep.count(&format!("gen-{}", name));
        let threads = if i % 8 == 0 { 8 } else { 0 };
        let input = src.input(&o);
        lines_w.push(format!("case {} {} {}", reps, threads, input));
        cases.push((o, src, input));
    }
    // curated: reference definitions whose labels differ only in case, used in a third spelling; one
    // definition with a long destination used so often that a few concurrent renders together pass the
    // expansion budget a lone render stays under; both on racing threads
    {
        let long_url = format!("/{}", "u".repeat(600));
        let mut heavy = format!("[ref]: {}\n\n", long_url);
        for i in 0..150 {
            heavy.push_str(&format!("[use {}][ref] ", i));
            if i % 10 == 9 {
                heavy.push_str("\n\n");
            }
        }
        let curated = [
            "[GitHub]: /first\n[GITHUB]: /second\n[gitHub]: /third\n\n[github] [Github][] [x][GITHUB]\n".to_string(),
            "[\u{df}]: /sharp\n[SS]: /ss\n\n[ss] [\u{1e9e}]\n".to_string(),
            heavy,
        ];
        for (k, md) in curated.iter().enumerate() {
            for threads in [8usize, 0] {
                let o = Opts::default();
                let src = Src::Doc(md.clone());
                let input = src.input(&o);
                lines_w.push(format!("case {} {} {}", if k == 2 { 3 } else { reps * 4 }, threads, input));
                cases.push((o, src, input));
                rep.count("gen-curated-reference-definitions");
            }
        }
    }
    let outs = crate::worker::run_cases("C05", &lines_w, budget, crate::worker::default_workers());
    let mut inputs: Vec<(String, [Vec<u8>; 3])> = vec![];
    let mut bt = Batch::new();
    for (idx, ((o, _src, input), got)) in cases.iter().zip(outs.iter()).enumerate() {
        match got {
            crate::worker::Outcome::Reply(l, _) => {
                let f: Vec<&str> = l.split('\t').collect();
                match f.as_slice() {
                    ["ok", hhtml, norm, tree, kinds] => {
                        rep.s_evals += (reps + 1) as u64;
                        let ks: Vec<String> = kinds.split(',').map(|x| x.to_string()).collect();
                        if ks.len() > 1 {
                            rep.nontrivial(&(ks.clone(), o.bits.clone()));
                        }
                        let want = hhtml.to_string();
                        let inp = input.clone();
                        bt.push(format!("html {} {} {}", o.wire(), norm, tree), move |resp, rep| {
                            rep.k_evals += 1;
                            if resp != want {
                                let (a, b) = (crate::util::unhex(&want).unwrap_or_default(), crate::util::unhex(resp).unwrap_or_default());
                                rep.disagree("html-bytes", inp, diff_window(&a, &b));
                            }
                        });
                        if idx % 10 == 0 {
                            inputs.push((input.clone(), [crate::util::unhex(hhtml).unwrap_or_default(), vec![], vec![]]));
                        }
                    }
                    ["differs", kind, sig, detail] => rep.fail(kind, sig, input.clone(), detail.to_string()),
                    ["skipped-panic"] => rep.count("skipped-panic"),
                    _ => rep.notes.push(format!("unexpected worker reply: {}", &l[..l.len().min(80)])),
                }
            }
            crate::worker::Outcome::Hang(ms) => rep.fail("render-hangs", "any", input.clone(), format!("no answer within {} ms (this worker had rendered other documents under other options before: see the sequence oracle)", ms)),
            crate::worker::Outcome::Died { how, .. } => rep.fail("render-dies", "any", input.clone(), how.clone()),
        }
        if bt.len() > 4000 {
            let b = std::mem::replace(&mut bt, Batch::new());
            b.run(&m, rep);
        }
    }
    bt.run(&m, rep);
    // fresh processes (hash seeds differ per process) and "earlier documents" sequences, in
    // isolated workers under a wall-clock watchdog (a dependence on earlier documents can also hang)
    let budget = std::time::Duration::from_secs(20);
    let lines: Vec<String> = inputs.iter().map(|x| x.0.clone()).collect();
    let outs = crate::worker::run_cases("C05", &lines, budget, crate::worker::default_workers());
    for ((inp, want), got) in inputs.iter().zip(outs.iter()) {
        rep.s_evals += 1;
        let w = format!("R {} ", hex(&want[0]));
        match got {
            crate::worker::Outcome::Reply(l, _) if l.starts_with(&w) || l == "skipped-panic" => {}
            crate::worker::Outcome::Reply(_, _) => rep.fail("process-run-differs", "any", inp.clone(), "a fresh process produced different bytes for the same input and options".into()),
            crate::worker::Outcome::Hang(ms) => rep.fail("process-run-hangs", "any", inp.clone(), format!("no answer within {} ms in a fresh process", ms)),
            crate::worker::Outcome::Died { how, .. } => rep.fail("process-run-died", "any", inp.clone(), how.clone()),
        }
    }
    rep.add("process-comparisons", outs.len() as u64);
    // sequences: B alone vs A then B on one thread; A and B differ in options (per-thread caches keyed too coarsely show here)
    let mut seqs: Vec<String> = vec![];
    let nseq = if cfg.tier_thorough { 4000 } else { 600 };
    for _ in 0..nseq {
        if lines.len() < 2 {
            break;
        }
        let a = &lines[rng.below(lines.len())];
        let b = &lines[rng.below(lines.len())];
        // same subject under options that differ in one extension bit, and unrelated pairs
        if rng.chance(1, 2) {
            if let Some((mut o, src)) = Src::parse_input(b) {
                let i = rng.below(18);
                o.bits[i] = !o.bits[i];
                let a2 = src.input(&o);
                seqs.push(format!("seq {} || {}", a2, b));
                continue;
            }
        }
        seqs.push(format!("seq {} || {}", a, b));
    }
    // curated: syntax whose special characters are enabled by one of two options sharing a table entry
    for (md, on, off) in [("Water is H~2~O and ~~gone~~.\n", "subscript", "strikethrough"), ("a ^b^ c\n", "superscript", "footnotes"), ("x __u__ y\n", "underline", "smart"), ("||s|| t\n", "spoiler", "table")] {
        let base = Opts::default();
        let with_on = base.clone().with(on, true);
        let with_off = base.clone().with(off, true);
        for (first, second) in [(&base, &with_on), (&with_off, &with_on), (&with_on, &base), (&with_on, &with_off)] {
            seqs.push(format!("seq {} || {}", Src::Doc("plain *text*\n".into()).input(first), Src::Doc(md.into()).input(second)));
        }
    }
    // curated: an earlier document on either side of a size threshold (a buffer kept per thread for large inputs) that
    // ends without a line terminator, in NUL, a lone CR or an unfinished construct, then a later small or large document
    {
        let filler = |n: usize| -> String {
            let mut t = String::new();
            while t.len() < n {
                t.push_str("lorem *ipsum* dolor `sit` amet\n");
            }
            t
        };
        let o = Opts::default();
        for asize in [100usize, 70_000] {
            for ending in ["", "\0", "\r", "tail\0\0", "\\", "`x"] {
                for bsize in [50usize, 70_000] {
                    let a = format!("{}{}", filler(asize), ending);
                    let b = format!("# Title\n\n{}", filler(bsize));
                    seqs.push(format!("seq {} || {}", Src::Doc(a).input(&o), Src::Doc(b).input(&o)));
                    rep.count("sequence-size-threshold-and-ending");
                }
            }
        }
    }
    let outs = crate::worker::run_cases("C05", &seqs, budget, crate::worker::default_workers());
    for (sq, got) in seqs.iter().zip(outs.iter()) {
        rep.s_evals += 1;
        match got {
            crate::worker::Outcome::Reply(l, _) if l == "same" || l == "skipped-panic" => {}
            crate::worker::Outcome::Reply(l, _) => rep.fail("depends-on-earlier-document", "any", sq.clone(), l.clone()),
            crate::worker::Outcome::Hang(ms) => rep.fail("depends-on-earlier-document", "hang", sq.clone(), format!("rendering after an earlier document did not finish within {} ms", ms)),
            crate::worker::Outcome::Died { how, .. } => rep.fail("depends-on-earlier-document", "died", sq.clone(), how.clone()),
        }
    }
    rep.add("sequence-comparisons", seqs.len() as u64);
    // earlier documents in the same (caller-owned) arena; callbacks racing on threads that share the options
    let mut extra: Vec<String> = vec![];
    let ragged = ["| a | b | c |\n|---|---|---|\n| 1 |\n| 1 | 2 | 3 | 4 |\n", "x[^n] y[^n]\n\n[^n]: z\n\n# h\n\n# h\n", "- a\n  - b\n\n1. c\n"];
    for md in ragged {
        let mut o = Opts::all_extensions();
        o.header_ids = Some("h-".into());
        extra.push(format!("arena {}", Src::Doc(md.to_string()).input(&o)));
    }
    let docs: Vec<&String> = lines.iter().filter(|l| l.starts_with("doc ")).collect();
    let narena = if cfg.tier_thorough { 200 } else { 40 };
    for _ in 0..narena.min(docs.len()) {
        extra.push(format!("arena {}", docs[rng.below(docs.len())]));
    }
    for md in ["See [Page One] and [page two][].\n", "[a][b] [c] ![d][e]\n\n> [f]\n\n- [g][]\n", "[x]\n\n[x]: /defined\n\n[y] [z][] [w][v]\n"] {
        for threads in [16usize, 6] {
            extra.push(format!("cb {} {}", threads, Src::Doc(md.to_string()).input(&Opts::default())));
        }
    }
    // plugins: a heading adapter that echoes the text it is given, a highlighter that may be slow
    {
        let heads = ["# Installation\n", "## Usage\n", "# A *b* `c`\n\ntext\n", "Setext\n===\n", "## Usage\n\n## Usage again\n"];
        for a in heads {
            for b in heads {
                if a != b {
                    extra.push(format!("plug {} || {}", Src::Doc(a.to_string()).input(&Opts::default()), Src::Doc(b.to_string()).input(&Opts::default())));
                }
            }
        }
        let many_blocks: String = (0..12).map(|i| format!("# h{}\n\n```rust\nfn f{}() {{}}\n```\n\n", i, i)).collect();
        extra.push(format!("plug {} || {}", Src::Doc("# x\n".to_string()).input(&Opts::default()), Src::Doc(many_blocks).input(&Opts::default())));
    }
    let ncb = if cfg.tier_thorough { 150 } else { 30 };
    let with_brackets: Vec<&&String> = docs.iter().filter(|l| l.rsplit(' ').next().map_or(false, |h| h.contains("5b") && h.contains("5d"))).collect();
    for _ in 0..ncb.min(with_brackets.len()) {
        extra.push(format!("cb {} {}", 12, with_brackets[rng.below(with_brackets.len())]));
    }
    let outs = crate::worker::run_cases("C05", &extra, std::time::Duration::from_secs(60), 6);
    for (l, got) in extra.iter().zip(outs.iter()) {
        rep.s_evals += 1;
        let (kind, what) = if l.starts_with("arena ") {
            ("depends-on-earlier-document", "shared-arena")
        } else if l.starts_with("plug ") {
            ("depends-on-earlier-document", "plugins")
        } else {
            ("thread-race-differs", "broken-link-callback")
        };
        rep.count(if l.starts_with("arena ") { "shared-arena-comparisons" } else if l.starts_with("plug ") { "plugin-comparisons" } else { "racing-callback-comparisons" });
        match got {
            crate::worker::Outcome::Reply(r, _) if r == "same" || r == "skipped-panic" => {}
            crate::worker::Outcome::Reply(r, _) => rep.fail(kind, what, l.clone(), r.clone()),
            crate::worker::Outcome::Hang(ms) => rep.fail(kind, "hang", l.clone(), format!("no answer within {} ms", ms)),
            crate::worker::Outcome::Died { how, .. } => rep.fail(kind, "died", l.clone(), how.clone()),
        }
    }
    // syntect: documents with fenced code blocks in known / unknown / empty languages, rendered
    // through a highlighter shared by all cases of a worker, by racing threads, and a fresh one
    let nsyn = if cfg.tier_thorough { 6000 } else if cfg.full { 1500 } else { 400 };
    let mut syn_lines: Vec<String> = vec![];
    for i in 0..nsyn {
        let mut o = Opts::default();
        o.set("github_pre_lang", rng.chance(1, 2)).set("full_info_string", rng.chance(1, 2)).set("sourcepos", rng.chance(1, 3)).set("unsafe_", rng.chance(1, 4));
        let md = gen_syn_doc(&mut rng);
        let threads = if i % 8 == 0 { 8 } else { 0 };
        syn_lines.push(format!("syn {} 3 {} {}", rng.below(2), threads, Src::Doc(md).input(&o)));
    }
    // few workers, many cases each: state left in the shared adapter by earlier documents is the point
    let outs = crate::worker::run_cases("C05", &syn_lines, std::time::Duration::from_secs(60), 4);
    for (l, got) in syn_lines.iter().zip(outs.iter()) {
        rep.s_evals += 1;
        match got {
            crate::worker::Outcome::Reply(r, _) if r.starts_with("ok ") => rep.count("syntect-ok"),
            crate::worker::Outcome::Reply(r, _) if r == "skipped-panic" => rep.count("skipped-panic"),
            crate::worker::Outcome::Reply(r, _) => {
                let f: Vec<&str> = r.split('\t').collect();
                match f.as_slice() {
                    ["differs", kind, sig, detail] => rep.fail(kind, sig, l.clone(), detail.to_string()),
                    _ => rep.notes.push(format!("unexpected syntect worker reply: {}", &r[..r.len().min(80)])),
                }
            }
            crate::worker::Outcome::Hang(ms) => rep.fail("syntect-render-hangs", "any", l.clone(), format!("no answer within {} ms", ms)),
            crate::worker::Outcome::Died { how, .. } => rep.fail("syntect-render-dies", "any", l.clone(), how.clone()),
        }
    }
    rep.add("syntect-comparisons", syn_lines.len() as u64);
}

pub fn replay(kind: &str, input: &str) -> Result<Option<String>, String> {
    if input.starts_with("syn ") {
        // the failing case alone does not reproduce a dependence on earlier documents: replay it after a warm-up
        let warm = format!("syn 0 1 0 {}", Src::Doc("```rust\nfn main() {}\n```\n".into()).input(&Opts::default()));
        let warm1 = format!("syn 1 1 0 {}", Src::Doc("```rust\nfn main() {}\n```\n".into()).input(&Opts::default()));
        let outs = crate::worker::run_cases("C05", &[warm, warm1, input.to_string(), input.to_string()], std::time::Duration::from_secs(60), 1);
        for o in &outs[2..] {
            match o {
                crate::worker::Outcome::Reply(l, _) if l.starts_with("differs\t") => return Ok(Some(l.replace('\t', " "))),
                crate::worker::Outcome::Reply(_, _) => {}
                crate::worker::Outcome::Hang(ms) => return Ok(Some(format!("{}: hang after {} ms", kind, ms))),
                crate::worker::Outcome::Died { how, .. } => return Ok(Some(format!("{}: worker died: {}", kind, how))),
            }
        }
        return Ok(None);
    }
    if input.starts_with("seq ") || input.starts_with("arena ") || input.starts_with("cb ") || input.starts_with("plug ") {
        let outs = crate::worker::run_cases("C05", &[input.to_string()], std::time::Duration::from_secs(60), 1);
        return Ok(match &outs[0] {
            crate::worker::Outcome::Reply(l, _) if l == "same" || l == "skipped-panic" => None,
            crate::worker::Outcome::Reply(l, _) => Some(format!("{}: {}", kind, l)),
            crate::worker::Outcome::Hang(ms) => Some(format!("{}: hang after {} ms", kind, ms)),
            crate::worker::Outcome::Died { how, .. } => Some(format!("{}: worker died: {}", kind, how)),
        });
    }
    let _ = Src::parse_input(input).ok_or("bad replay input")?;
    let outs = crate::worker::run_cases("C05", &[format!("case 40 8 {}", input)], std::time::Duration::from_secs(30), 1);
    match &outs[0] {
        crate::worker::Outcome::Reply(l, _) if l.starts_with("differs\t") => return Ok(Some(l.replace('\t', " "))),
        crate::worker::Outcome::Reply(_, _) => {}
        crate::worker::Outcome::Hang(ms) => return Ok(Some(format!("{}: hang after {} ms", kind, ms))),
        crate::worker::Outcome::Died { how, .. } => return Ok(Some(format!("{}: worker died: {}", kind, how))),
    }
    Ok(None)
}
