//! C05: rendering is a deterministic pure function of input and options.
//! K: the real HTML equals the model's (a function of options and tree) for every repetition;
//!    source audit of hash-map / global-state sites against /verif/audit/c05_sites.json.
//! S: repeated calls in one process (a fresh `HashMap` gets a fresh seed, so hash-order
//!    dependence shows within a few calls), calls racing on threads that share one `Options`,
//!    and fresh processes (`cvh c05worker`) must all yield byte-identical output for all three
//!    formatters.
use crate::gen::Corpus;
use crate::htmlk::{gen_case, push_html_k, Src};
use crate::model::{Batch, Model};
use crate::opts::Opts;
use crate::report::Report;
use crate::rng::Rng;
use crate::util::{diff_window, hex};
use crate::Cfg;
use comrak::{format_commonmark, format_html, format_xml};
use std::io::Write;
use std::process::{Command, Stdio};

/// (html, xml, commonmark) of one subject, computed from scratch (parse or build, then format).
pub fn render_all(src: &Src, o: &Opts) -> Result<[Vec<u8>; 3], String> {
    let c = o.to_comrak();
    src.with_root(o, |root| {
        let mut h = Vec::new();
        format_html(root, &c, &mut h).unwrap();
        let mut x = Vec::new();
        format_xml(root, &c, &mut x).unwrap();
        let mut m = Vec::new();
        format_commonmark(root, &c, &mut m).unwrap();
        [h, x, m]
    })
}

const FMT: [&str; 3] = ["html", "xml", "commonmark"];

fn sig_for(which: usize, a: &[u8], b: &[u8]) -> String {
    // narrow class: which formatter, and whether the first difference sits inside a <pre/<code start tag
    let mut i = 0;
    while i < a.len() && i < b.len() && a[i] == b[i] {
        i += 1;
    }
    let lo = a[..i].iter().rposition(|c| *c == b'<').unwrap_or(0);
    let tag: String = a[lo..].iter().take(5).map(|c| *c as char).collect();
    if tag.starts_with("<pre") || tag.starts_with("<code") {
        format!("{}-code-block-attributes", FMT[which])
    } else {
        format!("{}-other", FMT[which])
    }
}

pub fn push_case<'a>(bt: &mut Batch<'a>, rep: &mut Report, o: Opts, src: Src, name: &'static str, reps: usize, threads: usize) {
    let input = src.input(&o);
    push_html_k(bt, rep, &o, &src, name);
    let first = match render_all(&src, &o) {
        Ok(r) => r,
        Err(e) => {
            // totality is C01's subject: counted, not judged here
            let _ = (&input, &e);
            rep.count("skipped-panic");
            return;
        }
    };
    // repeated calls in this thread
    for _ in 0..reps {
        rep.s_evals += 1;
        if let Ok(r) = render_all(&src, &o) {
            for w in 0..3 {
                if r[w] != first[w] {
                    rep.fail("repeat-call-differs", &sig_for(w, &first[w], &r[w]), input.clone(), diff_window(&first[w], &r[w]));
                    return;
                }
            }
        }
    }
    // calls racing on threads sharing the same Options value
    if threads > 0 {
        let c = o.to_comrak();
        let barrier = std::sync::Barrier::new(threads);
        let results: Vec<Result<[Vec<u8>; 3], String>> = std::thread::scope(|sc| {
            let hs: Vec<_> = (0..threads)
                .map(|_| {
                    let (c, src, o, barrier) = (&c, &src, &o, &barrier);
                    sc.spawn(move || {
                        barrier.wait();
                        src.with_root(o, |root| {
                            let mut h = Vec::new();
                            format_html(root, c, &mut h).unwrap();
                            let mut x = Vec::new();
                            format_xml(root, c, &mut x).unwrap();
                            let mut m = Vec::new();
                            format_commonmark(root, c, &mut m).unwrap();
                            [h, x, m]
                        })
                    })
                })
                .collect();
            hs.into_iter().map(|h| h.join().unwrap_or_else(|_| Err("thread panicked".into()))).collect()
        });
        for r in results {
            rep.s_evals += 1;
            if let Ok(r) = r {
                for w in 0..3 {
                    if r[w] != first[w] {
                        rep.fail("thread-call-differs", &sig_for(w, &first[w], &r[w]), input.clone(), diff_window(&first[w], &r[w]));
                        return;
                    }
                }
            }
        }
    }
}

/// `cvh worker C05`: reads replay inputs on stdin (one per line), prints hex(html) hex(xml) hex(cm) per line.
pub fn worker() {
    let stdin = std::io::stdin();
    let mut line = String::new();
    let out = std::io::stdout();
    let mut out = out.lock();
    loop {
        line.clear();
        if stdin.read_line(&mut line).unwrap_or(0) == 0 {
            break;
        }
        let l = line.trim_end();
        let r = Src::parse_input(l).and_then(|(o, src)| render_all(&src, &o).ok());
        match r {
            Some(r) => {
                let _ = writeln!(out, "{} {} {}", hex(&r[0]), hex(&r[1]), hex(&r[2]));
            }
            None => {
                let _ = writeln!(out, "ERR");
            }
        }
    }
}

fn fresh_process(inputs: &[String]) -> Option<Vec<String>> {
    let exe = std::env::current_exe().ok()?;
    let mut child = Command::new(exe).arg("worker").arg("C05").stdin(Stdio::piped()).stdout(Stdio::piped()).spawn().ok()?;
    let mut stdin = child.stdin.take()?;
    let data = inputs.join("\n") + "\n";
    let writer = std::thread::spawn(move || {
        let _ = stdin.write_all(data.as_bytes());
    });
    let out = child.wait_with_output().ok()?;
    let _ = writer.join();
    Some(String::from_utf8_lossy(&out.stdout).lines().map(|s| s.to_string()).collect())
}

fn source_audit(rep: &mut Report) {
    // sites where iteration order or ambient state could leak into output
    let pats = ["HashMap", "HashSet", "static mut", "thread_local!", "lazy_static", "OnceCell", "OnceLock", "SystemTime", "Instant::", "rand::", "unsafe impl Send", "unsafe impl Sync", "RandomState"];
    let mut found: Vec<String> = vec![];
    // modules declared under #[cfg(comrak_verif)] in lib.rs are verification hooks as a whole
    let mut guarded_mods: Vec<String> = vec![];
    if let Ok(librs) = std::fs::read_to_string(format!("{}/src/lib.rs", crate::util::repo_root())) {
        let mut pending = false;
        for l in librs.lines() {
            let t = l.trim();
            if t.contains("cfg(comrak_verif)") {
                pending = true;
                continue;
            }
            if pending {
                if t.starts_with("#[") || t.starts_with("///") {
                    continue;
                }
                if let Some(rest) = t.strip_prefix("pub mod ").or_else(|| t.strip_prefix("mod ")) {
                    if let Some(name) = rest.strip_suffix(';') {
                        guarded_mods.push(format!("{}.rs", name.trim()));
                    }
                }
                pending = false;
            }
        }
    }
    let root = crate::util::repo_root();
    let mut stack = vec![std::path::PathBuf::from(format!("{}/src", root))];
    while let Some(d) = stack.pop() {
        if let Ok(rd) = std::fs::read_dir(&d) {
            for e in rd.flatten() {
                let p = e.path();
                if p.is_dir() {
                    if p.file_name().map(|n| n == "tests").unwrap_or(false) {
                        continue;
                    }
                    stack.push(p);
                } else if p.extension().map(|x| x == "rs").unwrap_or(false)
                    && !p.ends_with("tests.rs")
                    && !p.ends_with("scanners.rs")
                    && !guarded_mods.iter().any(|g| p.ends_with(g))
                {
                    if let Ok(text) = std::fs::read_to_string(&p) {
                        // skip items guarded by #[cfg(comrak_verif)] (verification hooks): from the attribute to
                        // the end of the item it guards (brace matching; a guarded single statement ends at `;`)
                        let mut guard_pending = false;
                        let mut depth: i32 = 0;
                        let mut in_guard = false;
                        for l in text.lines() {
                            let t = l.trim_start();
                            if !in_guard && !guard_pending && l.contains("cfg(comrak_verif)") {
                                guard_pending = true;
                                continue;
                            }
                            if guard_pending || in_guard {
                                let opens = l.matches('{').count() as i32;
                                let closes = l.matches('}').count() as i32;
                                if guard_pending {
                                    if t.starts_with("#[") || t.starts_with("///") {
                                        continue;
                                    }
                                    guard_pending = false;
                                    depth = opens - closes;
                                    in_guard = depth > 0 || !(t.ends_with(';') || t.ends_with('}') || t.ends_with(','));
                                    if depth <= 0 && (t.ends_with(';') || t.ends_with('}') || t.ends_with(',')) {
                                        in_guard = false;
                                    }
                                    continue;
                                }
                                depth += opens - closes;
                                if depth <= 0 && (opens + closes > 0 || t.ends_with(';')) {
                                    in_guard = false;
                                }
                                continue;
                            }
                            if t.starts_with("//") {
                                continue;
                            }
                            for pat in pats {
                                if l.contains(pat) {
                                    found.push(format!("{}|{}|{}", p.strip_prefix(format!("{}/", root)).unwrap_or(&p).display(), pat, t));
                                }
                            }
                        }
                    }
                }
            }
        }
    }
    found.sort();
    let allow = std::fs::read_to_string("/verif/audit/c05_sites.txt").unwrap_or_default();
    let allowed: std::collections::HashSet<&str> = allow.lines().collect();
    rep.add("audit-sites", found.len() as u64);
    for f in &found {
        rep.k_evals += 1;
        if !allowed.contains(f.as_str()) {
            rep.disagree("source-audit", f.clone(), "a hash-map / ambient-state site that is not in /verif/audit/c05_sites.txt (each listed site has an order-independence argument; a new one is an open obligation)".into());
        }
    }
    if std::env::var("CVH_WRITE_AUDIT").is_ok() {
        let _ = std::fs::write("/verif/audit/c05_sites.txt", found.join("\n") + "\n");
    }
}

pub fn run(cfg: &Cfg, rep: &mut Report) {
    let m = Model::from_env();
    let mut rng = Rng::new(cfg.seed ^ 0xC05);
    let corpus = Corpus::load();
    rep.rule = "documents and direct trees x random option vectors weighted to multi-attribute tags (github_pre_lang, full_info_string, sourcepos), footnotes, reference definitions, duplicate headings; each rendered repeatedly in one thread, from threads sharing one Options, and in fresh processes, by HTML, XML and CommonMark formatters; distinct_nontrivial counts distinct (kind sequence, option bits) classes".into();
    source_audit(rep);
    let n = if cfg.tier_thorough { 40_000 } else if cfg.full { 10_000 } else { 2_500 };
    let reps = if cfg.tier_thorough { 12 } else { 6 };
    let mut inputs: Vec<(String, [Vec<u8>; 3])> = vec![];
    let mut bt = Batch::new();
    for i in 0..n {
        let (src, name) = gen_case(&mut rng, &corpus);
        let mut o = Opts::random(&mut rng);
        if rng.chance(1, 2) {
            o.set("github_pre_lang", rng.chance(1, 2)).set("full_info_string", true).set("sourcepos", rng.chance(2, 3));
        }
        if rng.chance(1, 3) {
            o.set("footnotes", true);
            o.header_ids = Some("h-".into());
        }
        if i < 3 {
            rep.sample(format!("{} opts [{}]", src.show(), o.describe()));
        }
        let threads = if i % 8 == 0 { 8 } else { 0 };
        if i % 10 == 0 {
            if let Ok(r) = render_all(&src, &o) {
                inputs.push((src.input(&o), r));
            }
        }
        push_case(&mut bt, rep, o, src, name, reps, threads);
        if bt.len() > 4000 {
            let b = std::mem::replace(&mut bt, Batch::new());
            b.run(&m, rep);
        }
    }
    bt.run(&m, rep);
    // fresh processes
    let procs = if cfg.tier_thorough { 6 } else { 3 };
    let lines: Vec<String> = inputs.iter().map(|x| x.0.clone()).collect();
    for _ in 0..procs {
        match fresh_process(&lines) {
            None => rep.notes.push("could not spawn the c05 worker process".into()),
            Some(outs) => {
                for ((inp, want), got) in inputs.iter().zip(outs.iter()) {
                    rep.s_evals += 1;
                    let w = format!("{} {} {}", hex(&want[0]), hex(&want[1]), hex(&want[2]));
                    if *got != w {
                        rep.fail("process-run-differs", "any", inp.clone(), "a fresh process produced different bytes for the same input and options".into());
                    }
                }
                rep.add("process-comparisons", outs.len() as u64);
            }
        }
    }
}

pub fn replay(kind: &str, input: &str) -> Result<Option<String>, String> {
    let (o, src) = Src::parse_input(input).ok_or("bad replay input")?;
    let m = Model::from_env();
    let mut rep = Report::new("C05");
    let mut bt = Batch::new();
    push_case(&mut bt, &mut rep, o, src, "replay", 40, 8);
    bt.run(&m, &mut rep);
    for c in rep.s_fail.iter().chain(rep.k_disagree.iter()) {
        if kind.is_empty() || c.kind == kind {
            return Ok(Some(format!("{}: {}", c.kind, c.detail)));
        }
    }
    Ok(None)
}
