//! Isolated worker processes with a wall-clock watchdog (C01, C06).
//!
//! The harness re-executes itself as `cvh worker <Cid>`; a worker reads one case per line on
//! stdin and answers one line per case on stdout. The parent hands out one case at a time, so it
//! always knows which case was in flight when a worker dies (abort, stack overflow, signal) or
//! exceeds the per-case wall-clock budget (the parent kills it and records a hang).
//! std only.
use std::io::{BufRead, BufReader, Read, Write};
use std::process::{Child, ChildStdin, Command, Stdio};
use std::sync::atomic::{AtomicUsize, Ordering};
use std::sync::mpsc::{channel, Receiver, RecvTimeoutError};
use std::sync::{Arc, Mutex};
use std::time::{Duration, Instant};

/// Stack of the thread that runs the cases inside a worker: the usual main-thread size.
pub const WORKER_STACK: usize = 8 << 20;

#[derive(Clone, Debug)]
pub enum Outcome {
    /// the worker answered (one line, without the newline) after this many milliseconds
    Reply(String, u64),
    /// no answer within the budget (twice: once in the pool, once alone with a tripled budget)
    Hang(u64),
    /// the worker process died while this case was in flight
    Died { how: String, stderr: String },
}

/// Document specification shared by C01 and C06 replay inputs: parts joined by `+`,
/// each part `hex` or `hex*N` (the bytes repeated N times); `-` is the empty string.
pub fn expand_spec(spec: &str) -> Option<Vec<u8>> {
    let mut out = Vec::new();
    for part in spec.split('+') {
        let (h, n) = match part.split_once('*') {
            Some((h, n)) => (h, n.parse::<usize>().ok()?),
            None => (part, 1),
        };
        let b = crate::util::unhex(h)?;
        if b.len().checked_mul(n)? > (64 << 20) {
            return None;
        }
        for _ in 0..n {
            out.extend_from_slice(&b);
        }
    }
    Some(out)
}

/// `prefix^n body suffix^n` etc. as a spec string.
pub fn spec_of(parts: &[(&[u8], usize)]) -> String {
    let v: Vec<String> = parts
        .iter()
        .map(|(b, n)| if *n == 1 { crate::util::hex(b) } else { format!("{}*{}", crate::util::hex(b), n) })
        .collect();
    if v.is_empty() {
        "-".to_string()
    } else {
        v.join("+")
    }
}

// ---------------------------------------------------------------- worker side

static LAST_PANIC: Mutex<Option<String>> = Mutex::new(None);

/// Installs a panic hook that remembers message and location of the last panic.
pub fn install_panic_recorder() {
    std::panic::set_hook(Box::new(|info| {
        let msg = if let Some(s) = info.payload().downcast_ref::<&str>() {
            s.to_string()
        } else if let Some(s) = info.payload().downcast_ref::<String>() {
            s.clone()
        } else {
            "<non-string panic payload>".to_string()
        };
        let loc = info.location().map(|l| format!("{}:{}:{}", l.file(), l.line(), l.column())).unwrap_or_default();
        if let Ok(mut g) = LAST_PANIC.lock() {
            *g = Some(format!("{} @ {}", msg, loc));
        }
    }));
}

pub fn take_panic() -> String {
    LAST_PANIC.lock().ok().and_then(|mut g| g.take()).unwrap_or_else(|| "<panic message not recorded>".to_string())
}

/// Main loop of a worker process: answers each stdin line with `f(line)`.
pub fn worker_main(f: fn(&str) -> String) {
    install_panic_recorder();
    let h = std::thread::Builder::new()
        .name("cvh-case".into())
        .stack_size(WORKER_STACK)
        .spawn(move || {
            let stdin = std::io::stdin();
            let stdout = std::io::stdout();
            let mut line = String::new();
            loop {
                line.clear();
                match stdin.lock().read_line(&mut line) {
                    Ok(0) | Err(_) => break,
                    Ok(_) => {}
                }
                let l = line.trim_end_matches('\n');
                if l.is_empty() {
                    continue;
                }
                let r = f(l);
                let mut o = stdout.lock();
                let _ = o.write_all(r.replace('\n', " ").as_bytes());
                let _ = o.write_all(b"\n");
                let _ = o.flush();
            }
        })
        .expect("spawn case thread");
    let _ = h.join();
}

// ---------------------------------------------------------------- parent side

struct Proc {
    child: Child,
    stdin: ChildStdin,
    rx: Receiver<String>,
    err: Arc<Mutex<Vec<u8>>>,
}

fn spawn(prop: &str) -> Proc {
    // /proc/self/exe keeps working when the binary on disk is replaced by a concurrent rebuild
    let exe = if std::path::Path::new("/proc/self/exe").exists() { std::path::PathBuf::from("/proc/self/exe") } else { std::env::current_exe().expect("current_exe") };
    let mut child = Command::new(exe)
        .arg("worker")
        .arg(prop)
        .stdin(Stdio::piped())
        .stdout(Stdio::piped())
        .stderr(Stdio::piped())
        .spawn()
        .expect("spawn worker");
    let stdin = child.stdin.take().unwrap();
    let stdout = child.stdout.take().unwrap();
    let mut stderr = child.stderr.take().unwrap();
    let (tx, rx) = channel();
    std::thread::spawn(move || {
        let rd = BufReader::new(stdout);
        for l in rd.lines() {
            match l {
                Ok(l) => {
                    if tx.send(l).is_err() {
                        break;
                    }
                }
                Err(_) => break,
            }
        }
    });
    let err = Arc::new(Mutex::new(Vec::new()));
    let err2 = err.clone();
    std::thread::spawn(move || {
        let mut buf = [0u8; 4096];
        loop {
            match stderr.read(&mut buf) {
                Ok(0) | Err(_) => break,
                Ok(n) => {
                    let mut g = err2.lock().unwrap();
                    g.extend_from_slice(&buf[..n]);
                    let l = g.len();
                    if l > 8192 {
                        g.drain(..l - 4096);
                    }
                }
            }
        }
    });
    Proc { child, stdin, rx, err }
}

fn describe_exit(child: &mut Child) -> String {
    match child.wait() {
        Ok(st) => {
            #[cfg(unix)]
            {
                use std::os::unix::process::ExitStatusExt;
                if let Some(sig) = st.signal() {
                    return format!("signal {}", sig);
                }
            }
            format!("exit {:?}", st.code())
        }
        Err(e) => format!("wait failed: {}", e),
    }
}

enum One {
    Reply(String, u64),
    Timeout,
    Died(String, String),
}

fn one(p: &mut Option<Proc>, prop: &str, case: &str, budget: Duration) -> One {
    if p.is_none() {
        *p = Some(spawn(prop));
    }
    let pr = p.as_mut().unwrap();
    let t0 = Instant::now();
    let sent = pr.stdin.write_all(case.as_bytes()).and_then(|_| pr.stdin.write_all(b"\n")).and_then(|_| pr.stdin.flush());
    let r = if sent.is_err() { Err(RecvTimeoutError::Disconnected) } else { pr.rx.recv_timeout(budget) };
    match r {
        Ok(l) => One::Reply(l, t0.elapsed().as_millis() as u64),
        Err(RecvTimeoutError::Timeout) => {
            let mut pr = p.take().unwrap();
            let _ = pr.child.kill();
            let _ = pr.child.wait();
            One::Timeout
        }
        Err(RecvTimeoutError::Disconnected) => {
            let mut pr = p.take().unwrap();
            let how = describe_exit(&mut pr.child);
            // let the stderr reader drain
            std::thread::sleep(Duration::from_millis(20));
            let e = String::from_utf8_lossy(&pr.err.lock().unwrap()).to_string();
            One::Died(how, e)
        }
    }
}

/// Runs every case in an isolated worker; `nworkers` processes in parallel.
pub fn run_cases(prop: &str, cases: &[String], budget: Duration, nworkers: usize) -> Vec<Outcome> {
    let next = AtomicUsize::new(0);
    let results: Mutex<Vec<Option<Outcome>>> = Mutex::new(vec![None; cases.len()]);
    let hung: Mutex<Vec<usize>> = Mutex::new(vec![]);
    std::thread::scope(|sc| {
        for _ in 0..nworkers.max(1).min(cases.len().max(1)) {
            sc.spawn(|| {
                let mut p: Option<Proc> = None;
                loop {
                    let i = next.fetch_add(1, Ordering::SeqCst);
                    if i >= cases.len() {
                        break;
                    }
                    let t0 = Instant::now();
                    let r = one(&mut p, prop, &cases[i], budget);
                    if std::env::var("CVH_DEBUG").is_ok() && t0.elapsed().as_millis() > 500 {
                        eprintln!("case {} took {} ms: {}", i, t0.elapsed().as_millis(), &cases[i][..cases[i].len().min(120)]);
                    }
                    match r {
                        One::Reply(l, ms) => results.lock().unwrap()[i] = Some(Outcome::Reply(l, ms)),
                        One::Timeout => hung.lock().unwrap().push(i),
                        One::Died(how, stderr) => results.lock().unwrap()[i] = Some(Outcome::Died { how, stderr }),
                    }
                }
            });
        }
    });
    // A case that exceeded the budget is re-run alone (the machine may have been busy) with a
    // tripled budget before it is called a hang.
    let hung = hung.into_inner().unwrap();
    let mut results = results.into_inner().unwrap();
    for i in hung {
        let mut p: Option<Proc> = None;
        let b3 = budget * 3;
        results[i] = Some(match one(&mut p, prop, &cases[i], b3) {
            One::Reply(l, ms) => Outcome::Reply(l, ms),
            One::Timeout => Outcome::Hang(b3.as_millis() as u64),
            One::Died(how, stderr) => Outcome::Died { how, stderr },
        });
    }
    results.into_iter().map(|o| o.expect("every case has an outcome")).collect()
}

pub fn default_workers() -> usize {
    std::thread::available_parallelism().map(|n| n.get()).unwrap_or(4).min(16)
}
