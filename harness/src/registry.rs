//! Registry of property modules. To add one: create src/cXX.rs with
//! `pub fn run(cfg: &Cfg, rep: &mut Report)` and
//! `pub fn replay(kind: &str, input: &str) -> Result<Option<String>, String>`,
//! declare `mod cXX;` in main.rs and add an entry here.
use crate::report::Report;
use crate::Cfg;

pub struct Entry {
    pub id: &'static str,
    pub run: fn(&Cfg, &mut Report),
    pub replay: fn(&str, &str) -> Result<Option<String>, String>,
}

pub const ENTRIES: &[Entry] = &[
    Entry { id: "C10", run: crate::c10::run, replay: crate::c10::replay },
    Entry { id: "C14", run: crate::c14::run, replay: crate::c14::replay },
    Entry { id: "C18", run: crate::c18::run, replay: crate::c18::replay },
    Entry { id: "C19", run: crate::c19::run, replay: crate::c19::replay },
];

pub fn find(id: &str) -> Option<&'static Entry> {
    ENTRIES.iter().find(|e| e.id == id)
}
