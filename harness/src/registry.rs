//! Registry of property modules. To add one: create src/cXX.rs with
//! `pub fn run(cfg: &Cfg, rep: &mut Report)` and
//! `pub fn replay(kind: &str, input: &str) -> Result<Option<String>, String>`,
//! declare `mod cXX;` in main.rs and add an entry here.
use crate::report::Report;
use crate::Cfg;

pub struct Entry {
    pub id: &'static str,
    pub run: fn(&Cfg, &mut Report),
    pub replay: fn(&str, &str) -> Result<Option<String>, String>,
}

pub const ENTRIES: &[Entry] = &[
    Entry { id: "C04", run: crate::c04::run, replay: crate::c04::replay },
    Entry { id: "C05", run: crate::c05::run, replay: crate::c05::replay },
    Entry { id: "C01", run: crate::c01::run, replay: crate::c01::replay },
    Entry { id: "C06", run: crate::c06::run, replay: crate::c06::replay },
    Entry { id: "C02", run: crate::c02::run, replay: crate::c02::replay },
    Entry { id: "C03", run: crate::c03::run, replay: crate::c03::replay },
    Entry { id: "C07", run: crate::c07::run, replay: crate::c07::replay },
    Entry { id: "C09", run: crate::c09::run, replay: crate::c09::replay },
    Entry { id: "C08", run: crate::c08::run, replay: crate::c08::replay },
    Entry { id: "C10", run: crate::c10::run, replay: crate::c10::replay },
    Entry { id: "C11", run: crate::c11::run, replay: crate::c11::replay },
    Entry { id: "C12", run: crate::c12::run, replay: crate::c12::replay },
    Entry { id: "C13", run: crate::c13::run, replay: crate::c13::replay },
    Entry { id: "C14", run: crate::c14::run, replay: crate::c14::replay },
    Entry { id: "C15", run: crate::c15::run, replay: crate::c15::replay },
    Entry { id: "C16", run: crate::c16::run, replay: crate::c16::replay },
    Entry { id: "C17", run: crate::c17::run, replay: crate::c17::replay },
    Entry { id: "C18", run: crate::c18::run, replay: crate::c18::replay },
    Entry { id: "C19", run: crate::c19::run, replay: crate::c19::replay },
    Entry { id: "C20", run: crate::c20::run, replay: crate::c20::replay },
];

pub fn find(id: &str) -> Option<&'static Entry> {
    ENTRIES.iter().find(|e| e.id == id)
}
